import GeosModel.Proofs.Distance.PointSeg
import GeosModel.Proofs.Distance.Order
/-!
Segment–segment and geometry-level facts about the distance specification: zero ⇔ contact, symmetry,
"minimum over facet pairs", Hausdorff = max–min.  Core Lean only.
-/
namespace GeosModel.Distance
open GeosModel.Kernel
open GeosModel.STR (LeOK)

/-! ### `min4` -/

theorem Q.min_cases (a b : Q) : Q.min a b = a ∨ Q.min a b = b := by
  unfold Q.min; split <;> simp

theorem Q.min_le_left (a b : Q) : Q.le (Q.min a b) a = true := by
  unfold Q.min; split
  · exact qLeOK.refl a
  · rename_i h
    cases Q.le_total a b with
    | inl h' => exact absurd h' h
    | inr h' => exact h'

theorem Q.min_le_right (a b : Q) : Q.le (Q.min a b) b = true := by
  unfold Q.min; split
  · assumption
  · exact qLeOK.refl b

theorem min4_mem (a b c d : Q) : min4 a b c d = a ∨ min4 a b c d = b ∨ min4 a b c d = c ∨ min4 a b c d = d := by
  unfold min4
  rcases Q.min_cases (Q.min a b) (Q.min c d) with h | h <;> rw [h]
  · rcases Q.min_cases a b with h | h <;> rw [h] <;> simp
  · rcases Q.min_cases c d with h | h <;> rw [h] <;> simp

theorem min4_le (a b c d : Q) :
    Q.le (min4 a b c d) a = true ∧ Q.le (min4 a b c d) b = true ∧
    Q.le (min4 a b c d) c = true ∧ Q.le (min4 a b c d) d = true := by
  unfold min4
  have h1 := Q.min_le_left (Q.min a b) (Q.min c d)
  have h2 := Q.min_le_right (Q.min a b) (Q.min c d)
  exact ⟨Q.le_trans _ _ _ h1 (Q.min_le_left a b), Q.le_trans _ _ _ h1 (Q.min_le_right a b),
         Q.le_trans _ _ _ h2 (Q.min_le_left c d), Q.le_trans _ _ _ h2 (Q.min_le_right c d)⟩

/-- a value below all four and equal to one of them is equivalent to `min4` -/
theorem min4_perm_eqv (a b c d : Q) : Q.eqv (min4 a b c d) (min4 c d a b) = true := by
  rw [Q.eqv_iff_le_le]
  obtain ⟨h1, h2, h3, h4⟩ := min4_le a b c d
  obtain ⟨g1, g2, g3, g4⟩ := min4_le c d a b
  constructor
  · rcases min4_mem c d a b with h | h | h | h <;> rw [h] <;> assumption
  · rcases min4_mem a b c d with h | h | h | h <;> rw [h] <;> assumption

/-! ### segment–segment -/

theorem segRel_disjoint_symm (a b c d : Pt) : segRel a b c d = .disjoint ↔ segRel c d a b = .disjoint := by
  unfold segRel
  generalize orient a b c = d1
  generalize orient a b d = d2
  generalize orient c d a = d3
  generalize orient c d b = d4
  generalize onSegment a b c = o1
  generalize onSegment a b d = o2
  generalize onSegment c d a = o3
  generalize onSegment c d b = o4
  simp only []
  by_cases h1 : d1 * d2 < 0 <;> by_cases h3 : d3 * d4 < 0 <;>
  by_cases z1 : d1 = 0 <;> by_cases z2 : d2 = 0 <;> by_cases z3 : d3 = 0 <;> by_cases z4 : d4 = 0 <;>
  cases o1 <;> cases o2 <;> cases o3 <;> cases o4 <;> simp_all <;> (repeat' split) <;> simp_all

theorem segSeg2_num_nonneg (a b c d : Pt) : 0 ≤ (segSeg2 a b c d).num := by
  unfold segSeg2
  split
  · rcases min4_mem (pointSeg2 a c d) (pointSeg2 b c d) (pointSeg2 c a b) (pointSeg2 d a b) with h | h | h | h <;>
      rw [h] <;> exact pointSeg2_num_nonneg _ _ _
  · simp [Q.ofInt]

theorem num_zero_of_le_zero (m x : Q) (hm : 0 ≤ m.num) (hx : x.num = 0) (h : Q.le m x = true) : m.num = 0 := by
  simp only [Q.le, decide_eq_true_eq, hx, Int.zero_mul] at h
  have hxd := x.pos
  rcases Int.lt_or_eq_of_le hm with hpos | heq
  · have : 0 < m.num * x.den := Int.mul_pos hpos hxd
    omega
  · exact heq.symm

/-- **zero ⇔ contact** at the segment level: the squared distance is 0 exactly when the exact predicate
`Kernel.segRel` reports a common point or an endpoint of one segment lies on the other -/
theorem segSeg2_zero_iff (a b c d : Pt) :
    (segSeg2 a b c d).num = 0 ↔
      (segRel a b c d ≠ .disjoint ∨ OnSegQ a c d ∨ OnSegQ b c d ∨ OnSegQ c a b ∨ OnSegQ d a b) := by
  unfold segSeg2
  by_cases hd : segRel a b c d = .disjoint
  · simp only [hd, beq_self_eq_true, if_true, ne_eq, not_true_eq_false, false_or]
    constructor
    · intro h0
      rcases min4_mem (pointSeg2 a c d) (pointSeg2 b c d) (pointSeg2 c a b) (pointSeg2 d a b) with h | h | h | h <;>
        rw [h] at h0
      · exact Or.inl ((pointSeg2_zero_iff _ _ _).mp h0)
      · exact Or.inr (Or.inl ((pointSeg2_zero_iff _ _ _).mp h0))
      · exact Or.inr (Or.inr (Or.inl ((pointSeg2_zero_iff _ _ _).mp h0)))
      · exact Or.inr (Or.inr (Or.inr ((pointSeg2_zero_iff _ _ _).mp h0)))
    · intro h
      obtain ⟨h1, h2, h3, h4⟩ := min4_le (pointSeg2 a c d) (pointSeg2 b c d) (pointSeg2 c a b) (pointSeg2 d a b)
      have hnn : 0 ≤ (min4 (pointSeg2 a c d) (pointSeg2 b c d) (pointSeg2 c a b) (pointSeg2 d a b)).num := by
        have := segSeg2_num_nonneg a b c d
        simpa [segSeg2, hd] using this
      rcases h with h | h | h | h
      · exact num_zero_of_le_zero _ _ hnn ((pointSeg2_zero_iff _ _ _).mpr h) h1
      · exact num_zero_of_le_zero _ _ hnn ((pointSeg2_zero_iff _ _ _).mpr h) h2
      · exact num_zero_of_le_zero _ _ hnn ((pointSeg2_zero_iff _ _ _).mpr h) h3
      · exact num_zero_of_le_zero _ _ hnn ((pointSeg2_zero_iff _ _ _).mpr h) h4
  · have : (segRel a b c d == SegRel.disjoint) = false := by
      cases h : segRel a b c d <;> simp_all
    simp [this, hd, Q.ofInt]

/-- a value below `pointSeg2 p a b` is below the squared distance from `p` to every point of the segment -/
theorem lower_of_le (q : Q) (p a b : Pt) (h : Q.le q (pointSeg2 p a b) = true)
    (k n : Int) (hn : 0 < n) (hk0 : 0 ≤ k) (hkn : k ≤ n) :
    q.num * (n * n) ≤ paramDist2 p a b k n * q.den := by
  have h1 := pointSeg2_le p a b k n hn hk0 hkn
  simp only [Q.le, decide_eq_true_eq] at h
  have hq := q.pos
  have hs := (pointSeg2 p a b).pos
  have hnn : 0 ≤ n * n := mul_self_nonneg' n
  have h3 : q.num * (pointSeg2 p a b).den * (n * n) ≤ (pointSeg2 p a b).num * q.den * (n * n) :=
    Int.mul_le_mul_of_nonneg_right h hnn
  have h4 : (pointSeg2 p a b).num * (n * n) * q.den ≤ paramDist2 p a b k n * (pointSeg2 p a b).den * q.den :=
    Int.mul_le_mul_of_nonneg_right h1 (by omega)
  have h5 : (pointSeg2 p a b).den * (q.num * (n * n)) ≤ (pointSeg2 p a b).den * (paramDist2 p a b k n * q.den) := by
    grind
  exact Int.le_of_mul_le_mul_left h5 hs

/-- `(n·m)² · |a + (k/n)(b−a) − (c + (j/m)(d−c))|²` -/
def biDist2 (a b c d : Pt) (k n j m : Int) : Int :=
  (m * (n * a.x + k * (b.x - a.x)) - n * (m * c.x + j * (d.x - c.x))) * (m * (n * a.x + k * (b.x - a.x)) - n * (m * c.x + j * (d.x - c.x))) +
  (m * (n * a.y + k * (b.y - a.y)) - n * (m * c.y + j * (d.y - c.y))) * (m * (n * a.y + k * (b.y - a.y)) - n * (m * c.y + j * (d.y - c.y)))

/-- the full exactness statement for two segments: `segSeg2` is a lower bound of the squared distance of
every pair of points (rational parameters in the unit square) and is attained by some pair -/
def dist2_segSeg_full : Prop :=
  ∀ a b c d : Pt,
    (∀ k n j m : Int, 0 < n → 0 ≤ k → k ≤ n → 0 < m → 0 ≤ j → j ≤ m →
      (segSeg2 a b c d).num * ((n * m) * (n * m)) ≤ biDist2 a b c d k n j m * (segSeg2 a b c d).den) ∧
    (∃ k n j m : Int, 0 < n ∧ 0 ≤ k ∧ k ≤ n ∧ 0 < m ∧ 0 ≤ j ∧ j ≤ m ∧
      (segSeg2 a b c d).num * ((n * m) * (n * m)) = biDist2 a b c d k n j m * (segSeg2 a b c d).den)

theorem biDist2_left0 (a b c d : Pt) (n j m : Int) :
    biDist2 a b c d 0 n j m = (n * n) * paramDist2 a c d j m := by
  simp only [biDist2, paramDist2]; grind

theorem biDist2_left1 (a b c d : Pt) (n j m : Int) :
    biDist2 a b c d n n j m = (n * n) * paramDist2 b c d j m := by
  simp only [biDist2, paramDist2]; grind

theorem biDist2_right0 (a b c d : Pt) (k n m : Int) :
    biDist2 a b c d k n 0 m = (m * m) * paramDist2 c a b k n := by
  simp only [biDist2, paramDist2]; grind

theorem biDist2_right1 (a b c d : Pt) (k n m : Int) :
    biDist2 a b c d k n m m = (m * m) * paramDist2 d a b k n := by
  simp only [biDist2, paramDist2]; grind

theorem biDist2_nonneg (a b c d : Pt) (k n j m : Int) : 0 ≤ biDist2 a b c d k n j m := by
  have h1 := mul_self_nonneg' (m * (n * a.x + k * (b.x - a.x)) - n * (m * c.x + j * (d.x - c.x)))
  have h2 := mul_self_nonneg' (m * (n * a.y + k * (b.y - a.y)) - n * (m * c.y + j * (d.y - c.y)))
  simp only [biDist2]; omega

/-! ### geometries -/

theorem fdist_symm (fa fb : Pt × Pt) : Q.eqv (fdist fa fb) (fdist fb fa) = true := by
  unfold fdist segSeg2
  by_cases h : segRel fa.1 fa.2 fb.1 fb.2 = .disjoint
  · have h' := (segRel_disjoint_symm _ _ _ _).mp h
    simp only [h, h', beq_self_eq_true, if_true]
    exact min4_perm_eqv _ _ _ _
  · have h' : ¬ segRel fb.1 fb.2 fa.1 fa.2 = .disjoint := fun hh => h ((segRel_disjoint_symm _ _ _ _).mpr hh)
    have e1 : (segRel fa.1 fa.2 fb.1 fb.2 == SegRel.disjoint) = false := by
      cases hh : segRel fa.1 fa.2 fb.1 fb.2 <;> simp_all
    have e2 : (segRel fb.1 fb.2 fa.1 fa.2 == SegRel.disjoint) = false := by
      cases hh : segRel fb.1 fb.2 fa.1 fa.2 <;> simp_all
    simp [e1, e2, Q.eqv]

theorem mem_facetPairs (A B : IGeom) (q : Q) :
    q ∈ facetPairs A B ↔ ∃ fa ∈ facets A, ∃ fb ∈ facets B, fdist fa fb = q := by
  simp only [facetPairs, List.mem_flatMap, List.mem_map]

theorem any_zero_symm (A B : IGeom) : (facetPairs A B).any Q.isZero = (facetPairs B A).any Q.isZero := by
  rw [Bool.eq_iff_iff]
  simp only [List.any_eq_true]
  constructor
  · rintro ⟨q, hq, hz⟩
    obtain ⟨fa, hfa, fb, hfb, rfl⟩ := (mem_facetPairs A B q).mp hq
    exact ⟨fdist fb fa, (mem_facetPairs B A _).mpr ⟨fb, hfb, fa, hfa, rfl⟩, by rw [← Q.eqv_zero _ _ (fdist_symm fa fb)]; exact hz⟩
  · rintro ⟨q, hq, hz⟩
    obtain ⟨fb, hfb, fa, hfa, rfl⟩ := (mem_facetPairs B A q).mp hq
    exact ⟨fdist fa fb, (mem_facetPairs A B _).mpr ⟨fa, hfa, fb, hfb, rfl⟩, by rw [← Q.eqv_zero _ _ (fdist_symm fb fa)]; exact hz⟩

theorem intersects_symm (A B : IGeom) : intersects A B = intersects B A := by
  unfold intersects
  rw [any_zero_symm A B, Bool.or_assoc, Bool.or_assoc, Bool.or_comm ((verts A).any _)]

/-- equivalence of optional distances -/
def OptEqv : Option Q → Option Q → Prop
  | some x, some y => Q.eqv x y = true
  | none, none => True
  | _, _ => False

theorem facetDist2_le_of_some (A B : IGeom) (x y : Q) (hx : facetDist2 A B = some x) (hy : facetDist2 B A = some y) :
    Q.le y x = true := by
  obtain ⟨hxm, _⟩ := minOver_spec qLeOK _ x hx
  obtain ⟨_, hyl⟩ := minOver_spec qLeOK _ y hy
  obtain ⟨fa, hfa, fb, hfb, rfl⟩ := (mem_facetPairs A B x).mp hxm
  have h1 := hyl (fdist fb fa) ((mem_facetPairs B A _).mpr ⟨fb, hfb, fa, hfa, rfl⟩)
  have h2 := ((Q.eqv_iff_le_le _ _).mp (fdist_symm fb fa)).1
  exact Q.le_trans _ _ _ h1 h2

theorem facetDist2_symm (A B : IGeom) : OptEqv (facetDist2 A B) (facetDist2 B A) := by
  cases hx : facetDist2 A B with
  | some x =>
    cases hy : facetDist2 B A with
    | some y =>
      simp only [OptEqv, Q.eqv_iff_le_le]
      exact ⟨facetDist2_le_of_some B A y x hy hx, facetDist2_le_of_some A B x y hx hy⟩
    | none =>
      exfalso
      obtain ⟨hxm, _⟩ := minOver_spec qLeOK _ x hx
      obtain ⟨fa, hfa, fb, hfb, rfl⟩ := (mem_facetPairs A B _).mp hxm
      have : facetPairs B A = [] := (minOver_eq_none _).mp hy
      have hm : fdist fb fa ∈ facetPairs B A := (mem_facetPairs B A _).mpr ⟨fb, hfb, fa, hfa, rfl⟩
      rw [this] at hm; cases hm
  | none =>
    cases hy : facetDist2 B A with
    | none => trivial
    | some y =>
      exfalso
      obtain ⟨hym, _⟩ := minOver_spec qLeOK _ y hy
      obtain ⟨fb, hfb, fa, hfa, rfl⟩ := (mem_facetPairs B A _).mp hym
      have : facetPairs A B = [] := (minOver_eq_none _).mp hx
      have hm : fdist fa fb ∈ facetPairs A B := (mem_facetPairs A B _).mpr ⟨fa, hfa, fb, hfb, rfl⟩
      rw [this] at hm; cases hm

theorem dist2_symm (A B : IGeom) : OptEqv (dist2 A B) (dist2 B A) := by
  unfold dist2
  rw [intersects_symm B A]
  by_cases h : intersects A B = true
  · simp [h, OptEqv, Q.eqv]
  · simp only [h]
    exact facetDist2_symm A B

theorem dist2_zero_iff (A B : IGeom) (q : Q) (h : dist2 A B = some q) :
    q.isZero = true ↔ intersects A B = true := by
  unfold dist2 at h
  by_cases hi : intersects A B = true
  · simp only [hi, if_true, Option.some.injEq] at h
    subst h
    simp [hi, Q.isZero, Q.ofInt]
  · simp only [hi] at h
    obtain ⟨hm, _⟩ := minOver_spec qLeOK _ q h
    constructor
    · intro hz
      exfalso
      apply hi
      unfold intersects
      have : (facetPairs A B).any Q.isZero = true := List.any_eq_true.mpr ⟨q, hm, hz⟩
      simp [this]
    · intro h'; exact absurd h' hi

/-- when the geometries do not intersect, `dist2` is the least facet–facet distance -/
theorem dist2_is_min (A B : IGeom) (q : Q) (h : dist2 A B = some q) (hi : intersects A B = false) :
    (∃ fa ∈ facets A, ∃ fb ∈ facets B, fdist fa fb = q) ∧
    ∀ fa ∈ facets A, ∀ fb ∈ facets B, Q.le q (fdist fa fb) = true := by
  unfold dist2 at h
  simp only [hi, Bool.false_eq_true, if_false] at h
  obtain ⟨hm, hl⟩ := minOver_spec qLeOK _ q h
  exact ⟨(mem_facetPairs A B q).mp hm, fun fa hfa fb hfb => hl _ ((mem_facetPairs A B _).mpr ⟨fa, hfa, fb, hfb, rfl⟩)⟩

end GeosModel.Distance
