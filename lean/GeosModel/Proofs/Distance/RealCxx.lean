import Mathlib.Analysis.Real.Sqrt
import GeosModel.Base.Cxx
/-!
# The real numbers as a carrier of regenerated C++ (`Cxx.Math ℝ`)

`translate/cxx2lean.py` turns a C++ `double` into an abstract carrier with the operations of `GeosModel.Cxx`.  Code that calls
`std::sqrt` needs the class `Math`, which has no exact computable instance; for *proofs* the regenerated definitions are
instantiated with `ℝ` (`std::sqrt` = `Real.sqrt`, `/` = real division, comparisons = the order of `ℝ`, no NaN, everything finite).
The instance is noncomputable and used only in `Props/C08Gen.lean`; nothing here is linked into a driver.
-/
namespace GeosModel.Cxx
open Classical

noncomputable instance instMathReal : Math ℝ where
  lt a b := decide (a < b)
  le a b := decide (a ≤ b)
  eq a b := decide (a = b)
  add := (· + ·)
  sub := (· - ·)
  mul := (· * ·)
  neg := (- ·)
  abs a := |a|
  ofInt i := (i : ℝ)
  div := (· / ·)
  ofDec m e := (m : ℝ) * (10 : ℝ) ^ e
  sqrt := Real.sqrt
  floor a := (⌊a⌋ : ℝ)
  ceil a := (⌈a⌉ : ℝ)
  toInt a := if a < 0 then -⌊-a⌋ else ⌊a⌋
  isNaN _ := false
  isFinite _ := true

@[simp] theorem real_lt (a b : ℝ) : Ord.lt a b = decide (a < b) := rfl
@[simp] theorem real_le (a b : ℝ) : Ord.le a b = decide (a ≤ b) := rfl
@[simp] theorem real_eq (a b : ℝ) : Ord.eq a b = decide (a = b) := rfl
@[simp] theorem real_add (a b : ℝ) : Ring.add a b = a + b := rfl
@[simp] theorem real_sub (a b : ℝ) : Ring.sub a b = a - b := rfl
@[simp] theorem real_mul (a b : ℝ) : Ring.mul a b = a * b := rfl
@[simp] theorem real_neg (a : ℝ) : Ring.neg a = -a := rfl
@[simp] theorem real_abs (a : ℝ) : Ring.abs a = |a| := rfl
@[simp] theorem real_ofInt (a : Int) : (Ring.ofInt a : ℝ) = (a : ℝ) := rfl
@[simp] theorem real_div (a b : ℝ) : Field.div a b = a / b := rfl
@[simp] theorem real_sqrt (a : ℝ) : Math.sqrt a = Real.sqrt a := rfl

end GeosModel.Cxx
