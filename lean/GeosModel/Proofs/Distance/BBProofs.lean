import GeosModel.Model.Index.STR
/-!
Correctness of the best-first branch-and-bound loop `GeosModel.STR.nnLoop` / `nearestRoot`
(the model of `TemplateSTRtreeDistance::nearestNeighbour`): for any tree, any lower-bound function that is
admissible (`lb (bounds of a branch) ≤ dist item` for every live item below it) and any total preorder
`le`, the loop — given fuel ≥ the number of tree nodes — returns a live item of minimum distance.
Core Lean only.
-/
namespace GeosModel.STR
variable {β ι D : Type}

/-- `le` is a total preorder -/
structure LeOK (le : D → D → Bool) : Prop where
  total : ∀ a b, le a b = true ∨ le b a = true
  trans : ∀ a b c, le a b = true → le b c = true → le a c = true

theorem LeOK.refl {le : D → D → Bool} (ok : LeOK le) (a : D) : le a a = true := by
  cases ok.total a a <;> assumption

mutual
  /-- admissible bounds: every branch's lower bound is below the distance of every live item under it -/
  def Node.Adm (le : D → D → Bool) (lb : β → D) (dist : ι → D) : Node β ι → Prop
    | .leaf _ => True
    | .branch b ks => (∀ e ∈ leavesL ks, e.deleted = false → le (lb b) (dist e.item) = true) ∧ AdmL le lb dist ks
  def AdmL (le : D → D → Bool) (lb : β → D) (dist : ι → D) : List (Node β ι) → Prop
    | [] => True
    | k :: ks => k.Adm le lb dist ∧ AdmL le lb dist ks
end

theorem numNodes_pos : ∀ (n : Node β ι), 1 ≤ n.numNodes
  | .leaf _ => by simp [Node.numNodes]
  | .branch _ _ => by simp only [Node.numNodes]; omega

section
variable (le : D → D → Bool) (lb : β → D) (dist : ι → D)

/-- what a queue element must satisfy: its key is the exact distance (live leaf) or the bound (branch with
admissible subtree), and all its leaves belong to the tree `S` being searched -/
def QOK (S : List (Entry β ι)) (x : QE β ι D) : Prop :=
  (match x.node with
   | .leaf e => e.deleted = false ∧ x.key = dist e.item
   | .branch b _ => x.key = lb b ∧ x.node.Adm le lb dist) ∧
  ∀ e ∈ x.node.leaves, e ∈ S

def Sorted (q : List (QE β ι D)) : Prop := q.Pairwise (fun a b => le a.key b.key = true)

def qsize : List (QE β ι D) → Nat
  | [] => 0
  | x :: q => x.node.numNodes + qsize q

variable {le lb dist}

theorem QOK.key_le (ok : LeOK le) {S : List (Entry β ι)} {x : QE β ι D} (h : QOK le lb dist S x) :
    ∀ e ∈ x.node.leaves, e.deleted = false → le x.key (dist e.item) = true := by
  obtain ⟨h1, _⟩ := h
  intro e he hd
  cases hx : x.node with
  | leaf e0 =>
    rw [hx] at h1 he
    simp only [Node.leaves, List.mem_singleton] at he
    subst he
    rw [h1.2]; exact ok.refl _
  | branch b ks =>
    rw [hx] at h1 he
    simp only [Node.leaves] at he
    simp only [Node.Adm] at h1
    rw [h1.1]; exact h1.2.1 e he hd

theorem mem_insertSorted (x : QE β ι D) (q : List (QE β ι D)) (y : QE β ι D) :
    y ∈ insertSorted le x q ↔ y = x ∨ y ∈ q := by
  induction q with
  | nil => simp [insertSorted]
  | cons z zs ih =>
    simp only [insertSorted]
    split
    · simp
    · simp only [List.mem_cons, ih]
      constructor
      · rintro (h | h | h)
        · exact Or.inr (Or.inl h)
        · exact Or.inl h
        · exact Or.inr (Or.inr h)
      · rintro (h | h | h)
        · exact Or.inr (Or.inl h)
        · exact Or.inl h
        · exact Or.inr (Or.inr h)

theorem sorted_insertSorted (ok : LeOK le) (x : QE β ι D) (q : List (QE β ι D)) (hs : Sorted le q) :
    Sorted le (insertSorted le x q) := by
  induction q with
  | nil => simp [insertSorted, Sorted]
  | cons z zs ih =>
    simp only [Sorted, List.pairwise_cons] at hs
    simp only [insertSorted]
    split
    · rename_i hle
      simp only [Sorted, List.pairwise_cons]
      refine ⟨?_, hs⟩
      intro y hy
      simp only [List.mem_cons] at hy
      rcases hy with rfl | hy
      · exact hle
      · exact ok.trans _ _ _ hle (hs.1 y hy)
    · rename_i hle
      have hzx : le z.key x.key = true := by
        cases ok.total x.key z.key with
        | inl h => exact absurd h hle
        | inr h => exact h
      simp only [Sorted, List.pairwise_cons]
      refine ⟨?_, ih hs.2⟩
      intro y hy
      rw [mem_insertSorted] at hy
      rcases hy with rfl | hy
      · exact hzx
      · exact hs.1 y hy

theorem qsize_insertSorted (x : QE β ι D) (q : List (QE β ι D)) :
    qsize (insertSorted le x q) = x.node.numNodes + qsize q := by
  induction q with
  | nil => simp [insertSorted, qsize]
  | cons z zs ih =>
    simp only [insertSorted]
    split
    · simp [qsize]
    · simp only [qsize, ih]; omega

/-- one iteration of the child loop of `expand` -/
def pushKid (le : D → D → Bool) (lb : β → D) (dist : ι → D) (best : Option D)
    (q : List (QE β ι D)) (k : Node β ι) : List (QE β ι D) :=
  match k with
  | .leaf e =>
      if e.deleted then q else
        let d := dist e.item
        (match best with
         | some m => if le m d then q else insertSorted le ⟨d, k⟩ q
         | none => insertSorted le ⟨d, k⟩ q)
  | .branch b _ =>
      let d := lb b
      (match best with
       | some m => if le m d then q else insertSorted le ⟨d, k⟩ q
       | none => insertSorted le ⟨d, k⟩ q)

theorem expandKids_eq (best : Option D) (ks : List (Node β ι)) (q : List (QE β ι D)) :
    expandKids le lb dist best ks q = ks.foldl (pushKid le lb dist best) q := by
  unfold expandKids
  congr 1

/-- the queue after pushing one child: either unchanged because the child was pruned (then everything live
below it is no closer than `best`) or deleted, or the child's pair was inserted -/
theorem pushKid_cases (ok : LeOK le) (S : List (Entry β ι)) (best : Option D) (q : List (QE β ι D)) (k : Node β ι)
    (hk : k.Adm le lb dist) (hS : ∀ e ∈ k.leaves, e ∈ S) :
    (pushKid le lb dist best q k = q ∧
      ∀ e ∈ k.leaves, e.deleted = false → ∃ m, best = some m ∧ le m (dist e.item) = true) ∨
    (∃ x, pushKid le lb dist best q k = insertSorted le x q ∧ x.node = k ∧ QOK le lb dist S x) := by
  cases k with
  | leaf e =>
    simp only [pushKid]
    by_cases hd : e.deleted = true
    · left
      refine ⟨by simp [hd], ?_⟩
      intro e' he' hd'
      simp only [Node.leaves, List.mem_singleton] at he'
      subst he'
      rw [hd] at hd'; cases hd'
    · have hd' : e.deleted = false := by simpa using hd
      simp only [hd', Bool.false_eq_true, if_false]
      have hx : QOK le lb dist S (⟨dist e.item, .leaf e⟩ : QE β ι D) := ⟨⟨hd', rfl⟩, hS⟩
      cases best with
      | none => right; exact ⟨_, rfl, rfl, hx⟩
      | some m =>
        by_cases hle : le m (dist e.item) = true
        · left
          refine ⟨by simp [hle], ?_⟩
          intro e' he' _
          simp only [Node.leaves, List.mem_singleton] at he'
          subst he'
          exact ⟨m, rfl, hle⟩
        · right
          exact ⟨_, by simp [hle], rfl, hx⟩
  | branch b ks =>
    simp only [pushKid]
    have hx : QOK le lb dist S (⟨lb b, .branch b ks⟩ : QE β ι D) := ⟨⟨rfl, hk⟩, hS⟩
    cases best with
    | none => right; exact ⟨_, rfl, rfl, hx⟩
    | some m =>
      by_cases hle : le m (lb b) = true
      · left
        refine ⟨by simp [hle], ?_⟩
        intro e he hd
        simp only [Node.Adm] at hk
        simp only [Node.leaves] at he
        exact ⟨m, rfl, ok.trans _ _ _ hle (hk.1 e he hd)⟩
      · right
        exact ⟨_, by simp [hle], rfl, hx⟩

/-- effect of `expand` (the whole child loop) on the queue -/
theorem expandKids_spec (ok : LeOK le) (S : List (Entry β ι)) (best : Option D) :
    ∀ (ks : List (Node β ι)) (q : List (QE β ι D)),
      AdmL le lb dist ks → (∀ e ∈ leavesL ks, e ∈ S) → Sorted le q → (∀ x ∈ q, QOK le lb dist S x) →
      let q' := expandKids le lb dist best ks q
      Sorted le q' ∧ (∀ x ∈ q', QOK le lb dist S x) ∧ qsize q' ≤ numNodesL ks + qsize q ∧
      (∀ x ∈ q, x ∈ q') ∧
      (∀ e ∈ leavesL ks, e.deleted = false →
        (∃ x ∈ q', e ∈ x.node.leaves) ∨ (∃ m, best = some m ∧ le m (dist e.item) = true)) := by
  intro ks
  induction ks with
  | nil =>
    intro q _ _ hs hq
    simp only [expandKids_eq, List.foldl_nil]
    refine ⟨hs, hq, by simp [numNodesL], fun x hx => hx, ?_⟩
    intro e he; simp [leavesL] at he
  | cons k ks ih =>
    intro q hadm hS hs hq
    simp only [AdmL] at hadm
    have hSk : ∀ e ∈ k.leaves, e ∈ S := fun e he => hS e (by simp [leavesL, he])
    have hSks : ∀ e ∈ leavesL ks, e ∈ S := fun e he => hS e (by simp [leavesL, he])
    simp only [expandKids_eq, List.foldl_cons]
    rcases pushKid_cases ok S best q k hadm.1 hSk with ⟨heq, hpr⟩ | ⟨x, heq, hxk, hxok⟩
    · rw [heq]
      have := ih q hadm.2 hSks hs hq
      simp only [expandKids_eq] at this
      obtain ⟨h1, h2, h3, h4, h5⟩ := this
      refine ⟨h1, h2, ?_, h4, ?_⟩
      · have := numNodes_pos k
        simp only [numNodesL]; omega
      · intro e he hd
        simp only [leavesL, List.mem_append] at he
        rcases he with he | he
        · exact Or.inr (hpr e he hd)
        · exact h5 e he hd
    · rw [heq]
      have hs' := sorted_insertSorted ok x q hs
      have hq' : ∀ y ∈ insertSorted le x q, QOK le lb dist S y := by
        intro y hy
        rw [mem_insertSorted] at hy
        rcases hy with rfl | hy
        · exact hxok
        · exact hq y hy
      have := ih (insertSorted le x q) hadm.2 hSks hs' hq'
      simp only [expandKids_eq] at this
      obtain ⟨h1, h2, h3, h4, h5⟩ := this
      refine ⟨h1, h2, ?_, ?_, ?_⟩
      · rw [qsize_insertSorted, hxk] at h3
        simp only [numNodesL]; omega
      · intro y hy
        exact h4 y ((mem_insertSorted x q y).mpr (Or.inr hy))
      · intro e he hd
        simp only [leavesL, List.mem_append] at he
        rcases he with he | he
        · left
          exact ⟨x, h4 x ((mem_insertSorted x q x).mpr (Or.inl rfl)), by rw [hxk]; exact he⟩
        · exact h5 e he hd

/-- loop invariant -/
structure Inv (le : D → D → Bool) (lb : β → D) (dist : ι → D) (S : List (Entry β ι))
    (q : List (QE β ι D)) (best : Option (D × ι)) : Prop where
  sorted : Sorted le q
  elems : ∀ x ∈ q, QOK le lb dist S x
  bestOK : ∀ m i, best = some (m, i) → ∃ e ∈ S, e.deleted = false ∧ e.item = i ∧ m = dist i
  cover : ∀ e ∈ S, e.deleted = false →
    (∃ x ∈ q, e ∈ x.node.leaves) ∨ (∃ m i, best = some (m, i) ∧ le m (dist e.item) = true)

/-- what the search promises -/
def Res (le : D → D → Bool) (dist : ι → D) (S : List (Entry β ι)) : Option (D × ι) → Prop
  | some (m, i) => (∃ e ∈ S, e.deleted = false ∧ e.item = i ∧ m = dist i) ∧
      ∀ e ∈ S, e.deleted = false → le m (dist e.item) = true
  | none => ∀ e ∈ S, e.deleted = true

theorem res_of_empty_queue (S : List (Entry β ι)) (best : Option (D × ι))
    (h : Inv le lb dist S [] best) : Res le dist S best := by
  cases best with
  | none =>
    intro e he
    cases hd : e.deleted with
    | true => rfl
    | false =>
      rcases h.cover e he hd with ⟨x, hx, _⟩ | ⟨m, i, hb, _⟩
      · cases hx
      · cases hb
  | some p =>
    obtain ⟨m, i⟩ := p
    refine ⟨h.bestOK m i rfl, ?_⟩
    intro e he hd
    rcases h.cover e he hd with ⟨x, hx, _⟩ | ⟨m', i', hb, hle⟩
    · cases hx
    · simp only [Option.some.injEq, Prod.mk.injEq] at hb
      obtain ⟨rfl, rfl⟩ := hb
      exact hle

theorem qsize_zero {q : List (QE β ι D)} (h : qsize q = 0) : q = [] := by
  cases q with
  | nil => rfl
  | cons x q =>
    have := numNodes_pos x.node
    simp only [qsize] at h; omega

/-- **the loop returns a minimum**, provided the fuel covers the nodes still reachable from the queue -/
theorem nnLoop_spec (ok : LeOK le) (S : List (Entry β ι)) :
    ∀ (f : Nat) (q : List (QE β ι D)) (best : Option (D × ι)),
      qsize q ≤ f → Inv le lb dist S q best → Res le dist S (nnLoop le lb dist f q best) := by
  intro f
  induction f with
  | zero =>
    intro q best hf hinv
    have hq : q = [] := qsize_zero (by omega)
    subst hq
    simp only [nnLoop]
    exact res_of_empty_queue S best hinv
  | succ f ih =>
    intro q best hf hinv
    cases q with
    | nil =>
      simp only [nnLoop]
      exact res_of_empty_queue S best hinv
    | cons x q =>
      have hxok := hinv.elems x (by simp)
      have hsorted := hinv.sorted
      simp only [Sorted, List.pairwise_cons] at hsorted
      have helems : ∀ y ∈ q, QOK le lb dist S y := fun y hy => hinv.elems y (by simp [hy])
      have hxle := QOK.key_le ok hxok
      simp only [qsize] at hf
      have hxpos := numNodes_pos x.node
      cases best with
      | some p =>
        obtain ⟨m, i⟩ := p
        obtain ⟨e0, he0S, he0d, he0i, hm⟩ := hinv.bestOK m i rfl
        by_cases hle : le m x.key = true
        · -- head of the queue is no better than the best leaf: done
          simp only [nnLoop, hle, if_true]
          refine ⟨⟨e0, he0S, he0d, he0i, hm⟩, ?_⟩
          intro e he hd
          rcases hinv.cover e he hd with ⟨y, hy, hey⟩ | ⟨m', i', hb, hle'⟩
          · simp only [List.mem_cons] at hy
            rcases hy with rfl | hy
            · exact ok.trans _ _ _ hle (hxle e hey hd)
            · exact ok.trans _ _ _ hle (ok.trans _ _ _ (hsorted.1 y hy) (QOK.key_le ok (helems y hy) e hey hd))
          · simp only [Option.some.injEq, Prod.mk.injEq] at hb
            obtain ⟨rfl, rfl⟩ := hb
            exact hle'
        · have hxm : le x.key m = true := by
            cases ok.total m x.key with
            | inl h => exact absurd h hle
            | inr h => exact h
          cases hx : x.node with
          | leaf e1 =>
            simp only [nnLoop, hle, hx, Bool.false_eq_true, if_false]
            unfold QOK at hxok
            rw [hx] at hxok hxle hxpos hf
            apply ih q _ (by omega)
            obtain ⟨⟨he1d, he1k⟩, he1S⟩ := hxok
            refine ⟨hsorted.2, helems, ?_, ?_⟩
            · intro m' i' hb
              simp only [Option.some.injEq, Prod.mk.injEq] at hb
              obtain ⟨rfl, rfl⟩ := hb
              exact ⟨e1, he1S e1 (by simp [Node.leaves]), he1d, rfl, he1k⟩
            · intro e he hd
              rcases hinv.cover e he hd with ⟨y, hy, hey⟩ | ⟨m', i', hb, hle'⟩
              · simp only [List.mem_cons] at hy
                rcases hy with rfl | hy
                · right
                  exact ⟨_, _, rfl, hxle e (by rw [hx] at hey; exact hey) hd⟩
                · left; exact ⟨y, hy, hey⟩
              · right
                simp only [Option.some.injEq, Prod.mk.injEq] at hb
                obtain ⟨rfl, rfl⟩ := hb
                exact ⟨_, _, rfl, ok.trans _ _ _ hxm hle'⟩
          | branch b ks =>
            simp only [nnLoop, hle, hx, Bool.false_eq_true, if_false]
            unfold QOK at hxok
            rw [hx] at hxok hxle hxpos hf
            obtain ⟨⟨_, hadm⟩, hbS⟩ := hxok
            simp only [Node.Adm] at hadm
            simp only [Node.leaves] at hbS
            have hspec := expandKids_spec ok S (some m) ks q hadm.2 hbS hsorted.2 helems
            obtain ⟨h1, h2, h3, h4, h5⟩ := hspec
            apply ih _ _ (by simp only [Node.numNodes] at hf; omega)
            refine ⟨h1, h2, hinv.bestOK, ?_⟩
            intro e he hd
            rcases hinv.cover e he hd with ⟨y, hy, hey⟩ | ⟨m', i', hb, hle'⟩
            · simp only [List.mem_cons] at hy
              rcases hy with rfl | hy
              · rw [hx] at hey
                simp only [Node.leaves] at hey
                rcases h5 e hey hd with h | ⟨m', hm', hle'⟩
                · exact Or.inl h
                · right
                  simp only [Option.some.injEq] at hm'
                  subst hm'
                  exact ⟨_, _, rfl, hle'⟩
              · left; exact ⟨y, h4 y hy, hey⟩
            · exact Or.inr ⟨m', i', hb, hle'⟩
      | none =>
        cases hx : x.node with
        | leaf e1 =>
          simp only [nnLoop, hx]
          unfold QOK at hxok
          rw [hx] at hxok hxle hxpos hf
          apply ih q _ (by omega)
          obtain ⟨⟨he1d, he1k⟩, he1S⟩ := hxok
          refine ⟨hsorted.2, helems, ?_, ?_⟩
          · intro m' i' hb
            simp only [Option.some.injEq, Prod.mk.injEq] at hb
            obtain ⟨rfl, rfl⟩ := hb
            exact ⟨e1, he1S e1 (by simp [Node.leaves]), he1d, rfl, he1k⟩
          · intro e he hd
            rcases hinv.cover e he hd with ⟨y, hy, hey⟩ | ⟨m', i', hb, _⟩
            · simp only [List.mem_cons] at hy
              rcases hy with rfl | hy
              · right
                exact ⟨_, _, rfl, hxle e (by rw [hx] at hey; exact hey) hd⟩
              · left; exact ⟨y, hy, hey⟩
            · cases hb
        | branch b ks =>
          simp only [nnLoop, hx]
          unfold QOK at hxok
          rw [hx] at hxok hxle hxpos hf
          obtain ⟨⟨_, hadm⟩, hbS⟩ := hxok
          simp only [Node.Adm] at hadm
          simp only [Node.leaves] at hbS
          have hspec := expandKids_spec ok S (none : Option D) ks q hadm.2 hbS hsorted.2 helems
          obtain ⟨h1, h2, h3, h4, h5⟩ := hspec
          apply ih _ _ (by simp only [Node.numNodes] at hf; omega)
          refine ⟨h1, h2, hinv.bestOK, ?_⟩
          intro e he hd
          rcases hinv.cover e he hd with ⟨y, hy, hey⟩ | ⟨m', i', hb, _⟩
          · simp only [List.mem_cons] at hy
            rcases hy with rfl | hy
            · rw [hx] at hey
              simp only [Node.leaves] at hey
              rcases h5 e hey hd with h | ⟨m', hm', _⟩
              · exact Or.inl h
              · cases hm'
            · left; exact ⟨y, h4 y hy, hey⟩
          · cases hb

end

end GeosModel.STR
