import GeosModel.Model.Api.Heap
/-! Lemmas about the ownership-discipline model (`Model/Api/Heap.lean`) used by `Props/C12.lean`. -/
namespace GeosModel.Api

/-! ### unpacking legality -/

structure Legal (h : Heap) (c : Call) (obs : Obs) : Prop where
  args : ∀ a ∈ c.args, argOk h a = true
  excl : ∀ i ∈ c.excl, exclusiveOk h i = true
  nodup : c.excl.Nodup
  sep : ∀ i ∈ c.readOnly, root h i ∉ c.excl
  obs : obsOk c obs = true

theorem legal_iff (h : Heap) (c : Call) (obs : Obs) : legal h c obs = true ↔ Legal h c obs := by
  constructor
  · intro hl
    simp only [legal, Bool.and_eq_true, List.all_eq_true, decide_eq_true_eq, Bool.not_eq_true',
      List.contains_eq_mem, decide_eq_false_iff_not] at hl
    obtain ⟨⟨⟨⟨h1, h2⟩, h3⟩, h4⟩, h5⟩ := hl
    exact ⟨h1, h2, h3, h4, h5⟩
  · intro ⟨h1, h2, h3, h4, h5⟩
    simp only [legal, Bool.and_eq_true, List.all_eq_true, decide_eq_true_eq, Bool.not_eq_true',
      List.contains_eq_mem, decide_eq_false_iff_not]
    exact ⟨⟨⟨⟨h1, h2⟩, h3⟩, h4⟩, h5⟩

theorem step_ok_iff (h : Heap) (c : Call) (obs : Obs) (h' : Heap) (out : Outcome) :
    step h c obs = .ok (h', out) ↔ Legal h c obs ∧ h' = apply h c obs ∧ out = outcome h c obs := by
  unfold step
  by_cases hl : legal h c obs = true
  · simp only [hl, if_true, Except.ok.injEq, Prod.mk.injEq]
    rw [← legal_iff]
    constructor
    · rintro ⟨rfl, rfl⟩; exact ⟨hl, rfl, rfl⟩
    · rintro ⟨_, rfl, rfl⟩; exact ⟨rfl, rfl⟩
  · simp only [hl, Bool.false_eq_true, if_false]
    rw [← legal_iff]
    constructor
    · intro hh; cases hh
    · rintro ⟨h1, _, _⟩; exact absurd h1 hl

theorem mem_idsOf (c : Call) (p : Mode → Bool) (i : Id) :
    i ∈ c.idsOf p ↔ ∃ a ∈ c.args, p a.mode = true ∧ i ∈ a.ids := by
  simp only [Call.idsOf, List.mem_flatMap, List.mem_filter]
  constructor
  · rintro ⟨a, ⟨ha, hp⟩, hi⟩; exact ⟨a, ha, hp, hi⟩
  · rintro ⟨a, ha, hp, hi⟩; exact ⟨a, ⟨ha, hp⟩, hi⟩

theorem mem_allIds (c : Call) (i : Id) : i ∈ c.allIds ↔ ∃ a ∈ c.args, i ∈ a.ids := by
  simp [Call.allIds, List.mem_flatMap]

theorem idsOf_sub_allIds (c : Call) (p : Mode → Bool) (i : Id) (hi : i ∈ c.idsOf p) : i ∈ c.allIds := by
  obtain ⟨a, ha, _, hia⟩ := (mem_idsOf c p i).mp hi
  exact (mem_allIds c i).mpr ⟨a, ha, hia⟩

theorem consumed_sub_excl (c : Call) (i : Id) (hi : i ∈ c.consumed) : i ∈ c.excl := by
  simp [Call.excl, hi]

theorem mutated_sub_excl (c : Call) (i : Id) (hi : i ∈ c.mutated) : i ∈ c.excl := by
  simp [Call.excl, hi]

theorem retained_sub_readOnly (c : Call) (i : Id) (hi : i ∈ c.retained) : i ∈ c.readOnly := by
  obtain ⟨a, ha, hp, hia⟩ := (mem_idsOf c _ i).mp hi
  refine (mem_idsOf c _ i).mpr ⟨a, ha, ?_, hia⟩
  simp only [beq_iff_eq] at hp
  simp [hp]

/-- every argument is live and of the declared kind (`legal_seq_no_dangling`, one call) -/
theorem Legal.arg_live {h : Heap} {c : Call} {obs : Obs} (hl : Legal h c obs) (i : Id) (hi : i ∈ c.allIds) :
    ∃ o, h[i]? = some o ∧ o.live = true := by
  obtain ⟨a, ha, hia⟩ := (mem_allIds c i).mp hi
  have := hl.args a ha
  simp only [argOk, Bool.and_eq_true, List.all_eq_true] at this
  have h2 := this.2 i hia
  cases hg : h[i]? with
  | none => simp [hg] at h2
  | some o =>
    simp only [hg, Bool.and_eq_true] at h2
    exact ⟨o, rfl, h2.1⟩

/-- every argument id is consumed, modified or read-only -/
theorem Legal.arg_cases {h : Heap} {c : Call} {obs : Obs} (hl : Legal h c obs) (i : Id) (hi : i ∈ c.allIds) :
    i ∈ c.excl ∨ i ∈ c.readOnly := by
  obtain ⟨a, ha, hia⟩ := (mem_allIds c i).mp hi
  have := hl.args a ha
  simp only [argOk, Bool.and_eq_true, bne_iff_ne, ne_eq] at this
  have hm := this.1
  cases hmode : a.mode with
  | na => exact absurd hmode hm
  | const_ => right; exact (mem_idsOf c _ i).mpr ⟨a, ha, by simp [hmode], hia⟩
  | retain => right; exact (mem_idsOf c _ i).mpr ⟨a, ha, by simp [hmode], hia⟩
  | modify => left; exact mutated_sub_excl c i ((mem_idsOf c _ i).mpr ⟨a, ha, by simp [hmode], hia⟩)
  | consume => left; exact consumed_sub_excl c i ((mem_idsOf c _ i).mpr ⟨a, ha, by simp [hmode], hia⟩)

theorem Legal.excl_owned {h : Heap} {c : Call} {obs : Obs} (hl : Legal h c obs) (i : Id) (hi : i ∈ c.excl) :
    (∃ o, h[i]? = some o ∧ o.owner = none) ∧ isBorrowed h i = false := by
  have := hl.excl i hi
  simp only [exclusiveOk, Bool.and_eq_true, Bool.not_eq_true'] at this
  refine ⟨?_, this.2⟩
  cases hg : h[i]? with
  | none => simp [hg] at this
  | some o =>
    simp only [hg, beq_iff_eq] at this
    exact ⟨o, rfl, this.1⟩

theorem not_borrowed {h : Heap} {i : Id} (hb : isBorrowed h i = false) (j : Id) (o : Obj)
    (hj : h[j]? = some o) (hlive : o.live = true) : i ∉ o.borrows := by
  intro hmem
  have : isBorrowed h i = true := by
    simp only [isBorrowed, List.any_eq_true, Bool.and_eq_true, List.contains_eq_mem, decide_eq_true_eq]
    exact ⟨o, List.mem_of_getElem? hj, hlive, hmem⟩
  simp [this] at hb

/-! ### the effect on old and new positions -/

theorem touch_live_of (c : Call) (R : List Id) (i : Id) (o : Obj) (hl : (touch c R i o).live = true) :
    o.live = true := by
  unfold touch at hl
  split at hl
  · simp at hl
  · split at hl
    · simpa using hl
    · split at hl
      · split at hl
        · simp at hl
        · exact hl
      · exact hl

theorem touch_owner (c : Call) (R : List Id) (i : Id) (o : Obj) : (touch c R i o).owner = o.owner := by
  unfold touch
  split
  · rfl
  · split
    · rfl
    · split
      · split <;> simp_all
      · rfl

theorem touch_kind (c : Call) (R : List Id) (i : Id) (o : Obj) : (touch c R i o).kind = o.kind := by
  unfold touch
  split
  · rfl
  · split
    · rfl
    · split
      · split <;> rfl
      · rfl

theorem touch_borrows (c : Call) (R : List Id) (i : Id) (o : Obj) (b : Id) (hb : b ∈ (touch c R i o).borrows) :
    b ∈ o.borrows ∨ (i ∈ c.mutated ∧ b ∈ R) := by
  unfold touch at hb
  split at hb
  · left; exact hb
  · split at hb
    · rename_i hm
      simp only [List.mem_append] at hb
      rcases hb with hb | hb
      · left; exact hb
      · right; exact ⟨by simpa using hm, hb⟩
    · split at hb
      · split at hb <;> (left; exact hb)
      · left; exact hb

/-- an object outside the consumed/modified set whose parent is outside it too is not touched at all -/
theorem touch_untouched (c : Call) (R : List Id) (i : Id) (o : Obj) (hi : i ∉ c.excl)
    (hp : ∀ p, o.owner = some p → p ∉ c.excl) : touch c R i o = o := by
  have h1 : i ∉ c.consumed := fun hh => hi (consumed_sub_excl c i hh)
  have h2 : i ∉ c.mutated := fun hh => hi (mutated_sub_excl c i hh)
  unfold touch
  simp only [List.contains_eq_mem, h1, decide_false, Bool.false_eq_true, if_false, h2]
  cases ho : o.owner with
  | none => rfl
  | some p => simp [hp p ho]

/-- a caller-owned object that is not consumed stays live and caller-owned -/
theorem touch_survives (c : Call) (R : List Id) (i : Id) (o : Obj) (hi : i ∉ c.consumed) (ho : o.owner = none)
    (hl : o.live = true) : (touch c R i o).live = true ∧ (touch c R i o).owner = none := by
  refine ⟨?_, by rw [touch_owner]; exact ho⟩
  unfold touch
  simp only [List.contains_eq_mem, hi, decide_false, Bool.false_eq_true, if_false]
  split
  · exact hl
  · simp [ho, hl]

theorem touch_consumed_dead (c : Call) (R : List Id) (i : Id) (o : Obj) (hi : i ∈ c.consumed) :
    (touch c R i o).live = false := by
  unfold touch
  simp [hi]

theorem apply_old (h : Heap) (c : Call) (obs : Obs) (i : Id) (hi : i < h.length) :
    (apply h c obs)[i]? = (h[i]?).map (touch c (c.retainedRoots h) i) := by
  cases obs with
  | err => simp [apply, List.getElem?_mapIdx]
  | ok n =>
    simp only [apply]
    rw [List.getElem?_append_left (by simpa using hi)]
    simp [List.getElem?_mapIdx]

theorem apply_new (h : Heap) (c : Call) (obs : Obs) (i : Id) (hi : h.length ≤ i) (o : Obj)
    (hg : (apply h c obs)[i]? = some o) : ∃ n, obs = .ok n ∧ o ∈ newObjs h c n := by
  cases obs with
  | err =>
    simp only [apply] at hg
    have : (List.mapIdx (touch c (c.retainedRoots h)) h)[i]? = none := by
      rw [List.getElem?_eq_none_iff]; simpa using hi
    simp [this] at hg
  | ok n =>
    simp only [apply] at hg
    rw [List.getElem?_append_right (by simpa using hi)] at hg
    exact ⟨n, rfl, List.mem_of_getElem? hg⟩

theorem apply_length_ge (h : Heap) (c : Call) (obs : Obs) : h.length ≤ (apply h c obs).length := by
  cases obs <;> simp [apply]

/-- an old caller-owned object that is not consumed is still there, live and caller-owned -/
theorem apply_survivor (h : Heap) (c : Call) (obs : Obs) (p : Id) (po : Obj) (hg : h[p]? = some po)
    (hl : po.live = true) (ho : po.owner = none) (hc : p ∉ c.consumed) :
    ∃ po', (apply h c obs)[p]? = some po' ∧ po'.live = true ∧ po'.owner = none := by
  have hp : p < h.length := by
    have := (List.getElem?_eq_some_iff.mp hg).1; exact this
  refine ⟨touch c (c.retainedRoots h) p po, ?_, ?_⟩
  · rw [apply_old h c obs p hp, hg]; rfl
  · exact touch_survives c _ p po hc ho hl

/-! ### roots -/

theorem root_live_owned {h : Heap} (wf : WF h) (i : Id) (o : Obj) (hg : h[i]? = some o) (hl : o.live = true) :
    ∃ ro, h[root h i]? = some ro ∧ ro.live = true ∧ ro.owner = none := by
  unfold root
  simp only [hg]
  cases ho : o.owner with
  | none => exact ⟨o, by simpa using hg, hl, ho⟩
  | some p =>
    simp only [Option.getD_some]
    exact wf.owner i o p hg hl ho

theorem root_of_owned {h : Heap} (i : Id) (o : Obj) (hg : h[i]? = some o) (ho : o.owner = none) : root h i = i := by
  simp [root, hg, ho]

/-- roots of read-only arguments survive the call -/
theorem readOnly_root_survives {h : Heap} {c : Call} {obs : Obs} (wf : WF h) (hl : Legal h c obs) (i : Id)
    (hi : i ∈ c.readOnly) :
    ∃ ro', (apply h c obs)[root h i]? = some ro' ∧ ro'.live = true ∧ ro'.owner = none := by
  obtain ⟨o, hg, hlive⟩ := hl.arg_live i (idsOf_sub_allIds c _ i hi)
  obtain ⟨ro, hr, hrl, hro⟩ := root_live_owned wf i o hg hlive
  have hne : root h i ∉ c.consumed := fun hh => hl.sep i hi (consumed_sub_excl c _ hh)
  exact apply_survivor h c obs (root h i) ro hr hrl hro hne

theorem excl_root_survives {h : Heap} {c : Call} {obs : Obs} (hl : Legal h c obs) (i : Id)
    (hi : i ∈ c.mutated) :
    ∃ ro', (apply h c obs)[root h i]? = some ro' ∧ ro'.live = true ∧ ro'.owner = none := by
  obtain ⟨⟨o, hg, ho⟩, _⟩ := hl.excl_owned i (mutated_sub_excl c i hi)
  obtain ⟨o2, hg2, hlive⟩ := hl.arg_live i (idsOf_sub_allIds c _ i hi)
  rw [hg] at hg2; cases hg2
  rw [root_of_owned i o hg ho]
  have hne : i ∉ c.consumed := by
    intro hh
    have hnd := hl.nodup
    simp only [Call.excl, List.nodup_append] at hnd
    exact hnd.2.2 i hh i hi rfl
  exact apply_survivor h c obs i o hg hlive ho hne

/-! ### the invariant is preserved -/

theorem apply_wf {h : Heap} {c : Call} {obs : Obs} (wf : WF h) (hl : Legal h c obs) : WF (apply h c obs) := by
  have retained_ok : ∀ b ∈ c.retainedRoots h,
      ∃ bo, (apply h c obs)[b]? = some bo ∧ bo.live = true ∧ bo.owner = none := by
    intro b hb
    simp only [Call.retainedRoots, List.mem_map] at hb
    obtain ⟨i, hi, rfl⟩ := hb
    exact readOnly_root_survives wf hl i (retained_sub_readOnly c i hi)
  constructor
  · -- owner
    intro i o' p hg hlive hown
    by_cases hi : i < h.length
    · rw [apply_old h c obs i hi] at hg
      cases hgo : h[i]? with
      | none => simp [hgo] at hg
      | some o =>
        simp only [hgo, Option.map_some, Option.some.injEq] at hg
        subst hg
        have hl0 := touch_live_of c _ i o hlive
        rw [touch_owner] at hown
        obtain ⟨po, hpo, hpl, hpown⟩ := wf.owner i o p hgo hl0 hown
        -- the parent is not consumed, otherwise the view would have been killed
        have hpc : p ∉ c.consumed := by
          intro hh
          have hpe : p ∈ c.excl := consumed_sub_excl c p hh
          unfold touch at hlive
          split at hlive
          · simp at hlive
          · split at hlive
            · rename_i hm
              -- a modified object is caller-owned, it has no parent
              have hm' : i ∈ c.mutated := by simpa using hm
              obtain ⟨⟨o2, hg2, ho2⟩, _⟩ := hl.excl_owned i (mutated_sub_excl c i hm')
              rw [hgo] at hg2; cases hg2
              rw [hown] at ho2; cases ho2
            · simp only [hown] at hlive
              simp [hpe] at hlive
        exact apply_survivor h c obs p po hpo hpl hpown hpc
    · have hi' : h.length ≤ i := Nat.le_of_not_lt hi
      obtain ⟨n, rfl, hmem⟩ := apply_new h c obs i hi' o' hg
      unfold newObjs at hmem
      cases hres : c.res with
      | none => simp [hres] at hmem
      | owned k =>
        simp only [hres, List.mem_replicate] at hmem
        rw [hmem.2] at hown; cases hown
      | ownedMany k =>
        simp only [hres, List.mem_replicate] at hmem
        rw [hmem.2] at hown; cases hown
      | borrowed k =>
        simp only [hres, List.mem_replicate] at hmem
        rw [hmem.2] at hown
        simp only at hown
        have hobs := hl.obs
        simp only [obsOk, hres, Bool.and_eq_true] at hobs
        cases hhead : c.allIds.head? with
        | none => simp [hhead] at hobs
        | some j =>
          simp only [hhead, Option.map_some, Option.some.injEq] at hown
          subst hown
          simp only [hhead, Bool.not_eq_true', List.contains_eq_mem, decide_eq_false_iff_not] at hobs
          have hj : j ∈ c.allIds := List.mem_of_mem_head? hhead
          rcases hl.arg_cases j hj with he | hr
          · simp only [Call.excl, List.mem_append] at he
            rcases he with he | he
            · exact absurd he hobs.2
            · exact excl_root_survives hl j he
          · exact readOnly_root_survives wf hl j hr
  · -- borrows
    intro i o' b hg hlive hb
    by_cases hi : i < h.length
    · rw [apply_old h c obs i hi] at hg
      cases hgo : h[i]? with
      | none => simp [hgo] at hg
      | some o =>
        simp only [hgo, Option.map_some, Option.some.injEq] at hg
        subst hg
        have hl0 := touch_live_of c _ i o hlive
        rcases touch_borrows c _ i o b hb with hb0 | ⟨_, hbR⟩
        · obtain ⟨bo, hbo, hbl, hbown⟩ := wf.borrows i o b hgo hl0 hb0
          have hbc : b ∉ c.consumed := by
            intro hh
            obtain ⟨_, hnb⟩ := hl.excl_owned b (consumed_sub_excl c b hh)
            exact not_borrowed hnb i o hgo hl0 hb0
          exact apply_survivor h c obs b bo hbo hbl hbown hbc
        · exact retained_ok b hbR
    · have hi' : h.length ≤ i := Nat.le_of_not_lt hi
      obtain ⟨n, rfl, hmem⟩ := apply_new h c obs i hi' o' hg
      unfold newObjs at hmem
      cases hres : c.res with
      | none => simp [hres] at hmem
      | owned k =>
        simp only [hres, List.mem_replicate] at hmem
        rw [hmem.2] at hb
        exact retained_ok b hb
      | ownedMany k =>
        simp only [hres, List.mem_replicate] at hmem
        rw [hmem.2] at hb
        exact retained_ok b hb
      | borrowed k =>
        simp only [hres, List.mem_replicate] at hmem
        rw [hmem.2] at hb
        simp at hb

theorem wf_nil : WF ([] : Heap) := ⟨by intro i o p hg; simp at hg, by intro i o b hg; simp at hg⟩

/-! ### dead stays dead, consumed is dead -/

theorem apply_dead_stays (h : Heap) (c : Call) (obs : Obs) (i : Id) (o : Obj) (hg : h[i]? = some o)
    (hd : o.live = false) : ∃ o', (apply h c obs)[i]? = some o' ∧ o'.live = false := by
  have hi : i < h.length := (List.getElem?_eq_some_iff.mp hg).1
  refine ⟨touch c (c.retainedRoots h) i o, by rw [apply_old h c obs i hi, hg]; rfl, ?_⟩
  cases hl : (touch c (c.retainedRoots h) i o).live with
  | false => rfl
  | true => rw [touch_live_of c _ i o hl] at hd; cases hd

theorem apply_consumed_dead {h : Heap} {c : Call} {obs : Obs} (hl : Legal h c obs) (i : Id) (hi : i ∈ c.consumed) :
    ∃ o', (apply h c obs)[i]? = some o' ∧ o'.live = false := by
  obtain ⟨o, hg, _⟩ := hl.arg_live i (idsOf_sub_allIds c _ i hi)
  have hlt : i < h.length := (List.getElem?_eq_some_iff.mp hg).1
  exact ⟨touch c (c.retainedRoots h) i o, by rw [apply_old h c obs i hlt, hg]; rfl, touch_consumed_dead c _ i o hi⟩

/-! ### sequences -/

theorem run_cons_ok (h : Heap) (c : Call) (obs : Obs) (cs : List (Call × Obs)) (h' : Heap) (outs : List Outcome)
    (hr : run h ((c, obs) :: cs) = .ok (h', outs)) :
    ∃ out outs', Legal h c obs ∧ outs = out :: outs' ∧ out = outcome h c obs ∧
      run (apply h c obs) cs = .ok (h', outs') := by
  simp only [run] at hr
  cases hs : step h c obs with
  | error e => simp [hs] at hr
  | ok p =>
    obtain ⟨h1, out⟩ := p
    simp only [hs] at hr
    obtain ⟨hl, rfl, rfl⟩ := (step_ok_iff h c obs h1 out).mp hs
    cases hr2 : run (apply h c obs) cs with
    | error e => simp [hr2] at hr
    | ok q =>
      obtain ⟨h2, outs2⟩ := q
      simp only [hr2, Except.ok.injEq, Prod.mk.injEq] at hr
      obtain ⟨rfl, rfl⟩ := hr
      exact ⟨_, outs2, hl, rfl, rfl, rfl⟩

theorem run_wf : ∀ (cs : List (Call × Obs)) (h h' : Heap) (outs : List Outcome), WF h →
    run h cs = .ok (h', outs) → WF h'
  | [], h, h', outs, wf, hr => by
    simp only [run, Except.ok.injEq, Prod.mk.injEq] at hr
    rw [← hr.1]; exact wf
  | (c, obs) :: cs, h, h', outs, wf, hr => by
    obtain ⟨out, outs', hl, _, _, hr'⟩ := run_cons_ok h c obs cs h' outs hr
    exact run_wf cs _ h' outs' (apply_wf wf hl) hr'

/-- splitting a successful run at any point -/
theorem run_append : ∀ (pre post : List (Call × Obs)) (h h' : Heap) (outs : List Outcome),
    run h (pre ++ post) = .ok (h', outs) →
    ∃ hk outs1 outs2, run h pre = .ok (hk, outs1) ∧ run hk post = .ok (h', outs2) ∧ outs = outs1 ++ outs2
  | [], post, h, h', outs, hr => ⟨h, [], outs, rfl, by simpa using hr, rfl⟩
  | (c, obs) :: pre, post, h, h', outs, hr => by
    obtain ⟨out, outs', hl, rfl, rfl, hr'⟩ := run_cons_ok h c obs (pre ++ post) h' outs hr
    obtain ⟨hk, o1, o2, h1, h2, rfl⟩ := run_append pre post _ h' outs' hr'
    refine ⟨hk, outcome h c obs :: o1, o2, ?_, h2, rfl⟩
    simp only [run]
    have : step h c obs = .ok (apply h c obs, outcome h c obs) := (step_ok_iff _ _ _ _ _).mpr ⟨hl, rfl, rfl⟩
    simp [this, h1]

/-- ids consumed along a run are dead at its end, and so is everything that was dead before -/
theorem run_consumed_dead : ∀ (cs : List (Call × Obs)) (h h' : Heap) (outs : List Outcome) (D : List Id),
    (∀ i ∈ D, ∃ o, h[i]? = some o ∧ o.live = false) →
    run h cs = .ok (h', outs) →
    ∀ i, i ∈ D ∨ i ∈ consumedAll cs → ∃ o, h'[i]? = some o ∧ o.live = false
  | [], h, h', outs, D, hD, hr, i, hi => by
    simp only [run, Except.ok.injEq, Prod.mk.injEq] at hr
    rw [← hr.1]
    rcases hi with hi | hi
    · exact hD i hi
    · simp [consumedAll] at hi
  | (c, obs) :: cs, h, h', outs, D, hD, hr, i, hi => by
    obtain ⟨out, outs', hl, _, _, hr'⟩ := run_cons_ok h c obs cs h' outs hr
    refine run_consumed_dead cs (apply h c obs) h' outs' (D ++ c.consumed) ?_ hr' i ?_
    · intro j hj
      simp only [List.mem_append] at hj
      rcases hj with hj | hj
      · obtain ⟨o, hg, hd⟩ := hD j hj
        exact apply_dead_stays h c obs j o hg hd
      · exact apply_consumed_dead hl j hj
    · rcases hi with hi | hi
      · left; simp [hi]
      · simp only [consumedAll, List.flatMap_cons, List.mem_append] at hi
        rcases hi with hi | hi
        · left; simp [hi]
        · right; exact hi

theorem newObjs_live (h : Heap) (c : Call) (n : Nat) (o : Obj) (ho : o ∈ newObjs h c n) : o.live = true := by
  unfold newObjs at ho
  cases hres : c.res with
  | none => simp [hres] at ho
  | owned k => simp only [hres, List.mem_replicate] at ho; rw [ho.2]
  | ownedMany k => simp only [hres, List.mem_replicate] at ho; rw [ho.2]
  | borrowed k => simp only [hres, List.mem_replicate] at ho; rw [ho.2]

theorem range_shift_nodup (n k : Nat) : ((List.range n).map (· + k)).Nodup := by
  rw [List.nodup_iff_pairwise_ne, List.pairwise_map]
  have := @List.nodup_range n
  rw [List.nodup_iff_pairwise_ne] at this
  exact this.imp (by intro a b hab; omega)

/-! ### executable views of a run (for examples and the driver) -/

def accepted (cs : List (Call × Obs)) : Bool :=
  match run [] cs with
  | .ok _ => true
  | .error _ => false

def heapAfter (cs : List (Call × Obs)) : Heap :=
  match run [] cs with
  | .ok (h, _) => h
  | .error _ => []

def allOwnedConsumed (h : Heap) (cs : List (Call × Obs)) : Bool :=
  (List.range h.length).all (fun i =>
    match h[i]? with
    | some o => o.owner != none || (consumedAll cs).contains i
    | none => true)

theorem allOwnedConsumed_spec (h : Heap) (cs : List (Call × Obs)) (hb : allOwnedConsumed h cs = true) :
    ∀ (i : Id) (o : Obj), h[i]? = some o → o.owner = none → i ∈ consumedAll cs := by
  intro i o hg ho
  simp only [allOwnedConsumed, List.all_eq_true, List.mem_range] at hb
  have hlt : i < h.length := (List.getElem?_eq_some_iff.mp hg).1
  have := hb i hlt
  simp only [hg, ho, bne_self_eq_false, Bool.false_or, List.contains_eq_mem, decide_eq_true_eq] at this
  exact this

end GeosModel.Api
