import GeosModel.Model.Interrupt.Proto
/-! Lemmas about `process` / `runFrom` of the interrupt protocol model. -/
namespace GeosModel.Interrupt

/-- the action performed by the registered callback (if any) at poll `i` -/
def State.act (s : State) (i : Nat) : Act :=
  match s.callback with
  | some cb => cb i
  | none => .nothing

/-- would the i-th poll throw from state `s`? (callback first, then the test) -/
def State.fires (s : State) (i : Nat) : Bool :=
  match s.act i with
  | .nothing => s.requested
  | .request => true
  | .cancel => false

theorem process_fst (s : State) (i : Nat) : (process s i).1 = ⟨false, s.callback⟩ := by
  obtain ⟨q, c⟩ := s
  cases c with
  | none => cases q <;> simp [process]
  | some cb =>
    simp only [process]
    cases h : cb i <;> cases q <;> simp [applyAct, request, cancel]

theorem process_snd (s : State) (i : Nat) : (process s i).2 = s.fires i := by
  obtain ⟨q, c⟩ := s
  cases c with
  | none => cases q <;> simp [process, State.fires, State.act]
  | some cb =>
    simp only [process, State.fires, State.act]
    cases h : cb i <;> cases q <;> simp [applyAct, request, cancel]

theorem process_eq (s : State) (i : Nat) : process s i = (⟨false, s.callback⟩, s.fires i) := by
  rw [← process_fst s i, ← process_snd s i]

theorem runFrom_succ {ρ} (r : ρ) (rem i : Nat) (s : State) :
    runFrom r (rem + 1) i s =
      if s.fires i then (⟨false, s.callback⟩, .interrupted i) else runFrom r rem (i + 1) ⟨false, s.callback⟩ := by
  rw [runFrom, process_eq]
  cases s.fires i <;> simp

/-- from a state with no pending request, polls whose callback action is not `request` pass -/
theorem runFrom_quiet {ρ} (r : ρ) (c : Option Cb) : ∀ (rem i : Nat),
    (∀ j, i ≤ j → j < i + rem → (State.mk false c).act j ≠ .request) →
    runFrom r rem i ⟨false, c⟩ = (⟨false, c⟩, .done r) := by
  intro rem
  induction rem with
  | zero => intro i _; rfl
  | succ n ih =>
    intro i h
    rw [runFrom_succ]
    have hi := h i (Nat.le_refl _) (by omega)
    have hf : (State.mk false c).fires i = false := by
      unfold State.fires
      cases ha : (State.mk false c).act i with
      | nothing => rfl
      | request => exact absurd ha hi
      | cancel => rfl
    rw [hf]
    simp only [Bool.false_eq_true, if_false]
    exact ih (i + 1) (fun j h1 h2 => h j (by omega) (by omega))

/-- the first poll index ≥ i at which the callback requests is where the run stops -/
theorem runFrom_first_request {ρ} (r : ρ) (c : Option Cb) (k : Nat) : ∀ (rem i : Nat),
    i ≤ k → k < i + rem →
    (∀ j, i ≤ j → j < k → (State.mk false c).act j ≠ .request) →
    (State.mk false c).act k = .request →
    runFrom r rem i ⟨false, c⟩ = (⟨false, c⟩, .interrupted k) := by
  intro rem
  induction rem with
  | zero => intro i h1 h2; omega
  | succ n ih =>
    intro i h1 h2 hq hk
    rw [runFrom_succ]
    by_cases hik : i = k
    · subst hik
      have hf : (State.mk false c).fires i = true := by unfold State.fires; rw [hk]
      rw [hf]; simp
    · have hi := hq i (Nat.le_refl _) (by omega)
      have hf : (State.mk false c).fires i = false := by
        unfold State.fires
        cases ha : (State.mk false c).act i with
        | nothing => rfl
        | request => exact absurd ha hi
        | cancel => rfl
      rw [hf]
      simp only [Bool.false_eq_true, if_false]
      exact ih (i + 1) (by omega) (by omega) (fun j a b => hq j (by omega) b) hk

/-- whatever happens, the flag is clear after a run that performed at least one poll -/
theorem runFrom_clears {ρ} (r : ρ) : ∀ (rem i : Nat) (s : State), 0 < rem →
    (runFrom r rem i s).1 = ⟨false, s.callback⟩ := by
  intro rem
  induction rem with
  | zero => intro i s h; omega
  | succ n ih =>
    intro i s _
    rw [runFrom_succ]
    cases s.fires i with
    | true => simp
    | false =>
      simp only [Bool.false_eq_true, if_false]
      cases n with
      | zero => rfl
      | succ m => exact ih (i + 1) ⟨false, s.callback⟩ (by omega)

end GeosModel.Interrupt
