import GeosModel.Model.Lines.Noding
import GeosModel.Proofs.Lines.Merge
/-!
Soundness of the noding / polygonize / shared-path contract checkers.
-/
namespace GeosModel.Lines
open GeosModel.Kernel

instance : LawfulBEq Pt where
  eq_of_beq {a b} h := by
    cases a; cases b
    simp only [BEq.beq] at h
    unfold instBEqPt.beq at h
    simp at h
    simp [h]
  rfl {a} := by
    cases a
    simp only [BEq.beq]
    unfold instBEqPt.beq
    simp

/-- `b` is connected to `a` by a chain of segments of `segs` (in either direction) -/
inductive Reach (segs : List Seg) (a : Pt) : Pt → Prop
  | refl : Reach segs a a
  | fwd {u v : Pt} : Reach segs a u → (⟨u, v⟩ : Seg) ∈ segs → Reach segs a v
  | bwd {u v : Pt} : Reach segs a u → (⟨v, u⟩ : Seg) ∈ segs → Reach segs a v

theorem addEnd_sound (segs : List Seg) (a : Pt) (S : List Pt) (u v : Pt)
    (hs : (⟨u, v⟩ : Seg) ∈ segs ∨ (⟨v, u⟩ : Seg) ∈ segs) (hS : ∀ p ∈ S, Reach segs a p) :
    ∀ p ∈ addEnd S u v, Reach segs a p := by
  intro p hp
  unfold addEnd at hp
  split at hp
  · rename_i hc
    simp only [Bool.and_eq_true, List.contains_iff_mem] at hc
    rcases List.mem_cons.mp hp with rfl | hp
    · rcases hs with hs | hs
      · exact Reach.fwd (hS _ hc.1) hs
      · exact Reach.bwd (hS _ hc.1) hs
    · exact hS p hp
  · exact hS p hp

theorem grow_sound (segs : List Seg) (a : Pt) (l : List Seg) (hl : ∀ s ∈ l, s ∈ segs) (S : List Pt)
    (hS : ∀ p ∈ S, Reach segs a p) : ∀ p ∈ l.foldl growStep S, Reach segs a p := by
  induction l generalizing S with
  | nil => simpa using hS
  | cons s r ih =>
    simp only [List.foldl_cons]
    apply ih (fun x hx => hl x (List.mem_cons_of_mem _ hx))
    have hs : (⟨s.a, s.b⟩ : Seg) ∈ segs := by cases s; exact hl _ List.mem_cons_self
    unfold growStep
    exact addEnd_sound segs a _ s.b s.a (Or.inr hs) (addEnd_sound segs a S s.a s.b (Or.inl hs) hS)

theorem closure_sound (segs : List Seg) (a : Pt) (n : Nat) (S : List Pt) (hS : ∀ p ∈ S, Reach segs a p) :
    ∀ p ∈ closure segs n S, Reach segs a p := by
  induction n generalizing S with
  | zero => simpa [closure] using hS
  | succ n ih =>
    simp only [closure]
    apply ih
    exact grow_sound segs a segs (fun _ h => h) S hS

/-- `covered` accepts only if `s.b` is reachable from `s.a` through output segments lying (within tol) on `s` -/
theorem covered_sound (t : Tol) (out : List Seg) (s : Seg) (h : covered t out s = true) :
    Reach (out.filter fun o => near t s o.a && near t s o.b) s.a s.b := by
  simp only [covered, List.contains_iff_mem] at h
  exact closure_sound _ s.a _ [s.a] (by intro p hp; simp at hp; subst hp; exact Reach.refl) _ h

theorem nodupB_sound {α : Type} [DecidableEq α] (l : List α) (h : nodupB l = true) : l.Nodup := by
  induction l with
  | nil => exact List.nodup_nil
  | cons x r ih =>
    simp only [nodupB, Bool.and_eq_true, Bool.not_eq_eq_eq_not, Bool.not_true, List.any_eq_false, decide_eq_true_eq] at h
    refine List.nodup_cons.mpr ⟨?_, ih h.2⟩
    intro hm
    exact h.1 x hm rfl

end GeosModel.Lines
