import GeosModel.Model.Lines.Merge
/-!
Soundness of the merge-contract checker (`mergeCheck`) and consequences of the contract.
-/
namespace GeosModel.Lines

theorem allPairs_sound {α : Type} (p : α → α → Bool) (l : List α) (h : allPairs p l = true) :
    ∀ (i j : Nat) (_ : i < j) (hj : j < l.length), p (l[i]'(by omega)) l[j] = true := by
  induction l with
  | nil => intro i j _ hj; simp at hj
  | cons x r ih =>
    simp only [allPairs, Bool.and_eq_true, List.all_eq_true] at h
    intro i j hij hj
    cases j with
    | zero => omega
    | succ j =>
      cases i with
      | zero =>
        simp only [List.getElem_cons_zero, List.getElem_cons_succ]
        exact h.1 _ (List.getElem_mem _)
      | succ i =>
        simp only [List.getElem_cons_succ]
        exact ih h.2 i j (by omega) (by simpa using hj)

/-- consecutive traversals of a chain are joined at a node of degree exactly two -/
def Joined (es : List Edge) (d1 d2 : DEdge) : Prop := d1.dst = d2.src ∧ degree es d1.dst = 2

theorem walkOK_sound (es : List Edge) (c : Chain) (h : walkOK es c = true) :
    ∀ k (hk : k + 1 < c.length), Joined es c[k] c[k + 1] := by
  induction c with
  | nil => intro k hk; simp at hk
  | cons d1 r ih =>
    cases r with
    | nil => intro k hk; simp at hk
    | cons d2 t =>
      simp only [walkOK, Bool.and_eq_true, beq_iff_eq] at h
      intro k hk
      cases k with
      | zero => exact ⟨h.1.1, h.1.2⟩
      | succ k =>
        simp only [List.getElem_cons_succ]
        exact ih h.2 k (by simpa using hk)

/-- **the merge contract in logical form** -/
structure MergeOK (directed : Bool) (es : List Edge) (chains : List Chain) : Prop where
  /-- every input edge is traversed exactly once over all output lines -/
  perm : (chains.flatten.map (·.e)).Perm es
  nonempty : ∀ c ∈ chains, c ≠ []
  /-- inside an output line, consecutive input lines are joined at nodes of degree exactly two -/
  walk : ∀ c ∈ chains, ∀ k (hk : k + 1 < c.length), Joined es c[k] c[k + 1]
  /-- directed merging never reverses an input line -/
  fwd : directed = true → ∀ c ∈ chains, ∀ d ∈ c, d.fwd = true
  /-- an output line that is not a closed loop ends only at nodes where merging is not allowed -/
  stop : ∀ c ∈ chains, c.closed = false → ∀ n ∈ c.ends, stopOK directed es n = true
  /-- two different output lines never share an end node at which merging was required -/
  apart : ∀ (i j : Nat) (_ : i < j) (hj : j < chains.length) (n : Int),
    n ∈ (chains[i]'(by omega)).ends → n ∈ chains[j].ends → stopOK directed es n = true

theorem merge_check_sound' (directed : Bool) (es : List Edge) (chains : List Chain)
    (h : mergeCheck directed es chains = true) : MergeOK directed es chains := by
  simp only [mergeCheck, Bool.and_eq_true, List.all_eq_true] at h
  obtain ⟨⟨hp, hc⟩, ha⟩ := h
  have hc' : ∀ c ∈ chains, (c.isEmpty = false ∧ walkOK es c = true ∧ (directed = false ∨ ∀ d ∈ c, d.fwd = true) ∧
      (c.closed = true ∨ ∀ n ∈ c.ends, stopOK directed es n = true)) := by
    intro c hm
    have := hc c hm
    simp only [chainOK, Bool.and_eq_true, Bool.or_eq_true, Bool.not_eq_eq_eq_not, Bool.not_true, List.all_eq_true] at this
    exact ⟨this.1.1.1, this.1.1.2, this.1.2, this.2⟩
  refine ⟨List.isPerm_iff.mp hp, ?_, ?_, ?_, ?_, ?_⟩
  · intro c hm hnil
    have := (hc' c hm).1
    simp [hnil] at this
  · intro c hm
    exact walkOK_sound es c (hc' c hm).2.1
  · intro hd c hm
    rcases (hc' c hm).2.2.1 with h1 | h1
    · simp [hd] at h1
    · exact h1
  · intro c hm hcl
    rcases (hc' c hm).2.2.2 with h1 | h1
    · simp [hcl] at h1
    · exact h1
  · intro i j hij hj n hn hm
    have := allPairs_sound _ _ ha i j hij hj
    simp only [pairOK, List.all_eq_true, Bool.or_eq_true, bne_iff_ne, ne_eq] at this
    rcases this n hn n hm with h1 | h1
    · exact absurd rfl h1
    · exact h1

/-- weighted total (e.g. the length of the underlying input lines) -/
def sumW (w : Edge → Rat) : List Edge → Rat
  | [] => 0
  | e :: r => w e + sumW w r

theorem sumW_perm (w : Edge → Rat) {l1 l2 : List Edge} (h : l1.Perm l2) : sumW w l1 = sumW w l2 := by
  induction h with
  | nil => rfl
  | cons x _ ih => simp [sumW, ih]
  | swap x y l => simp only [sumW]; grind
  | trans _ _ ih1 ih2 => exact ih1.trans ih2

end GeosModel.Lines
