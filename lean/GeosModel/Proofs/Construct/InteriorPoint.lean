import GeosModel.Model.Construct.InteriorPoint
import GeosModel.Proofs.Construct.Check
/-!
Lemmas about the model of `InteriorPointArea`'s scan line (`Model/Construct/InteriorPoint.lean`):
the interval `(loY, hiY)` kept by `ScanLineYOrdinateFinder::updateInterval` always straddles the centre, only
shrinks, and leaves every ordinate it has seen outside its interior — so the scan line `(loY + hiY) / 2` passes
through no vertex of any ring, lies on no horizontal edge, and the vertex-on-the-line rules of
`isEdgeCrossingCounted` are never used.
-/
namespace GeosModel.Construct
open GeosModel.Kernel

/-- the interval straddles the centre: `loY ≤ centreY < hiY` (with `s2 = 2·centreY`) -/
def ScanInv (s2 : Int) (st : Int × Int) : Prop := 2 * st.1 ≤ s2 ∧ s2 < 2 * st.2

theorem updateInterval_inv {s2 : Int} {st : Int × Int} (y : Int) (h : ScanInv s2 st) :
    ScanInv s2 (updateInterval s2 st y) := by
  unfold updateInterval ScanInv at *
  split <;> split <;> simp_all <;> omega

theorem updateInterval_shrinks (s2 : Int) (st : Int × Int) (y : Int) :
    st.1 ≤ (updateInterval s2 st y).1 ∧ (updateInterval s2 st y).2 ≤ st.2 := by
  unfold updateInterval
  split <;> split <;> simp_all <;> omega

theorem updateInterval_excludes (s2 : Int) (st : Int × Int) (y : Int) :
    y ≤ (updateInterval s2 st y).1 ∨ (updateInterval s2 st y).2 ≤ y := by
  unfold updateInterval
  split <;> split <;> simp_all <;> omega

theorem scanFold_spec (s2 : Int) : ∀ (ys : List Int) (st : Int × Int), ScanInv s2 st →
    ScanInv s2 (scanFold s2 st ys) ∧ st.1 ≤ (scanFold s2 st ys).1 ∧ (scanFold s2 st ys).2 ≤ st.2 ∧
    ∀ y ∈ ys, y ≤ (scanFold s2 st ys).1 ∨ (scanFold s2 st ys).2 ≤ y := by
  intro ys
  induction ys with
  | nil => intro st h; exact ⟨h, Int.le_refl _, Int.le_refl _, by simp⟩
  | cons y r ih =>
    intro st h
    have h1 := updateInterval_inv y h
    have h2 := updateInterval_shrinks s2 st y
    have h3 := updateInterval_excludes s2 st y
    obtain ⟨i1, i2, i3, i4⟩ := ih (updateInterval s2 st y) h1
    have e : scanFold s2 st (y :: r) = scanFold s2 (updateInterval s2 st y) r := rfl
    rw [e]
    refine ⟨i1, by omega, by omega, ?_⟩
    intro z hz
    rcases List.mem_cons.mp hz with rfl | hz
    · rcases h3 with h3 | h3
      · left; omega
      · right; omega
    · exact i4 z hz

theorem mem_ringYs {rings : List (List Pt)} {ring : List Pt} {v : Pt} (hr : ring ∈ rings) (hv : v ∈ ring) :
    v.y ∈ ringYs rings := by
  unfold ringYs
  exact List.mem_flatMap.mpr ⟨ring, hr, List.mem_map.mpr ⟨v, hv, rfl⟩⟩

/-- the interval at the end of `getScanLineY()`: non-degenerate, and no vertex ordinate of any ring (shell or hole)
lies strictly inside it — for every polygon whose shell is not flat -/
theorem scanInterval_spec {shell : List Pt} {holes : List (List Pt)} {st : Int × Int} {a b : Pt}
    (ha : a ∈ shell) (hb : b ∈ shell) (hab : a.y < b.y) (h : scanInterval (shell :: holes) = some st) :
    st.1 < st.2 ∧ ∀ ring ∈ shell :: holes, ∀ v ∈ ring, v.y ≤ st.1 ∨ st.2 ≤ v.y := by
  match shell, ha, hb, h with
  | p :: r, ha, hb, h =>
    simp only [scanInterval, Option.some.injEq] at h
    have hmin : ∀ v ∈ p :: r, minL p.y (r.map (·.y)) ≤ v.y := by
      intro v hv
      rcases List.mem_cons.mp hv with rfl | hv
      · exact minL_le_init _ _
      · exact minL_le_mem _ _ _ (List.mem_map.mpr ⟨v, hv, rfl⟩)
    have hmax : ∀ v ∈ p :: r, v.y ≤ maxL p.y (r.map (·.y)) := by
      intro v hv
      rcases List.mem_cons.mp hv with rfl | hv
      · exact maxL_ge_init _ _
      · exact maxL_ge_mem _ _ _ (List.mem_map.mpr ⟨v, hv, rfl⟩)
    have h0 : ScanInv (minL p.y (r.map (·.y)) + maxL p.y (r.map (·.y))) (minL p.y (r.map (·.y)), maxL p.y (r.map (·.y))) := by
      have := hmin a ha; have := hmax b hb
      unfold ScanInv; simp only; omega
    obtain ⟨i1, _, _, i4⟩ := scanFold_spec _ (ringYs ((p :: r) :: holes)) _ h0
    rw [h] at i1 i4
    refine ⟨by unfold ScanInv at i1; omega, ?_⟩
    intro ring hr v hv
    exact i4 v.y (mem_ringYs hr hv)

theorem mem_of_mem_edges : ∀ {l : List Pt} {e : Pt × Pt}, e ∈ edges l → e.1 ∈ l ∧ e.2 ∈ l
  | [], _, h => by simp [edges] at h
  | [_], _, h => by simp [edges] at h
  | a :: b :: r, e, h => by
    simp only [edges, List.mem_cons] at h
    rcases h with rfl | h
    · simp
    · have := mem_of_mem_edges (l := b :: r) h
      exact ⟨List.mem_cons_of_mem _ this.1, List.mem_cons_of_mem _ this.2⟩

/-- away from the end points' ordinates a crossing is counted exactly when the edge strictly straddles the line -/
theorem edgeCrossing_isSome_iff {y2 : Int} {p0 p1 : Pt} (h0 : 2 * p0.y ≠ y2) (h1 : 2 * p1.y ≠ y2) :
    (edgeCrossing y2 p0 p1).isSome = true ↔ (2 * p0.y < y2 ∧ y2 < 2 * p1.y) ∨ (2 * p1.y < y2 ∧ y2 < 2 * p0.y) := by
  unfold edgeCrossing
  constructor
  · intro h
    split at h
    · simp at h
    · split at h
      · simp at h
      · omega
  · intro h
    have e1 : ¬ (y2 < 2 * p0.y ∧ y2 < 2 * p1.y) := by omega
    have e2 : ¬ (2 * p0.y < y2 ∧ 2 * p1.y < y2) := by omega
    have e3 : ¬ p0.y = p1.y := by omega
    have e4 : ¬ (2 * p0.y = y2 ∧ 2 * p1.y < y2) := by omega
    have e5 : ¬ (2 * p1.y = y2 ∧ 2 * p0.y < y2) := by omega
    simp only [e1, e2, e3, e4, e5, if_false]
    split <;> rfl

/-! ## the widest section -/

theorem bestFrom_spec : ∀ (secs : List (Q × Q)) (w0 : Q) (best : Option (Q × Q)),
    (∀ s, best = some s → width s = w0) →
    let r := bestFrom w0 best secs
    (∀ s, r.2 = some s → width s = r.1) ∧
    (r.2 = best ∨ ∃ s ∈ secs, r.2 = some s) ∧
    (r.1 = w0 ∨ ∃ s ∈ secs, r.1 = width s) := by
  intro secs
  induction secs with
  | nil => intro w0 best h; exact ⟨h, Or.inl rfl, Or.inl rfl⟩
  | cons s r ih =>
    intro w0 best h
    simp only [bestFrom]
    split
    · obtain ⟨a, b, c⟩ := ih (width s) (some s) (by intro t ht; cases ht; rfl)
      refine ⟨a, ?_, ?_⟩
      · rcases b with b | ⟨t, ht, b⟩
        · exact Or.inr ⟨s, List.mem_cons_self, b⟩
        · exact Or.inr ⟨t, List.mem_cons_of_mem _ ht, b⟩
      · rcases c with c | ⟨t, ht, c⟩
        · exact Or.inr ⟨s, List.mem_cons_self, c⟩
        · exact Or.inr ⟨t, List.mem_cons_of_mem _ ht, c⟩
    · obtain ⟨a, b, c⟩ := ih w0 best h
      refine ⟨a, ?_, ?_⟩
      · rcases b with b | ⟨t, ht, b⟩
        · exact Or.inl b
        · exact Or.inr ⟨t, List.mem_cons_of_mem _ ht, b⟩
      · rcases c with c | ⟨t, ht, c⟩
        · exact Or.inl c
        · exact Or.inr ⟨t, List.mem_cons_of_mem _ ht, c⟩

end GeosModel.Construct
