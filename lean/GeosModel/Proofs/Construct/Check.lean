import GeosModel.Model.Construct.Check
/-! Soundness of the exact certificate checkers: "the loops cover all points / edges / corners". -/
set_option linter.unusedSimpArgs false
set_option linter.unusedVariables false
namespace GeosModel.Construct
open GeosModel.Kernel

theorem memB_iff {a : Pt} : ∀ {l : List Pt}, memB a l = true ↔ a ∈ l
  | [] => by simp [memB]
  | x :: r => by simp [memB, memB_iff (l := r)]

/-! ### hull -/

theorem sideAll_iff {sgn : Int} {a b : Pt} {pts : List Pt} :
    sideAll sgn a b pts = true ↔ ∀ p ∈ pts, 0 ≤ sgn * det a b p := by
  simp [sideAll, List.all_eq_true]

theorem ringCovers_iff {sgn : Int} {ring pts : List Pt} :
    ringCovers sgn ring pts = true ↔ ∀ e ∈ edges ring, ∀ p ∈ pts, 0 ≤ sgn * det e.1 e.2 p := by
  simp only [ringCovers, List.all_eq_true, sideAll_iff]

theorem strictTurns_iff {sgn : Int} {ring : List Pt} :
    strictTurns sgn ring = true ↔ ∀ t ∈ cornerTurns ring, 0 < sgn * det t.1 t.2.1 t.2.2 := by
  simp [strictTurns, List.all_eq_true]

/-- what an accepted ring output guarantees -/
structure HullRingSpec (pts r : List Pt) (sgn : Int) : Prop where
  sign : sgn = 1 ∨ sgn = -1
  closed : isClosedRing r = true
  size : 4 ≤ r.length
  corners_are_inputs : ∀ c ∈ r, c ∈ pts
  inputs_inside : ∀ e ∈ edges r, ∀ p ∈ pts, 0 ≤ sgn * det e.1 e.2 p
  corners_strict : ∀ t ∈ cornerTurns r, 0 < sgn * det t.1 t.2.1 t.2.2

theorem hullCheck_ring {pts r : List Pt} (h : hullCheck pts (.ring r) = true) :
    ∃ sgn, HullRingSpec pts r sgn := by
  simp only [hullCheck, Bool.and_eq_true, Bool.or_eq_true, decide_eq_true_eq, List.all_eq_true, ringOK] at h
  obtain ⟨⟨⟨hcl, hsz⟩, hin⟩, hor⟩ := h
  have hin' : ∀ c ∈ r, c ∈ pts := fun c hc => memB_iff.mp (hin c hc)
  rcases hor with ⟨h1, h2⟩ | ⟨h1, h2⟩
  · exact ⟨1, Or.inl rfl, hcl, hsz, hin', ringCovers_iff.mp h1, strictTurns_iff.mp h2⟩
  · exact ⟨-1, Or.inr rfl, hcl, hsz, hin', ringCovers_iff.mp h1, strictTurns_iff.mp h2⟩

/-- convexity in the half-plane sense: every corner lies on the inner side of every edge -/
theorem HullRingSpec.convex {pts r : List Pt} {sgn : Int} (h : HullRingSpec pts r sgn) :
    ∀ e ∈ edges r, ∀ c ∈ r, 0 ≤ sgn * det e.1 e.2 c :=
  fun e he c hc => h.inputs_inside e he c (h.corners_are_inputs c hc)

/-- what an accepted ring output guarantees without the strict-corner requirement -/
structure HullRingWeakSpec (pts r : List Pt) (sgn : Int) : Prop where
  sign : sgn = 1 ∨ sgn = -1
  closed : isClosedRing r = true
  size : 4 ≤ r.length
  corners_are_inputs : ∀ c ∈ r, c ∈ pts
  inputs_inside : ∀ e ∈ edges r, ∀ p ∈ pts, 0 ≤ sgn * det e.1 e.2 p

theorem hullCheckWeak_ring {pts r : List Pt} (h : hullCheckWeak pts (.ring r) = true) :
    ∃ sgn, HullRingWeakSpec pts r sgn := by
  simp only [hullCheckWeak, Bool.and_eq_true, Bool.or_eq_true, decide_eq_true_eq, List.all_eq_true] at h
  obtain ⟨⟨⟨hcl, hsz⟩, hin⟩, hor⟩ := h
  have hin' : ∀ c ∈ r, c ∈ pts := fun c hc => memB_iff.mp (hin c hc)
  rcases hor with h1 | h1
  · exact ⟨1, Or.inl rfl, hcl, hsz, hin', ringCovers_iff.mp h1⟩
  · exact ⟨-1, Or.inr rfl, hcl, hsz, hin', ringCovers_iff.mp h1⟩

theorem HullRingWeakSpec.convex {pts r : List Pt} {sgn : Int} (h : HullRingWeakSpec pts r sgn) :
    ∀ e ∈ edges r, ∀ c ∈ r, 0 ≤ sgn * det e.1 e.2 c :=
  fun e he c hc => h.inputs_inside e he c (h.corners_are_inputs c hc)

theorem hullCheck_point {pts : List Pt} {p : Pt} (h : hullCheck pts (.point p) = true) :
    pts ≠ [] ∧ ∀ q ∈ pts, q = p := by
  simp only [hullCheck, Bool.and_eq_true, Bool.not_eq_true', List.all_eq_true, decide_eq_true_eq] at h
  refine ⟨?_, h.2⟩
  intro e; rw [e] at h; simp at h

theorem hullCheck_segment {pts : List Pt} {a b : Pt} (h : hullCheck pts (.segment a b) = true) :
    a ≠ b ∧ a ∈ pts ∧ b ∈ pts ∧ ∀ p ∈ pts, onSegment a b p = true := by
  simp only [hullCheck, Bool.and_eq_true, decide_eq_true_eq, List.all_eq_true] at h
  exact ⟨h.1.1.1, memB_iff.mp h.1.1.2, memB_iff.mp h.1.2, h.2⟩

theorem hullCheck_empty {pts : List Pt} (h : hullCheck pts .empty = true) : pts = [] := by
  simpa [hullCheck] using h

/-! ### envelope -/

theorem minL_le_init : ∀ (l : List Int) (m : Int), minL m l ≤ m
  | [], m => Int.le_refl m
  | x :: r, m => by
    simp only [minL]; split
    · exact Int.le_trans (minL_le_init r x) (by omega)
    · exact minL_le_init r m

theorem minL_le_mem : ∀ (l : List Int) (m : Int) (x : Int), x ∈ l → minL m l ≤ x
  | y :: r, m, x, h => by
    simp only [minL]
    rcases List.mem_cons.mp h with rfl | h
    · split
      · exact minL_le_init r x
      · exact Int.le_trans (minL_le_init r m) (by omega)
    · exact minL_le_mem r _ x h

theorem minL_attained : ∀ (l : List Int) (m : Int), minL m l = m ∨ minL m l ∈ l
  | [], m => Or.inl rfl
  | x :: r, m => by
    simp only [minL]; split
    · rcases minL_attained r x with h | h
      · rw [h]; exact Or.inr (by simp)
      · exact Or.inr (by simp [h])
    · rcases minL_attained r m with h | h
      · exact Or.inl h
      · exact Or.inr (by simp [h])

theorem maxL_ge_init : ∀ (l : List Int) (m : Int), m ≤ maxL m l
  | [], m => Int.le_refl m
  | x :: r, m => by
    simp only [maxL]; split
    · exact Int.le_trans (by omega) (maxL_ge_init r x)
    · exact maxL_ge_init r m

theorem maxL_ge_mem : ∀ (l : List Int) (m : Int) (x : Int), x ∈ l → x ≤ maxL m l
  | y :: r, m, x, h => by
    simp only [maxL]
    rcases List.mem_cons.mp h with rfl | h
    · split
      · exact maxL_ge_init r x
      · exact Int.le_trans (by omega) (maxL_ge_init r m)
    · exact maxL_ge_mem r _ x h

theorem maxL_attained : ∀ (l : List Int) (m : Int), maxL m l = m ∨ maxL m l ∈ l
  | [], m => Or.inl rfl
  | x :: r, m => by
    simp only [maxL]; split
    · rcases maxL_attained r x with h | h
      · rw [h]; exact Or.inr (by simp)
      · exact Or.inr (by simp [h])
    · rcases maxL_attained r m with h | h
      · exact Or.inl h
      · exact Or.inr (by simp [h])

/-- the box computed by `boxOf` is the tight axis-parallel bound: it contains every point and each of its four
sides is attained by some point -/
structure Tight (pts : List Pt) (b : Box) : Prop where
  contains : ∀ p ∈ pts, b.minx ≤ p.x ∧ p.x ≤ b.maxx ∧ b.miny ≤ p.y ∧ p.y ≤ b.maxy
  minx_attained : ∃ p ∈ pts, p.x = b.minx
  maxx_attained : ∃ p ∈ pts, p.x = b.maxx
  miny_attained : ∃ p ∈ pts, p.y = b.miny
  maxy_attained : ∃ p ∈ pts, p.y = b.maxy

theorem attained_map {f : Pt → Int} {v : Int} {p : Pt} {r : List Pt}
    (h : v = f p ∨ v ∈ r.map f) : ∃ q ∈ p :: r, f q = v := by
  rcases h with h | h
  · exact ⟨p, by simp, h.symm⟩
  · obtain ⟨q, hq, e⟩ := List.mem_map.mp h
    exact ⟨q, by simp [hq], e⟩

theorem boxOf_tight : ∀ {pts : List Pt} {b : Box}, boxOf pts = some b → Tight pts b
  | [], b, h => by simp [boxOf] at h
  | p :: r, b, h => by
    simp only [boxOf, Option.some.injEq] at h
    subst h
    refine ⟨?_, ?_, ?_, ?_, ?_⟩
    · intro q hq
      rcases List.mem_cons.mp hq with rfl | hq
      · exact ⟨minL_le_init _ _, maxL_ge_init _ _, minL_le_init _ _, maxL_ge_init _ _⟩
      · exact ⟨minL_le_mem _ _ _ (List.mem_map.mpr ⟨q, hq, rfl⟩), maxL_ge_mem _ _ _ (List.mem_map.mpr ⟨q, hq, rfl⟩),
          minL_le_mem _ _ _ (List.mem_map.mpr ⟨q, hq, rfl⟩), maxL_ge_mem _ _ _ (List.mem_map.mpr ⟨q, hq, rfl⟩)⟩
    · exact attained_map (f := (·.x)) (minL_attained _ _)
    · exact attained_map (f := (·.x)) (maxL_attained _ _)
    · exact attained_map (f := (·.y)) (minL_attained _ _)
    · exact attained_map (f := (·.y)) (maxL_attained _ _)

/-- an accepted envelope output has exactly the tight bounds of the input -/
theorem envCheck_sound {pts out : List Pt} (hne : pts ≠ []) (h : envCheck pts out = true) :
    ∃ b, boxOf out = some b ∧ Tight pts b := by
  unfold envCheck at h
  cases hb : boxOf pts with
  | none => cases pts with
    | nil => exact absurd rfl hne
    | cons p r => simp [boxOf] at hb
  | some b =>
    cases hb' : boxOf out with
    | none => simp [hb, hb'] at h
    | some b' =>
      simp only [hb, hb', Bool.and_eq_true, decide_eq_true_eq] at h
      exact ⟨b', rfl, h.1 ▸ boxOf_tight hb⟩

/-! ### minimum bounding circle -/

/-- the circle determined by two support points (diametral) contains `p`: the angle a‑p‑b is at least 90° -/
def InDiametral (a b p : Pt) : Prop := dot p a b ≤ 0

/-- the circumscribed circle of the (non-degenerate) triangle a b c contains `p` -/
def InCircum (a b c p : Pt) : Prop := 0 ≤ orient a b c * inCircleDet a b c p

theorem mbcCheck_two {pts : List Pt} {a b : Pt} (h : mbcCheck pts [a, b] = true) :
    a ≠ b ∧ a ∈ pts ∧ b ∈ pts ∧ ∀ p ∈ pts, InDiametral a b p := by
  simp only [mbcCheck, Bool.and_eq_true, decide_eq_true_eq, List.all_eq_true] at h
  exact ⟨h.1.1.1, memB_iff.mp h.1.1.2, memB_iff.mp h.1.2, h.2⟩

theorem mbcCheck_three {pts : List Pt} {a b c : Pt} (h : mbcCheck pts [a, b, c] = true) :
    orient a b c ≠ 0 ∧ a ∈ pts ∧ b ∈ pts ∧ c ∈ pts ∧
    (0 ≤ dot a b c ∧ 0 ≤ dot b a c ∧ 0 ≤ dot c a b) ∧ ∀ p ∈ pts, InCircum a b c p := by
  simp only [mbcCheck, Bool.and_eq_true, decide_eq_true_eq, List.all_eq_true] at h
  obtain ⟨⟨⟨⟨⟨⟨⟨h1, h2⟩, h3⟩, h4⟩, h5⟩, h6⟩, h7⟩, h8⟩ := h
  exact ⟨h1, memB_iff.mp h2, memB_iff.mp h3, memB_iff.mp h4, ⟨h5, h6, h7⟩, h8⟩

theorem mbcCheck_one {pts : List Pt} {a : Pt} (h : mbcCheck pts [a] = true) : a ∈ pts ∧ ∀ p ∈ pts, p = a := by
  simp only [mbcCheck, Bool.and_eq_true, decide_eq_true_eq, List.all_eq_true] at h
  exact ⟨memB_iff.mp h.1, h.2⟩

theorem mbcCheck_size {pts sup : List Pt} (h : mbcCheck pts sup = true) : sup.length ≤ 3 := by
  match sup, h with
  | [], _ => simp
  | [_], _ => simp
  | [_, _], _ => simp
  | [_, _, _], _ => simp
  | _ :: _ :: _ :: _ :: _, h => simp [mbcCheck] at h

/-! ### minimum over edge directions -/

theorem Q.le_trans' {a b c : Q} (hb : 0 < b.den) (h1 : a.le b = true) (h2 : b.le c = true) : a.le c = true := by
  simp only [Q.le, decide_eq_true_eq] at *
  have hbpos : (0 : Int) < b.den := by omega
  have e1 : a.num * b.den * c.den ≤ b.num * a.den * c.den := Int.mul_le_mul_of_nonneg_right h1 (by omega)
  have e2 : b.num * c.den * a.den ≤ c.num * b.den * a.den := Int.mul_le_mul_of_nonneg_right h2 (by omega)
  have e3 : a.num * c.den * b.den ≤ c.num * a.den * b.den := by
    have : a.num * c.den * b.den = a.num * b.den * c.den := by rw [Int.mul_assoc, Int.mul_comm (c.den : Int), ← Int.mul_assoc]
    have h' : c.num * a.den * b.den = c.num * b.den * a.den := by rw [Int.mul_assoc, Int.mul_comm (a.den : Int), ← Int.mul_assoc]
    have h'' : b.num * a.den * c.den = b.num * c.den * a.den := by rw [Int.mul_assoc, Int.mul_comm (a.den : Int), ← Int.mul_assoc]
    omega
  exact Int.le_of_mul_le_mul_right e3 hbpos

theorem Q.le_refl' (a : Q) : a.le a = true := by simp [Q.le]

theorem Q.le_of_lt' {a b : Q} (h : a.lt b = true) : a.le b = true := by
  simp only [Q.le, Q.lt, decide_eq_true_eq] at *; omega

theorem Q.le_of_not_lt' {a b : Q} (h : ¬ a.lt b = true) : b.le a = true := by
  simp only [Q.le, Q.lt, decide_eq_true_eq] at *; omega

theorem minQ_le_init : ∀ (l : List Q) (m : Q), (∀ q ∈ l, 0 < q.den) → (minQ m l).le m = true
  | [], m, _ => Q.le_refl' m
  | x :: r, m, hp => by
    simp only [minQ]; split
    · rename_i hlt
      exact Q.le_trans' (hp x (by simp)) (minQ_le_init r x (fun q hq => hp q (by simp [hq]))) (Q.le_of_lt' hlt)
    · exact minQ_le_init r m (fun q hq => hp q (by simp [hq]))

theorem minQ_le_mem : ∀ (l : List Q) (m : Q), 0 < m.den → (∀ q ∈ l, 0 < q.den) → ∀ x ∈ l, (minQ m l).le x = true
  | y :: r, m, hm, hp, x, hx => by
    have hy := hp y (by simp)
    have hr : ∀ q ∈ r, 0 < q.den := fun q hq => hp q (by simp [hq])
    simp only [minQ]
    rcases List.mem_cons.mp hx with rfl | hx
    · split
      · exact minQ_le_init r x hr
      · rename_i hlt
        exact Q.le_trans' hm (minQ_le_init r m hr) (Q.le_of_not_lt' hlt)
    · split
      · exact minQ_le_mem r y hy hr x hx
      · exact minQ_le_mem r m hm hr x hx

theorem minQ_attained : ∀ (l : List Q) (m : Q), minQ m l = m ∨ minQ m l ∈ l
  | [], m => Or.inl rfl
  | x :: r, m => by
    simp only [minQ]; split
    · rcases minQ_attained r x with h | h
      · rw [h]; exact Or.inr (by simp)
      · exact Or.inr (by simp [h])
    · rcases minQ_attained r m with h | h
      · exact Or.inl h
      · exact Or.inr (by simp [h])

/-- the minimum over edge directions is the value of some edge of the ring ("attained by a hull edge direction") -/
theorem minOver_attained {f : Pt → Pt → Q} {es : List (Pt × Pt)} {w : Q} (h : minOver f es = some w) :
    ∃ e ∈ es, w = f e.1 e.2 := by
  cases es with
  | nil => simp [minOver] at h
  | cons e r =>
    simp only [minOver, Option.some.injEq] at h
    subst h
    rcases minQ_attained (r.map fun e => f e.1 e.2) (f e.1 e.2) with h | h
    · exact ⟨e, by simp, h⟩
    · obtain ⟨e', he', heq⟩ := List.mem_map.mp h
      exact ⟨e', by simp [he'], heq.symm⟩

/-- … and it is not larger than the value of any edge (denominators positive) -/
theorem minOver_le {f : Pt → Pt → Q} {es : List (Pt × Pt)} {w : Q} (hpos : ∀ e ∈ es, 0 < (f e.1 e.2).den)
    (h : minOver f es = some w) : ∀ e ∈ es, w.le (f e.1 e.2) = true := by
  cases es with
  | nil => simp [minOver] at h
  | cons e r =>
    simp only [minOver, Option.some.injEq] at h
    subst h
    have hr : ∀ q ∈ r.map (fun e => f e.1 e.2), 0 < q.den := by
      intro q hq; obtain ⟨e', he', rfl⟩ := List.mem_map.mp hq; exact hpos e' (by simp [he'])
    intro e' he'
    rcases List.mem_cons.mp he' with rfl | he'
    · exact minQ_le_init _ _ hr
    · exact minQ_le_mem _ _ (hpos e (by simp)) hr _ (List.mem_map.mpr ⟨e', he', rfl⟩)

theorem mem_properEdges {ring : List Pt} {e : Pt × Pt} (h : e ∈ properEdges ring) : e ∈ edges ring ∧ e.1 ≠ e.2 := by
  simpa [properEdges] using h

/-- the exact minimum width is the width in the direction of some proper edge of the ring -/
theorem minWidth2_attained {pts ring : List Pt} {w : Q} (h : minWidth2 pts ring = some w) :
    ∃ e ∈ edges ring, e.1 ≠ e.2 ∧ w = edgeWidth2 pts e.1 e.2 := by
  obtain ⟨e, he, hw⟩ := minOver_attained h
  exact ⟨e, (mem_properEdges he).1, (mem_properEdges he).2, hw⟩

theorem minRectArea_attained {pts ring : List Pt} {w : Q} (h : minRectArea pts ring = some w) :
    ∃ e ∈ edges ring, e.1 ≠ e.2 ∧ w = edgeRectArea pts e.1 e.2 := by
  obtain ⟨e, he, hw⟩ := minOver_attained h
  exact ⟨e, (mem_properEdges he).1, (mem_properEdges he).2, hw⟩

theorem sq_nonneg' (d : Int) : 0 ≤ d * d := by
  rcases Int.lt_trichotomy d 0 with h | h | h
  · exact Int.le_of_lt (Int.mul_pos_of_neg_of_neg h h)
  · subst h; simp
  · exact Int.le_of_lt (Int.mul_pos h h)

theorem sq_pos' {d : Int} (h : d ≠ 0) : 0 < d * d := by
  rcases Int.lt_trichotomy d 0 with h' | h' | h'
  · exact Int.mul_pos_of_neg_of_neg h' h'
  · exact absurd h' h
  · exact Int.mul_pos h' h'

theorem sqDist_pos {a b : Pt} (h : a ≠ b) : 0 < sqDist a b := by
  unfold sqDist
  have hx := sq_nonneg' (a.x - b.x)
  have hy := sq_nonneg' (a.y - b.y)
  by_cases hx0 : a.x - b.x = 0
  · have hy0 : a.y - b.y ≠ 0 := by
      intro hy0; apply h
      cases a; cases b; simp only [Pt.mk.injEq]; constructor <;> simp_all <;> omega
    have := sq_pos' hy0; omega
  · have := sq_pos' hx0; omega

/-- … and it is minimal among the proper edges of the ring -/
theorem minWidth2_min {pts ring : List Pt} {w : Q} (h : minWidth2 pts ring = some w) :
    ∀ e ∈ edges ring, e.1 ≠ e.2 → w.le (edgeWidth2 pts e.1 e.2) = true := by
  intro e he hne
  apply minOver_le _ h e (by simp [properEdges, he, hne])
  intro e' he'
  have := sqDist_pos (mem_properEdges he').2
  simp only [edgeWidth2]; omega

theorem minRectArea_min {pts ring : List Pt} {w : Q} (h : minRectArea pts ring = some w) :
    ∀ e ∈ edges ring, e.1 ≠ e.2 → w.le (edgeRectArea pts e.1 e.2) = true := by
  intro e he hne
  apply minOver_le _ h e (by simp [properEdges, he, hne])
  intro e' he'
  have := sqDist_pos (mem_properEdges he').2
  simp only [edgeRectArea]; omega

/-- `maxAbsDet` really bounds the distance numerator of every point: the width in direction a→b covers all points -/
theorem maxAbsDet_ge {a b : Pt} {pts : List Pt} {p : Pt} (hp : p ∈ pts) : ((det a b p).natAbs : Int) ≤ maxAbsDet a b pts :=
  maxL_ge_mem _ _ _ (List.mem_map.mpr ⟨p, hp, rfl⟩)

/-! ### point on surface -/

theorem posCheck_iff {rings : List (List Pt)} {p : Pt} : posCheck rings p = true ↔ locateInPolygon p rings = .interior := by
  simp [posCheck]

end GeosModel.Construct
