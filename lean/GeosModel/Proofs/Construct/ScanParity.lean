import GeosModel.Proofs.Construct.InteriorPoint
import Mathlib.Tactic.Linarith
import Mathlib.Tactic.Ring
/-!
The even–odd argument behind `InteriorPointArea`: on a scan line that passes through no vertex, the crossings the
scan collects are exactly the crossings of `Kernel.locateInRing`'s ray, so a grid point strictly inside a section
`(c₂ᵢ, c₂ᵢ₊₁)` of the sorted crossing list lies on no ring and inside an odd number of rings.
-/
set_option linter.unusedSimpArgs false
set_option linter.unusedVariables false
namespace GeosModel.Construct
open GeosModel.Kernel

/-- the crossing abscissa `x` is strictly right of the grid point `p` -/
def rightOf (p : Pt) (x : Q) : Bool := (Q.ofInt p.x).lt x
/-- … strictly left of it -/
def leftOf (p : Pt) (x : Q) : Bool := x.lt (Q.ofInt p.x)

/-- the abscissa where the line through `a`, `b` meets `2y = y2`, for `a.y ≠ b.y` -/
def crossX (y2 : Int) (a b : Pt) : Q :=
  if a.x = b.x then Q.ofInt a.x
  else Q.add (Q.ofInt a.x) (Q.div ((y2 - 2 * a.y) * (b.x - a.x)) (2 * (b.y - a.y)))

theorem edgeCrossing_straddle {y2 : Int} {a b : Pt}
    (h : (2 * a.y < y2 ∧ y2 < 2 * b.y) ∨ (2 * b.y < y2 ∧ y2 < 2 * a.y)) :
    edgeCrossing y2 a b = some (crossX y2 a b) := by
  have e1 : ¬ (y2 < 2 * a.y ∧ y2 < 2 * b.y) := by omega
  have e2 : ¬ (2 * a.y < y2 ∧ 2 * b.y < y2) := by omega
  have e3 : ¬ a.y = b.y := by omega
  have e4 : ¬ (2 * a.y = y2 ∧ 2 * b.y < y2) := by omega
  have e5 : ¬ (2 * b.y = y2 ∧ 2 * a.y < y2) := by omega
  unfold edgeCrossing crossX
  simp only [e1, e2, e3, e4, e5, if_false]
  split <;> rfl

theorem edgeCrossing_same_side {y2 : Int} {a b : Pt}
    (h : (2 * a.y < y2 ∧ 2 * b.y < y2) ∨ (y2 < 2 * a.y ∧ y2 < 2 * b.y)) : edgeCrossing y2 a b = none := by
  unfold edgeCrossing
  rcases h with h | h
  · rw [if_neg (by omega), if_pos h]
  · rw [if_pos h]

theorem crosses_none {p a b : Pt} (h : (a.y < p.y ∧ b.y < p.y) ∨ (p.y < a.y ∧ p.y < b.y)) : crosses p a b = false := by
  have h1 : ¬ (a.y ≤ p.y ∧ p.y < b.y) := by omega
  have h2 : ¬ (b.y ≤ p.y ∧ p.y < a.y) := by omega
  simp only [crosses, Bool.and_eq_true, decide_eq_true_eq, h1, h2, if_false]
theorem crosses_up {p a b : Pt} (h1 : a.y ≤ p.y) (h2 : p.y < b.y) : crosses p a b = decide (det a b p > 0) := by
  simp only [crosses, Bool.and_eq_true, decide_eq_true_eq, h1, h2, and_self, if_true]
theorem crosses_down {p a b : Pt} (h1 : b.y ≤ p.y) (h2 : p.y < a.y) : crosses p a b = decide (det a b p < 0) := by
  have h0 : ¬ (a.y ≤ p.y ∧ p.y < b.y) := by omega
  simp only [crosses, Bool.and_eq_true, decide_eq_true_eq, h0, h1, h2, and_self, if_true, if_false]

theorem rightOf_crossX_up {p a b : Pt} (h1 : a.y < p.y) (h2 : p.y < b.y) :
    rightOf p (crossX (2 * p.y) a b) = decide (det a b p > 0) := by
  unfold crossX rightOf
  have hd : (0 : Int) < 2 * (b.y - a.y) := by omega
  rw [Bool.eq_iff_iff]
  split
  · rename_i hx
    have e : ((Q.ofInt p.x).lt (Q.ofInt a.x) = true) ↔ p.x < a.x := by simp [Q.lt, Q.ofInt]
    rw [e, decide_eq_true_eq]
    unfold det
    rw [← hx]
    constructor <;> intro h <;> nlinarith
  · simp only [Q.div, if_neg (Int.ne_of_gt hd), if_neg (Int.not_lt.mpr (Int.le_of_lt hd)), Q.add, Q.lt, Q.ofInt, decide_eq_true_eq]
    push_cast
    rw [abs_of_pos hd]
    unfold det
    constructor <;> intro h <;> nlinarith

theorem rightOf_crossX_down {p a b : Pt} (h1 : b.y < p.y) (h2 : p.y < a.y) :
    rightOf p (crossX (2 * p.y) a b) = decide (det a b p < 0) := by
  unfold crossX rightOf
  have hd : 2 * (b.y - a.y) < (0 : Int) := by omega
  rw [Bool.eq_iff_iff]
  split
  · rename_i hx
    have e : ((Q.ofInt p.x).lt (Q.ofInt a.x) = true) ↔ p.x < a.x := by simp [Q.lt, Q.ofInt]
    rw [e, decide_eq_true_eq]
    unfold det
    rw [← hx]
    constructor <;> intro h <;> nlinarith
  · simp only [Q.div, if_neg (Int.ne_of_lt hd), if_pos hd, Q.add, Q.lt, Q.ofInt, decide_eq_true_eq]
    push_cast
    rw [abs_of_neg hd]
    unfold det
    constructor <;> intro h <;> nlinarith

theorem leftOf_crossX_up {p a b : Pt} (h1 : a.y < p.y) (h2 : p.y < b.y) :
    leftOf p (crossX (2 * p.y) a b) = decide (det a b p < 0) := by
  unfold crossX leftOf
  have hd : (0 : Int) < 2 * (b.y - a.y) := by omega
  rw [Bool.eq_iff_iff]
  split
  · rename_i hx
    have e : ((Q.ofInt a.x).lt (Q.ofInt p.x) = true) ↔ a.x < p.x := by simp [Q.lt, Q.ofInt]
    rw [e, decide_eq_true_eq]
    unfold det
    rw [← hx]
    constructor <;> intro h <;> nlinarith
  · simp only [Q.div, if_neg (Int.ne_of_gt hd), if_neg (Int.not_lt.mpr (Int.le_of_lt hd)), Q.add, Q.lt, Q.ofInt, decide_eq_true_eq]
    push_cast
    rw [abs_of_pos hd]
    unfold det
    constructor <;> intro h <;> nlinarith

theorem leftOf_crossX_down {p a b : Pt} (h1 : b.y < p.y) (h2 : p.y < a.y) :
    leftOf p (crossX (2 * p.y) a b) = decide (det a b p > 0) := by
  unfold crossX leftOf
  have hd : 2 * (b.y - a.y) < (0 : Int) := by omega
  rw [Bool.eq_iff_iff]
  split
  · rename_i hx
    have e : ((Q.ofInt a.x).lt (Q.ofInt p.x) = true) ↔ a.x < p.x := by simp [Q.lt, Q.ofInt]
    rw [e, decide_eq_true_eq]
    unfold det
    rw [← hx]
    constructor <;> intro h <;> nlinarith
  · simp only [Q.div, if_neg (Int.ne_of_lt hd), if_pos hd, Q.add, Q.lt, Q.ofInt, decide_eq_true_eq]
    push_cast
    rw [abs_of_neg hd]
    unfold det
    constructor <;> intro h <;> nlinarith

/-- **the scan's crossing rule is the ray's crossing rule**: for an edge whose end points are not on the line through
`p`, `Kernel.crosses` holds exactly when the scan records a crossing strictly right of `p` -/
theorem crosses_eq_scan {p a b : Pt} (ha : a.y ≠ p.y) (hb : b.y ≠ p.y) :
    crosses p a b = (match edgeCrossing (2 * p.y) a b with | none => false | some x => rightOf p x) := by
  rcases Int.lt_or_gt_of_ne ha with ha' | ha' <;> rcases Int.lt_or_gt_of_ne hb with hb' | hb'
  · rw [edgeCrossing_same_side (Or.inl ⟨by omega, by omega⟩), crosses_none (Or.inl ⟨ha', hb'⟩)]
  · rw [edgeCrossing_straddle (Or.inl ⟨by omega, by omega⟩), crosses_up (Int.le_of_lt ha') hb']
    exact (rightOf_crossX_up ha' hb').symm
  · rw [edgeCrossing_straddle (Or.inr ⟨by omega, by omega⟩), crosses_down (Int.le_of_lt hb') ha']
    exact (rightOf_crossX_down hb' ha').symm
  · rw [edgeCrossing_same_side (Or.inr ⟨by omega, by omega⟩), crosses_none (Or.inr ⟨ha', hb'⟩)]

/-- a point on an edge whose end points are off the line sits exactly at the recorded crossing -/
theorem onSegment_crossing {p a b : Pt} (ha : a.y ≠ p.y) (hb : b.y ≠ p.y) (h : onSegment a b p = true) :
    ∃ x, edgeCrossing (2 * p.y) a b = some x ∧ rightOf p x = false ∧ leftOf p x = false := by
  simp only [onSegment, inBox, Bool.and_eq_true, beq_iff_eq, decide_eq_true_eq] at h
  obtain ⟨hdet, ⟨⟨_, _⟩, h3⟩, h4⟩ := h
  rcases Int.lt_or_gt_of_ne ha with ha' | ha' <;> rcases Int.lt_or_gt_of_ne hb with hb' | hb'
  · exfalso; omega
  · refine ⟨_, edgeCrossing_straddle (Or.inl ⟨by omega, by omega⟩), ?_, ?_⟩
    · rw [rightOf_crossX_up ha' hb']; simp [hdet]
    · rw [leftOf_crossX_up ha' hb']; simp [hdet]
  · refine ⟨_, edgeCrossing_straddle (Or.inr ⟨by omega, by omega⟩), ?_, ?_⟩
    · rw [rightOf_crossX_down hb' ha']; simp [hdet]
    · rw [leftOf_crossX_down hb' ha']; simp [hdet]
  · exfalso; omega

/-! ## counting -/

theorem crossCount_eq {p : Pt} : ∀ (es : List (Pt × Pt)), (∀ e ∈ es, e.1.y ≠ p.y ∧ e.2.y ≠ p.y) →
    (es.filter (fun e => crosses p e.1 e.2)).length =
      ((es.filterMap (fun e => edgeCrossing (2 * p.y) e.1 e.2)).filter (rightOf p)).length := by
  intro es
  induction es with
  | nil => intro _; rfl
  | cons e r ih =>
    intro h
    have he := h e List.mem_cons_self
    have ih' := ih (fun e' he' => h e' (List.mem_cons_of_mem _ he'))
    have hc := crosses_eq_scan he.1 he.2
    cases hx : edgeCrossing (2 * p.y) e.1 e.2 with
    | none =>
      rw [hx] at hc
      simp only [List.filter_cons, hc, List.filterMap_cons, hx]
      simpa using ih'
    | some x =>
      rw [hx] at hc
      simp only [List.filter_cons, hc, List.filterMap_cons, hx]
      cases hr : rightOf p x <;> simp [ih']

/-- end points of the edges of a ring whose vertices are off the line are off the line -/
theorem edges_off {p : Pt} {ring : List Pt} (h : ∀ v ∈ ring, v.y ≠ p.y) :
    ∀ e ∈ edges ring, e.1.y ≠ p.y ∧ e.2.y ≠ p.y :=
  fun e he => ⟨h _ (mem_of_mem_edges he).1, h _ (mem_of_mem_edges he).2⟩

/-- `locateInRing` when `p` is on no edge: the parity of the ray crossings -/
theorem locateInRing_off {p : Pt} {ring : List Pt} (h : ∀ e ∈ edges ring, onSegment e.1 e.2 p = false) :
    locateInRing p ring =
      if ((edges ring).filter (fun e => crosses p e.1 e.2)).length % 2 == 1 then .interior else .exterior := by
  unfold locateInRing
  have : (edges ring).any (fun e => onSegment e.1 e.2 p) = false := by
    rw [List.any_eq_false]; intro e he; simp [h e he]
  simp only [this, Bool.false_eq_true, if_false]

def above (p v : Pt) : Bool := decide (p.y < v.y)

theorem edgeCrossing_none_or_some {p a b : Pt} (ha : a.y ≠ p.y) (hb : b.y ≠ p.y) :
    (above p a = above p b ∧ edgeCrossing (2 * p.y) a b = none) ∨
    (above p a ≠ above p b ∧ ∃ x, edgeCrossing (2 * p.y) a b = some x) := by
  unfold above
  rcases Int.lt_or_gt_of_ne ha with ha' | ha' <;> rcases Int.lt_or_gt_of_ne hb with hb' | hb'
  · left; exact ⟨by simp [ha', hb', Int.not_lt.mpr (Int.le_of_lt ha'), Int.not_lt.mpr (Int.le_of_lt hb')], edgeCrossing_same_side (Or.inl ⟨by omega, by omega⟩)⟩
  · right; exact ⟨by simp [ha', hb', Int.not_lt.mpr (Int.le_of_lt ha')], _, edgeCrossing_straddle (Or.inl ⟨by omega, by omega⟩)⟩
  · right; exact ⟨by simp [ha', hb', Int.not_lt.mpr (Int.le_of_lt hb')], _, edgeCrossing_straddle (Or.inr ⟨by omega, by omega⟩)⟩
  · left; exact ⟨by simp [ha', hb'], edgeCrossing_same_side (Or.inr ⟨by omega, by omega⟩)⟩

/-- a polyline crosses the line an even number of times iff it ends on the side it started on -/
theorem polyline_parity {p : Pt} : ∀ (r : List Pt) (a z : Pt), (∀ v ∈ a :: r, v.y ≠ p.y) → (a :: r).getLast? = some z →
    (ringCrossings (2 * p.y) (a :: r)).length % 2 = if above p a = above p z then 0 else 1 := by
  intro r
  induction r with
  | nil =>
    intro a z _ hz
    simp at hz; subst hz
    simp [ringCrossings, edges]
  | cons b r ih =>
    intro a z h hz
    have hz' : (b :: r).getLast? = some z := by simpa [List.getLast?_cons_cons] using hz
    have ih' := ih b z (fun v hv => h v (List.mem_cons_of_mem _ hv)) hz'
    have ha := h a List.mem_cons_self
    have hb := h b (List.mem_cons_of_mem _ List.mem_cons_self)
    unfold ringCrossings at ih' ⊢
    simp only [edges, List.filterMap_cons]
    rcases edgeCrossing_none_or_some ha hb with ⟨hs, hn⟩ | ⟨hs, x, hx⟩
    · rw [hn, hs]; exact ih'
    · rw [hx]
      simp only [List.length_cons]
      cases h1 : above p a <;> cases h2 : above p b <;> cases h3 : above p z <;> simp_all <;> omega

/-- a closed ring crosses it an even number of times -/
theorem ring_crossings_even {p : Pt} {ring : List Pt} (h : ∀ v ∈ ring, v.y ≠ p.y) (hc : ring = [] ∨ isClosedRing ring = true) :
    (ringCrossings (2 * p.y) ring).length % 2 = 0 := by
  rcases hc with rfl | hc
  · simp [ringCrossings, edges]
  · match ring, hc, h with
    | a :: r, hc, h =>
      simp only [isClosedRing, decide_eq_true_eq] at hc
      have := polyline_parity r a a h hc
      simpa using this

/-! ## order on the rationals -/

theorem Q.lt_of_le_of_lt' {a b c : Q} (ha : 0 < a.den) (hb : 0 < b.den) (h1 : a.le b = true) (h2 : b.lt c = true) :
    a.lt c = true := by
  simp only [Q.le, Q.lt, decide_eq_true_eq] at *
  have hA : (0 : Int) < a.den := by exact_mod_cast ha
  have hB : (0 : Int) < b.den := by exact_mod_cast hb
  have hC : (0 : Int) ≤ c.den := by exact_mod_cast Nat.zero_le _
  have e1 := mul_le_mul_of_nonneg_right h1 hC
  have e2 := mul_lt_mul_of_pos_right h2 hA
  by_contra hcon
  have e3 := mul_le_mul_of_nonneg_right (not_lt.mp hcon) (le_of_lt hB)
  nlinarith

theorem Q.lt_of_lt_of_le' {a b c : Q} (hb : 0 < b.den) (hc : 0 < c.den) (h1 : a.lt b = true) (h2 : b.le c = true) :
    a.lt c = true := by
  simp only [Q.le, Q.lt, decide_eq_true_eq] at *
  have hA : (0 : Int) ≤ a.den := by exact_mod_cast Nat.zero_le _
  have hB : (0 : Int) < b.den := by exact_mod_cast hb
  have hC : (0 : Int) < c.den := by exact_mod_cast hc
  have e1 := mul_lt_mul_of_pos_right h1 hC
  have e2 := mul_le_mul_of_nonneg_right h2 hA
  by_contra hcon
  have e3 := mul_le_mul_of_nonneg_right (not_lt.mp hcon) (le_of_lt hB)
  nlinarith

theorem Q.lt_asymm' {a b : Q} (h : a.lt b = true) : b.lt a = false := by
  simp only [Q.lt, decide_eq_true_eq, decide_eq_false_iff_not] at *; omega

/-! ## the sorted crossing list and its pairs -/

def QPos (l : List Q) : Prop := ∀ q ∈ l, 0 < q.den

theorem insertQ_perm (x : Q) : ∀ l : List Q, (insertQ x l).Perm (x :: l)
  | [] => List.Perm.refl _
  | y :: r => by
    simp only [insertQ]
    split
    · exact ((insertQ_perm x r).cons y).trans (List.Perm.swap x y r)
    · exact List.Perm.refl _

theorem sortQ_perm : ∀ l : List Q, (sortQ l).Perm l
  | [] => List.Perm.refl _
  | x :: r => (insertQ_perm x (sortQ r)).trans ((sortQ_perm r).cons x)

def SortedQ (l : List Q) : Prop := l.Pairwise (fun a b => a.le b = true)

theorem insertQ_sorted (x : Q) (hx : 0 < x.den) : ∀ l : List Q, QPos l → SortedQ l → SortedQ (insertQ x l)
  | [], _, _ => by simp [insertQ, SortedQ]
  | y :: r, hp, hs => by
    have hy : 0 < y.den := hp y List.mem_cons_self
    have hr : QPos r := fun q hq => hp q (List.mem_cons_of_mem _ hq)
    unfold SortedQ at hs ⊢
    rw [List.pairwise_cons] at hs
    simp only [insertQ]
    split
    · rename_i hlt
      rw [List.pairwise_cons]
      refine ⟨?_, insertQ_sorted x hx r hr hs.2⟩
      intro z hz
      rcases List.mem_cons.mp ((insertQ_perm x r).mem_iff.mp hz) with rfl | hz
      · exact Q.le_of_lt' hlt
      · exact hs.1 z hz
    · rename_i hlt
      rw [List.pairwise_cons]
      refine ⟨?_, List.pairwise_cons.mpr hs⟩
      intro z hz
      have hxy : x.le y = true := Q.le_of_not_lt' hlt
      rcases List.mem_cons.mp hz with rfl | hz
      · exact hxy
      · exact Q.le_trans' hy hxy (hs.1 z hz)

theorem sortQ_pos {l : List Q} (h : QPos l) : QPos (sortQ l) :=
  fun q hq => h q ((sortQ_perm l).mem_iff.mp hq)

theorem sortQ_sorted : ∀ l : List Q, QPos l → SortedQ (sortQ l)
  | [], _ => by simp [sortQ, SortedQ]
  | x :: r, h => by
    have hr : QPos r := fun q hq => h q (List.mem_cons_of_mem _ hq)
    exact insertQ_sorted x (h x List.mem_cons_self) (sortQ r) (sortQ_pos hr) (sortQ_sorted r hr)

theorem pairUp_mem : ∀ (l : List Q) (c d : Q), (c, d) ∈ pairUp l →
    ∃ pre post, l = pre ++ c :: d :: post ∧ pre.length % 2 = 0
  | [], _, _, h => by simp [pairUp] at h
  | [_], _, _, h => by simp [pairUp] at h
  | a :: b :: r, c, d, h => by
    simp only [pairUp, List.mem_cons, Prod.mk.injEq] at h
    rcases h with ⟨rfl, rfl⟩ | h
    · exact ⟨[], r, rfl, rfl⟩
    · obtain ⟨pre, post, e, hl⟩ := pairUp_mem r c d h
      exact ⟨a :: b :: pre, post, by simp [e], by simp [List.length_cons]; omega⟩

/-- a grid point strictly inside the section `(c, d)` of a sorted crossing list: every crossing is strictly left or
strictly right of it, and the number of those to the right is `1 + |post|` -/
theorem section_count {p : Pt} {pre post : List Q} {c d : Q} (hpos : QPos (pre ++ c :: d :: post))
    (hs : SortedQ (pre ++ c :: d :: post)) (hc : leftOf p c = true) (hd : rightOf p d = true) :
    ((pre ++ c :: d :: post).filter (rightOf p)).length = 1 + post.length ∧
    ∀ x ∈ pre ++ c :: d :: post, rightOf p x = true ∨ leftOf p x = true := by
  unfold SortedQ at hs
  rw [List.pairwise_append] at hs
  obtain ⟨_, hcd, hpre⟩ := hs
  rw [List.pairwise_cons] at hcd
  obtain ⟨hc', hdp⟩ := hcd
  rw [List.pairwise_cons] at hdp
  have hcden : 0 < c.den := hpos c (by simp)
  have hdden : 0 < d.den := hpos d (by simp)
  have hP : 0 < (Q.ofInt p.x).den := by simp [Q.ofInt]
  have hleft : ∀ x ∈ pre, leftOf p x = true := fun x hx =>
    Q.lt_of_le_of_lt' (hpos x (by simp [hx])) hcden (hpre x hx c (by simp)) hc
  have hright : ∀ x ∈ post, rightOf p x = true := fun x hx =>
    Q.lt_of_lt_of_le' hdden (hpos x (by simp [hx])) hd (hdp.1 x hx)
  have hnr : ∀ x, leftOf p x = true → rightOf p x = false := fun x hx => Q.lt_asymm' hx
  constructor
  · rw [List.filter_append, List.filter_cons, List.filter_cons]
    have e1 : pre.filter (rightOf p) = [] := by
      rw [List.filter_eq_nil_iff]; intro x hx; simp [hnr x (hleft x hx)]
    have e2 : post.filter (rightOf p) = post := by
      rw [List.filter_eq_self]; exact hright
    simp [e1, e2, hnr c hc, hd]; omega
  · intro x hx
    rcases List.mem_append.mp hx with hx | hx
    · exact Or.inr (hleft x hx)
    · rcases List.mem_cons.mp hx with rfl | hx
      · exact Or.inr hc
      · rcases List.mem_cons.mp hx with rfl | hx
        · exact Or.inl hd
        · exact Or.inl (hright x hx)

/-! ## the even–odd theorem -/

theorem Q.div_den_pos (n d : Int) : 0 < (Q.div n d).den := by
  unfold Q.div
  split
  · simp
  · split <;> simp <;> omega

theorem edgeCrossing_den_pos {y2 : Int} {a b : Pt} {x : Q} (h : edgeCrossing y2 a b = some x) : 0 < x.den := by
  unfold edgeCrossing at h
  repeat' split at h
  all_goals (first | (cases h; done) | skip)
  all_goals (cases h)
  · simp [Q.ofInt]
  · simp only [Q.add, Q.ofInt]
    have := Q.div_den_pos ((y2 - 2 * a.y) * (b.x - a.x)) (2 * (b.y - a.y))
    omega

theorem ringCrossings_pos (y2 : Int) (ring : List Pt) : QPos (ringCrossings y2 ring) := by
  intro q hq
  unfold ringCrossings at hq
  obtain ⟨e, _, he⟩ := List.mem_filterMap.mp hq
  exact edgeCrossing_den_pos he

theorem flatMap_pos (y2 : Int) (rings : List (List Pt)) : QPos (rings.flatMap (ringCrossings y2)) := by
  intro q hq
  obtain ⟨r, _, hr⟩ := List.mem_flatMap.mp hq
  exact ringCrossings_pos y2 r q hr

theorem flatMap_even {α : Type} (f : α → List Q) : ∀ (l : List α), (∀ a ∈ l, (f a).length % 2 = 0) →
    (l.flatMap f).length % 2 = 0
  | [], _ => by simp
  | a :: r, h => by
    have h1 := h a List.mem_cons_self
    have h2 := flatMap_even f r (fun b hb => h b (List.mem_cons_of_mem _ hb))
    simp only [List.flatMap_cons, List.length_append]; omega

theorem parity_flatMap {α : Type} (f : α → List Q) (q : Q → Bool) : ∀ (l : List α),
    ((l.flatMap f).filter q).length % 2 = (l.filter (fun a => ((f a).filter q).length % 2 == 1)).length % 2
  | [] => by simp
  | a :: r => by
    have ih := parity_flatMap f q r
    simp only [List.flatMap_cons, List.filter_append, List.length_append, List.filter_cons]
    split
    · rename_i h; simp only [beq_iff_eq] at h; simp only [List.length_cons]; omega
    · rename_i h; simp only [beq_iff_eq] at h; omega

/-- **even–odd**: a grid point strictly inside a section of the scan line (which passes through no vertex of the
closed rings) lies on no ring and inside an odd number of them -/
theorem section_point_parity {p : Pt} {rings : List (List Pt)} {s : Q × Q}
    (hoff : ∀ ring ∈ rings, ∀ v ∈ ring, v.y ≠ p.y)
    (hcl : ∀ ring ∈ rings, ring = [] ∨ isClosedRing ring = true)
    (hs : s ∈ sections (2 * p.y) rings) (h1 : leftOf p s.1 = true) (h2 : rightOf p s.2 = true) :
    (∀ ring ∈ rings, locateInRing p ring ≠ .boundary) ∧
    (rings.filter (fun r => locateInRing p r == .interior)).length % 2 = 1 := by
  unfold sections at hs
  obtain ⟨pre, post, hL, hpre⟩ := pairUp_mem _ s.1 s.2 hs
  have hposL := sortQ_pos (flatMap_pos (2 * p.y) rings)
  have hsorted := sortQ_sorted _ (flatMap_pos (2 * p.y) rings)
  have hperm := sortQ_perm (rings.flatMap (ringCrossings (2 * p.y)))
  rw [hL] at hposL hsorted hperm
  obtain ⟨hcnt, hall⟩ := section_count hposL hsorted h1 h2
  have heven : (rings.flatMap (ringCrossings (2 * p.y))).length % 2 = 0 :=
    flatMap_even _ rings (fun r hr => ring_crossings_even (hoff r hr) (hcl r hr))
  have hlen := hperm.length_eq
  simp only [List.length_append, List.length_cons] at hlen
  have hodd : ((rings.flatMap (ringCrossings (2 * p.y))).filter (rightOf p)).length % 2 = 1 := by
    rw [← (hperm.filter (rightOf p)).length_eq, hcnt]; omega
  have hall' : ∀ x ∈ rings.flatMap (ringCrossings (2 * p.y)), rightOf p x = true ∨ leftOf p x = true :=
    fun x hx => hall x (hperm.mem_iff.mpr hx)
  have hoffb : ∀ ring ∈ rings, ∀ e ∈ edges ring, onSegment e.1 e.2 p = false := by
    intro ring hr e he
    by_contra hcon
    have hon : onSegment e.1 e.2 p = true := by simpa using hcon
    have hv := edges_off (hoff ring hr) e he
    obtain ⟨x, hx, hxr, hxl⟩ := onSegment_crossing hv.1 hv.2 hon
    have hmem : x ∈ rings.flatMap (ringCrossings (2 * p.y)) :=
      List.mem_flatMap.mpr ⟨ring, hr, List.mem_filterMap.mpr ⟨e, he, hx⟩⟩
    rcases hall' x hmem with h | h <;> simp_all
  have hloc : ∀ ring ∈ rings, locateInRing p ring =
      if ((ringCrossings (2 * p.y) ring).filter (rightOf p)).length % 2 == 1 then .interior else .exterior := by
    intro ring hr
    rw [locateInRing_off (hoffb ring hr), crossCount_eq _ (edges_off (hoff ring hr))]
    rfl
  constructor
  · intro ring hr
    rw [hloc ring hr]; split <;> simp
  · rw [parity_flatMap] at hodd
    have : rings.filter (fun r => locateInRing p r == .interior) =
        rings.filter (fun r => ((ringCrossings (2 * p.y) r).filter (rightOf p)).length % 2 == 1) := by
      apply List.filter_congr
      intro r hr
      rw [hloc r hr]
      split <;> simp_all
    rw [this]; exact hodd

/-- … hence in the interior of the polygon, given what validity implies at that point: a hole that contains it lies in
the shell, and no two holes contain it -/
theorem section_point_interior {p : Pt} {shell : List Pt} {holes : List (List Pt)} {s : Q × Q}
    (hoff : ∀ ring ∈ shell :: holes, ∀ v ∈ ring, v.y ≠ p.y)
    (hcl : ∀ ring ∈ shell :: holes, ring = [] ∨ isClosedRing ring = true)
    (hs : s ∈ sections (2 * p.y) (shell :: holes)) (h1 : leftOf p s.1 = true) (h2 : rightOf p s.2 = true)
    (nest : ∀ h ∈ holes, locateInRing p h = .interior → locateInRing p shell = .interior)
    (apart : (holes.filter (fun h => locateInRing p h == .interior)).length ≤ 1) :
    locateInPolygon p (shell :: holes) = .interior := by
  obtain ⟨hnb, hodd⟩ := section_point_parity hoff hcl hs h1 h2
  have hnbh : holes.any (fun h => locateInRing p h == .boundary) = false := by
    rw [List.any_eq_false]; intro h hh; simpa using hnb h (List.mem_cons_of_mem _ hh)
  simp only [locateInPolygon, hnbh, Bool.false_eq_true, if_false]
  rw [List.filter_cons] at hodd
  cases hsh : locateInRing p shell with
  | boundary => exact absurd hsh (hnb shell List.mem_cons_self)
  | interior =>
    simp only [hsh, beq_self_eq_true, if_true, List.length_cons] at hodd
    have h0 : (holes.filter (fun h => locateInRing p h == .interior)).length = 0 := by omega
    have hnone : holes.any (fun h => locateInRing p h == .interior) = false := by
      rw [List.any_eq_false]; intro h hh hc
      have : h ∈ holes.filter (fun h => locateInRing p h == .interior) := List.mem_filter.mpr ⟨hh, hc⟩
      rw [List.length_eq_zero_iff.mp h0] at this; simp at this
    simp [hnone]
  | exterior =>
    exfalso
    have hne : (locateInRing p shell == Loc.interior) = false := by rw [hsh]; rfl
    simp only [hne, Bool.false_eq_true, if_false] at hodd
    have hpos : 0 < (holes.filter (fun h => locateInRing p h == .interior)).length := by omega
    obtain ⟨h, hh⟩ := List.exists_mem_of_length_pos hpos
    have hm := List.mem_filter.mp hh
    have := nest h hm.1 (by simpa using hm.2)
    rw [hsh] at this; cases this

/-- the midpoint of a section of positive width, when it is a grid abscissa, is strictly inside the section -/
theorem midpoint_strictly_inside {p : Pt} {s : Q × Q} (h1 : 0 < s.1.den) (h2 : 0 < s.2.den) (hw : s.1.lt s.2 = true)
    (hm : 2 * p.x * ((s.1.den : Int) * s.2.den) = s.1.num * s.2.den + s.2.num * s.1.den) :
    leftOf p s.1 = true ∧ rightOf p s.2 = true := by
  have hd1 : (0 : Int) < s.1.den := by exact_mod_cast h1
  have hd2 : (0 : Int) < s.2.den := by exact_mod_cast h2
  have hw' : s.1.num * s.2.den < s.2.num * s.1.den := by simpa [Q.lt] using hw
  have e1 : leftOf p s.1 = true ↔ s.1.num < p.x * s.1.den := by simp [leftOf, Q.lt, Q.ofInt]
  have e2 : rightOf p s.2 = true ↔ p.x * s.2.den < s.2.num := by simp [rightOf, Q.lt, Q.ofInt]
  rw [e1, e2]
  constructor
  · by_contra hc
    have := mul_le_mul_of_nonneg_right (not_lt.mp hc) (le_of_lt hd2)
    nlinarith
  · by_contra hc
    have := mul_le_mul_of_nonneg_right (not_lt.mp hc) (le_of_lt hd1)
    nlinarith

theorem sections_pos {y2 : Int} {rings : List (List Pt)} {s : Q × Q} (hs : s ∈ sections y2 rings) :
    0 < s.1.den ∧ 0 < s.2.den := by
  unfold sections at hs
  obtain ⟨pre, post, hL, _⟩ := pairUp_mem _ s.1 s.2 hs
  have hpos := sortQ_pos (flatMap_pos y2 rings)
  rw [hL] at hpos
  exact ⟨hpos s.1 (by simp), hpos s.2 (by simp)⟩

end GeosModel.Construct
