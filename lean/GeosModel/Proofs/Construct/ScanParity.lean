import GeosModel.Proofs.Construct.InteriorPoint
import Mathlib.Tactic.Linarith
import Mathlib.Tactic.Ring
/-!
The even–odd argument behind `InteriorPointArea`: on a scan line that passes through no vertex, the crossings the
scan collects are exactly the crossings of `Kernel.locateInRing`'s ray, so a grid point strictly inside a section
`(c₂ᵢ, c₂ᵢ₊₁)` of the sorted crossing list lies on no ring and inside an odd number of rings.
-/
set_option linter.unusedSimpArgs false
set_option linter.unusedVariables false
namespace GeosModel.Construct
open GeosModel.Kernel

/-- the crossing abscissa `x` is strictly right of the grid point `p` -/
def rightOf (p : Pt) (x : Q) : Bool := (Q.ofInt p.x).lt x

theorem edgeCrossing_straddle {y2 : Int} {a b : Pt}
    (h : (2 * a.y < y2 ∧ y2 < 2 * b.y) ∨ (2 * b.y < y2 ∧ y2 < 2 * a.y)) :
    edgeCrossing y2 a b = some (if a.x = b.x then Q.ofInt a.x
      else Q.add (Q.ofInt a.x) (Q.div ((y2 - 2 * a.y) * (b.x - a.x)) (2 * (b.y - a.y)))) := by
  have e1 : ¬ (y2 < 2 * a.y ∧ y2 < 2 * b.y) := by omega
  have e2 : ¬ (2 * a.y < y2 ∧ 2 * b.y < y2) := by omega
  have e3 : ¬ a.y = b.y := by omega
  have e4 : ¬ (2 * a.y = y2 ∧ 2 * b.y < y2) := by omega
  have e5 : ¬ (2 * b.y = y2 ∧ 2 * a.y < y2) := by omega
  unfold edgeCrossing
  simp only [e1, e2, e3, e4, e5, if_false]
  split <;> rfl

theorem edgeCrossing_same_side {y2 : Int} {a b : Pt}
    (h : (2 * a.y < y2 ∧ 2 * b.y < y2) ∨ (y2 < 2 * a.y ∧ y2 < 2 * b.y)) : edgeCrossing y2 a b = none := by
  unfold edgeCrossing
  rcases h with h | h
  · rw [if_neg (by omega), if_pos h]
  · rw [if_pos h]

/-- **the scan's crossing rule is the ray's crossing rule**: for an edge whose end points are not on the line through
`p`, `Kernel.crosses` holds exactly when the scan records a crossing strictly right of `p` -/
theorem crosses_eq_scan {p a b : Pt} (ha : a.y ≠ p.y) (hb : b.y ≠ p.y) :
    crosses p a b = (match edgeCrossing (2 * p.y) a b with | none => false | some x => rightOf p x) := by
  rcases Int.lt_or_gt_of_ne ha with ha' | ha' <;> rcases Int.lt_or_gt_of_ne hb with hb' | hb'
  · rw [edgeCrossing_same_side (Or.inl ⟨by omega, by omega⟩)]
    simp [crosses]; omega
  · rw [edgeCrossing_straddle (Or.inl ⟨by omega, by omega⟩)]
    sorry
  · rw [edgeCrossing_straddle (Or.inr ⟨by omega, by omega⟩)]
    sorry
  · rw [edgeCrossing_same_side (Or.inr ⟨by omega, by omega⟩)]
    simp [crosses]; omega

end GeosModel.Construct
