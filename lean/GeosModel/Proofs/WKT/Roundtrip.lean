import GeosModel.Model.WKT.Read
import GeosModel.Model.WKT.Spec
/-! Token-level round trip of the WKT writer/reader models (ISO tags), for the geometry classes without
curved components. -/
namespace GeosModel.WKT
open GeosModel

/-- the reader's flags agree with the ordinates the writer used; undeclared (`ca`) only for plain XY -/
structure FOK (o : Ords) (fl : Flags) : Prop where
  z : fl.z = o.z
  m : fl.m = o.m
  ca : fl.ca = true → o.z = false ∧ o.m = false

theorem getCoord_ok (o : Ords) (fl : Flags) (c : Coord) (rest : List Tok) (hf : FOK o fl)
    (hr : isNumNext rest = false) :
    getCoord fl (coordToks o c ++ rest) = .ok ((projCoord o id c, { fl with ca := false }), rest) := by
  obtain ⟨fz, fm, fca⟩ := fl
  obtain ⟨oz, om⟩ := o
  have h1 := hf.z; have h2 := hf.m; have h3 := hf.ca
  simp only at h1 h2 h3
  subst h1; subst h2
  cases fz <;> cases fm <;> cases fca <;>
    simp_all [getCoord, coordToks, getNum, projCoord, bind, Except.bind, pure, Except.pure, isNumNext]

end GeosModel.WKT

namespace GeosModel.WKT
open GeosModel

/-- coordinates after the first one, each preceded by a comma -/
def tailToks (o : Ords) : List Coord → List Tok
  | [] => []
  | c :: cs => .comma :: coordToks o c ++ tailToks o cs

theorem coordsToks_cons (o : Ords) (c : Coord) (cs : List Coord) :
    coordsToks o (c :: cs) = coordToks o c ++ tailToks o cs := by
  induction cs generalizing c with
  | nil => simp [coordsToks, tailToks]
  | cons d ds ih => simp [coordsToks, tailToks, ih]

theorem isNumNext_tail (o : Ords) (cs : List Coord) (rest : List Tok) :
    isNumNext (tailToks o cs ++ .rp :: rest) = false := by
  cases cs <;> simp [tailToks, isNumNext]

theorem FOK_fixed {o : Ords} {fl : Flags} (h : FOK o fl) : FOK o { fl with ca := false } :=
  ⟨h.z, h.m, by intro hc; cases hc⟩

theorem moreCoords_ok (o : Ords) : ∀ (cs : List Coord) (f : Nat) (fl : Flags) (rest : List Tok),
    FOK o fl → cs.length + 1 ≤ f →
    moreCoords f fl (tailToks o cs ++ .rp :: rest) = .ok (cs.map (projCoord o id), rest)
  | [], f, fl, rest, _, hf => by
    obtain ⟨f, rfl⟩ : ∃ g, f = g + 1 := ⟨f - 1, by omega⟩
    simp [moreCoords, tailToks, closerOrComma, bind, Except.bind, pure, Except.pure]
  | c :: cs, f, fl, rest, hfl, hf => by
    obtain ⟨f, rfl⟩ : ∃ g, f = g + 1 := ⟨f - 1, by omega⟩
    simp only [moreCoords, tailToks, List.cons_append, closerOrComma, bind, Except.bind, if_true, List.append_assoc]
    rw [getCoord_ok o fl c _ hfl (isNumNext_tail o cs rest)]
    simp only
    rw [moreCoords_ok o cs f _ rest (FOK_fixed hfl) (by simp at hf; omega)]
    simp [pure, Except.pure]

/-- what the reader's flags look like after the sequence -/
def flagsAfter (fl : Flags) (s : CSeq) : Flags := if s.pts.isEmpty then fl else { fl with ca := false }

theorem FOK_after {o : Ords} {fl : Flags} (s : CSeq) (h : FOK o fl) : FOK o (flagsAfter fl s) := by
  unfold flagsAfter; split
  · exact h
  · exact FOK_fixed h

theorem emptyOrOpener_lp (fl : Flags) (r : List Tok) : emptyOrOpener fl (.lp :: r) = .ok ((false, fl), r) := by
  simp [emptyOrOpener]

theorem emptyOrOpener_empty (fl : Flags) (r : List Tok) :
    emptyOrOpener fl (.word "EMPTY" :: r) = .ok ((true, fl), r) := by
  simp [emptyOrOpener]

/-- reading a sequence once the opener (or EMPTY) has been seen with flags `fl1` -/
theorem getCoordinates_of (o : Ords) (s : CSeq) (f : Nat) (fl fl1 : Flags) (pre rest : List Tok)
    (hfl : FOK o fl1) (hf : s.pts.length + 1 ≤ f)
    (hopen : ∀ r, emptyOrOpener fl (pre ++ .lp :: r) = .ok ((false, fl1), r))
    (hempty : ∀ r, emptyOrOpener fl (pre ++ .word "EMPTY" :: r) = .ok ((true, fl1), r)) :
    getCoordinates f fl (pre ++ seqText o s ++ rest) = .ok ((projSeq o id s, flagsAfter fl1 s), rest) := by
  unfold seqText flagsAfter getCoordinates
  cases hs : s.pts with
  | nil =>
    simp only [List.isEmpty_nil, if_true, List.append_assoc, List.singleton_append]
    rw [hempty]
    simp [bind, Except.bind, pure, Except.pure, projSeq, hs, hfl.z, hfl.m]
  | cons c cs =>
    simp only [List.isEmpty_cons, Bool.false_eq_true, if_false, List.cons_append, List.append_assoc]
    rw [hopen, coordsToks_cons]
    simp only [bind, Except.bind, Bool.false_eq_true, if_false, List.append_assoc]
    rw [getCoord_ok o fl1 c _ hfl (by simp [isNumNext_tail])]
    simp only
    rw [List.nil_append, moreCoords_ok o cs f _ rest (FOK_fixed hfl) (by rw [hs] at hf; simp at hf; omega)]
    simp [pure, Except.pure, projSeq, hs, hfl.z, hfl.m]

/-- an untagged sequence read with flags that already agree -/
theorem getCoordinates_plain (o : Ords) (s : CSeq) (f : Nat) (fl : Flags) (rest : List Tok)
    (hfl : FOK o fl) (hf : s.pts.length + 1 ≤ f) :
    getCoordinates f fl (seqText o s ++ rest) = .ok ((projSeq o id s, flagsAfter fl s), rest) := by
  have := getCoordinates_of o s f fl fl [] rest hfl hf (by intro r; exact emptyOrOpener_lp fl r)
    (by intro r; exact emptyOrOpener_empty fl r)
  simpa using this

end GeosModel.WKT

namespace GeosModel.WKT
open GeosModel

/-- flags after the dimension tag of a geometry with output ordinates `o` -/
def tagFlags (o : Ords) : Flags := { z := o.z, m := o.m, ca := !(o.z || o.m) }

theorem FOK_tag (o : Ords) : FOK o (tagFlags o) := by
  refine ⟨rfl, rfl, ?_⟩
  intro h; simp [tagFlags] at h; exact h

theorem opener_tag_lp (cfg : Cfg) (hiso : cfg.old3D = false) (o : Ords) (r : List Tok) :
    emptyOrOpener {} (ordText cfg o ++ .lp :: r) = .ok ((false, tagFlags o), r) := by
  obtain ⟨oz, om⟩ := o
  cases oz <;> cases om <;> simp [ordText, hiso, emptyOrOpener, tagFlags]

theorem opener_tag_empty (cfg : Cfg) (hiso : cfg.old3D = false) (o : Ords) (r : List Tok) :
    emptyOrOpener {} (ordText cfg o ++ .word "EMPTY" :: r) = .ok ((true, tagFlags o), r) := by
  obtain ⟨oz, om⟩ := o
  cases oz <;> cases om <;> simp [ordText, hiso, emptyOrOpener, tagFlags]

/-- a tagged sequence: `<tag> ( … )` or `<tag> EMPTY`, read from fresh flags -/
theorem getCoordinates_tagged (cfg : Cfg) (hiso : cfg.old3D = false) (o : Ords) (s : CSeq) (f : Nat)
    (rest : List Tok) (hf : s.pts.length + 1 ≤ f) :
    getCoordinates f {} (ordText cfg o ++ seqText o s ++ rest) =
      .ok ((projSeq o id s, flagsAfter (tagFlags o) s), rest) :=
  getCoordinates_of o s f {} (tagFlags o) (ordText cfg o) rest (FOK_tag o) hf
    (opener_tag_lp cfg hiso o) (opener_tag_empty cfg hiso o)

theorem flagsAfter_dims (fl : Flags) (s : CSeq) : (flagsAfter fl s).z = fl.z ∧ (flagsAfter fl s).m = fl.m := by
  unfold flagsAfter; split <;> simp

/-- the "Cannot mix dimensionality" test passes -/
theorem mix_ok (orig nf : Flags) (o : Ords) (h1 : nf.z = o.z) (h2 : nf.m = o.m)
    (h : orig.ca = true ∨ (orig.z = o.z ∧ orig.m = o.m)) : (!orig.ca && !(nf.sameDims orig)) = false := by
  rcases h with h | ⟨a, b⟩
  · simp [h]
  · simp [Flags.sameDims, h1, h2, a, b]

theorem projSeq_len (o : Ords) (s : CSeq) : (projSeq o id s).pts.length = s.pts.length := by
  simp [projSeq]

theorem read_point (cfg : Cfg) (hiso : cfg.old3D = false) (s : CSeq) (hwf : s.pts.length ≤ 1)
    (f : Nat) (orig : Flags) (ek : EmptyKind) (rest : List Tok) (hf : s.pts.length + 3 ≤ f)
    (ho : orig.ca = true ∨ (orig.z = (outOrds cfg (.point s)).z ∧ orig.m = (outOrds cfg (.point s)).m)) :
    readTagged f orig ek (tagged cfg (.point s) ++ rest) = .ok (project cfg id (.point s), rest) := by
  obtain ⟨f, rfl⟩ : ∃ g, f = g + 2 := ⟨f - 2, by omega⟩
  have hm : matchType "POINT" = some ("POINT", {}) := by decide
  simp only [tagged, List.cons_append, List.append_assoc, readTagged]
  rw [if_neg (by decide), hm]
  simp only [readBody, if_true, bind, Except.bind]
  rw [← List.append_assoc, getCoordinates_tagged cfg hiso _ s f rest (by omega)]
  simp only [mkPoint, projSeq_len, hwf, if_true, pure, Except.pure]
  have hd := flagsAfter_dims (tagFlags (capOrds cfg.outDim ⟨s.hasZ, s.hasM⟩)) s
  rw [mix_ok orig _ (capOrds cfg.outDim ⟨s.hasZ, s.hasM⟩) hd.1 hd.2 ho]
  simp [project]

end GeosModel.WKT

namespace GeosModel.WKT
open GeosModel

/-! ### the other single-sequence types -/

theorem eq2D_proj (o : Ords) (a b : Coord) : eq2D (projCoord o id a) (projCoord o id b) = eq2D a b := by
  simp [eq2D, projCoord]

theorem ringOK_proj (o : Ords) (s : CSeq) : ringOK (projSeq o id s) = ringOK s := by
  unfold ringOK closedSeq projSeq
  cases hs : s.pts with
  | nil => simp
  | cons c cs =>
    simp only [List.map_cons, List.isEmpty_cons, List.head?_cons, List.length_cons, List.length_map, Bool.false_or]
    have : ((projCoord o id c :: List.map (projCoord o id) cs).getLast?) = ((c :: cs).getLast?).map (projCoord o id) := by
      rw [← List.map_cons, List.getLast?_map]
    rw [this]
    cases hl : (c :: cs).getLast? with
    | none => simp
    | some l => simp [eq2D_proj]

theorem read_lineString (cfg : Cfg) (hiso : cfg.old3D = false) (s : CSeq) (hwf : s.pts.length ≠ 1)
    (f : Nat) (orig : Flags) (ek : EmptyKind) (rest : List Tok) (hf : s.pts.length + 3 ≤ f)
    (ho : orig.ca = true ∨ (orig.z = (outOrds cfg (.lineString s)).z ∧ orig.m = (outOrds cfg (.lineString s)).m)) :
    readTagged f orig ek (tagged cfg (.lineString s) ++ rest) = .ok (project cfg id (.lineString s), rest) := by
  obtain ⟨f, rfl⟩ : ∃ g, f = g + 2 := ⟨f - 2, by omega⟩
  have hm : matchType "LINESTRING" = some ("LINESTRING", {}) := by decide
  simp only [tagged, List.cons_append, List.append_assoc, readTagged]
  rw [if_neg (by decide), hm]
  simp (config := { decide := true }) only [readBody, bind, Except.bind, if_true, if_false]
  rw [← List.append_assoc, getCoordinates_tagged cfg hiso _ s f rest (by omega)]
  simp only [mkLine, projSeq_len, hwf, if_false, pure, Except.pure]
  have hd := flagsAfter_dims (tagFlags (capOrds cfg.outDim ⟨s.hasZ, s.hasM⟩)) s
  rw [mix_ok orig _ (capOrds cfg.outDim ⟨s.hasZ, s.hasM⟩) hd.1 hd.2 ho]
  simp [project]

theorem read_linearRing (cfg : Cfg) (hiso : cfg.old3D = false) (s : CSeq) (hwf : ringOK s = true)
    (f : Nat) (orig : Flags) (ek : EmptyKind) (rest : List Tok) (hf : s.pts.length + 3 ≤ f)
    (ho : orig.ca = true ∨ (orig.z = (outOrds cfg (.linearRing s)).z ∧ orig.m = (outOrds cfg (.linearRing s)).m)) :
    readTagged f orig ek (tagged cfg (.linearRing s) ++ rest) = .ok (project cfg id (.linearRing s), rest) := by
  obtain ⟨f, rfl⟩ : ∃ g, f = g + 2 := ⟨f - 2, by omega⟩
  have hm : matchType "LINEARRING" = some ("LINEARRING", {}) := by decide
  simp only [tagged, List.cons_append, List.append_assoc, readTagged]
  rw [if_neg (by decide), hm]
  simp (config := { decide := true }) only [readBody, bind, Except.bind, if_true, if_false]
  rw [← List.append_assoc, getCoordinates_tagged cfg hiso _ s f rest (by omega)]
  simp only [mkRing, ringOK_proj, hwf, if_true, pure, Except.pure]
  have hd := flagsAfter_dims (tagFlags (capOrds cfg.outDim ⟨s.hasZ, s.hasM⟩)) s
  rw [mix_ok orig _ (capOrds cfg.outDim ⟨s.hasZ, s.hasM⟩) hd.1 hd.2 ho]
  simp [project]

theorem read_circularString (cfg : Cfg) (hiso : cfg.old3D = false) (s : CSeq) (hwf : s.pts.length ≠ 2)
    (f : Nat) (orig : Flags) (ek : EmptyKind) (rest : List Tok) (hf : s.pts.length + 3 ≤ f)
    (ho : orig.ca = true ∨ (orig.z = (outOrds cfg (.circularString s)).z ∧ orig.m = (outOrds cfg (.circularString s)).m)) :
    readTagged f orig ek (tagged cfg (.circularString s) ++ rest) = .ok (project cfg id (.circularString s), rest) := by
  obtain ⟨f, rfl⟩ : ∃ g, f = g + 2 := ⟨f - 2, by omega⟩
  have hm : matchType "CIRCULARSTRING" = some ("CIRCULARSTRING", {}) := by decide
  simp only [tagged, List.cons_append, List.append_assoc, readTagged]
  rw [if_neg (by decide), hm]
  simp (config := { decide := true }) only [readBody, bind, Except.bind, if_true, if_false]
  rw [← List.append_assoc, getCoordinates_tagged cfg hiso _ s f rest (by omega)]
  simp only [mkCirc, projSeq_len, hwf, if_false, pure, Except.pure]
  have hd := flagsAfter_dims (tagFlags (capOrds cfg.outDim ⟨s.hasZ, s.hasM⟩)) s
  rw [mix_ok orig _ (capOrds cfg.outDim ⟨s.hasZ, s.hasM⟩) hd.1 hd.2 ho]
  simp [project]

end GeosModel.WKT

namespace GeosModel.WKT
open GeosModel

/-! ### comma-separated lists -/

def sepTail (xs : List (List Tok)) : List Tok :=
  match xs with
  | [] => []
  | _ :: _ => .comma :: commaSep xs

theorem commaSep_cons (x : List Tok) (xs : List (List Tok)) : commaSep (x :: xs) = x ++ sepTail xs := by
  cases xs <;> simp [commaSep, sepTail]

/-- fuel for a list of sequences -/
def seqsFuel : List CSeq → Nat
  | [] => 0
  | s :: ss => s.pts.length + 2 + seqsFuel ss

theorem readRings_ok (o : Ords) : ∀ (ss : List CSeq) (s0 : CSeq) (f : Nat) (fl : Flags) (rest : List Tok),
    FOK o fl → (∀ s ∈ s0 :: ss, ringOK s = true) → seqsFuel (s0 :: ss) ≤ f →
    ∃ fl', FOK o fl' ∧
      readRings f fl (commaSep ((s0 :: ss).map (seqText o)) ++ .rp :: rest) =
        .ok (((s0 :: ss).map (projSeq o id), fl'), rest)
  | [], s0, f, fl, rest, hfl, hwf, hf => by
    obtain ⟨f, rfl⟩ : ∃ g, f = g + 1 := ⟨f - 1, by simp [seqsFuel] at hf; omega⟩
    simp only [seqsFuel] at hf
    refine ⟨flagsAfter fl s0, FOK_after s0 hfl, ?_⟩
    simp only [List.map_cons, List.map_nil, commaSep, readRings, bind, Except.bind]
    rw [getCoordinates_plain o s0 f fl _ hfl (by omega)]
    simp [ringOK_proj, hwf s0 (by simp), closerOrComma, pure, Except.pure]
  | s1 :: ss, s0, f, fl, rest, hfl, hwf, hf => by
    obtain ⟨f, rfl⟩ : ∃ g, f = g + 1 := ⟨f - 1, by simp [seqsFuel] at hf; omega⟩
    have hf' : seqsFuel (s1 :: ss) ≤ f := by simp only [seqsFuel] at hf ⊢; omega
    obtain ⟨fl', hfl', ih⟩ := readRings_ok o ss s1 f (flagsAfter fl s0) rest (FOK_after s0 hfl)
      (fun s hs => hwf s (by simp only [List.mem_cons] at hs ⊢; right; exact hs)) hf'
    refine ⟨fl', hfl', ?_⟩
    rw [List.map_cons, commaSep_cons]
    simp only [readRings, bind, Except.bind, List.append_assoc]
    rw [getCoordinates_plain o s0 f fl _ hfl (by simp only [seqsFuel] at hf; omega)]
    simp only [ringOK_proj, hwf s0 (by simp), Bool.not_true, Bool.false_eq_true, if_false, sepTail, List.map_cons,
      List.cons_append, closerOrComma, if_true]
    rw [← List.map_cons, ih]
    simp [pure, Except.pure]

/-- a polygon body (`EMPTY` or `( rings )`) once the opener has been seen with flags `fl1` -/
theorem readPolygon_of (o : Ords) (sh : CSeq) (hs : List CSeq) (f : Nat) (fl fl1 : Flags) (pre rest : List Tok)
    (hfl : FOK o fl1) (hwf : ∀ s ∈ sh :: hs, ringOK s = true) (hf : seqsFuel (sh :: hs) + 1 ≤ f)
    (hopen : ∀ r, emptyOrOpener fl (pre ++ .lp :: r) = .ok ((false, fl1), r))
    (hempty : ∀ r, emptyOrOpener fl (pre ++ .word "EMPTY" :: r) = .ok ((true, fl1), r)) :
    ∃ fl', FOK o fl' ∧
      readPolygon f fl (pre ++ polygonText o sh hs ++ rest) = .ok ((projPolygon o id sh hs, fl'), rest) := by
  obtain ⟨f, rfl⟩ : ∃ g, f = g + 1 := ⟨f - 1, by omega⟩
  unfold polygonText projPolygon
  by_cases he : sh.pts.isEmpty = true
  · refine ⟨fl1, hfl, ?_⟩
    simp only [he, if_true, readPolygon, List.append_assoc, List.singleton_append, bind, Except.bind]
    rw [hempty]
    simp [pure, Except.pure, hfl.z, hfl.m]
  · obtain ⟨fl', hfl', hr⟩ := readRings_ok o hs sh f fl1 rest hfl hwf (by omega)
    refine ⟨fl', hfl', ?_⟩
    simp only [he, Bool.false_eq_true, if_false, readPolygon, List.append_assoc, List.cons_append, bind, Except.bind]
    rw [hopen, List.nil_append]
    simp only [Bool.false_eq_true, if_false]
    rw [hr]
    have hne : (projSeq o id sh).pts.isEmpty = false := by
      simp only [projSeq, List.isEmpty_iff, List.map_eq_nil_iff]
      simpa using he
    simp [hne, pure, Except.pure]

end GeosModel.WKT

namespace GeosModel.WKT
open GeosModel

/-! ### element predicates and fuel -/

def isPt : G → Bool
  | .point s => decide (s.pts.length ≤ 1)
  | _ => false
def isLn : G → Bool
  | .lineString s => decide (s.pts.length ≠ 1)
  | _ => false
def isPg : G → Bool
  | .polygon sh hs => ringOK sh && hs.all ringOK
  | _ => false

mutual
  /-- fuel that certainly suffices to read the geometry back -/
  def gFuel : G → Nat
    | .point s | .lineString s | .linearRing s | .circularString s => s.pts.length + 3
    | .polygon sh hs => seqsFuel (sh :: hs) + 3
    | .compoundCurve gs | .curvePolygon gs | .multiPoint gs | .multiLineString gs | .multiPolygon gs
    | .multiCurve gs | .multiSurface gs | .collection gs => gsFuel gs + 3
  def gsFuel : List G → Nat
    | [] => 0
    | g :: gs => gFuel g + 1 + gsFuel gs
end

theorem ringsWF_of (sh : CSeq) (hs : List CSeq) (h : (ringOK sh && hs.all ringOK) = true) :
    ∀ s ∈ sh :: hs, ringOK s = true := by
  simp only [Bool.and_eq_true, List.all_eq_true] at h
  intro s hs'
  simp only [List.mem_cons] at hs'
  rcases hs' with rfl | hs'
  · exact h.1
  · exact h.2 s hs'

theorem read_polygon (cfg : Cfg) (hiso : cfg.old3D = false) (sh : CSeq) (hs : List CSeq)
    (hwf : (ringOK sh && hs.all ringOK) = true)
    (f : Nat) (orig : Flags) (ek : EmptyKind) (rest : List Tok) (hf : gFuel (.polygon sh hs) ≤ f)
    (ho : orig.ca = true ∨ (orig.z = (outOrds cfg (.polygon sh hs)).z ∧ orig.m = (outOrds cfg (.polygon sh hs)).m)) :
    readTagged f orig ek (tagged cfg (.polygon sh hs) ++ rest) = .ok (project cfg id (.polygon sh hs), rest) := by
  obtain ⟨f, rfl⟩ : ∃ g, f = g + 2 := ⟨f - 2, by simp only [gFuel] at hf; omega⟩
  have hm : matchType "POLYGON" = some ("POLYGON", {}) := by decide
  obtain ⟨fl', hfl', hr⟩ := readPolygon_of (outOrds cfg (.polygon sh hs)) sh hs f {} (tagFlags _)
    (ordText cfg (outOrds cfg (.polygon sh hs))) rest (FOK_tag _) (ringsWF_of sh hs hwf)
    (by simp only [gFuel] at hf; omega) (opener_tag_lp cfg hiso _) (opener_tag_empty cfg hiso _)
  simp only [tagged, List.cons_append, List.append_assoc, readTagged]
  rw [if_neg (by decide), hm]
  simp (config := { decide := true }) only [readBody, bind, Except.bind, if_true, if_false]
  rw [← List.append_assoc, hr]
  simp only
  rw [mix_ok orig fl' _ hfl'.z hfl'.m ho]
  simp [project, pure, Except.pure]

/-! ### MULTIPOINT -/

theorem pointElem_eq (o : Ords) (s : CSeq) (h : s.pts.length ≤ 1) : pointElemText o (.point s) = seqText o s := by
  obtain ⟨z, m, pts⟩ := s
  unfold pointElemText seqText
  cases pts with
  | nil => simp
  | cons c cs =>
    cases cs with
    | nil => simp [coordsToks]
    | cons d ds => simp at h

theorem projPoint_eq (o : Ords) (s : CSeq) (h : s.pts.length ≤ 1) : projPoint o id (.point s) = .point (projSeq o id s) := by
  obtain ⟨z, m, pts⟩ := s
  unfold projPoint projSeq
  cases pts with
  | nil => simp
  | cons c cs =>
    cases cs with
    | nil => simp
    | cons d ds => simp at h

theorem readPoints_ok (o : Ords) : ∀ (gs : List G) (g0 : G) (f : Nat) (fl : Flags) (rest : List Tok),
    FOK o fl → (∀ g ∈ g0 :: gs, isPt g = true) → gsFuel (g0 :: gs) ≤ f →
    ∃ fl', FOK o fl' ∧
      readPoints f fl (commaSep (pointsText o (g0 :: gs)) ++ .rp :: rest) =
        .ok ((projPoints o id (g0 :: gs), fl'), rest) := by
  intro gs
  induction gs with
  | nil =>
    intro g0 f fl rest hfl hwf hf
    have h0 := hwf g0 (by simp)
    cases g0 <;> simp only [isPt, Bool.false_eq_true] at h0
    rename_i s
    have hlen : s.pts.length ≤ 1 := by simpa using h0
    simp only [gsFuel, gFuel] at hf
    obtain ⟨f, rfl⟩ : ∃ g, f = g + 1 := ⟨f - 1, by omega⟩
    refine ⟨flagsAfter fl s, FOK_after s hfl, ?_⟩
    simp only [pointsText, commaSep, projPoints, pointElem_eq o s hlen, projPoint_eq o s hlen, readPoints, bind,
      Except.bind]
    rw [getCoordinates_plain o s f fl _ hfl (by omega)]
    simp [mkPoint, projSeq_len, hlen, closerOrComma, pure, Except.pure]
  | cons g1 gs ih =>
    intro g0 f fl rest hfl hwf hf
    have h0 := hwf g0 (by simp)
    cases g0 <;> simp only [isPt, Bool.false_eq_true] at h0
    rename_i s
    have hlen : s.pts.length ≤ 1 := by simpa using h0
    simp only [gsFuel, gFuel] at hf
    obtain ⟨f, rfl⟩ : ∃ g, f = g + 1 := ⟨f - 1, by omega⟩
    obtain ⟨fl', hfl', hr⟩ := ih g1 f (flagsAfter fl s) rest (FOK_after s hfl)
      (fun g hg => hwf g (by simp only [List.mem_cons] at hg ⊢; right; exact hg))
      (by simp only [gsFuel]; omega)
    refine ⟨fl', hfl', ?_⟩
    rw [pointsText, commaSep_cons, pointElem_eq o s hlen]
    simp only [readPoints, bind, Except.bind, List.append_assoc]
    rw [getCoordinates_plain o s f fl _ hfl (by omega)]
    simp only [mkPoint, projSeq_len, hlen, if_true, sepTail, pointsText, List.cons_append, closerOrComma]
    rw [← pointsText, hr]
    simp [projPoints, projPoint_eq o s hlen, pure, Except.pure]

end GeosModel.WKT

namespace GeosModel.WKT
open GeosModel

/-! ### MULTILINESTRING, MULTIPOLYGON element lists -/

theorem readLines_ok (cfg : Cfg) (o : Ords) : ∀ (gs : List G) (g0 : G) (f : Nat) (fl : Flags) (rest : List Tok),
    FOK o fl → (∀ g ∈ g0 :: gs, isLn g = true) → gsFuel (g0 :: gs) ≤ f →
    ∃ fl', FOK o fl' ∧
      readLines f fl (commaSep (curvesText cfg o (g0 :: gs)) ++ .rp :: rest) =
        .ok ((projCurves o id (g0 :: gs), fl'), rest) := by
  intro gs
  induction gs with
  | nil =>
    intro g0 f fl rest hfl hwf hf
    have h0 := hwf g0 (by simp)
    cases g0 <;> simp only [isLn, Bool.false_eq_true] at h0
    rename_i s
    have hlen : s.pts.length ≠ 1 := by simpa using h0
    simp only [gsFuel, gFuel] at hf
    obtain ⟨f, rfl⟩ : ∃ g, f = g + 1 := ⟨f - 1, by omega⟩
    refine ⟨flagsAfter fl s, FOK_after s hfl, ?_⟩
    simp only [curvesText, curveText, simpleCurveText, commaSep, projCurves, projCurve, projSimple, readLines, bind,
      Except.bind]
    rw [getCoordinates_plain o s f fl _ hfl (by omega)]
    simp [mkLine, projSeq_len, hlen, closerOrComma, pure, Except.pure]
  | cons g1 gs ih =>
    intro g0 f fl rest hfl hwf hf
    have h0 := hwf g0 (by simp)
    cases g0 <;> simp only [isLn, Bool.false_eq_true] at h0
    rename_i s
    have hlen : s.pts.length ≠ 1 := by simpa using h0
    simp only [gsFuel, gFuel] at hf
    obtain ⟨f, rfl⟩ : ∃ g, f = g + 1 := ⟨f - 1, by omega⟩
    obtain ⟨fl', hfl', hr⟩ := ih g1 f (flagsAfter fl s) rest (FOK_after s hfl)
      (fun g hg => hwf g (by simp only [List.mem_cons] at hg ⊢; right; exact hg))
      (by simp only [gsFuel]; omega)
    refine ⟨fl', hfl', ?_⟩
    rw [curvesText, commaSep_cons]
    simp only [curveText, simpleCurveText, readLines, bind, Except.bind, List.append_assoc]
    rw [getCoordinates_plain o s f fl _ hfl (by omega)]
    simp only [mkLine, projSeq_len, hlen, if_false, sepTail, curvesText, List.cons_append, closerOrComma, if_true]
    rw [← curvesText, hr]
    simp [projCurves, projCurve, projSimple, pure, Except.pure]

theorem readPolygons_ok (cfg : Cfg) (o : Ords) : ∀ (gs : List G) (g0 : G) (f : Nat) (fl : Flags) (rest : List Tok),
    FOK o fl → (∀ g ∈ g0 :: gs, isPg g = true) → gsFuel (g0 :: gs) ≤ f →
    ∃ fl', FOK o fl' ∧
      readPolygons f fl (commaSep (surfacesText cfg o (g0 :: gs)) ++ .rp :: rest) =
        .ok ((projSurfaces o id (g0 :: gs), fl'), rest) := by
  intro gs
  induction gs with
  | nil =>
    intro g0 f fl rest hfl hwf hf
    have h0 := hwf g0 (by simp)
    cases g0 <;> simp only [isPg, Bool.false_eq_true] at h0
    rename_i sh hs
    simp only [gsFuel, gFuel] at hf
    obtain ⟨f, rfl⟩ : ∃ g, f = g + 1 := ⟨f - 1, by omega⟩
    obtain ⟨fl', hfl', hr⟩ := readPolygon_of o sh hs f fl fl [] (.rp :: rest) hfl (ringsWF_of sh hs h0) (by omega)
      (by intro r; exact emptyOrOpener_lp fl r) (by intro r; exact emptyOrOpener_empty fl r)
    refine ⟨fl', hfl', ?_⟩
    simp only [surfacesText, surfaceElemText, commaSep, projSurfaces, projSurface, readPolygons, bind, Except.bind]
    rw [List.nil_append] at hr
    rw [hr]
    simp [closerOrComma, pure, Except.pure]
  | cons g1 gs ih =>
    intro g0 f fl rest hfl hwf hf
    have h0 := hwf g0 (by simp)
    cases g0 <;> simp only [isPg, Bool.false_eq_true] at h0
    rename_i sh hs
    simp only [gsFuel, gFuel] at hf
    obtain ⟨f, rfl⟩ : ∃ g, f = g + 1 := ⟨f - 1, by omega⟩
    obtain ⟨fl1, hfl1, hr1⟩ := readPolygon_of o sh hs f fl fl []
      (sepTail (surfacesText cfg o (g1 :: gs)) ++ .rp :: rest) hfl (ringsWF_of sh hs h0) (by omega)
      (by intro r; exact emptyOrOpener_lp fl r) (by intro r; exact emptyOrOpener_empty fl r)
    obtain ⟨fl', hfl', hr⟩ := ih g1 f fl1 rest hfl1
      (fun g hg => hwf g (by simp only [List.mem_cons] at hg ⊢; right; exact hg))
      (by simp only [gsFuel]; omega)
    refine ⟨fl', hfl', ?_⟩
    rw [surfacesText, commaSep_cons]
    simp only [surfaceElemText, readPolygons, bind, Except.bind, List.append_assoc]
    rw [List.nil_append] at hr1
    rw [hr1]
    simp only [sepTail, surfacesText, List.cons_append, closerOrComma, if_true]
    rw [← surfacesText, hr]
    simp [projSurfaces, projSurface, pure, Except.pure]

end GeosModel.WKT

namespace GeosModel.WKT
open GeosModel

/-! ### well-formedness (what the geometry factory enforces) for the classes without curved components -/

mutual
  def WFs : G → Bool
    | .point s => decide (s.pts.length ≤ 1)
    | .lineString s => decide (s.pts.length ≠ 1)
    | .linearRing s => ringOK s
    | .circularString s => decide (s.pts.length ≠ 2)
    | .polygon sh hs => ringOK sh && hs.all ringOK
    | .multiPoint gs => gs.all isPt
    | .multiLineString gs => gs.all isLn
    | .multiPolygon gs => gs.all isPg
    | .collection gs => WFsL gs
    | .compoundCurve _ | .curvePolygon _ | .multiCurve _ | .multiSurface _ => false
  def WFsL : List G → Bool
    | [] => true
    | g :: gs => WFs g && WFsL gs
end

theorem listText_cons (x : List Tok) (xs : List (List Tok)) :
    listText (x :: xs) = .lp :: commaSep (x :: xs) ++ [.rp] := by simp [listText]

theorem seqText_head (o : Ords) (s : CSeq) (t : List Tok) :
    (∃ r, seqText o s ++ t = .lp :: r) ∨ (∃ w r, seqText o s ++ t = .word w :: r) := by
  unfold seqText; split
  · right; exact ⟨_, _, rfl⟩
  · left; exact ⟨_, rfl⟩

theorem read_multiPoint (cfg : Cfg) (hiso : cfg.old3D = false) (gs : List G) (hwf : gs.all isPt = true)
    (f : Nat) (orig : Flags) (ek : EmptyKind) (rest : List Tok) (hf : gFuel (.multiPoint gs) ≤ f)
    (ho : orig.ca = true ∨ (orig.z = (outOrds cfg (.multiPoint gs)).z ∧ orig.m = (outOrds cfg (.multiPoint gs)).m)) :
    readTagged f orig ek (tagged cfg (.multiPoint gs) ++ rest) = .ok (project cfg id (.multiPoint gs), rest) := by
  obtain ⟨f, rfl⟩ : ∃ g, f = g + 3 := ⟨f - 3, by simp only [gFuel] at hf; omega⟩
  have hm : matchType "MULTIPOINT" = some ("MULTIPOINT", {}) := by decide
  generalize ho' : outOrds cfg (.multiPoint gs) = o at *
  simp only [tagged, ho', List.cons_append, List.append_assoc, readTagged]
  rw [if_neg (by decide), hm]
  simp (config := { decide := true }) only [readBody, bind, Except.bind, if_true, if_false]
  cases gs with
  | nil =>
    simp only [pointsText, listText, List.isEmpty_nil, if_true, readMultiPoint, bind, Except.bind,
      List.singleton_append]
    rw [opener_tag_empty cfg hiso o]
    simp only [if_true, pure, Except.pure]
    rw [mix_ok orig _ o rfl rfl ho]
    simp [project, ho', projPoints]
  | cons g0 gs =>
    have hall : ∀ g ∈ g0 :: gs, isPt g = true := by simpa using hwf
    obtain ⟨fl', hfl', hr⟩ := readPoints_ok o gs g0 f (tagFlags o) rest (FOK_tag o) hall
      (by simp only [gFuel] at hf; omega)
    have h0 := hall g0 (by simp)
    cases g0 <;> simp only [isPt, Bool.false_eq_true] at h0
    rename_i s
    have hlen : s.pts.length ≤ 1 := by simpa using h0
    simp only [pointsText] at hr ⊢
    rw [listText_cons]
    simp only [readMultiPoint, bind, Except.bind, List.cons_append, List.append_assoc]
    rw [opener_tag_lp cfg hiso o]
    simp only [Bool.false_eq_true, if_false]
    rw [commaSep_cons, pointElem_eq o s hlen, List.append_assoc] at hr ⊢
    -- the first token of the first element decides the syntax
    rcases seqText_head o s (sepTail (pointsText o gs) ++ .rp :: rest) with ⟨r, hh⟩ | ⟨w, r, hh⟩
    · simp only [List.nil_append] at hr ⊢
      rw [hh] at hr ⊢
      simp only
      rw [hr]
      simp only [pure, Except.pure]
      rw [mix_ok orig fl' o hfl'.z hfl'.m ho]
      simp [project, ho', pointsText]
    · simp only [List.nil_append] at hr ⊢
      rw [hh] at hr ⊢
      simp only
      rw [hr]
      simp only [pure, Except.pure]
      rw [mix_ok orig fl' o hfl'.z hfl'.m ho]
      simp [project, ho', pointsText]

end GeosModel.WKT

namespace GeosModel.WKT
open GeosModel

theorem read_multiLineString (cfg : Cfg) (hiso : cfg.old3D = false) (gs : List G) (hwf : gs.all isLn = true)
    (f : Nat) (orig : Flags) (ek : EmptyKind) (rest : List Tok) (hf : gFuel (.multiLineString gs) ≤ f)
    (ho : orig.ca = true ∨
      (orig.z = (outOrds cfg (.multiLineString gs)).z ∧ orig.m = (outOrds cfg (.multiLineString gs)).m)) :
    readTagged f orig ek (tagged cfg (.multiLineString gs) ++ rest) =
      .ok (project cfg id (.multiLineString gs), rest) := by
  obtain ⟨f, rfl⟩ : ∃ g, f = g + 2 := ⟨f - 2, by simp only [gFuel] at hf; omega⟩
  have hm : matchType "MULTILINESTRING" = some ("MULTILINESTRING", {}) := by decide
  generalize ho' : outOrds cfg (.multiLineString gs) = o at *
  simp only [tagged, ho', List.cons_append, List.append_assoc, readTagged]
  rw [if_neg (by decide), hm]
  simp (config := { decide := true }) only [readBody, bind, Except.bind, if_true, if_false]
  cases gs with
  | nil =>
    simp only [curvesText, listText, List.isEmpty_nil, if_true, List.singleton_append]
    rw [opener_tag_empty cfg hiso o]
    simp only [if_true, pure, Except.pure]
    rw [mix_ok orig _ o rfl rfl ho]
    simp [project, projCurves]
  | cons g0 gs =>
    have hall : ∀ g ∈ g0 :: gs, isLn g = true := by simpa using hwf
    obtain ⟨fl', hfl', hr⟩ := readLines_ok cfg o gs g0 f (tagFlags o) rest (FOK_tag o) hall
      (by simp only [gFuel] at hf; omega)
    simp only [curvesText] at hr ⊢
    rw [listText_cons]
    simp only [List.cons_append, List.append_assoc]
    rw [opener_tag_lp cfg hiso o]
    simp only [Bool.false_eq_true, if_false, List.nil_append]
    rw [hr]
    simp only [pure, Except.pure]
    rw [mix_ok orig fl' o hfl'.z hfl'.m ho]
    simp [project, ho', curvesText]

theorem read_multiPolygon (cfg : Cfg) (hiso : cfg.old3D = false) (gs : List G) (hwf : gs.all isPg = true)
    (f : Nat) (orig : Flags) (ek : EmptyKind) (rest : List Tok) (hf : gFuel (.multiPolygon gs) ≤ f)
    (ho : orig.ca = true ∨
      (orig.z = (outOrds cfg (.multiPolygon gs)).z ∧ orig.m = (outOrds cfg (.multiPolygon gs)).m)) :
    readTagged f orig ek (tagged cfg (.multiPolygon gs) ++ rest) =
      .ok (project cfg id (.multiPolygon gs), rest) := by
  obtain ⟨f, rfl⟩ : ∃ g, f = g + 2 := ⟨f - 2, by simp only [gFuel] at hf; omega⟩
  have hm : matchType "MULTIPOLYGON" = some ("MULTIPOLYGON", {}) := by decide
  generalize ho' : outOrds cfg (.multiPolygon gs) = o at *
  simp only [tagged, ho', List.cons_append, List.append_assoc, readTagged]
  rw [if_neg (by decide), hm]
  simp (config := { decide := true }) only [readBody, bind, Except.bind, if_true, if_false]
  cases gs with
  | nil =>
    simp only [surfacesText, listText, List.isEmpty_nil, if_true, List.singleton_append]
    rw [opener_tag_empty cfg hiso o]
    simp only [if_true, pure, Except.pure]
    rw [mix_ok orig _ o rfl rfl ho]
    simp [project, projSurfaces]
  | cons g0 gs =>
    have hall : ∀ g ∈ g0 :: gs, isPg g = true := by simpa using hwf
    obtain ⟨fl', hfl', hr⟩ := readPolygons_ok cfg o gs g0 f (tagFlags o) rest (FOK_tag o) hall
      (by simp only [gFuel] at hf; omega)
    simp only [surfacesText] at hr ⊢
    rw [listText_cons]
    simp only [List.cons_append, List.append_assoc]
    rw [opener_tag_lp cfg hiso o]
    simp only [Bool.false_eq_true, if_false, List.nil_append]
    rw [hr]
    simp only [pure, Except.pure]
    rw [mix_ok orig fl' o hfl'.z hfl'.m ho]
    simp [project, ho', surfacesText]

end GeosModel.WKT


namespace GeosModel.WKT
open GeosModel

/-! ### GEOMETRYCOLLECTION and the main induction -/

theorem ords_eta (o : Ords) : (⟨o.z, o.m⟩ : Ords) = o := by cases o; rfl

mutual
  theorem read_tagged_ok (cfg : Cfg) (hiso : cfg.old3D = false) :
      (g : G) → WFs g = true → dimOK cfg g = true →
      ∀ (f : Nat) (orig : Flags) (ek : EmptyKind) (rest : List Tok), gFuel g ≤ f →
        (orig.ca = true ∨ (orig.z = (outOrds cfg g).z ∧ orig.m = (outOrds cfg g).m)) →
        readTagged f orig ek (tagged cfg g ++ rest) = .ok (project cfg id g, rest)
    | .point s, hwf, _, f, orig, ek, rest, hf, ho =>
      read_point cfg hiso s (by simpa [WFs] using hwf) f orig ek rest (by simpa [gFuel] using hf) ho
    | .lineString s, hwf, _, f, orig, ek, rest, hf, ho =>
      read_lineString cfg hiso s (by simpa [WFs] using hwf) f orig ek rest (by simpa [gFuel] using hf) ho
    | .linearRing s, hwf, _, f, orig, ek, rest, hf, ho =>
      read_linearRing cfg hiso s (by simpa [WFs] using hwf) f orig ek rest (by simpa [gFuel] using hf) ho
    | .circularString s, hwf, _, f, orig, ek, rest, hf, ho =>
      read_circularString cfg hiso s (by simpa [WFs] using hwf) f orig ek rest (by simpa [gFuel] using hf) ho
    | .polygon sh hs, hwf, _, f, orig, ek, rest, hf, ho =>
      read_polygon cfg hiso sh hs (by simpa [WFs] using hwf) f orig ek rest hf ho
    | .multiPoint gs, hwf, _, f, orig, ek, rest, hf, ho =>
      read_multiPoint cfg hiso gs (by simpa [WFs] using hwf) f orig ek rest hf ho
    | .multiLineString gs, hwf, _, f, orig, ek, rest, hf, ho =>
      read_multiLineString cfg hiso gs (by simpa [WFs] using hwf) f orig ek rest hf ho
    | .multiPolygon gs, hwf, _, f, orig, ek, rest, hf, ho =>
      read_multiPolygon cfg hiso gs (by simpa [WFs] using hwf) f orig ek rest hf ho
    | .compoundCurve _, hwf, _, _, _, _, _, _, _ => by simp [WFs] at hwf
    | .curvePolygon _, hwf, _, _, _, _, _, _, _ => by simp [WFs] at hwf
    | .multiCurve _, hwf, _, _, _, _, _, _, _ => by simp [WFs] at hwf
    | .multiSurface _, hwf, _, _, _, _, _, _, _ => by simp [WFs] at hwf
    | .collection gs, hwf, hdim, f, orig, ek, rest, hf, ho => by
      obtain ⟨f, rfl⟩ : ∃ g, f = g + 2 := ⟨f - 2, by simp only [gFuel] at hf; omega⟩
      have hm : matchType "GEOMETRYCOLLECTION" = some ("GEOMETRYCOLLECTION", {}) := by decide
      simp only [WFs] at hwf
      simp only [dimOK, Bool.and_eq_true, Bool.or_eq_true] at hdim
      generalize ho' : outOrds cfg (.collection gs) = o at *
      simp only [tagged, ho', List.cons_append, List.append_assoc, readTagged]
      rw [if_neg (by decide), hm]
      simp (config := { decide := true }) only [readBody, bind, Except.bind, if_true, if_false]
      match gs, hwf, hdim, hf with
      | [], _, _, _ =>
        simp only [taggedList, listText, List.isEmpty_nil, if_true, List.singleton_append]
        rw [opener_tag_empty cfg hiso o]
        simp only [if_true, pure, Except.pure]
        rw [mix_ok orig _ o rfl rfl ho]
        simp [project, projectList]
      | g0 :: gs', hwf, hdim, hf =>
        have hcond : (tagFlags o).ca = true ∨ sameOrds cfg ⟨(tagFlags o).z, (tagFlags o).m⟩ (g0 :: gs') = true := by
          rcases hdim.2 with h | h
          · left; simp only [tagFlags]; simp only [Bool.and_eq_true, Bool.not_eq_true'] at h; simp [h.1, h.2]
          · right; simp only [tagFlags, ords_eta]; exact h
        have hr := read_geoms_ok cfg hiso (g0 :: gs') (by simp) hwf hdim.1 f (tagFlags o) rest
          (by simp only [gFuel] at hf; omega) hcond
        simp only [taggedList] at hr ⊢
        rw [listText_cons]
        simp only [List.cons_append, List.append_assoc]
        rw [opener_tag_lp cfg hiso o]
        simp only [Bool.false_eq_true, if_false, List.nil_append]
        rw [hr]
        simp only [pure, Except.pure]
        rw [mix_ok orig _ o rfl rfl ho]
        simp [project, projectList]

  theorem read_geoms_ok (cfg : Cfg) (hiso : cfg.old3D = false) :
      (l : List G) → l ≠ [] → WFsL l = true → dimOKs cfg l = true →
      ∀ (f : Nat) (fl : Flags) (rest : List Tok), gsFuel l ≤ f →
        (fl.ca = true ∨ sameOrds cfg ⟨fl.z, fl.m⟩ l = true) →
        readGeoms f fl (commaSep (taggedList cfg l) ++ .rp :: rest) = .ok (projectList cfg id l, rest)
    | [], hne, _, _, _, _, _, _, _ => absurd rfl hne
    | g :: gs, _, hwf, hdim, f, fl, rest, hf, hc => by
      simp only [WFsL, Bool.and_eq_true] at hwf
      simp only [dimOKs, Bool.and_eq_true] at hdim
      simp only [gsFuel] at hf
      obtain ⟨f, rfl⟩ : ∃ k, f = k + 1 := ⟨f - 1, by omega⟩
      have hg : fl.ca = true ∨ (fl.z = (outOrds cfg g).z ∧ fl.m = (outOrds cfg g).m) := by
        rcases hc with h | h
        · left; exact h
        · right
          simp only [sameOrds, Bool.and_eq_true, decide_eq_true_eq] at h
          rw [h.1]; exact ⟨rfl, rfl⟩
      match gs, hwf, hdim, hf, hc with
      | [], hwf, hdim, hf, _ =>
        have h1 := read_tagged_ok cfg hiso g hwf.1 hdim.1 f fl .none (.rp :: rest) (by omega) hg
        simp only [taggedList, commaSep, readGeoms, bind, Except.bind]
        rw [h1]
        simp [closerOrComma, projectList, pure, Except.pure]
      | g1 :: gs', hwf, hdim, hf, hc =>
        have h1 := read_tagged_ok cfg hiso g hwf.1 hdim.1 f fl .none
          (sepTail (taggedList cfg (g1 :: gs')) ++ .rp :: rest) (by omega) hg
        have hc' : fl.ca = true ∨ sameOrds cfg ⟨fl.z, fl.m⟩ (g1 :: gs') = true := by
          rcases hc with h | h
          · left; exact h
          · right
            simp only [sameOrds, Bool.and_eq_true] at h ⊢
            exact h.2
        have h2 := read_geoms_ok cfg hiso (g1 :: gs') (by simp) hwf.2 hdim.2 f fl rest (by omega) hc'
        simp only [taggedList] at h1 h2 ⊢
        rw [commaSep_cons]
        simp only [readGeoms, bind, Except.bind, List.append_assoc]
        rw [h1]
        simp only [sepTail, List.cons_append, closerOrComma, if_true]
        rw [h2]
        simp [projectList, pure, Except.pure]
end

end GeosModel.WKT

namespace GeosModel.WKT
open GeosModel

/-- token-level round trip with explicit fuel -/
theorem roundtrip_fuel (cfg : Cfg) (hiso : cfg.old3D = false) (g : G) (hwf : WFs g = true)
    (hdim : dimOK cfg g = true) (f : Nat) (hf : gFuel g ≤ f) :
    readTagged f {} .none (writeToks cfg g) = .ok (project cfg id g, []) := by
  have := read_tagged_ok cfg hiso g hwf hdim f {} .none [] hf (Or.inl rfl)
  simpa [writeToks] using this

theorem roundtrip_readToks (cfg : Cfg) (hiso : cfg.old3D = false) (g : G) (hwf : WFs g = true)
    (hdim : dimOK cfg g = true) (hf : gFuel g ≤ 3 * (writeToks cfg g).length + 4) :
    readToks (writeToks cfg g) = .ok (project cfg id g) := by
  unfold readToks
  rw [roundtrip_fuel cfg hiso g hwf hdim _ hf]

end GeosModel.WKT
