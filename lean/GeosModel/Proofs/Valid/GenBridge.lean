import GeosModel.Base.Cxx
import GeosModel.Model.Valid.PairRule
import GeosModel.Model.Valid.SimplePair
import GeosModel.Proofs.Kernel.Basic
/-!
# Helpers of the translator-tie bridges of C05 (Props/C05Gen*.lean)

Regenerated C++ sees a coordinate as `Cxx.XY R`; the hand-written models of `Model/Valid` use `Kernel.Pt` (the carrier
`Int`).  `xy` is the identification, `oi` is `Orientation::index` on it (`Kernel.orient`: its exactness on the grid is
C07's subject).  Also the simp lemmas that evaluate `Except` binds of regenerated code.  No theorem about GEOS here.
-/
namespace GeosModel.ValidGen
open GeosModel GeosModel.Kernel GeosModel.Valid

/-- a `Kernel.Pt` as regenerated code sees it -/
def xy (p : Pt) : Cxx.XY Int := ⟨p.x, p.y⟩
/-- `Orientation::index` on regenerated coordinates -/
def oi (a b c : Cxx.XY Int) : Int := orient ⟨a.x, a.y⟩ ⟨b.x, b.y⟩ ⟨c.x, c.y⟩

@[simp] theorem xy_x (p : Pt) : (xy p).x = p.x := rfl
@[simp] theorem xy_y (p : Pt) : (xy p).y = p.y := rfl
@[simp] theorem oi_xy (a b c : Pt) : oi (xy a) (xy b) (xy c) = orient a b c := rfl
theorem xy_inj {a b : Pt} : xy a = xy b ↔ a = b := by
  cases a; cases b; simp [xy]

@[simp] theorem ok_bind {ε α β} (a : α) (f : α → Except ε β) : (Except.ok a >>= f) = f a := rfl
@[simp] theorem error_bind {ε α β} (e : ε) (f : α → Except ε β) : (Except.error e >>= f) = Except.error e := rfl
@[simp] theorem pure_eq_ok {ε α} (a : α) : (pure a : Except ε α) = Except.ok a := rfl
@[simp] theorem map_ok {ε α β} (f : α → β) (a : α) : (f <$> (Except.ok a : Except ε α)) = Except.ok (f a) := rfl
@[simp] theorem throw_eq_error {ε α} (e : ε) : (throw e : Except ε α) = Except.error e := rfl

theorem pt_ne_iff (o p : Pt) : p ≠ o ↔ ¬ (p.x - o.x = 0 ∧ p.y - o.y = 0) := by
  cases o; cases p; simp; omega

/-- a regenerated coordinate as a `Kernel.Pt` -/
def pt (c : Cxx.XY Int) : Pt := ⟨c.x, c.y⟩
@[simp] theorem pt_xy (p : Pt) : pt (xy p) = p := rfl

/-- `Valid.meetPts` on the four end points -/
def meet (a b c d : Pt) : List Pt := (([c, d].filter (onSegment a b)) ++ ([a, b].filter (onSegment c d))).eraseDups
theorem meetPts_eq (s t : RSeg) : meetPts s t = meet s.p s.q t.p t.q := rfl

/-- what the bridge of `findInvalidIntersection` assumes about the abstract `algorithm::LineIntersector`: after
`computeIntersection(a, b, c, d)` its observers report the exact classification `Kernel.segRel` of the two segments, and
for a single non-proper intersection `getIntersection(0)` is the common end point.  (That the real intersector does so on
the grid is C02's subject; `LIv` below is an instance, so the assumption is satisfiable.) -/
structure LIExact {LI : Type} (liCompute : LI → Cxx.XY Int → Cxx.XY Int → Cxx.XY Int → Cxx.XY Int → LI)
    (liHas liProper : LI → Bool) (liNum : LI → Nat) (liGet : LI → Nat → Cxx.XY Int) : Prop where
  has : ∀ l a b c d, liHas (liCompute l (xy a) (xy b) (xy c) (xy d)) = (segRel a b c d != SegRel.disjoint)
  proper : ∀ l a b c d, liProper (liCompute l (xy a) (xy b) (xy c) (xy d)) = (segRel a b c d == SegRel.point true)
  num : ∀ l a b c d, decide (liNum (liCompute l (xy a) (xy b) (xy c) (xy d)) ≥ 2) = (segRel a b c d == SegRel.overlap)
  get : ∀ l a b c d x, segRel a b c d = SegRel.point false → meet a b c d = [x] →
    liGet (liCompute l (xy a) (xy b) (xy c) (xy d)) 0 = xy x

/-- an exact line intersector: the classification and the common end points -/
structure LIv where
  rel : SegRel := .disjoint
  pts : List Pt := []

def LIv.compute (_ : LIv) (a b c d : Cxx.XY Int) : LIv := ⟨segRel (pt a) (pt b) (pt c) (pt d), meet (pt a) (pt b) (pt c) (pt d)⟩
def LIv.num (l : LIv) : Nat := match l.rel with | .disjoint => 0 | .point _ => 1 | .overlap => 2
def LIv.get (l : LIv) (i : Nat) : Cxx.XY Int := xy (l.pts.getD i default)

theorem LIv.exact : LIExact LIv.compute (fun l => l.rel != .disjoint) (fun l => l.rel == .point true) LIv.num LIv.get := by
  refine ⟨fun _ _ _ _ _ => rfl, fun _ _ _ _ _ => rfl, ?_, ?_⟩
  · intro l a b c d
    show decide (LIv.num ⟨segRel a b c d, _⟩ ≥ 2) = _
    generalize segRel a b c d = r
    cases r <;> rfl
  · intro l a b c d x _ hm
    simp [LIv.compute, LIv.get, hm]

theorem lmeet_eq (s t : LSeg) : s.meet t = meet s.p s.q t.p t.q := rfl

/-- what the bridge of `IsSimpleOp`'s `findIntersection` assumes about the abstract `algorithm::LineIntersector` (see `LIExact`);
`isInteriorIntersection()` for a single intersection point is "not an end point of both segments", `getEndpoint(i, 0)` is the first
end point of input segment `i` -/
structure LISimpleExact {LI : Type} (liCompute : LI → Cxx.XY Int → Cxx.XY Int → Cxx.XY Int → Cxx.XY Int → LI)
    (liHas liInterior : LI → Bool) (liNum : LI → Nat) (liGet : LI → Nat → Cxx.XY Int) (liEnd : LI → Nat → Nat → Cxx.XY Int) : Prop where
  has : ∀ l a b c d, liHas (liCompute l (xy a) (xy b) (xy c) (xy d)) = (segRel a b c d != SegRel.disjoint)
  interiorProper : ∀ l a b c d, segRel a b c d = SegRel.point true → liInterior (liCompute l (xy a) (xy b) (xy c) (xy d)) = true
  interiorTouch : ∀ l a b c d x, segRel a b c d = SegRel.point false → meet a b c d = [x] →
    liInterior (liCompute l (xy a) (xy b) (xy c) (xy d)) = (!(x == a || x == b) || !(x == c || x == d))
  num : ∀ l a b c d, decide (liNum (liCompute l (xy a) (xy b) (xy c) (xy d)) ≥ 2) = (segRel a b c d == SegRel.overlap)
  get : ∀ l a b c d x, segRel a b c d = SegRel.point false → meet a b c d = [x] →
    liGet (liCompute l (xy a) (xy b) (xy c) (xy d)) 0 = xy x
  end0 : ∀ l a b c d, liEnd (liCompute l (xy a) (xy b) (xy c) (xy d)) 0 0 = xy a
  end1 : ∀ l a b c d, liEnd (liCompute l (xy a) (xy b) (xy c) (xy d)) 1 0 = xy c

/-- an exact line intersector that also remembers its input -/
structure LIw where
  rel : SegRel := .disjoint
  pts : List Pt := []
  a : Pt := default
  b : Pt := default
  c : Pt := default
  d : Pt := default

def LIw.compute (_ : LIw) (a b c d : Cxx.XY Int) : LIw :=
  ⟨segRel (pt a) (pt b) (pt c) (pt d), meet (pt a) (pt b) (pt c) (pt d), pt a, pt b, pt c, pt d⟩
def LIw.num (l : LIw) : Nat := match l.rel with | .disjoint => 0 | .point _ => 1 | .overlap => 2
def LIw.get (l : LIw) (i : Nat) : Cxx.XY Int := xy (l.pts.getD i default)
def LIw.interior (l : LIw) : Bool :=
  match l.rel with
  | .point true => true
  | _ => l.pts.any fun x => !(x == l.a || x == l.b) || !(x == l.c || x == l.d)
def LIw.endpoint (l : LIw) (seg pti : Nat) : Cxx.XY Int :=
  xy (if seg = 0 then (if pti = 0 then l.a else l.b) else (if pti = 0 then l.c else l.d))

theorem LIw.exact : LISimpleExact LIw.compute (fun l => l.rel != .disjoint) LIw.interior LIw.num LIw.get LIw.endpoint := by
  refine ⟨fun _ _ _ _ _ => rfl, ?_, ?_, ?_, ?_, fun _ _ _ _ _ => rfl, fun _ _ _ _ _ => rfl⟩
  · intro l a b c d h
    simp [LIw.compute, LIw.interior, h]
  · intro l a b c d x h hm
    simp [LIw.compute, LIw.interior, h, hm]
  · intro l a b c d
    show decide (LIw.num ⟨segRel a b c d, _, _, _, _, _⟩ ≥ 2) = _
    generalize segRel a b c d = r
    cases r <;> rfl
  · intro l a b c d x _ hm
    simp [LIw.compute, LIw.get, hm]

end GeosModel.ValidGen
