import GeosModel.Proofs.Valid.NodeTopo
/-!
# The wedge specification is symmetric in its two passes (C05 SPEC)

`crossAt o a0 a1 b0 b1 = crossAt o b0 b1 a0 a1`: if the edges of pass `b` are separated by the corner of pass `a`, then
the edges of `a` are separated by the corner of `b`.  Needed for the invariance of the node rule under permutation of
rings / elements (which pass is called `a` depends on the order of the segments).  Proof: both sides are functions of
the six pairwise comparisons of the four directions; on every sign pattern compatible with a strict weak order on all
four triples the two tables agree (`decide`), and the actual comparisons are compatible (`compatB_actual`).
-/
namespace GeosModel.Valid
open GeosModel.Kernel

theorem S3.flip_flip (s : S3) : s.flip.flip = s := by cases s <;> rfl

/-- the finite heart: `x = cmp a0 a1`, `y = cmp b0 b1`, `p0 = cmp b0 a0`, `p1 = cmp b0 a1`, `q0 = cmp b1 a0`, `q1 = cmp b1 a1` -/
theorem crossSpecT_symm : S3.all (fun x => S3.all fun y => S3.all fun p0 => S3.all fun p1 => S3.all fun q0 => S3.all fun q1 =>
    !(compatB x p0 p1 && compatB x q0 q1 && compatB y p0.flip q0.flip && compatB y p1.flip q1.flip) ||
    (crossSpecT x p0 p1 q0 q1 == crossSpecT y p0.flip q0.flip p1.flip q1.flip)) = true := by
  decide

theorem crossAt_eq_specT (o a0 a1 b0 b1 : Pt) (h0 : a0 ≠ o) (h1 : a1 ≠ o) (hb0 : b0 ≠ o) (hb1 : b1 ≠ o) :
    crossAt o a0 a1 b0 b1 =
      crossSpecT (S3.ofInt (compareAngle o a0 a1)) (S3.ofInt (compareAngle o b0 a0)) (S3.ofInt (compareAngle o b0 a1))
        (S3.ofInt (compareAngle o b1 a0)) (S3.ofInt (compareAngle o b1 a1)) := by
  unfold crossAt crossSpecT
  rw [cyc01_eq o a0 a1 b0 h0 h1 hb0, cyc10_eq o a0 a1 b1 h0 h1 hb1, cyc10_eq o a0 a1 b0 h0 h1 hb0, cyc01_eq o a0 a1 b1 h0 h1 hb1]

/-- **the wedge specification is symmetric in the two passes** -/
theorem crossAt_symm (o a0 a1 b0 b1 : Pt) (h0 : a0 ≠ o) (h1 : a1 ≠ o) (hb0 : b0 ≠ o) (hb1 : b1 ≠ o) :
    crossAt o b0 b1 a0 a1 = crossAt o a0 a1 b0 b1 := by
  rw [crossAt_eq_specT o a0 a1 b0 b1 h0 h1 hb0 hb1, crossAt_eq_specT o b0 b1 a0 a1 hb0 hb1 h0 h1]
  have e1 : S3.ofInt (compareAngle o a0 b0) = (S3.ofInt (compareAngle o b0 a0)).flip := by
    rw [compareAngle_antisymm o b0 a0, ofInt_flip _ (compareAngle_range o b0 a0)]
  have e2 : S3.ofInt (compareAngle o a0 b1) = (S3.ofInt (compareAngle o b1 a0)).flip := by
    rw [compareAngle_antisymm o b1 a0, ofInt_flip _ (compareAngle_range o b1 a0)]
  have e3 : S3.ofInt (compareAngle o a1 b0) = (S3.ofInt (compareAngle o b0 a1)).flip := by
    rw [compareAngle_antisymm o b0 a1, ofInt_flip _ (compareAngle_range o b0 a1)]
  have e4 : S3.ofInt (compareAngle o a1 b1) = (S3.ofInt (compareAngle o b1 a1)).flip := by
    rw [compareAngle_antisymm o b1 a1, ofInt_flip _ (compareAngle_range o b1 a1)]
  rw [e1, e2, e3, e4]
  have k1 := compatB_actual o a0 a1 b0 h0 h1 hb0
  have k2 := compatB_actual o a0 a1 b1 h0 h1 hb1
  have k3 := compatB_actual o b0 b1 a0 hb0 hb1 h0
  have k4 := compatB_actual o b0 b1 a1 hb0 hb1 h1
  rw [e1, e2] at k3
  rw [e3, e4] at k4
  have t := S3.all_spec (S3.all_spec (S3.all_spec (S3.all_spec (S3.all_spec (S3.all_spec crossSpecT_symm
    (S3.ofInt (compareAngle o a0 a1))) (S3.ofInt (compareAngle o b0 b1))) (S3.ofInt (compareAngle o b0 a0)))
    (S3.ofInt (compareAngle o b0 a1))) (S3.ofInt (compareAngle o b1 a0))) (S3.ofInt (compareAngle o b1 a1))
  simp only [k1, k2, k3, k4, Bool.and_self, Bool.not_true, Bool.false_or, beq_iff_eq] at t
  exact t.symm

end GeosModel.Valid
