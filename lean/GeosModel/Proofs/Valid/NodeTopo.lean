import GeosModel.Model.Valid.NodeTopo
import GeosModel.Proofs.Kernel.Basic
import Mathlib.Tactic.Ring
import Mathlib.Tactic.Linarith
/-!
# Lemmas about the model of `PolygonNodeTopology` (C05 core)

Strategy: every function is first rewritten into a normal form over the four coordinates of the two
direction vectors and the two products of the cross product; the sign of a product is tied to the signs
of its factors by `mulSign`, after which the facts are linear and `omega` decides them.
Transitivity needs the three-vector identity `(u × w) f(v) = (u × v) f(w) + (v × w) f(u)`.
-/
namespace GeosModel.Valid
open GeosModel.Kernel

/-- the sign of a product from the signs of the factors, in a form `omega` can use once `x * y` is an atom -/
theorem mulSign (x y : Int) :
    (0 < x → 0 < y → 0 < x * y) ∧ (0 < x → y < 0 → x * y < 0) ∧ (x < 0 → 0 < y → x * y < 0) ∧
    (x < 0 → y < 0 → 0 < x * y) ∧ (x = 0 → x * y = 0) ∧ (y = 0 → x * y = 0) := by
  refine ⟨fun a b => Int.mul_pos a b, fun a b => Int.mul_neg_of_pos_of_neg a b,
    fun a b => Int.mul_neg_of_neg_of_pos a b, fun a b => Int.mul_pos_of_neg_of_neg a b, ?_, ?_⟩
  · intro h; simp [h]
  · intro h; simp [h]

/-! ### normal forms -/

theorem orient_beq_one (a b c : Pt) : (orient a b c == 1) = decide (0 < det a b c) := by
  have := @orient_eq_one a b c
  by_cases h : 0 < det a b c <;> simp [h, this]

theorem orient_beq_neg_one (a b c : Pt) : (orient a b c == -1) = decide (det a b c < 0) := by
  have := @orient_eq_neg_one a b c
  by_cases h : det a b c < 0 <;> simp [h, this]

theorem compareAngle_nf (o p q : Pt) :
    compareAngle o p q =
      if quadrant o p > quadrant o q then 1 else if quadrant o p < quadrant o q then -1
      else if 0 < det o q p then 1 else if det o q p < 0 then -1 else 0 := by
  unfold compareAngle
  simp only [orient_beq_one, orient_beq_neg_one, decide_eq_true_eq]

theorem isAngleGreater_nf (o p q : Pt) :
    isAngleGreater o p q =
      if quadrant o p > quadrant o q then true else if quadrant o p < quadrant o q then false
      else decide (0 < det o q p) := by
  unfold isAngleGreater
  simp only [orient_beq_one]

/-- `isAngleGreater` is `compareAngle = 1` (the C++ has two copies of the same logic) -/
theorem isAngleGreater_iff (o p q : Pt) : isAngleGreater o p q = true ↔ compareAngle o p q = 1 := by
  rw [isAngleGreater_nf, compareAngle_nf]
  split_ifs <;> simp_all

theorem compareAngle_range (o p q : Pt) : compareAngle o p q = -1 ∨ compareAngle o p q = 0 ∨ compareAngle o p q = 1 := by
  rw [compareAngle_nf]; split_ifs <;> simp

/-- antisymmetry: swapping the arguments negates the result -/
theorem compareAngle_antisymm (o p q : Pt) : compareAngle o q p = - compareAngle o p q := by
  rw [compareAngle_nf, compareAngle_nf, det_swap23 o p q]
  split_ifs <;> omega

theorem compareAngle_self (o p : Pt) : compareAngle o p p = 0 := by
  have := compareAngle_antisymm o p p; omega

/-! ### agreement with the half-plane specification -/

theorem upper_iff (o p : Pt) : upper o p = true ↔ (p.y - o.y > 0 ∨ (p.y - o.y = 0 ∧ p.x - o.x > 0)) := by
  unfold upper; simp only [Bool.or_eq_true, Bool.and_eq_true, decide_eq_true_eq]; omega

theorem ne_iff_vec (o p : Pt) : p ≠ o ↔ (p.x - o.x ≠ 0 ∨ p.y - o.y ≠ 0) := by
  rw [Ne, Pt.ext_iff']; omega

theorem angLt_iff (o p q : Pt) : angLt o p q = true ↔
    ((upper o p = true ∧ upper o q = false) ∨ (upper o p = upper o q ∧ det o p q > 0)) := by
  unfold angLt; simp

theorem quadrantD_cases (dx dy : Int) :
    (dx ≥ 0 ∧ dy ≥ 0 ∧ quadrantD dx dy = 0) ∨ (dx < 0 ∧ dy ≥ 0 ∧ quadrantD dx dy = 1) ∨
    (dx < 0 ∧ dy < 0 ∧ quadrantD dx dy = 2) ∨ (dx ≥ 0 ∧ dy < 0 ∧ quadrantD dx dy = 3) := by
  unfold quadrantD; split_ifs <;> omega

/-- the agreement on bare integer vectors -/
theorem cmp_core (px py qx qy : Int) (hp : px ≠ 0 ∨ py ≠ 0) (hq : qx ≠ 0 ∨ qy ≠ 0) :
    (if quadrantD px py > quadrantD qx qy then (1 : Int) else if quadrantD px py < quadrantD qx qy then -1
      else if 0 < qx * py - qy * px then 1 else if qx * py - qy * px < 0 then -1 else 0) = -1 ↔
    (((py > 0 ∨ (py = 0 ∧ px > 0)) ∧ ¬ (qy > 0 ∨ (qy = 0 ∧ qx > 0))) ∨
     (((py > 0 ∨ (py = 0 ∧ px > 0)) ↔ (qy > 0 ∨ (qy = 0 ∧ qx > 0))) ∧ px * qy - py * qx > 0)) := by
  have s1 := mulSign qx py
  have s2 := mulSign qy px
  have e1 : py * qx = qx * py := by ring
  have e2 : px * qy = qy * px := by ring
  rw [e1, e2]
  generalize qx * py = A at *
  generalize qy * px = B at *
  rcases quadrantD_cases px py with ⟨h1, h2, h3⟩ | ⟨h1, h2, h3⟩ | ⟨h1, h2, h3⟩ | ⟨h1, h2, h3⟩ <;>
  rcases quadrantD_cases qx qy with ⟨k1, k2, k3⟩ | ⟨k1, k2, k3⟩ | ⟨k1, k2, k3⟩ | ⟨k1, k2, k3⟩ <;>
  rw [h3, k3] <;> constructor <;> intro h <;> split_ifs at h ⊢ <;> omega

/-- **agreement**: for non-zero directions, `compareAngle o p q = -1` exactly when `o → p` comes strictly before
`o → q` in the half-plane/cross-product specification of the counter-clockwise order -/
theorem compareAngle_lt_iff (o p q : Pt) (hp : p ≠ o) (hq : q ≠ o) :
    compareAngle o p q = -1 ↔ angLt o p q = true := by
  rw [compareAngle_nf, angLt_iff]
  rw [ne_iff_vec] at hp hq
  have h := cmp_core (p.x - o.x) (p.y - o.y) (q.x - o.x) (q.y - o.y) hp hq
  have hu1 := upper_iff o p
  have hu2 := upper_iff o q
  have hd1 : det o q p = (q.x - o.x) * (p.y - o.y) - (q.y - o.y) * (p.x - o.x) := rfl
  have hd2 : det o p q = (p.x - o.x) * (q.y - o.y) - (p.y - o.y) * (q.x - o.x) := rfl
  simp only [quadrant, hd1, hd2]
  rw [h, ← hu1, ← hu2]
  cases upper o p <;> cases upper o q <;> simp

/-! ### the quadrant cones -/

/-- a linear functional that is positive on every non-zero vector of the (half-open) quadrant of `(dx, dy)` -/
def qf (k : Nat) (dx dy : Int) : Int :=
  if k = 0 then dx + dy else if k = 1 then -dx + dy else if k = 2 then -dx - dy else dx - dy

theorem qf_pos (dx dy : Int) (h : dx ≠ 0 ∨ dy ≠ 0) : 0 < qf (quadrantD dx dy) dx dy := by
  rcases quadrantD_cases dx dy with ⟨h1, h2, h3⟩ | ⟨h1, h2, h3⟩ | ⟨h1, h2, h3⟩ | ⟨h1, h2, h3⟩ <;>
    rw [h3] <;> simp [qf] <;> omega

/-- the three-vector identity, for any linear functional `a x + b y` -/
theorem cross3 (a b ux uy vx vy wx wy : Int) :
    (a * vx + b * vy) * (ux * wy - uy * wx) =
      (ux * vy - uy * vx) * (a * wx + b * wy) + (vx * wy - vy * wx) * (a * ux + b * uy) := by ring

theorem qf_lin (k : Nat) : ∃ a b : Int, ∀ x y, qf k x y = a * x + b * y := by
  unfold qf
  by_cases h0 : k = 0
  · exact ⟨1, 1, fun x y => by simp [h0]⟩
  by_cases h1 : k = 1
  · exact ⟨-1, 1, fun x y => by simp [h1]⟩
  by_cases h2 : k = 2
  · exact ⟨-1, -1, fun x y => by simp [h2]; ring⟩
  · exact ⟨1, -1, fun x y => by simp [h0, h1, h2]; ring⟩

/-- inside one quadrant cone "counter-clockwise of" is transitive -/
theorem cone_trans (k : Nat) (ux uy vx vy wx wy : Int)
    (fu : 0 < qf k ux uy) (fv : 0 < qf k vx vy) (fw : 0 < qf k wx wy)
    (h1 : 0 < ux * vy - uy * vx) (h2 : 0 < vx * wy - vy * wx) : 0 < ux * wy - uy * wx := by
  obtain ⟨a, b, hl⟩ := qf_lin k
  rw [hl] at fu fv fw
  have id := cross3 a b ux uy vx vy wx wy
  have t2 := Int.mul_pos h1 fw
  have t3 := Int.mul_pos h2 fu
  nlinarith

/-- inside one quadrant cone "same direction" is transitive -/
theorem cone_eq_trans (k : Nat) (ux uy vx vy wx wy : Int)
    (fv : 0 < qf k vx vy)
    (h1 : ux * vy - uy * vx = 0) (h2 : vx * wy - vy * wx = 0) : ux * wy - uy * wx = 0 := by
  obtain ⟨a, b, hl⟩ := qf_lin k
  rw [hl] at fv
  have id := cross3 a b ux uy vx vy wx wy
  rw [h1, h2] at id
  simp only [Int.zero_mul, Int.add_zero] at id
  rcases Int.mul_eq_zero.mp id with h | h
  · omega
  · exact h

/-! ### transitivity of `compareAngle` -/

theorem compareAngle_eq_neg_one (o p q : Pt) :
    compareAngle o p q = -1 ↔ (quadrant o p < quadrant o q ∨ (quadrant o p = quadrant o q ∧ det o q p < 0)) := by
  rw [compareAngle_nf]; split_ifs <;> constructor <;> intro h <;> first | omega | exact h.elim

theorem compareAngle_eq_zero (o p q : Pt) :
    compareAngle o p q = 0 ↔ (quadrant o p = quadrant o q ∧ det o q p = 0) := by
  rw [compareAngle_nf]; split_ifs <;> constructor <;> intro h <;> first | omega | exact h.elim

theorem det_vec (o p q : Pt) : det o p q = (p.x - o.x) * (q.y - o.y) - (p.y - o.y) * (q.x - o.x) := rfl

/-- transitivity of the strict order -/
theorem compareAngle_trans (o p q r : Pt) (hp : p ≠ o) (hq : q ≠ o) (hr : r ≠ o)
    (h1 : compareAngle o p q = -1) (h2 : compareAngle o q r = -1) : compareAngle o p r = -1 := by
  rw [compareAngle_eq_neg_one] at *
  rcases h1 with h1 | ⟨e1, d1⟩ <;> rcases h2 with h2 | ⟨e2, d2⟩
  · left; omega
  · left; omega
  · left; omega
  · right
    refine ⟨by omega, ?_⟩
    rw [ne_iff_vec] at hp hq hr
    have fp := qf_pos _ _ hp
    have fq := qf_pos _ _ hq
    have fr := qf_pos _ _ hr
    unfold quadrant at e1 e2
    have fp' : 0 < qf (quadrantD (q.x - o.x) (q.y - o.y)) (p.x - o.x) (p.y - o.y) := by rw [← e1]; exact fp
    have fr' : 0 < qf (quadrantD (q.x - o.x) (q.y - o.y)) (r.x - o.x) (r.y - o.y) := by rw [e2]; exact fr
    rw [det_vec] at d1 d2 ⊢
    have := cone_trans _ (p.x - o.x) (p.y - o.y) (q.x - o.x) (q.y - o.y) (r.x - o.x) (r.y - o.y) fp' fq fr'
      (by linarith) (by linarith)
    linarith

/-- transitivity of "incomparable" (`compareAngle = 0`): together with `compareAngle_trans`, `compareAngle_antisymm`
and `compareAngle_range` this makes `compareAngle o · · = -1` a strict weak order on the directions from `o` -/
theorem compareAngle_eq_trans (o p q r : Pt) (hq : q ≠ o)
    (h1 : compareAngle o p q = 0) (h2 : compareAngle o q r = 0) : compareAngle o p r = 0 := by
  rw [compareAngle_eq_zero] at *
  obtain ⟨e1, d1⟩ := h1
  obtain ⟨e2, d2⟩ := h2
  refine ⟨by omega, ?_⟩
  rw [ne_iff_vec] at hq
  have fq := qf_pos _ _ hq
  rw [det_vec] at d1 d2 ⊢
  have := cone_eq_trans _ (p.x - o.x) (p.y - o.y) (q.x - o.x) (q.y - o.y) (r.x - o.x) (r.y - o.y) fq
    (by linarith) (by linarith)
  linarith

/-! ### weak transitivity (all six mixed forms) -/

theorem compareAngle_lt_eq (o p q r : Pt) (hp : p ≠ o) (hq : q ≠ o) (hr : r ≠ o)
    (h1 : compareAngle o p q = -1) (h2 : compareAngle o q r = 0) : compareAngle o p r = -1 := by
  rcases compareAngle_range o p r with h | h | h
  · exact h
  · have h3 : compareAngle o r p = 0 := by rw [compareAngle_antisymm o p r]; omega
    have h4 := compareAngle_eq_trans o q r p hr h2 h3
    have := compareAngle_antisymm o p q; omega
  · have h3 : compareAngle o r p = -1 := by rw [compareAngle_antisymm o p r]; omega
    have h4 := compareAngle_trans o r p q hr hp hq h3 h1
    have := compareAngle_antisymm o q r; omega

theorem compareAngle_eq_lt (o p q r : Pt) (hp : p ≠ o) (hq : q ≠ o) (hr : r ≠ o)
    (h1 : compareAngle o p q = 0) (h2 : compareAngle o q r = -1) : compareAngle o p r = -1 := by
  rcases compareAngle_range o p r with h | h | h
  · exact h
  · have h3 : compareAngle o q p = 0 := by rw [compareAngle_antisymm o p q]; omega
    have h4 := compareAngle_eq_trans o q p r hp h3 h
    omega
  · have h3 : compareAngle o r p = -1 := by rw [compareAngle_antisymm o p r]; omega
    have h4 := compareAngle_trans o q r p hq hr hp h2 h3
    have := compareAngle_antisymm o p q; omega

/-- all mixed transitivity facts about three directions, in the form used by the table lemmas -/
theorem compareAngle_compat (o p q r : Pt) (hp : p ≠ o) (hq : q ≠ o) (hr : r ≠ o) :
    (compareAngle o p q ≤ 0 → compareAngle o q r ≤ 0 → compareAngle o p r ≤ 0) ∧
    (compareAngle o p q < 0 → compareAngle o q r ≤ 0 → compareAngle o p r < 0) ∧
    (compareAngle o p q ≤ 0 → compareAngle o q r < 0 → compareAngle o p r < 0) ∧
    (compareAngle o p q ≥ 0 → compareAngle o q r ≥ 0 → compareAngle o p r ≥ 0) ∧
    (compareAngle o p q > 0 → compareAngle o q r ≥ 0 → compareAngle o p r > 0) ∧
    (compareAngle o p q ≥ 0 → compareAngle o q r > 0 → compareAngle o p r > 0) := by
  have r1 := compareAngle_range o p q
  have r2 := compareAngle_range o q r
  have r3 := compareAngle_range o p r
  have a1 := compareAngle_antisymm o p q
  have a2 := compareAngle_antisymm o q r
  have a3 := compareAngle_antisymm o p r
  have t1 := compareAngle_trans o p q r hp hq hr
  have t2 := compareAngle_lt_eq o p q r hp hq hr
  have t3 := compareAngle_eq_lt o p q r hp hq hr
  have t4 := compareAngle_eq_trans o p q r hq
  have u1 := compareAngle_trans o r q p hr hq hp
  have u2 := compareAngle_lt_eq o r q p hr hq hp
  have u3 := compareAngle_eq_lt o r q p hr hq hp
  have key : (compareAngle o p q ≤ 0 ∧ compareAngle o q r ≤ 0 → compareAngle o p r ≤ 0 ∧
        (compareAngle o p q < 0 ∨ compareAngle o q r < 0 → compareAngle o p r < 0)) ∧
      (compareAngle o p q ≥ 0 ∧ compareAngle o q r ≥ 0 → compareAngle o p r ≥ 0 ∧
        (compareAngle o p q > 0 ∨ compareAngle o q r > 0 → compareAngle o p r > 0)) := by
    rcases r1 with r1 | r1 | r1 <;> rcases r2 with r2 | r2 | r2
    · have k := t1 r1 r2; clear t1 t2 t3 t4 u1 u2 u3; omega
    · have k := t2 r1 r2; clear t1 t2 t3 t4 u1 u2 u3; omega
    · clear t1 t2 t3 t4 u1 u2 u3; omega
    · have k := t3 r1 r2; clear t1 t2 t3 t4 u1 u2 u3; omega
    · have k := t4 r1 r2; clear t1 t2 t3 t4 u1 u2 u3; omega
    · have k := u2 (by omega) (by omega); clear t1 t2 t3 t4 u1 u2 u3; omega
    · clear t1 t2 t3 t4 u1 u2 u3; omega
    · have k := u3 (by omega) (by omega); clear t1 t2 t3 t4 u1 u2 u3; omega
    · have k := u1 (by omega) (by omega); clear t1 t2 t3 t4 u1 u2 u3; omega
  clear t1 t2 t3 t4 u1 u2 u3 r1 r2 r3 a1 a2 a3
  refine ⟨?_, ?_, ?_, ?_, ?_, ?_⟩ <;> intro h1 h2 <;> omega

/-! ### sign tables -/

inductive S3 where
  | neg | zero | pos
deriving DecidableEq, Repr

namespace S3
def ofInt (c : Int) : S3 := if c < 0 then .neg else if c = 0 then .zero else .pos
def flip : S3 → S3
  | .neg => .pos | .zero => .zero | .pos => .neg
def le0 : S3 → Bool | .pos => false | _ => true
def ge0 : S3 → Bool | .neg => false | _ => true
def all (f : S3 → Bool) : Bool := f .neg && f .zero && f .pos
theorem all_spec {f : S3 → Bool} (h : all f = true) (s : S3) : f s = true := by
  unfold all at h; simp only [Bool.and_eq_true] at h; cases s <;> simp [h]
/-- `ab = cmp a b`, `bc = cmp b c`, `ac = cmp a c` are compatible with a strict weak order -/
def compat (ab bc ac : S3) : Bool :=
  (!(ab.le0 && bc.le0) || ac.le0) && (!(ab == .neg && bc.le0) || ac == .neg) && (!(ab.le0 && bc == .neg) || ac == .neg) &&
  (!(ab.ge0 && bc.ge0) || ac.ge0) && (!(ab == .pos && bc.ge0) || ac == .pos) && (!(ab.ge0 && bc == .pos) || ac == .pos)
end S3

theorem ofInt_neg_one : S3.ofInt (-1) = .neg := rfl
theorem ofInt_zero : S3.ofInt 0 = .zero := rfl
theorem ofInt_one : S3.ofInt 1 = .pos := rfl

theorem compat_actual (o p q r : Pt) (hp : p ≠ o) (hq : q ≠ o) (hr : r ≠ o) :
    S3.compat (S3.ofInt (compareAngle o p q)) (S3.ofInt (compareAngle o q r)) (S3.ofInt (compareAngle o p r)) = true := by
  have h := compareAngle_compat o p q r hp hq hr
  rcases compareAngle_range o p q with r1 | r1 | r1 <;> rcases compareAngle_range o q r with r2 | r2 | r2 <;>
    rcases compareAngle_range o p r with r3 | r3 | r3 <;> simp only [r1, r2, r3] at h ⊢ <;>
    first | rfl | (exfalso; omega)

theorem ofInt_flip (c : Int) (h : c = -1 ∨ c = 0 ∨ c = 1) : S3.ofInt (-c) = (S3.ofInt c).flip := by
  rcases h with h | h | h <;> subst h <;> rfl

/-- `compareBetween` on signs -/
def cbT (c0 c1 : S3) : S3 :=
  if c0 = .zero then .zero else if c1 = .zero then .zero else if c0 = .pos ∧ c1 = .neg then .pos else .neg

/-- the part of `isCrossing` after `aLo`/`aHi` are chosen, on signs (`l0 = cmp b0 aLo`, `h0 = cmp b0 aHi`, ...) -/
def crossBodyT (l0 h0 l1 h1 : S3) : Bool :=
  let c0 := cbT l0 h0
  if c0 = .zero then false
  else
    let c1 := cbT l1 h1
    if c1 = .zero then false else decide (c0 ≠ c1)

/-- `isCrossing` as a function of the signs `x = cmp a0 a1`, `p0 = cmp b0 a0`, `p1 = cmp b0 a1`, `q0 = cmp b1 a0`, `q1 = cmp b1 a1` -/
def crossT (x p0 p1 q0 q1 : S3) : Bool :=
  if x = .pos then crossBodyT p1 p0 q1 q0 else crossBodyT p0 p1 q0 q1

/-- `cyc o a0 b a1` on signs (`x = cmp a0 a1`, `p0 = cmp b a0`, `p1 = cmp b a1`) -/
def cyc01T (x p0 p1 : S3) : Bool :=
  (decide (p0 = .pos) && decide (p1 = .neg)) || (decide (p1 = .neg) && decide (x = .pos)) || (decide (x = .pos) && decide (p0 = .pos))
/-- `cyc o a1 b a0` on signs -/
def cyc10T (x p0 p1 : S3) : Bool :=
  (decide (p1 = .pos) && decide (p0 = .neg)) || (decide (p0 = .neg) && decide (x = .neg)) || (decide (x = .neg) && decide (p1 = .pos))

def crossSpecT (x p0 p1 q0 q1 : S3) : Bool :=
  (cyc01T x p0 p1 && cyc10T x q0 q1) || (cyc10T x p0 p1 && cyc01T x q0 q1)

/-- all the compatibility facts available for `b` against the corner `(a0, a1)` -/
def compatB (x p0 p1 : S3) : Bool :=
  S3.compat p0 x p1 && S3.compat p1 x.flip p0 && S3.compat p0.flip p1 x

/-- the finite heart of `isCrossing_iff`: on every sign pattern compatible with a strict weak order the C++ decision
table equals the wedge specification -/
theorem crossT_eq_spec : S3.all (fun x => S3.all fun p0 => S3.all fun p1 => S3.all fun q0 => S3.all fun q1 =>
    !(compatB x p0 p1 && compatB x q0 q1) || (crossT x p0 p1 q0 q1 == crossSpecT x p0 p1 q0 q1)) = true := by
  decide

/-! ### the C++ functions as sign tables -/

theorem isAngleGreater_eq (o p q : Pt) : isAngleGreater o p q = decide (compareAngle o p q = 1) := by
  have := isAngleGreater_iff o p q
  by_cases h : compareAngle o p q = 1
  · simp [h, this.mpr h]
  · cases hb : isAngleGreater o p q
    · simp [h]
    · exact absurd (this.mp hb) h

/-- the part of `isCrossing` after `aLo`/`aHi` are chosen -/
def crossBody (n aLo aHi b0 b1 : Pt) : Bool :=
  let compBetween0 := compareBetween n b0 aLo aHi
  if compBetween0 == 0 then false
  else
    let compBetween1 := compareBetween n b1 aLo aHi
    if compBetween1 == 0 then false
    else compBetween0 != compBetween1

theorem isCrossing_unfold (n a0 a1 b0 b1 : Pt) :
    isCrossing n a0 a1 b0 b1 = if isAngleGreater n a0 a1 then crossBody n a1 a0 b0 b1 else crossBody n a0 a1 b0 b1 := by
  unfold isCrossing crossBody
  cases isAngleGreater n a0 a1 <;> rfl

theorem crossBody_eq (n lo hi b0 b1 : Pt) :
    crossBody n lo hi b0 b1 = crossBodyT (S3.ofInt (compareAngle n b0 lo)) (S3.ofInt (compareAngle n b0 hi))
      (S3.ofInt (compareAngle n b1 lo)) (S3.ofInt (compareAngle n b1 hi)) := by
  unfold crossBody compareBetween
  have r1 := compareAngle_range n b0 lo
  have r2 := compareAngle_range n b0 hi
  have r3 := compareAngle_range n b1 lo
  have r4 := compareAngle_range n b1 hi
  generalize compareAngle n b0 lo = p0 at *
  generalize compareAngle n b0 hi = p1 at *
  generalize compareAngle n b1 lo = q0 at *
  generalize compareAngle n b1 hi = q1 at *
  rcases r1 with h | h | h <;> subst h <;>
    rcases r2 with h | h | h <;> subst h <;> rcases r3 with h | h | h <;> subst h <;>
    rcases r4 with h | h | h <;> subst h <;> rfl

theorem isCrossing_eq_crossT (n a0 a1 b0 b1 : Pt) :
    isCrossing n a0 a1 b0 b1 =
      crossT (S3.ofInt (compareAngle n a0 a1)) (S3.ofInt (compareAngle n b0 a0)) (S3.ofInt (compareAngle n b0 a1))
        (S3.ofInt (compareAngle n b1 a0)) (S3.ofInt (compareAngle n b1 a1)) := by
  rw [isCrossing_unfold, isAngleGreater_eq, crossBody_eq, crossBody_eq]
  unfold crossT
  rcases compareAngle_range n a0 a1 with h | h | h <;> rw [h] <;> rfl

theorem angLt_eq (o p q : Pt) (hp : p ≠ o) (hq : q ≠ o) : angLt o p q = decide (compareAngle o p q = -1) := by
  have := compareAngle_lt_iff o p q hp hq
  by_cases h : compareAngle o p q = -1
  · simp [h, this.mp h]
  · cases hb : angLt o p q
    · simp [h]
    · exact absurd (this.mpr hb) h

theorem cyc01_eq (o a0 a1 b : Pt) (h0 : a0 ≠ o) (h1 : a1 ≠ o) (hb : b ≠ o) :
    cyc o a0 b a1 = cyc01T (S3.ofInt (compareAngle o a0 a1)) (S3.ofInt (compareAngle o b a0)) (S3.ofInt (compareAngle o b a1)) := by
  unfold cyc cyc01T
  rw [angLt_eq o a0 b h0 hb, angLt_eq o b a1 hb h1, angLt_eq o a1 a0 h1 h0,
    compareAngle_antisymm o b a0, compareAngle_antisymm o a0 a1]
  have r0 := compareAngle_range o a0 a1
  have r1 := compareAngle_range o b a0
  have r2 := compareAngle_range o b a1
  generalize compareAngle o a0 a1 = x at *
  generalize compareAngle o b a0 = p0 at *
  generalize compareAngle o b a1 = p1 at *
  rcases r0 with h | h | h <;> subst h <;> rcases r1 with h | h | h <;> subst h <;>
    rcases r2 with h | h | h <;> subst h <;> rfl

theorem cyc10_eq (o a0 a1 b : Pt) (h0 : a0 ≠ o) (h1 : a1 ≠ o) (hb : b ≠ o) :
    cyc o a1 b a0 = cyc10T (S3.ofInt (compareAngle o a0 a1)) (S3.ofInt (compareAngle o b a0)) (S3.ofInt (compareAngle o b a1)) := by
  unfold cyc cyc10T
  rw [angLt_eq o a1 b h1 hb, angLt_eq o b a0 hb h0, angLt_eq o a0 a1 h0 h1,
    compareAngle_antisymm o b a1]
  have r0 := compareAngle_range o a0 a1
  have r1 := compareAngle_range o b a0
  have r2 := compareAngle_range o b a1
  generalize compareAngle o a0 a1 = x at *
  generalize compareAngle o b a0 = p0 at *
  generalize compareAngle o b a1 = p1 at *
  rcases r0 with h | h | h <;> subst h <;> rcases r1 with h | h | h <;> subst h <;>
    rcases r2 with h | h | h <;> subst h <;> rfl

theorem compatB_actual (o a0 a1 b : Pt) (h0 : a0 ≠ o) (h1 : a1 ≠ o) (hb : b ≠ o) :
    compatB (S3.ofInt (compareAngle o a0 a1)) (S3.ofInt (compareAngle o b a0)) (S3.ofInt (compareAngle o b a1)) = true := by
  unfold compatB
  have c1 := compat_actual o b a0 a1 hb h0 h1
  have c2 := compat_actual o b a1 a0 hb h1 h0
  have c3 := compat_actual o a0 b a1 h0 hb h1
  rw [compareAngle_antisymm o a0 a1, ofInt_flip _ (compareAngle_range o a0 a1)] at c2
  rw [compareAngle_antisymm o b a0, ofInt_flip _ (compareAngle_range o b a0)] at c3
  simp [c1, c2, c3]

/-- **isCrossing_iff** (Bool form): the C++ `isCrossing` equals the wedge specification `crossAt` -/
theorem isCrossing_eq_crossAt (n a0 a1 b0 b1 : Pt) (h0 : a0 ≠ n) (h1 : a1 ≠ n) (hb0 : b0 ≠ n) (hb1 : b1 ≠ n) :
    isCrossing n a0 a1 b0 b1 = crossAt n a0 a1 b0 b1 := by
  rw [isCrossing_eq_crossT]
  unfold crossAt
  rw [cyc01_eq n a0 a1 b0 h0 h1 hb0, cyc10_eq n a0 a1 b1 h0 h1 hb1, cyc10_eq n a0 a1 b0 h0 h1 hb0, cyc01_eq n a0 a1 b1 h0 h1 hb1]
  have k0 := compatB_actual n a0 a1 b0 h0 h1 hb0
  have k1 := compatB_actual n a0 a1 b1 h0 h1 hb1
  have t := S3.all_spec (S3.all_spec (S3.all_spec (S3.all_spec (S3.all_spec crossT_eq_spec
    (S3.ofInt (compareAngle n a0 a1))) (S3.ofInt (compareAngle n b0 a0))) (S3.ofInt (compareAngle n b0 a1)))
    (S3.ofInt (compareAngle n b1 a0))) (S3.ofInt (compareAngle n b1 a1))
  simp only [k0, k1, Bool.and_self, Bool.not_true, Bool.false_or, beq_iff_eq] at t
  exact t

/-! ### isInteriorSegment -/

/-- `isBetween` on signs -/
def betweenT (lo hi : S3) : Bool := if !(decide (lo = .pos)) then false else !(decide (hi = .pos))

/-- `isInteriorSegment` on signs (`x = cmp a0 a1`, `p0 = cmp b a0`, `p1 = cmp b a1`) -/
def interiorT (x p0 p1 : S3) : Bool :=
  if x = .pos then !betweenT p1 p0 else betweenT p0 p1

def interiorSpecT (x p0 p1 : S3) : Bool := cyc01T x p0 p1 || (decide (p1 = .zero) && !decide (x = .zero))

theorem interiorT_eq_spec : S3.all (fun x => S3.all fun p0 => S3.all fun p1 =>
    !(compatB x p0 p1) || (interiorT x p0 p1 == interiorSpecT x p0 p1)) = true := by
  decide

theorem isBetween_eq (n b lo hi : Pt) :
    isBetween n b lo hi = betweenT (S3.ofInt (compareAngle n b lo)) (S3.ofInt (compareAngle n b hi)) := by
  unfold isBetween
  simp only [isAngleGreater_eq]
  have r1 := compareAngle_range n b lo
  have r2 := compareAngle_range n b hi
  generalize compareAngle n b lo = p0 at *
  generalize compareAngle n b hi = p1 at *
  rcases r1 with h | h | h <;> subst h <;> rcases r2 with h | h | h <;> subst h <;> rfl

theorem isInteriorSegment_unfold (n a0 a1 b : Pt) :
    isInteriorSegment n a0 a1 b = if isAngleGreater n a0 a1 then !isBetween n b a1 a0 else isBetween n b a0 a1 := by
  unfold isInteriorSegment
  cases isAngleGreater n a0 a1 <;> simp

theorem isInteriorSegment_eq_T (n a0 a1 b : Pt) :
    isInteriorSegment n a0 a1 b =
      interiorT (S3.ofInt (compareAngle n a0 a1)) (S3.ofInt (compareAngle n b a0)) (S3.ofInt (compareAngle n b a1)) := by
  rw [isInteriorSegment_unfold, isAngleGreater_eq, isBetween_eq, isBetween_eq]
  unfold interiorT
  rcases compareAngle_range n a0 a1 with h | h | h <;> rw [h] <;> rfl

/-- the two directions are the same ray, in terms of the specification order -/
def angEq (o p q : Pt) : Bool := !angLt o p q && !angLt o q p

theorem angEq_eq (o p q : Pt) (hp : p ≠ o) (hq : q ≠ o) : angEq o p q = decide (compareAngle o p q = 0) := by
  unfold angEq
  rw [angLt_eq o p q hp hq, angLt_eq o q p hq hp, compareAngle_antisymm o p q]
  rcases compareAngle_range o p q with h | h | h <;> rw [h] <;> rfl

/-- specification of "the segment `o → b` points into the sweep from `a0` (exclusive) counter-clockwise to `a1` (inclusive)" -/
def interiorAt (o a0 a1 b : Pt) : Bool := cyc o a0 b a1 || (angEq o b a1 && !angEq o a0 a1)

theorem isInteriorSegment_eq_interiorAt (n a0 a1 b : Pt) (h0 : a0 ≠ n) (h1 : a1 ≠ n) (hb : b ≠ n) :
    isInteriorSegment n a0 a1 b = interiorAt n a0 a1 b := by
  rw [isInteriorSegment_eq_T]
  unfold interiorAt
  rw [cyc01_eq n a0 a1 b h0 h1 hb, angEq_eq n b a1 hb h1, angEq_eq n a0 a1 h0 h1]
  have k0 := compatB_actual n a0 a1 b h0 h1 hb
  have t := S3.all_spec (S3.all_spec (S3.all_spec interiorT_eq_spec
    (S3.ofInt (compareAngle n a0 a1))) (S3.ofInt (compareAngle n b a0))) (S3.ofInt (compareAngle n b a1))
  simp only [k0, Bool.not_true, Bool.false_or, beq_iff_eq] at t
  rw [t]; unfold interiorSpecT
  rcases compareAngle_range n a0 a1 with h | h | h <;> rcases compareAngle_range n b a1 with h' | h' | h' <;>
    rw [h, h'] <;> rfl

/-! ### `compareAngle = 0` is "same ray" -/

theorem sameDir_iff (o p q : Pt) : sameDir o p q = true ↔ (det o p q = 0 ∧ dot o p q > 0) := by
  unfold sameDir; simp

theorem normSq_pos (x y : Int) (h : x ≠ 0 ∨ y ≠ 0) : 0 < x * x + y * y := by
  rcases h with h | h
  · have := mul_self_pos.mpr h; have := mul_self_nonneg y; linarith
  · have := mul_self_pos.mpr h; have := mul_self_nonneg x; linarith

theorem sign_mul_pos (x n : Int) (hn : 0 < n) : (0 < x * n ↔ 0 < x) ∧ (x * n < 0 ↔ x < 0) ∧ (x * n = 0 ↔ x = 0) := by
  have s := mulSign x n
  refine ⟨⟨fun h => ?_, fun h => s.1 h hn⟩, ⟨fun h => ?_, fun h => s.2.2.1 h hn⟩, ⟨fun h => ?_, fun h => s.2.2.2.2.1 h⟩⟩
  · rcases lt_trichotomy x 0 with hx | hx | hx
    · have := s.2.2.1 hx hn; omega
    · have := s.2.2.2.2.1 hx; omega
    · exact hx
  · rcases lt_trichotomy x 0 with hx | hx | hx
    · exact hx
    · have := s.2.2.2.2.1 hx; omega
    · have := s.1 hx hn; omega
  · rcases lt_trichotomy x 0 with hx | hx | hx
    · have := s.2.2.1 hx hn; omega
    · exact hx
    · have := s.1 hx hn; omega

/-- collinear non-zero vectors: the sign of the dot product says whether the coordinates have equal or opposite signs -/
theorem collinear_signs (px py qx qy : Int) (hp : px ≠ 0 ∨ py ≠ 0) (hq : qx ≠ 0 ∨ qy ≠ 0)
    (hd : qx * py - qy * px = 0) :
    (0 < px * qx + py * qy ∧ (0 < qx ↔ 0 < px) ∧ (qx < 0 ↔ px < 0) ∧ (0 < qy ↔ 0 < py) ∧ (qy < 0 ↔ py < 0)) ∨
    (px * qx + py * qy < 0 ∧ (0 < qx ↔ px < 0) ∧ (qx < 0 ↔ 0 < px) ∧ (0 < qy ↔ py < 0) ∧ (qy < 0 ↔ 0 < py)) := by
  have hN := normSq_pos px py hp
  have hM := normSq_pos qx qy hq
  have i1 : qx * (px * px + py * py) = (px * qx + py * qy) * px + py * (qx * py - qy * px) := by ring
  have i2 : qy * (px * px + py * py) = (px * qx + py * qy) * py - px * (qx * py - qy * px) := by ring
  have lag : (qx * py - qy * px) * (qx * py - qy * px) + (px * qx + py * qy) * (px * qx + py * qy) =
      (px * px + py * py) * (qx * qx + qy * qy) := by ring
  rw [hd] at i1 i2 lag
  simp only [Int.mul_zero, Int.add_zero, Int.sub_zero, Int.zero_add] at i1 i2 lag
  have hpos := Int.mul_pos hN hM
  have a1 := sign_mul_pos qx _ hN
  have a2 := sign_mul_pos qy _ hN
  rcases lt_trichotomy (px * qx + py * qy) 0 with hdot | hdot | hdot
  · right
    have b1 := sign_mul_pos px (-(px * qx + py * qy)) (by omega)
    have b2 := sign_mul_pos py (-(px * qx + py * qy)) (by omega)
    have e1 : px * -(px * qx + py * qy) = -(qx * (px * px + py * py)) := by rw [i1]; ring
    have e2 : py * -(px * qx + py * qy) = -(qy * (px * px + py * py)) := by rw [i2]; ring
    rw [e1] at b1; rw [e2] at b2
    generalize qx * (px * px + py * py) = M1 at *
    generalize qy * (px * px + py * py) = M2 at *
    refine ⟨hdot, ?_, ?_, ?_, ?_⟩ <;> omega
  · rw [hdot] at lag; simp at lag; omega
  · left
    have b1 := sign_mul_pos px _ hdot
    have b2 := sign_mul_pos py _ hdot
    have e1 : px * (px * qx + py * qy) = qx * (px * px + py * py) := by rw [i1]; ring
    have e2 : py * (px * qx + py * qy) = qy * (px * px + py * py) := by rw [i2]; ring
    rw [e1] at b1; rw [e2] at b2
    generalize qx * (px * px + py * py) = M1 at *
    generalize qy * (px * px + py * py) = M2 at *
    refine ⟨hdot, ?_, ?_, ?_, ?_⟩ <;> omega

/-- `compareAngle o p q = 0` exactly when `p` and `q` are on the same ray from `o` -/
theorem compareAngle_eq_zero_iff (o p q : Pt) (hp : p ≠ o) (hq : q ≠ o) :
    compareAngle o p q = 0 ↔ sameDir o p q = true := by
  rw [compareAngle_eq_zero, sameDir_iff]
  rw [ne_iff_vec] at hp hq
  have hd1 : det o q p = (q.x - o.x) * (p.y - o.y) - (q.y - o.y) * (p.x - o.x) := rfl
  have hd2 : det o p q = -det o q p := by rw [det_swap23]
  have hd3 : dot o p q = (p.x - o.x) * (q.x - o.x) + (p.y - o.y) * (q.y - o.y) := rfl
  unfold quadrant
  constructor
  · rintro ⟨hq', hz⟩
    refine ⟨by omega, ?_⟩
    rw [hd1] at hz
    rcases collinear_signs _ _ _ _ hp hq hz with ⟨h, _⟩ | ⟨h, k1, k2, k3, k4⟩
    · rw [hd3]; exact h
    · exfalso
      revert hq'
      rcases quadrantD_cases (p.x - o.x) (p.y - o.y) with ⟨h1, h2, h3⟩ | ⟨h1, h2, h3⟩ | ⟨h1, h2, h3⟩ | ⟨h1, h2, h3⟩ <;>
      rcases quadrantD_cases (q.x - o.x) (q.y - o.y) with ⟨l1, l2, l3⟩ | ⟨l1, l2, l3⟩ | ⟨l1, l2, l3⟩ | ⟨l1, l2, l3⟩ <;>
      rw [h3, l3] <;> omega
  · rintro ⟨hz, hdot⟩
    have hz' : det o q p = 0 := by omega
    refine ⟨?_, hz'⟩
    rw [hd1] at hz'
    rw [hd3] at hdot
    rcases collinear_signs _ _ _ _ hp hq hz' with ⟨_, k1, k2, k3, k4⟩ | ⟨h, _⟩
    · rcases quadrantD_cases (p.x - o.x) (p.y - o.y) with ⟨h1, h2, h3⟩ | ⟨h1, h2, h3⟩ | ⟨h1, h2, h3⟩ | ⟨h1, h2, h3⟩ <;>
      rcases quadrantD_cases (q.x - o.x) (q.y - o.y) with ⟨l1, l2, l3⟩ | ⟨l1, l2, l3⟩ | ⟨l1, l2, l3⟩ | ⟨l1, l2, l3⟩ <;>
      rw [h3, l3] <;> omega
    · omega

end GeosModel.Valid
