import GeosModel.Model.Valid.NodeTopo
import GeosModel.Proofs.Kernel.Basic
import Mathlib.Tactic.Ring
import Mathlib.Tactic.Linarith
/-!
# Lemmas about the model of `PolygonNodeTopology` (C05 core)

Strategy: every function is first rewritten into a normal form over the four coordinates of the two
direction vectors and the two products of the cross product; the sign of a product is tied to the signs
of its factors by `mulSign`, after which the facts are linear and `omega` decides them.
Transitivity needs the three-vector identity `(u × w) f(v) = (u × v) f(w) + (v × w) f(u)`.
-/
namespace GeosModel.Valid
open GeosModel.Kernel

/-- the sign of a product from the signs of the factors, in a form `omega` can use once `x * y` is an atom -/
theorem mulSign (x y : Int) :
    (0 < x → 0 < y → 0 < x * y) ∧ (0 < x → y < 0 → x * y < 0) ∧ (x < 0 → 0 < y → x * y < 0) ∧
    (x < 0 → y < 0 → 0 < x * y) ∧ (x = 0 → x * y = 0) ∧ (y = 0 → x * y = 0) := by
  refine ⟨fun a b => Int.mul_pos a b, fun a b => Int.mul_neg_of_pos_of_neg a b,
    fun a b => Int.mul_neg_of_neg_of_pos a b, fun a b => Int.mul_pos_of_neg_of_neg a b, ?_, ?_⟩
  · intro h; simp [h]
  · intro h; simp [h]

/-! ### normal forms -/

theorem orient_beq_one (a b c : Pt) : (orient a b c == 1) = decide (0 < det a b c) := by
  have := @orient_eq_one a b c
  by_cases h : 0 < det a b c <;> simp [h, this]

theorem orient_beq_neg_one (a b c : Pt) : (orient a b c == -1) = decide (det a b c < 0) := by
  have := @orient_eq_neg_one a b c
  by_cases h : det a b c < 0 <;> simp [h, this]

theorem compareAngle_nf (o p q : Pt) :
    compareAngle o p q =
      if quadrant o p > quadrant o q then 1 else if quadrant o p < quadrant o q then -1
      else if 0 < det o q p then 1 else if det o q p < 0 then -1 else 0 := by
  unfold compareAngle
  simp only [orient_beq_one, orient_beq_neg_one, decide_eq_true_eq]

theorem isAngleGreater_nf (o p q : Pt) :
    isAngleGreater o p q =
      if quadrant o p > quadrant o q then true else if quadrant o p < quadrant o q then false
      else decide (0 < det o q p) := by
  unfold isAngleGreater
  simp only [orient_beq_one]

/-- `isAngleGreater` is `compareAngle = 1` (the C++ has two copies of the same logic) -/
theorem isAngleGreater_iff (o p q : Pt) : isAngleGreater o p q = true ↔ compareAngle o p q = 1 := by
  rw [isAngleGreater_nf, compareAngle_nf]
  split_ifs <;> simp_all

theorem compareAngle_range (o p q : Pt) : compareAngle o p q = -1 ∨ compareAngle o p q = 0 ∨ compareAngle o p q = 1 := by
  rw [compareAngle_nf]; split_ifs <;> simp

/-- antisymmetry: swapping the arguments negates the result -/
theorem compareAngle_antisymm (o p q : Pt) : compareAngle o q p = - compareAngle o p q := by
  rw [compareAngle_nf, compareAngle_nf, det_swap23 o p q]
  split_ifs <;> omega

theorem compareAngle_self (o p : Pt) : compareAngle o p p = 0 := by
  have := compareAngle_antisymm o p p; omega

/-! ### agreement with the half-plane specification -/

theorem upper_iff (o p : Pt) : upper o p = true ↔ (p.y - o.y > 0 ∨ (p.y - o.y = 0 ∧ p.x - o.x > 0)) := by
  unfold upper; simp only [Bool.or_eq_true, Bool.and_eq_true, decide_eq_true_eq]; omega

theorem ne_iff_vec (o p : Pt) : p ≠ o ↔ (p.x - o.x ≠ 0 ∨ p.y - o.y ≠ 0) := by
  rw [Ne, Pt.ext_iff']; omega

theorem angLt_iff (o p q : Pt) : angLt o p q = true ↔
    ((upper o p = true ∧ upper o q = false) ∨ (upper o p = upper o q ∧ det o p q > 0)) := by
  unfold angLt; simp

theorem quadrantD_cases (dx dy : Int) :
    (dx ≥ 0 ∧ dy ≥ 0 ∧ quadrantD dx dy = 0) ∨ (dx < 0 ∧ dy ≥ 0 ∧ quadrantD dx dy = 1) ∨
    (dx < 0 ∧ dy < 0 ∧ quadrantD dx dy = 2) ∨ (dx ≥ 0 ∧ dy < 0 ∧ quadrantD dx dy = 3) := by
  unfold quadrantD; split_ifs <;> omega

/-- the agreement on bare integer vectors -/
theorem cmp_core (px py qx qy : Int) (hp : px ≠ 0 ∨ py ≠ 0) (hq : qx ≠ 0 ∨ qy ≠ 0) :
    (if quadrantD px py > quadrantD qx qy then (1 : Int) else if quadrantD px py < quadrantD qx qy then -1
      else if 0 < qx * py - qy * px then 1 else if qx * py - qy * px < 0 then -1 else 0) = -1 ↔
    (((py > 0 ∨ (py = 0 ∧ px > 0)) ∧ ¬ (qy > 0 ∨ (qy = 0 ∧ qx > 0))) ∨
     (((py > 0 ∨ (py = 0 ∧ px > 0)) ↔ (qy > 0 ∨ (qy = 0 ∧ qx > 0))) ∧ px * qy - py * qx > 0)) := by
  have s1 := mulSign qx py
  have s2 := mulSign qy px
  have e1 : py * qx = qx * py := by ring
  have e2 : px * qy = qy * px := by ring
  rw [e1, e2]
  generalize qx * py = A at *
  generalize qy * px = B at *
  rcases quadrantD_cases px py with ⟨h1, h2, h3⟩ | ⟨h1, h2, h3⟩ | ⟨h1, h2, h3⟩ | ⟨h1, h2, h3⟩ <;>
  rcases quadrantD_cases qx qy with ⟨k1, k2, k3⟩ | ⟨k1, k2, k3⟩ | ⟨k1, k2, k3⟩ | ⟨k1, k2, k3⟩ <;>
  rw [h3, k3] <;> constructor <;> intro h <;> split_ifs at h ⊢ <;> omega

/-- **agreement**: for non-zero directions, `compareAngle o p q = -1` exactly when `o → p` comes strictly before
`o → q` in the half-plane/cross-product specification of the counter-clockwise order -/
theorem compareAngle_lt_iff (o p q : Pt) (hp : p ≠ o) (hq : q ≠ o) :
    compareAngle o p q = -1 ↔ angLt o p q = true := by
  rw [compareAngle_nf, angLt_iff]
  rw [ne_iff_vec] at hp hq
  have h := cmp_core (p.x - o.x) (p.y - o.y) (q.x - o.x) (q.y - o.y) hp hq
  have hu1 := upper_iff o p
  have hu2 := upper_iff o q
  have hd1 : det o q p = (q.x - o.x) * (p.y - o.y) - (q.y - o.y) * (p.x - o.x) := rfl
  have hd2 : det o p q = (p.x - o.x) * (q.y - o.y) - (p.y - o.y) * (q.x - o.x) := rfl
  simp only [quadrant, hd1, hd2]
  rw [h, ← hu1, ← hu2]
  cases upper o p <;> cases upper o q <;> simp

/-! ### `compareAngle = 0` is "same direction" -/

theorem eq_core (px py qx qy : Int) (hp : px ≠ 0 ∨ py ≠ 0) (hq : qx ≠ 0 ∨ qy ≠ 0) :
    (if quadrantD px py > quadrantD qx qy then (1 : Int) else if quadrantD px py < quadrantD qx qy then -1
      else if 0 < qx * py - qy * px then 1 else if qx * py - qy * px < 0 then -1 else 0) = 0 ↔
    (px * qy - py * qx = 0 ∧ px * qx + py * qy > 0) := by
  have s1 := mulSign qx py
  have s2 := mulSign qy px
  have s3 := mulSign px qx
  have s4 := mulSign py qy
  have e1 : py * qx = qx * py := by ring
  have e2 : px * qy = qy * px := by ring
  rw [e1, e2]
  generalize qx * py = A at *
  generalize qy * px = B at *
  generalize px * qx = C at *
  generalize py * qy = E at *
  rcases quadrantD_cases px py with ⟨h1, h2, h3⟩ | ⟨h1, h2, h3⟩ | ⟨h1, h2, h3⟩ | ⟨h1, h2, h3⟩ <;>
  rcases quadrantD_cases qx qy with ⟨k1, k2, k3⟩ | ⟨k1, k2, k3⟩ | ⟨k1, k2, k3⟩ | ⟨k1, k2, k3⟩ <;>
  rw [h3, k3] <;> constructor <;> intro h <;> split_ifs at h ⊢ <;> omega

theorem sameDir_iff (o p q : Pt) : sameDir o p q = true ↔ (det o p q = 0 ∧ dot o p q > 0) := by
  unfold sameDir; simp

/-- `compareAngle o p q = 0` exactly when `p` and `q` are on the same ray from `o` -/
theorem compareAngle_eq_zero_iff (o p q : Pt) (hp : p ≠ o) (hq : q ≠ o) :
    compareAngle o p q = 0 ↔ sameDir o p q = true := by
  rw [compareAngle_nf, sameDir_iff]
  rw [ne_iff_vec] at hp hq
  have h := eq_core (p.x - o.x) (p.y - o.y) (q.x - o.x) (q.y - o.y) hp hq
  have hd1 : det o q p = (q.x - o.x) * (p.y - o.y) - (q.y - o.y) * (p.x - o.x) := rfl
  have hd2 : det o p q = (p.x - o.x) * (q.y - o.y) - (p.y - o.y) * (q.x - o.x) := rfl
  have hd3 : dot o p q = (p.x - o.x) * (q.x - o.x) + (p.y - o.y) * (q.y - o.y) := rfl
  simp only [quadrant, hd1, hd2, hd3]
  exact h

/-! ### transitivity -/

/-- `u < v` in the half-plane/cross-product order, on bare vectors -/
def vLt (ux uy vx vy : Int) : Prop :=
  ((uy > 0 ∨ (uy = 0 ∧ ux > 0)) ∧ ¬ (vy > 0 ∨ (vy = 0 ∧ vx > 0))) ∨
  (((uy > 0 ∨ (uy = 0 ∧ ux > 0)) ↔ (vy > 0 ∨ (vy = 0 ∧ vx > 0))) ∧ ux * vy - uy * vx > 0)

theorem vLt_trans (ux uy vx vy wx wy : Int) (hu : ux ≠ 0 ∨ uy ≠ 0) (hv : vx ≠ 0 ∨ vy ≠ 0) (hw : wx ≠ 0 ∨ wy ≠ 0)
    (h1 : vLt ux uy vx vy) (h2 : vLt vx vy wx wy) : vLt ux uy wx wy := by
  unfold vLt at *
  have id1 : vy * (ux * wy - uy * wx) = (ux * vy - uy * vx) * wy + (vx * wy - vy * wx) * uy := by ring
  have id2 : vx * (ux * wy - uy * wx) = (ux * vy - uy * vx) * wx + (vx * wy - vy * wx) * ux := by ring
  have a1 := mulSign ux vy
  have a2 := mulSign uy vx
  have a3 := mulSign vx wy
  have a4 := mulSign vy wx
  have t1 := mulSign vy (ux * wy - uy * wx)
  have t2 := mulSign (ux * vy - uy * vx) wy
  have t3 := mulSign (vx * wy - vy * wx) uy
  have t4 := mulSign vx (ux * wy - uy * wx)
  have t5 := mulSign (ux * vy - uy * vx) wx
  have t6 := mulSign (vx * wy - vy * wx) ux
  generalize vy * (ux * wy - uy * wx) = T1 at *
  generalize (ux * vy - uy * vx) * wy = T2 at *
  generalize (vx * wy - vy * wx) * uy = T3 at *
  generalize vx * (ux * wy - uy * wx) = T4 at *
  generalize (ux * vy - uy * vx) * wx = T5 at *
  generalize (vx * wy - vy * wx) * ux = T6 at *
  generalize ux * wy - uy * wx = X at *
  generalize ux * vy = P1 at *
  generalize uy * vx = P2 at *
  generalize vx * wy = Q1 at *
  generalize vy * wx = Q2 at *
  omega

end GeosModel.Valid
