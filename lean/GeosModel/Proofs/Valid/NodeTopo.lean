import GeosModel.Model.Valid.NodeTopo
import GeosModel.Proofs.Kernel.Basic
import Mathlib.Tactic.Ring
import Mathlib.Tactic.Linarith
/-!
# Lemmas about the model of `PolygonNodeTopology` (C05 core)

Strategy: every function is first rewritten into a normal form over the four coordinates of the two
direction vectors and the two products of the cross product; the sign of a product is tied to the signs
of its factors by `mulSign`, after which the facts are linear and `omega` decides them.
Transitivity needs the three-vector identity `(u × w) f(v) = (u × v) f(w) + (v × w) f(u)`.
-/
namespace GeosModel.Valid
open GeosModel.Kernel

/-- the sign of a product from the signs of the factors, in a form `omega` can use once `x * y` is an atom -/
theorem mulSign (x y : Int) :
    (0 < x → 0 < y → 0 < x * y) ∧ (0 < x → y < 0 → x * y < 0) ∧ (x < 0 → 0 < y → x * y < 0) ∧
    (x < 0 → y < 0 → 0 < x * y) ∧ (x = 0 → x * y = 0) ∧ (y = 0 → x * y = 0) := by
  refine ⟨fun a b => Int.mul_pos a b, fun a b => Int.mul_neg_of_pos_of_neg a b,
    fun a b => Int.mul_neg_of_neg_of_pos a b, fun a b => Int.mul_pos_of_neg_of_neg a b, ?_, ?_⟩
  · intro h; simp [h]
  · intro h; simp [h]

/-! ### normal forms -/

theorem orient_beq_one (a b c : Pt) : (orient a b c == 1) = decide (0 < det a b c) := by
  have := @orient_eq_one a b c
  by_cases h : 0 < det a b c <;> simp [h, this]

theorem orient_beq_neg_one (a b c : Pt) : (orient a b c == -1) = decide (det a b c < 0) := by
  have := @orient_eq_neg_one a b c
  by_cases h : det a b c < 0 <;> simp [h, this]

theorem compareAngle_nf (o p q : Pt) :
    compareAngle o p q =
      if quadrant o p > quadrant o q then 1 else if quadrant o p < quadrant o q then -1
      else if 0 < det o q p then 1 else if det o q p < 0 then -1 else 0 := by
  unfold compareAngle
  simp only [orient_beq_one, orient_beq_neg_one, decide_eq_true_eq]

theorem isAngleGreater_nf (o p q : Pt) :
    isAngleGreater o p q =
      if quadrant o p > quadrant o q then true else if quadrant o p < quadrant o q then false
      else decide (0 < det o q p) := by
  unfold isAngleGreater
  simp only [orient_beq_one]

/-- `isAngleGreater` is `compareAngle = 1` (the C++ has two copies of the same logic) -/
theorem isAngleGreater_iff (o p q : Pt) : isAngleGreater o p q = true ↔ compareAngle o p q = 1 := by
  rw [isAngleGreater_nf, compareAngle_nf]
  split_ifs <;> simp_all

theorem compareAngle_range (o p q : Pt) : compareAngle o p q = -1 ∨ compareAngle o p q = 0 ∨ compareAngle o p q = 1 := by
  rw [compareAngle_nf]; split_ifs <;> simp

/-- antisymmetry: swapping the arguments negates the result -/
theorem compareAngle_antisymm (o p q : Pt) : compareAngle o q p = - compareAngle o p q := by
  rw [compareAngle_nf, compareAngle_nf, det_swap23 o p q]
  split_ifs <;> omega

theorem compareAngle_self (o p : Pt) : compareAngle o p p = 0 := by
  have := compareAngle_antisymm o p p; omega

/-! ### agreement with the half-plane specification -/

theorem upper_iff (o p : Pt) : upper o p = true ↔ (p.y - o.y > 0 ∨ (p.y - o.y = 0 ∧ p.x - o.x > 0)) := by
  unfold upper; simp only [Bool.or_eq_true, Bool.and_eq_true, decide_eq_true_eq]; omega

theorem ne_iff_vec (o p : Pt) : p ≠ o ↔ (p.x - o.x ≠ 0 ∨ p.y - o.y ≠ 0) := by
  rw [Ne, Pt.ext_iff']; omega

theorem angLt_iff (o p q : Pt) : angLt o p q = true ↔
    ((upper o p = true ∧ upper o q = false) ∨ (upper o p = upper o q ∧ det o p q > 0)) := by
  unfold angLt; simp

theorem quadrantD_cases (dx dy : Int) :
    (dx ≥ 0 ∧ dy ≥ 0 ∧ quadrantD dx dy = 0) ∨ (dx < 0 ∧ dy ≥ 0 ∧ quadrantD dx dy = 1) ∨
    (dx < 0 ∧ dy < 0 ∧ quadrantD dx dy = 2) ∨ (dx ≥ 0 ∧ dy < 0 ∧ quadrantD dx dy = 3) := by
  unfold quadrantD; split_ifs <;> omega

/-- the agreement on bare integer vectors -/
theorem cmp_core (px py qx qy : Int) (hp : px ≠ 0 ∨ py ≠ 0) (hq : qx ≠ 0 ∨ qy ≠ 0) :
    (if quadrantD px py > quadrantD qx qy then (1 : Int) else if quadrantD px py < quadrantD qx qy then -1
      else if 0 < qx * py - qy * px then 1 else if qx * py - qy * px < 0 then -1 else 0) = -1 ↔
    (((py > 0 ∨ (py = 0 ∧ px > 0)) ∧ ¬ (qy > 0 ∨ (qy = 0 ∧ qx > 0))) ∨
     (((py > 0 ∨ (py = 0 ∧ px > 0)) ↔ (qy > 0 ∨ (qy = 0 ∧ qx > 0))) ∧ px * qy - py * qx > 0)) := by
  have s1 := mulSign qx py
  have s2 := mulSign qy px
  have e1 : py * qx = qx * py := by ring
  have e2 : px * qy = qy * px := by ring
  rw [e1, e2]
  generalize qx * py = A at *
  generalize qy * px = B at *
  rcases quadrantD_cases px py with ⟨h1, h2, h3⟩ | ⟨h1, h2, h3⟩ | ⟨h1, h2, h3⟩ | ⟨h1, h2, h3⟩ <;>
  rcases quadrantD_cases qx qy with ⟨k1, k2, k3⟩ | ⟨k1, k2, k3⟩ | ⟨k1, k2, k3⟩ | ⟨k1, k2, k3⟩ <;>
  rw [h3, k3] <;> constructor <;> intro h <;> split_ifs at h ⊢ <;> omega

/-- **agreement**: for non-zero directions, `compareAngle o p q = -1` exactly when `o → p` comes strictly before
`o → q` in the half-plane/cross-product specification of the counter-clockwise order -/
theorem compareAngle_lt_iff (o p q : Pt) (hp : p ≠ o) (hq : q ≠ o) :
    compareAngle o p q = -1 ↔ angLt o p q = true := by
  rw [compareAngle_nf, angLt_iff]
  rw [ne_iff_vec] at hp hq
  have h := cmp_core (p.x - o.x) (p.y - o.y) (q.x - o.x) (q.y - o.y) hp hq
  have hu1 := upper_iff o p
  have hu2 := upper_iff o q
  have hd1 : det o q p = (q.x - o.x) * (p.y - o.y) - (q.y - o.y) * (p.x - o.x) := rfl
  have hd2 : det o p q = (p.x - o.x) * (q.y - o.y) - (p.y - o.y) * (q.x - o.x) := rfl
  simp only [quadrant, hd1, hd2]
  rw [h, ← hu1, ← hu2]
  cases upper o p <;> cases upper o q <;> simp

/-! ### the quadrant cones -/

/-- a linear functional that is positive on every non-zero vector of the (half-open) quadrant of `(dx, dy)` -/
def qf (k : Nat) (dx dy : Int) : Int :=
  if k = 0 then dx + dy else if k = 1 then -dx + dy else if k = 2 then -dx - dy else dx - dy

theorem qf_pos (dx dy : Int) (h : dx ≠ 0 ∨ dy ≠ 0) : 0 < qf (quadrantD dx dy) dx dy := by
  rcases quadrantD_cases dx dy with ⟨h1, h2, h3⟩ | ⟨h1, h2, h3⟩ | ⟨h1, h2, h3⟩ | ⟨h1, h2, h3⟩ <;>
    rw [h3] <;> simp [qf] <;> omega

/-- the three-vector identity, for any linear functional `a x + b y` -/
theorem cross3 (a b ux uy vx vy wx wy : Int) :
    (a * vx + b * vy) * (ux * wy - uy * wx) =
      (ux * vy - uy * vx) * (a * wx + b * wy) + (vx * wy - vy * wx) * (a * ux + b * uy) := by ring

theorem qf_lin (k : Nat) : ∃ a b : Int, ∀ x y, qf k x y = a * x + b * y := by
  unfold qf
  by_cases h0 : k = 0
  · exact ⟨1, 1, fun x y => by simp [h0]⟩
  by_cases h1 : k = 1
  · exact ⟨-1, 1, fun x y => by simp [h1]⟩
  by_cases h2 : k = 2
  · exact ⟨-1, -1, fun x y => by simp [h2]; ring⟩
  · exact ⟨1, -1, fun x y => by simp [h0, h1, h2]; ring⟩

/-- inside one quadrant cone "counter-clockwise of" is transitive -/
theorem cone_trans (k : Nat) (ux uy vx vy wx wy : Int)
    (fu : 0 < qf k ux uy) (fv : 0 < qf k vx vy) (fw : 0 < qf k wx wy)
    (h1 : 0 < ux * vy - uy * vx) (h2 : 0 < vx * wy - vy * wx) : 0 < ux * wy - uy * wx := by
  obtain ⟨a, b, hl⟩ := qf_lin k
  rw [hl] at fu fv fw
  have id := cross3 a b ux uy vx vy wx wy
  have t2 := Int.mul_pos h1 fw
  have t3 := Int.mul_pos h2 fu
  nlinarith

/-- inside one quadrant cone "same direction" is transitive -/
theorem cone_eq_trans (k : Nat) (ux uy vx vy wx wy : Int)
    (fv : 0 < qf k vx vy)
    (h1 : ux * vy - uy * vx = 0) (h2 : vx * wy - vy * wx = 0) : ux * wy - uy * wx = 0 := by
  obtain ⟨a, b, hl⟩ := qf_lin k
  rw [hl] at fv
  have id := cross3 a b ux uy vx vy wx wy
  rw [h1, h2] at id
  simp only [Int.zero_mul, Int.add_zero] at id
  rcases Int.mul_eq_zero.mp id with h | h
  · omega
  · exact h

/-! ### transitivity of `compareAngle` -/

theorem compareAngle_eq_neg_one (o p q : Pt) :
    compareAngle o p q = -1 ↔ (quadrant o p < quadrant o q ∨ (quadrant o p = quadrant o q ∧ det o q p < 0)) := by
  rw [compareAngle_nf]; split_ifs <;> constructor <;> intro h <;> omega

theorem compareAngle_eq_zero (o p q : Pt) :
    compareAngle o p q = 0 ↔ (quadrant o p = quadrant o q ∧ det o q p = 0) := by
  rw [compareAngle_nf]; split_ifs <;> constructor <;> intro h <;> omega

theorem det_vec (o p q : Pt) : det o p q = (p.x - o.x) * (q.y - o.y) - (p.y - o.y) * (q.x - o.x) := rfl

/-- transitivity of the strict order -/
theorem compareAngle_trans (o p q r : Pt) (hp : p ≠ o) (hq : q ≠ o) (hr : r ≠ o)
    (h1 : compareAngle o p q = -1) (h2 : compareAngle o q r = -1) : compareAngle o p r = -1 := by
  rw [compareAngle_eq_neg_one] at *
  rcases h1 with h1 | ⟨e1, d1⟩ <;> rcases h2 with h2 | ⟨e2, d2⟩
  · left; omega
  · left; omega
  · left; omega
  · right
    refine ⟨by omega, ?_⟩
    rw [ne_iff_vec] at hp hq hr
    have fp := qf_pos _ _ hp
    have fq := qf_pos _ _ hq
    have fr := qf_pos _ _ hr
    unfold quadrant at e1 e2
    rw [← e1] at fr; rw [e1] at fr
    have fp' : 0 < qf (quadrantD (q.x - o.x) (q.y - o.y)) (p.x - o.x) (p.y - o.y) := by rw [← e1]; exact fp
    have fr' : 0 < qf (quadrantD (q.x - o.x) (q.y - o.y)) (r.x - o.x) (r.y - o.y) := by rw [e2]; exact fr
    rw [det_vec] at d1 d2 ⊢
    have := cone_trans _ (p.x - o.x) (p.y - o.y) (q.x - o.x) (q.y - o.y) (r.x - o.x) (r.y - o.y) fp' fq fr'
      (by linarith) (by linarith)
    linarith

/-- transitivity of "incomparable" (`compareAngle = 0`): together with `compareAngle_trans`, `compareAngle_antisymm`
and `compareAngle_range` this makes `compareAngle o · · = -1` a strict weak order on the directions from `o` -/
theorem compareAngle_eq_trans (o p q r : Pt) (hq : q ≠ o)
    (h1 : compareAngle o p q = 0) (h2 : compareAngle o q r = 0) : compareAngle o p r = 0 := by
  rw [compareAngle_eq_zero] at *
  obtain ⟨e1, d1⟩ := h1
  obtain ⟨e2, d2⟩ := h2
  refine ⟨by omega, ?_⟩
  rw [ne_iff_vec] at hq
  have fq := qf_pos _ _ hq
  rw [det_vec] at d1 d2 ⊢
  have := cone_eq_trans _ (p.x - o.x) (p.y - o.y) (q.x - o.x) (q.y - o.y) (r.x - o.x) (r.y - o.y) fq
    (by linarith) (by linarith)
  linarith

end GeosModel.Valid
