import GeosModel.Model.Valid.SimplePair
import GeosModel.Proofs.Kernel.Basic
/-!
# The per-pair decision of `IsSimpleOp` is the reference's simplicity rule (C05)
-/
namespace GeosModel.Valid
open GeosModel.Kernel

theorem onSegment_left (a b : Pt) : onSegment a b a = true := by
  simp [onSegment, det, inBox]

theorem onSegment_right (a b : Pt) : onSegment a b b = true := by
  simp [onSegment, det, inBox]
  try ring

/-- coherence of two distinct segments of a set of lines, as produced by `lineSegs` of de-duplicated lines -/
structure LPairWF (s t : LSeg) : Prop where
  sne : s.p ≠ s.q
  tne : t.p ≠ t.q
  sk : s.k < s.n
  tk : t.k < t.n
  sameN : s.lid = t.lid → s.n = t.n
  distinct : s.lid = t.lid → s.k ≠ t.k
  next : s.lid = t.lid → t.k = s.k + 1 → t.p = s.q
  prev : s.lid = t.lid → s.k = t.k + 1 → s.p = t.q

theorem mem_meet_sq (s t : LSeg) (h : onSegment t.p t.q s.q = true) : s.q ∈ s.meet t := by
  unfold LSeg.meet
  rw [List.mem_eraseDups]
  apply List.mem_append_right
  simp [List.filter_cons, h]
  split <;> simp

theorem mem_meet_sp (s t : LSeg) (h : onSegment t.p t.q s.p = true) : s.p ∈ s.meet t := by
  unfold LSeg.meet
  rw [List.mem_eraseDups]
  apply List.mem_append_right
  simp [List.filter_cons, h]

theorem simplePair_meet (s t : LSeg) : simplePair s t =
    match segRel s.p s.q t.p t.q with
    | .disjoint => true
    | .point true => false
    | .overlap => false
    | .point false =>
      match s.meet t with
      | [x] =>
        match s.vertexAt x, t.vertexAt x with
        | some u, some v =>
          if s.lid == t.lid then
            u == v || (u == 0 && v == s.n) || (v == 0 && u == s.n)
          else
            (u == 0 || u == s.n) && (v == 0 || v == t.n) && !s.closed && !t.closed
        | _, _ => false
      | _ => false := rfl

theorem findIntersection_eq_not_simplePair (s t : LSeg) (h : LPairWF s t) :
    findIntersection true s t = !simplePair s t := by
  rw [simplePair_meet]
  unfold findIntersection
  cases hrel : segRel s.p s.q t.p t.q with
  | disjoint => rfl
  | overlap => rfl
  | point proper =>
    cases proper with
    | true => rfl
    | false =>
      match hm : s.meet t with
      | [] => simp
      | _ :: _ :: _ => simp
      | [x] =>
        have hN : s.lid = t.lid → t.k = s.k + 1 → x = s.q := by
          intro hl hk
          have hp := h.next hl hk
          have : s.q ∈ s.meet t := mem_meet_sq s t (by rw [hp]; exact onSegment_left _ _)
          rw [hm] at this; exact (List.mem_singleton.mp this).symm
        have hP : s.lid = t.lid → s.k = t.k + 1 → x = s.p := by
          intro hl hk
          have hp := h.prev hl hk
          have : s.p ∈ s.meet t := mem_meet_sp s t (by rw [hp]; exact onSegment_right _ _)
          rw [hm] at this; exact (List.mem_singleton.mp this).symm
        have hN' : s.lid = t.lid → t.k = s.k + 1 → (x == s.q) = true := fun a b => (Pt.beq_iff _ _).mpr (hN a b)
        have hP' : s.lid = t.lid → s.k = t.k + 1 → (x == s.p) = true := fun a b => (Pt.beq_iff _ _).mpr (hP a b)
        have hN'' : s.lid = t.lid → t.k = s.k + 1 → (x == t.p) = true := fun a b => (Pt.beq_iff _ _).mpr ((hN a b).trans (h.next a b).symm)
        have hP'' : s.lid = t.lid → s.k = t.k + 1 → (x == t.q) = true := fun a b => (Pt.beq_iff _ _).mpr ((hP a b).trans (h.prev a b))
        clear hN hP
        have hs := h.sne; have ht := h.tne; have hsk := h.sk; have htk := h.tk
        have hsn := h.sameN; have hd := h.distinct; have hn := h.next; have hpv := h.prev
        simp only [isInteriorIntersection, LSeg.vertexAt, isIntersectionEndpoint, intersectionVertexIndex]
        have hx12 : ¬ ((x == s.p) = true ∧ (x == s.q) = true) := fun ⟨a, b⟩ => hs (((Pt.beq_iff _ _).mp a).symm.trans ((Pt.beq_iff _ _).mp b))
        have hx34 : ¬ ((x == t.p) = true ∧ (x == t.q) = true) := fun ⟨a, b⟩ => ht (((Pt.beq_iff _ _).mp a).symm.trans ((Pt.beq_iff _ _).mp b))
        have b1 := Pt.beq_iff x s.p; have b2 := Pt.beq_iff x s.q; have b3 := Pt.beq_iff x t.p; have b4 := Pt.beq_iff x t.q
        by_cases e1 : (x == s.p) = true <;> by_cases e2 : (x == s.q) = true <;> by_cases e3 : (x == t.p) = true <;> by_cases e4 : (x == t.q) = true <;>
          simp only [e1, e2, e3, e4, Bool.not_eq_true] at * <;> simp
        all_goals try (simp at hx12; done)
        all_goals try (simp at hx34; done)
        all_goals
          by_cases hl : s.lid = t.lid
          · have k1 := hsn hl; have k2 := hd hl; have k3 := hN' hl; have k4 := hP' hl; have k5 := hN'' hl; have k6 := hP'' hl
            simp only [Bool.false_eq_true, imp_false, implies_true] at k3 k4 k5 k6
            simp only [hl, decide_true, Bool.not_true, Bool.false_or, Bool.false_and, Bool.or_false, if_true]
            apply Bool.eq_iff_iff.mpr
            simp
            split <;> omega
          · simp only [hl, decide_false, Bool.not_false, Bool.true_or, Bool.true_and, if_false]
            cases s.closed <;> cases t.closed <;> simp <;> (try (apply Bool.eq_iff_iff.mpr; simp)) <;> omega


/-- over any set of segments whose pairs are coherent, the reference's "all pairs may meet the way they do" is "the C++ decision finds
no intersection in any pair" -/
theorem all_simplePair_iff (segs : List LSeg) (hw : ∀ st ∈ pairsOf segs, LPairWF st.1 st.2) :
    ((pairsOf segs).all fun st => simplePair st.1 st.2) = (pairsOf segs).all fun st => !findIntersection true st.1 st.2 := by
  generalize pairsOf segs = l at hw
  induction l with
  | nil => rfl
  | cons st r ih =>
    simp only [List.all_cons]
    rw [findIntersection_eq_not_simplePair _ _ (hw st (by simp)), ih (fun x hx => hw x (by simp [hx]))]
    simp

end GeosModel.Valid
