import GeosModel.Model.Valid.Ref
import GeosModel.Proofs.Kernel.Basic
import GeosModel.Proofs.Valid.NodeTopo
/-!
# Invariance lemmas for the reference validity evaluator (C05 SPEC, partial)

Translation invariance of everything the intersection rule (`pairRule`, `areaIntersections`) is made of:
`segRel`, the angular specification (`upper`, `angLt`, `cyc`, `crossAt`), `meetPts`, `RSeg.pass`, `dedup`;
symmetries of `crossAt`; and the definition of the equivalence used by the (unproved) full statement.
-/
namespace GeosModel.Valid
open GeosModel.Kernel GeosModel.Relate

/-! ### translation is injective -/

theorem shift_inj (t a b : Pt) : t.shift a = t.shift b ↔ a = b := by
  rw [Pt.ext_iff', Pt.ext_iff']; simp only [Pt.shift]; omega

theorem shift_beq (t a b : Pt) : (t.shift a == t.shift b) = (a == b) := by
  by_cases h : a = b
  · subst h; simp
  · have h' : ¬ t.shift a = t.shift b := fun e => h ((shift_inj t a b).mp e)
    simp [h, h']

theorem shift_bne (t a b : Pt) : (t.shift a != t.shift b) = (a != b) := by
  simp only [bne, shift_beq]

/-! ### the angular specification -/

theorem upper_shift (t o p : Pt) : upper (t.shift o) (t.shift p) = upper o p := by
  apply Bool.eq_iff_iff.mpr
  rw [upper_iff, upper_iff]; simp only [Pt.shift]; omega

theorem angLt_shift (t o p q : Pt) : angLt (t.shift o) (t.shift p) (t.shift q) = angLt o p q := by
  unfold angLt; rw [upper_shift, upper_shift, det_shift]

theorem cyc_shift (t o u d v : Pt) : cyc (t.shift o) (t.shift u) (t.shift d) (t.shift v) = cyc o u d v := by
  unfold cyc; simp only [angLt_shift]

theorem crossAt_shift (t o a0 a1 b0 b1 : Pt) :
    crossAt (t.shift o) (t.shift a0) (t.shift a1) (t.shift b0) (t.shift b1) = crossAt o a0 a1 b0 b1 := by
  unfold crossAt; simp only [cyc_shift]

theorem crossAt_swap_a (o a0 a1 b0 b1 : Pt) : crossAt o a1 a0 b0 b1 = crossAt o a0 a1 b0 b1 := by
  unfold crossAt; exact Bool.or_comm _ _

theorem crossAt_swap_b (o a0 a1 b0 b1 : Pt) : crossAt o a0 a1 b1 b0 = crossAt o a0 a1 b0 b1 := by
  unfold crossAt
  rw [Bool.or_comm, Bool.and_comm (cyc o a1 b1 a0), Bool.and_comm (cyc o a0 b1 a1)]

/-! ### lists -/

theorem dedup_shift (t : Pt) : ∀ l : List Pt, dedup (l.map t.shift) = (dedup l).map t.shift
  | [] => rfl
  | [a] => rfl
  | a :: b :: r => by
    have ih := dedup_shift t (b :: r)
    simp only [List.map_cons] at ih ⊢
    unfold dedup
    rw [shift_beq]
    split
    · exact ih
    · simp only [List.map_cons, ih]

theorem filter_shift (t : Pt) (f g : Pt → Bool) (h : ∀ x, f (t.shift x) = g x) :
    ∀ l : List Pt, (l.map t.shift).filter f = (l.filter g).map t.shift
  | [] => rfl
  | a :: r => by
    simp only [List.map_cons, List.filter_cons, h a]
    split <;> simp [filter_shift t f g h r]

theorem eraseDups_shift (t : Pt) : ∀ (n : Nat) (l : List Pt), l.length ≤ n →
    (l.map t.shift).eraseDups = l.eraseDups.map t.shift
  | _, [], _ => by simp
  | 0, _ :: _, h => by simp at h
  | n + 1, a :: r, h => by
    rw [List.map_cons, List.eraseDups_cons, List.eraseDups_cons, List.map_cons]
    congr 1
    have hf : (r.map t.shift).filter (fun b => !b == t.shift a) = (r.filter fun b => !b == a).map t.shift :=
      filter_shift t _ _ (fun x => by simp only [shift_beq]) r
    rw [hf]
    apply eraseDups_shift t n
    have := List.length_filter_le (fun b => !b == a) r
    simp only [List.length_cons] at h; omega

/-! ### segments -/

/-- translate a ring segment -/
def RSeg.shift (t : Pt) (s : RSeg) : RSeg := { s with prev := t.shift s.prev, p := t.shift s.p, q := t.shift s.q }

theorem segCands_shift (t p1 p2 q1 q2 : Pt) :
    segCands (t.shift p1) (t.shift p2) (t.shift q1) (t.shift q2) = (segCands p1 p2 q1 q2).map t.shift := by
  unfold segCands
  have h1 := filter_shift t (onSegment (t.shift p1) (t.shift p2)) (onSegment p1 p2) (fun x => onSegment_shift t p1 p2 x) [q1, q2]
  have h2 := filter_shift t (onSegment (t.shift q1) (t.shift q2)) (onSegment q1 q2) (fun x => onSegment_shift t q1 q2 x) [p1, p2]
  simp only [List.map_cons, List.map_nil] at h1 h2
  rw [h1, h2, List.map_append]

theorem segRel_shift (t p1 p2 q1 q2 : Pt) :
    segRel (t.shift p1) (t.shift p2) (t.shift q1) (t.shift q2) = segRel p1 p2 q1 q2 := by
  rw [segRel_eq, segRel_eq, segCands_shift]
  simp only [orient_shift, onSegment_shift]
  have hnil : (segCands p1 p2 q1 q2).map t.shift = [] ↔ segCands p1 p2 q1 q2 = [] := by simp
  have h2 : (∃ a ∈ (segCands p1 p2 q1 q2).map t.shift, ∃ b ∈ (segCands p1 p2 q1 q2).map t.shift, a ≠ b) ↔
      (∃ a ∈ segCands p1 p2 q1 q2, ∃ b ∈ segCands p1 p2 q1 q2, a ≠ b) := by
    constructor
    · rintro ⟨a, ha, b, hb, hab⟩
      obtain ⟨a', ha', rfl⟩ := List.mem_map.mp ha
      obtain ⟨b', hb', rfl⟩ := List.mem_map.mp hb
      exact ⟨a', ha', b', hb', fun e => hab (by rw [e])⟩
    · rintro ⟨a, ha, b, hb, hab⟩
      exact ⟨t.shift a, List.mem_map_of_mem ha, t.shift b, List.mem_map_of_mem hb, fun e => hab ((shift_inj t a b).mp e)⟩
  simp only [hnil, h2]

theorem meetPts_shift (t : Pt) (s u : RSeg) : meetPts (RSeg.shift t s) (RSeg.shift t u) = (meetPts s u).map t.shift := by
  unfold meetPts RSeg.shift
  have h := segCands_shift t s.p s.q u.p u.q
  unfold segCands at h
  simp only []
  rw [h]
  exact eraseDups_shift t _ _ (Nat.le_refl _)

theorem pass_shift (t : Pt) (s : RSeg) (x : Pt) :
    (RSeg.shift t s).pass (t.shift x) = (s.pass x).map fun c => (t.shift c.1, t.shift c.2) := by
  unfold RSeg.pass RSeg.shift
  simp only [shift_beq]
  split
  · rfl
  · split <;> rfl

/-- the code part of the intersection rule for a pair of segments is translation invariant -/
theorem pairRule_shift_code (flag : Bool) (t : Pt) (s u : RSeg) :
    (pairRule flag (RSeg.shift t s) (RSeg.shift t u)).map (·.1) = (pairRule flag s u).map (·.1) := by
  unfold pairRule
  have hr : segRel (RSeg.shift t s).p (RSeg.shift t s).q (RSeg.shift t u).p (RSeg.shift t u).q = segRel s.p s.q u.p u.q :=
    segRel_shift t s.p s.q u.p u.q
  rw [hr, meetPts_shift]
  have hid : (RSeg.shift t s).rid = s.rid ∧ (RSeg.shift t u).rid = u.rid ∧ (RSeg.shift t s).m = s.m ∧
      (RSeg.shift t s).k = s.k ∧ (RSeg.shift t u).k = u.k := ⟨rfl, rfl, rfl, rfl, rfl⟩
  rcases hrel : segRel s.p s.q u.p u.q with _ | proper | _
  · rfl
  · cases proper
    · simp only [hid.1, hid.2.1, hid.2.2.1, hid.2.2.2.1, hid.2.2.2.2]
      split
      · rfl
      · split
        · rfl
        · rcases hm : meetPts s u with _ | ⟨x, _ | ⟨y, r⟩⟩
          · rfl
          · simp only [List.map_cons, List.map_nil, pass_shift]
            rcases s.pass x with _ | ⟨a0, a1⟩
            · rfl
            · rcases u.pass x with _ | ⟨b0, b1⟩
              · rfl
              · simp only [Option.map_some, crossAt_shift]
                split <;> rfl
          · rfl
    · rfl
  · rfl

theorem pairsOf_map {α β} (f : α → β) : ∀ l : List α, pairsOf (l.map f) = (pairsOf l).map fun p => (f p.1, f p.2)
  | [] => rfl
  | a :: r => by
    simp only [List.map_cons, pairsOf, List.map_append, List.map_map, pairsOf_map f r]
    rfl

theorem filterMap_codes_shift (flag : Bool) (t : Pt) : ∀ l : List (RSeg × RSeg),
    ((l.map fun p => (RSeg.shift t p.1, RSeg.shift t p.2)).filterMap fun (s, u) => pairRule flag s u).map (·.1) =
    (l.filterMap fun (s, u) => pairRule flag s u).map (·.1)
  | [] => rfl
  | (s, u) :: r => by
    have ih := filterMap_codes_shift flag t r
    have hc := pairRule_shift_code flag t s u
    simp only [List.map_cons, List.filterMap_cons]
    rcases h1 : pairRule flag (RSeg.shift t s) (RSeg.shift t u) with _ | v1 <;>
      rcases h2 : pairRule flag s u with _ | v2 <;> rw [h1, h2] at hc <;> simp at hc
    · exact ih
    · simp only [List.map_cons, ih, hc]

/-- the admissible codes of the whole intersection stage are translation invariant -/
theorem areaIntersections_shift_codes (flag : Bool) (t : Pt) (segs : List RSeg) :
    (areaIntersections flag (segs.map (RSeg.shift t))).map (·.codes) = (areaIntersections flag segs).map (·.codes) := by
  unfold areaIntersections
  rw [pairsOf_map]
  have h := filterMap_codes_shift flag t (pairsOf segs)
  generalize hb1 : ((pairsOf segs).map fun p => (RSeg.shift t p.1, RSeg.shift t p.2)).filterMap (fun (s, u) => pairRule flag s u) = bad1 at h
  generalize hb2 : (pairsOf segs).filterMap (fun (s, u) => pairRule flag s u) = bad2 at h
  have he : bad1.isEmpty = bad2.isEmpty := by
    have := congrArg List.length h
    simp only [List.length_map] at this
    cases bad1 <;> cases bad2 <;> simp_all
  simp only [he]
  split
  · rfl
  · simp only [Option.map_some, h]

/-! ### the equivalence of the full (unproved) invariance statement -/

/-- the eight lattice symmetries -/
def latticeSym (k : Nat) (p : Pt) : Pt :=
  match k % 8 with
  | 0 => p | 1 => ⟨-p.y, p.x⟩ | 2 => ⟨-p.x, -p.y⟩ | 3 => ⟨p.y, -p.x⟩
  | 4 => ⟨-p.x, p.y⟩ | 5 => ⟨p.x, -p.y⟩ | 6 => ⟨p.y, p.x⟩ | _ => ⟨-p.y, -p.x⟩

/-- same closed ring up to the choice of start vertex and direction -/
inductive RingEquiv : List Pt → List Pt → Prop
  | refl (r) : RingEquiv r r
  | rot (r) : RingEquiv r (rotate1 r)
  | rev (r) : RingEquiv r r.reverse
  | trans {a b c} : RingEquiv a b → RingEquiv b c → RingEquiv a c

def SeqEquiv (f : Pt → Pt) (isRing : Bool) (a b : VSeq) : Prop :=
  a.bad = none ∧ b.bad = none ∧ if isRing then RingEquiv (a.pts.map f) b.pts else (a.pts.map f = b.pts ∨ (a.pts.map f).reverse = b.pts)

/-- same polygon up to ring start / direction and the order of the holes -/
def PolyEquiv (f : Pt → Pt) (a b : List VSeq) : Prop :=
  match a, b with
  | sa :: ha, sb :: hb => SeqEquiv f true sa sb ∧ ∃ hb', hb.Perm hb' ∧ List.Forall₂ (SeqEquiv f true) ha hb'
  | [], [] => True
  | _, _ => False

/-- `g'` is `g` mapped by a lattice symmetry and a translation, with rings rotated / reversed, lines reversed, and
holes / elements permuted (collections: elements in any order, recursively) -/
inductive SameUpToSymmetryBy (f : Pt → Pt) : VG → VG → Prop
  | point (a b) : SeqEquiv f false a b → SameUpToSymmetryBy f (.point a) (.point b)
  | line (a b) : SeqEquiv f false a b → SameUpToSymmetryBy f (.line a) (.line b)
  | ring (a b) : SeqEquiv f true a b → SameUpToSymmetryBy f (.ring a) (.ring b)
  | polygon (a b) : PolyEquiv f a b → SameUpToSymmetryBy f (.polygon a) (.polygon b)
  | multiPoint (a b b') : b.Perm b' → List.Forall₂ (SeqEquiv f false) a b' → SameUpToSymmetryBy f (.multiPoint a) (.multiPoint b)
  | multiLine (a b b') : b.Perm b' → List.Forall₂ (SeqEquiv f false) a b' → SameUpToSymmetryBy f (.multiLine a) (.multiLine b)
  | multiPolygon (a b b') : b.Perm b' → List.Forall₂ (PolyEquiv f) a b' → SameUpToSymmetryBy f (.multiPolygon a) (.multiPolygon b)
  | collection (a b b') : b.Perm b' → List.Forall₂ (SameUpToSymmetryBy f) a b' → SameUpToSymmetryBy f (.collection a) (.collection b)

def SameUpToSymmetry (g g' : VG) : Prop :=
  ∃ (k : Nat) (t : Pt), SameUpToSymmetryBy (fun p => t.shift (latticeSym k p)) g g'

end GeosModel.Valid
