import GeosModel.Model.Valid.SelfNode
import GeosModel.Proofs.Valid.ProcessAll
import GeosModel.Proofs.Valid.RingNested
/-!
# The self-touch bookkeeping of the self-touching-ring mode (C05)

About `Model/Valid/SelfNode.lean`: every self-touch that `findInvalidIntersection` reaches is recorded (nothing is dropped, in
presentation order); a recorded self-touch is an allowed pair of one ring in flag mode; `findInteriorSelfNode` answers
"some" exactly when SOME recorded entry is not exterior, so the answer (as a boolean) does not depend on the order in which
the noder presented the pairs, nor on how often a pair was presented.
-/
namespace GeosModel.Valid
open GeosModel.Kernel

/-- what one presented pair contributes to the ring's self-node list -/
def recorded (flag : Bool) (p : RSeg × RSeg) : Option SelfNode :=
  if p.1.rid == p.2.rid && p.1.k == p.2.k then none else selfTouchOf flag p.1 p.2

theorem processSelf_code (flag : Bool) (st : SelfState) (s t : RSeg) :
    (processSelf flag st s t).code = processIntersections flag st.code s t := by
  unfold processSelf processIntersections
  split <;> rfl

theorem processSelf_selfNodes (flag : Bool) (st : SelfState) (s t : RSeg) :
    (processSelf flag st s t).selfNodes = st.selfNodes ++ (recorded flag (s, t)).toList := by
  unfold processSelf recorded
  by_cases h : (s.rid == t.rid && s.k == t.k) = true
  · simp [h]
  · simp only [h]
    cases selfTouchOf flag s t <;> simp

theorem foldl_processSelf (flag : Bool) (pairs : List (RSeg × RSeg)) (st : SelfState) :
    (pairs.foldl (fun st p => processSelf flag st p.1 p.2) st).code =
        pairs.foldl (fun code p => processIntersections flag code p.1 p.2) st.code ∧
    (pairs.foldl (fun st p => processSelf flag st p.1 p.2) st).selfNodes = st.selfNodes ++ pairs.filterMap (recorded flag) := by
  induction pairs generalizing st with
  | nil => simp
  | cons a rest ih =>
    simp only [List.foldl_cons]
    obtain ⟨h1, h2⟩ := ih (processSelf flag st a.1 a.2)
    refine ⟨by rw [h1, processSelf_code], ?_⟩
    rw [h2, processSelf_selfNodes, List.filterMap_cons]
    cases recorded flag (a.1, a.2) <;> simp_all

/-- the recorded code of the analyzer with bookkeeping is the recorded code of `processAll` -/
theorem processAllSelf_code (flag : Bool) (pairs : List (RSeg × RSeg)) :
    (processAllSelf flag pairs).code = processAll flag pairs :=
  (foldl_processSelf flag pairs {}).1

/-- **nothing is dropped**: the ring's list holds one entry for every presented pair that reaches `addSelfTouch`, in order -/
theorem processAllSelf_selfNodes (flag : Bool) (pairs : List (RSeg × RSeg)) :
    (processAllSelf flag pairs).selfNodes = pairs.filterMap (recorded flag) := by
  have := (foldl_processSelf flag pairs {}).2
  simpa [processAllSelf] using this

/-- a self-touch is recorded only for an allowed pair of segments of one ring string, and only in flag mode -/
theorem selfTouchOf_some (flag : Bool) (s t : RSeg) (n : SelfNode) (h : selfTouchOf flag s t = some n) :
    flag = true ∧ (s.rid == t.rid) = true ∧ findInvalidIntersection flag s t = none ∧
      isCrossing n.nodePt n.e00 n.e01 n.e10 n.e11 = false := by
  unfold selfTouchOf at h
  unfold findInvalidIntersection
  cases hr : segRel s.p s.q t.p t.q with
  | disjoint => simp [hr] at h
  | overlap => simp [hr] at h
  | point b =>
    cases b with
    | true => simp [hr] at h
    | false =>
      simp only [hr] at h ⊢
      by_cases h1 : ((s.rid == t.rid) && isAdjacentInRing s.m s.k t.k) = true
      · simp [h1] at h
      · simp only [h1] at h ⊢
        by_cases h2 : ((s.rid == t.rid) && !flag) = true
        · simp [h2] at h
        · simp only [h2] at h ⊢
          cases hm : meetPts s t with
          | nil => simp [hm] at h
          | cons x rest =>
            cases rest with
            | cons y r2 => simp [hm] at h
            | nil =>
              simp only [hm] at h ⊢
              by_cases h3 : (x == s.q || x == t.q) = true
              · simp [h3] at h
              · simp only [h3] at h ⊢
                by_cases h4 : isCrossing x (if x == s.p then s.prev else s.p) s.q (if x == t.p then t.prev else t.p) t.q = true
                · rw [if_pos h4] at h; cases h
                · simp only [h4] at h ⊢
                  by_cases h5 : ((s.rid == t.rid) && flag) = true
                  · simp only [h5, if_true, Option.some.injEq, Bool.false_eq_true, if_false] at h
                    subst h
                    simp only [Bool.and_eq_true] at h5
                    exact ⟨h5.2, h5.1, by simp, by simpa using h4⟩
                  · simp [h5] at h

theorem findInteriorSelfNode_isSome_iff (r : RingState) :
    r.findInteriorSelfNode.isSome = true ↔ ∃ n ∈ r.selfNodes, n.isExterior r.isInteriorOnRight = false := by
  unfold RingState.findInteriorSelfNode
  by_cases he : r.selfNodes.isEmpty = true
  · rw [List.isEmpty_iff] at he
    simp [he]
  · simp only [he, Bool.false_eq_true, if_false, Option.isSome_map, List.find?_isSome]
    constructor
    · rintro ⟨n, hm, hn⟩; exact ⟨n, hm, by simpa using hn⟩
    · rintro ⟨n, hm, hn⟩; exact ⟨n, hm, by simpa using hn⟩

/-- a reported node is the node of a recorded entry that is not exterior -/
theorem findInteriorSelfNode_some (r : RingState) (p : Pt) (h : r.findInteriorSelfNode = some p) :
    ∃ n ∈ r.selfNodes, n.isExterior r.isInteriorOnRight = false ∧ n.nodePt = p := by
  unfold RingState.findInteriorSelfNode at h
  by_cases he : r.selfNodes.isEmpty = true
  · simp [he] at h
  · simp only [he, Bool.false_eq_true, if_false, Option.map_eq_some_iff] at h
    obtain ⟨n, hf, hp⟩ := h
    exact ⟨n, List.mem_of_find?_eq_some hf, by simpa using List.find?_some hf, hp⟩

/-- **order and multiplicity of the recorded entries do not matter** for whether an interior self node is found -/
theorem findInteriorSelfNode_isSome_congr (r r' : RingState) (hs : r.isShell = r'.isShell) (hp : r.pts = r'.pts)
    (hm : ∀ n, n ∈ r.selfNodes ↔ n ∈ r'.selfNodes) :
    r.findInteriorSelfNode.isSome = r'.findInteriorSelfNode.isSome := by
  have hi : r.isInteriorOnRight = r'.isInteriorOnRight := by unfold RingState.isInteriorOnRight; rw [hs, hp]
  rw [Bool.eq_iff_iff, findInteriorSelfNode_isSome_iff, findInteriorSelfNode_isSome_iff, hi]
  constructor
  · rintro ⟨n, h1, h2⟩; exact ⟨n, (hm n).mp h1, h2⟩
  · rintro ⟨n, h1, h2⟩; exact ⟨n, (hm n).mpr h1, h2⟩

/-- the verdict of the self-touch check for one ring, from the presented pairs: an interior self node is found exactly when
SOME presented pair records a self-touch that is not exterior -/
theorem selfTouchVerdict_node_isSome_iff (isShell : Bool) (ring : List Pt) (pairs : List (RSeg × RSeg)) :
    (selfTouchVerdict isShell ring pairs).2.isSome = true ↔
      ∃ p ∈ pairs, ∃ n, recorded true p = some n ∧ n.isExterior (isShell != isCCWArea ring) = false := by
  unfold selfTouchVerdict
  simp only
  rw [findInteriorSelfNode_isSome_iff]
  simp only [processAllSelf_selfNodes, List.mem_filterMap, RingState.isInteriorOnRight]
  constructor
  · rintro ⟨n, ⟨p, hp, hr⟩, hn⟩; exact ⟨p, hp, n, hr, hn⟩
  · rintro ⟨p, hp, n, hr, hn⟩; exact ⟨n, ⟨p, hp, hr⟩, hn⟩

/-- presenting the pairs in another order, or some of them again, does not change whether an interior self node is found -/
theorem selfTouchVerdict_node_order_irrelevant (isShell : Bool) (ring : List Pt) (pairs pairs' : List (RSeg × RSeg))
    (h : ∀ p, p ∈ pairs ↔ p ∈ pairs') :
    (selfTouchVerdict isShell ring pairs).2.isSome = (selfTouchVerdict isShell ring pairs').2.isSome := by
  rw [Bool.eq_iff_iff, selfTouchVerdict_node_isSome_iff, selfTouchVerdict_node_isSome_iff]
  constructor
  · rintro ⟨p, hp, r⟩; exact ⟨p, (h p).mp hp, r⟩
  · rintro ⟨p, hp, r⟩; exact ⟨p, (h p).mpr hp, r⟩

/-- "either of the other edges could be used to test" (comment in `PolygonRingSelfNode::isExterior`): for a recorded entry —
the passes do not cross — whose second pass is off the arms of a proper first corner, testing `e11` instead of `e10`
gives the same answer -/
theorem isExterior_other_edge (n : SelfNode) (r : Bool)
    (h0 : n.e00 ≠ n.nodePt) (h1 : n.e01 ≠ n.nodePt) (hb0 : n.e10 ≠ n.nodePt) (hb1 : n.e11 ≠ n.nodePt)
    (hx : compareAngle n.nodePt n.e00 n.e01 ≠ 0)
    (hp0 : compareAngle n.nodePt n.e10 n.e00 ≠ 0) (hp1 : compareAngle n.nodePt n.e10 n.e01 ≠ 0)
    (hq0 : compareAngle n.nodePt n.e11 n.e00 ≠ 0) (hq1 : compareAngle n.nodePt n.e11 n.e01 ≠ 0)
    (hc : isCrossing n.nodePt n.e00 n.e01 n.e10 n.e11 = false) :
    ({ n with e10 := n.e11 } : SelfNode).isExterior r = n.isExterior r := by
  have := isCrossing_eq_sides n.nodePt n.e00 n.e01 n.e10 n.e11 h0 h1 hb0 hb1 hx hp0 hp1 hq0 hq1
  rw [hc] at this
  unfold SelfNode.isExterior
  simp only
  have he : isInteriorSegment n.nodePt n.e00 n.e01 n.e10 = isInteriorSegment n.nodePt n.e00 n.e01 n.e11 := by
    revert this
    cases isInteriorSegment n.nodePt n.e00 n.e01 n.e10 <;> cases isInteriorSegment n.nodePt n.e00 n.e01 n.e11 <;> simp
  rw [he]

/-- traversing the ring the other way — the arms of the first pass exchange and the interior changes side — gives the same
answer, for a second pass off the arms of a proper first corner -/
theorem isExterior_reverse (n : SelfNode) (r : Bool)
    (h0 : n.e00 ≠ n.nodePt) (h1 : n.e01 ≠ n.nodePt) (hb : n.e10 ≠ n.nodePt)
    (hx : compareAngle n.nodePt n.e00 n.e01 ≠ 0)
    (hp0 : compareAngle n.nodePt n.e10 n.e00 ≠ 0) (hp1 : compareAngle n.nodePt n.e10 n.e01 ≠ 0) :
    ({ n with e00 := n.e01, e01 := n.e00 } : SelfNode).isExterior (!r) = n.isExterior r := by
  unfold SelfNode.isExterior
  simp only
  rw [isInteriorSegment_swap_arms n.nodePt n.e00 n.e01 n.e10 h0 h1 hb hx hp0 hp1]
  cases r <;> cases isInteriorSegment n.nodePt n.e00 n.e01 n.e10 <;> rfl

end GeosModel.Valid
