import GeosModel.Model.Valid.PairRule
import GeosModel.Proofs.Valid.NodeTopo
/-!
# The per-pair decision of `IsValidOp` is the reference's intersection rule (C05)

`findInvalidIntersection` (the model of the C++, which decides crossing at a node with the quadrant code `isCrossing`)
returns exactly the code of `pairRule` (the reference evaluator's rule, which uses the wedge specification `crossAt`),
for every pair of segments of rings without repeated points.
-/
namespace GeosModel.Valid
open GeosModel.Kernel

theorem isAdjacentInRing_eq (m i0 i1 : Nat) : isAdjacentInRing m i0 i1 = adjacentIdx m i0 i1 := by
  unfold isAdjacentInRing adjacentIdx
  apply Bool.eq_iff_iff.mpr
  simp only [ge_iff_le, Bool.or_eq_true, decide_eq_true_eq]
  split_ifs <;> simp <;> omega

theorem beq_false_ne {a b : Pt} (h : (a == b) = false) : a ≠ b := by
  intro e; subst e; simp at h

theorem findInvalidIntersection_eq_pairRule (flag : Bool) (s t : RSeg)
    (hs1 : s.prev ≠ s.p) (hs2 : s.p ≠ s.q) (ht1 : t.prev ≠ t.p) (ht2 : t.p ≠ t.q) :
    findInvalidIntersection flag s t = (pairRule flag s t).map (·.1) := by
  unfold findInvalidIntersection pairRule
  cases hrel : segRel s.p s.q t.p t.q with
  | disjoint => rfl
  | overlap => rfl
  | point proper =>
    cases proper with
    | true => rfl
    | false =>
      simp only [isAdjacentInRing_eq]
      by_cases hadj : (s.rid == t.rid && adjacentIdx s.m s.k t.k) = true
      · simp [hadj]
      · have hadj' : (s.rid == t.rid && adjacentIdx s.m s.k t.k) = false := by simpa using hadj
        simp only [hadj', Bool.false_eq_true, if_false]
        by_cases hsame : (s.rid == t.rid && !flag) = true
        · simp [hsame]
        · have hsame' : (s.rid == t.rid && !flag) = false := by simpa using hsame
          simp only [hsame', Bool.false_eq_true, if_false]
          match hm : meetPts s t with
          | [] => simp
          | _ :: _ :: _ => simp
          | [x] =>
            simp only [RSeg.pass]
            cases e1 : x == s.p <;> cases e2 : x == s.q <;> cases e3 : x == t.p <;> cases e4 : x == t.q <;>
              simp only [Bool.or_true, Bool.or_false, Bool.false_eq_true, if_true, if_false, Option.map_none,
                Bool.or_self] <;>
              first
                | rfl
                | (exfalso
                   first
                     | exact hs2 ((Pt.beq_iff x s.p).mp e1 ▸ (Pt.beq_iff x s.q).mp e2 ▸ rfl)
                     | exact ht2 ((Pt.beq_iff x t.p).mp e3 ▸ (Pt.beq_iff x t.q).mp e4 ▸ rfl))
                | skip
            all_goals
              first
                | (rw [isCrossing_eq_crossAt] <;> first
                    | (split <;> rfl)
                    | skip)
            all_goals
              intro h
              have k1 := Pt.beq_iff x s.p
              have k3 := Pt.beq_iff x t.p
              simp_all
