import GeosModel.Model.Valid.NestedTester
import GeosModel.Proofs.Kernel.IndexedLocateCorrect
/-!
# `IndexedNestedPolygonTester`: every hole and every candidate is looked at (C05)

About `Model/Valid/NestedTester.lean`.  When no `isRingNested` call throws:
* the loop over the holes is `any` over the holes (`holesLoop_eq_any`), so `findIncidentSegmentNestedPoint` and
  `findNestedPoint` do not depend on the order of the holes (`findNestedPoint_holes_perm`; the point locations do not either,
  by C07's `visit_perm`);
* `isNested` answers "nested" exactly when SOME ordered pair of different elements is a hit (`isNested_isSome_iff`), so the
  boolean does not depend on the order of the elements (`isNested_perm`) nor on the order in which the spatial index hands
  over the candidates.
-/
namespace GeosModel.Valid
open GeosModel.Kernel GeosModel.RayCount

/-! ### holes -/

/-- no `isRingNested(shell, hole)` call that the loop can reach throws -/
def HolesNoThrow (shell : List Pt) (holes : List (List Pt)) : Prop :=
  ∀ h ∈ holes, envCovers h shell = true → (isRingNested shell h).isSome = true

/-- the shell lies in this hole, as far as the loop is concerned -/
def inHole (shell hole : List Pt) : Bool := envCovers hole shell && (isRingNested shell hole == some true)

theorem holesLoop_eq_any (shell : List Pt) (holes : List (List Pt)) (hn : HolesNoThrow shell holes) :
    holesLoop shell holes = some (holes.any (inHole shell)) := by
  induction holes with
  | nil => rfl
  | cons h hs ih =>
    have ih' := ih (fun x hx => hn x (List.mem_cons_of_mem _ hx))
    unfold holesLoop
    by_cases he : envCovers h shell = true
    · have := hn h (List.mem_cons_self) he
      simp only [he, if_true, List.any_cons, inHole, Bool.true_and]
      cases hr : isRingNested shell h with
      | none => rw [hr] at this; cases this
      | some b => cases b <;> simp [ih', inHole]
    · simp only [he, Bool.false_eq_true, if_false, List.any_cons, inHole, Bool.false_and, Bool.false_or]
      simpa [inHole] using ih'

theorem HolesNoThrow.perm {shell : List Pt} {holes holes' : List (List Pt)} (hp : holes.Perm holes')
    (hn : HolesNoThrow shell holes) : HolesNoThrow shell holes' :=
  fun h hm => hn h (hp.mem_iff.mpr hm)

/-- **the order of the holes does not matter** for the loop over the holes -/
theorem holesLoop_perm (shell : List Pt) (holes holes' : List (List Pt)) (hp : holes.Perm holes')
    (hn : HolesNoThrow shell holes) : holesLoop shell holes = holesLoop shell holes' := by
  rw [holesLoop_eq_any shell holes hn, holesLoop_eq_any shell holes' (hn.perm hp), PolyLocate.perm_any _ hp]

theorem findIncident_holes_perm (shell polyShell : List Pt) (holes holes' : List (List Pt)) (hp : holes.Perm holes')
    (hn : HolesNoThrow shell holes) :
    findIncidentSegmentNestedPoint shell (polyShell :: holes) = findIncidentSegmentNestedPoint shell (polyShell :: holes') := by
  simp only [findIncidentSegmentNestedPoint, holesLoop_perm shell holes holes' hp hn]

/-- the specification of the incident-segment path: nested in the polygon's shell and in none of its holes -/
theorem findIncident_spec (shell polyShell : List Pt) (holes : List (List Pt)) (hne : polyShell.isEmpty = false) (b : Bool)
    (hs : isRingNested shell polyShell = some b) (hn : HolesNoThrow shell holes) :
    findIncidentSegmentNestedPoint shell (polyShell :: holes) =
      some (if b && !holes.any (inHole shell) then shell.head? else none) := by
  simp only [findIncidentSegmentNestedPoint, hne, Bool.false_eq_true, if_false, hs, holesLoop_eq_any shell holes hn]
  cases b <;> cases holes.any (inHole shell) <;> rfl

theorem locateIndexed_perm (p : Pt) {rings rings' : List (List Pt)} (hp : rings.Perm rings') :
    PolyLocate.locateIndexed p rings = PolyLocate.locateIndexed p rings' := by
  unfold PolyLocate.locateIndexed
  rw [PolyLocate.visit_filter, PolyLocate.visit_filter]
  unfold PolyLocate.allSegs
  rw [PolyLocate.visit_perm p (hp.flatMap_right _)]

/-- **`findNestedPoint` does not depend on the order of the candidate's holes** -/
theorem findNestedPoint_holes_perm (shell polyShell : List Pt) (holes holes' : List (List Pt)) (hp : holes.Perm holes')
    (hn : HolesNoThrow shell holes) :
    findNestedPoint shell (polyShell :: holes) = findNestedPoint shell (polyShell :: holes') := by
  unfold findNestedPoint
  cases shell with
  | nil => rfl
  | cons p0 r =>
    cases r with
    | nil => rfl
    | cons p1 r2 =>
      simp only
      rw [locateIndexed_perm p0 (hp.cons polyShell), locateIndexed_perm p1 (hp.cons polyShell),
        findIncident_holes_perm (p0 :: p1 :: r2) polyShell holes holes' hp hn]

/-! ### elements -/

/-- the pair (element `a`, candidate `b`) yields a nested point -/
def hitB (a b : Poly) : Bool :=
  match candidate a b with
  | some (some (some _)) => true
  | _ => false

/-- no `findNestedPoint` call between two elements of the list throws -/
def NoThrow (polys : List Poly) : Prop := ∀ a ∈ polys, ∀ b ∈ polys, candidate a b ≠ some none

theorem firstHit_noThrow (a : Poly) (cs : List Poly) (hn : ∀ b ∈ cs, candidate a b ≠ some none) :
    (∃ p, firstHit (cs.filterMap (candidate a)) = some (some p)) ∧ cs.any (hitB a) = true ∨
    firstHit (cs.filterMap (candidate a)) = some none ∧ cs.any (hitB a) = false := by
  induction cs with
  | nil => right; exact ⟨rfl, rfl⟩
  | cons b r ih =>
    have ih' := ih (fun x hx => hn x (List.mem_cons_of_mem _ hx))
    have hb := hn b List.mem_cons_self
    simp only [List.filterMap_cons, List.any_cons]
    cases hc : candidate a b with
    | none =>
      have : hitB a b = false := by simp [hitB, hc]
      simpa [this] using ih'
    | some v =>
      cases v with
      | none => exact absurd hc hb
      | some w =>
        cases w with
        | none =>
          have : hitB a b = false := by simp [hitB, hc]
          simpa [this, firstHit] using ih'
        | some p =>
          have : hitB a b = true := by simp [hitB, hc]
          left; exact ⟨⟨p, by simp [firstHit]⟩, by simp [this]⟩

/-- some element of `post`, taken at its position, has a hit among all the other elements of `pre ++ post` -/
def anyHit (pre : List Poly) : List Poly → Bool
  | [] => false
  | a :: post => (pre ++ post).any (hitB a) || anyHit (pre ++ [a]) post

theorem isNestedLoop_noThrow (pre post : List Poly) (hn : NoThrow (pre ++ post)) :
    (∃ p, isNestedLoop pre post = some (some p)) ∧ anyHit pre post = true ∨
    isNestedLoop pre post = some none ∧ anyHit pre post = false := by
  induction post generalizing pre with
  | nil => right; exact ⟨rfl, rfl⟩
  | cons a post ih =>
    have hmem : ∀ b ∈ pre ++ post, candidate a b ≠ some none := by
      intro b hb
      apply hn a (by simp) b
      simp only [List.mem_append, List.mem_cons] at hb ⊢
      rcases hb with h | h
      · exact Or.inl h
      · exact Or.inr (Or.inr h)
    have ih' := ih (pre ++ [a]) (by simpa using hn)
    unfold isNestedLoop anyHit
    rcases firstHit_noThrow a (pre ++ post) hmem with ⟨⟨p, hp⟩, ha⟩ | ⟨hp, ha⟩
    · left; rw [hp, ha]; exact ⟨⟨p, rfl⟩, rfl⟩
    · rw [hp, ha]; simpa using ih'

/-- `l` splits at an element `a` that has a hit among the other elements -/
def HasHit (l : List Poly) : Prop := ∃ l1 a l2, l = l1 ++ a :: l2 ∧ (l1 ++ l2).any (hitB a) = true

theorem anyHit_iff (pre post : List Poly) :
    anyHit pre post = true ↔ ∃ l1 a l2, post = l1 ++ a :: l2 ∧ (pre ++ l1 ++ l2).any (hitB a) = true := by
  induction post generalizing pre with
  | nil => simp [anyHit]
  | cons x post ih =>
    unfold anyHit
    rw [Bool.or_eq_true, ih]
    constructor
    · rintro (h | ⟨l1, a, l2, he, ha⟩)
      · exact ⟨[], x, post, rfl, by simpa using h⟩
      · exact ⟨x :: l1, a, l2, by rw [he]; rfl, by simpa using ha⟩
    · rintro ⟨l1, a, l2, he, ha⟩
      cases l1 with
      | nil =>
        simp only [List.nil_append, List.cons.injEq] at he
        left; rw [he.1, he.2]; simpa using ha
      | cons y l1' =>
        simp only [List.cons_append, List.cons.injEq] at he
        right; exact ⟨l1', a, l2, he.2, by rw [he.1]; simpa using ha⟩

/-- **`isNested` says "nested" exactly when some element has a hit among the other elements** -/
theorem isNested_isSome_iff (polys : List Poly) (hn : NoThrow polys) :
    (∃ p, isNested polys = some (some p)) ↔ HasHit polys := by
  have h := isNestedLoop_noThrow [] polys (by simpa using hn)
  have hi := anyHit_iff [] polys
  simp only [List.nil_append] at hi
  unfold isNested HasHit
  rcases h with ⟨hp, ha⟩ | ⟨hp, ha⟩
  · exact ⟨fun _ => hi.mp ha, fun _ => hp⟩
  · constructor
    · rintro ⟨p, h2⟩; rw [hp] at h2; cases h2
    · intro h2; rw [hi.mpr h2] at ha; cases ha

/-- when nothing throws, the other answer is "not nested" -/
theorem isNested_none_iff (polys : List Poly) (hn : NoThrow polys) : isNested polys = some none ↔ ¬ HasHit polys := by
  have h := isNestedLoop_noThrow [] polys (by simpa using hn)
  rw [← isNested_isSome_iff polys hn]
  unfold isNested
  rcases h with ⟨⟨p, hp⟩, _⟩ | ⟨hp, _⟩
  · rw [hp]; constructor
    · intro h; cases h
    · intro h; exact absurd ⟨p, rfl⟩ h
  · rw [hp]; constructor
    · rintro _ ⟨p, h2⟩; cases h2
    · intro _; rfl

theorem HasHit.perm {l l' : List Poly} (hp : l.Perm l') (h : HasHit l) : HasHit l' := by
  obtain ⟨l1, a, l2, he, ha⟩ := h
  have hm : a ∈ l' := hp.mem_iff.mp (by rw [he]; simp)
  obtain ⟨m1, m2, hm'⟩ := List.append_of_mem hm
  refine ⟨m1, a, m2, hm', ?_⟩
  have h1 : (a :: (l1 ++ l2)).Perm (a :: (m1 ++ m2)) := by
    calc (a :: (l1 ++ l2)).Perm (l1 ++ a :: l2) := List.perm_middle.symm
      _ |>.Perm l := by rw [he]
      _ |>.Perm l' := hp
      _ |>.Perm (m1 ++ a :: m2) := by rw [hm']
      _ |>.Perm (a :: (m1 ++ m2)) := List.perm_middle
  rw [← PolyLocate.perm_any _ (List.Perm.cons_inv h1)]
  exact ha

theorem NoThrow.perm {l l' : List Poly} (hp : l.Perm l') (hn : NoThrow l) : NoThrow l' :=
  fun a ha b hb => hn a (hp.mem_iff.mpr ha) b (hp.mem_iff.mpr hb)

/-- **the order of the elements does not matter** for whether `isNested` reports nested shells -/
theorem isNested_perm (polys polys' : List Poly) (hp : polys.Perm polys') (hn : NoThrow polys) :
    (∃ p, isNested polys = some (some p)) ↔ (∃ p, isNested polys' = some (some p)) := by
  rw [isNested_isSome_iff polys hn, isNested_isSome_iff polys' (hn.perm hp)]
  exact ⟨fun h => h.perm hp, fun h => h.perm hp.symm⟩

end GeosModel.Valid
