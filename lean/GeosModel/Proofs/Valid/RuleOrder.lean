import GeosModel.Model.Valid.RuleOrder
import GeosModel.Model.Valid.Ref
/-!
# `firstErr`: algebra, the loop lemma for regenerated `for` loops of checks, and `Valid.firstOf`
-/
namespace GeosModel.Valid

theorem firstErr_append {E : Type} (a b : List (Unit → Option E)) :
    firstErr (a ++ b) = match firstErr a with | some e => some e | none => firstErr b := by
  induction a with
  | nil => rfl
  | cons r rs ih =>
    simp only [List.cons_append, firstErr]
    cases r () <;> simp [ih]

theorem firstErr_append_none {E : Type} (a b : List (Unit → Option E)) (h : firstErr a = none) : firstErr (a ++ b) = firstErr b := by
  rw [firstErr_append, h]

theorem firstErr_append_some {E : Type} (a b : List (Unit → Option E)) (e : E) (h : firstErr a = some e) : firstErr (a ++ b) = some e := by
  rw [firstErr_append, h]

theorem flatMap_single {ι E : Type} (f : ι → Unit → Option E) (l : List ι) : l.flatMap (fun i => [f i]) = l.map f := by
  induction l <;> simp_all

/-- the reference evaluator's sequencing is `firstErr` -/
theorem firstOf_eq_firstErr (rs : List (Unit → Option Verdict)) : firstOf rs = (firstErr rs).getD Verdict.ok := by
  induction rs with
  | nil => rfl
  | cons r rs ih =>
    simp only [firstOf, firstErr]
    cases r () <;> simp [ih]

/-- **loop of checks**: a regenerated `for` loop whose body, started with no early-return value and a clean error state, either
ends the function with the first error of the checks `chk i` or continues with a clean error state, is `firstErr` of all the checks -/
theorem forIn_checks {ι R E : Type} (chk : ι → List (Unit → Option E)) (mkRet : E → R)
    (F : ι → Option R × Option E → Id (ForInStep (Option R × Option E)))
    (hF : ∀ i, F i (none, none) = match firstErr (chk i) with
      | some e => pure (ForInStep.done (some (mkRet e), some e))
      | none => pure (ForInStep.yield (none, none)))
    (l : List ι) :
    (forIn l (none, none) F : Id (Option R × Option E)) = match firstErr (l.flatMap chk) with
      | some e => pure (some (mkRet e), some e)
      | none => pure (none, none) := by
  induction l with
  | nil => rfl
  | cons x xs ih =>
    simp only [List.forIn_cons, List.flatMap_cons, hF x, firstErr_append]
    cases firstErr (chk x) with
    | some e => rfl
    | none => exact ih

end GeosModel.Valid

namespace GeosModel.Valid

theorem pointRef_order (s : VSeq) (h : s.pts.isEmpty = false) :
    pointRef s = (firstErr (pointOrder (coordRule [s]))).getD Verdict.ok := by
  simp [pointRef, h, firstOf_eq_firstErr, pointOrder]

theorem lineRef_order (s : VSeq) (h : s.pts.isEmpty = false) :
    lineRef s = (firstErr (lineOrder (fun _ => coordRule [s]) (fun _ => sizeRule 2 [s]))).getD Verdict.ok := by
  simp [lineRef, h, firstOf_eq_firstErr, lineOrder]

theorem ringRef_order (s : VSeq) (h : s.pts.isEmpty = false) :
    ringRef s = (firstErr (ringOrder (fun _ => coordRule [s]) (fun _ => closedRule [s]) (fun _ => sizeRule 4 [s])
      (fun _ => ringSimpleRule s))).getD Verdict.ok := by
  simp [ringRef, h, firstOf_eq_firstErr, ringOrder]

theorem polygonRef_order (flag : Bool) (shell : VSeq) (holes : List VSeq) (h : shell.pts.isEmpty = false) :
    polygonalRef flag [shell :: holes] =
      (firstErr (polygonOrder (fun _ => coordRule (shell :: holes)) (fun _ => closedRule (shell :: holes)) (fun _ => sizeRule 4 (shell :: holes))
        (fun _ => areaIntersections flag (polySegs [(shell :: holes).map fun s => dedup s.pts]))
        (fun _ => holesInShell [(shell :: holes).map fun s => dedup s.pts])
        (fun _ => holesNotNested [(shell :: holes).map fun s => dedup s.pts])
        (fun _ => interiorConnected [(shell :: holes).map fun s => dedup s.pts]))).getD Verdict.ok := by
  simp only [polygonalRef, List.filter_cons, h, Bool.not_false, if_true, List.filter_nil, List.isEmpty_cons, Bool.false_eq_true, if_false,
    firstOf_eq_firstErr, polygonOrder, List.flatMap_cons, List.flatMap_nil, List.append_nil, List.cons_append, List.nil_append,
    List.map_cons, List.map_nil, List.length_cons, List.length_nil]
  simp only [firstErr]
  repeat' split
  all_goals first | rfl | (simp_all; done)

end GeosModel.Valid
