import GeosModel.Proofs.Valid.PairRule
/-!
# The analyzer's recorded code over a sequence of presented pairs (C05)

`Valid.processIntersections` / `processAll` (Model/Valid/PairRule.lean) model `PolygonIntersectionAnalyzer::processIntersections`
called by the noder for a sequence of segment pairs.  After any sequence the recorded code is "none" exactly when every
presented pair (other than a segment with itself) is allowed; a recorded code is the code of some presented pair; and over
all pairs of distinct segments of rings without repeated points this is the reference's rule 5/6 (`areaIntersections`).
-/
namespace GeosModel.Valid
open GeosModel.Kernel

/-- the pair is a segment with itself, or it is allowed -/
def pairOk (flag : Bool) (st : RSeg × RSeg) : Prop :=
  (st.1.rid == st.2.rid && st.1.k == st.2.k) = true ∨ findInvalidIntersection flag st.1 st.2 = none

theorem processIntersections_none_iff (flag : Bool) (c : Option Nat) (s t : RSeg) :
    processIntersections flag c s t = none ↔ c = none ∧ pairOk flag (s, t) := by
  unfold processIntersections pairOk
  by_cases h : (s.rid == t.rid && s.k == t.k) = true
  · simp [h]
  · cases hf : findInvalidIntersection flag s t <;> simp [h]

theorem foldl_process_none_iff (flag : Bool) (pairs : List (RSeg × RSeg)) (c0 : Option Nat) :
    pairs.foldl (fun code st => processIntersections flag code st.1 st.2) c0 = none ↔
      c0 = none ∧ ∀ st ∈ pairs, pairOk flag st := by
  induction pairs generalizing c0 with
  | nil => simp
  | cons a rest ih =>
    simp only [List.foldl_cons, ih, processIntersections_none_iff, List.mem_cons, forall_eq_or_imp]
    constructor
    · rintro ⟨⟨h0, ha⟩, hr⟩; exact ⟨h0, ha, hr⟩
    · rintro ⟨h0, ha, hr⟩; exact ⟨⟨h0, ha⟩, hr⟩

theorem processAll_none_iff (flag : Bool) (pairs : List (RSeg × RSeg)) :
    processAll flag pairs = none ↔ ∀ st ∈ pairs, pairOk flag st := by
  unfold processAll
  rw [foldl_process_none_iff]
  simp

theorem foldl_process_some (flag : Bool) (pairs : List (RSeg × RSeg)) (c0 : Option Nat) (c : Nat)
    (h : pairs.foldl (fun code st => processIntersections flag code st.1 st.2) c0 = some c) :
    c0 = some c ∨ ∃ st ∈ pairs, (st.1.rid == st.2.rid && st.1.k == st.2.k) = false ∧ findInvalidIntersection flag st.1 st.2 = some c := by
  induction pairs generalizing c0 with
  | nil => left; simpa using h
  | cons a rest ih =>
    simp only [List.foldl_cons] at h
    rcases ih _ h with h1 | ⟨st, hm, hst⟩
    · unfold processIntersections at h1
      by_cases hs : (a.1.rid == a.2.rid && a.1.k == a.2.k) = true
      · simp only [hs, if_true] at h1; exact Or.inl h1
      · simp only [hs] at h1
        cases hf : findInvalidIntersection flag a.1 a.2 with
        | none => simp [hf] at h1; exact Or.inl h1
        | some d =>
          simp [hf] at h1
          right; refine ⟨a, by simp, ?_, ?_⟩
          · simpa using hs
          · rw [hf, h1]
    · right; exact ⟨st, by simp [hm], hst⟩

theorem processAll_some (flag : Bool) (pairs : List (RSeg × RSeg)) (c : Nat) (h : processAll flag pairs = some c) :
    ∃ st ∈ pairs, (st.1.rid == st.2.rid && st.1.k == st.2.k) = false ∧ findInvalidIntersection flag st.1 st.2 = some c := by
  rcases foldl_process_some flag pairs none c h with h | h
  · cases h
  · exact h

theorem areaIntersections_none_iff (flag : Bool) (segs : List RSeg) :
    areaIntersections flag segs = none ↔ ∀ st ∈ pairsOf segs, pairRule flag st.1 st.2 = none := by
  unfold areaIntersections
  simp only
  split
  · rename_i h
    simp only [true_iff]
    intro st hm
    rw [List.isEmpty_iff] at h
    have := List.filterMap_eq_nil_iff.mp h st hm
    simpa using this
  · rename_i h
    simp only [reduceCtorEq, false_iff]
    intro hall
    apply h
    rw [List.isEmpty_iff]
    apply List.filterMap_eq_nil_iff.mpr
    intro st hm
    simpa using hall st hm

/-- well-formed segment set: no pair of the enumeration is a segment with itself, no repeated points -/
def SegsWF (segs : List RSeg) : Prop :=
  ∀ st ∈ pairsOf segs, (st.1.rid == st.2.rid && st.1.k == st.2.k) = false ∧
    st.1.prev ≠ st.1.p ∧ st.1.p ≠ st.1.q ∧ st.2.prev ≠ st.2.p ∧ st.2.p ≠ st.2.q

theorem processAll_pairsOf_none_iff (flag : Bool) (segs : List RSeg) (hw : SegsWF segs) :
    processAll flag (pairsOf segs) = none ↔ areaIntersections flag segs = none := by
  rw [processAll_none_iff, areaIntersections_none_iff]
  constructor
  · intro h st hm
    obtain ⟨h1, a, b, c, d⟩ := hw st hm
    rcases h st hm with h2 | h2
    · rw [h1] at h2; cases h2
    · rw [findInvalidIntersection_eq_pairRule flag _ _ a b c d] at h2
      simpa using h2
  · intro h st hm
    obtain ⟨_, a, b, c, d⟩ := hw st hm
    right
    rw [findInvalidIntersection_eq_pairRule flag _ _ a b c d, h st hm]; rfl

theorem processAll_pairsOf_code_mem (flag : Bool) (segs : List RSeg) (hw : SegsWF segs) (c : Nat)
    (h : processAll flag (pairsOf segs) = some c) :
    ∃ v, areaIntersections flag segs = some v ∧ c ∈ v.codes := by
  obtain ⟨st, hm, _, hf⟩ := processAll_some flag _ c h
  obtain ⟨_, a, b, cc, d⟩ := hw st hm
  rw [findInvalidIntersection_eq_pairRule flag _ _ a b cc d] at hf
  unfold areaIntersections
  simp only
  cases hp : pairRule flag st.1 st.2 with
  | none => rw [hp] at hf; cases hf
  | some v =>
    rw [hp] at hf
    have hv : v.1 = c := by simpa using hf
    have hmem : v ∈ (pairsOf segs).filterMap fun (s, t) => pairRule flag s t :=
      List.mem_filterMap.mpr ⟨st, hm, hp⟩
    split
    · rename_i he
      rw [List.isEmpty_iff] at he
      rw [he] at hmem; cases hmem
    · refine ⟨_, rfl, ?_⟩
      simp only
      rw [List.mem_eraseDups]
      exact List.mem_map.mpr ⟨v, hmem, hv⟩

end GeosModel.Valid
