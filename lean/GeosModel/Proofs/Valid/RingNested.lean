import GeosModel.Model.Valid.RingNested
import GeosModel.Proofs.Valid.NodeTopo
import GeosModel.Proofs.Valid.RefInv
import GeosModel.Proofs.Kernel.RayCountCorrect
/-!
# Lemmas about the model of `PolygonTopologyAnalyzer::isRingNested` (C05 core, second part)

* the two sides of a corner are complementary (`isInteriorSegment` with the arms exchanged — what
  `isIncidentSegmentInRing` does for a counter-clockwise ring — is the negation, off the arms);
* `isCrossing` is "one edge of the other pass on each side of the corner";
* all three node functions depend on their points only through the rays from the node, and are translation invariant;
* `Orientation::isCCWArea` (the x-shifted shoelace loop of `Area::ofRingSigned`) is the sign of the specification area
  `Kernel.area2` on closed rings, and flips under ring reversal;
* off the target ring `isRingNested` is exactly the even–odd point-in-ring specification of the start vertex.
-/
namespace GeosModel.Valid
open GeosModel.Kernel GeosModel.RayCount

/-! ### the two sides of a corner -/

/-- finite heart: exchanging the arms of a proper corner negates `isInteriorSegment` for a direction off both arms -/
theorem interiorT_swap : S3.all (fun x => S3.all fun p0 => S3.all fun p1 =>
    !(compatB x p0 p1 && decide (x ≠ .zero) && decide (p0 ≠ .zero) && decide (p1 ≠ .zero)) ||
    (interiorT x.flip p1 p0 == !interiorT x p0 p1)) = true := by
  decide

theorem isInteriorSegment_swap_arms (n a0 a1 b : Pt) (h0 : a0 ≠ n) (h1 : a1 ≠ n) (hb : b ≠ n)
    (hx : compareAngle n a0 a1 ≠ 0) (hp0 : compareAngle n b a0 ≠ 0) (hp1 : compareAngle n b a1 ≠ 0) :
    isInteriorSegment n a1 a0 b = !isInteriorSegment n a0 a1 b := by
  rw [isInteriorSegment_eq_T n a1 a0 b, isInteriorSegment_eq_T n a0 a1 b,
    compareAngle_antisymm n a0 a1, ofInt_flip _ (compareAngle_range n a0 a1)]
  have k := compatB_actual n a0 a1 b h0 h1 hb
  have t := S3.all_spec (S3.all_spec (S3.all_spec interiorT_swap
    (S3.ofInt (compareAngle n a0 a1))) (S3.ofInt (compareAngle n b a0))) (S3.ofInt (compareAngle n b a1))
  have nz : ∀ c : Int, c ≠ 0 → S3.ofInt c ≠ .zero := by
    intro c hc; unfold S3.ofInt; split_ifs <;> simp_all
  simp only [k, nz _ hx, nz _ hp0, nz _ hp1, ne_eq, not_false_eq_true, decide_true, Bool.and_self, Bool.not_true,
    Bool.false_or, beq_iff_eq] at t
  exact t

/-- finite heart: a crossing is exactly "the two edges of the other pass lie on different sides of the corner" -/
theorem crossT_eq_sides : S3.all (fun x => S3.all fun p0 => S3.all fun p1 => S3.all fun q0 => S3.all fun q1 =>
    !(compatB x p0 p1 && compatB x q0 q1 && decide (x ≠ .zero) && decide (p0 ≠ .zero) && decide (p1 ≠ .zero) &&
      decide (q0 ≠ .zero) && decide (q1 ≠ .zero)) ||
    (crossT x p0 p1 q0 q1 == (interiorT x p0 p1 != interiorT x q0 q1))) = true := by
  decide

theorem isCrossing_eq_sides (n a0 a1 b0 b1 : Pt) (h0 : a0 ≠ n) (h1 : a1 ≠ n) (hb0 : b0 ≠ n) (hb1 : b1 ≠ n)
    (hx : compareAngle n a0 a1 ≠ 0) (hp0 : compareAngle n b0 a0 ≠ 0) (hp1 : compareAngle n b0 a1 ≠ 0)
    (hq0 : compareAngle n b1 a0 ≠ 0) (hq1 : compareAngle n b1 a1 ≠ 0) :
    isCrossing n a0 a1 b0 b1 = (isInteriorSegment n a0 a1 b0 != isInteriorSegment n a0 a1 b1) := by
  rw [isCrossing_eq_crossT, isInteriorSegment_eq_T n a0 a1 b0, isInteriorSegment_eq_T n a0 a1 b1]
  have k0 := compatB_actual n a0 a1 b0 h0 h1 hb0
  have k1 := compatB_actual n a0 a1 b1 h0 h1 hb1
  have t := S3.all_spec (S3.all_spec (S3.all_spec (S3.all_spec (S3.all_spec crossT_eq_sides
    (S3.ofInt (compareAngle n a0 a1))) (S3.ofInt (compareAngle n b0 a0))) (S3.ofInt (compareAngle n b0 a1)))
    (S3.ofInt (compareAngle n b1 a0))) (S3.ofInt (compareAngle n b1 a1))
  have nz : ∀ c : Int, c ≠ 0 → S3.ofInt c ≠ .zero := by
    intro c hc; unfold S3.ofInt; split_ifs <;> simp_all
  simp only [k0, k1, nz _ hx, nz _ hp0, nz _ hp1, nz _ hq0, nz _ hq1, ne_eq, not_false_eq_true, decide_true,
    Bool.and_self, Bool.not_true, Bool.false_or, beq_iff_eq] at t
  exact t

/-! ### only the rays matter -/

/-- two points on one ray from `o` compare alike with every third direction -/
theorem compareAngle_congr_left (o p p' q : Pt) (hp : p ≠ o) (hp' : p' ≠ o) (hq : q ≠ o)
    (h : compareAngle o p p' = 0) : compareAngle o p' q = compareAngle o p q := by
  have c1 := compareAngle_compat o p' p q hp' hp hq
  have c2 := compareAngle_compat o p p' q hp hp' hq
  have a := compareAngle_antisymm o p p'
  have r1 := compareAngle_range o p q
  have r2 := compareAngle_range o p' q
  omega

theorem compareAngle_congr_right (o p q q' : Pt) (hp : p ≠ o) (hq : q ≠ o) (hq' : q' ≠ o)
    (h : compareAngle o q q' = 0) : compareAngle o p q' = compareAngle o p q := by
  have := compareAngle_congr_left o q q' p hq hq' hp h
  have a1 := compareAngle_antisymm o q' p
  have a2 := compareAngle_antisymm o q p
  omega

/-- `isInteriorSegment` depends on `a0`, `a1`, `b` only through their rays from the node: any other points on the same
rays (another vertex further along the edge, a repeated-point skip, a scaled copy) give the same answer -/
theorem isInteriorSegment_rays (n a0 a1 b a0' a1' b' : Pt) (h0 : a0 ≠ n) (h1 : a1 ≠ n) (hb : b ≠ n)
    (h0' : a0' ≠ n) (h1' : a1' ≠ n) (hb' : b' ≠ n)
    (e0 : compareAngle n a0 a0' = 0) (e1 : compareAngle n a1 a1' = 0) (eb : compareAngle n b b' = 0) :
    isInteriorSegment n a0' a1' b' = isInteriorSegment n a0 a1 b := by
  rw [isInteriorSegment_eq_T n a0' a1' b', isInteriorSegment_eq_T n a0 a1 b]
  have x1 : compareAngle n a0' a1' = compareAngle n a0 a1 := by
    rw [compareAngle_congr_left n a0 a0' a1' h0 h0' h1' e0, compareAngle_congr_right n a0 a1 a1' h0 h1 h1' e1]
  have x2 : compareAngle n b' a0' = compareAngle n b a0 := by
    rw [compareAngle_congr_left n b b' a0' hb hb' h0' eb, compareAngle_congr_right n b a0 a0' hb h0 h0' e0]
  have x3 : compareAngle n b' a1' = compareAngle n b a1 := by
    rw [compareAngle_congr_left n b b' a1' hb hb' h1' eb, compareAngle_congr_right n b a1 a1' hb h1 h1' e1]
  rw [x1, x2, x3]

/-- the same for `isCrossing` -/
theorem isCrossing_rays (n a0 a1 b0 b1 a0' a1' b0' b1' : Pt) (h0 : a0 ≠ n) (h1 : a1 ≠ n) (hb0 : b0 ≠ n) (hb1 : b1 ≠ n)
    (h0' : a0' ≠ n) (h1' : a1' ≠ n) (hb0' : b0' ≠ n) (hb1' : b1' ≠ n)
    (e0 : compareAngle n a0 a0' = 0) (e1 : compareAngle n a1 a1' = 0)
    (f0 : compareAngle n b0 b0' = 0) (f1 : compareAngle n b1 b1' = 0) :
    isCrossing n a0' a1' b0' b1' = isCrossing n a0 a1 b0 b1 := by
  rw [isCrossing_eq_crossT n a0' a1' b0' b1', isCrossing_eq_crossT n a0 a1 b0 b1]
  have x1 : compareAngle n a0' a1' = compareAngle n a0 a1 := by
    rw [compareAngle_congr_left n a0 a0' a1' h0 h0' h1' e0, compareAngle_congr_right n a0 a1 a1' h0 h1 h1' e1]
  have x2 : compareAngle n b0' a0' = compareAngle n b0 a0 := by
    rw [compareAngle_congr_left n b0 b0' a0' hb0 hb0' h0' f0, compareAngle_congr_right n b0 a0 a0' hb0 h0 h0' e0]
  have x3 : compareAngle n b0' a1' = compareAngle n b0 a1 := by
    rw [compareAngle_congr_left n b0 b0' a1' hb0 hb0' h1' f0, compareAngle_congr_right n b0 a1 a1' hb0 h1 h1' e1]
  have x4 : compareAngle n b1' a0' = compareAngle n b1 a0 := by
    rw [compareAngle_congr_left n b1 b1' a0' hb1 hb1' h0' f1, compareAngle_congr_right n b1 a0 a0' hb1 h0 h0' e0]
  have x5 : compareAngle n b1' a1' = compareAngle n b1 a1 := by
    rw [compareAngle_congr_left n b1 b1' a1' hb1 hb1' h1' f1, compareAngle_congr_right n b1 a1 a1' hb1 h1 h1' e1]
  rw [x1, x2, x3, x4, x5]

/-! ### translation invariance of the C++ functions -/

theorem quadrant_shift (t o p : Pt) : quadrant (t.shift o) (t.shift p) = quadrant o p := by
  unfold quadrant Pt.shift
  have e1 : p.x + t.x - (o.x + t.x) = p.x - o.x := by omega
  have e2 : p.y + t.y - (o.y + t.y) = p.y - o.y := by omega
  simp only [e1, e2]

theorem compareAngle_shift (t o p q : Pt) : compareAngle (t.shift o) (t.shift p) (t.shift q) = compareAngle o p q := by
  rw [compareAngle_nf, compareAngle_nf, quadrant_shift, quadrant_shift, det_shift]

theorem isAngleGreater_shift (t o p q : Pt) : isAngleGreater (t.shift o) (t.shift p) (t.shift q) = isAngleGreater o p q := by
  rw [isAngleGreater_eq, isAngleGreater_eq, compareAngle_shift]

theorem isCrossing_shift (t n a0 a1 b0 b1 : Pt) :
    isCrossing (t.shift n) (t.shift a0) (t.shift a1) (t.shift b0) (t.shift b1) = isCrossing n a0 a1 b0 b1 := by
  rw [isCrossing_eq_crossT, isCrossing_eq_crossT]; simp only [compareAngle_shift]

theorem isInteriorSegment_shift (t n a0 a1 b : Pt) :
    isInteriorSegment (t.shift n) (t.shift a0) (t.shift a1) (t.shift b) = isInteriorSegment n a0 a1 b := by
  rw [isInteriorSegment_eq_T, isInteriorSegment_eq_T]; simp only [compareAngle_shift]

/-! ### `isCCWArea` is the sign of the shoelace area -/

/-- the shoelace term of one edge with x shifted by `x0` -/
def edgeTermX (x0 : Int) (e : Pt × Pt) : Int := (e.1.x - x0) * e.2.y - (e.2.x - x0) * e.1.y

/-- `(x_last − x0) · y_secondlast` -/
def tailT (x0 : Int) : List Pt → Int
  | [a, b] => (b.x - x0) * a.y
  | _ :: b :: c :: r => tailT x0 (b :: c :: r)
  | _ => 0

theorem shoelace_two_forms (x0 : Int) : ∀ (a b : Pt) (r : List Pt),
    ((edges (a :: b :: r)).map (edgeTermX x0)).sum + signedAux x0 (a :: b :: r) = (a.x - x0) * b.y - tailT x0 (a :: b :: r)
  | a, b, [] => by simp [edges, signedAux, tailT, edgeTermX]
  | a, b, c :: r => by
    have ih := shoelace_two_forms x0 b c r
    simp only [edges, signedAux, tailT, List.map_cons, List.sum_cons, edgeTermX] at ih ⊢
    linarith

theorem tailT_closed (x0 : Int) : ∀ (l : List Pt) (z : Pt), l.getLast? = some z → z.x = x0 → tailT x0 l = 0
  | [], _, _, _ => rfl
  | [_], _, _, _ => rfl
  | [a, b], z, h, hz => by
    simp at h; subst h; simp [tailT, hz]
  | a :: b :: c :: r, z, h, hz => by
    have h' : (b :: c :: r).getLast? = some z := by rw [List.getLast?_cons_cons] at h; exact h
    simp only [tailT]
    exact tailT_closed x0 (b :: c :: r) z h' hz

theorem edgeTermX_eq (x0 : Int) (e : Pt × Pt) : edgeTermX x0 e = edgeTerm e - x0 * (e.2.y - e.1.y) := by
  unfold edgeTermX edgeTerm; ring

theorem sum_dy : ∀ (a : Pt) (l : List Pt) (z : Pt), (a :: l).getLast? = some z →
    ((edges (a :: l)).map fun e => e.2.y - e.1.y).sum = z.y - a.y
  | a, [], z, h => by simp at h; subst h; simp [edges]
  | a, b :: r, z, h => by
    have h' : (b :: r).getLast? = some z := by rw [List.getLast?_cons_cons] at h; exact h
    have ih := sum_dy b r z h'
    simp only [edges, List.map_cons, List.sum_cons] at ih ⊢
    omega

theorem sum_edgeTermX (x0 : Int) : ∀ (l : List (Pt × Pt)),
    (l.map (edgeTermX x0)).sum = (l.map edgeTerm).sum - x0 * (l.map fun e => e.2.y - e.1.y).sum
  | [] => by simp
  | e :: r => by
    simp only [List.map_cons, List.sum_cons, sum_edgeTermX x0 r, edgeTermX_eq]; ring

/-- the x-shifted loop of `Area::ofRingSigned` computes minus the specification area `Kernel.area2` on every closed ring -/
theorem ofRingSigned2_eq (ring : List Pt) (hc : Closed ring) : ofRingSigned2 ring = - area2 ring := by
  match ring, hc with
  | [], _ => rfl
  | [a], _ => simp [ofRingSigned2, signedAux, area2, edges]
  | a :: b :: r, hc =>
    have hl : (a :: b :: r).getLast? = some a := by
      unfold Closed at hc; simp only [List.head?_cons] at hc; exact hc.symm
    have s1 := shoelace_two_forms a.x a b r
    have s2 := tailT_closed a.x (a :: b :: r) a hl rfl
    have s3 := sum_edgeTermX a.x (edges (a :: b :: r))
    have s4 := sum_dy a (b :: r) a hl
    rw [area2_eq_sum]
    show signedAux a.x (a :: b :: r) = _
    rw [s2] at s1; rw [s4] at s3
    simp only [Int.sub_self, Int.zero_mul, Int.mul_zero, Int.sub_zero] at s1 s3
    linarith

/-- **`Orientation::isCCWArea` is the sign of the specification area** (positive `area2` = counter-clockwise) -/
theorem isCCWArea_iff (ring : List Pt) (hc : Closed ring) : isCCWArea ring = true ↔ 0 < area2 ring := by
  unfold isCCWArea; rw [ofRingSigned2_eq ring hc]; simp

theorem closed_reverse (ring : List Pt) (hc : Closed ring) : Closed ring.reverse := by
  unfold Closed at *; rw [List.head?_reverse, List.getLast?_reverse]; exact hc.symm

/-- reversing a closed ring of non-zero area flips `isCCWArea` -/
theorem isCCWArea_reverse (ring : List Pt) (hc : Closed ring) (ha : area2 ring ≠ 0) :
    isCCWArea ring.reverse = !isCCWArea ring := by
  have h1 := isCCWArea_iff ring hc
  have h2 := isCCWArea_iff ring.reverse (closed_reverse ring hc)
  rw [area2_reverse] at h2
  cases e1 : isCCWArea ring <;> cases e2 : isCCWArea ring.reverse <;> simp_all <;> omega

/-! ### `isRingNested` off the target ring -/

/-- when the start vertex of the test ring is not on the (closed) target ring, `isRingNested` never throws and is
exactly the even–odd point-in-ring specification of that vertex -/
theorem isRingNested_off_ring (p0 : Pt) (rest target : List Pt) (hc : Closed target)
    (hoff : locateInRing p0 target ≠ .boundary) :
    isRingNested (p0 :: rest) target = some (decide (locateInRing p0 target = .interior)) := by
  show (match locatePointInRing p0 target with
    | .exterior => some false
    | .interior => some true
    | .boundary => isIncidentSegmentInRing p0 (findNonEqualVertex (p0 :: rest) p0) target) = _
  rw [locatePointInRing_eq p0 target hc]
  cases h : locateInRing p0 target <;> simp_all

/-- on the target ring the decision is the node topology of the first test segment against the target's corner -/
theorem isRingNested_on_ring (p0 : Pt) (rest target : List Pt) (hc : Closed target)
    (hon : locateInRing p0 target = .boundary) :
    isRingNested (p0 :: rest) target =
      (cornerAt p0 target).map fun c => isInteriorSegment p0 c.1 c.2 (findNonEqualVertex (p0 :: rest) p0) := by
  show (match locatePointInRing p0 target with
    | .exterior => some false
    | .interior => some true
    | .boundary => isIncidentSegmentInRing p0 (findNonEqualVertex (p0 :: rest) p0) target) = _
  rw [locatePointInRing_eq p0 target hc, hon]
  rfl

end GeosModel.Valid
