import GeosModel.Proofs.Valid.GenBridge
import GeosModel.Model.Valid.RingNested
/-!
# Loop lemmas and index-walk lemmas for the translator tie of `PolygonTopologyAnalyzer::isRingNested` (Props/C05GenNest.lean)

Regenerated `while` loops are `for _ in [0:fuel]` loops that `break` when the condition fails (`whileFn`); regenerated
search loops are `for` loops that `return` at the first hit (`List.findSome?`).  The rest relates these index walks to the
list recursions of Model/Valid/RingNested.lean.  No theorem about GEOS here.
-/
namespace GeosModel.ValidGen
open GeosModel GeosModel.Kernel GeosModel.Valid GeosModel.RayCount

/-- at most `n` iterations of `while (c s) s = step s` -/
def whileFn {σ : Type} (c : σ → Bool) (step : σ → σ) : Nat → σ → σ
  | 0, s => s
  | n + 1, s => if c s then whileFn c step n (step s) else s

theorem forIn_while {σ ε : Type} (c : σ → Bool) (step : σ → σ) (F : Nat → σ → Except ε (ForInStep σ))
    (hF : ∀ i s, F i s = if c s = true then Except.ok (ForInStep.yield (step s)) else Except.ok (ForInStep.done s))
    (l : List Nat) (s : σ) : forIn l s F = Except.ok (whileFn c step l.length s) := by
  induction l generalizing s with
  | nil => rfl
  | cons x xs ih =>
    simp only [List.forIn_cons, hF, List.length_cons, whileFn]
    by_cases h : c s = true
    · simp only [h, if_true]; exact ih (step s)
    · simp only [h]; rfl

theorem forIn_first {ρ ε : Type} (found : Nat → Option ρ) (F : Nat → Option ρ × Unit → Except ε (ForInStep (Option ρ × Unit)))
    (hF : ∀ i s, F i s = match found i with
      | some r => Except.ok (ForInStep.done (some r, ()))
      | none => Except.ok (ForInStep.yield (none, ())))
    (l : List Nat) : forIn l (none, ()) F = Except.ok (l.findSome? found, ()) := by
  induction l with
  | nil => rfl
  | cons x xs ih =>
    simp only [List.forIn_cons, hF, List.findSome?_cons]
    cases found x with
    | some r => rfl
    | none => exact ih

/-- the sequence accessor of the bridges: `getAt<CoordinateXY>(i)` on a list of points (an index past the end is undefined
behaviour in the C++; here the default point) -/
def sAt (s : List Pt) (i : Nat) : Cxx.XY Int := xy (s.getD i default)

theorem pt_sAt (s : List Pt) (i : Nat) : pt (sAt s i) = s.getD i default := rfl

/-- the `while` loop of `findRingVertexPrev` as `whileFn` over (index, vertex) is the model's `walkPrev` -/
theorem while_walkPrev (ring : List Pt) (node : Pt) (n i : Nat) :
    whileFn (fun s : Nat × Cxx.XY Int => pt s.2 == node) (fun s => (ringIndexPrev ring.length s.1, sAt ring (ringIndexPrev ring.length s.1))) n
        (i, sAt ring i)
      = (walkPrev ring node n i, sAt ring (walkPrev ring node n i)) := by
  induction n generalizing i with
  | zero => rfl
  | succ n ih =>
    simp only [whileFn, walkPrev, pt_sAt]
    by_cases h : (ring.getD i default == node) = true
    · simp only [h, if_true]; exact ih _
    · simp only [h]; rfl

theorem while_walkNext (ring : List Pt) (node : Pt) (n i : Nat) :
    whileFn (fun s : Nat × Cxx.XY Int => pt s.2 == node) (fun s => (ringIndexNext ring.length s.1, sAt ring (ringIndexNext ring.length s.1))) n
        (i, sAt ring i)
      = (walkNext ring node n i, sAt ring (walkNext ring node n i)) := by
  induction n generalizing i with
  | zero => rfl
  | succ n ih =>
    simp only [whileFn, walkNext, pt_sAt]
    by_cases h : (ring.getD i default == node) = true
    · simp only [h, if_true]; exact ih _
    · simp only [h]; rfl

/-- the search loop of `intersectingSegIndex` is the model's list recursion -/
theorem findSome_intersectingSegIndex (pt : Pt) (l pre : List Pt) :
    (List.range' pre.length (l.length - 1)).findSome? (fun i =>
        if isOnSegment pt ((pre ++ l).getD i default) ((pre ++ l).getD (i + 1) default) then
          some (if pt == (pre ++ l).getD (i + 1) default then i + 1 else i) else none)
      = intersectingSegIndex pt pre.length l := by
  induction l generalizing pre with
  | nil => simp [intersectingSegIndex]
  | cons a r ih =>
    cases r with
    | nil => simp [intersectingSegIndex]
    | cons b r =>
      have h0 : (pre ++ a :: b :: r).getD pre.length default = a := by simp [List.getD]
      have h1 : (pre ++ a :: b :: r).getD (pre.length + 1) default = b := by
        have : (pre ++ a :: b :: r) = (pre ++ [a]) ++ b :: r := by simp
        rw [this]
        have hl : pre.length + 1 = (pre ++ [a]).length := by simp
        rw [hl]; simp [List.getD]
      have ih' := ih (pre ++ [a])
      simp only [List.length_append, List.length_cons, List.length_nil, List.append_assoc, List.cons_append, List.nil_append,
        Nat.zero_add] at ih'
      simp only [List.length_cons, Nat.add_sub_cancel, List.range'_succ, List.findSome?_cons, h0, h1, intersectingSegIndex]
      by_cases hs : isOnSegment pt a b = true
      · simp [hs]
      · simp only [hs]
        simpa using ih'

/-- the index walk of `findNonEqualVertex`: from `i`, advance while the vertex equals `p` and `i < n − 1` -/
def walkNE (ring : List Pt) (p : Pt) : Nat → Nat → Nat
  | 0, i => i
  | fuel + 1, i => if (ring.getD i default == p && decide (i < ring.length - 1)) then walkNE ring p fuel (i + 1) else i

theorem while_walkNE (ring : List Pt) (p : Pt) (n i : Nat) :
    whileFn (fun s : Nat × Cxx.XY Int => (pt s.2 == p && decide (s.1 < ring.length - 1))) (fun s => (s.1 + 1, sAt ring (s.1 + 1))) n (i, sAt ring i)
      = (walkNE ring p n i, sAt ring (walkNE ring p n i)) := by
  induction n generalizing i with
  | zero => rfl
  | succ n ih =>
    simp only [whileFn, walkNE, pt_sAt]
    by_cases h : (ring.getD i default == p && decide (i < ring.length - 1)) = true
    · simp only [h, if_true]; exact ih _
    · simp only [h]; rfl

/-- first element of `rest` (all but its last) that differs from `p`, else its last element -/
def firstNE (rest : List Pt) (p : Pt) : Pt :=
  match rest.dropLast.find? (fun q => q != p) with
  | some q => q
  | none => rest.getLast?.getD p

theorem walkNE_spec (p : Pt) (rest : List Pt) : ∀ (pre : List Pt) (fuel : Nat), rest ≠ [] → rest.length ≤ fuel →
    (pre ++ rest).getD (walkNE (pre ++ rest) p fuel pre.length) default = firstNE rest p ∧
    ((pre ++ rest).getD (walkNE (pre ++ rest) p fuel pre.length) default == p &&
      decide (walkNE (pre ++ rest) p fuel pre.length < (pre ++ rest).length - 1)) = false := by
  induction rest with
  | nil => intro pre fuel h; exact absurd rfl h
  | cons a r ih =>
    intro pre fuel _ hf
    have h0 : (pre ++ a :: r).getD pre.length default = a := by simp [List.getD]
    cases fuel with
    | zero => simp at hf
    | succ fuel =>
      cases r with
      | nil =>
        have hlt : ¬ (pre.length < (pre ++ [a]).length - 1) := by simp
        have hw : walkNE (pre ++ [a]) p (fuel + 1) pre.length = pre.length := by simp [walkNE, hlt]
        rw [hw, h0]
        exact ⟨by simp [firstNE], by simp [hlt]⟩
      | cons b r =>
        have hlt : pre.length < (pre ++ a :: b :: r).length - 1 := by simp
        have ih' := ih (pre ++ [a]) fuel (by simp) (by simp at hf ⊢; omega)
        have e : pre ++ [a] ++ b :: r = pre ++ a :: b :: r := by simp
        have hl : (pre ++ [a]).length = pre.length + 1 := by simp
        rw [e, hl] at ih'
        by_cases hap : (a == p) = true
        · have hne : (a != p) = false := by simp [bne, hap]
          simp only [walkNE, h0, hap, hlt, decide_true, Bool.and_self, if_true]
          refine ⟨?_, ih'.2⟩
          rw [ih'.1]
          simp [firstNE, List.dropLast, hne]
        · have hne : (a != p) = true := by simp [bne, hap]
          have hap' : (a == p) = false := by simpa using hap
          simp only [walkNE, h0, hap', Bool.false_and, Bool.false_eq_true, if_false, and_true]
          simp [firstNE, List.dropLast, hne]

theorem findNonEqualVertex_eq_walk (ring : List Pt) (p : Pt) (h : 2 ≤ ring.length) :
    ring.getD (walkNE ring p ring.length 1) default = Valid.findNonEqualVertex ring p ∧
    (ring.getD (walkNE ring p ring.length 1) default == p && decide (walkNE ring p ring.length 1 < ring.length - 1)) = false := by
  cases ring with
  | nil => simp at h
  | cons x rest =>
    have hr : rest ≠ [] := by intro e; subst e; simp at h
    have := walkNE_spec p rest [x] (x :: rest).length hr (by simp)
    simp only [List.cons_append, List.nil_append, List.length_singleton] at this
    refine ⟨?_, this.2⟩
    rw [this.1]
    simp only [Valid.findNonEqualVertex, firstNE, List.drop_succ_cons, List.drop_zero]
    cases hf : rest.dropLast.find? (fun q => q != p) with
    | some q => rfl
    | none =>
      cases hl : rest.getLast? with
      | none => exact absurd (List.getLast?_eq_none_iff.mp hl) hr
      | some q =>
        have : (x :: rest).getLast? = some q := by
          cases rest with
          | nil => exact absurd rfl hr
          | cons y ys => rw [List.getLast?_cons_cons]; exact hl
        simp [this]

end GeosModel.ValidGen
