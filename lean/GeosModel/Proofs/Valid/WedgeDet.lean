import GeosModel.Proofs.Valid.NodeTopo
import GeosModel.Proofs.Valid.RefInv
import GeosModel.Proofs.Valid.CrossSymm
/-!
# The wedge specification in determinants only, and the lattice symmetries (C05 core)

`cyc o u d v` ("`d` lies strictly inside the counter-clockwise sweep from `u` to `v`") is defined in Model/Valid/NodeTopo.lean
through the half-plane order `angLt`, which singles out the positive x-axis.  Here it is proved equal to `inSweep`, a
condition on orientation determinants (and one dot product for the straight corner) alone:

* `det o u v > 0` (the sweep is less than a half turn):  `det o u d > 0 ∧ det o d v > 0`;
* `det o u v < 0` (more than a half turn):               `det o u d > 0 ∨ det o d v > 0`;
* `det o u v = 0`, `u` and `v` opposite (a half turn):    `det o u d > 0`;
* `u` and `v` on one ray:                                 empty.

Determinants and dot products are preserved by the four lattice rotations and the determinants change sign under the four
lattice reflections, so `cyc`, `crossAt`, and with them the C++ `isCrossing`, are invariant under all eight lattice
symmetries (reflections reverse the sweep), although `compareAngle` itself is not.

Proof of `cyc = inSweep`: every direction is represented by the member of its line that lies in the upper half turn
(`rep`); among such representatives the angular order is the sign of the determinant, which is a strict weak order
(`compatB_actual`), so both sides become functions of three Booleans (which half turn) and three signs, compared on all
compatible patterns by `decide`.
-/
namespace GeosModel.Valid
open GeosModel.Kernel

/-! ### signs -/

theorem ofInt_neg (x : Int) : S3.ofInt (-x) = (S3.ofInt x).flip := by
  unfold S3.ofInt S3.flip; split_ifs <;> first | rfl | omega

theorem ofInt_eq_pos (x : Int) : S3.ofInt x = .pos ↔ 0 < x := by
  unfold S3.ofInt; split_ifs <;> simp <;> omega

theorem ofInt_eq_neg (x : Int) : S3.ofInt x = .neg ↔ x < 0 := by
  unfold S3.ofInt; split_ifs <;> simp <;> omega

theorem ofInt_eq_zero (x : Int) : S3.ofInt x = .zero ↔ x = 0 := by
  unfold S3.ofInt; split_ifs <;> simp <;> omega

/-! ### representatives in the upper half turn -/

/-- point reflection in `o` -/
def reflPt (o p : Pt) : Pt := ⟨2 * o.x - p.x, 2 * o.y - p.y⟩

/-- the member of the line through `o` and `p` whose direction lies in the upper half turn `[0°, 180°)` -/
def rep (o p : Pt) : Pt := if upper o p then p else reflPt o p

theorem upper_refl (o p : Pt) (hp : p ≠ o) : upper o (reflPt o p) = !upper o p := by
  rw [ne_iff_vec] at hp
  have h1 := upper_iff o p
  have h2 := upper_iff o (reflPt o p)
  have ex : (reflPt o p).x - o.x = -(p.x - o.x) := by show 2 * o.x - p.x - o.x = _; omega
  have ey : (reflPt o p).y - o.y = -(p.y - o.y) := by show 2 * o.y - p.y - o.y = _; omega
  rw [ex, ey] at h2
  cases e1 : upper o p <;> cases e2 : upper o (reflPt o p) <;> rw [e1] at h1 <;> rw [e2] at h2 <;>
    simp only [Bool.false_eq_true, false_iff, true_iff, Bool.not_false, Bool.not_true] at h1 h2 ⊢ <;> omega

theorem refl_ne (o p : Pt) (hp : p ≠ o) : reflPt o p ≠ o := by
  rw [ne_iff_vec] at hp ⊢; simp only [reflPt]; omega

theorem rep_ne (o p : Pt) (hp : p ≠ o) : rep o p ≠ o := by
  unfold rep; split
  · exact hp
  · exact refl_ne o p hp

theorem rep_upper (o p : Pt) (hp : p ≠ o) : upper o (rep o p) = true := by
  unfold rep; split
  · assumption
  · rw [upper_refl o p hp]; simp_all

theorem det_refl_left (o p q : Pt) : det o (reflPt o p) q = - det o p q := by unfold det reflPt; ring
theorem det_refl_right (o p q : Pt) : det o p (reflPt o q) = - det o p q := by unfold det reflPt; ring
theorem dot_refl_left (o p q : Pt) : dot o (reflPt o p) q = - dot o p q := by unfold dot reflPt; ring
theorem dot_refl_right (o p q : Pt) : dot o p (reflPt o q) = - dot o p q := by unfold dot reflPt; ring

/-- the sign of a determinant from the sign for the representatives -/
def sdT (hp hq : Bool) (s : S3) : S3 := if hp == hq then s else s.flip

theorem sgn_det_rep (o p q : Pt) :
    S3.ofInt (det o p q) = sdT (upper o p) (upper o q) (S3.ofInt (det o (rep o p) (rep o q))) := by
  unfold rep sdT
  cases e1 : upper o p <;> cases e2 : upper o q <;>
    simp [det_refl_left, det_refl_right, ofInt_neg, S3.flip_flip]

theorem dot_rep (o p q : Pt) :
    dot o p q = if upper o p == upper o q then dot o (rep o p) (rep o q) else - dot o (rep o p) (rep o q) := by
  unfold rep
  cases e1 : upper o p <;> cases e2 : upper o q <;> simp [dot_refl_left, dot_refl_right]

/-- `angLt` from the half turns and the determinant sign of the representatives -/
def angLtH (hp hq : Bool) (s : S3) : Bool := (hp && !hq) || ((hp == hq) && decide (s = .pos))

theorem angLt_rep (o p q : Pt) :
    angLt o p q = angLtH (upper o p) (upper o q) (S3.ofInt (det o (rep o p) (rep o q))) := by
  unfold angLt angLtH rep
  cases e1 : upper o p <;> cases e2 : upper o q <;>
    simp [det_refl_left, det_refl_right, ofInt_eq_pos]

/-- among directions of the upper half turn the C++ comparison is (minus) the sign of the determinant -/
theorem cmp_upper (o a b : Pt) (ha : a ≠ o) (hb : b ≠ o) (ua : upper o a = true) (ub : upper o b = true) :
    S3.ofInt (compareAngle o a b) = (S3.ofInt (det o a b)).flip := by
  have h1 := compareAngle_lt_iff o a b ha hb
  have h2 := compareAngle_lt_iff o b a hb ha
  rw [angLt_iff] at h1 h2
  simp only [ua, ub, Bool.true_eq_false, and_false, true_and, false_or] at h1 h2
  have a1 := compareAngle_antisymm o a b
  have d1 := det_swap23 o a b
  have r := compareAngle_range o a b
  unfold S3.ofInt S3.flip
  rcases r with r | r | r <;> rw [r] <;> split_ifs <;> first | rfl | (exfalso; omega)

/-! ### the determinant form of the sweep -/

/-- `d` lies strictly inside the counter-clockwise sweep from `u` to `v`, in determinants only -/
def inSweep (o u d v : Pt) : Bool :=
  if det o u v > 0 then decide (det o u d > 0) && decide (det o d v > 0)
  else if det o u v < 0 then decide (det o u d > 0) || decide (det o d v > 0)
  else decide (dot o u v < 0) && decide (det o u d > 0)

def sweepT (D Dud Ddv : S3) (opp : Bool) : Bool :=
  match D with
  | .pos => decide (Dud = .pos) && decide (Ddv = .pos)
  | .neg => decide (Dud = .pos) || decide (Ddv = .pos)
  | .zero => opp && decide (Dud = .pos)

theorem inSweep_eq_T (o u d v : Pt) :
    inSweep o u d v = sweepT (S3.ofInt (det o u v)) (S3.ofInt (det o u d)) (S3.ofInt (det o d v)) (decide (dot o u v < 0)) := by
  unfold inSweep sweepT
  by_cases h1 : det o u v > 0
  · have : S3.ofInt (det o u v) = .pos := (ofInt_eq_pos _).mpr h1
    simp [h1, this, ofInt_eq_pos]
  · by_cases h2 : det o u v < 0
    · have : S3.ofInt (det o u v) = .neg := (ofInt_eq_neg _).mpr h2
      simp [h1, h2, this, ofInt_eq_pos]
    · have : S3.ofInt (det o u v) = .zero := (ofInt_eq_zero _).mpr (by omega)
      simp [h1, h2, this, ofInt_eq_pos]

theorem sweepT_opp_irrelevant (D a b : S3) (x y : Bool) (hD : D ≠ .zero) : sweepT D a b x = sweepT D a b y := by
  cases D <;> simp_all [sweepT]

/-- `cyc` on the abstract data: `x = cmp û v̂`, `p0 = cmp d̂ û`, `p1 = cmp d̂ v̂` (hats = representatives) -/
def cycHT (hu hd hv : Bool) (x p0 p1 : S3) : Bool :=
  let lud := angLtH hu hd p0
  let ldv := angLtH hd hv p1.flip
  let lvu := angLtH hv hu x
  (lud && ldv) || (ldv && lvu) || (lvu && lud)

def sweepHT (hu hd hv : Bool) (x p0 p1 : S3) : Bool :=
  sweepT (sdT hu hv x.flip) (sdT hu hd p0) (sdT hd hv p1.flip) (hu != hv)

/-- the finite heart of `cyc = inSweep` -/
theorem cycHT_eq_sweepHT : ∀ hu hd hv : Bool, S3.all (fun x => S3.all fun p0 => S3.all fun p1 =>
    !(compatB x p0 p1) || (cycHT hu hd hv x p0 p1 == sweepHT hu hd hv x p0 p1)) = true := by
  decide

/-- collinear directions: the dot product is negative exactly when they lie in different half turns -/
theorem dot_neg_iff (o u v : Pt) (hu : u ≠ o) (hv : v ≠ o) (hz : det o u v = 0) :
    decide (dot o u v < 0) = (upper o u != upper o v) := by
  have hz' : S3.ofInt (det o (rep o u) (rep o v)) = .zero := by
    have := sgn_det_rep o u v
    rw [hz] at this
    unfold sdT at this
    split at this
    · exact this.symm
    · have h : (S3.ofInt (det o (rep o u) (rep o v))).flip = .zero := this.symm
      revert h; cases S3.ofInt (det o (rep o u) (rep o v)) <;> simp [S3.flip]
  have c := cmp_upper o (rep o u) (rep o v) (rep_ne o u hu) (rep_ne o v hv) (rep_upper o u hu) (rep_upper o v hv)
  rw [hz'] at c
  have c0 : compareAngle o (rep o u) (rep o v) = 0 := (ofInt_eq_zero _).mp c
  have sd := (compareAngle_eq_zero_iff o (rep o u) (rep o v) (rep_ne o u hu) (rep_ne o v hv)).mp c0
  rw [sameDir_iff] at sd
  have dr := dot_rep o u v
  cases e1 : upper o u <;> cases e2 : upper o v <;> rw [e1, e2] at dr <;>
    simp only [beq_self_eq_true, if_true, bne_self_eq_false, decide_eq_false_iff_not,
      decide_eq_true_eq, Bool.not_false, Bool.bne_true, Bool.bne_false] at dr ⊢ <;>
    first | omega | (simp at dr; omega)

/-- **`cyc` is the determinant condition `inSweep`** -/
theorem cyc_eq_inSweep (o u d v : Pt) (hu : u ≠ o) (hd : d ≠ o) (hv : v ≠ o) : cyc o u d v = inSweep o u d v := by
  have ru := rep_ne o u hu; have rd := rep_ne o d hd; have rv := rep_ne o v hv
  have uu := rep_upper o u hu; have ud := rep_upper o d hd; have uv := rep_upper o v hv
  -- the three comparisons of the representatives
  have cx := cmp_upper o (rep o u) (rep o v) ru rv uu uv
  have c0 := cmp_upper o (rep o d) (rep o u) rd ru ud uu
  have c1 := cmp_upper o (rep o d) (rep o v) rd rv ud uv
  have k := compatB_actual o (rep o u) (rep o v) (rep o d) ru rv rd
  -- determinant signs of the representatives in terms of the comparisons
  have s_uv : S3.ofInt (det o (rep o u) (rep o v)) = (S3.ofInt (compareAngle o (rep o u) (rep o v))).flip := by
    rw [cx, S3.flip_flip]
  have s_ud : S3.ofInt (det o (rep o u) (rep o d)) = S3.ofInt (compareAngle o (rep o d) (rep o u)) := by
    rw [c0, det_swap23 o (rep o u) (rep o d), ofInt_neg, S3.flip_flip]
  have s_dv : S3.ofInt (det o (rep o d) (rep o v)) = (S3.ofInt (compareAngle o (rep o d) (rep o v))).flip := by
    rw [c1, S3.flip_flip]
  have s_vu : S3.ofInt (det o (rep o v) (rep o u)) = S3.ofInt (compareAngle o (rep o u) (rep o v)) := by
    rw [cx, det_swap23 o (rep o v) (rep o u), ofInt_neg, S3.flip_flip]
  have lhs : cyc o u d v = cycHT (upper o u) (upper o d) (upper o v) (S3.ofInt (compareAngle o (rep o u) (rep o v)))
      (S3.ofInt (compareAngle o (rep o d) (rep o u))) (S3.ofInt (compareAngle o (rep o d) (rep o v))) := by
    unfold cyc cycHT
    rw [angLt_rep o u d, angLt_rep o d v, angLt_rep o v u, s_ud, s_dv, s_vu]
  have rhs : inSweep o u d v = sweepHT (upper o u) (upper o d) (upper o v) (S3.ofInt (compareAngle o (rep o u) (rep o v)))
      (S3.ofInt (compareAngle o (rep o d) (rep o u))) (S3.ofInt (compareAngle o (rep o d) (rep o v))) := by
    rw [inSweep_eq_T]
    unfold sweepHT
    rw [sgn_det_rep o u v, sgn_det_rep o u d, sgn_det_rep o d v, s_uv, s_ud, s_dv]
    by_cases hz : det o u v = 0
    · rw [dot_neg_iff o u v hu hv hz]
    · -- the straight-corner branch is not taken: the value of the dot product does not matter
      have hD : sdT (upper o u) (upper o v) (S3.ofInt (compareAngle o (rep o u) (rep o v))).flip ≠ .zero := by
        rw [← s_uv, ← sgn_det_rep]; intro h; exact hz ((ofInt_eq_zero _).mp h)
      exact sweepT_opp_irrelevant _ _ _ _ _ hD
  rw [lhs, rhs]
  have t := S3.all_spec (S3.all_spec (S3.all_spec (cycHT_eq_sweepHT (upper o u) (upper o d) (upper o v))
    (S3.ofInt (compareAngle o (rep o u) (rep o v)))) (S3.ofInt (compareAngle o (rep o d) (rep o u))))
    (S3.ofInt (compareAngle o (rep o d) (rep o v)))
  simp only [k, Bool.not_true, Bool.false_or, beq_iff_eq] at t
  exact t

/-! ### the eight lattice symmetries -/

/-! `latticeSym k` (Proofs/Valid/RefInv.lean; the numbering of the harness' `Xform.sym`): 0–3 rotations by 0°, 90°, 180°, 270°;
4–7 reflections -/

def isReflection (k : Nat) : Bool := decide (k % 8 ≥ 4)

theorem latticeSym_cases (k : Nat) (P : (Pt → Pt) → Bool → Prop)
    (h0 : P (fun p => p) false) (h1 : P (fun p => ⟨-p.y, p.x⟩) false) (h2 : P (fun p => ⟨-p.x, -p.y⟩) false)
    (h3 : P (fun p => ⟨p.y, -p.x⟩) false) (h4 : P (fun p => ⟨-p.x, p.y⟩) true) (h5 : P (fun p => ⟨p.x, -p.y⟩) true)
    (h6 : P (fun p => ⟨p.y, p.x⟩) true) (h7 : P (fun p => ⟨-p.y, -p.x⟩) true) : P (latticeSym k) (isReflection k) := by
  have hk : k % 8 < 8 := Nat.mod_lt _ (by decide)
  have e : latticeSym k = fun p => latticeSym k p := rfl
  rw [e]; unfold latticeSym isReflection
  generalize k % 8 = m at hk
  match m, hk with
  | 0, _ => exact h0 | 1, _ => exact h1 | 2, _ => exact h2 | 3, _ => exact h3
  | 4, _ => exact h4 | 5, _ => exact h5 | 6, _ => exact h6 | 7, _ => exact h7

theorem det_latticeSym (k : Nat) (a b c : Pt) :
    det (latticeSym k a) (latticeSym k b) (latticeSym k c) = if isReflection k then - det a b c else det a b c := by
  refine latticeSym_cases k (fun f r => det (f a) (f b) (f c) = if r then - det a b c else det a b c) ?_ ?_ ?_ ?_ ?_ ?_ ?_ ?_ <;>
    simp [det] <;> ring

theorem dot_latticeSym (k : Nat) (a b c : Pt) :
    dot (latticeSym k a) (latticeSym k b) (latticeSym k c) = dot a b c := by
  refine latticeSym_cases k (fun f _ => dot (f a) (f b) (f c) = dot a b c) ?_ ?_ ?_ ?_ ?_ ?_ ?_ ?_ <;>
    simp [dot] <;> ring

theorem latticeSym_inj (k : Nat) (a b : Pt) : latticeSym k a = latticeSym k b ↔ a = b := by
  refine latticeSym_cases k (fun f _ => f a = f b ↔ a = b) ?_ ?_ ?_ ?_ ?_ ?_ ?_ ?_ <;>
    simp [Pt.ext_iff'] <;> omega

theorem latticeSym_ne (k : Nat) (a b : Pt) (h : a ≠ b) : latticeSym k a ≠ latticeSym k b :=
  fun e => h ((latticeSym_inj k a b).mp e)

/-- for opposite collinear `u`, `v` the determinants `det o d v` and `det o u d` have the same sign -/
theorem opposite_det_sign (o u d v : Pt) (hu : u ≠ o) (hz : det o u v = 0) (hn : dot o u v < 0) :
    (det o d v > 0 ↔ det o u d > 0) ∧ (det o d v < 0 ↔ det o u d < 0) := by
  have id : det o d v * dot o u u + det o u d * dot o u v = det o u v * dot o u d := by unfold det dot; ring
  rw [hz] at id
  rw [ne_iff_vec] at hu
  have hN : 0 < dot o u u := by
    have := normSq_pos _ _ hu; unfold dot; linarith
  have s1 := sign_mul_pos (det o d v) (dot o u u) hN
  have s2 := sign_mul_pos (det o u d) (-(dot o u v)) (by omega)
  have e : det o u d * -(dot o u v) = -(det o u d * dot o u v) := by ring
  rw [e] at s2
  generalize det o d v * dot o u u = M1 at *
  generalize det o u d * dot o u v = M2 at *
  constructor <;> constructor <;> intro h <;> omega

/-- rotations keep the sweep, reflections reverse it -/
theorem inSweep_latticeSym (k : Nat) (o u d v : Pt) (hu : u ≠ o) :
    inSweep (latticeSym k o) (latticeSym k u) (latticeSym k d) (latticeSym k v) =
      if isReflection k then inSweep o v d u else inSweep o u d v := by
  unfold inSweep
  simp only [det_latticeSym, dot_latticeSym]
  have a1 := det_swap23 o u v
  have a2 := det_swap23 o u d
  have a3 := det_swap23 o d v
  have dc : dot o v u = dot o u v := by unfold dot; ring
  have K := opposite_det_sign o u d v hu
  cases isReflection k
  · simp
  · simp only [if_true, dc]
    rw [show det o v u = - det o u v by omega, show det o v d = - det o d v by omega, show det o d u = - det o u d by omega]
    generalize det o u v = D at *
    generalize det o u d = A at *
    generalize det o d v = B at *
    generalize dot o u v = E at *
    apply Bool.eq_iff_iff.mpr
    split_ifs <;> simp only [Bool.and_eq_true, Bool.or_eq_true, decide_eq_true_eq] <;> omega

theorem cyc_latticeSym (k : Nat) (o u d v : Pt) (hu : u ≠ o) (hd : d ≠ o) (hv : v ≠ o) :
    cyc (latticeSym k o) (latticeSym k u) (latticeSym k d) (latticeSym k v) =
      if isReflection k then cyc o v d u else cyc o u d v := by
  rw [cyc_eq_inSweep _ _ _ _ (latticeSym_ne k u o hu) (latticeSym_ne k d o hd) (latticeSym_ne k v o hv),
    inSweep_latticeSym k o u d v hu, cyc_eq_inSweep o u d v hu hd hv, cyc_eq_inSweep o v d u hv hd hu]

/-- the wedge specification of a crossing is invariant under all eight lattice symmetries -/
theorem crossAt_latticeSym (k : Nat) (o a0 a1 b0 b1 : Pt) (h0 : a0 ≠ o) (h1 : a1 ≠ o) (hb0 : b0 ≠ o) (hb1 : b1 ≠ o) :
    crossAt (latticeSym k o) (latticeSym k a0) (latticeSym k a1) (latticeSym k b0) (latticeSym k b1) = crossAt o a0 a1 b0 b1 := by
  unfold crossAt
  rw [cyc_latticeSym k o a0 b0 a1 h0 hb0 h1, cyc_latticeSym k o a1 b1 a0 h1 hb1 h0,
    cyc_latticeSym k o a1 b0 a0 h1 hb0 h0, cyc_latticeSym k o a0 b1 a1 h0 hb1 h1]
  cases isReflection k
  · simp
  · simp only [if_true]; exact Bool.or_comm _ _

/-- **the C++ `isCrossing` is invariant under all eight lattice symmetries** -/
theorem isCrossing_latticeSym (k : Nat) (n a0 a1 b0 b1 : Pt) (h0 : a0 ≠ n) (h1 : a1 ≠ n) (hb0 : b0 ≠ n) (hb1 : b1 ≠ n) :
    isCrossing (latticeSym k n) (latticeSym k a0) (latticeSym k a1) (latticeSym k b0) (latticeSym k b1) =
      isCrossing n a0 a1 b0 b1 := by
  rw [isCrossing_eq_crossAt _ _ _ _ _ (latticeSym_ne k a0 n h0) (latticeSym_ne k a1 n h1) (latticeSym_ne k b0 n hb0)
    (latticeSym_ne k b1 n hb1), isCrossing_eq_crossAt n a0 a1 b0 b1 h0 h1 hb0 hb1]
  exact crossAt_latticeSym k n a0 a1 b0 b1 h0 h1 hb0 hb1

/-! ### `isInteriorSegment` in determinants -/

theorem angEq_eq_sameDir (o p q : Pt) (hp : p ≠ o) (hq : q ≠ o) : angEq o p q = sameDir o p q := by
  rw [angEq_eq o p q hp hq]
  have := compareAngle_eq_zero_iff o p q hp hq
  cases h : sameDir o p q
  · simp only [decide_eq_false_iff_not]; intro e; rw [this.mp e] at h; exact Bool.noConfusion h
  · simp only [decide_eq_true_eq]; exact this.mpr h

/-- **`isInteriorSegment` decides "the segment lies inside the corner" exactly, in determinants**: `n → b` lies strictly
inside the counter-clockwise sweep from `a0` to `a1` (`inSweep`), or along `a1` when the corner is not degenerate -/
theorem isInteriorSegment_eq_det (n a0 a1 b : Pt) (h0 : a0 ≠ n) (h1 : a1 ≠ n) (hb : b ≠ n) :
    isInteriorSegment n a0 a1 b = (inSweep n a0 b a1 || (sameDir n b a1 && !sameDir n a0 a1)) := by
  rw [isInteriorSegment_eq_interiorAt n a0 a1 b h0 h1 hb]
  unfold interiorAt
  rw [cyc_eq_inSweep n a0 b a1 h0 hb h1, angEq_eq_sameDir n b a1 hb h1, angEq_eq_sameDir n a0 a1 h0 h1]

theorem sameDir_latticeSym (k : Nat) (o p q : Pt) :
    sameDir (latticeSym k o) (latticeSym k p) (latticeSym k q) = sameDir o p q := by
  unfold sameDir
  rw [det_latticeSym, dot_latticeSym]
  cases isReflection k <;> simp

/-- the four lattice rotations do not change `isInteriorSegment` (the reflections exchange the roles of the arms) -/
theorem isInteriorSegment_rotate (k : Nat) (hk : isReflection k = false) (n a0 a1 b : Pt) (h0 : a0 ≠ n) (h1 : a1 ≠ n) (hb : b ≠ n) :
    isInteriorSegment (latticeSym k n) (latticeSym k a0) (latticeSym k a1) (latticeSym k b) = isInteriorSegment n a0 a1 b := by
  rw [isInteriorSegment_eq_det _ _ _ _ (latticeSym_ne k a0 n h0) (latticeSym_ne k a1 n h1) (latticeSym_ne k b n hb),
    isInteriorSegment_eq_det n a0 a1 b h0 h1 hb, inSweep_latticeSym k n a0 b a1 h0, sameDir_latticeSym, sameDir_latticeSym, hk]
  simp

end GeosModel.Valid
