import GeosModel.Model.Precision.HotPixel
import Mathlib.Tactic.Linarith
import Mathlib.Tactic.Ring
/-!
# `HotPixel::intersectsScaled` decides "closed segment meets half-open pixel"

The geometric statement is phrased with the parameter `t = a / b` (`0 < b`, `0 ≤ a ≤ b`) so that everything stays
in `ℤ`: the point `p + t (q − p)` scaled by `b` is `(p.x * b + a * (q.x − p.x), p.y * b + a * (q.y − p.y))`.
`Props/C04.lean` restates it with `t : ℚ`.

Structure of the proof.  For a segment oriented in +X that is neither vertical nor horizontal the four
constraints on `t` are one-dimensional intervals, so (Helly on a line) the segment meets the pixel iff the
pairwise compatibilities hold: the four envelope tests plus two corner determinants
(`0 < dUL ∧ dLR < 0` for an upward segment, `dLL ≤ 0 ∧ 0 < dUR` for a downward one).  The corner determinants
are ordered (`dLR < dLL, dUR < dUL` upward; `dLL < dUL, dLR < dUR` downward), which turns the cascade of
corner rules of the C++ code into exactly these two conditions (`tree_up`, `tree_down`).
-/
namespace GeosModel.Precision

/-- the determinant whose sign is `orientIdx` -/
def cdet (px py qx qy cx cy : ℤ) : ℤ := (qx - px) * (cy - qy) - (qy - py) * (cx - qx)

theorem orientIdx_eq (px py qx qy cx cy : ℤ) : orientIdx px py qx qy cx cy = (cdet px py qx qy cx cy).sign := rfl

/-- the point of the segment at parameter `a / b` lies in the pixel `[minx,maxx) × [miny,maxy)` (scaled by `b`) -/
def MeetsZ (minx maxx miny maxy p0x p0y p1x p1y : ℤ) : Prop :=
  ∃ a b : ℤ, 0 < b ∧ 0 ≤ a ∧ a ≤ b ∧
    minx * b ≤ p0x * b + a * (p1x - p0x) ∧ p0x * b + a * (p1x - p0x) < maxx * b ∧
    miny * b ≤ p0y * b + a * (p1y - p0y) ∧ p0y * b + a * (p1y - p0y) < maxy * b

/-- the cascade of corner rules, as a function of the four orientation indices and the segment's direction -/
def cornerRules (py qy oUL oUR oLL oLR : ℤ) : Bool :=
  if oUL = 0 then (if py < qy then false else true)
  else if oUR = 0 then (if qy < py then false else true)
  else if oUL ≠ oUR then true
  else if oLL = 0 then true
  else if oLL ≠ oUL then true
  else if oLR = 0 then (if py < qy then false else true)
  else if oLL ≠ oLR then true
  else if oLR ≠ oUR then true
  else false

theorem intersectsOriented_eq (h : Px) (px py qx qy : ℤ) :
    intersectsOriented h px py qx qy =
      (if h.maxx ≤ min px qx then false
       else if max px qx < h.minx then false
       else if h.maxy ≤ min py qy then false
       else if max py qy < h.miny then false
       else if px = qx then true
       else if py = qy then true
       else cornerRules py qy (orientIdx px py qx qy h.minx h.maxy) (orientIdx px py qx qy h.maxx h.maxy)
              (orientIdx px py qx qy h.minx h.miny) (orientIdx px py qx qy h.maxx h.miny)) := rfl

private theorem sign_neg' {x : ℤ} (h : x < 0) : x.sign = -1 := Int.sign_eq_neg_one_of_neg h
private theorem sign_pos' {x : ℤ} (h : 0 < x) : x.sign = 1 := Int.sign_eq_one_of_pos h

/-- upward segment: the cascade returns `true` iff `0 < dUL ∧ dLR < 0` -/
theorem tree_up (py qy dUL dUR dLL dLR : ℤ) (hdir : py < qy)
    (h1 : dLR < dLL) (h2 : dLL < dUL) (h3 : dLR < dUR) (h4 : dUR < dUL) :
    cornerRules py qy dUL.sign dUR.sign dLL.sign dLR.sign = true ↔ (0 < dUL ∧ dLR < 0) := by
  unfold cornerRules
  have hnd : ¬ qy < py := by omega
  rcases lt_trichotomy dUL 0 with a | a | a <;> rcases lt_trichotomy dUR 0 with b | b | b <;>
  rcases lt_trichotomy dLL 0 with c | c | c <;> rcases lt_trichotomy dLR 0 with d | d | d <;>
  first
    | omega
    | (simp only [sign_neg', sign_pos', Int.sign_zero, *]; simp <;> omega)

/-- downward segment: the cascade returns `true` iff `dLL ≤ 0 ∧ 0 < dUR` -/
theorem tree_down (py qy dUL dUR dLL dLR : ℤ) (hdir : qy < py)
    (h1 : dLL < dLR) (h2 : dLL < dUL) (h3 : dLR < dUR) (h4 : dUL < dUR) :
    cornerRules py qy dUL.sign dUR.sign dLL.sign dLR.sign = true ↔ (dLL ≤ 0 ∧ 0 < dUR) := by
  unfold cornerRules
  have hnd : ¬ py < qy := by omega
  rcases lt_trichotomy dUL 0 with a | a | a <;> rcases lt_trichotomy dUR 0 with b | b | b <;>
  rcases lt_trichotomy dLL 0 with c | c | c <;> rcases lt_trichotomy dLR 0 with d | d | d <;>
  first
    | omega
    | (simp only [sign_neg', sign_pos', Int.sign_zero, *]; simp <;> omega)


/-! ### the geometric side, over `ℚ` -/

/-- the closed segment `p0 p1` meets the half-open pixel `[minx,maxx) × [miny,maxy)` -/
def Meets (minx maxx miny maxy p0x p0y p1x p1y : ℚ) : Prop :=
  ∃ t : ℚ, 0 ≤ t ∧ t ≤ 1 ∧
    minx ≤ p0x + t * (p1x - p0x) ∧ p0x + t * (p1x - p0x) < maxx ∧
    miny ≤ p0y + t * (p1y - p0y) ∧ p0y + t * (p1y - p0y) < maxy

def cdetQ (px py qx qy cx cy : ℚ) : ℚ := (qx - px) * (cy - qy) - (qy - py) * (cx - qx)

theorem cdet_cast (px py qx qy cx cy : ℤ) :
    ((cdet px py qx qy cx cy : ℤ) : ℚ) = cdetQ px py qx qy cx cy := by
  unfold cdet cdetQ; push_cast; ring

section geom
variable (minx maxx miny maxy px py qx qy : ℚ)

theorem meets_symm : Meets minx maxx miny maxy px py qx qy ↔ Meets minx maxx miny maxy qx qy px py := by
  constructor <;> rintro ⟨t, h0, h1, hx1, hx2, hy1, hy2⟩ <;>
    refine ⟨1 - t, by linarith, by linarith, ?_, ?_, ?_, ?_⟩ <;> nlinarith

/-- three closed lower bounds, one closed and two open upper bounds -/
private theorem helly_up (l1 l2 l3 u1 uo1 uo2 : ℚ)
    (a1 : l1 ≤ u1) (a2 : l2 ≤ u1) (a3 : l3 ≤ u1)
    (b1 : l1 < uo1) (b2 : l2 < uo1) (b3 : l3 < uo1)
    (c1 : l1 < uo2) (c2 : l2 < uo2) (c3 : l3 < uo2) :
    ∃ t, l1 ≤ t ∧ l2 ≤ t ∧ l3 ≤ t ∧ t ≤ u1 ∧ t < uo1 ∧ t < uo2 :=
  ⟨max (max l1 l2) l3, le_trans (le_max_left _ _) (le_max_left _ _), le_trans (le_max_right _ _) (le_max_left _ _),
    le_max_right _ _, max_le (max_le a1 a2) a3, max_lt (max_lt b1 b2) b3, max_lt (max_lt c1 c2) c3⟩

/-- two closed and one open lower bound, two closed and one open upper bound -/
private theorem helly_down (l1 l2 lo u1 u2 uo : ℚ)
    (a1 : l1 ≤ u1) (a2 : l1 ≤ u2) (a3 : l2 ≤ u1) (a4 : l2 ≤ u2)
    (b1 : l1 < uo) (b2 : l2 < uo) (c1 : lo < u1) (c2 : lo < u2) (c3 : lo < uo) :
    ∃ t, l1 ≤ t ∧ l2 ≤ t ∧ lo < t ∧ t ≤ u1 ∧ t ≤ u2 ∧ t < uo := by
  have hm : lo < min (min u1 u2) uo := lt_min (lt_min c1 c2) c3
  have hc1 : lo < (lo + min (min u1 u2) uo) / 2 := by linarith
  have hc2 : (lo + min (min u1 u2) uo) / 2 < min (min u1 u2) uo := by linarith
  have m1 : min (min u1 u2) uo ≤ u1 := le_trans (min_le_left _ _) (min_le_left _ _)
  have m2 : min (min u1 u2) uo ≤ u2 := le_trans (min_le_left _ _) (min_le_right _ _)
  have m3 : min (min u1 u2) uo ≤ uo := min_le_right _ _
  refine ⟨max (max l1 l2) ((lo + min (min u1 u2) uo) / 2), ?_, ?_, ?_, ?_, ?_, ?_⟩
  · exact le_trans (le_max_left _ _) (le_max_left _ _)
  · exact le_trans (le_max_right _ _) (le_max_left _ _)
  · exact lt_of_lt_of_le hc1 (le_max_right _ _)
  · exact max_le (max_le a1 a3) (by linarith)
  · exact max_le (max_le a2 a4) (by linarith)
  · exact max_lt (max_lt b1 b2) (by linarith)

/-- the envelope facts every meeting segment oriented in +X satisfies -/
theorem meets_env (hA : px ≤ qx) (hm : Meets minx maxx miny maxy px py qx qy) :
    px < maxx ∧ minx ≤ qx ∧ min py qy < maxy ∧ miny ≤ max py qy := by
  obtain ⟨t, h0, h1, hx1, hx2, hy1, hy2⟩ := hm
  have e1 : 0 ≤ t * (qx - px) := mul_nonneg h0 (by linarith)
  have e2 : 0 ≤ (1 - t) * (qx - px) := mul_nonneg (by linarith) (by linarith)
  refine ⟨by nlinarith, by nlinarith, ?_, ?_⟩
  · rcases le_total py qy with h | h
    · rw [min_eq_left h]
      have : 0 ≤ t * (qy - py) := mul_nonneg h0 (by linarith)
      nlinarith
    · rw [min_eq_right h]
      have : 0 ≤ (1 - t) * (py - qy) := mul_nonneg (by linarith) (by linarith)
      nlinarith
  · rcases le_total py qy with h | h
    · rw [max_eq_right h]
      have : 0 ≤ (1 - t) * (qy - py) := mul_nonneg (by linarith) (by linarith)
      nlinarith
    · rw [max_eq_left h]
      have : 0 ≤ t * (py - qy) := mul_nonneg h0 (by linarith)
      nlinarith

/-- upward segment oriented in +X -/
theorem meets_up (hA : px < qx) (hB : py < qy) (hw : minx < maxx) (hh : miny < maxy) :
    Meets minx maxx miny maxy px py qx qy ↔
      (px < maxx ∧ minx ≤ qx ∧ py < maxy ∧ miny ≤ qy ∧
        0 < cdetQ px py qx qy minx maxy ∧ cdetQ px py qx qy maxx miny < 0) := by
  have hA' : 0 < qx - px := by linarith
  have hB' : 0 < qy - py := by linarith
  constructor
  · intro hm
    obtain ⟨e1, e2, e3, e4⟩ := meets_env minx maxx miny maxy px py qx qy (le_of_lt hA) hm
    rw [min_eq_left (le_of_lt hB)] at e3
    rw [max_eq_right (le_of_lt hB)] at e4
    obtain ⟨t, h0, h1, hx1, hx2, hy1, hy2⟩ := hm
    refine ⟨e1, e2, e3, e4, ?_, ?_⟩
    · have k1 : 0 < (qx - px) * (maxy - (py + t * (qy - py))) := mul_pos hA' (by linarith)
      have k2 : 0 ≤ (qy - py) * ((px + t * (qx - px)) - minx) := mul_nonneg (le_of_lt hB') (by linarith)
      unfold cdetQ; nlinarith
    · have k1 : 0 ≤ (qx - px) * ((py + t * (qy - py)) - miny) := mul_nonneg (le_of_lt hA') (by linarith)
      have k2 : 0 < (qy - py) * (maxx - (px + t * (qx - px))) := mul_pos hB' (by linarith)
      unfold cdetQ; nlinarith
  · rintro ⟨e1, e2, e3, e4, dUL, dLR⟩
    unfold cdetQ at dUL dLR
    -- t ≥ 0, t ≥ (minx-px)/A, t ≥ (miny-py)/B, t ≤ 1, t < (maxx-px)/A, t < (maxy-py)/B
    obtain ⟨t, t1, t2, t3, t4, t5, t6⟩ := helly_up 0 ((minx - px) / (qx - px)) ((miny - py) / (qy - py)) 1
      ((maxx - px) / (qx - px)) ((maxy - py) / (qy - py))
      (by norm_num) (by rw [div_le_iff₀ hA']; linarith) (by rw [div_le_iff₀ hB']; linarith)
      (by rw [lt_div_iff₀ hA']; linarith) (by rw [div_lt_div_iff_of_pos_right hA']; linarith)
      (by rw [div_lt_div_iff₀ hB' hA']; nlinarith)
      (by rw [lt_div_iff₀ hB']; linarith) (by rw [div_lt_div_iff₀ hA' hB']; nlinarith)
      (by rw [div_lt_div_iff_of_pos_right hB']; linarith)
    rw [div_le_iff₀ hA'] at t2
    rw [div_le_iff₀ hB'] at t3
    rw [lt_div_iff₀ hA'] at t5
    rw [lt_div_iff₀ hB'] at t6
    exact ⟨t, t1, t4, by linarith, by linarith, by linarith, by linarith⟩

/-- downward segment oriented in +X -/
theorem meets_down (hA : px < qx) (hB : qy < py) (hw : minx < maxx) (hh : miny < maxy) :
    Meets minx maxx miny maxy px py qx qy ↔
      (px < maxx ∧ minx ≤ qx ∧ qy < maxy ∧ miny ≤ py ∧
        cdetQ px py qx qy minx miny ≤ 0 ∧ 0 < cdetQ px py qx qy maxx maxy) := by
  have hA' : 0 < qx - px := by linarith
  have hB' : 0 < py - qy := by linarith
  constructor
  · intro hm
    obtain ⟨e1, e2, e3, e4⟩ := meets_env minx maxx miny maxy px py qx qy (le_of_lt hA) hm
    rw [min_eq_right (le_of_lt hB)] at e3
    rw [max_eq_left (le_of_lt hB)] at e4
    obtain ⟨t, h0, h1, hx1, hx2, hy1, hy2⟩ := hm
    refine ⟨e1, e2, e3, e4, ?_, ?_⟩
    · have k1 : 0 ≤ (qx - px) * ((py + t * (qy - py)) - miny) := mul_nonneg (le_of_lt hA') (by linarith)
      have k2 : 0 ≤ (py - qy) * ((px + t * (qx - px)) - minx) := mul_nonneg (le_of_lt hB') (by linarith)
      unfold cdetQ; nlinarith
    · have k1 : 0 < (qx - px) * (maxy - (py + t * (qy - py))) := mul_pos hA' (by linarith)
      have k2 : 0 < (py - qy) * (maxx - (px + t * (qx - px))) := mul_pos hB' (by linarith)
      unfold cdetQ; nlinarith
  · rintro ⟨e1, e2, e3, e4, dLL, dUR⟩
    unfold cdetQ at dLL dUR
    -- t ≥ 0, t ≥ (minx-px)/A, t > (py-maxy)/(py-qy), t ≤ 1, t ≤ (py-miny)/(py-qy), t < (maxx-px)/A
    obtain ⟨t, t1, t2, t3, t4, t5, t6⟩ := helly_down 0 ((minx - px) / (qx - px)) ((py - maxy) / (py - qy)) 1
      ((py - miny) / (py - qy)) ((maxx - px) / (qx - px))
      (by norm_num) (by rw [le_div_iff₀ hB']; linarith) (by rw [div_le_iff₀ hA']; linarith)
      (by rw [div_le_div_iff₀ hA' hB']; nlinarith)
      (by rw [lt_div_iff₀ hA']; linarith) (by rw [div_lt_div_iff_of_pos_right hA']; linarith)
      (by rw [div_lt_iff₀ hB']; linarith) (by rw [div_lt_div_iff_of_pos_right hB']; linarith)
      (by rw [div_lt_div_iff₀ hB' hA']; nlinarith)
    rw [div_le_iff₀ hA'] at t2
    rw [div_lt_iff₀ hB'] at t3
    rw [le_div_iff₀ hB'] at t5
    rw [lt_div_iff₀ hA'] at t6
    exact ⟨t, t1, t4, by linarith, by linarith, by nlinarith, by nlinarith⟩

/-- one ordinate: the closed interval between `u` and `v` meets `[lo, hi)` -/
theorem seg1d (lo hi u v : ℚ) (hlo : lo < hi) (h1 : min u v < hi) (h2 : lo ≤ max u v) :
    ∃ t : ℚ, 0 ≤ t ∧ t ≤ 1 ∧ lo ≤ u + t * (v - u) ∧ u + t * (v - u) < hi := by
  by_cases hu : lo ≤ u ∧ u < hi
  · exact ⟨0, le_refl _, by norm_num, by linarith [hu.1], by linarith [hu.2]⟩
  by_cases hv : lo ≤ v ∧ v < hi
  · exact ⟨1, by norm_num, le_refl _, by linarith [hv.1], by linarith [hv.2]⟩
  rcases le_total u v with huv | huv
  · rw [min_eq_left huv] at h1
    rw [max_eq_right huv] at h2
    have hul : u < lo := by
      by_contra hc
      exact hu ⟨not_lt.mp hc, h1⟩
    have hvh : hi ≤ v := by
      by_contra hc
      exact hv ⟨h2, not_le.mp hc⟩
    have hd : 0 < v - u := by linarith
    refine ⟨(lo - u) / (v - u), div_nonneg (by linarith) (le_of_lt hd), by rw [div_le_iff₀ hd]; linarith, ?_, ?_⟩
    · rw [div_mul_cancel₀ _ (ne_of_gt hd)]; linarith
    · rw [div_mul_cancel₀ _ (ne_of_gt hd)]; linarith
  · rw [min_eq_right huv] at h1
    rw [max_eq_left huv] at h2
    have hvl : v < lo := by
      by_contra hc
      exact hv ⟨not_lt.mp hc, h1⟩
    have huh : hi ≤ u := by
      by_contra hc
      exact hu ⟨h2, not_le.mp hc⟩
    have hd : 0 < u - v := by linarith
    refine ⟨(u - lo) / (u - v), div_nonneg (by linarith) (le_of_lt hd), by rw [div_le_iff₀ hd]; linarith, ?_, ?_⟩
    · have : (u - lo) / (u - v) * (v - u) = -(u - lo) := by
        rw [show v - u = -(u - v) by ring, mul_neg, div_mul_cancel₀ _ (ne_of_gt hd)]
      rw [this]; linarith
    · have : (u - lo) / (u - v) * (v - u) = -(u - lo) := by
        rw [show v - u = -(u - v) by ring, mul_neg, div_mul_cancel₀ _ (ne_of_gt hd)]
      rw [this]; linarith

/-- vertical segment (or a single point) -/
theorem meets_vertical (hx : px = qx) (hh : miny < maxy) :
    Meets minx maxx miny maxy px py qx qy ↔
      (px < maxx ∧ minx ≤ qx ∧ min py qy < maxy ∧ miny ≤ max py qy) := by
  constructor
  · exact meets_env minx maxx miny maxy px py qx qy (le_of_eq hx)
  · rintro ⟨e1, e2, e3, e4⟩
    obtain ⟨t, h0, h1, hy1, hy2⟩ := seg1d miny maxy py qy hh e3 e4
    refine ⟨t, h0, h1, ?_, ?_, hy1, hy2⟩ <;> rw [hx] <;> simp <;> linarith

/-- horizontal segment oriented in +X -/
theorem meets_horizontal (hA : px < qx) (hy : py = qy) (hw : minx < maxx) :
    Meets minx maxx miny maxy px py qx qy ↔
      (px < maxx ∧ minx ≤ qx ∧ min py qy < maxy ∧ miny ≤ max py qy) := by
  constructor
  · exact meets_env minx maxx miny maxy px py qx qy (le_of_lt hA)
  · rintro ⟨e1, e2, e3, e4⟩
    rw [hy, min_self] at e3
    rw [hy, max_self] at e4
    obtain ⟨t, h0, h1, hx1, hx2⟩ := seg1d minx maxx px qx hw (by rw [min_eq_left (le_of_lt hA)]; exact e1)
      (by rw [max_eq_right (le_of_lt hA)]; exact e2)
    refine ⟨t, h0, h1, hx1, hx2, ?_, ?_⟩ <;> rw [hy] <;> simp <;> linarith

end geom

/-! ### assembly -/

/-- the oriented body decides `Meets` -/
theorem intersectsOriented_iff (h : Px) (hw : h.minx < h.maxx) (hh : h.miny < h.maxy)
    (px py qx qy : ℤ) (hA : px ≤ qx) :
    intersectsOriented h px py qx qy = true ↔
      Meets h.minx h.maxx h.miny h.maxy px py qx qy := by
  have hwQ : (h.minx : ℚ) < h.maxx := by exact_mod_cast hw
  have hhQ : (h.miny : ℚ) < h.maxy := by exact_mod_cast hh
  have hAQ : (px : ℚ) ≤ qx := by exact_mod_cast hA
  rw [intersectsOriented_eq, min_eq_left hA, max_eq_right hA]
  -- what every meeting segment satisfies, back in ℤ
  have env : Meets h.minx h.maxx h.miny h.maxy px py qx qy →
      px < h.maxx ∧ h.minx ≤ qx ∧ min py qy < h.maxy ∧ h.miny ≤ max py qy := by
    intro hm
    obtain ⟨e1, e2, e3, e4⟩ := meets_env _ _ _ _ _ _ _ _ hAQ hm
    rw [← Int.cast_min] at e3
    rw [← Int.cast_max] at e4
    exact ⟨by exact_mod_cast e1, by exact_mod_cast e2, by exact_mod_cast e3, by exact_mod_cast e4⟩
  by_cases c1 : h.maxx ≤ px
  · simp only [c1, if_true]
    constructor
    · intro hf; cases hf
    · intro hm; have := (env hm).1; omega
  by_cases c2 : qx < h.minx
  · simp only [c1, c2, if_true, if_false]
    constructor
    · intro hf; cases hf
    · intro hm; have := (env hm).2.1; omega
  by_cases c3 : h.maxy ≤ min py qy
  · simp only [c1, c2, c3, if_true, if_false]
    constructor
    · intro hf; cases hf
    · intro hm; have := (env hm).2.2.1; omega
  by_cases c4 : max py qy < h.miny
  · simp only [c1, c2, c3, c4, if_true, if_false]
    constructor
    · intro hf; cases hf
    · intro hm; have := (env hm).2.2.2; omega
  simp only [c1, c2, c3, c4, if_false]
  have e1 : (px : ℚ) < h.maxx := by exact_mod_cast not_le.mp c1
  have e2 : (h.minx : ℚ) ≤ qx := by exact_mod_cast not_lt.mp c2
  have e3 : min (py : ℚ) qy < h.maxy := by rw [← Int.cast_min]; exact_mod_cast not_le.mp c3
  have e4 : (h.miny : ℚ) ≤ max (py : ℚ) qy := by rw [← Int.cast_max]; exact_mod_cast not_lt.mp c4
  by_cases c5 : px = qx
  · simp only [c5, if_true, true_iff]
    have := (meets_vertical h.minx h.maxx h.miny h.maxy qx py qx qy rfl hhQ).mpr
      ⟨by rw [← c5]; exact e1, e2, e3, e4⟩
    exact this
  have hA' : px < qx := lt_of_le_of_ne hA c5
  have hAQ' : (px : ℚ) < qx := by exact_mod_cast hA'
  by_cases c6 : py = qy
  · subst c6
    simp only [c5, if_true, if_false, true_iff]
    exact (meets_horizontal h.minx h.maxx h.miny h.maxy px py qx py hAQ' rfl hwQ).mpr ⟨e1, e2, e3, e4⟩
  simp only [c5, c6, if_false, orientIdx_eq]
  have hw' : 0 < h.maxx - h.minx := by omega
  have hh' : 0 < h.maxy - h.miny := by omega
  rcases lt_or_gt_of_ne c6 with hB | hB
  · -- upward
    have hB' : 0 < qy - py := by omega
    have hA'' : 0 < qx - px := by omega
    have o1 : cdet px py qx qy h.maxx h.miny < cdet px py qx qy h.minx h.miny := by
      unfold cdet; nlinarith [mul_pos hB' hw']
    have o2 : cdet px py qx qy h.minx h.miny < cdet px py qx qy h.minx h.maxy := by
      unfold cdet; nlinarith [mul_pos hA'' hh']
    have o3 : cdet px py qx qy h.maxx h.miny < cdet px py qx qy h.maxx h.maxy := by
      unfold cdet; nlinarith [mul_pos hA'' hh']
    have o4 : cdet px py qx qy h.maxx h.maxy < cdet px py qx qy h.minx h.maxy := by
      unfold cdet; nlinarith [mul_pos hB' hw']
    rw [tree_up py qy _ _ _ _ hB o1 o2 o3 o4]
    have hBQ : (py : ℚ) < qy := by exact_mod_cast hB
    rw [meets_up _ _ _ _ _ _ _ _ hAQ' hBQ hwQ hhQ, ← cdet_cast, ← cdet_cast]
    rw [min_eq_left (le_of_lt hBQ)] at e3
    rw [max_eq_right (le_of_lt hBQ)] at e4
    constructor
    · rintro ⟨d1, d2⟩
      exact ⟨e1, e2, e3, e4, by exact_mod_cast d1, by exact_mod_cast d2⟩
    · rintro ⟨_, _, _, _, d1, d2⟩
      exact ⟨by exact_mod_cast d1, by exact_mod_cast d2⟩
  · -- downward
    have hB' : 0 < py - qy := by omega
    have hA'' : 0 < qx - px := by omega
    have o1 : cdet px py qx qy h.minx h.miny < cdet px py qx qy h.maxx h.miny := by
      unfold cdet; nlinarith [mul_pos hB' hw']
    have o2 : cdet px py qx qy h.minx h.miny < cdet px py qx qy h.minx h.maxy := by
      unfold cdet; nlinarith [mul_pos hA'' hh']
    have o3 : cdet px py qx qy h.maxx h.miny < cdet px py qx qy h.maxx h.maxy := by
      unfold cdet; nlinarith [mul_pos hA'' hh']
    have o4 : cdet px py qx qy h.minx h.maxy < cdet px py qx qy h.maxx h.maxy := by
      unfold cdet; nlinarith [mul_pos hB' hw']
    rw [tree_down py qy _ _ _ _ hB o1 o2 o3 o4]
    have hBQ : (qy : ℚ) < py := by exact_mod_cast hB
    rw [meets_down _ _ _ _ _ _ _ _ hAQ' hBQ hwQ hhQ, ← cdet_cast, ← cdet_cast]
    rw [min_eq_right (le_of_lt hBQ)] at e3
    rw [max_eq_left (le_of_lt hBQ)] at e4
    constructor
    · rintro ⟨d1, d2⟩
      exact ⟨e1, e2, e3, e4, by exact_mod_cast d1, by exact_mod_cast d2⟩
    · rintro ⟨_, _, _, _, d1, d2⟩
      exact ⟨by exact_mod_cast d1, by exact_mod_cast d2⟩

/-- `HotPixel::intersectsScaled` decides whether the closed segment meets the half-open pixel -/
theorem intersectsScaled_iff (h : Px) (hw : h.minx < h.maxx) (hh : h.miny < h.maxy) (p0x p0y p1x p1y : ℤ) :
    intersectsScaled h p0x p0y p1x p1y = true ↔
      Meets h.minx h.maxx h.miny h.maxy p0x p0y p1x p1y := by
  unfold intersectsScaled
  split
  · rename_i hs
    rw [intersectsOriented_iff h hw hh p1x p1y p0x p0y (le_of_lt hs)]
    exact meets_symm _ _ _ _ _ _ _ _
  · rename_i hs
    exact intersectsOriented_iff h hw hh p0x p0y p1x p1y (not_lt.mp hs)

/-- `HotPixel::intersects(p)`: the point lies in the half-open pixel -/
theorem intersectsPt_iff (h : Px) (x y : ℤ) :
    intersectsPt h x y = true ↔ (h.minx ≤ x ∧ x < h.maxx ∧ h.miny ≤ y ∧ y < h.maxy) := by
  unfold intersectsPt
  by_cases a : h.maxx ≤ x <;> by_cases b : x < h.minx <;> by_cases c : h.maxy ≤ y <;> by_cases d : y < h.miny <;>
    simp [a, b, c, d]; omega

end GeosModel.Precision
