import GeosModel.Model.Precision.Collapse
/-! Lemmas about the complete-collapse decision core (`Model/Precision/Collapse.lean`). -/
namespace GeosModel.Precision.Collapse

/-- an operand without surviving edges is EXTERIOR for every point, whatever its original locator says -/
theorem locate_collapsed {P : Type} (hasEdgesFor empty area : Fin 2 → Bool) (locator : Fin 2 → P → Loc) (i : Fin 2)
    (h : hasEdgesFor i = false) (pt : P) :
    locatePointInArea (inputAfterNoding hasEdgesFor empty area locator) i pt = .exterior := by
  simp [locatePointInArea, inputAfterNoding, collapsedFlags, h]

/-- … and an operand that kept an edge (and is not empty) is located with its own original locator -/
theorem locate_not_collapsed {P : Type} (hasEdgesFor empty area : Fin 2 → Bool) (locator : Fin 2 → P → Loc) (i : Fin 2)
    (h : hasEdgesFor i = true) (he : empty i = false) (pt : P) :
    locatePointInArea (inputAfterNoding hasEdgesFor empty area locator) i pt = locator i pt := by
  simp [locatePointInArea, inputAfterNoding, collapsedFlags, h, he]

theorem label_collapsed {P : Type} (hasEdgesFor empty area : Fin 2 → Bool) (locator : Fin 2 → P → Loc) (i : Fin 2)
    (h : hasEdgesFor i = false) (orig dest : P) :
    labelDisconnectedEdge (inputAfterNoding hasEdgesFor empty area locator) i orig dest = .exterior := by
  unfold labelDisconnectedEdge locateEdgeBothEnds
  rw [locate_collapsed hasEdgesFor empty area locator i h, locate_collapsed hasEdgesFor empty area locator i h]
  simp

theorem ops_second_exterior (l0 : Loc) :
    isResultOfOp .intersection l0 .exterior = false ∧
    isResultOfOp .union l0 .exterior = decide (l0 ≠ .exterior) ∧
    isResultOfOp .difference l0 .exterior = decide (l0 ≠ .exterior) ∧
    isResultOfOp .symdifference l0 .exterior = decide (l0 ≠ .exterior) := by
  cases l0 <;> decide

theorem ops_first_exterior (l1 : Loc) :
    isResultOfOp .intersection .exterior l1 = false ∧
    isResultOfOp .difference .exterior l1 = false ∧
    isResultOfOp .union .exterior l1 = decide (l1 ≠ .exterior) ∧
    isResultOfOp .symdifference .exterior l1 = decide (l1 ≠ .exterior) := by
  cases l1 <;> decide

theorem pairs_mem {α : Type} : ∀ (l : List α) (e : α × α), e ∈ pairs l → e.1 ∈ l ∧ e.2 ∈ l
  | [], e, h => by simp [pairs] at h
  | [_], e, h => by simp [pairs] at h
  | a :: b :: r, e, h => by
    simp only [pairs, List.mem_cons] at h
    rcases h with h | h
    · subst h; simp
    · have := pairs_mem (b :: r) e h
      exact ⟨List.mem_cons_of_mem _ this.1, List.mem_cons_of_mem _ this.2⟩

/-- **a chain keeps no edge under rounding iff all its vertices round to one point** (a chain is connected: if two
consecutive vertices always land together, all do) -/
theorem keepsEdge_false_iff {α β : Type} [DecidableEq β] (rd : α → β) :
    ∀ chain : List α, keepsEdge rd chain = false ↔ allSame rd chain = true
  | [] => by simp [keepsEdge, pairs, allSame]
  | [a] => by simp [keepsEdge, pairs, allSame]
  | a :: b :: r => by
    have ih := keepsEdge_false_iff rd (b :: r)
    simp only [keepsEdge, pairs, List.any_cons, Bool.or_eq_false_iff, decide_eq_false_iff_not, ne_eq, Decidable.not_not] at ih ⊢
    simp only [allSame, List.all_cons, Bool.and_eq_true, decide_eq_true_eq, List.all_eq_true] at ih ⊢
    constructor
    · rintro ⟨hab, hrest⟩
      have hb := ih.mp hrest
      exact ⟨hab.symm, fun v hv => (hb v hv).trans hab.symm⟩
    · rintro ⟨hba, hr⟩
      exact ⟨hba.symm, ih.mpr (fun v hv => (hr v hv).trans hba.symm)⟩

end GeosModel.Precision.Collapse
