import GeosModel.Model.Precision.CxxVal
import GeosModel.Proofs.Precision.RoundLemmas
/-!
# Unfolding lemmas for regenerated code instantiated at `Rat` and at `F64.Val` (used by Props/C04GenRound.lean)
-/
namespace GeosModel.Precision
open GeosModel
open GeosModel.F64 (Val)

/-! ### `Rat` -/
@[simp] theorem rat_abs (a : Rat) : Cxx.Ring.abs a = absQ a := rfl
theorem rat_ofDec (m e : Int) : (Cxx.Field.ofDec m e : Rat) = (m : Rat) * Cxx.pow10 e := rfl
theorem pow10_neg_one : Cxx.pow10 (-1) = 1 / 10 := by decide +kernel
@[simp] theorem rat_dec_half : (Cxx.Field.ofDec 5 (-1) : Rat) = half := by decide +kernel
@[simp] theorem rat_dec_zero (e : Int) : (Cxx.Field.ofDec 0 e : Rat) = 0 := by
  show ((0 : Int) : Rat) * Cxx.pow10 e = 0
  simp

/-! ### `F64.Val` -/
@[simp] theorem val_lt (a b : Val) : Cxx.Ord.lt a b = vLt a b := rfl
@[simp] theorem val_le (a b : Val) : Cxx.Ord.le a b = vLe a b := rfl
@[simp] theorem val_eq (a b : Val) : Cxx.Ord.eq a b = vFeq a b := rfl
@[simp] theorem val_add (a b : Val) : Cxx.Ring.add a b = addF a b := rfl
@[simp] theorem val_sub (a b : Val) : Cxx.Ring.sub a b = subF a b := rfl
@[simp] theorem val_mul (a b : Val) : Cxx.Ring.mul a b = mulF a b := rfl
@[simp] theorem val_neg (a : Val) : Cxx.Ring.neg a = vNegate a := rfl
@[simp] theorem val_abs (a : Val) : Cxx.Ring.abs a = vFabs a := rfl
@[simp] theorem val_div (a b : Val) : Cxx.Field.div a b = divF a b := rfl
/-- the literals of `PrecisionModel.cpp`: `0`, `0.0`, `1`, `1.0` and `GRIDSIZE_INTEGER_TOLERANCE = 1e-5` -/
@[simp] theorem val_zero : (Cxx.Ring.ofInt 0 : Val) = zero := by decide +kernel
@[simp] theorem val_one : (Cxx.Ring.ofInt 1 : Val) = one := by decide +kernel
@[simp] theorem val_dec_zero (e : Int) : (Cxx.Field.ofDec 0 e : Val) = zero := by
  show roundNE false (((0 : Int) : Rat) * Cxx.pow10 e) = zero
  have : ((0 : Int) : Rat) * Cxx.pow10 e = 0 := by simp
  rw [this]; decide +kernel
@[simp] theorem val_dec_1em5 : (Cxx.Field.ofDec 1 (-5) : Val) = tol1em5 := by decide +kernel

end GeosModel.Precision
