import GeosModel.Proofs.Precision.RoundLemmas
import Mathlib.Tactic.Positivity
/-!
# Idempotence of the *floating* `makePrecise`, from the relative-error law of rounding

`rnd` stands for "round the exact result to binary64" (`roundNE`).  The only property used is the standard
model `|rnd q − q| ≤ u·|q|` with `u = 2⁻⁵³`, and it is needed at two specific points only (the division and the
multiplication of the *second* application), so no claim is made about subnormals or overflow.  The scale (or
grid size) may be ANY positive number — no power of two / ten is required — as long as the rounded integer
`r = javaRound (rnd (x·s))` satisfies `|r| ≤ 2⁵⁰`.
-/
namespace GeosModel.Precision

/-- the floating composition `round(val * scale) / scale` with rounding function `rnd` -/
def mpScale (rnd : ℚ → ℚ) (s x : ℚ) : ℚ := rnd ((javaRound (rnd (x * s)) : ℚ) / s)

/-- the floating composition `round(val / gridSize) * gridSize` -/
def mpGrid (rnd : ℚ → ℚ) (g x : ℚ) : ℚ := rnd ((javaRound (rnd (x / g)) : ℚ) * g)

theorem javaRound_eq_of_near (y : ℚ) (r : ℤ) (h : |y - r| < 1 / 2) : javaRound y = r := by
  rw [javaRound_eq_floor, Int.floor_eq_iff]
  rw [abs_lt] at h
  constructor <;> linarith [h.1, h.2]

/-- core estimate: `w ≈ r` and `y ≈ w`, each with relative error `2⁻⁵³` (relative to the rounded value) -/
theorem near_of_two_errors (r : ℤ) (w y : ℚ) (hr : |(r : ℚ)| ≤ 2 ^ 50)
    (h1 : |w - r| ≤ (2 : ℚ)⁻¹ ^ 53 * |w|) (h2 : |y - w| ≤ (2 : ℚ)⁻¹ ^ 53 * |y|) :
    |y - r| < 1 / 2 := by
  have hu : (2 : ℚ)⁻¹ ^ 53 = 1 / 9007199254740992 := by norm_num
  rw [hu] at h1 h2
  have t1 : |w| ≤ |(r : ℚ)| + |w - r| := by
    have := abs_add_le (r : ℚ) (w - r); simpa using this
  have t2 : |y| ≤ |w| + |y - w| := by
    have := abs_add_le w (y - w); simpa using this
  have t3 : |y - r| ≤ |y - w| + |w - r| := by
    have := abs_add_le (y - w) (w - r); simpa using this
  have hp : (2 : ℚ) ^ 50 = 1125899906842624 := by norm_num
  rw [hp] at hr
  have e1 : |w| ≤ 1125899906842624 + 1 / 4 := by linarith
  have e2 : |y| ≤ 1125899906842624 + 1 / 2 := by linarith
  linarith

/-- the second `round(val * scale)` lands on the same integer: `z ≈ r/s`, `y ≈ z·s` ⟹ `javaRound y = r` -/
theorem second_round_eq (r : ℤ) (s z y : ℚ) (hs : 0 < s) (hr : |(r : ℚ)| ≤ 2 ^ 50)
    (hdiv : |z - (r : ℚ) / s| ≤ (2 : ℚ)⁻¹ ^ 53 * |z|) (hmul : |y - z * s| ≤ (2 : ℚ)⁻¹ ^ 53 * |y|) :
    javaRound y = r := by
  have h1 : |z * s - r| ≤ (2 : ℚ)⁻¹ ^ 53 * |z * s| := by
    have e : z * s - r = (z - (r : ℚ) / s) * s := by field_simp
    rw [e, abs_mul, abs_mul, abs_of_pos hs, ← mul_assoc]
    exact mul_le_mul_of_nonneg_right hdiv (le_of_lt hs)
  exact javaRound_eq_of_near _ _ (near_of_two_errors r (z * s) y hr h1 hmul)

/-- **scale branch** (`gridSize ≤ 1`): `makePrecise ∘ makePrecise = makePrecise` for the floating composition.
`r = javaRound (rnd (x·s))` is the integer the first application rounds to.  Hypotheses: `|r| ≤ 2⁵⁰`, and the
relative-error law of `rnd` (relative to the rounded value) at the two operations of the second application. -/
theorem mpScale_idem (rnd : ℚ → ℚ) (s x : ℚ) (hs : 0 < s)
    (hr : |(javaRound (rnd (x * s)) : ℚ)| ≤ 2 ^ 50)
    (hdiv : |mpScale rnd s x - (javaRound (rnd (x * s)) : ℚ) / s| ≤ (2 : ℚ)⁻¹ ^ 53 * |mpScale rnd s x|)
    (hmul : |rnd (mpScale rnd s x * s) - mpScale rnd s x * s| ≤ (2 : ℚ)⁻¹ ^ 53 * |rnd (mpScale rnd s x * s)|) :
    mpScale rnd s (mpScale rnd s x) = mpScale rnd s x := by
  have hzdef : mpScale rnd s x = rnd ((javaRound (rnd (x * s)) : ℚ) / s) := rfl
  generalize hrdef : javaRound (rnd (x * s)) = r at hr hdiv hzdef
  generalize hz : mpScale rnd s x = z at hdiv hmul hzdef ⊢
  -- z * s is r up to the division error
  have h1 : |z * s - r| ≤ (2 : ℚ)⁻¹ ^ 53 * |z * s| := by
    have e : z * s - r = (z - (r : ℚ) / s) * s := by field_simp
    rw [e, abs_mul, abs_mul, abs_of_pos hs, ← mul_assoc]
    exact mul_le_mul_of_nonneg_right hdiv (le_of_lt hs)
  have hnear := near_of_two_errors r (z * s) (rnd (z * s)) hr h1 hmul
  have : javaRound (rnd (z * s)) = r := javaRound_eq_of_near _ _ hnear
  show rnd ((javaRound (rnd (z * s)) : ℚ) / s) = z
  rw [this, hzdef]

/-- **grid branch** (`gridSize > 1`) -/
theorem mpGrid_idem (rnd : ℚ → ℚ) (g x : ℚ) (hg : 0 < g)
    (hr : |(javaRound (rnd (x / g)) : ℚ)| ≤ 2 ^ 50)
    (hmul : |mpGrid rnd g x - (javaRound (rnd (x / g)) : ℚ) * g| ≤ (2 : ℚ)⁻¹ ^ 53 * |mpGrid rnd g x|)
    (hdiv : |rnd (mpGrid rnd g x / g) - mpGrid rnd g x / g| ≤ (2 : ℚ)⁻¹ ^ 53 * |rnd (mpGrid rnd g x / g)|) :
    mpGrid rnd g (mpGrid rnd g x) = mpGrid rnd g x := by
  have hzdef : mpGrid rnd g x = rnd ((javaRound (rnd (x / g)) : ℚ) * g) := rfl
  generalize hrdef : javaRound (rnd (x / g)) = r at hr hmul hzdef
  generalize hz : mpGrid rnd g x = z at hdiv hmul hzdef ⊢
  have h1 : |z / g - r| ≤ (2 : ℚ)⁻¹ ^ 53 * |z / g| := by
    have e : z / g - r = (z - (r : ℚ) * g) / g := by field_simp
    rw [e, abs_div, abs_div, abs_of_pos hg, ← mul_div_assoc]
    exact div_le_div_of_nonneg_right hmul (le_of_lt hg)
  have hnear := near_of_two_errors r (z / g) (rnd (z / g)) hr h1 hdiv
  have : javaRound (rnd (z / g)) = r := javaRound_eq_of_near _ _ hnear
  show rnd ((javaRound (rnd (z / g)) : ℚ) * g) = z
  rw [this, hzdef]

end GeosModel.Precision
