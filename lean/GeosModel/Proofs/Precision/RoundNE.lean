import GeosModel.Model.Precision.Round
import Mathlib.Data.Rat.Floor
import Mathlib.Tactic.Linarith
import Mathlib.Tactic.Ring
import Mathlib.Tactic.FieldSimp
import Mathlib.Tactic.Positivity
/-!
# `roundMag` (the executable round-to-nearest-even of the model) obeys the standard model of rounding

For `a/d > 0`, if `roundMag a d = some (m, e)` with a full mantissa `2^52 ≤ m`, then
`|m·2^e − a/d| ≤ 2^-53 · (m·2^e)`: relative error at most `2^-53` (relative to the rounded value).
Only two facts are used: `divRoundEven num den` is within ½ of `num/den`, and `num/den = (a/d) / 2^e` for the
exponent the function chose (whatever it chose — nothing about `Nat.log2` is needed).
-/
namespace GeosModel.Precision

theorem divRoundEven_err (num den : ℕ) (hden : 0 < den) :
    |(divRoundEven num den : ℚ) - (num : ℚ) / den| ≤ 1 / 2 := by
  have hd : (0 : ℚ) < den := by exact_mod_cast hden
  have hsplit : (num : ℚ) = (den : ℚ) * (num / den : ℕ) + (num % den : ℕ) := by
    exact_mod_cast (Nat.div_add_mod num den).symm
  have hr : ((num % den : ℕ) : ℚ) < den := by exact_mod_cast Nat.mod_lt num hden
  have hr0 : (0 : ℚ) ≤ ((num % den : ℕ) : ℚ) := by positivity
  have hq : (num : ℚ) / den = (num / den : ℕ) + ((num % den : ℕ) : ℚ) / den := by
    rw [hsplit]; field_simp
  unfold divRoundEven
  simp only
  rw [hq]
  split
  · rename_i h1
    have h1' : (den : ℚ) < 2 * ((num % den : ℕ) : ℚ) := by exact_mod_cast h1
    have : ((num % den : ℕ) : ℚ) / den > 1 / 2 := by rw [gt_iff_lt, lt_div_iff₀ hd]; linarith
    have : ((num % den : ℕ) : ℚ) / den < 1 := by rw [div_lt_one hd]; exact hr
    push_cast
    rw [abs_le]; constructor <;> linarith
  · split
    · rename_i h1 h2
      have h2' : 2 * ((num % den : ℕ) : ℚ) = den := by exact_mod_cast h2
      have : ((num % den : ℕ) : ℚ) / den = 1 / 2 := by rw [div_eq_iff (ne_of_gt hd)]; linarith
      rw [this]
      rcases Nat.mod_two_eq_zero_or_one (num / den) with h | h <;> rw [h] <;> push_cast <;> rw [abs_le] <;>
        constructor <;> linarith
    · rename_i h1 h2
      have h1' : 2 * ((num % den : ℕ) : ℚ) ≤ den := by exact_mod_cast not_lt.mp h1
      have : ((num % den : ℕ) : ℚ) / den ≤ 1 / 2 := by rw [div_le_iff₀ hd]; linarith
      have : 0 ≤ ((num % den : ℕ) : ℚ) / den := div_nonneg hr0 (le_of_lt hd)
      rw [abs_le]; constructor <;> linarith

/-- the mantissa before renormalisation is within ½ of `(a/d) / 2^e` -/
theorem mant_err (a d : ℕ) (hd : 0 < d) (e : ℤ) :
    |((if 0 ≤ e then divRoundEven a (d * pow2 e.toNat) else divRoundEven (a * pow2 (-e).toNat) d : ℕ) : ℚ) * 2 ^ e
        - (a : ℚ) / d| ≤ 2 ^ e / 2 := by
  have hdq : (0 : ℚ) < d := by exact_mod_cast hd
  have h2e : (0 : ℚ) < 2 ^ e := zpow_pos (by norm_num) e
  split
  · rename_i he
    have hpow : ((pow2 e.toNat : ℕ) : ℚ) = 2 ^ e := by
      unfold pow2; push_cast
      rw [← zpow_natCast]; congr 1; exact Int.toNat_of_nonneg he
    have hden : 0 < d * pow2 e.toNat := Nat.mul_pos hd (by unfold pow2; positivity)
    have h := divRoundEven_err a (d * pow2 e.toNat) hden
    push_cast at h
    rw [hpow] at h
    have e1 : (divRoundEven a (d * pow2 e.toNat) : ℚ) * 2 ^ e - (a : ℚ) / d =
        ((divRoundEven a (d * pow2 e.toNat) : ℚ) - (a : ℚ) / (d * 2 ^ e)) * 2 ^ e := by field_simp
    rw [e1, abs_mul, abs_of_pos h2e]
    calc _ ≤ 1 / 2 * 2 ^ e := mul_le_mul_of_nonneg_right h (le_of_lt h2e)
      _ = 2 ^ e / 2 := by ring
  · rename_i he
    have he' : 0 ≤ -e := by omega
    have hpow : ((pow2 (-e).toNat : ℕ) : ℚ) = 2 ^ (-e) := by
      unfold pow2; push_cast
      rw [← zpow_natCast]; congr 1; exact Int.toNat_of_nonneg he'
    have h := divRoundEven_err (a * pow2 (-e).toNat) d hd
    push_cast at h
    rw [hpow] at h
    have hinv : (2 : ℚ) ^ (-e) * 2 ^ e = 1 := by rw [← zpow_add₀ (by norm_num : (2 : ℚ) ≠ 0)]; simp
    have e1 : (divRoundEven (a * pow2 (-e).toNat) d : ℚ) * 2 ^ e - (a : ℚ) / d =
        ((divRoundEven (a * pow2 (-e).toNat) d : ℚ) - (a : ℚ) * 2 ^ (-e) / d) * 2 ^ e := by
      have : (a : ℚ) * 2 ^ (-e) / d * 2 ^ e = (a : ℚ) / d := by
        rw [div_mul_eq_mul_div, mul_assoc, hinv, mul_one]
      rw [sub_mul, this]
    rw [e1, abs_mul, abs_of_pos h2e]
    calc _ ≤ 1 / 2 * 2 ^ e := mul_le_mul_of_nonneg_right h (le_of_lt h2e)
      _ = 2 ^ e / 2 := by ring

/-- relative error of `roundMag` on results with a full mantissa -/
theorem roundMag_rel_err (a d m : ℕ) (e : ℤ) (ha : 0 < a) (hd : 0 < d)
    (h : roundMag a d = some (m, e)) (hn : 2 ^ 52 ≤ m) :
    |(m : ℚ) * 2 ^ e - (a : ℚ) / d| ≤ (2 : ℚ)⁻¹ ^ 53 * ((m : ℚ) * 2 ^ e) := by
  unfold roundMag at h
  rw [if_neg (by omega)] at h
  simp only at h
  generalize hE : binadeExp a d = e0 at h
  have hm := mant_err a d hd e0
  generalize hM : (if 0 ≤ e0 then divRoundEven a (d * pow2 e0.toNat) else divRoundEven (a * pow2 (-e0).toNat) d) = m0 at h hm
  have h2e : (0 : ℚ) < 2 ^ e0 := zpow_pos (by norm_num) e0
  by_cases hc : m0 = pow2 53
  · rw [if_pos hc] at h
    simp only at h
    split at h
    · cases h
    · injection h with h
      injection h with h1 h2
      subst h1 h2
      have hv : ((pow2 52 : ℕ) : ℚ) * 2 ^ (e0 + 1) = (m0 : ℚ) * 2 ^ e0 := by
        rw [hc, zpow_add₀ (by norm_num : (2 : ℚ) ≠ 0)]; unfold pow2; push_cast; ring
      rw [hv]
      have : (m0 : ℚ) = 2 ^ 53 := by rw [hc]; unfold pow2; push_cast; rfl
      calc _ ≤ 2 ^ e0 / 2 := hm
        _ ≤ (2 : ℚ)⁻¹ ^ 53 * ((m0 : ℚ) * 2 ^ e0) := by rw [this]; ring_nf; linarith
  · rw [if_neg hc] at h
    simp only at h
    split at h
    · cases h
    · injection h with h
      injection h with h1 h2
      subst h1 h2
      have hmq : (2 : ℚ) ^ 52 ≤ (m0 : ℚ) := by exact_mod_cast hn
      calc _ ≤ 2 ^ e0 / 2 := hm
        _ = (2 : ℚ)⁻¹ ^ 53 * (2 ^ 52 * 2 ^ e0) := by ring
        _ ≤ (2 : ℚ)⁻¹ ^ 53 * ((m0 : ℚ) * 2 ^ e0) := by
          apply mul_le_mul_of_nonneg_left _ (by positivity)
          exact mul_le_mul_of_nonneg_right hmq (le_of_lt h2e)

end GeosModel.Precision
