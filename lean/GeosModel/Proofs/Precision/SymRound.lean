import GeosModel.Proofs.Precision.RoundLemmas
/-!
# `sym_round` against `java_math_round`

`symRound x = javaRound x` for `x ≥ 0`, `= −javaRound(−x)` for `x < 0` (round half AWAY from zero); the two rounding
functions of `src/util/math.cpp` differ exactly at the negative ties `k + ½ < 0`, where `sym_round` is one less.
-/
namespace GeosModel.Precision

theorem symRound_eq (x : ℚ) : symRound x = if 0 ≤ x then javaRound x else -javaRound (-x) := by
  by_cases hx : 0 ≤ x
  · simp only [hx, if_true]
    unfold symRound javaRound
    simp only [hx, if_true]
  · simp only [hx, if_false]
    have hx' : x < 0 := not_le.mp hx
    have hnx : 0 ≤ -x := by linarith
    have hfl := Int.floor_le x
    have hcl := Int.le_ceil x
    have hcl' := Int.ceil_lt_add_one x
    unfold symRound javaRound modfInt
    simp only [hx, hnx, if_true, if_false, floor_eq, ceilQ_eq, absQ_eq, half_eq, Int.floor_neg, Int.ceil_neg]
    have h1 : |x - ((⌈x⌉ : ℤ) : ℚ)| = ⌈x⌉ - x := by rw [abs_of_nonpos (by linarith)]; ring
    have h2 : |-x - ((-⌈x⌉ : ℤ) : ℚ)| = ⌈x⌉ - x := by
      push_cast
      rw [abs_of_nonneg (by linarith)]; ring
    rw [h1, h2]
    split
    · simp
    · split
      · simp
      · ring

/-- `javaRound x = ⌊x + ½⌋`, `symRound x = ⌈x − ½⌉` for negative `x` -/
theorem symRound_neg_eq_ceil (x : ℚ) (hx : x < 0) : symRound x = ⌈x - 1 / 2⌉ := by
  rw [symRound_eq, if_neg (not_le.mpr hx), javaRound_eq_floor, ← Int.ceil_neg]
  congr 1; ring

/-- the two rounding functions agree except at negative ties, where `sym_round` is one less -/
theorem symRound_vs_javaRound (x : ℚ) :
    symRound x = javaRound x ∨ (x < 0 ∧ (∃ k : ℤ, x = (k : ℚ) + 1 / 2) ∧ symRound x = javaRound x - 1) := by
  by_cases hx : 0 ≤ x
  · left; rw [symRound_eq, if_pos hx]
  · have hx' : x < 0 := not_le.mp hx
    rw [symRound_neg_eq_ceil x hx', javaRound_eq_floor]
    by_cases hi : ((⌊x - 1 / 2⌋ : ℤ) : ℚ) = x - 1 / 2
    · right
      refine ⟨hx', ⟨⌊x - 1 / 2⌋, by linarith⟩, ?_⟩
      have hc : ⌈x - 1 / 2⌉ = ⌊x - 1 / 2⌋ := by
        rw [Int.ceil_eq_iff]; constructor <;> linarith
      have hf : ⌊x + 1 / 2⌋ = ⌊x - 1 / 2⌋ + 1 := by
        rw [Int.floor_eq_iff]; push_cast; constructor <;> linarith
      rw [hc, hf]; ring
    · left
      have h1 := Int.floor_le (x - 1 / 2)
      have h2 := Int.lt_floor_add_one (x - 1 / 2)
      have hlt : ((⌊x - 1 / 2⌋ : ℤ) : ℚ) < x - 1 / 2 := lt_of_le_of_ne h1 hi
      have hc : ⌈x - 1 / 2⌉ = ⌊x - 1 / 2⌋ + 1 := by
        rw [Int.ceil_eq_iff]; push_cast; constructor <;> linarith
      have hf : ⌊x + 1 / 2⌋ = ⌊x - 1 / 2⌋ + 1 := by
        rw [Int.floor_eq_iff]; push_cast; constructor <;> linarith
      rw [hc, hf]

theorem symRound_tie (k : ℤ) : symRound ((k : ℚ) + 1 / 2) = if 0 ≤ k then k + 1 else k := by
  by_cases hk : 0 ≤ k
  · have : (0 : ℚ) ≤ (k : ℚ) + 1 / 2 := by
      have : (0 : ℚ) ≤ k := by exact_mod_cast hk
      linarith
    rw [symRound_eq, if_pos this, if_pos hk, javaRound_tie]
  · have hk' : k ≤ -1 := by omega
    have : (k : ℚ) + 1 / 2 < 0 := by
      have : (k : ℚ) ≤ -1 := by exact_mod_cast hk'
      linarith
    rw [symRound_eq, if_neg (not_le.mpr this), if_neg hk]
    have e : -((k : ℚ) + 1 / 2) = ((-k - 1 : ℤ) : ℚ) + 1 / 2 := by push_cast; ring
    rw [e, javaRound_tie]; ring

end GeosModel.Precision
