import GeosModel.Model.Precision.Reduce
/-!
# Pointwise reduction leaves the tree alone

`mapCG` is a functor on geometry trees: it composes, and the coordinate list of the image is the image of the
coordinate list.  Hence `pointwise pm` keeps the skeleton (types, nesting, flags, counts, order) and changes every
coordinate to `roundC pm` of itself, which touches only X and Y.
-/
namespace GeosModel.Precision
open GeosModel

theorem mapCS_comp (f g : Coord → Coord) (s : CSeq) : mapCS f (mapCS g s) = mapCS (f ∘ g) s := by
  simp [mapCS, List.map_map]

theorem mapCS_list_comp (f g : Coord → Coord) (hs : List CSeq) :
    (hs.map (mapCS g)).map (mapCS f) = hs.map (mapCS (f ∘ g)) := by
  rw [List.map_map]
  congr 1
  funext s
  exact mapCS_comp f g s

mutual
  theorem mapCG_comp (f g : Coord → Coord) : ∀ x : G, mapCG f (mapCG g x) = mapCG (f ∘ g) x
    | .point s | .lineString s | .linearRing s | .circularString s => by simp [mapCG, mapCS_comp]
    | .polygon sh hs => by simp only [mapCG, mapCS_comp, mapCS_list_comp]
    | .compoundCurve gs | .curvePolygon gs | .multiPoint gs | .multiLineString gs | .multiPolygon gs
    | .multiCurve gs | .multiSurface gs | .collection gs => by simp only [mapCG, mapCGs_comp f g gs]
  theorem mapCGs_comp (f g : Coord → Coord) : ∀ xs : List G, mapCGs f (mapCGs g xs) = mapCGs (f ∘ g) xs
    | [] => rfl
    | x :: xs => by simp only [mapCGs, mapCG_comp f g x, mapCGs_comp f g xs]
end

theorem flatten_map_pts (f : Coord → Coord) (hs : List CSeq) :
    ((hs.map (mapCS f)).map (·.pts)).flatten = ((hs.map (·.pts)).flatten).map f := by
  induction hs with
  | nil => rfl
  | cons h t ih =>
    simp only [List.map_cons, List.flatten_cons, List.map_append, ih]
    rfl

mutual
  theorem coordsG_map (f : Coord → Coord) : ∀ x : G, coordsG (mapCG f x) = (coordsG x).map f
    | .point s | .lineString s | .linearRing s | .circularString s => by simp [mapCG, coordsG, mapCS]
    | .polygon sh hs => by
      simp only [mapCG, coordsG, List.map_append, flatten_map_pts]
      simp [mapCS]
    | .compoundCurve gs | .curvePolygon gs | .multiPoint gs | .multiLineString gs | .multiPolygon gs
    | .multiCurve gs | .multiSurface gs | .collection gs => by simp only [mapCG, coordsG, coordsGs_map f gs]
  theorem coordsGs_map (f : Coord → Coord) : ∀ xs : List G, coordsGs (mapCGs f xs) = (coordsGs xs).map f
    | [] => rfl
    | x :: xs => by simp only [mapCGs, coordsGs, coordsG_map f x, coordsGs_map f xs, List.map_append]
end

theorem skeleton_pointwise (pm : PM) (g : G) : skeleton (pointwise pm g) = skeleton g := by
  unfold skeleton pointwise
  rw [mapCG_comp]
  rfl

theorem coords_pointwise (pm : PM) (g : G) : coordsG (pointwise pm g) = (coordsG g).map (roundC pm) :=
  coordsG_map _ g

theorem roundC_spec (pm : PM) (c : Coord) :
    (roundC pm c).x = pm.makePreciseBits c.x ∧ (roundC pm c).y = pm.makePreciseBits c.y ∧
    (roundC pm c).z = c.z ∧ (roundC pm c).m = c.m := ⟨rfl, rfl, rfl, rfl⟩

end GeosModel.Precision
