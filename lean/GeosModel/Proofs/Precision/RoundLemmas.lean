import GeosModel.Model.Precision.Round
import Mathlib.Data.Rat.Floor
import Mathlib.Tactic.Linarith
import Mathlib.Tactic.Ring
import Mathlib.Tactic.FieldSimp
/-!
# `javaRound` and `makePrecise` over exact rationals

`javaRound x = ⌊x + 1/2⌋` although the code never computes `x + 0.5`; hence nearest integer, ties toward +∞,
identity on integers, and `makePrecise` is idempotent in both branches.
-/
namespace GeosModel.Precision

theorem floor_eq (x : ℚ) : x.floor = ⌊x⌋ := rfl

theorem ceilQ_eq (x : ℚ) : ceilQ x = ⌈x⌉ := by
  unfold ceilQ
  rw [floor_eq, Int.floor_neg, neg_neg]

theorem half_eq : half = (1 / 2 : ℚ) := rfl

theorem absQ_eq (x : ℚ) : absQ x = |x| := by
  unfold absQ
  split
  · rw [abs_of_neg (by assumption)]
  · rw [abs_of_nonneg (by linarith)]

/-- the branches of `java_math_round` compute `⌊x + 1/2⌋` -/
theorem javaRound_eq_floor (x : ℚ) : javaRound x = ⌊x + 1 / 2⌋ := by
  have hfl := Int.floor_le x
  have hfl' := Int.lt_floor_add_one x
  have hcl := Int.le_ceil x
  have hcl' := Int.ceil_lt_add_one x
  unfold javaRound modfInt
  simp only [floor_eq, ceilQ_eq, absQ_eq, half_eq]
  symm
  by_cases hx : 0 ≤ x
  · simp only [hx, if_true]
    have hf : |x - (⌊x⌋ : ℚ)| = x - ⌊x⌋ := abs_of_nonneg (by linarith)
    rw [hf]
    split
    · rw [Int.floor_eq_iff]; constructor <;> linarith
    · split
      · -- fractional part > 1/2: ceil = floor + 1
        have hne : (⌊x⌋ : ℚ) < x := by linarith
        have hc : ⌈x⌉ = ⌊x⌋ + 1 := by
          rw [Int.ceil_eq_iff]; push_cast; constructor <;> linarith
        rw [hc, Int.floor_eq_iff]; push_cast; constructor <;> linarith
      · rw [Int.floor_eq_iff]; push_cast; constructor <;> linarith
  · simp only [hx, if_false]
    have hf : |x - (⌈x⌉ : ℚ)| = ⌈x⌉ - x := by rw [abs_of_nonpos (by linarith)]; ring
    rw [hf]
    split
    · rw [Int.floor_eq_iff]; constructor <;> linarith
    · split
      · have hc : ⌊x⌋ = ⌈x⌉ - 1 := by
          rw [Int.floor_eq_iff]; push_cast; constructor <;> linarith
        have : ⌊x + 1 / 2⌋ = ⌈x⌉ - 1 := by
          rw [Int.floor_eq_iff]; push_cast; constructor <;> linarith
        rw [this, hc]
      · rw [Int.floor_eq_iff]; constructor <;> linarith

/-- nearest integer: within ½ -/
theorem javaRound_abs_le (x : ℚ) : |(javaRound x : ℚ) - x| ≤ 1 / 2 := by
  rw [javaRound_eq_floor, abs_le]
  have h1 := Int.floor_le (x + 1 / 2)
  have h2 := Int.lt_floor_add_one (x + 1 / 2)
  constructor <;> linarith

/-- the result lies in `(x − ½, x + ½]`: exact ties `x = k + ½` go to `k + 1`, i.e. toward +∞ (−2.5 ↦ −2) -/
theorem javaRound_mem (x : ℚ) : x - 1 / 2 < (javaRound x : ℚ) ∧ (javaRound x : ℚ) ≤ x + 1 / 2 := by
  rw [javaRound_eq_floor]
  have h1 := Int.floor_le (x + 1 / 2)
  have h2 := Int.lt_floor_add_one (x + 1 / 2)
  constructor <;> linarith

/-- no integer is strictly closer -/
theorem javaRound_closest (x : ℚ) (k : ℤ) : |(javaRound x : ℚ) - x| ≤ |(k : ℚ) - x| := by
  obtain ⟨h1, h2⟩ := javaRound_mem x
  rcases le_or_gt k (javaRound x) with h | h
  · rcases eq_or_lt_of_le h with h | h
    · rw [h]
    · have : (k : ℚ) + 1 ≤ javaRound x := by exact_mod_cast h
      rw [abs_le]; constructor
      · have : (k : ℚ) - x ≤ 0 := by linarith
        rw [abs_of_nonpos this]; linarith
      · have : (k : ℚ) - x ≤ 0 := by linarith
        rw [abs_of_nonpos this]; linarith
  · have : (javaRound x : ℚ) + 1 ≤ k := by exact_mod_cast h
    rw [abs_le]; constructor
    · rw [abs_of_nonneg (by linarith)]; linarith
    · rw [abs_of_nonneg (by linarith)]; linarith

theorem javaRound_tie (k : ℤ) : javaRound ((k : ℚ) + 1 / 2) = k + 1 := by
  rw [javaRound_eq_floor, Int.floor_eq_iff]; push_cast; constructor <;> linarith

theorem javaRound_intCast (k : ℤ) : javaRound (k : ℚ) = k := by
  rw [javaRound_eq_floor, Int.floor_eq_iff]; constructor <;> linarith

/-- a value is on the grid of `makePreciseScale s` iff it is an integer multiple of `1/s` -/
theorem makePreciseScale_idem (s x : ℚ) (hs : s ≠ 0) :
    makePreciseScale s (makePreciseScale s x) = makePreciseScale s x := by
  unfold makePreciseScale
  rw [div_mul_cancel₀ _ hs, javaRound_intCast]

theorem makePreciseGrid_idem (g x : ℚ) (hg : g ≠ 0) :
    makePreciseGrid g (makePreciseGrid g x) = makePreciseGrid g x := by
  unfold makePreciseGrid
  rw [mul_div_assoc, div_self hg, mul_one, javaRound_intCast]

theorem makePreciseQ_idem (s g x : ℚ) :
    makePreciseQ s g (makePreciseQ s g x) = makePreciseQ s g x := by
  unfold makePreciseQ
  split
  · exact makePreciseGrid_idem g x (by linarith)
  · split
    · rename_i hs; exact makePreciseScale_idem s x hs
    · rfl

/-- distance to the chosen grid value is at most half a grid cell (scale branch, `s > 0`) -/
theorem makePreciseScale_near (s x : ℚ) (hs : 0 < s) : |makePreciseScale s x - x| ≤ 1 / (2 * s) := by
  unfold makePreciseScale
  have h := javaRound_abs_le (x * s)
  have e : (javaRound (x * s) : ℚ) / s - x = ((javaRound (x * s) : ℚ) - x * s) / s := by field_simp
  rw [e, abs_div, abs_of_pos hs, div_le_iff₀ hs]
  calc |(javaRound (x * s) : ℚ) - x * s| ≤ 1 / 2 := h
    _ = 1 / (2 * s) * s := by field_simp

theorem makePreciseGrid_near (g x : ℚ) (hg : 0 < g) : |makePreciseGrid g x - x| ≤ g / 2 := by
  unfold makePreciseGrid
  have h := javaRound_abs_le (x / g)
  have e : (javaRound (x / g) : ℚ) * g - x = ((javaRound (x / g) : ℚ) - x / g) * g := by field_simp
  rw [e, abs_mul, abs_of_pos hg]
  calc |(javaRound (x / g) : ℚ) - x / g| * g ≤ 1 / 2 * g := by
        apply mul_le_mul_of_nonneg_right h (le_of_lt hg)
    _ = g / 2 := by ring

/-- no grid value `k / s` is closer to `x` than `makePreciseScale s x` -/
theorem makePreciseScale_closest (s x : ℚ) (hs : 0 < s) (k : ℤ) :
    |makePreciseScale s x - x| ≤ |(k : ℚ) / s - x| := by
  unfold makePreciseScale
  have h := javaRound_closest (x * s) k
  have e1 : (javaRound (x * s) : ℚ) / s - x = ((javaRound (x * s) : ℚ) - x * s) / s := by field_simp
  have e2 : (k : ℚ) / s - x = ((k : ℚ) - x * s) / s := by field_simp
  rw [e1, e2, abs_div, abs_div, abs_of_pos hs]
  exact div_le_div_of_nonneg_right h (le_of_lt hs)

theorem makePreciseGrid_closest (g x : ℚ) (hg : 0 < g) (k : ℤ) :
    |makePreciseGrid g x - x| ≤ |(k : ℚ) * g - x| := by
  unfold makePreciseGrid
  have h := javaRound_closest (x / g) k
  have e1 : (javaRound (x / g) : ℚ) * g - x = ((javaRound (x / g) : ℚ) - x / g) * g := by field_simp
  have e2 : (k : ℚ) * g - x = ((k : ℚ) - x / g) * g := by field_simp
  rw [e1, e2, abs_mul, abs_mul, abs_of_pos hg]
  exact mul_le_mul_of_nonneg_right h (le_of_lt hg)

end GeosModel.Precision
