import GeosModel.Proofs.Precision.RoundNE
import GeosModel.Proofs.Precision.RoundF64
/-!
# From the relative-error law to the bit-level model `PM.makePrecise`

Glue between `RoundF64` (abstract rounding function), `RoundNE` (error of `roundMag`) and the executable model of
`Round.lean` on `F64.Val`: value of a finite double, `mulF`/`divF` of finite operands are `roundNE` of the exact
result, `roundNE` has relative error `2^-53` whenever it returns a full mantissa, and converting an integer
`0 < |r| < 2^53` is exact.
-/
namespace GeosModel.Precision
open GeosModel.F64 (Val)

theorem pow2_cast_of_nonneg (e : ℤ) (he : 0 ≤ e) : ((pow2 e.toNat : ℕ) : ℚ) = 2 ^ e := by
  unfold pow2; push_cast
  rw [← zpow_natCast]; congr 1; exact Int.toNat_of_nonneg he

/-- value of a finite double -/
theorem finRat_eq (neg : Bool) (m : ℕ) (e : ℤ) :
    finRat neg m e = (if neg then -1 else 1) * ((m : ℚ) * 2 ^ e) := by
  unfold finRat
  have hv : (if 0 ≤ e then ((m * pow2 e.toNat : ℕ) : ℚ) else (m : ℚ) / (pow2 (-e).toNat : ℚ)) = (m : ℚ) * 2 ^ e := by
    split
    · rename_i he
      push_cast; rw [pow2_cast_of_nonneg e he]
    · rename_i he
      rw [pow2_cast_of_nonneg (-e) (by omega), zpow_neg, div_eq_mul_inv, inv_inv]
  simp only [hv]
  split <;> ring

theorem abs_finRat (neg : Bool) (m : ℕ) (e : ℤ) : |finRat neg m e| = (m : ℚ) * 2 ^ e := by
  have h2e : (0 : ℚ) < 2 ^ e := zpow_pos (by norm_num) e
  have hm : (0 : ℚ) ≤ (m : ℚ) * 2 ^ e := mul_nonneg (by positivity) (le_of_lt h2e)
  rw [finRat_eq]
  cases neg <;> simp [abs_of_nonneg hm]

theorem natAbs_div_den (q : ℚ) : ((q.num.natAbs : ℕ) : ℚ) / q.den = |q| := by
  have hd : (0 : ℚ) < q.den := by exact_mod_cast q.den_pos
  conv_rhs => rw [← Rat.num_div_den q]
  rw [abs_div, abs_of_pos hd, Nat.cast_natAbs, Int.cast_abs]

/-- `roundNE` with a full mantissa: relative error `2^-53` (relative to the rounded value), correct sign -/
theorem roundNE_fin_err (z : Bool) (q : ℚ) (n : Bool) (m : ℕ) (e : ℤ)
    (h : roundNE z q = .fin n m e) (hm : 2 ^ 52 ≤ m) :
    |finRat n m e - q| ≤ (2 : ℚ)⁻¹ ^ 53 * |finRat n m e| := by
  unfold roundNE at h
  by_cases h0 : q.num = 0
  · rw [if_pos h0] at h
    injection h with _ hm0 _
    omega
  · rw [if_neg h0] at h
    simp only at h
    have ha : 0 < q.num.natAbs := Int.natAbs_pos.mpr h0
    cases hr : roundMag q.num.natAbs q.den with
    | none => rw [hr] at h; cases h
    | some p =>
      obtain ⟨m', e'⟩ := p
      rw [hr] at h
      injection h with hn hm' he'
      subst hm' he'
      have hB := roundMag_rel_err q.num.natAbs q.den m' e' ha q.den_pos hr hm
      rw [natAbs_div_den] at hB
      rw [abs_finRat, finRat_eq]
      by_cases hneg : q.num < 0
      · have : n = true := by rw [← hn]; simp [hneg]
        subst this
        have hq : q < 0 := Rat.num_neg.mp hneg
        rw [abs_of_neg hq] at hB
        simp only [if_true]
        have : -1 * ((m' : ℚ) * 2 ^ e') - q = -((m' : ℚ) * 2 ^ e' - -q) := by ring
        rw [this, abs_neg]; exact hB
      · have : n = false := by rw [← hn]; simp [hneg]
        subst this
        have hq : 0 ≤ q := Rat.num_nonneg.mp (not_lt.mp hneg)
        rw [abs_of_nonneg hq] at hB
        simp only [Bool.false_eq_true, if_false, one_mul]
        exact hB

theorem log2_one' : Nat.log2 1 = 0 := by
  have h := @Nat.log2_self_le 1 (by norm_num)
  by_contra hc
  have : 1 ≤ Nat.log2 1 := Nat.pos_of_ne_zero hc
  have : 2 ^ 1 ≤ 2 ^ Nat.log2 1 := Nat.pow_le_pow_right (by norm_num) this
  omega

theorem divRoundEven_one (x : ℕ) : divRoundEven x 1 = x := by
  unfold divRoundEven
  simp [Nat.mod_one]

theorem log2_le_52 (a : ℕ) (ha : 0 < a) (hb : a < 2 ^ 53) : a.log2 ≤ 52 := by
  by_contra h
  have h1 : 53 ≤ a.log2 := by omega
  have h2 := Nat.log2_self_le (Nat.pos_iff_ne_zero.mp ha)
  have h3 : 2 ^ 53 ≤ 2 ^ a.log2 := Nat.pow_le_pow_right (by norm_num) h1
  omega

/-- `roundMag` of an integer below 2^53 is that integer, shifted to a full mantissa -/
theorem roundMag_int (a : ℕ) (ha : 0 < a) (hb : a < 2 ^ 53) :
    roundMag a 1 = some (a * 2 ^ (52 - a.log2), -((52 - a.log2 : ℕ) : ℤ)) := by
  have hl := log2_le_52 a ha hb
  have hlo := Nat.log2_self_le (Nat.pos_iff_ne_zero.mp ha)
  have hhi := @Nat.lt_log2_self a
  have hB : binadeExp a 1 = -((52 - a.log2 : ℕ) : ℤ) := by
    unfold binadeExp
    simp only [log2_one']
    have e1 : (52 : ℤ) + ((a.log2 : ℤ) - ((0 : ℕ) : ℤ) - 52) = (a.log2 : ℤ) := by push_cast; ring
    have hge : geScaled a 1 (52 + ((a.log2 : ℤ) - ((0 : ℕ) : ℤ) - 52)) = true := by
      rw [e1]; unfold geScaled
      rw [if_pos (by positivity)]
      simp [pow2, hlo]
    rw [hge]
    simp only [if_true]
    split
    · omega
    · omega
  unfold roundMag
  rw [if_neg (by omega), hB]
  simp only
  by_cases hk : 52 - a.log2 = 0
  · have : a.log2 = 52 := by omega
    rw [hk]
    simp only [Nat.cast_zero, neg_zero, le_refl, if_true, Int.toNat_zero, pow2, pow_zero, mul_one, divRoundEven_one]
    have hne : ¬ a = 2 ^ 53 := by omega
    rw [if_neg hne]
    simp only
    rw [if_neg (by omega)]
  · have hneg : ¬ (0 : ℤ) ≤ -((52 - a.log2 : ℕ) : ℤ) := by omega
    rw [if_neg hneg]
    have : (- -((52 - a.log2 : ℕ) : ℤ)).toNat = 52 - a.log2 := by simp
    rw [this, divRoundEven_one]
    have hlt : a * pow2 (52 - a.log2) < pow2 53 := by
      unfold pow2
      calc a * 2 ^ (52 - a.log2) < 2 ^ (a.log2 + 1) * 2 ^ (52 - a.log2) :=
            Nat.mul_lt_mul_of_pos_right hhi (by positivity)
        _ = 2 ^ 53 := by rw [← pow_add]; congr 1; omega
    have hne : ¬ a * pow2 (52 - a.log2) = pow2 53 := by omega
    rw [if_neg hne]
    simp only
    rw [if_neg (by omega)]
    rfl

theorem geScaled_iff (a d : ℕ) (hd : 0 < d) (k : ℤ) :
    geScaled a d k = true ↔ (2 : ℚ) ^ k ≤ (a : ℚ) / d := by
  have hdq : (0 : ℚ) < d := by exact_mod_cast hd
  unfold geScaled
  split
  · rename_i hk
    rw [decide_eq_true_iff, le_div_iff₀ hdq, ← pow2_cast_of_nonneg k hk]
    constructor
    · intro h; have : ((d * pow2 k.toNat : ℕ) : ℚ) ≤ a := by exact_mod_cast h
      push_cast at this; linarith
    · intro h; have : ((d * pow2 k.toNat : ℕ) : ℚ) ≤ a := by push_cast; linarith
      exact_mod_cast this
  · rename_i hk
    have hk' : 0 ≤ -k := by omega
    have hp := pow2_cast_of_nonneg (-k) hk'
    have h2 : (0 : ℚ) < 2 ^ (-k) := zpow_pos (by norm_num) _
    have e : (2 : ℚ) ^ k = 1 / 2 ^ (-k) := by rw [zpow_neg]; simp
    rw [decide_eq_true_iff, e, div_le_div_iff₀ h2 hdq, one_mul, ← hp]
    constructor
    · intro h; exact_mod_cast h
    · intro h; exact_mod_cast h

/-- the exponent chosen by `binadeExp` is not too large: `2^(52+e) ≤ a/d` on the normal range -/
theorem binade_lower (a d : ℕ) (ha : 0 < a) (hd : 0 < d) (hn : (2 : ℚ) ^ (-1022 : ℤ) ≤ (a : ℚ) / d) :
    (2 : ℚ) ^ (52 + binadeExp a d) ≤ (a : ℚ) / d := by
  have hdq : (0 : ℚ) < d := by exact_mod_cast hd
  have hlo : ((2 : ℚ) ^ a.log2) ≤ a := by exact_mod_cast Nat.log2_self_le (Nat.pos_iff_ne_zero.mp ha)
  have hhi : (d : ℚ) < (2 : ℚ) ^ (d.log2 + 1) := by exact_mod_cast @Nat.lt_log2_self d
  unfold binadeExp
  simp only
  -- the unclamped choice
  have key : (2 : ℚ) ^ (52 + (if geScaled a d (52 + ((a.log2 : ℤ) - (d.log2 : ℤ) - 52)) = true then
      ((a.log2 : ℤ) - (d.log2 : ℤ) - 52) else ((a.log2 : ℤ) - (d.log2 : ℤ) - 52) - 1)) ≤ (a : ℚ) / d := by
    split
    · rename_i hge
      exact (geScaled_iff a d hd _).mp hge
    · have e : (52 : ℤ) + (((a.log2 : ℤ) - (d.log2 : ℤ) - 52) - 1) = (a.log2 : ℤ) - ((d.log2 : ℤ) + 1) := by ring
      rw [e, zpow_sub₀ (by norm_num : (2 : ℚ) ≠ 0), le_div_iff₀ hdq]
      have h2 : (0 : ℚ) < 2 ^ ((d.log2 : ℤ) + 1) := zpow_pos (by norm_num) _
      rw [div_mul_eq_mul_div, div_le_iff₀ h2]
      have e1 : (2 : ℚ) ^ (a.log2 : ℤ) = 2 ^ a.log2 := zpow_natCast _ _
      have e2 : (2 : ℚ) ^ ((d.log2 : ℤ) + 1) = 2 ^ (d.log2 + 1) := by
        rw [← zpow_natCast]; congr 1
      rw [e1, e2]
      have : (0 : ℚ) ≤ 2 ^ a.log2 := by positivity
      nlinarith
  generalize (if geScaled a d (52 + ((a.log2 : ℤ) - (d.log2 : ℤ) - 52)) = true then
      ((a.log2 : ℤ) - (d.log2 : ℤ) - 52) else ((a.log2 : ℤ) - (d.log2 : ℤ) - 52) - 1) = e' at key ⊢
  split
  · -- clamped to -1074
    have : (52 : ℤ) + -1074 = -1022 := by norm_num
    rw [this]; exact hn
  · exact key

theorem divRoundEven_ge (num den : ℕ) : num / den ≤ divRoundEven num den := by
  unfold divRoundEven
  simp only
  split
  · omega
  · split <;> omega

/-- on the normal range `roundMag` returns a full 53-bit mantissa -/
theorem roundMag_full (a d m : ℕ) (e : ℤ) (ha : 0 < a) (hd : 0 < d)
    (hn : (2 : ℚ) ^ (-1022 : ℤ) ≤ (a : ℚ) / d) (h : roundMag a d = some (m, e)) : 2 ^ 52 ≤ m := by
  have hdq : (0 : ℚ) < d := by exact_mod_cast hd
  have hb := binade_lower a d ha hd hn
  unfold roundMag at h
  rw [if_neg (by omega)] at h
  simp only at h
  generalize binadeExp a d = e0 at h hb
  have hm0 : 2 ^ 52 ≤ (if 0 ≤ e0 then divRoundEven a (d * pow2 e0.toNat) else divRoundEven (a * pow2 (-e0).toNat) d) := by
    rw [zpow_add₀ (by norm_num : (2 : ℚ) ≠ 0), le_div_iff₀ hdq] at hb
    split
    · rename_i he
      rw [← pow2_cast_of_nonneg e0 he] at hb
      have hden : 0 < d * pow2 e0.toNat := Nat.mul_pos hd (by unfold pow2; positivity)
      refine le_trans ?_ (divRoundEven_ge _ _)
      rw [Nat.le_div_iff_mul_le hden]
      have : ((2 ^ 52 * (d * pow2 e0.toNat) : ℕ) : ℚ) ≤ a := by push_cast; push_cast at hb; linarith
      exact_mod_cast this
    · rename_i he
      have hp := pow2_cast_of_nonneg (-e0) (by omega)
      have hinv : (2 : ℚ) ^ e0 * 2 ^ (-e0) = 1 := by rw [← zpow_add₀ (by norm_num : (2 : ℚ) ≠ 0)]; simp
      refine le_trans ?_ (divRoundEven_ge _ _)
      rw [Nat.le_div_iff_mul_le hd]
      have h2 : (0 : ℚ) < 2 ^ (-e0) := zpow_pos (by norm_num) _
      have : ((2 ^ 52 * d : ℕ) : ℚ) ≤ ((a * pow2 (-e0).toNat : ℕ) : ℚ) := by
        push_cast; rw [hp]
        have := mul_le_mul_of_nonneg_right hb (le_of_lt h2)
        have e : (2 : ℚ) ^ (52 : ℤ) * 2 ^ e0 * d * 2 ^ (-e0) = 2 ^ 52 * d * (2 ^ e0 * 2 ^ (-e0)) := by
          rw [show (2 : ℚ) ^ (52 : ℤ) = 2 ^ 52 from by norm_num]; ring
        rw [e, hinv, mul_one] at this
        exact this
      exact_mod_cast this
  generalize (if 0 ≤ e0 then divRoundEven a (d * pow2 e0.toNat) else divRoundEven (a * pow2 (-e0).toNat) d) = m0 at h hm0
  by_cases hc : m0 = pow2 53
  · rw [if_pos hc] at h
    simp only at h
    split at h
    · cases h
    · injection h with h; injection h with h1 h2
      rw [← h1]; unfold pow2; exact le_refl _
  · rw [if_neg hc] at h
    simp only at h
    split at h
    · cases h
    · injection h with h; injection h with h1 h2
      rw [← h1]; exact hm0

/-- `roundNE` on the normal range returns a full mantissa -/
theorem roundNE_fin_full (z : Bool) (q : ℚ) (n : Bool) (m : ℕ) (e : ℤ)
    (h : roundNE z q = .fin n m e) (hq : (2 : ℚ) ^ (-1022 : ℤ) ≤ |q|) : 2 ^ 52 ≤ m := by
  have hq0 : q ≠ 0 := by
    intro h0; rw [h0, abs_zero] at hq
    have : (0 : ℚ) < 2 ^ (-1022 : ℤ) := zpow_pos (by norm_num) _
    linarith
  have hnum : q.num ≠ 0 := fun hc => hq0 (Rat.num_eq_zero.mp hc)
  unfold roundNE at h
  rw [if_neg hnum] at h
  simp only at h
  cases hr : roundMag q.num.natAbs q.den with
  | none => rw [hr] at h; cases h
  | some p =>
    obtain ⟨m', e'⟩ := p
    rw [hr] at h
    injection h with _ hm' _
    subst hm'
    exact roundMag_full _ _ _ _ (Int.natAbs_pos.mpr hnum) q.den_pos (by rw [natAbs_div_den]; exact hq) hr

/-- converting an integer `0 < |r| < 2^53` to binary64 is exact -/
theorem ofInt_exact (z : Bool) (r : ℤ) (h0 : r ≠ 0) (hb : r.natAbs < 2 ^ 53) :
    ∃ m e, ofInt z r = .fin (decide (r < 0)) m e ∧ finRat (decide (r < 0)) m e = r ∧ m ≠ 0 := by
  have ha : 0 < r.natAbs := Int.natAbs_pos.mpr h0
  unfold ofInt roundNE
  rw [Rat.num_intCast, Rat.den_intCast, if_neg h0]
  simp only
  rw [roundMag_int r.natAbs ha hb]
  refine ⟨_, _, rfl, ?_, ?_⟩
  · rw [finRat_eq]
    have hv : ((r.natAbs * 2 ^ (52 - r.natAbs.log2) : ℕ) : ℚ) * 2 ^ (-((52 - r.natAbs.log2 : ℕ) : ℤ)) = (r.natAbs : ℚ) := by
      push_cast
      rw [zpow_neg, zpow_natCast]
      field_simp
    rw [hv, Nat.cast_natAbs, Int.cast_abs]
    by_cases hneg : r < 0
    · have : (r : ℚ) < 0 := by exact_mod_cast hneg
      simp [hneg, abs_of_neg this]
    · have : (0 : ℚ) ≤ r := by exact_mod_cast not_lt.mp hneg
      simp [hneg, abs_of_nonneg this]
  · have : 0 < 2 ^ (52 - r.natAbs.log2) := by positivity
    exact Nat.ne_of_gt (Nat.mul_pos ha this)

/-- `roundNE` ignores the zero-sign hint on non-zero arguments -/
theorem roundNE_zneg_irrel (z z' : Bool) (q : ℚ) (hq : q.num ≠ 0) : roundNE z q = roundNE z' q := by
  unfold roundNE; rw [if_neg hq, if_neg hq]

theorem ofInt_zneg_irrel (z z' : Bool) (r : ℤ) (h0 : r ≠ 0) : ofInt z r = ofInt z' r := by
  unfold ofInt; exact roundNE_zneg_irrel z z' _ (by rw [Rat.num_intCast]; exact h0)

/-- `makePrecise` takes the scale branch when the grid size is not above 1 and the scale is a non-zero finite double -/
theorem makePrecise_scale_branch (pm : PM) (ms : ℕ) (es : ℤ) (hs : pm.scale = .fin false ms es) (hms : ms ≠ 0)
    (hg : vLt one pm.gridSize = false) (v : Val) :
    pm.makePrecise v = divF (javaRoundF (mulF v pm.scale)) pm.scale := by
  have h2e : (0 : ℚ) < 2 ^ es := zpow_pos (by norm_num) es
  have hS : finRat false ms es ≠ finRat false 0 (-1074) := by
    rw [finRat_eq, finRat_eq]; simp
    exact ⟨hms, ne_of_gt h2e⟩
  unfold PM.makePrecise
  rw [hg, hs]
  simp [vFeq, zero, hS]

/-- **Idempotence of the bit-level model, scale branch.**  `pm` is any FIXED model whose grid size is not above 1
and whose scale is a positive finite double; `v` any double.  Hypotheses name the intermediate results:
`y = v * scale` is finite, the integer `r = java_math_round(y)` satisfies `0 < |r| ≤ 2^50`, the first result
`z = r / scale` and the product `z * scale` of the second application are finite with a full mantissa (normal
range).  Then `makePrecise (makePrecise v) = makePrecise v`, as bit patterns. -/
theorem makePrecise_idem_model (pm : PM) (ms : ℕ) (es : ℤ) (hs : pm.scale = .fin false ms es) (hms : ms ≠ 0)
    (hg : vLt one pm.gridSize = false) (v : Val)
    (ny : Bool) (my : ℕ) (ey : ℤ) (hy : mulF v pm.scale = .fin ny my ey)
    (hr0 : javaRound (finRat ny my ey) ≠ 0) (hr : (javaRound (finRat ny my ey)).natAbs ≤ 2 ^ 50)
    (nz : Bool) (mz : ℕ) (ez : ℤ) (hz : pm.makePrecise v = .fin nz mz ez) (hmz : 2 ^ 52 ≤ mz)
    (ny' : Bool) (my' : ℕ) (ey' : ℤ) (hy' : mulF (.fin nz mz ez) pm.scale = .fin ny' my' ey') (hmy' : 2 ^ 52 ≤ my') :
    pm.makePrecise (pm.makePrecise v) = pm.makePrecise v := by
  have h2e : (0 : ℚ) < 2 ^ es := zpow_pos (by norm_num) es
  have hmsq : (0 : ℚ) < ms := by exact_mod_cast Nat.pos_of_ne_zero hms
  have hSpos : 0 < finRat false ms es := by rw [finRat_eq]; simp; exact mul_pos hmsq h2e
  generalize hrdef : javaRound (finRat ny my ey) = r at hr0 hr
  obtain ⟨m0, e0, ho, hov, hm0⟩ := ofInt_exact ny r hr0 (by
    have : (2 : ℕ) ^ 50 < 2 ^ 53 := by norm_num
    omega)
  -- first application
  have h1 : pm.makePrecise v = divF (.fin (decide (r < 0)) m0 e0) (.fin false ms es) := by
    rw [makePrecise_scale_branch pm ms es hs hms hg, hy]
    show divF (ofInt ny (javaRound (finRat ny my ey))) pm.scale = _
    rw [hrdef, ho, hs]
  have hz1 : roundNE (decide (r < 0) != false) (finRat (decide (r < 0)) m0 e0 / finRat false ms es) = .fin nz mz ez := by
    rw [← hz, h1]
    show _ = if ms = 0 then _ else _
    rw [if_neg hms]
  have hdiv := roundNE_fin_err _ _ nz mz ez hz1 hmz
  rw [hov] at hdiv
  -- second application
  have hy1 : roundNE (nz != false) (finRat nz mz ez * finRat false ms es) = .fin ny' my' ey' := by
    rw [← hy', hs]; rfl
  have hmul := roundNE_fin_err _ _ ny' my' ey' hy1 hmy'
  have hrq : |(r : ℚ)| ≤ 2 ^ 50 := by
    rw [← Int.cast_abs, Int.abs_eq_natAbs]
    exact_mod_cast hr
  have hsame : javaRound (finRat ny' my' ey') = r :=
    second_round_eq r (finRat false ms es) (finRat nz mz ez) (finRat ny' my' ey') hSpos hrq hdiv hmul
  rw [hz, makePrecise_scale_branch pm ms es hs hms hg, hy']
  show divF (ofInt ny' (javaRound (finRat ny' my' ey'))) pm.scale = _
  rw [hsame, ofInt_zneg_irrel ny' ny r hr0, ho, hs, ← h1, hz]


/-- the same with the normal-range facts *derived*: it suffices that the scale is at most `2^1022` and that no
intermediate result overflows (`y`, `z`, `z * scale` finite). -/
theorem makePrecise_idem_model' (pm : PM) (ms : ℕ) (es : ℤ) (hs : pm.scale = .fin false ms es) (hms : ms ≠ 0)
    (hS : finRat false ms es ≤ 2 ^ (1022 : ℤ))
    (hg : vLt one pm.gridSize = false) (v : Val)
    (ny : Bool) (my : ℕ) (ey : ℤ) (hy : mulF v pm.scale = .fin ny my ey)
    (hr0 : javaRound (finRat ny my ey) ≠ 0) (hr : (javaRound (finRat ny my ey)).natAbs ≤ 2 ^ 50)
    (nz : Bool) (mz : ℕ) (ez : ℤ) (hz : pm.makePrecise v = .fin nz mz ez)
    (ny' : Bool) (my' : ℕ) (ey' : ℤ) (hy' : mulF (.fin nz mz ez) pm.scale = .fin ny' my' ey') :
    pm.makePrecise (pm.makePrecise v) = pm.makePrecise v := by
  have h2e : (0 : ℚ) < 2 ^ es := zpow_pos (by norm_num) es
  have hmsq : (0 : ℚ) < ms := by exact_mod_cast Nat.pos_of_ne_zero hms
  have hSpos : 0 < finRat false ms es := by rw [finRat_eq]; simp; exact mul_pos hmsq h2e
  have hsmall : (0 : ℚ) < 2 ^ (-1022 : ℤ) := zpow_pos (by norm_num) _
  have hprod : (2 : ℚ) ^ (-1022 : ℤ) * 2 ^ (1022 : ℤ) = 1 := by
    rw [← zpow_add₀ (by norm_num : (2 : ℚ) ≠ 0)]; simp
  generalize hrdef : javaRound (finRat ny my ey) = r at hr0 hr
  have hr1 : (1 : ℚ) ≤ |(r : ℚ)| := by
    rw [← Int.cast_abs]
    have : (1 : ℤ) ≤ |r| := Int.one_le_abs hr0
    exact_mod_cast this
  obtain ⟨m0, e0, ho, hov, hm0⟩ := ofInt_exact ny r hr0 (by
    have : (2 : ℕ) ^ 50 < 2 ^ 53 := by norm_num
    omega)
  have h1 : pm.makePrecise v = divF (.fin (decide (r < 0)) m0 e0) (.fin false ms es) := by
    rw [makePrecise_scale_branch pm ms es hs hms hg, hy]
    show divF (ofInt ny (javaRound (finRat ny my ey))) pm.scale = _
    rw [hrdef, ho, hs]
  have hz1 : roundNE (decide (r < 0) != false) (finRat (decide (r < 0)) m0 e0 / finRat false ms es) = .fin nz mz ez := by
    rw [← hz, h1]
    show _ = if ms = 0 then _ else _
    rw [if_neg hms]
  rw [hov] at hz1
  -- z is in the normal range
  have hq1 : (2 : ℚ) ^ (-1022 : ℤ) ≤ |(r : ℚ) / finRat false ms es| := by
    rw [abs_div, abs_of_pos hSpos, le_div_iff₀ hSpos]
    calc (2 : ℚ) ^ (-1022 : ℤ) * finRat false ms es ≤ 2 ^ (-1022 : ℤ) * 2 ^ (1022 : ℤ) :=
          mul_le_mul_of_nonneg_left hS (le_of_lt hsmall)
      _ = 1 := hprod
      _ ≤ |(r : ℚ)| := hr1
  have hmz := roundNE_fin_full _ _ nz mz ez hz1 hq1
  have hdiv := roundNE_fin_err _ _ nz mz ez hz1 hmz
  have hy1 : roundNE (nz != false) (finRat nz mz ez * finRat false ms es) = .fin ny' my' ey' := by
    rw [← hy', hs]; rfl
  -- z * scale is in the normal range: it is r up to a relative error
  have hzs : |finRat nz mz ez * finRat false ms es - r| ≤ (2 : ℚ)⁻¹ ^ 53 * |finRat nz mz ez * finRat false ms es| := by
    have e : finRat nz mz ez * finRat false ms es - r = (finRat nz mz ez - (r : ℚ) / finRat false ms es) * finRat false ms es := by
      field_simp
    rw [e, abs_mul, abs_mul, abs_of_pos hSpos, ← mul_assoc]
    exact mul_le_mul_of_nonneg_right hdiv (le_of_lt hSpos)
  have hq2 : (2 : ℚ) ^ (-1022 : ℤ) ≤ |finRat nz mz ez * finRat false ms es| := by
    have t1 : |(r : ℚ)| ≤ |finRat nz mz ez * finRat false ms es| + |finRat nz mz ez * finRat false ms es - r| := by
      have := abs_sub_abs_le_abs_sub (r : ℚ) (finRat nz mz ez * finRat false ms es)
      rw [abs_sub_comm] at this; linarith
    have hu : (2 : ℚ)⁻¹ ^ 53 ≤ 1 := by norm_num
    have hnn : 0 ≤ |finRat nz mz ez * finRat false ms es| := abs_nonneg _
    have hlt : (2 : ℚ) ^ (-1022 : ℤ) ≤ 1 / 2 := by
      rw [zpow_neg, show (1 : ℚ) / 2 = (2 ^ (1 : ℤ))⁻¹ by norm_num]
      apply inv_anti₀ (by positivity)
      exact zpow_le_zpow_right₀ (by norm_num) (by norm_num)
    have hD : |finRat nz mz ez * finRat false ms es - r| ≤ |finRat nz mz ez * finRat false ms es| :=
      le_trans hzs (by
        calc (2 : ℚ)⁻¹ ^ 53 * |finRat nz mz ez * finRat false ms es|
            ≤ 1 * |finRat nz mz ez * finRat false ms es| := mul_le_mul_of_nonneg_right hu hnn
          _ = _ := one_mul _)
    have hW : 1 / 2 ≤ |finRat nz mz ez * finRat false ms es| := by linarith only [hr1, t1, hD]
    exact le_trans hlt hW
  have hmy' := roundNE_fin_full _ _ ny' my' ey' hy1 hq2
  exact makePrecise_idem_model pm ms es hs hms hg v ny my ey hy (by rw [hrdef]; exact hr0) (by rw [hrdef]; exact hr)
    nz mz ez hz hmz ny' my' ey' hy' hmy'

end GeosModel.Precision
