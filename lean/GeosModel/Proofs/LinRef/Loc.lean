import GeosModel.Proofs.LinRef.Basic
/-!
Length ↔ location lemmas over `Rat`: the loops `locFwdAux` / `lenAux` on an arbitrary item list satisfying the
iterator invariants (`OKItems`, non-negative lengths).
-/
namespace GeosModel.LinRef

theorem mkLoc_mid (c v : Nat) (f : Rat) (h0 : 0 ≤ f) (h1 : f < 1) : mkLoc c v f = ⟨c, v, f⟩ := by
  unfold mkLoc
  have a : ¬ f < 0 := by grind
  have b : ¬ 1 < f := by grind
  have e : (f == 1) = false := by rw [rat_beq_false]; grind
  simp [a, b, e]

theorem mkLoc_zero (c v : Nat) : mkLoc c v (0 : Rat) = ⟨c, v, 0⟩ :=
  mkLoc_mid c v 0 (by grind) (by grind)

/-- where a successful forward search lands: at the position of one of the items, with a fraction in [0,1) -/
theorem locFwdAux_pos (ℓ : Rat) (its : List (Item Rat)) (tot : Rat) (a : Loc Rat)
    (ht : tot ≤ ℓ) (h : locFwdAux ℓ tot its = some a) :
    ∃ it ∈ its, a.comp = it.c ∧ a.seg = it.v ∧ 0 ≤ a.frac ∧ a.frac < 1 := by
  induction its generalizing tot with
  | nil => simp [locFwdAux] at h
  | cons it r ih =>
    cases it with
    | eol c v =>
      simp only [locFwdAux] at h
      split at h
      · simp only [Option.some.injEq] at h
        rw [mkLoc_zero] at h
        subst h
        exact ⟨_, List.mem_cons_self, rfl, rfl, by grind, by grind⟩
      · obtain ⟨it, hm, hh⟩ := ih tot ht h
        exact ⟨it, List.mem_cons_of_mem _ hm, hh⟩
    | seg c v s =>
      simp only [locFwdAux] at h
      split at h
      · rename_i hlt
        have hs : 0 < s := by grind
        have h0 : 0 ≤ (ℓ - tot) / s := rat_div_nonneg (by grind) hs
        have h1 : (ℓ - tot) / s < 1 := rat_div_lt_one hs (by grind)
        simp only [Option.some.injEq] at h
        rw [mkLoc_mid _ _ _ h0 h1] at h
        subst h
        exact ⟨_, List.mem_cons_self, rfl, rfl, h0, h1⟩
      · rename_i hlt
        obtain ⟨it, hm, hh⟩ := ih (tot + s) (by grind) h
        exact ⟨it, List.mem_cons_of_mem _ hm, hh⟩

/-- **inverse on an item list**: the length of the location found for ℓ is ℓ -/
theorem lenAux_locFwdAux (ℓ : Rat) (its : List (Item Rat)) (tot : Rat) (a : Loc Rat)
    (hok : OKItems its) (ht : tot ≤ ℓ) (h : locFwdAux ℓ tot its = some a) : lenAux a tot its = ℓ := by
  induction its generalizing tot with
  | nil => simp [locFwdAux] at h
  | cons it r ih =>
    cases it with
    | eol c v =>
      simp only [locFwdAux] at h
      split at h
      · rename_i heq
        simp only [Option.some.injEq] at h
        rw [mkLoc_zero] at h
        subst h
        simp only [lenAux, BEq.rfl, if_true]
        exact rat_beq_true.mp heq
      · obtain ⟨it, hm, hc, _, _, _⟩ := locFwdAux_pos ℓ r tot a ht h
        have := hok.1 it hm
        have hne : (a.comp == c) = false := by simp; omega
        simp only [lenAux, hne]
        exact ih tot hok.2 ht h
    | seg c v s =>
      simp only [locFwdAux] at h
      split at h
      · rename_i hlt
        have hs : 0 < s := by grind
        have h0 : 0 ≤ (ℓ - tot) / s := rat_div_nonneg (by grind) hs
        have h1 : (ℓ - tot) / s < 1 := rat_div_lt_one hs (by grind)
        simp only [Option.some.injEq] at h
        rw [mkLoc_mid _ _ _ h0 h1] at h
        subst h
        simp only [lenAux, BEq.rfl, Bool.and_self, if_true]
        have := rat_mul_div_cancel (a := ℓ - tot) (s := s) (by grind)
        grind
      · rename_i hlt
        obtain ⟨it, hm, hc, hv, _, _⟩ := locFwdAux_pos ℓ r (tot + s) a (by grind) h
        have := hok.1 it hm
        have hne : (a.comp == c && a.seg == v) = false := by
          simp only [Bool.and_eq_false_iff, beq_eq_false_iff_ne]
          omega
        simp only [lenAux, hne]
        exact ih (tot + s) hok.2 (by grind) h

/-- the forward search fails only for lengths beyond the total -/
theorem locFwdAux_none (ℓ : Rat) (its : List (Item Rat)) (tot : Rat)
    (ht : tot ≤ ℓ) (hl : lastIsEol its = true) (h : locFwdAux ℓ tot its = none) : tot + itemsLen its < ℓ := by
  induction its generalizing tot with
  | nil => simp [lastIsEol] at hl
  | cons it r ih =>
    cases it with
    | eol c v =>
      simp only [locFwdAux] at h
      split at h
      · simp at h
      · rename_i hne
        have hne' : tot ≠ ℓ := rat_beq_false.mp (by simpa using hne)
        cases r with
        | nil => simp only [itemsLen]; grind
        | cons b t =>
          simp only [itemsLen]
          exact ih tot ht (by simpa [lastIsEol] using hl) h
    | seg c v s =>
      simp only [locFwdAux] at h
      split at h
      · simp at h
      · rename_i hlt
        cases r with
        | nil => simp [lastIsEol] at hl
        | cons b t =>
          have := ih (tot + s) (by grind) (by simpa [lastIsEol] using hl) h
          simp only [itemsLen]; grind

/-- beyond the total the forward search fails (→ end location) -/
theorem locFwdAux_beyond (ℓ : Rat) (its : List (Item Rat)) (tot : Rat) (hn : ItemsNonNeg its)
    (h : tot + itemsLen its < ℓ) : locFwdAux ℓ tot its = none := by
  induction its generalizing tot with
  | nil => rfl
  | cons it r ih =>
    have hr : ItemsNonNeg r := fun c v s hm => hn c v s (List.mem_cons_of_mem _ hm)
    have hrn := itemsLen_nonneg r hr
    cases it with
    | eol c v =>
      simp only [itemsLen] at h
      have hne : (tot == ℓ) = false := by rw [rat_beq_false]; grind
      simp only [locFwdAux, hne]
      exact ih tot hr h
    | seg c v s =>
      simp only [itemsLen] at h
      have hs := hn c v s List.mem_cons_self
      have hlt : ¬ ℓ < tot + s := by grind
      simp only [locFwdAux, hlt, if_false]
      exact ih (tot + s) hr (by grind)

/-- `none` is monotone in ℓ -/
theorem locFwdAux_none_mono (ℓ1 ℓ2 : Rat) (its : List (Item Rat)) (tot : Rat)
    (ht : tot ≤ ℓ1) (h12 : ℓ1 ≤ ℓ2) (h : locFwdAux ℓ1 tot its = none) : locFwdAux ℓ2 tot its = none := by
  induction its generalizing tot with
  | nil => rfl
  | cons it r ih =>
    cases it with
    | eol c v =>
      simp only [locFwdAux] at h ⊢
      split at h
      · simp at h
      · rename_i hne
        have hne' : tot ≠ ℓ1 := rat_beq_false.mp (by simpa using hne)
        have : (tot == ℓ2) = false := by rw [rat_beq_false]; grind
        simp only [this]
        exact ih tot ht h
    | seg c v s =>
      simp only [locFwdAux] at h ⊢
      split at h
      · simp at h
      · rename_i hlt
        have : ¬ ℓ2 < tot + s := by grind
        simp only [this, if_false]
        exact ih (tot + s) (by grind) h

/-- `a ≤ b` in the `compareTo` order -/
def Loc.le (a b : Loc Rat) : Prop := b.lt a = false

theorem Loc.le_refl (a : Loc Rat) : a.le a := by
  simp [Loc.le, Loc.lt]

theorem Loc.le_of_pos_lt {a b : Loc Rat} (h : a.comp < b.comp ∨ (a.comp = b.comp ∧ a.seg < b.seg)) : a.le b := by
  unfold Loc.le Loc.lt
  rcases h with h | ⟨h1, h2⟩
  · have : ¬ b.comp < a.comp := by omega
    simp [this, h]
  · have : ¬ b.comp < a.comp := by omega
    have h3 : ¬ a.comp < b.comp := by omega
    have h4 : ¬ b.seg < a.seg := by omega
    simp [this, h3, h4, h2]

theorem Loc.le_of_same {c v : Nat} {f g : Rat} (h : f ≤ g) : (⟨c, v, f⟩ : Loc Rat).le ⟨c, v, g⟩ := by
  simp only [Loc.le, Loc.lt, Nat.lt_irrefl, if_false, decide_eq_false_iff_not]
  grind

/-- **monotonicity on an item list** -/
theorem locFwdAux_mono (ℓ1 ℓ2 : Rat) (its : List (Item Rat)) (tot : Rat) (a1 a2 : Loc Rat)
    (hok : OKItems its) (ht : tot ≤ ℓ1) (h12 : ℓ1 ≤ ℓ2)
    (h1 : locFwdAux ℓ1 tot its = some a1) (h2 : locFwdAux ℓ2 tot its = some a2) : a1.le a2 := by
  induction its generalizing tot with
  | nil => simp [locFwdAux] at h1
  | cons it r ih =>
    cases it with
    | eol c v =>
      simp only [locFwdAux] at h1 h2
      by_cases e1 : (tot == ℓ1) = true
      · simp only [e1, if_true, Option.some.injEq] at h1
        rw [mkLoc_zero] at h1
        by_cases e2 : (tot == ℓ2) = true
        · simp only [e2, if_true, Option.some.injEq] at h2
          rw [mkLoc_zero] at h2
          subst h1 h2; exact Loc.le_refl _
        · simp only [e2] at h2
          obtain ⟨it, hm, hc, _, _, _⟩ := locFwdAux_pos ℓ2 r tot a2 (by grind) h2
          have := hok.1 it hm
          subst h1
          apply Loc.le_of_pos_lt; left; simp only; omega
      · have e1' : tot ≠ ℓ1 := rat_beq_false.mp (by simpa using e1)
        have e2 : (tot == ℓ2) = false := by rw [rat_beq_false]; grind
        simp only [e1, e2] at h1 h2
        exact ih tot hok.2 ht h1 h2
    | seg c v s =>
      simp only [locFwdAux] at h1 h2
      by_cases c2 : ℓ2 < tot + s
      · have c1 : ℓ1 < tot + s := by grind
        have hs : 0 < s := by grind
        simp only [c1, c2, if_true, Option.some.injEq] at h1 h2
        rw [mkLoc_mid _ _ _ (rat_div_nonneg (by grind) hs) (rat_div_lt_one hs (by grind))] at h1 h2
        subst h1 h2
        exact Loc.le_of_same (rat_div_le_div hs (by grind))
      · simp only [c2, if_false] at h2
        by_cases c1 : ℓ1 < tot + s
        · have hs : 0 < s := by grind
          simp only [c1, if_true, Option.some.injEq] at h1
          rw [mkLoc_mid _ _ _ (rat_div_nonneg (by grind) hs) (rat_div_lt_one hs (by grind))] at h1
          obtain ⟨it, hm, hc, hv, _, _⟩ := locFwdAux_pos ℓ2 r (tot + s) a2 (by grind) h2
          have := hok.1 it hm
          subst h1
          apply Loc.le_of_pos_lt; simp only; omega
        · simp only [c1, if_false] at h1
          exact ih (tot + s) hok.2 (by grind) h1 h2

end GeosModel.LinRef
