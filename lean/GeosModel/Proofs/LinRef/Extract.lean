import GeosModel.Proofs.LinRef.Top
/-!
`ExtractLineByLocation::computeLinear` on a single-component line (a LineString) over `Rat`:
closed form of the output and its length.
-/
namespace GeosModel.LinRef

/-- the location of vertex `u` of component 0 -/
def vloc (u : Nat) : Loc Rat := ⟨0, u, 0⟩

/-- vertices v, v+1, …, v+k−1 -/
def verts : Nat → Nat → List (Loc Rat)
  | _, 0 => []
  | v, k + 1 => vloc v :: verts (v + 1) k

/-- `fixInvalidLines`: a one-point line gets its point duplicated -/
def fixLine (pts : List (Loc Rat)) : List (Loc Rat) :=
  match pts with
  | [p] => [p, p]
  | _ => pts

theorem endLine_some (d : List (List (Loc Rat))) (pts : List (Loc Rat)) :
    (Builder.endLine ⟨d, some pts⟩ : Builder Rat) = ⟨fixLine pts :: d, none⟩ := by
  rcases pts with _ | ⟨p, _ | ⟨q, r⟩⟩ <;> rfl

theorem lt_vloc_false (j u : Nat) (g : Rat) (hg : 0 ≤ g) (h : u ≤ j) : (⟨0, j, g⟩ : Loc Rat).lt ⟨0, u, 0⟩ = false := by
  simp only [Loc.lt, Nat.lt_irrefl, if_false]
  by_cases h1 : j < u
  · omega
  · simp only [h1, if_false]
    by_cases h2 : u < j
    · simp [h2]
    · simp only [h2, if_false, decide_eq_false_iff_not]; grind

theorem lt_vloc_true (j u : Nat) (g : Rat) (h : j < u) : (⟨0, j, g⟩ : Loc Rat).lt ⟨0, u, 0⟩ = true := by
  simp [Loc.lt, h]

/-- the loop stops before the end of the line: it appends the vertices v … j to the open line -/
theorem extractLoop_before (j : Nat) (g : Rat) (hg : 0 ≤ g) (r : List Rat) (v : Nat) (d : List (List (Loc Rat)))
    (cur : Option (List (Loc Rat))) (hj : j < v + r.length) :
    extractLoop ⟨0, j, g⟩ ⟨d, cur⟩ (compItems 0 v r) =
      ⟨d, if j + 1 - v = 0 then cur else some (cur.getD [] ++ verts v (j + 1 - v))⟩ := by
  induction r generalizing v cur with
  | nil =>
    simp only [List.length_nil, Nat.add_zero] at hj
    have : j + 1 - v = 0 := by omega
    simp only [compItems, extractLoop, Item.c, Item.v, lt_vloc_true j v g hj, if_true, this]
  | cons s t ih =>
    simp only [compItems, extractLoop, Item.c, Item.v]
    by_cases h : j < v
    · have : j + 1 - v = 0 := by omega
      simp only [lt_vloc_true j v g h, if_true, this]
    · have hle : v ≤ j := by omega
      simp only [lt_vloc_false j v g hg hle, Bool.false_eq_true, if_false, Builder.add]
      rw [ih (v + 1) _ (by simp only [List.length_cons] at hj; omega)]
      have e1 : j + 1 - v = (j + 1 - (v + 1)) + 1 := by omega
      rw [e1]
      simp only [Nat.add_one_ne_zero, if_false, verts, Option.getD_some]
      by_cases h2 : j + 1 - (v + 1) = 0
      · simp [h2, verts, vloc]
      · have h3 : ¬ j - v = 0 := by omega
        simp [h3, vloc]

/-- the loop runs to the end of the line: it appends the vertices v … n and closes the line -/
theorem extractLoop_toEnd (j : Nat) (g : Rat) (hg : 0 ≤ g) (r : List Rat) (v : Nat) (d : List (List (Loc Rat)))
    (cur : Option (List (Loc Rat))) (hj : v + r.length ≤ j) :
    extractLoop ⟨0, j, g⟩ ⟨d, cur⟩ (compItems 0 v r) =
      ⟨fixLine (cur.getD [] ++ verts v (r.length + 1)) :: d, none⟩ := by
  induction r generalizing v cur with
  | nil =>
    simp only [List.length_nil, Nat.add_zero] at hj
    simp only [compItems, extractLoop, Item.c, Item.v, lt_vloc_false j v g hg hj, Bool.false_eq_true, if_false,
      Builder.add, endLine_some, List.length_nil, Nat.zero_add, verts, vloc]
  | cons s t ih =>
    simp only [List.length_cons] at hj
    simp only [compItems, extractLoop, Item.c, Item.v, lt_vloc_false j v g hg (by omega : v ≤ j), Bool.false_eq_true, if_false,
      Builder.add]
    rw [ih (v + 1) _ (by omega)]
    simp [verts, vloc]

/-- `LinearIterator(line, 0, sv)` on a single component: the positions from vertex `sv` on -/
theorem itemsFromPos_single (comp : List Rat) (sv : Nat) (h : sv ≤ comp.length) :
    itemsFromPos [comp] 0 sv = compItems 0 sv (comp.drop sv) := by
  have key : ∀ (r : List Rat) (v : Nat), v ≤ sv → sv ≤ v + r.length →
      (compItems 0 v r).dropWhile (fun it => decide (it.c < 0) || (it.c == 0 && decide (it.v < sv))) =
        compItems 0 sv (r.drop (sv - v)) := by
    intro r
    induction r with
    | nil =>
      intro v h1 h2
      simp only [List.length_nil, Nat.add_zero] at h2
      have : v = sv := by omega
      subst this
      simp only [compItems]
      rw [List.dropWhile_cons_of_neg (by simp [Item.c, Item.v])]
      simp [compItems]
    | cons s t ih =>
      intro v h1 h2
      by_cases hv : v = sv
      · subst hv
        simp only [compItems]
        rw [List.dropWhile_cons_of_neg (by simp [Item.c, Item.v])]
        simp [compItems]
      · have hlt : v < sv := by omega
        simp only [compItems]
        rw [List.dropWhile_cons_of_pos (by simp [Item.c, Item.v, hlt])]
        rw [ih (v + 1) (by omega) (by simp only [List.length_cons] at h2; omega)]
        have : sv - v = (sv - (v + 1)) + 1 := by omega
        rw [this, List.drop_succ_cons]
  have := key comp 0 (Nat.zero_le _) (by omega)
  simpa [itemsFromPos, items, itemsFrom] using this

/-! ### arc length of a location of a single-component line -/

/-- arc length of vertex `v` -/
def vpos (comp : List Rat) (v : Nat) : Rat := sumFrom 0 (comp.take v)

/-- arc length of the point a location denotes (closed form of `getLength` on a LineString) -/
def gpos (comp : List Rat) (a : Loc Rat) : Rat := vpos comp a.seg + comp.getD a.seg 0 * a.frac

theorem vpos_succ (comp : List Rat) (v : Nat) (h : v < comp.length) : vpos comp (v + 1) = vpos comp v + comp.getD v 0 := by
  induction comp generalizing v with
  | nil => simp at h
  | cons s t ih =>
    cases v with
    | zero => simp [vpos, sumFrom]
    | succ v =>
      simp only [List.length_cons] at h
      have := ih v (by omega)
      simp only [vpos, List.take_succ_cons, sumFrom, List.getD_cons_succ] at this ⊢
      rw [sumFrom_eq (0 + s), sumFrom_eq (0 + s) (List.take v t)]
      grind

theorem lenAux_single (f : Rat) (r : List Rat) (u v : Nat) (tot : Rat) (h1 : u ≤ v) (h2 : v ≤ u + r.length) :
    lenAux ⟨0, v, f⟩ tot (compItems 0 u r) = tot + sumFrom 0 (r.take (v - u)) + r.getD (v - u) 0 * f := by
  induction r generalizing u tot with
  | nil =>
    simp only [compItems, lenAux, BEq.rfl, if_true, List.take_nil, sumFrom, List.getD_nil]
    grind
  | cons s t ih =>
    by_cases hv : v = u
    · subst hv
      simp only [compItems, lenAux, BEq.rfl, Bool.and_self, if_true, Nat.sub_self, List.take_zero, sumFrom, List.getD_cons_zero]
      grind
    · have hne : ((0 : Nat) == 0 && v == u) = false := by simp [hv]
      simp only [compItems, lenAux, hne]
      simp only [List.length_cons] at h2
      rw [ih (u + 1) (tot + s) (by omega) (by omega)]
      have : v - u = (v - (u + 1)) + 1 := by omega
      rw [this, List.take_succ_cons, List.getD_cons_succ]
      simp only [sumFrom]
      rw [sumFrom_eq (0 + s)]
      grind

theorem getLength_single (comp : List Rat) (a : Loc Rat) (hc : a.comp = 0) (hv : a.seg ≤ comp.length) :
    getLength [comp] a = gpos comp a := by
  cases a with
  | mk c v f =>
    simp only at hc hv
    subst hc
    have := lenAux_single f comp 0 v 0 (Nat.zero_le _) (by omega)
    simp only [Nat.sub_zero] at this
    simp only [getLength, items, itemsFrom, List.append_nil, this, gpos, vpos]
    grind

/-! ### length of a list of locations on one component -/

/-- physical length of the straight piece from `p` to `q`, two locations on the same segment
(`q` may be the end vertex of `p`'s segment, written as the start of the next) -/
def stepLen (comp : List Rat) (p q : Loc Rat) : Rat :=
  comp.getD p.seg 0 * ((if q.seg = p.seg then q.frac else 1) - p.frac)

def pathLen (comp : List Rat) : List (Loc Rat) → Rat
  | p :: q :: r => stepLen comp p q + pathLen comp (q :: r)
  | _ => 0

/-- total length of the extracted lines -/
def outLen (comp : List Rat) : List (List (Loc Rat)) → Rat
  | [] => 0
  | l :: r => pathLen comp l + outLen comp r

/-- `p` and `q` lie on one segment of the line, `q` not before `p` -/
def GoodStep (comp : List Rat) (p q : Loc Rat) : Prop :=
  (q.seg = p.seg ∧ p.frac ≤ q.frac) ∨ (q.seg = p.seg + 1 ∧ q.frac = 0 ∧ p.frac ≤ 1 ∧ p.seg < comp.length)

def ChainP (R : Loc Rat → Loc Rat → Prop) : List (Loc Rat) → Prop
  | p :: q :: r => R p q ∧ ChainP R (q :: r)
  | _ => True

theorem stepLen_good (comp : List Rat) (p q : Loc Rat) (h : GoodStep comp p q) :
    stepLen comp p q = gpos comp q - gpos comp p := by
  rcases h with ⟨h1, _⟩ | ⟨h1, h2, _, h4⟩
  · simp only [stepLen, h1, if_true, gpos]; grind
  · have hne : ¬ q.seg = p.seg := by omega
    simp only [stepLen, hne, if_false, gpos, h1, h2, vpos_succ comp p.seg h4]
    grind

/-- telescoping: along a chain of good steps the physical length is the difference of the arc lengths of the ends -/
theorem pathLen_chain (comp : List Rat) (p : Loc Rat) (r : List (Loc Rat)) (h : ChainP (GoodStep comp) (p :: r)) :
    pathLen comp (p :: r) = gpos comp ((p :: r).getLast (by simp)) - gpos comp p := by
  induction r generalizing p with
  | nil => simp only [pathLen, List.getLast_singleton]; grind
  | cons q t ih =>
    simp only [ChainP] at h
    simp only [pathLen, stepLen_good comp p q h.1, ih q h.2, List.getLast_cons_cons]
    grind

theorem chainP_append (R : Loc Rat → Loc Rat → Prop) (l1 l2 : List (Loc Rat)) (p q : Loc Rat)
    (h1 : ChainP R (l1 ++ [p])) (h2 : ChainP R (q :: l2)) (h : R p q) : ChainP R (l1 ++ [p] ++ q :: l2) := by
  induction l1 with
  | nil => simpa [ChainP] using ⟨h, h2⟩
  | cons a t ih =>
    cases t with
    | nil =>
      simp only [List.cons_append, List.nil_append, ChainP] at h1 ⊢
      exact ⟨h1.1, h, h2⟩
    | cons b u =>
      simp only [List.cons_append, ChainP] at h1 ⊢
      exact ⟨h1.1, by simpa using ih h1.2⟩

theorem chainP_verts (comp : List Rat) (v k : Nat) (h : v + k ≤ comp.length + 1) : ChainP (GoodStep comp) (verts v k) := by
  induction k generalizing v with
  | zero => simp [verts, ChainP]
  | succ k ih =>
    cases k with
    | zero => simp [verts, ChainP]
    | succ k =>
      simp only [verts, ChainP]
      refine ⟨Or.inr ⟨rfl, rfl, ?_, ?_⟩, ?_⟩
      · simp [vloc]; grind
      · simp [vloc]; omega
      · have := ih (v + 1) (by omega)
        simpa [verts] using this

theorem verts_getLast (v k : Nat) (h : verts v (k + 1) ≠ []) : (verts v (k + 1)).getLast h = vloc (v + k) := by
  induction k generalizing v with
  | zero => simp [verts]
  | succ k ih =>
    have := ih (v + 1) (by simp [verts])
    simp only [verts] at this ⊢
    rw [List.getLast_cons (by simp)]
    rw [this]
    congr 1; omega

theorem verts_head (v k : Nat) : (verts v (k + 1)).head? = some (vloc v) := by simp [verts]

end GeosModel.LinRef

namespace GeosModel.LinRef

/-! ### shape of the locations returned by `getLocation` on a single-component line -/

theorem seg_mem_compItems {c v0 : Nat} {r : List Rat} {c' v : Nat} {s : Rat} (h : Item.seg c' v s ∈ compItems c v0 r) :
    v < v0 + r.length := by
  induction r generalizing v0 with
  | nil => simp [compItems] at h
  | cons x t ih =>
    simp only [compItems, List.mem_cons] at h
    rcases h with h | h
    · cases h; simp
    · have := ih h; simp only [List.length_cons]; omega

/-- a successful forward search lands on a segment item, or has fraction 0 -/
theorem locFwdAux_seg_or_zero (ℓ : Rat) (its : List (Item Rat)) (tot : Rat) (a : Loc Rat)
    (ht : tot ≤ ℓ) (h : locFwdAux ℓ tot its = some a) :
    (∃ c v s, Item.seg c v s ∈ its ∧ a.comp = c ∧ a.seg = v) ∨ a.frac = 0 := by
  induction its generalizing tot with
  | nil => simp [locFwdAux] at h
  | cons it r ih =>
    cases it with
    | eol c v =>
      simp only [locFwdAux] at h
      split at h
      · simp only [Option.some.injEq] at h
        rw [mkLoc_zero] at h
        subst h; right; rfl
      · rcases ih tot ht h with ⟨c', v', s', hm, hh⟩ | hz
        · left; exact ⟨c', v', s', List.mem_cons_of_mem _ hm, hh⟩
        · right; exact hz
    | seg c v s =>
      simp only [locFwdAux] at h
      split at h
      · rename_i hlt
        have hs : 0 < s := by grind
        simp only [Option.some.injEq] at h
        rw [mkLoc_mid _ _ _ (rat_div_nonneg (by grind) hs) (rat_div_lt_one hs (by grind))] at h
        subst h
        left; exact ⟨c, v, s, List.mem_cons_self, rfl, rfl⟩
      · rename_i hlt
        rcases ih (tot + s) (by grind) h with ⟨c', v', s', hm, hh⟩ | hz
        · left; exact ⟨c', v', s', List.mem_cons_of_mem _ hm, hh⟩
        · right; exact hz

/-- on a LineString every location returned for `0 ≤ ℓ ≤ total` is (0, i, f) with 0 ≤ f < 1, i ≤ n, and f = 0 at i = n -/
theorem getLocation_single (comp : List Rat) (hne : comp ≠ []) (hnn : ∀ s ∈ comp, 0 ≤ s) (ℓ : Rat)
    (h0 : 0 ≤ ℓ) (h1 : ℓ ≤ totalLen [comp]) :
    ∃ i f, getLocation [comp] ℓ = ⟨0, i, f⟩ ∧ 0 ≤ f ∧ f < 1 ∧ i ≤ comp.length ∧ (0 < f → i < comp.length) := by
  have hneg : ¬ ℓ < 0 := by grind
  simp only [getLocation, hneg, if_false, getLocationForward]
  by_cases hz : ℓ ≤ 0
  · simp only [hz, if_true, startLoc]
    exact ⟨0, 0, rfl, by grind, by grind, Nat.zero_le _, by intro h; grind⟩
  · simp only [hz, if_false]
    cases hr : locFwdAux ℓ 0 (items [comp]) with
    | none =>
      exfalso
      have := locFwdAux_none ℓ (items [comp]) 0 (by grind) (lastIsEol_itemsFrom 0 [comp] (by simp)) hr
      rw [← totalLen_eq] at this
      grind
    | some a =>
      simp only [Option.getD_some]
      obtain ⟨it, hm, hc, hv, hf0, hf1⟩ := locFwdAux_pos ℓ (items [comp]) 0 a (by grind) hr
      have hit : it ∈ compItems 0 0 comp := by simpa [items, itemsFrom] using hm
      have hb := mem_compItems hit
      refine ⟨a.seg, a.frac, ?_, hf0, hf1, by omega, ?_⟩
      · cases a with
        | mk ac av af => simp only at hc; simp only [Loc.mk.injEq, and_true, true_and]; omega
      · intro hpos
        rcases locFwdAux_seg_or_zero ℓ (items [comp]) 0 a (by grind) hr with ⟨c', v', s', hm', _, hv'⟩ | hz'
        · have hm2 : Item.seg c' v' s' ∈ compItems 0 0 comp := by simpa [items, itemsFrom] using hm'
          have := seg_mem_compItems hm2
          omega
        · grind

theorem resolveHigher_single (comp : List Rat) (a : Loc Rat) : resolveHigher [comp] a = a := by
  unfold resolveHigher
  split
  · rfl
  · simp

theorem clampIndex_id (l : Line Rat) (x : Rat) (h0 : 0 ≤ x) (h1 : x ≤ totalLen l) : clampIndex l x = x := by
  have a : ¬ x < 0 := by grind
  have b : ¬ totalLen l < x := by grind
  simp [clampIndex, positiveIndex, h0, a, b]

theorem loc_le_single {i j : Nat} {f g : Rat} (h : (⟨0, i, f⟩ : Loc Rat).le ⟨0, j, g⟩) :
    i < j ∨ (i = j ∧ f ≤ g) := by
  simp only [Loc.le, Loc.lt, Nat.lt_irrefl, if_false] at h
  by_cases h1 : j < i
  · simp [h1] at h
  · by_cases h2 : i < j
    · left; exact h2
    · right
      simp only [h1, h2, if_false, decide_eq_false_iff_not] at h
      exact ⟨by omega, by grind⟩

end GeosModel.LinRef

namespace GeosModel.LinRef

theorem isVertex_iff (c v : Nat) (f : Rat) (h0 : 0 ≤ f) (h1 : f < 1) : (⟨c, v, f⟩ : Loc Rat).isVertex = decide (¬ 0 < f) := by
  simp only [Loc.isVertex]
  have : ¬ 1 ≤ f := by grind
  by_cases hf : 0 < f
  · have : ¬ f ≤ 0 := by grind
    simp [*]
  · have : f ≤ 0 := by grind
    simp [*]

/-- closed form of `computeLinear` on a LineString -/
theorem computeLinear_single (comp : List Rat) (i j : Nat) (f g : Rat)
    (hf0 : 0 ≤ f) (hf1 : f < 1) (hg0 : 0 ≤ g) (hg1 : g < 1)
    (hi : i ≤ comp.length) (hfi : 0 < f → i < comp.length) (hj : j ≤ comp.length) (hgj : 0 < g → j < comp.length)
    (hne : (if 0 < f then [(⟨0, i, f⟩ : Loc Rat)] else []) ++ verts (if 0 < f then i + 1 else i) (j + 1 - (if 0 < f then i + 1 else i)) ++
      (if 0 < g then [(⟨0, j, g⟩ : Loc Rat)] else []) ≠ []) :
    computeLinear [comp] ⟨0, i, f⟩ ⟨0, j, g⟩ =
      [fixLine ((if 0 < f then [(⟨0, i, f⟩ : Loc Rat)] else []) ++ verts (if 0 < f then i + 1 else i) (j + 1 - (if 0 < f then i + 1 else i)) ++
        (if 0 < g then [(⟨0, j, g⟩ : Loc Rat)] else []))] := by
  have hsv : (if 0 < f then i + 1 else i) ≤ comp.length := by
    split
    · rename_i h; have := hfi h; omega
    · exact hi
  generalize hsvdef : (if 0 < f then i + 1 else i) = sv at hsv hne ⊢
  unfold computeLinear
  simp only [isVertex_iff 0 i f hf0 hf1, isVertex_iff 0 j g hg0 hg1, hsvdef, itemsFromPos_single comp sv hsv]
  by_cases hjn : j < comp.length
  · rw [show (if (!decide ¬0 < f) = true then (Builder.add ⟨[], none⟩ ⟨0, i, f⟩ : Builder Rat) else ⟨[], none⟩) =
        ⟨[], if 0 < f then some [⟨0, i, f⟩] else none⟩ by
          by_cases hf : 0 < f <;> simp [hf, Builder.add]]
    rw [extractLoop_before j g hg0 (comp.drop sv) sv [] _ (by simp only [List.length_drop]; omega)]
    by_cases hf : 0 < f <;> by_cases hg : 0 < g <;> by_cases hk : j + 1 - sv = 0 <;>
      simp [hf, hg, hk, Builder.add, endLine_some, verts] at hne ⊢
  · have hjn' : j = comp.length := by omega
    have hg : ¬ 0 < g := fun h => hjn (hgj h)
    rw [show (if (!decide ¬0 < f) = true then (Builder.add ⟨[], none⟩ ⟨0, i, f⟩ : Builder Rat) else ⟨[], none⟩) =
        ⟨[], if 0 < f then some [⟨0, i, f⟩] else none⟩ by
          by_cases hf : 0 < f <;> simp [hf, Builder.add]]
    rw [extractLoop_toEnd j g hg0 (comp.drop sv) sv [] _ (by simp only [List.length_drop]; omega)]
    have hk : (comp.drop sv).length + 1 = j + 1 - sv := by simp only [List.length_drop]; omega
    rw [hk]
    by_cases hf : 0 < f <;> simp [hf, hg, Builder.endLine]

end GeosModel.LinRef

namespace GeosModel.LinRef

theorem chainP_single (R : Loc Rat → Loc Rat → Prop) (p : Loc Rat) : ChainP R [p] := by simp [ChainP]

theorem chainP_cons_verts (comp : List Rat) (p : Loc Rat) (v k : Nat) (h : v + (k + 1) ≤ comp.length + 1)
    (hp : GoodStep comp p (vloc v)) : ChainP (GoodStep comp) (p :: verts v (k + 1)) := by
  have := chainP_verts comp v (k + 1) h
  simp only [verts] at this ⊢
  exact ⟨hp, this⟩

theorem chainP_snoc (R : Loc Rat → Loc Rat → Prop) (l : List (Loc Rat)) (hl : l ≠ []) (q : Loc Rat)
    (h : ChainP R l) (hq : R (l.getLast hl) q) : ChainP R (l ++ [q]) := by
  induction l with
  | nil => exact absurd rfl hl
  | cons a t ih =>
    cases t with
    | nil => simpa [ChainP] using hq
    | cons b u =>
      simp only [ChainP] at h
      simp only [List.cons_append, ChainP]
      refine ⟨h.1, ?_⟩
      have := ih (by simp) h.2 (by simpa [List.getLast_cons_cons] using hq)
      simpa using this

theorem verts_getLast? (v k : Nat) : (verts v (k + 1)).getLast? = some (vloc (v + k)) := by
  induction k generalizing v with
  | zero => simp [verts]
  | succ k ih =>
    have := ih (v + 1)
    simp only [verts] at this ⊢
    rw [List.getLast?_cons_cons, this]
    congr 2; omega

theorem pathLen_fix (comp : List Rat) (l : List (Loc Rat)) (hd lt : Loc Rat) (hh : l.head? = some hd)
    (hl : l.getLast? = some lt) (h : ChainP (GoodStep comp) l) :
    ChainP (GoodStep comp) (fixLine l) ∧ pathLen comp (fixLine l) = gpos comp lt - gpos comp hd := by
  rcases l with _ | ⟨p, _ | ⟨q, r⟩⟩
  · simp at hh
  · simp only [List.head?_cons, Option.some.injEq, List.getLast?_singleton] at hh hl
    subst hh hl
    simp only [fixLine, ChainP, pathLen, stepLen, if_true, and_true]
    refine ⟨Or.inl ⟨rfl, Rat.le_refl⟩, by grind⟩
  · simp only [List.head?_cons, Option.some.injEq] at hh
    subst hh
    simp only [fixLine]
    refine ⟨h, ?_⟩
    rw [pathLen_chain comp p (q :: r) h]
    have : (p :: q :: r).getLast? = some ((p :: q :: r).getLast (by simp)) := List.getLast?_eq_some_getLast (by simp)
    rw [this] at hl
    simp only [Option.some.injEq] at hl
    rw [hl]

/-- the extracted line of a LineString: good steps only, length = arc(e) − arc(s) -/
theorem computeLinear_length (comp : List Rat) (i j : Nat) (f g : Rat)
    (hf0 : 0 ≤ f) (hf1 : f < 1) (hg0 : 0 ≤ g) (hg1 : g < 1)
    (hi : i ≤ comp.length) (hfi : 0 < f → i < comp.length) (hj : j ≤ comp.length) (hgj : 0 < g → j < comp.length)
    (hle : (⟨0, i, f⟩ : Loc Rat).le ⟨0, j, g⟩) :
    (∀ line ∈ computeLinear [comp] ⟨0, i, f⟩ ⟨0, j, g⟩, ChainP (GoodStep comp) line) ∧
    outLen comp (computeLinear [comp] ⟨0, i, f⟩ ⟨0, j, g⟩) = gpos comp ⟨0, j, g⟩ - gpos comp ⟨0, i, f⟩ := by
  have hord := loc_le_single hle
  suffices hL : ∃ (L : List (Loc Rat)) (hd lt : Loc Rat), computeLinear [comp] ⟨0, i, f⟩ ⟨0, j, g⟩ = [fixLine L] ∧
      ChainP (GoodStep comp) L ∧ L.head? = some hd ∧ L.getLast? = some lt ∧
      gpos comp hd = gpos comp ⟨0, i, f⟩ ∧ gpos comp lt = gpos comp ⟨0, j, g⟩ by
    obtain ⟨L, hd, lt, hcl, hch, hh, hl, e1, e2⟩ := hL
    have := pathLen_fix comp L hd lt hh hl hch
    rw [hcl]
    refine ⟨by intro line hm; simp only [List.mem_singleton] at hm; subst hm; exact this.1, ?_⟩
    simp only [outLen, this.2, e1, e2]; grind
  by_cases hf : 0 < f
  · have hin := hfi hf
    by_cases hk : j + 1 - (i + 1) = 0
    · have hij : i = j ∧ f ≤ g := by
        rcases hord with h | h
        · omega
        · exact h
      have hg : 0 < g := by grind
      refine ⟨[⟨0, i, f⟩, ⟨0, j, g⟩], _, _, ?_, ?_, rfl, rfl, rfl, rfl⟩
      · have := computeLinear_single comp i j f g hf0 hf1 hg0 hg1 hi hfi hj hgj (by simp [hf])
        simpa [hf, hg, hk, verts] using this
      · simp only [ChainP, and_true]
        exact Or.inl ⟨hij.1.symm, hij.2⟩
    · obtain ⟨k, hkk⟩ : ∃ k, j + 1 - (i + 1) = k + 1 := ⟨j + 1 - (i + 1) - 1, by omega⟩
      have hV : ChainP (GoodStep comp) ((⟨0, i, f⟩ : Loc Rat) :: verts (i + 1) (k + 1)) :=
        chainP_cons_verts comp _ (i + 1) k (by omega) (Or.inr ⟨rfl, rfl, by grind, hin⟩)
      have hlast : ((⟨0, i, f⟩ : Loc Rat) :: verts (i + 1) (k + 1)).getLast? = some (vloc j) := by
        have := verts_getLast? (i + 1) k
        simp only [verts] at this ⊢
        rw [List.getLast?_cons_cons, this]
        congr 2; omega
      by_cases hg : 0 < g
      · refine ⟨((⟨0, i, f⟩ : Loc Rat) :: verts (i + 1) (k + 1)) ++ [⟨0, j, g⟩], _, _, ?_, ?_, rfl, by rw [List.getLast?_append]; simp, rfl, rfl⟩
        · have := computeLinear_single comp i j f g hf0 hf1 hg0 hg1 hi hfi hj hgj (by simp [hf])
          simpa [hf, hg, hkk] using this
        · apply chainP_snoc _ _ (by simp) _ hV
          have : ((⟨0, i, f⟩ : Loc Rat) :: verts (i + 1) (k + 1)).getLast (by simp) = vloc j := by
            have h2 := List.getLast?_eq_some_getLast (l := (⟨0, i, f⟩ : Loc Rat) :: verts (i + 1) (k + 1)) (by simp)
            rw [hlast] at h2
            exact (Option.some.inj h2).symm
          rw [this]
          exact Or.inl ⟨rfl, hg0⟩
      · have hgz : g = 0 := by grind
        refine ⟨(⟨0, i, f⟩ : Loc Rat) :: verts (i + 1) (k + 1), _, _, ?_, hV, rfl, hlast, rfl, ?_⟩
        · have := computeLinear_single comp i j f g hf0 hf1 hg0 hg1 hi hfi hj hgj (by simp [hf])
          simpa [hf, hg, hkk] using this
        · rw [hgz]; rfl
  · have hfz : f = 0 := by grind
    have hij : i ≤ j := by rcases hord with h | h <;> omega
    obtain ⟨k, hkk⟩ : ∃ k, j + 1 - i = k + 1 := ⟨j - i, by omega⟩
    have hV : ChainP (GoodStep comp) (verts i (k + 1)) := chainP_verts comp i (k + 1) (by omega)
    have hlast : (verts i (k + 1)).getLast? = some (vloc j) := by
      rw [verts_getLast?]; congr 2; omega
    have hhead : (verts i (k + 1)).head? = some (vloc i) := verts_head i k
    by_cases hg : 0 < g
    · refine ⟨verts i (k + 1) ++ [⟨0, j, g⟩], vloc i, _, ?_, ?_, ?_, by simp, ?_, rfl⟩
      · have := computeLinear_single comp i j f g hf0 hf1 hg0 hg1 hi hfi hj hgj (by simp [hf, hkk, verts])
        simpa [hf, hg, hkk] using this
      · have hne : verts i (k + 1) ≠ [] := by simp [verts]
        apply chainP_snoc _ _ hne _ hV
        have : (verts i (k + 1)).getLast hne = vloc j := by
          have h2 := List.getLast?_eq_some_getLast (l := verts i (k + 1)) hne
          rw [hlast] at h2
          exact (Option.some.inj h2).symm
        rw [this]
        exact Or.inl ⟨rfl, hg0⟩
      · simp [verts]
      · rw [hfz]; rfl
    · have hgz : g = 0 := by grind
      refine ⟨verts i (k + 1), vloc i, vloc j, ?_, hV, hhead, hlast, ?_, ?_⟩
      · have := computeLinear_single comp i j f g hf0 hf1 hg0 hg1 hi hfi hj hgj (by simp [hf, hkk, verts])
        simpa [hf, hg, hkk] using this
      · rw [hfz]; rfl
      · rw [hgz]; rfl

end GeosModel.LinRef
