import GeosModel.Proofs.LinRef.Loc
/-!
Lemmas lifting the item-list facts to whole lines (`items l`), used by Props/C19.lean.
-/
namespace GeosModel.LinRef

theorem totalLen_nonneg (l : Line Rat) (hnn : l.NonNeg) : 0 ≤ totalLen l := by
  rw [totalLen_eq]; exact itemsLen_nonneg _ (itemsNonNeg_items l hnn 0)

theorem items_cons_wf (comp : List Rat) (r : Line Rat) (h : Line.WF (comp :: r) = true) :
    ∃ s t, comp = s :: t ∧ items (comp :: r) = .seg 0 0 s :: (compItems 0 1 t ++ itemsFrom 1 r) := by
  cases comp with
  | nil => simp [Line.WF] at h
  | cons s t => exact ⟨s, t, rfl, by simp [items, itemsFrom, compItems]⟩

theorem getLength_start (l : Line Rat) (hwf : l.WF = true) : getLength l startLoc = 0 := by
  cases l with
  | nil => simp [getLength, items, itemsFrom, lenAux]
  | cons comp r =>
    obtain ⟨s, t, _, hi⟩ := items_cons_wf comp r hwf
    simp only [getLength, hi, lenAux, startLoc, BEq.rfl, Bool.and_self, if_true]
    grind

/-- positions of the iterator are bounded by the end location -/
theorem mem_itemsFrom_bound {c0 : Nat} {l : Line Rat} {it : Item Rat} (h : it ∈ itemsFrom c0 l) :
    it.c < c0 + l.length ∧ (it.c = c0 + l.length - 1 → ∃ last, l.getLast? = some last ∧ it.v ≤ last.length) := by
  induction l generalizing c0 with
  | nil => simp [itemsFrom] at h
  | cons comp r ih =>
    simp only [itemsFrom, List.mem_append] at h
    rcases h with h | h
    · have hh := mem_compItems h
      refine ⟨by simp only [List.length_cons]; omega, ?_⟩
      intro hc
      simp only [List.length_cons] at hc
      have hr : r = [] := by
        cases r with
        | nil => rfl
        | cons a t => simp only [List.length_cons] at hc; omega
      subst hr
      exact ⟨comp, rfl, by omega⟩
    · have hh := ih h
      refine ⟨by simp only [List.length_cons]; omega, ?_⟩
      intro hc
      simp only [List.length_cons] at hc
      obtain ⟨last, hl, hv⟩ := hh.2 (by omega)
      refine ⟨last, ?_, hv⟩
      cases r with
      | nil => simp at hl
      | cons a t => simpa [List.getLast?_cons_cons] using hl

theorem le_endLoc (l : Line Rat) (a : Loc Rat) (it : Item Rat) (hm : it ∈ items l)
    (hc : a.comp = it.c) (hv : a.seg = it.v) (hf : a.frac < 1) : a.le (endLoc l) := by
  obtain ⟨h1, h2⟩ := mem_itemsFrom_bound hm
  simp only [Nat.zero_add] at h1 h2
  by_cases hlast : it.c = l.length - 1
  · obtain ⟨last, hl, hvl⟩ := h2 hlast
    by_cases hvv : it.v = last.length
    · have : a = ⟨l.length - 1, last.length, a.frac⟩ := by
        cases a with
        | mk ac av af =>
          simp only at hc hv
          simp only [Loc.mk.injEq, and_true]
          omega
      rw [this]
      simp only [endLoc, hl]
      exact Loc.le_of_same (by grind)
    · apply Loc.le_of_pos_lt
      simp only [endLoc, hl]
      omega
  · apply Loc.le_of_pos_lt
    cases hg : l.getLast? with
    | none =>
      have : l = [] := by simpa using hg
      subst this; simp [items, itemsFrom] at hm
    | some last => simp only [endLoc, hg]; omega

theorem startLoc_le (a : Loc Rat) (h : 0 ≤ a.frac) : (startLoc : Loc Rat).le a := by
  unfold Loc.le Loc.lt startLoc
  simp only [Nat.not_lt_zero, if_false]
  split
  · rfl
  · split
    · rfl
    · simp only [decide_eq_false_iff_not]; grind

theorem endLoc_frac_nonneg (l : Line Rat) : 0 ≤ (endLoc l).frac := by
  unfold endLoc
  cases l.getLast? <;> simp <;> grind

/-- `getLength (getLocation ℓ) = ℓ` for `0 ≤ ℓ ≤ total` -/
theorem loc_len_inverse' (l : Line Rat) (hwf : l.WF = true) (hnn : l.NonNeg) (ℓ : Rat)
    (h0 : 0 ≤ ℓ) (h1 : ℓ ≤ totalLen l) : getLength l (getLocation l ℓ) = ℓ := by
  have hneg : ¬ ℓ < 0 := by grind
  simp only [getLocation, hneg, if_false, getLocationForward]
  by_cases hz : ℓ ≤ 0
  · have : ℓ = 0 := by grind
    subst this
    simp only [Rat.le_refl, if_true, getLength_start l hwf]
  · simp only [hz, if_false]
    cases hr : locFwdAux ℓ 0 (items l) with
    | some a =>
      simp only [Option.getD_some, getLength]
      exact lenAux_locFwdAux ℓ (items l) 0 a (okItems_itemsFrom 0 l) (by grind) hr
    | none =>
      exfalso
      have hl : l ≠ [] := by
        intro h; subst h
        simp [totalLen, sumFrom] at h1; grind
      have := locFwdAux_none ℓ (items l) 0 (by grind) (lastIsEol_itemsFrom 0 l hl) hr
      rw [← totalLen_eq] at this
      grind

end GeosModel.LinRef
