import GeosModel.Model.LinRef.Project
import GeosModel.Proofs.LinRef.Extract
/-!
`LengthIndexOfPoint::indexOf` followed by `LengthIndexedLine::extractPoint` on a LineString without repeated points,
over `Rat`, with the code's `sqrt` replaced by a function that is an exact square root on the arguments that occur.
-/
namespace GeosModel.LinRef

def lerp (a b : P2 Rat) (t : Rat) : P2 Rat := ⟨(b.x - a.x) * t + a.x, (b.y - a.y) * t + a.y⟩

/-- the quadratic t ↦ |p − lerp a b t|² : difference of two values -/
theorem d2_lerp_diff (a b p : P2 Rat) (t s : Rat) :
    d2 p (lerp a b t) - d2 p (lerp a b s) =
      (t - s) * (d2 b a * (t + s) - 2 * ((p.x - a.x) * (b.x - a.x) + (p.y - a.y) * (b.y - a.y))) := by
  simp only [d2, lerp]; grind

theorem rat_sq_nonneg (x : Rat) : 0 ≤ x * x := by
  rcases Rat.le_total (a := 0) (b := x) with h | h
  · exact Rat.mul_nonneg h h
  · have := Rat.mul_nonneg (a := -x) (b := -x) (by grind) (by grind)
    grind

theorem d2_nonneg (a b : P2 Rat) : 0 ≤ d2 a b := by
  have h1 := rat_sq_nonneg (a.x - b.x)
  have h2 := rat_sq_nonneg (a.y - b.y)
  simp only [d2]; grind

theorem d2_pos (a b : P2 Rat) (h : a ≠ b) : 0 < d2 a b := by
  have h1 := rat_sq_nonneg (a.x - b.x)
  have h2 := rat_sq_nonneg (a.y - b.y)
  have hn := d2_nonneg a b
  by_cases h3 : d2 a b = 0
  · exfalso
    apply h
    simp only [d2] at h3
    have e1 : (a.x - b.x) * (a.x - b.x) = 0 := by grind
    have e2 : (a.y - b.y) * (a.y - b.y) = 0 := by grind
    have f1 : a.x - b.x = 0 := by
      rcases Rat.mul_eq_zero.mp e1 with h | h <;> exact h
    have f2 : a.y - b.y = 0 := by
      rcases Rat.mul_eq_zero.mp e2 with h | h <;> exact h
    cases a; cases b; simp only [P2.mk.injEq]; simp only at f1 f2; constructor <;> grind
  · grind

end GeosModel.LinRef

namespace GeosModel.LinRef

def pnum (a b p : P2 Rat) : Rat := (p.x - a.x) * (b.x - a.x) + (p.y - a.y) * (b.y - a.y)
def rfac (a b p : P2 Rat) : Rat := pnum a b p / d2 b a
def clamp01 (r : Rat) : Rat := if r ≤ 0 then 0 else if 1 ≤ r then 1 else r

theorem clamp01_range (r : Rat) : 0 ≤ clamp01 r ∧ clamp01 r ≤ 1 := by
  unfold clamp01; split
  · grind
  · split <;> grind

/-- the clamped projection parameter gives a nearest point of the segment -/
theorem seg_nearest (a b p : P2 Rat) (hab : a ≠ b) (t : Rat) (ht0 : 0 ≤ t) (ht1 : t ≤ 1) :
    d2 p (lerp a b (clamp01 (rfac a b p))) ≤ d2 p (lerp a b t) := by
  have hL : 0 < d2 b a := d2_pos b a (fun h => hab h.symm)
  have hr : d2 b a * rfac a b p = pnum a b p := by
    unfold rfac; exact rat_mul_div_cancel (by grind)
  have hd := d2_lerp_diff a b p t (clamp01 (rfac a b p))
  rw [show (p.x - a.x) * (b.x - a.x) + (p.y - a.y) * (b.y - a.y) = pnum a b p from rfl, ← hr] at hd
  generalize rfac a b p = r at hd hr ⊢
  generalize d2 b a = L at hd hL hr
  unfold clamp01 at hd ⊢
  by_cases h1 : r ≤ 0
  · simp only [h1, if_true] at hd ⊢
    have : 0 ≤ L * (t * (t - 2 * r)) :=
      Rat.mul_nonneg (Rat.le_of_lt hL) (Rat.mul_nonneg ht0 (by grind))
    grind
  · simp only [h1, if_false] at hd ⊢
    by_cases h2 : 1 ≤ r
    · simp only [h2, if_true] at hd ⊢
      have : 0 ≤ L * ((1 - t) * (2 * r - 1 - t)) :=
        Rat.mul_nonneg (Rat.le_of_lt hL) (Rat.mul_nonneg (by grind) (by grind))
      grind
    · simp only [h2, if_false] at hd ⊢
      have : 0 ≤ L * ((t - r) * (t - r)) := Rat.mul_nonneg (Rat.le_of_lt hL) (rat_sq_nonneg _)
      grind

end GeosModel.LinRef

namespace GeosModel.LinRef

theorem eq2_false {a b : P2 Rat} (h : a ≠ b) : a.eq2 b = false := by
  cases a with | mk ax ay => cases b with | mk bx «by» =>
  simp only [P2.eq2, Bool.and_eq_false_iff, beq_eq_false_iff_ne]
  by_cases hx : ax = bx
  · right; intro hy; apply h; simp [hx, hy]
  · left; exact hx

theorem eq2_true {a b : P2 Rat} (h : a.eq2 b = true) : a = b := by
  cases a with | mk ax ay => cases b with | mk bx «by» =>
  simp only [P2.eq2, Bool.and_eq_true, beq_iff_eq] at h
  simp [h.1, h.2]

theorem absv_sq (s : Rat) : 0 ≤ absv s ∧ absv s * absv s = s * s := by
  unfold absv; split <;> constructor <;> grind

theorem lerp_zero (a b : P2 Rat) : lerp a b 0 = a := by
  cases a; simp only [lerp, P2.mk.injEq]; constructor <;> grind
theorem lerp_one (a b : P2 Rat) : lerp a b 1 = b := by
  cases b; simp only [lerp, P2.mk.injEq]; constructor <;> grind

/-- exact square root at `x` -/
def IsSqrt (sq : Rat → Rat) (x : Rat) : Prop := 0 ≤ sq x ∧ sq x * sq x = x

/-- `Distance::pointToSegment` returns the (non-negative) distance to the nearest point of the segment -/
theorem pointToSegment_spec (sq : Rat → Rat) (a b p : P2 Rat) (hab : a ≠ b)
    (h1 : IsSqrt sq (d2 p a)) (h2 : IsSqrt sq (d2 p b)) (h3 : IsSqrt sq (d2 b a)) :
    0 ≤ pointToSegment sq p a b ∧
    pointToSegment sq p a b * pointToSegment sq p a b = d2 p (lerp a b (clamp01 (rfac a b p))) := by
  have hL : 0 < d2 b a := d2_pos b a (fun h => hab h.symm)
  unfold pointToSegment
  simp only [eq2_false hab, Bool.false_eq_true, if_false]
  show 0 ≤ (if rfac a b p ≤ 0 then dist sq p a else if 1 ≤ rfac a b p then dist sq p b else
      absv (((a.y - p.y) * (b.x - a.x) - (a.x - p.x) * (b.y - a.y)) / d2 b a) * sq (d2 b a)) ∧
    (if rfac a b p ≤ 0 then dist sq p a else if 1 ≤ rfac a b p then dist sq p b else
      absv (((a.y - p.y) * (b.x - a.x) - (a.x - p.x) * (b.y - a.y)) / d2 b a) * sq (d2 b a)) *
    (if rfac a b p ≤ 0 then dist sq p a else if 1 ≤ rfac a b p then dist sq p b else
      absv (((a.y - p.y) * (b.x - a.x) - (a.x - p.x) * (b.y - a.y)) / d2 b a) * sq (d2 b a)) = _
  unfold clamp01
  by_cases c1 : rfac a b p ≤ 0
  · simp only [c1, if_true, dist, lerp_zero]; exact h1
  · simp only [c1, if_false]
    by_cases c2 : 1 ≤ rfac a b p
    · simp only [c2, if_true, dist, lerp_one]; exact h2
    · simp only [c2, if_false]
      obtain ⟨ha0, has⟩ := absv_sq (((a.y - p.y) * (b.x - a.x) - (a.x - p.x) * (b.y - a.y)) / d2 b a)
      refine ⟨Rat.mul_nonneg ha0 h3.1, ?_⟩
      have hr : d2 b a * rfac a b p = pnum a b p := by
        unfold rfac; exact rat_mul_div_cancel (by grind)
      have hs : d2 b a * (((a.y - p.y) * (b.x - a.x) - (a.x - p.x) * (b.y - a.y)) / d2 b a) =
          (a.y - p.y) * (b.x - a.x) - (a.x - p.x) * (b.y - a.y) := rat_mul_div_cancel (by grind)
      generalize ((a.y - p.y) * (b.x - a.x) - (a.x - p.x) * (b.y - a.y)) / d2 b a = s at has hs ⊢
      generalize rfac a b p = r at hr ⊢
      have h3s := h3.2
      generalize sq (d2 b a) = q at h3s ⊢
      generalize absv s = as at has ⊢
      -- (as q)² = s² L ; target = |w − r u|²
      have e1 : as * q * (as * q) = s * s * d2 b a := by
        calc as * q * (as * q) = (as * as) * (q * q) := by grind
          _ = s * s * d2 b a := by rw [has, h3s]
      rw [e1]
      simp only [d2, lerp, pnum] at hr hs hL ⊢
      grind

end GeosModel.LinRef

namespace GeosModel.LinRef

theorem d2_comm (a b : P2 Rat) : d2 a b = d2 b a := by simp only [d2]; grind

theorem pnum_self (a b : P2 Rat) : pnum a b a = 0 := by simp only [pnum]; grind
theorem pnum_end (a b : P2 Rat) : pnum a b b = d2 b a := by simp only [pnum, d2]

theorem projectionFactor_eq (a b p : P2 Rat) (hab : a ≠ b) : projectionFactor a b p = rfac a b p := by
  have hL : 0 < d2 b a := d2_pos b a (fun h => hab h.symm)
  unfold projectionFactor
  by_cases h1 : p.eq2 a = true
  · have := eq2_true h1; subst this
    simp only [h1, if_true, rfac, pnum_self, Rat.div_def]; grind
  · simp only [h1, Bool.false_eq_true, if_false]
    by_cases h2 : p.eq2 b = true
    · have := eq2_true h2; subst this
      simp only [h2, if_true, rfac, pnum_end]
      have := rat_mul_div_cancel (a := d2 p a) (s := d2 p a) (by grind)
      grind
    · simp only [h2, eq2_false hab, Bool.false_eq_true, if_false]
      rfl

/-- a segment on which the code's square roots are exact and which has positive length -/
def GoodSeg (sq : Rat → Rat) (p : P2 Rat) (s : P2 Rat × P2 Rat) : Prop :=
  s.1 ≠ s.2 ∧ IsSqrt sq (d2 s.2 s.1) ∧ IsSqrt sq (d2 p s.1) ∧ IsSqrt sq (d2 p s.2)

theorem dist_seg (sq : Rat → Rat) (a b : P2 Rat) : dist sq a b = sq (d2 b a) := by
  simp only [dist, d2_comm a b]

theorem segmentNearestMeasure_eq (sq : Rat → Rat) (a b p : P2 Rat) (hab : a ≠ b) (start : Rat) :
    segmentNearestMeasure sq a b p start = start + clamp01 (rfac a b p) * sq (d2 b a) := by
  unfold segmentNearestMeasure
  simp only [projectionFactor_eq a b p hab, dist_seg]
  unfold clamp01
  by_cases h1 : rfac a b p ≤ 0
  · simp only [h1, if_true]; grind
  · simp only [h1, if_false]
    by_cases h2 : rfac a b p ≤ 1
    · simp only [h2, if_true]
      by_cases h3 : 1 ≤ rfac a b p
      · have : rfac a b p = 1 := by grind
        simp only [this, Rat.le_refl, if_true]
      · simp only [h3, if_false]
    · have h3 : 1 ≤ rfac a b p := by grind
      simp only [h2, h3, if_false, if_true]; grind

def segD (sq : Rat → Rat) (p : P2 Rat) (s : P2 Rat × P2 Rat) : Rat := pointToSegment sq p s.1 s.2
def segC (p : P2 Rat) (s : P2 Rat × P2 Rat) : Rat := clamp01 (rfac s.1 s.2 p)
def segLen (sq : Rat → Rat) (s : P2 Rat × P2 Rat) : Rat := sq (d2 s.2 s.1)

def sumLens (sq : Rat → Rat) : List (P2 Rat × P2 Rat) → Rat
  | [] => 0
  | s :: r => segLen sq s + sumLens sq r

theorem sumLens_nonneg (sq : Rat → Rat) (p : P2 Rat) (l : List (P2 Rat × P2 Rat)) (h : ∀ s ∈ l, GoodSeg sq p s) :
    0 ≤ sumLens sq l := by
  induction l with
  | nil => simp [sumLens]
  | cons s r ih =>
    have := (h s List.mem_cons_self).2.1.1
    have := ih (fun x hx => h x (List.mem_cons_of_mem _ hx))
    simp only [sumLens, segLen]; grind

/-- **the projection loop**: either nothing beats the current minimum, or the result is the measure of the first
segment (after the prefix `pre`) whose distance is minimal over all segments and beats the current minimum -/
theorem indexLoop_spec (sq : Rat → Rat) (p : P2 Rat) (segs : List (P2 Rat × P2 Rat))
    (hg : ∀ s ∈ segs, GoodSeg sq p s) (minD : Option Rat) (ptM start : Rat) (hst : 0 ≤ start)
    (res : Option Rat × Rat × Rat) (hres : indexLoop sq p (0 - 1) segs (minD, ptM, start) = res) :
    (res.1 = minD ∧ res.2.1 = ptM ∧ ∀ s ∈ segs, ∃ d, minD = some d ∧ d ≤ segD sq p s) ∨
    (∃ pre s post, segs = pre ++ s :: post ∧ res.1 = some (segD sq p s) ∧
      res.2.1 = start + sumLens sq pre + segC p s * segLen sq s ∧
      (∀ x ∈ segs, segD sq p s ≤ segD sq p x) ∧ (∀ d, minD = some d → segD sq p s < d)) := by
  induction segs generalizing minD ptM start with
  | nil => left; simp only [indexLoop] at hres; subst hres; simp
  | cons s r ih =>
    obtain ⟨a, b⟩ := s
    have hgs := hg (a, b) List.mem_cons_self
    have hgr : ∀ x ∈ r, GoodSeg sq p x := fun x hx => hg x (List.mem_cons_of_mem _ hx)
    have hlen : 0 ≤ sq (d2 b a) := hgs.2.1.1
    have hM : segmentNearestMeasure sq a b p start = start + segC p (a, b) * segLen sq (a, b) :=
      segmentNearestMeasure_eq sq a b p hgs.1 start
    have hc := clamp01_range (rfac a b p)
    have hMpos : (0 : Rat) - 1 < segmentNearestMeasure sq a b p start := by
      rw [hM]
      have := Rat.mul_nonneg hc.1 hlen
      simp only [segC, segLen]; grind
    have hst' : 0 ≤ start + dist sq a b := by rw [dist_seg]; grind
    have step : indexLoop sq p (0 - 1) ((a, b) :: r) (minD, ptM, start) =
        indexLoop sq p (0 - 1) r
          (if (closer minD (pointToSegment sq p a b) &&
                decide ((0 : Rat) - 1 < segmentNearestMeasure sq a b p start)) = true
           then (some (pointToSegment sq p a b), segmentNearestMeasure sq a b p start, start + dist sq a b)
           else (minD, ptM, start + dist sq a b)) := rfl
    rw [step] at hres
    by_cases hb : closer minD (pointToSegment sq p a b) = true
    · -- new minimum
      have hbet : (closer minD (pointToSegment sq p a b) &&
                decide ((0 : Rat) - 1 < segmentNearestMeasure sq a b p start)) = true := by simp [hb, hMpos]
      rw [if_pos hbet] at hres
      have hbd : ∀ d, minD = some d → pointToSegment sq p a b < d := by
        intro d hd; subst hd; simpa [closer] using hb
      rcases ih hgr (some (pointToSegment sq p a b)) (segmentNearestMeasure sq a b p start) (start + dist sq a b) hst' hres with
        ⟨h1, h2, h3⟩ | ⟨pre, s', post, hsp, h1, h2, h3, h4⟩
      · right
        refine ⟨[], (a, b), r, rfl, h1, ?_, ?_, hbd⟩
        · rw [h2, hM]; simp only [sumLens]; grind
        · intro x hx
          rcases List.mem_cons.mp hx with rfl | hx
          · exact Rat.le_refl
          · obtain ⟨d, hd, hle⟩ := h3 x hx
            simp only [Option.some.injEq] at hd
            subst hd; exact hle
      · right
        have hlt := h4 _ rfl
        refine ⟨(a, b) :: pre, s', post, by rw [hsp]; rfl, h1, ?_, ?_, ?_⟩
        · rw [h2, dist_seg]; simp only [sumLens, segLen]; grind
        · intro x hx
          rcases List.mem_cons.mp hx with rfl | hx
          · exact Rat.le_of_lt hlt
          · exact h3 x hx
        · intro d hd
          have := hbd d hd
          grind
    · -- not better than the current minimum
      have hbet : (closer minD (pointToSegment sq p a b) &&
                decide ((0 : Rat) - 1 < segmentNearestMeasure sq a b p start)) = false := by simp [hb]
      rw [hbet] at hres
      simp only [Bool.false_eq_true, if_false] at hres
      obtain ⟨d0, hd0, hle0⟩ : ∃ d, minD = some d ∧ d ≤ pointToSegment sq p a b := by
        cases minD with
        | none => simp [closer] at hb
        | some d =>
          have : ¬ pointToSegment sq p a b < d := by simpa [closer] using hb
          exact ⟨d, rfl, by grind⟩
      rcases ih hgr minD ptM (start + dist sq a b) hst' hres with ⟨h1, h2, h3⟩ | ⟨pre, s', post, hsp, h1, h2, h3, h4⟩
      · left
        refine ⟨h1, h2, ?_⟩
        intro x hx
        rcases List.mem_cons.mp hx with rfl | hx
        · exact ⟨d0, hd0, hle0⟩
        · exact h3 x hx
      · right
        have hlt := h4 d0 hd0
        refine ⟨(a, b) :: pre, s', post, by rw [hsp]; rfl, h1, ?_, ?_, h4⟩
        · rw [h2, dist_seg]; simp only [sumLens, segLen]; grind
        · intro x hx
          rcases List.mem_cons.mp hx with rfl | hx
          · have : segD sq p (a, b) = pointToSegment sq p a b := rfl
            grind
          · exact h3 x hx

end GeosModel.LinRef

namespace GeosModel.LinRef

/-! ### uniqueness of the (segment, fraction) representation of an arc length when all segments have positive length -/

theorem vpos_le_total (comp : List Rat) (hp : ∀ s ∈ comp, 0 < s) (i j : Nat) (hij : i ≤ j) (hj : j ≤ comp.length) :
    vpos comp i ≤ vpos comp j := by
  induction j with
  | zero => have : i = 0 := by omega
            subst this; exact Rat.le_refl
  | succ j ih =>
    by_cases h : i = j + 1
    · subst h; exact Rat.le_refl
    · have h1 := ih (by omega) (by omega)
      have h2 := vpos_succ comp j (by omega)
      have : 0 < comp.getD j 0 := by
        have hm : comp.getD j 0 ∈ comp := by
          rw [List.getD_eq_getElem?_getD, List.getElem?_eq_getElem (by omega)]; simp
        exact hp _ hm
      grind

theorem getD_pos (comp : List Rat) (hp : ∀ s ∈ comp, 0 < s) (i : Nat) (hi : i < comp.length) : 0 < comp.getD i 0 := by
  have hm : comp.getD i 0 ∈ comp := by
    rw [List.getD_eq_getElem?_getD, List.getElem?_eq_getElem hi]; simp
  exact hp _ hm

theorem getD_zero_of_ge (comp : List Rat) (i : Nat) (hi : comp.length ≤ i) : comp.getD i 0 = 0 := by
  rw [List.getD_eq_getElem?_getD, List.getElem?_eq_none hi]; rfl

theorem gpos_unique (comp : List Rat) (hp : ∀ s ∈ comp, 0 < s) (i k : Nat) (f c : Rat)
    (hi : i ≤ comp.length) (hf0 : 0 ≤ f) (hf1 : f < 1) (hfi : 0 < f → i < comp.length)
    (hk : k < comp.length) (hc0 : 0 ≤ c) (hc1 : c ≤ 1)
    (h : gpos comp ⟨0, i, f⟩ = gpos comp ⟨0, k, c⟩) :
    (c < 1 ∧ i = k ∧ f = c) ∨ (c = 1 ∧ i = k + 1 ∧ f = 0) := by
  simp only [gpos] at h
  have hlk := getD_pos comp hp k hk
  have hsk := vpos_succ comp k hk
  have hck : 0 ≤ comp.getD k 0 * c := Rat.mul_nonneg (Rat.le_of_lt hlk) hc0
  have hck1 : comp.getD k 0 * c ≤ comp.getD k 0 := by
    have := Rat.mul_le_mul_of_nonneg_left hc1 (Rat.le_of_lt hlk)
    grind
  by_cases h1 : i < k
  · exfalso
    have hli := getD_pos comp hp i (by omega)
    have hsi := vpos_succ comp i (by omega)
    have hmono := vpos_le_total comp hp (i + 1) k (by omega) (by omega)
    have : comp.getD i 0 * f < comp.getD i 0 := by
      have := Rat.mul_lt_mul_of_pos_left hf1 hli
      grind
    grind
  · by_cases h2 : i = k
    · subst h2
      left
      have hfc : comp.getD i 0 * f = comp.getD i 0 * c := by grind
      have : f = c := by
        have e1 := rat_mul_div_cancel (a := comp.getD i 0 * f) (s := comp.getD i 0) (by grind)
        have : comp.getD i 0 * (f - c) = 0 := by grind
        rcases Rat.mul_eq_zero.mp this with h0 | h0
        · grind
        · grind
      exact ⟨by grind, rfl, this⟩
    · by_cases h3 : i = k + 1
      · subst h3
        right
        have hfi0 : 0 ≤ comp.getD (k + 1) 0 * f := by
          by_cases hlt : k + 1 < comp.length
          · exact Rat.mul_nonneg (Rat.le_of_lt (getD_pos comp hp _ hlt)) hf0
          · rw [getD_zero_of_ge comp _ (by omega)]; grind
        have e : comp.getD (k + 1) 0 * f = 0 ∧ comp.getD k 0 * c = comp.getD k 0 := by
          constructor <;> grind
        have hc : c = 1 := by
          have : comp.getD k 0 * (c - 1) = 0 := by grind
          rcases Rat.mul_eq_zero.mp this with h0 | h0 <;> grind
        have hf : f = 0 := by
          by_cases hlt : k + 1 < comp.length
          · rcases Rat.mul_eq_zero.mp e.1 with h0 | h0
            · have := getD_pos comp hp _ hlt; grind
            · exact h0
          · by_cases hfp : 0 < f
            · have := hfi hfp; omega
            · grind
        exact ⟨hc, rfl, hf⟩
      · exfalso
        have hk1 : k + 1 < comp.length := by omega
        have hl1 := getD_pos comp hp (k + 1) hk1
        have hs1 := vpos_succ comp (k + 1) hk1
        have hmono := vpos_le_total comp hp (k + 2) i (by omega) hi
        have hfi0 : 0 ≤ comp.getD i 0 * f := by
          by_cases hlt : i < comp.length
          · exact Rat.mul_nonneg (Rat.le_of_lt (getD_pos comp hp _ hlt)) hf0
          · rw [getD_zero_of_ge comp _ (by omega)]; grind
        grind

end GeosModel.LinRef

namespace GeosModel.LinRef

theorem sumFrom_map_segLen (sq : Rat → Rat) (l : List (P2 Rat × P2 Rat)) :
    sumFrom 0 (l.map (segLen sq)) = sumLens sq l := by
  induction l with
  | nil => rfl
  | cons s r ih =>
    simp only [List.map_cons, sumFrom, sumLens]
    rw [sumFrom_eq, ih]; grind

theorem lineOf_single (sq : Rat → Rat) (pts : List (P2 Rat)) : lineOf sq [pts] = [(pairs pts).map (segLen sq)] := by
  simp only [lineOf, List.map_cons, List.map_nil]
  rfl

theorem pairs_getElem? (pts : List (P2 Rat)) (k : Nat) (a b : P2 Rat) (h : (pairs pts)[k]? = some (a, b)) :
    pts[k]? = some a ∧ pts[k + 1]? = some b := by
  induction pts generalizing k with
  | nil => simp [pairs] at h
  | cons x r ih =>
    cases r with
    | nil => simp [pairs] at h
    | cons y t =>
      cases k with
      | zero =>
        simp only [pairs, List.getElem?_cons_zero, Option.some.injEq, Prod.mk.injEq] at h
        simp [h.1, h.2]
      | succ k =>
        simp only [pairs, List.getElem?_cons_succ] at h
        have := ih k h
        simpa using this

theorem pairs_length (pts : List (P2 Rat)) : (pairs pts).length = pts.length - 1 := by
  induction pts with
  | nil => rfl
  | cons x r ih =>
    cases r with
    | nil => rfl
    | cons y t => simp only [pairs, List.length_cons] at ih ⊢; omega

theorem pointAlong_lerp (a b : P2 Rat) (f : Rat) (h0 : 0 ≤ f) (h1 : f < 1) : pointAlong a b f = lerp a b f := by
  unfold pointAlong
  by_cases hz : f ≤ 0
  · have : f = 0 := by grind
    subst this
    simp only [Rat.le_refl, if_true, lerp_zero]
  · have h2 : ¬ 1 ≤ f := by grind
    simp only [hz, h2, if_false, lerp]

theorem rat_sq_le {u v : Rat} (hu : 0 ≤ u) (huv : u ≤ v) : u * u ≤ v * v := by
  have h1 := Rat.mul_le_mul_of_nonneg_left huv hu
  have h2 := Rat.mul_le_mul_of_nonneg_right huv (by grind : 0 ≤ v)
  grind

theorem isSqrt_pos (sq : Rat → Rat) (x : Rat) (h : IsSqrt sq x) (hx : 0 < x) : 0 < sq x := by
  by_cases hz : sq x = 0
  · have := h.2; rw [hz] at this; grind
  · have := h.1; grind

/-- projecting `p` on a LineString without repeated points and interpolating at the returned length
gives a point of the line that is at least as close to `p` as every other point of the line -/
theorem project_interpolate_single (sq : Rat → Rat) (pts : List (P2 Rat)) (p : P2 Rat)
    (hne : pairs pts ≠ []) (hg : ∀ s ∈ pairs pts, GoodSeg sq p s) :
    ∃ q, interpolate sq [pts] (project sq [pts] p) = some q ∧
      (∃ s ∈ pairs pts, ∃ t, 0 ≤ t ∧ t ≤ 1 ∧ q = lerp s.1 s.2 t) ∧
      ∀ s ∈ pairs pts, ∀ t, 0 ≤ t → t ≤ 1 → d2 p q ≤ d2 p (lerp s.1 s.2 t) := by
  -- the loop
  have hproj : project sq [pts] p = (indexLoop sq p (0 - 1) (pairs pts) (none, 0 - 1, 0)).2.1 := by
    simp [project]
  rcases indexLoop_spec sq p (pairs pts) hg none (0 - 1) 0 Rat.le_refl _ rfl with ⟨_, _, h3⟩ | ⟨pre, s, post, hsp, _, hm, hmin, _⟩
  · exfalso
    cases hps : pairs pts with
    | nil => exact hne hps
    | cons x r =>
      obtain ⟨d, hd, _⟩ := h3 x (by rw [hps]; exact List.mem_cons_self)
      simp at hd
  · obtain ⟨a, b⟩ := s
    have hsm : (a, b) ∈ pairs pts := by rw [hsp]; simp
    have hgs := hg (a, b) hsm
    -- the component of segment lengths
    have hcompdef : (pairs pts).map (segLen sq) = pre.map (segLen sq) ++ segLen sq (a, b) :: post.map (segLen sq) := by
      rw [hsp]; simp
    generalize hcomp : (pairs pts).map (segLen sq) = comp at hcompdef
    have hk : pre.length < comp.length := by rw [hcompdef]; simp
    have hpos : ∀ x ∈ comp, 0 < x := by
      intro x hx
      rw [← hcomp] at hx
      obtain ⟨s', hs', rfl⟩ := List.mem_map.mp hx
      have g' := hg s' hs'
      exact isSqrt_pos sq _ g'.2.1 (d2_pos _ _ (fun h => g'.1 h.symm))
    have hvk : vpos comp pre.length = sumLens sq pre := by
      rw [hcompdef]
      simp only [vpos, List.take_left' (List.length_map _ |>.symm ▸ rfl : (pre.map (segLen sq)).length = pre.length)]
      exact sumFrom_map_segLen sq pre
    have hgk : comp.getD pre.length 0 = segLen sq (a, b) := by
      rw [hcompdef, List.getD_eq_getElem?_getD]
      simp
    have hc := clamp01_range (rfac a b p)
    have hmg : project sq [pts] p = gpos comp ⟨0, pre.length, segC p (a, b)⟩ := by
      rw [hproj, hm]
      simp only [gpos, hvk, hgk]; grind
    -- bounds
    have hlk := getD_pos comp hpos pre.length hk
    have hm0 : 0 ≤ gpos comp ⟨0, pre.length, segC p (a, b)⟩ := by
      have := vpos_le_total comp hpos 0 pre.length (Nat.zero_le _) (by omega)
      have h0 : vpos comp 0 = 0 := by simp [vpos, sumFrom]
      have := Rat.mul_nonneg (Rat.le_of_lt hlk) hc.1
      simp only [gpos, segC] at *; grind
    have htot : totalLen [comp] = vpos comp comp.length := by
      simp only [totalLen, List.map_cons, List.map_nil, sumFrom, compLen, vpos, List.take_length]
      grind
    have hm1 : gpos comp ⟨0, pre.length, segC p (a, b)⟩ ≤ totalLen [comp] := by
      rw [htot]
      have h1 := vpos_succ comp pre.length hk
      have h2 := vpos_le_total comp hpos (pre.length + 1) comp.length (by omega) (Nat.le_refl _)
      have := Rat.mul_le_mul_of_nonneg_left hc.2 (Rat.le_of_lt hlk)
      simp only [gpos, segC] at *; grind
    have hcne : comp ≠ [] := by intro h; rw [h] at hk; simp at hk
    have hnn : ∀ x ∈ comp, 0 ≤ x := fun x hx => Rat.le_of_lt (hpos x hx)
    obtain ⟨i, f, hloc, hf0, hf1, hi, hfi⟩ := getLocation_single comp hcne hnn _ hm0 hm1
    have hwf : Line.WF [comp] = true := by
      cases comp with
      | nil => exact absurd rfl hcne
      | cons x t => simp [Line.WF]
    have hnn' : Line.NonNeg [comp] := by
      intro c hc' x hx
      simp only [List.mem_singleton] at hc'
      subst hc'; exact hnn x hx
    have hinv := loc_len_inverse' [comp] hwf hnn' _ hm0 hm1
    rw [hloc, getLength_single comp ⟨0, i, f⟩ rfl hi] at hinv
    have huniq := gpos_unique comp hpos i pre.length f (segC p (a, b)) hi hf0 hf1 hfi hk hc.1 hc.2 hinv
    -- coordinates
    have hpk : (pairs pts)[pre.length]? = some (a, b) := by rw [hsp]; simp
    obtain ⟨hpa, hpb⟩ := pairs_getElem? pts pre.length a b hpk
    have hlen : pts.length - 1 = comp.length := by rw [← hcomp, List.length_map, pairs_length]
    have hq : interpolate sq [pts] (project sq [pts] p) = some (lerp a b (segC p (a, b))) := by
      simp only [interpolate, lineOf_single, hcomp, hmg, hloc]
      rcases huniq with ⟨hc1, rfl, rfl⟩ | ⟨hc1, rfl, rfl⟩
      · have hnl : ¬ pts.length - 1 ≤ pre.length := by omega
        simp only [coordAt, List.getElem?_cons_zero, hpa, hpb, hnl, if_false]
        rw [pointAlong_lerp a b _ hf0 hc1]
      · rw [hc1, lerp_one]
        simp only [coordAt, List.getElem?_cons_zero, hpb]
        by_cases hl : pts.length - 1 ≤ pre.length + 1
        · simp [hl]
        · simp only [hl, if_false]
          cases hnx : pts[pre.length + 1 + 1]? with
          | none => rfl
          | some p1 => simp [pointAlong]
    refine ⟨_, hq, ⟨(a, b), hsm, segC p (a, b), hc.1, hc.2, rfl⟩, ?_⟩
    intro s' hs' t ht0 ht1
    have g' := hg s' hs'
    obtain ⟨n1, e1⟩ := pointToSegment_spec sq a b p hgs.1 hgs.2.2.1 hgs.2.2.2 hgs.2.1
    obtain ⟨n2, e2⟩ := pointToSegment_spec sq s'.1 s'.2 p g'.1 g'.2.2.1 g'.2.2.2 g'.2.1
    have hle := hmin s' hs'
    have hsq := rat_sq_le n1 hle
    have hnear := seg_nearest s'.1 s'.2 p g'.1 t ht0 ht1
    simp only [segD, segC] at *
    grind

end GeosModel.LinRef
