import GeosModel.Model.LinRef.Map
/-!
Lemmas for the linear-referencing model over the exact carrier `Rat` (core `Rat`; linear arithmetic by `grind`).
-/
namespace GeosModel.LinRef

/-! ### small facts about `Rat` division -/

theorem rat_div_nonneg {a s : Rat} (ha : 0 ≤ a) (hs : 0 < s) : 0 ≤ a / s := by
  rw [Rat.div_def]
  exact Rat.mul_nonneg ha (Rat.le_of_lt (Rat.inv_pos.mpr hs))

theorem rat_div_lt_one {a s : Rat} (hs : 0 < s) (h : a < s) : a / s < 1 := by
  rw [Rat.div_lt_iff hs]; grind

theorem rat_div_le_div {a b s : Rat} (hs : 0 < s) (h : a ≤ b) : a / s ≤ b / s := by
  rw [Rat.div_def, Rat.div_def]
  exact Rat.mul_le_mul_of_nonneg_right h (Rat.le_of_lt (Rat.inv_pos.mpr hs))

theorem rat_mul_div_cancel {a s : Rat} (hs : s ≠ 0) : s * (a / s) = a := by
  grind

theorem rat_beq_true {a b : Rat} : (a == b) = true ↔ a = b := by simp
theorem rat_beq_false {a b : Rat} : (a == b) = false ↔ a ≠ b := by simp

/-! ### sums -/

theorem sumFrom_eq (acc : Rat) (xs : List Rat) : sumFrom acc xs = acc + sumFrom 0 xs := by
  induction xs generalizing acc with
  | nil => simp [sumFrom]; grind
  | cons x r ih =>
    simp only [sumFrom]
    rw [ih (acc + x), ih (0 + x)]
    grind

theorem sumFrom_nonneg (xs : List Rat) (h : ∀ x ∈ xs, 0 ≤ x) : 0 ≤ sumFrom 0 xs := by
  induction xs with
  | nil => simp [sumFrom]
  | cons x r ih =>
    simp only [sumFrom]
    rw [sumFrom_eq]
    have := ih (fun y hy => h y (List.mem_cons_of_mem _ hy))
    have := h x (List.mem_cons_self)
    grind

/-- all segment lengths are non-negative -/
def Line.NonNeg (l : Line Rat) : Prop := ∀ c ∈ l, ∀ s ∈ c, 0 ≤ s

/-- total of the segment lengths in an item list -/
def itemsLen : List (Item Rat) → Rat
  | [] => 0
  | .seg _ _ s :: r => s + itemsLen r
  | .eol _ _ :: r => itemsLen r

def ItemsNonNeg (its : List (Item Rat)) : Prop := ∀ c v s, Item.seg c v s ∈ its → 0 ≤ s

theorem itemsLen_nonneg (its : List (Item Rat)) (h : ItemsNonNeg its) : 0 ≤ itemsLen its := by
  induction its with
  | nil => simp [itemsLen]
  | cons it r ih =>
    have hr : ItemsNonNeg r := fun c v s hm => h c v s (List.mem_cons_of_mem _ hm)
    cases it with
    | seg c v s =>
      simp only [itemsLen]
      have := h c v s List.mem_cons_self
      have := ih hr
      grind
    | eol c v => simpa [itemsLen] using ih hr

theorem itemsLen_append (a b : List (Item Rat)) : itemsLen (a ++ b) = itemsLen a + itemsLen b := by
  induction a with
  | nil => simp [itemsLen]; grind
  | cons it r ih =>
    cases it <;> simp [itemsLen, ih] <;> grind

theorem itemsLen_compItems (c v : Nat) (comp : List Rat) : itemsLen (compItems c v comp) = sumFrom 0 comp := by
  induction comp generalizing v with
  | nil => simp [compItems, itemsLen, sumFrom]
  | cons s r ih =>
    simp only [compItems, itemsLen, sumFrom, ih]
    rw [sumFrom_eq (0 + s)]; grind

theorem itemsLen_itemsFrom (c : Nat) (l : Line Rat) : itemsLen (itemsFrom c l) = totalLen l := by
  induction l generalizing c with
  | nil => simp [itemsFrom, itemsLen, totalLen, sumFrom]
  | cons comp r ih =>
    simp only [itemsFrom, itemsLen_append, itemsLen_compItems, ih, totalLen, List.map_cons, sumFrom, compLen]
    rw [sumFrom_eq (0 + _)]; grind

theorem totalLen_eq (l : Line Rat) : totalLen l = itemsLen (items l) := (itemsLen_itemsFrom 0 l).symm

/-! ### structure of the iterator positions -/

theorem mem_compItems {c v : Nat} {comp : List Rat} {it : Item Rat} (h : it ∈ compItems c v comp) :
    it.c = c ∧ v ≤ it.v ∧ it.v ≤ v + comp.length := by
  induction comp generalizing v with
  | nil => simp [compItems] at h; subst h; simp [Item.c, Item.v]
  | cons s r ih =>
    simp only [compItems, List.mem_cons] at h
    rcases h with h | h
    · subst h; simp [Item.c, Item.v]
    · have := ih h
      simp only [List.length_cons]
      omega

theorem mem_itemsFrom {c : Nat} {l : Line Rat} {it : Item Rat} (h : it ∈ itemsFrom c l) : c ≤ it.c := by
  induction l generalizing c with
  | nil => simp [itemsFrom] at h
  | cons comp r ih =>
    simp only [itemsFrom, List.mem_append] at h
    rcases h with h | h
    · have := mem_compItems h; omega
    · have := ih h; omega

/-- the positions are strictly increasing: after a segment only later positions follow, after an end-of-line
stop only later components follow -/
def OKItems : List (Item Rat) → Prop
  | [] => True
  | .seg c v _ :: r => (∀ it ∈ r, c < it.c ∨ (it.c = c ∧ v < it.v)) ∧ OKItems r
  | .eol c _ :: r => (∀ it ∈ r, c < it.c) ∧ OKItems r

theorem okItems_append_comp (c v : Nat) (comp : List Rat) (rest : List (Item Rat))
    (hr : OKItems rest) (hc : ∀ it ∈ rest, c < it.c) : OKItems (compItems c v comp ++ rest) := by
  induction comp generalizing v with
  | nil => simpa [compItems, OKItems] using ⟨hc, hr⟩
  | cons s r ih =>
    simp only [compItems, List.cons_append, OKItems]
    refine ⟨?_, ih (v + 1)⟩
    intro it hit
    rcases List.mem_append.mp hit with h | h
    · have := mem_compItems h
      right; omega
    · left; exact hc it h

theorem okItems_itemsFrom (c : Nat) (l : Line Rat) : OKItems (itemsFrom c l) := by
  induction l generalizing c with
  | nil => simp [itemsFrom, OKItems]
  | cons comp r ih =>
    simp only [itemsFrom]
    apply okItems_append_comp _ _ _ _ (ih (c + 1))
    intro it hit
    have := mem_itemsFrom hit
    omega

/-- the item list ends with an end-of-line stop -/
def lastIsEol : List (Item Rat) → Bool
  | [] => false
  | [.eol _ _] => true
  | [.seg _ _ _] => false
  | _ :: b :: r => lastIsEol (b :: r)

theorem lastIsEol_append (a b : List (Item Rat)) (hb : b ≠ []) : lastIsEol (a ++ b) = lastIsEol b := by
  induction a with
  | nil => rfl
  | cons x r ih =>
    cases hrb : r ++ b with
    | nil => simp at hrb; exact absurd hrb.2 hb
    | cons y t =>
      rw [List.cons_append, hrb]
      simp only [lastIsEol]
      rw [← hrb, ih]

theorem lastIsEol_compItems (c v : Nat) (comp : List Rat) : lastIsEol (compItems c v comp) = true := by
  induction comp generalizing v with
  | nil => rfl
  | cons s r ih =>
    have := ih (v + 1)
    cases hr : compItems c (v + 1) r with
    | nil => cases r <;> simp [compItems] at hr
    | cons y t =>
      simp only [compItems, hr, lastIsEol]
      rw [← hr]; exact this

theorem compItems_ne_nil (c v : Nat) (comp : List Rat) : compItems c v comp ≠ [] := by
  cases comp <;> simp [compItems]

theorem lastIsEol_itemsFrom (c : Nat) (l : Line Rat) (hl : l ≠ []) : lastIsEol (itemsFrom c l) = true := by
  induction l generalizing c with
  | nil => exact absurd rfl hl
  | cons comp r ih =>
    simp only [itemsFrom]
    by_cases hr : r = []
    · subst hr; simp [itemsFrom, lastIsEol_compItems]
    · have hne : itemsFrom (c + 1) r ≠ [] := by
        cases r with
        | nil => exact absurd rfl hr
        | cons a t =>
          simp only [itemsFrom]
          intro h
          have := List.append_eq_nil_iff.mp h
          exact compItems_ne_nil _ _ _ this.1
      rw [lastIsEol_append _ _ hne]
      exact ih (c + 1) hr

theorem itemsNonNeg_items (l : Line Rat) (h : l.NonNeg) (c0 : Nat) : ItemsNonNeg (itemsFrom c0 l) := by
  induction l generalizing c0 with
  | nil => intro c v s hm; simp [itemsFrom] at hm
  | cons comp r ih =>
    intro c v s hm
    simp only [itemsFrom, List.mem_append] at hm
    rcases hm with hm | hm
    · have hc : ∀ x ∈ comp, 0 ≤ x := h comp List.mem_cons_self
      clear ih h
      generalize 0 = v0 at hm
      induction comp generalizing v0 with
      | nil => simp [compItems] at hm
      | cons x t iht =>
        simp only [compItems, List.mem_cons] at hm
        rcases hm with hm | hm
        · cases hm; exact hc _ List.mem_cons_self
        · exact iht (fun y hy => hc y (List.mem_cons_of_mem _ hy)) _ hm
    · exact ih (fun c hc => h c (List.mem_cons_of_mem _ hc)) (c0 + 1) c v s hm

end GeosModel.LinRef
