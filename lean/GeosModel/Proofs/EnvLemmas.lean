import GeosModel.Base.Env
namespace GeosModel.Env

theorem inter_union_left (a b q : Env) (h : inter a q = true) : inter (union a b) q = true := by
  cases a with
  | none => simp [inter] at h
  | some a =>
    cases q with
    | none => simp [inter] at h
    | some q =>
      cases b with
      | none => simpa [union] using h
      | some b =>
        simp only [inter, union, Bool.and_eq_true, decide_eq_true_eq] at h ⊢
        refine ⟨⟨⟨?_, ?_⟩, ?_⟩, ?_⟩ <;> split <;> omega

theorem inter_union_right (a b q : Env) (h : inter b q = true) : inter (union a b) q = true := by
  cases b with
  | none => simp [inter] at h
  | some b =>
    cases q with
    | none => simp [inter] at h
    | some q =>
      cases a with
      | none => simpa [union] using h
      | some a =>
        simp only [inter, union, Bool.and_eq_true, decide_eq_true_eq] at h ⊢
        refine ⟨⟨⟨?_, ?_⟩, ?_⟩, ?_⟩ <;> split <;> omega

/-- two well-formed boxes intersect (in the code's sense) iff they share a point -/
theorem inter_iff_common_point (a q : Box) (ha : a.minx ≤ a.maxx ∧ a.miny ≤ a.maxy)
    (hq : q.minx ≤ q.maxx ∧ q.miny ≤ q.maxy) :
    inter (some a) (some q) = true ↔ ∃ x y, containsPt (some a) x y = true ∧ containsPt (some q) x y = true := by
  simp only [inter, containsPt, Bool.and_eq_true, decide_eq_true_eq]
  constructor
  · intro h
    refine ⟨max a.minx q.minx, max a.miny q.miny, ?_, ?_⟩ <;> omega
  · rintro ⟨x, y, h1, h2⟩
    omega

theorem inter_comm (a q : Env) : inter a q = inter q a := by
  cases a <;> cases q <;> simp [inter]
  rename_i a q
  by_cases h1 : q.minx ≤ a.maxx <;> by_cases h2 : a.minx ≤ q.maxx <;>
    by_cases h3 : q.miny ≤ a.maxy <;> by_cases h4 : a.miny ≤ q.maxy <;> simp [*]

theorem inter_self (a : Box) (ha : a.minx ≤ a.maxx ∧ a.miny ≤ a.maxy) : inter (some a) (some a) = true := by
  simp [inter]; omega

end GeosModel.Env
