import GeosModel.Model.Readers.Resource
import GeosModel.Proofs.WKT.Roundtrip
/-!
C11 for the WKT reader model, part 2: the tokenizer is total and never produces more tokens than characters;
the nested-collection witness family `nestToks d` (3 d + 5 tokens) is accepted and returns a tree of
GEOMETRYCOLLECTION nesting depth `d` — one `readGeometryTaggedText → readGeometryCollectionText` activation
pair of the C++ per level, so no constant bounds the reader's stack.
-/
namespace GeosModel.WKT.Depth
open GeosModel GeosModel.WKT GeosModel.Readers

/-! ### tokenizer -/

theorem spanChunk_len : ∀ (cs : List Char), (spanChunk cs).1.length + (spanChunk cs).2.length = cs.length
  | [] => rfl
  | c :: cs => by
    have ih := spanChunk_len cs
    unfold spanChunk
    split
    · simp
    · simp only [List.length_cons]; omega

/-- the rest after a chunk that starts with a non-delimiter is strictly shorter -/
theorem spanChunk_rest_lt (c : Char) (cs : List Char) (h : isDelim c = false) :
    (spanChunk (c :: cs)).2.length ≤ cs.length := by
  have := spanChunk_len cs
  unfold spanChunk
  simp only [h, Bool.false_eq_true, if_false]
  omega

/-- a character that is not `(`, `)`, `,` and not blank is not a delimiter -/
theorem not_delim {c : Char} (h1 : ¬ c = '(') (h2 : ¬ c = ')') (h3 : ¬ c = ',') (h4 : ¬ isBlank c = true) :
    isDelim c = false := by
  simp_all [isDelim, isBlank]

/-- **at most one token per character** -/
theorem tokenizeF_length_le : ∀ (f : Nat) (cs : List Char), (tokenizeF f cs).length ≤ cs.length
  | 0, cs => by simp [tokenizeF]
  | f + 1, [] => by simp [tokenizeF]
  | f + 1, c :: cs => by
    rw [tokenizeF]
    split
    · have := tokenizeF_length_le f cs; simp only [List.length_cons]; omega
    · split
      · have := tokenizeF_length_le f cs; simp only [List.length_cons]; omega
      · split
        · have := tokenizeF_length_le f cs; simp only [List.length_cons]; omega
        · split
          · have := tokenizeF_length_le f cs; simp only [List.length_cons]; omega
          · rename_i h1 h2 h3 h4
            have hr := spanChunk_rest_lt c cs (not_delim h1 h2 h3 h4)
            have := tokenizeF_length_le f (spanChunk (c :: cs)).2
            simp only [List.length_cons]
            omega

theorem tokenize_length_le (cs : List Char) : (tokenize cs).length ≤ cs.length := tokenizeF_length_le _ cs

/-- **the tokenizer's fuel never binds**: any two budgets above the number of characters give the same tokens
(so `tokenize`, which supplies `length + 1`, is the fuel-free function) -/
theorem tokenizeF_fuel : ∀ (f f' : Nat) (cs : List Char), cs.length < f → cs.length < f' →
    tokenizeF f cs = tokenizeF f' cs
  | 0, _, _, h, _ => by omega
  | _, 0, _, _, h => by omega
  | f + 1, f' + 1, [], _, _ => by simp [tokenizeF]
  | f + 1, f' + 1, c :: cs, h, h' => by
    simp only [List.length_cons] at h h'
    rw [tokenizeF, tokenizeF]
    have ih := tokenizeF_fuel f f' cs (by omega) (by omega)
    split
    · rw [ih]
    · split
      · rw [ih]
      · split
        · rw [ih]
        · split
          · rw [ih]
          · rename_i h1 h2 h3 h4
            have hr := spanChunk_rest_lt c cs (not_delim h1 h2 h3 h4)
            dsimp only
            rw [tokenizeF_fuel f f' (spanChunk (c :: cs)).2 (by omega) (by omega)]

/-! ### the nested-collection witnesses -/

theorem nestG_WFs : ∀ d, WFs (nestG d) = true
  | 0 => by decide
  | d + 1 => by simp [nestG, WFs, WFsL, nestG_WFs d]

theorem nestG_noZM : ∀ d, hasZ (nestG d) = false ∧ hasM (nestG d) = false
  | 0 => by decide
  | d + 1 => by
    have ih := nestG_noZM d
    simp [nestG, hasZ, hasZs, hasM, hasMs, ih.1, ih.2]

theorem outOrds_nest (d : Nat) : outOrds {} (nestG d) = ⟨false, false⟩ := by
  have h := nestG_noZM d
  simp [outOrds, h.1, h.2, capOrds]

theorem nestG_dimOK : ∀ d, dimOK {} (nestG d) = true
  | 0 => by decide
  | d + 1 => by
    have ih := nestG_dimOK d
    have ho := outOrds_nest (d + 1)
    simp only [nestG] at ho
    simp [nestG, dimOK, dimOKs, ih, ho]

theorem nestG_project : ∀ d, project {} id (nestG d) = nestG d
  | 0 => by rfl
  | d + 1 => by simp [nestG, project, projectList, nestG_project d]

theorem nestG_gFuel : ∀ d, gFuel (nestG d) = 4 * d + 4
  | 0 => by decide
  | d + 1 => by simp only [nestG, gFuel, gsFuel, nestG_gFuel d]; omega

theorem nestToks_succ (d : Nat) :
    nestToks (d + 1) = .word "GEOMETRYCOLLECTION" :: .lp :: nestToks d ++ [.rp] := by
  have ho := outOrds_nest (d + 1)
  simp only [nestG] at ho
  simp [nestToks, writeToks, nestG, tagged, taggedList, ho, ordText, listText, commaSep]

theorem nestToks_length : ∀ d, (nestToks d).length = 3 * d + 5
  | 0 => by decide
  | d + 1 => by rw [nestToks_succ]; simp [nestToks_length d]; omega

theorem gcDepth_nest : ∀ d, gcDepth (nestG d) = d
  | 0 => by decide
  | d + 1 => by simp [nestG, gcDepth, gcDepths, gcDepth_nest d]

/-- the `d`-fold nested collection is accepted and comes back as the tree of nesting depth `d` -/
theorem readToks_nest (d : Nat) : readToks (nestToks d) = .ok (nestG d) := by
  have h := roundtrip_readToks {} rfl (nestG d) (nestG_WFs d) (nestG_dimOK d)
    (by rw [nestG_gFuel]; have := nestToks_length d; simp only [nestToks] at this; omega)
  rw [nestG_project] at h
  exact h

end GeosModel.WKT.Depth
