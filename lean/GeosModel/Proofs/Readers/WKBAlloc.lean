import GeosModel.Proofs.WKB.Fuel
import GeosModel.Model.WKB.Resource
/-!
C11 for the WKB reader model, resource clause: the allocation accounting of `Model/WKB/Resource.lean` is LINEAR in the
input, for every input and every depth budget (so in particular without any depth limit):

    allocGeom arc fuel o bs ≤ 4 · bs.length

Accounting (potential argument, 4 bytes of allocation per input byte):
* a coordinate sequence that is read successfully consumed exactly the bytes it allocated (`readCoords_consumed`) plus
  its 4-byte size word; one that fails after its `minMemSize` guard allocated at most twice the bytes that were
  available (32 bytes per XYZM coordinate against the 16 the guard asks for) — and a failure ends the whole read;
* every `readGeometry` that succeeds consumed at least the 5-byte header, which pays (4 · 5 ≥ 16) for the slot its
  parent pushes for it: invariant `RdOK` — success: `alloc + slot + 4 · rest ≤ 4 · given`, failure: `alloc ≤ 4 · given`;
* every polygon hole that is read consumed at least its 4-byte size word, which pays (4 · 4 = 16) for its slot: this is
  the tight case, a polygon with `k` empty holes charges `16 k` on `13 + 4 k` bytes.
-/
namespace GeosModel.WKB.Alloc
open GeosModel GeosModel.WKB

variable {arc : ArcOracle}

theorem optU64_consumed {o : Order} {c : Bool} {bs : List UInt8} {n : UInt64} {r : List UInt8}
    (h : (if c then readU64 o bs else .ok (nanBits, bs)) = .ok (n, r)) : r.length + 8 * toN c = bs.length := by
  cases c
  · simp only [Bool.false_eq_true, if_false, Except.ok.injEq, Prod.mk.injEq] at h; rw [← h.2]; simp [toN]
  · simp only [if_true] at h; have := readU64_len h; simp [toN]; omega

/-- the coordinate loop consumes exactly what `CoordinateSequence(n, hasZ, hasM)` holds -/
theorem readCoords_consumed (o : Order) (z m : Bool) :
    ∀ (n : Nat) (bs : List UInt8) (ps : List Coord) (r : List UInt8),
      readCoords o z m n bs = .ok (ps, r) → r.length + seqAlloc z m n = bs.length
  | 0, bs, ps, r, h => by
    simp only [readCoords, Except.ok.injEq, Prod.mk.injEq] at h
    rw [← h.2]; simp [seqAlloc]
  | n + 1, bs, ps, r, h => by
    simp only [readCoords] at h
    cases h1 : readU64 o bs with
    | error e => simp [h1] at h
    | ok v1 =>
      obtain ⟨x, b1⟩ := v1
      simp only [h1] at h
      cases h2 : readU64 o b1 with
      | error e => simp [h2] at h
      | ok v2 =>
        obtain ⟨y, b2⟩ := v2
        simp only [h2] at h
        cases h3 : (if z then readU64 o b2 else .ok (nanBits, b2)) with
        | error e => simp [h3] at h
        | ok v3 =>
          obtain ⟨zv, b3⟩ := v3
          simp only [h3] at h
          cases h4 : (if m then readU64 o b3 else .ok (nanBits, b3)) with
          | error e => simp [h4] at h
          | ok v4 =>
            obtain ⟨mv, b4⟩ := v4
            simp only [h4] at h
            cases h5 : readCoords o z m n b4 with
            | error e => simp [h5] at h
            | ok v5 =>
              obtain ⟨ps', b5⟩ := v5
              simp only [h5, Except.ok.injEq, Prod.mk.injEq] at h
              have ih := readCoords_consumed o z m n b4 ps' b5 h5
              have l1 := readU64_len h1; have l2 := readU64_len h2
              have l3 := optU64_consumed h3; have l4 := optU64_consumed h4
              rw [← h.2]
              simp only [seqAlloc] at ih ⊢
              generalize toN z = a at *
              generalize toN m = b at *
              have e1 : 8 * (2 + a + b) * (n + 1) = 8 * (2 + a + b) * n + (16 + 8 * a + 8 * b) := by
                rw [Nat.mul_succ]; omega
              omega

theorem seqAlloc_le (z m : Bool) (n : Nat) : seqAlloc z m n ≤ 32 * n := by
  simp only [seqAlloc]
  have : 8 * (2 + toN z + toN m) ≤ 32 := by cases z <;> cases m <;> simp [toN]
  exact Nat.mul_le_mul_right n this

/-- outcome of a sequence reader with its allocation `a`: success = consumed exactly `a + extra` bytes;
failure = at most twice the available bytes were requested -/
def SeqAcct (extra : Nat) {α : Type} (bs : List UInt8) (a : Nat) (res : Except Err (α × List UInt8)) : Prop :=
  match res with
  | .ok (_, r) => a + r.length + extra = bs.length
  | .error _ => a ≤ 2 * bs.length

theorem allocSized_acct (o : Order) (z m : Bool) (bs : List UInt8) :
    SeqAcct 4 bs (allocSized o z m bs) (readSizedSeq o z m bs) := by
  simp only [allocSized, readSizedSeq]
  cases h1 : readU32 o bs with
  | error e => simp [SeqAcct]
  | ok v1 =>
    obtain ⟨n, b1⟩ := v1
    have l1 := readU32_len h1
    simp only
    by_cases hg : b1.length < n * 16
    · simp [hg, SeqAcct]
    · simp only [hg, if_false, readCoordSeq]
      cases h2 : readCoords o z m n b1 with
      | error e =>
        simp only [SeqAcct]
        have := seqAlloc_le z m n
        omega
      | ok v2 =>
        obtain ⟨ps, b2⟩ := v2
        have := readCoords_consumed o z m n b1 ps b2 h2
        simp only [SeqAcct]
        omega

theorem allocRing_acct (o : Order) (z m : Bool) (bs : List UInt8) :
    SeqAcct 4 bs (allocSized o z m bs) (readRing o z m bs) := by
  have h := allocSized_acct o z m bs
  simp only [readRing]
  cases h1 : readSizedSeq o z m bs with
  | error e => simpa [h1, SeqAcct] using h
  | ok v =>
    obtain ⟨s, b⟩ := v
    simp only [h1, SeqAcct] at h
    simp only
    split
    · simp only [SeqAcct]; exact h
    · simp only [SeqAcct]; omega

theorem allocRings_acct (o : Order) (z m : Bool) : ∀ (k : Nat) (bs : List UInt8),
    match readRings o z m k bs with
    | .ok (_, r) => allocRings o z m k bs + 4 * r.length ≤ 4 * bs.length
    | .error _ => allocRings o z m k bs ≤ 4 * bs.length
  | 0, bs => by simp [allocRings, readRings]
  | k + 1, bs => by
    have h1 := allocRing_acct o z m bs
    simp only [allocRings, readRings, slot]
    cases hr : readRing o z m bs with
    | error e => simp only [hr, SeqAcct] at h1 ⊢; omega
    | ok v =>
      obtain ⟨s, b1⟩ := v
      simp only [hr, SeqAcct] at h1
      have h2 := allocRings_acct o z m k b1
      simp only
      cases hr2 : readRings o z m k b1 with
      | error e => simp only [hr2] at h2 ⊢; omega
      | ok v2 =>
        obtain ⟨ss, b2⟩ := v2
        simp only [hr2] at h2 ⊢
        omega

/-! ### the child loop -/

/-- a child reader `f` with allocation `al` obeys the 4-per-byte budget and, when it succeeds, has paid for its slot -/
def ChildOK (f : Order → List UInt8 → Except Err (G × Order × List UInt8)) (al : Order → List UInt8 → Nat) : Prop :=
  ∀ o x, match f o x with
    | .ok (_, _, r) => al o x + slot + 4 * r.length ≤ 4 * x.length
    | .error _ => al o x ≤ 4 * x.length

/-- the same for a reader that returns the SRID too (`readGeom`) -/
def RdOK (rd : Order → List UInt8 → GRes) (al : Order → List UInt8 → Nat) : Prop :=
  ∀ o x, match rd o x with
    | .ok (_, _, r) => al o x + slot + 4 * r.length ≤ 4 * x.length
    | .error _ => al o x ≤ 4 * x.length

theorem asChild_ok (rd : Order → List UInt8 → GRes) (al : Order → List UInt8 → Nat) (h : RdOK rd al)
    (p : G → Bool) : ChildOK (fun o bs => asChild p (rd o bs)) al := by
  intro o x
  have := h o x
  simp only
  cases hr : rd o x with
  | error e => simpa [hr, asChild] using this
  | ok v =>
    obtain ⟨⟨g, s⟩, o1, r⟩ := v
    simp only [hr] at this
    by_cases hp : p g = true
    · simp only [asChild, hp, if_true]; exact this
    · simp only [asChild, hp]; simp only [Bool.false_eq_true, if_false]; omega

theorem allocN_ok (f : Order → List UInt8 → Except Err (G × Order × List UInt8))
    (al : Order → List UInt8 → Nat) (hf : ChildOK f al) : ∀ (n : Nat) (o : Order) (x : List UInt8),
    match readN f n o x with
    | .ok (_, _, r) => allocN f al n o x + 4 * r.length ≤ 4 * x.length
    | .error _ => allocN f al n o x ≤ 4 * x.length
  | 0, o, x => by simp [readN, allocN]
  | n + 1, o, x => by
    have h1 := hf o x
    simp only [readN, allocN]
    cases hr : f o x with
    | error e => simpa [hr] using h1
    | ok v =>
      obtain ⟨g, o1, r1⟩ := v
      simp only [hr] at h1
      have h2 := allocN_ok f al hf n o1 r1
      simp only
      cases hr2 : readN f n o1 r1 with
      | error e => simp only [hr2] at h2 ⊢; omega
      | ok v2 =>
        obtain ⟨gs, o2, r2⟩ := v2
        simp only [hr2] at h2 ⊢
        omega

/-! ### one level -/

/-- outcome of reading a body (what follows the header): at most 4 bytes charged per byte consumed (success) or
available (failure) -/
def BodyOK (bs : List UInt8) (a : Nat) (res : GRes) : Prop :=
  match res with
  | .ok (_, _, r) => a + 4 * r.length ≤ 4 * bs.length
  | .error _ => a ≤ 4 * bs.length

theorem allocColl_core (rd : Order → List UInt8 → GRes) (al : Order → List UInt8 → Nat)
    (hrd : RdOK rd al) (p : G → Bool) (unit : Nat) (h : Hdr) (bs : List UInt8) :
    match readU32 h.order bs with
    | .error _ => allocColl rd al p unit h bs = 0
    | .ok (n, b1) =>
      if b1.length < n * unit then allocColl rd al p unit h bs = 0
      else match readN (fun o bs => asChild p (rd o bs)) n h.order b1 with
        | .ok (_, _, r) => allocColl rd al p unit h bs + 4 * r.length ≤ 4 * bs.length
        | .error _ => allocColl rd al p unit h bs ≤ 4 * bs.length := by
  simp only [allocColl]
  cases h1 : readU32 h.order bs with
  | error e => simp
  | ok v1 =>
    obtain ⟨n, b1⟩ := v1
    have l1 := readU32_len h1
    simp only
    by_cases hg : b1.length < n * unit
    · simp [hg]
    · simp only [hg, if_false]
      have hN := allocN_ok _ al (asChild_ok rd al hrd p) n h.order b1
      cases hr : readN (fun o bs => asChild p (rd o bs)) n h.order b1 with
      | error e => simp only [hr] at hN ⊢; omega
      | ok v2 =>
        obtain ⟨gs, o2, r⟩ := v2
        simp only [hr] at hN ⊢
        omega

theorem readColl_body (rd : Order → List UInt8 → GRes) (al : Order → List UInt8 → Nat)
    (hrd : RdOK rd al) (p : G → Bool) (unit : Nat) (mk : List G → G) (h : Hdr) (bs : List UInt8) :
    BodyOK bs (allocColl rd al p unit h bs) (readColl rd p unit mk h bs) := by
  have hc := allocColl_core rd al hrd p unit h bs
  simp only [readColl]
  cases h1 : readU32 h.order bs with
  | error e => simp only [h1] at hc; simp [BodyOK, hc]
  | ok v1 =>
    obtain ⟨n, b1⟩ := v1
    simp only [h1] at hc
    simp only
    by_cases hg : b1.length < n * unit
    · simp only [hg, if_true] at hc ⊢; simp [BodyOK, hc]
    · simp only [hg, if_false] at hc ⊢
      cases hr : readN (fun o bs => asChild p (rd o bs)) n h.order b1 with
      | error e => simp only [hr] at hc; simpa [BodyOK] using hc
      | ok v2 =>
        obtain ⟨gs, o2, r⟩ := v2
        simp only [hr] at hc
        simpa [BodyOK] using hc

theorem allocBody_ok (rd : Order → List UInt8 → GRes) (al : Order → List UInt8 → Nat)
    (hrd : RdOK rd al) (h : Hdr) (bs : List UInt8) :
    BodyOK bs (allocBody rd al h bs) (readBody arc rd h bs) := by
  cases hk : h.kind
  case point =>
    simp only [readBody, allocBody, hk, readCoordSeq]
    by_cases hg : bs.length < 1 * 16
    · simp [hg, BodyOK]
    · simp only [hg, if_false]
      have hs := seqAlloc_le h.hasZ h.hasM 1
      cases h2 : readCoords h.order h.hasZ h.hasM 1 bs with
      | error e => simp only [BodyOK]; omega
      | ok v2 =>
        obtain ⟨ps, r⟩ := v2
        have := readCoords_consumed h.order h.hasZ h.hasM 1 bs ps r h2
        simp only [BodyOK]
        omega
  case lineString =>
    have ha := allocSized_acct h.order h.hasZ h.hasM bs
    simp only [readBody, allocBody, hk]
    cases h1 : readSizedSeq h.order h.hasZ h.hasM bs with
    | error e => simp only [h1, SeqAcct] at ha; simp only [BodyOK]; omega
    | ok v =>
      obtain ⟨s, r⟩ := v
      simp only [h1, SeqAcct] at ha
      simp only
      split
      · simp only [BodyOK]; omega
      · simp only [BodyOK]; omega
  case circularString =>
    have ha := allocSized_acct h.order h.hasZ h.hasM bs
    simp only [readBody, allocBody, hk]
    cases h1 : readSizedSeq h.order h.hasZ h.hasM bs with
    | error e => simp only [h1, SeqAcct] at ha; simp only [BodyOK]; omega
    | ok v =>
      obtain ⟨s, r⟩ := v
      simp only [h1, SeqAcct] at ha
      simp only
      split
      · simp only [BodyOK]; omega
      · simp only [BodyOK]; omega
  case polygon =>
    simp only [readBody, allocBody, hk]
    cases h1 : readU32 h.order bs with
    | error e => simp [BodyOK]
    | ok v1 =>
      obtain ⟨n, b1⟩ := v1
      have l1 := readU32_len h1
      simp only
      by_cases hg : b1.length < n * 4
      · simp [hg, BodyOK]
      · simp only [hg, if_false]
        cases n with
        | zero => simp only [BodyOK]; omega
        | succ k =>
          simp only
          have ha := allocRing_acct h.order h.hasZ h.hasM b1
          cases h2 : readRing h.order h.hasZ h.hasM b1 with
          | error e => simp only [h2, SeqAcct] at ha; simp only [BodyOK]; omega
          | ok v2 =>
            obtain ⟨sh, b2⟩ := v2
            simp only [h2, SeqAcct] at ha
            have hb := allocRings_acct h.order h.hasZ h.hasM k b2
            simp only
            cases h3 : readRings h.order h.hasZ h.hasM k b2 with
            | error e => simp only [h3] at hb; simp only [BodyOK]; omega
            | ok v3 =>
              obtain ⟨hs, b3⟩ := v3
              simp only [h3] at hb
              simp only
              split
              · simp only [BodyOK]; omega
              · simp only [BodyOK]; omega
  case compoundCurve =>
    have hc := allocColl_core rd al hrd isSimpleCurve 9 h bs
    simp only [readBody, allocBody, hk]
    cases h1 : readU32 h.order bs with
    | error e => simp only [h1] at hc; simp [BodyOK, hc]
    | ok v1 =>
      obtain ⟨n, b1⟩ := v1
      simp only [h1] at hc
      simp only
      by_cases hg : b1.length < n * 9
      · simp only [hg, if_true] at hc ⊢; simp [BodyOK, hc]
      · simp only [hg, if_false] at hc ⊢
        cases hr : readN (fun o bs => asChild isSimpleCurve (rd o bs)) n h.order b1 with
        | error e => simp only [hr] at hc; simpa [BodyOK] using hc
        | ok v2 =>
          obtain ⟨gs, o2, r⟩ := v2
          simp only [hr] at hc
          simp only
          cases hcc : checkContig gs with
          | error e => simp only [BodyOK]; omega
          | ok u => simpa [BodyOK] using hc
  case curvePolygon =>
    simp only [readBody, allocBody, hk]
    cases h1 : readU32 h.order bs with
    | error e => simp [BodyOK]
    | ok v1 =>
      obtain ⟨n, b1⟩ := v1
      have l1 := readU32_len h1
      simp only
      by_cases hg : b1.length < n * 4
      · simp [hg, BodyOK]
      · simp only [hg, if_false]
        cases n with
        | zero => simp only [BodyOK]; omega
        | succ k =>
          simp only
          have hsh := asChild_ok rd al hrd isCurve h.order b1
          simp only at hsh
          cases h2 : asChild isCurve (rd h.order b1) with
          | error e => simp only [h2] at hsh; simp only [BodyOK]; omega
          | ok v2 =>
            obtain ⟨sh, o2, b2⟩ := v2
            simp only [h2] at hsh
            have hN := allocN_ok _ al (asChild_ok rd al hrd isCurve) k o2 b2
            simp only
            cases h3 : readN (fun o bs => asChild isCurve (rd o bs)) k o2 b2 with
            | error e => simp only [h3] at hN; simp only [BodyOK]; omega
            | ok v3 =>
              obtain ⟨hs, o3, b3⟩ := v3
              simp only [h3] at hN
              simp only
              split
              · simp only [BodyOK]; omega
              · simp only [BodyOK]; omega
  case multiPoint => simp only [readBody, allocBody, hk]; exact readColl_body rd al hrd _ 21 _ h bs
  case multiLineString => simp only [readBody, allocBody, hk]; exact readColl_body rd al hrd _ 9 _ h bs
  case multiPolygon => simp only [readBody, allocBody, hk]; exact readColl_body rd al hrd _ 9 _ h bs
  case collection => simp only [readBody, allocBody, hk]; exact readColl_body rd al hrd _ 9 _ h bs
  case multiCurve => simp only [readBody, allocBody, hk]; exact readColl_body rd al hrd _ 9 _ h bs
  case multiSurface => simp only [readBody, allocBody, hk]; exact readColl_body rd al hrd _ 9 _ h bs

/-- **the invariant holds for every depth budget**: 4 bytes charged per input byte, and a successful read has paid
for the slot its parent pushes (the header's 5 bytes) -/
theorem allocGeom_ok : ∀ (fuel : Nat), RdOK (readGeom arc fuel) (allocGeom arc fuel)
  | 0 => by intro o x; simp [readGeom, allocGeom]
  | fuel + 1 => by
    intro o x
    have ih := allocGeom_ok fuel
    have hh := readHeader_good o x
    simp only [readGeom, allocGeom]
    cases h1 : readHeader o x with
    | error e => simp
    | ok v =>
      obtain ⟨hd, b1⟩ := v
      simp only [h1] at hh
      have hb := allocBody_ok (arc := arc) (readGeom arc fuel) (allocGeom arc fuel) ih hd b1
      simp only
      cases h2 : readBody arc (readGeom arc fuel) hd b1 with
      | error e => simp only [h2, BodyOK] at hb ⊢; omega
      | ok v2 =>
        obtain ⟨gs, o2, r⟩ := v2
        simp only [h2, BodyOK] at hb ⊢
        simp only [slot]
        omega

/-- the allocation of a read is at most `4 · length`, whatever the depth budget -/
theorem allocGeom_le (fuel : Nat) (o : Order) (bs : List UInt8) : allocGeom arc fuel o bs ≤ 4 * bs.length := by
  have := allocGeom_ok (arc := arc) fuel o bs
  cases h : readGeom arc fuel o bs with
  | error e => simpa [h] using this
  | ok v => obtain ⟨gs, o2, r⟩ := v; simp only [h] at this; omega

/-- a successful read is charged at most 4 bytes per byte it CONSUMED (minus the 16 its own slot costs its parent) -/
theorem allocGeom_consumed (fuel : Nat) (o o' : Order) (bs bs' : List UInt8) (r : G × Int)
    (h : readGeom arc fuel o bs = .ok (r, o', bs')) : allocGeom arc fuel o bs + 16 + 4 * bs'.length ≤ 4 * bs.length := by
  have := allocGeom_ok (arc := arc) fuel o bs
  simpa [h, slot] using this

end GeosModel.WKB.Alloc
