import GeosModel.Model.Readers.Resource
/-!
C11 for the WKT reader model (`Model/WKT/Read.lean`), part 1: every reader function

* never fails for lack of fuel when `3 · tokens + rank ≤ fuel` (ranks 1 … 3, the longest chain of mutual
  calls that consumes no token), hence `readToks` (fuel `3 · tokens + 4`) is total in the intended sense;
* consumes at least one token when it succeeds;
* returns only trees satisfying the constructor invariants `Readers.WFT` (of the right class for the typed lists).
-/
namespace GeosModel.WKT.Safe
open GeosModel GeosModel.WKT GeosModel.Readers

/-- outcome of a reader run with `b` tokens available: on success at least one token was consumed and the value
satisfies `Q`; an error is never "out of fuel" -/
def OKb {α : Type} (Q : α → Prop) (b : Nat) : P (α × List Tok) → Prop
  | .ok (a, r) => r.length + 1 ≤ b ∧ Q a
  | .error e => e ≠ .fuel

theorem OKb_ok {α : Type} {Q : α → Prop} {b : Nat} {a : α} {r : List Tok} :
    OKb Q b (.ok (a, r)) ↔ (r.length + 1 ≤ b ∧ Q a) := Iff.rfl

theorem OKb_pure {α : Type} {Q : α → Prop} {b : Nat} {a : α} {r : List Tok} :
    OKb Q b (pure (a, r)) ↔ (r.length + 1 ≤ b ∧ Q a) := Iff.rfl

theorem OKb_error {α : Type} {Q : α → Prop} {b : Nat} {e : Err} :
    OKb Q b (.error e : P (α × List Tok)) ↔ e ≠ .fuel := Iff.rfl

theorem OKb.bind {α β : Type} {Qa : α → Prop} {Qb : β → Prop} {b b' : Nat} {x : P (α × List Tok)}
    {k : α × List Tok → P (β × List Tok)}
    (hx : OKb Qa b x) (hk : ∀ a r, r.length + 1 ≤ b → Qa a → OKb Qb b' (k (a, r))) : OKb Qb b' (x >>= k) := by
  cases x with
  | error e => exact hx
  | ok v => obtain ⟨a, r⟩ := v; exact hk a r hx.1 hx.2

theorem OKb.mono {α : Type} {Q Q' : α → Prop} {b b' : Nat} {x : P (α × List Tok)} (hx : OKb Q b x)
    (hb : b ≤ b') (hq : ∀ a, Q a → Q' a) : OKb Q' b' x := by
  cases x with
  | error e => exact hx
  | ok v => obtain ⟨a, r⟩ := v; exact ⟨Nat.le_trans hx.1 hb, hq a hx.2⟩

/-- arithmetic on token counts (after projecting pairs) -/
local macro "lenarith" : tactic => `(tactic| ((try dsimp only at *); omega))

/-! ### token-level primitives -/

theorem getNum_ok (ts : List Tok) : OKb (fun _ => True) ts.length (getNum ts) := by
  cases ts with
  | nil => simp [getNum, OKb]
  | cons t r => cases t <;> simp [getNum, OKb]

theorem closerOrComma_ok (ts : List Tok) : OKb (fun _ => True) ts.length (closerOrComma ts) := by
  cases ts with
  | nil => simp [closerOrComma, OKb]
  | cons t r => cases t <;> simp [closerOrComma, OKb]

theorem optNum_ok (c : Bool) (ts : List Tok) :
    OKb (fun _ => True) (ts.length + 1) (if c then getNum ts else pure (nanBits, ts)) := by
  cases c
  · simp [OKb_pure]
  · simpa using (getNum_ok ts).mono (Nat.le_succ _) (fun _ h => h)

theorem getCoord_ok (fl : Flags) (ts : List Tok) : OKb (fun _ => True) ts.length (getCoord fl ts) := by
  unfold getCoord
  refine OKb.bind (getNum_ok ts) (fun x r1 h1 _ => ?_)
  refine OKb.bind (getNum_ok r1) (fun y r2 h2 _ => ?_)
  dsimp only
  repeat (first
    | (refine OKb_pure.2 ⟨?_, trivial⟩; lenarith)
    | (refine OKb.bind (getNum_ok _) (fun _ _ _ _ => ?_))
    | (rw [pure_bind])
    | split)

theorem emptyOrOpener_ok (fl : Flags) (ts : List Tok) : OKb (fun _ => True) ts.length (emptyOrOpener fl ts) := by
  have fin : ∀ (fl : Flags) (md : Bool) (ts : List Tok),
      OKb (fun _ => True) ts.length
        (match ts with
         | .word "EMPTY" :: r => (.ok ((true, if md then { fl with ca := false } else fl), r) : P ((Bool × Flags) × List Tok))
         | .lp :: r => .ok ((false, if md then { fl with ca := false } else fl), r)
         | _ => .error .parse) := by
    intro fl md ts
    split <;> simp [OKb]
  unfold emptyOrOpener
  split
  · split
    · simp [OKb]
    · exact (fin _ true _).mono (by simp) (fun _ h => h)
  · split
    · simp [OKb]
    · split
      · simp [OKb]
      · exact (fin _ true _).mono (by simp) (fun _ h => h)
  · split
    · simp [OKb]
    · exact (fin _ true _).mono (by simp) (fun _ h => h)
  · exact fin _ false _

theorem moreCoords_ok : ∀ (f : Nat) (fl : Flags) (ts : List Tok), ts.length + 1 ≤ f →
    OKb (fun _ => True) ts.length (moreCoords f fl ts)
  | 0, _, _, h => by omega
  | f + 1, fl, ts, h => by
    unfold moreCoords
    refine OKb.bind (closerOrComma_ok ts) (fun more r1 h1 _ => ?_)
    dsimp only
    split
    · refine OKb.bind (getCoord_ok fl r1) (fun cf r2 h2 _ => ?_)
      obtain ⟨c, fl2⟩ := cf
      dsimp only
      refine OKb.bind (moreCoords_ok f fl2 r2 (by omega)) (fun cs r3 h3 _ => ?_)
      exact OKb_pure.2 ⟨by lenarith, trivial⟩
    · exact OKb_pure.2 ⟨by lenarith, trivial⟩

theorem getCoordinates_ok (f : Nat) (fl : Flags) (ts : List Tok) (h : ts.length ≤ f) :
    OKb (fun _ => True) ts.length (getCoordinates f fl ts) := by
  unfold getCoordinates
  refine OKb.bind (emptyOrOpener_ok fl ts) (fun ef r1 h1 _ => ?_)
  obtain ⟨emp, fl1⟩ := ef
  dsimp only
  split
  · exact OKb_pure.2 ⟨by lenarith, trivial⟩
  · refine OKb.bind (getCoord_ok fl1 r1) (fun cf r2 h2 _ => ?_)
    obtain ⟨c, fl2⟩ := cf
    dsimp only
    refine OKb.bind (moreCoords_ok f fl2 r2 (by omega)) (fun cs r3 h3 _ => ?_)
    exact OKb_pure.2 ⟨by lenarith, trivial⟩

/-! ### constructor checks -/

/-- a value-level (no tokens) step: errors are not "fuel", results satisfy `Q` -/
def OKv {α : Type} (Q : α → Prop) : Except Err α → Prop
  | .ok a => Q a
  | .error e => e ≠ .fuel

theorem OKv.bind {α β : Type} {Qa : α → Prop} {Qb : β → Prop} {b' : Nat} {x : Except Err α}
    {k : α → P (β × List Tok)} (hx : OKv Qa x) (hk : ∀ a, Qa a → OKb Qb b' (k a)) : OKb Qb b' (x >>= k) := by
  cases x with
  | error e => exact hx
  | ok a => exact hk a hx

theorem mkPoint_okv (s : CSeq) : OKv (fun g => WFT g = true ∧ isPointG g = true) (mkPoint s) := by
  unfold mkPoint; split <;> simp_all [OKv, WFT, isPointG]

theorem mkLine_okv (s : CSeq) : OKv (fun g => WFT g = true ∧ isLineG g = true) (mkLine s) := by
  unfold mkLine; split <;> simp_all [OKv, WFT, isLineG]

theorem mkRing_okv (s : CSeq) : OKv (fun g => WFT g = true ∧ isCurve g = true) (mkRing s) := by
  unfold mkRing; split <;> simp_all [OKv, WFT, isCurve, isSimpleCurve]

theorem mkCirc_okv (s : CSeq) : OKv (fun g => WFT g = true ∧ isCurve g = true) (mkCirc s) := by
  unfold mkCirc; split <;> simp_all [OKv, WFT, isCurve, isSimpleCurve]

theorem isLineG_isCurve {g : G} (h : isLineG g = true) : isCurve g = true := by
  cases g <;> simp_all [isLineG, isCurve, isSimpleCurve]

theorem isPolygonG_isSurface {g : G} (h : isPolygonG g = true) : isSurface g = true := by
  cases g <;> simp_all [isPolygonG, isSurface]

/-! ### the readers that do not take part in the mutual recursion -/

theorem readPoints_ok : ∀ (f : Nat) (fl : Flags) (ts : List Tok), 3 * ts.length + 1 ≤ f →
    OKb (fun p => WFTs p.1 = true ∧ p.1.all isPointG = true) ts.length (readPoints f fl ts)
  | 0, _, _, h => by omega
  | f + 1, fl, ts, h => by
    rw [readPoints]
    refine OKb.bind (getCoordinates_ok f fl ts (by omega)) (fun sf r1 h1 _ => ?_)
    obtain ⟨s, fl1⟩ := sf
    dsimp only
    refine OKv.bind (mkPoint_okv s) (fun g hg => ?_)
    refine OKb.bind (closerOrComma_ok r1) (fun more r2 h2 _ => ?_)
    dsimp only
    split
    · refine OKb.bind (readPoints_ok f fl1 r2 (by lenarith)) (fun gf r3 h3 hq => ?_)
      obtain ⟨gs, fl2⟩ := gf
      exact OKb_pure.2 ⟨by lenarith, by simp_all [WFTs]⟩
    · exact OKb_pure.2 ⟨by lenarith, by simp_all [WFTs]⟩

theorem readLines_ok : ∀ (f : Nat) (fl : Flags) (ts : List Tok), 3 * ts.length + 1 ≤ f →
    OKb (fun p => WFTs p.1 = true ∧ p.1.all isLineG = true) ts.length (readLines f fl ts)
  | 0, _, _, h => by omega
  | f + 1, fl, ts, h => by
    rw [readLines]
    refine OKb.bind (getCoordinates_ok f fl ts (by omega)) (fun sf r1 h1 _ => ?_)
    obtain ⟨s, fl1⟩ := sf
    dsimp only
    refine OKv.bind (mkLine_okv s) (fun g hg => ?_)
    refine OKb.bind (closerOrComma_ok r1) (fun more r2 h2 _ => ?_)
    dsimp only
    split
    · refine OKb.bind (readLines_ok f fl1 r2 (by lenarith)) (fun gf r3 h3 hq => ?_)
      obtain ⟨gs, fl2⟩ := gf
      exact OKb_pure.2 ⟨by lenarith, by simp_all [WFTs]⟩
    · exact OKb_pure.2 ⟨by lenarith, by simp_all [WFTs]⟩

theorem readRings_ok : ∀ (f : Nat) (fl : Flags) (ts : List Tok), 3 * ts.length + 1 ≤ f →
    OKb (fun p => p.1.all ringOK = true ∧ p.1 ≠ []) ts.length (readRings f fl ts)
  | 0, _, _, h => by omega
  | f + 1, fl, ts, h => by
    rw [readRings]
    refine OKb.bind (getCoordinates_ok f fl ts (by omega)) (fun sf r1 h1 _ => ?_)
    obtain ⟨s, fl1⟩ := sf
    dsimp only
    split
    · exact OKb_error.2 (by simp)
    · rename_i hring
      refine OKb.bind (closerOrComma_ok r1) (fun more r2 h2 _ => ?_)
      dsimp only
      split
      · refine OKb.bind (readRings_ok f fl1 r2 (by lenarith)) (fun gf r3 h3 hq => ?_)
        obtain ⟨gs, fl2⟩ := gf
        exact OKb_pure.2 ⟨by lenarith, by simp_all⟩
      · exact OKb_pure.2 ⟨by lenarith, by simp_all⟩

theorem ringOK_empty (z m : Bool) : ringOK ⟨z, m, []⟩ = true := by simp [ringOK]

theorem readPolygon_ok (f : Nat) (fl : Flags) (ts : List Tok) (h : 3 * ts.length + 1 ≤ f) :
    OKb (fun p => WFT p.1 = true ∧ isPolygonG p.1 = true) ts.length (readPolygon f fl ts) := by
  cases f with
  | zero => omega
  | succ f =>
    rw [readPolygon]
    refine OKb.bind (emptyOrOpener_ok fl ts) (fun ef r1 h1 _ => ?_)
    obtain ⟨emp, fl1⟩ := ef
    dsimp only
    split
    · exact OKb_pure.2 ⟨by lenarith, by simp [WFT, ringOK_empty, isPolygonG]⟩
    · refine OKb.bind (readRings_ok f fl1 r1 (by lenarith)) (fun sf r2 h2 hq => ?_)
      obtain ⟨ss, fl2⟩ := sf
      dsimp only at hq ⊢
      split
      · exact absurd rfl hq.2
      · rename_i sh hs
        split
        · exact OKb_error.2 (by simp)
        · rename_i hne
          refine OKb_pure.2 ⟨by lenarith, ?_⟩
          have := hq.1
          simp only [List.all_cons, Bool.and_eq_true] at this
          simp only [WFT, isPolygonG, this.1, this.2, Bool.true_and, and_true]
          cases hc : (sh.pts.isEmpty && hs.any (fun h => !h.pts.isEmpty)) with
          | false => rfl
          | true => exact absurd hc hne

theorem readPolygons_ok : ∀ (f : Nat) (fl : Flags) (ts : List Tok), 3 * ts.length + 2 ≤ f →
    OKb (fun p => WFTs p.1 = true ∧ p.1.all isPolygonG = true) ts.length (readPolygons f fl ts)
  | 0, _, _, h => by omega
  | f + 1, fl, ts, h => by
    rw [readPolygons]
    refine OKb.bind (readPolygon_ok f fl ts (by omega)) (fun gf r1 h1 hg => ?_)
    obtain ⟨g, fl1⟩ := gf
    dsimp only at hg ⊢
    refine OKb.bind (closerOrComma_ok r1) (fun more r2 h2 _ => ?_)
    dsimp only
    split
    · refine OKb.bind (readPolygons_ok f fl1 r2 (by lenarith)) (fun gf r3 h3 hq => ?_)
      obtain ⟨gs, fl2⟩ := gf
      exact OKb_pure.2 ⟨by lenarith, by simp_all [WFTs]⟩
    · exact OKb_pure.2 ⟨by lenarith, by simp_all [WFTs]⟩

theorem oldSyntax_wf (z m : Bool) : ∀ (cs : List Coord),
    WFTs (cs.map (oldSyntaxPoint z m)) = true ∧ (cs.map (oldSyntaxPoint z m)).all isPointG = true
  | [] => by simp [WFTs]
  | c :: cs => by
    have ih := oldSyntax_wf z m cs
    simp only [List.map_cons, WFTs, List.all_cons, ih.1, ih.2, Bool.and_true]
    simp [oldSyntaxPoint, WFT, isPointG]

theorem readMultiPoint_ok (f : Nat) (fl : Flags) (ts : List Tok) (h : 3 * ts.length + 1 ≤ f) :
    OKb (fun p => WFT p.1 = true) ts.length (readMultiPoint f fl ts) := by
  cases f with
  | zero => omega
  | succ f =>
    rw [readMultiPoint]
    refine OKb.bind (emptyOrOpener_ok fl ts) (fun ef r1 h1 _ => ?_)
    obtain ⟨emp, fl1⟩ := ef
    dsimp only
    split
    · exact OKb_pure.2 ⟨by lenarith, by simp [WFT, WFTs]⟩
    · split
      · refine OKb.bind (getCoord_ok fl1 _) (fun cf r2 h2 _ => ?_)
        obtain ⟨c, fl2⟩ := cf
        dsimp only
        refine OKb.bind (moreCoords_ok f fl2 r2 (by lenarith)) (fun cs r3 h3 _ => ?_)
        refine OKb_pure.2 ⟨by lenarith, ?_⟩
        have := oldSyntax_wf fl2.z fl1.m (c :: cs)
        simp only [WFT, this.1, this.2, Bool.and_self]
      · refine OKb.bind (readPoints_ok f fl1 _ (by lenarith)) (fun gf r2 h2 hq => ?_)
        obtain ⟨gs, fl2⟩ := gf
        exact OKb_pure.2 ⟨by lenarith, by simp_all [WFT]⟩
      · refine OKb.bind (readPoints_ok f fl1 _ (by lenarith)) (fun gf r2 h2 hq => ?_)
        obtain ⟨gs, fl2⟩ := gf
        exact OKb_pure.2 ⟨by lenarith, by simp_all [WFT]⟩
      · exact OKb_error.2 (by simp)

/-! ### the mutually recursive readers -/

/-- the statement proved by induction on the fuel, one field per reader, each with its rank -/
structure Cluster (f : Nat) : Prop where
  tagged : ∀ orig ek ts, 3 * ts.length + 1 ≤ f → OKb (fun g => WFT g = true) ts.length (readTagged f orig ek ts)
  body : ∀ n fl ts, 3 * ts.length + 2 ≤ f → OKb (fun p => WFT p.1 = true) ts.length (readBody f n fl ts)
  curve : ∀ fl ts, 3 * ts.length + 2 ≤ f →
    OKb (fun p => WFT p.1 = true ∧ isCurve p.1 = true) ts.length (readCurve f fl ts)
  curves : ∀ fl ts, 3 * ts.length + 3 ≤ f →
    OKb (fun p => WFTs p.1 = true ∧ p.1.all isCurve = true ∧ p.1 ≠ []) ts.length (readCurves f fl ts)
  compound : ∀ fl ts, 3 * ts.length + 1 ≤ f → OKb (fun p => WFT p.1 = true) ts.length (readCompound f fl ts)
  curvePolygon : ∀ fl ts, 3 * ts.length + 1 ≤ f → OKb (fun p => WFT p.1 = true) ts.length (readCurvePolygon f fl ts)
  surface : ∀ fl ts, 3 * ts.length + 2 ≤ f →
    OKb (fun p => WFT p.1 = true ∧ isSurface p.1 = true) ts.length (readSurface f fl ts)
  surfaces : ∀ fl ts, 3 * ts.length + 3 ≤ f →
    OKb (fun p => WFTs p.1 = true ∧ p.1.all isSurface = true) ts.length (readSurfaces f fl ts)
  geoms : ∀ fl ts, 3 * ts.length + 2 ≤ f → OKb (fun gs => WFTs gs = true) ts.length (readGeoms f fl ts)

theorem tagged_step (f : Nat) (ih : Cluster f) (orig : Flags) (ek : EmptyKind) (ts : List Tok)
    (h : 3 * ts.length + 1 ≤ f + 1) : OKb (fun g => WFT g = true) ts.length (readTagged (f + 1) orig ek ts) := by
  unfold readTagged
  split
  · rename_i w r
    split
    · split
      · exact OKb_ok.2 ⟨by simp, by simp [WFT]⟩
      · exact OKb_ok.2 ⟨by simp, by simp [WFT, ringOK_empty]⟩
      · exact OKb_error.2 (by simp)
    · split
      · exact OKb_error.2 (by simp)
      · rename_i n nf _
        refine OKb.bind (ih.body n nf r (by simp only [List.length_cons] at h; omega)) (fun gf r1 h1 hq => ?_)
        obtain ⟨g, nf1⟩ := gf
        dsimp only at hq ⊢
        split
        · exact OKb_error.2 (by simp)
        · exact OKb_pure.2 ⟨by simp only [List.length_cons]; omega, hq⟩
  · exact OKb_error.2 (by simp)

theorem curve_step (f : Nat) (ih : Cluster f) (fl : Flags) (ts : List Tok) (h : 3 * ts.length + 2 ≤ f + 1) :
    OKb (fun p => WFT p.1 = true ∧ isCurve p.1 = true) ts.length (readCurve (f + 1) fl ts) := by
  unfold readCurve
  split
  · refine OKb.bind (getCoordinates_ok f fl _ (by omega)) (fun sf r1 h1 _ => ?_)
    obtain ⟨s, fl1⟩ := sf
    dsimp only
    refine OKv.bind (mkLine_okv s) (fun g hg => ?_)
    exact OKb_pure.2 ⟨by lenarith, hg.1, isLineG_isCurve hg.2⟩
  · refine OKb.bind (ih.tagged fl .line ts (by omega)) (fun g r1 h1 hq => ?_)
    dsimp only
    split
    · rename_i hc
      exact OKb_pure.2 ⟨by lenarith, hq, hc⟩
    · exact OKb_error.2 (by simp)

theorem curves_step (f : Nat) (ih : Cluster f) (fl : Flags) (ts : List Tok) (h : 3 * ts.length + 3 ≤ f + 1) :
    OKb (fun p => WFTs p.1 = true ∧ p.1.all isCurve = true ∧ p.1 ≠ []) ts.length (readCurves (f + 1) fl ts) := by
  rw [readCurves]
  refine OKb.bind (ih.curve fl ts (by omega)) (fun gf r1 h1 hg => ?_)
  obtain ⟨g, fl1⟩ := gf
  dsimp only at hg ⊢
  refine OKb.bind (closerOrComma_ok r1) (fun more r2 h2 _ => ?_)
  dsimp only
  split
  · refine OKb.bind (ih.curves fl1 r2 (by lenarith)) (fun gf r3 h3 hq => ?_)
    obtain ⟨gs, fl2⟩ := gf
    exact OKb_pure.2 ⟨by lenarith, by simp_all [WFTs]⟩
  · exact OKb_pure.2 ⟨by lenarith, by simp_all [WFTs]⟩

theorem compound_step (f : Nat) (ih : Cluster f) (fl : Flags) (ts : List Tok) (h : 3 * ts.length + 1 ≤ f + 1) :
    OKb (fun p => WFT p.1 = true) ts.length (readCompound (f + 1) fl ts) := by
  rw [readCompound]
  refine OKb.bind (emptyOrOpener_ok fl ts) (fun ef r1 h1 _ => ?_)
  obtain ⟨emp, fl1⟩ := ef
  dsimp only
  split
  · exact OKb_pure.2 ⟨by lenarith, by simp [WFT, WFTs, contiguous]⟩
  · refine OKb.bind (ih.curves fl1 r1 (by lenarith)) (fun gf r2 h2 hq => ?_)
    obtain ⟨gs, fl2⟩ := gf
    dsimp only at hq ⊢
    split
    · exact OKb_error.2 (by simp)
    · rename_i hs
      split
      · exact OKb_error.2 (by simp)
      · rename_i hc
        refine OKb_pure.2 ⟨by lenarith, ?_⟩
        have hs' : gs.all isSimpleCurve = true := by
          cases hx : gs.all isSimpleCurve with
          | true => rfl
          | false => simp [hx] at hs
        have hc' : contiguous gs = true := by
          cases hx : contiguous gs with
          | true => rfl
          | false => simp [hx] at hc
        simp only [WFT, hq.1, hs', hc', Bool.and_self]

theorem curvePolygon_step (f : Nat) (ih : Cluster f) (fl : Flags) (ts : List Tok) (h : 3 * ts.length + 1 ≤ f + 1) :
    OKb (fun p => WFT p.1 = true) ts.length (readCurvePolygon (f + 1) fl ts) := by
  rw [readCurvePolygon]
  refine OKb.bind (emptyOrOpener_ok fl ts) (fun ef r1 h1 _ => ?_)
  obtain ⟨emp, fl1⟩ := ef
  dsimp only
  split
  · exact OKb_pure.2 ⟨by lenarith, by simp [WFT, WFTs]⟩
  · refine OKb.bind (ih.curves fl1 r1 (by lenarith)) (fun gf r2 h2 hq => ?_)
    obtain ⟨gs, fl2⟩ := gf
    dsimp only at hq ⊢
    split
    · exact absurd rfl hq.2.2
    · rename_i sh hs
      split
      · split
        · exact OKb_error.2 (by simp)
        · exact OKb_pure.2 ⟨by lenarith, by simp [WFT, WFTs]⟩
      · rename_i hne
        refine OKb_pure.2 ⟨by lenarith, ?_⟩
        simp only [Bool.not_eq_true] at hne
        simp [WFT, hq.1, hq.2.1, hne]

theorem surface_step (f : Nat) (ih : Cluster f) (fl : Flags) (ts : List Tok) (h : 3 * ts.length + 2 ≤ f + 1) :
    OKb (fun p => WFT p.1 = true ∧ isSurface p.1 = true) ts.length (readSurface (f + 1) fl ts) := by
  unfold readSurface
  split
  · exact (readPolygon_ok f fl _ (by omega)).mono (Nat.le_refl _) (fun p hp => ⟨hp.1, isPolygonG_isSurface hp.2⟩)
  · refine OKb.bind (ih.tagged fl .polygon ts (by omega)) (fun g r1 h1 hq => ?_)
    dsimp only
    split
    · rename_i hc
      exact OKb_pure.2 ⟨by lenarith, hq, hc⟩
    · exact OKb_error.2 (by simp)

theorem surfaces_step (f : Nat) (ih : Cluster f) (fl : Flags) (ts : List Tok) (h : 3 * ts.length + 3 ≤ f + 1) :
    OKb (fun p => WFTs p.1 = true ∧ p.1.all isSurface = true) ts.length (readSurfaces (f + 1) fl ts) := by
  rw [readSurfaces]
  refine OKb.bind (ih.surface fl ts (by omega)) (fun gf r1 h1 hg => ?_)
  obtain ⟨g, fl1⟩ := gf
  dsimp only at hg ⊢
  refine OKb.bind (closerOrComma_ok r1) (fun more r2 h2 _ => ?_)
  dsimp only
  split
  · refine OKb.bind (ih.surfaces fl1 r2 (by lenarith)) (fun gf r3 h3 hq => ?_)
    obtain ⟨gs, fl2⟩ := gf
    exact OKb_pure.2 ⟨by lenarith, by simp_all [WFTs]⟩
  · exact OKb_pure.2 ⟨by lenarith, by simp_all [WFTs]⟩

theorem geoms_step (f : Nat) (ih : Cluster f) (fl : Flags) (ts : List Tok) (h : 3 * ts.length + 2 ≤ f + 1) :
    OKb (fun gs => WFTs gs = true) ts.length (readGeoms (f + 1) fl ts) := by
  rw [readGeoms]
  refine OKb.bind (ih.tagged fl .none ts (by omega)) (fun g r1 h1 hg => ?_)
  dsimp only at hg ⊢
  refine OKb.bind (closerOrComma_ok r1) (fun more r2 h2 _ => ?_)
  dsimp only
  split
  · refine OKb.bind (ih.geoms fl r2 (by lenarith)) (fun gs r3 h3 hq => ?_)
    exact OKb_pure.2 ⟨by lenarith, by simp_all [WFTs]⟩
  · exact OKb_pure.2 ⟨by lenarith, by simp_all [WFTs]⟩

theorem body_step (f : Nat) (ih : Cluster f) (n : String) (fl : Flags) (ts : List Tok)
    (h : 3 * ts.length + 2 ≤ f + 1) : OKb (fun p => WFT p.1 = true) ts.length (readBody (f + 1) n fl ts) := by
  have simple : ∀ (mk : CSeq → Except Err G) (Q : G → Prop), (∀ s, OKv (fun g => WFT g = true ∧ Q g) (mk s)) →
      OKb (fun p : G × Flags => WFT p.1 = true) ts.length
        (getCoordinates f fl ts >>= fun x => match x with
          | ((s, fl), ts) => mk s >>= fun g => pure ((g, fl), ts)) := by
    intro mk Q hmk
    refine OKb.bind (getCoordinates_ok f fl ts (by omega)) (fun sf r1 h1 _ => ?_)
    obtain ⟨s, fl1⟩ := sf
    dsimp only
    refine OKv.bind (hmk s) (fun g hg => ?_)
    exact OKb_pure.2 ⟨by lenarith, hg.1⟩
  have multi : ∀ (Qs : List G → Prop) (mk : List G → G)
      (rd : Flags → List Tok → P ((List G × Flags) × List Tok)),
      (∀ fl1 r, 3 * r.length + 3 ≤ f → OKb (fun p => Qs p.1) r.length (rd fl1 r)) →
      (∀ gs, Qs gs → WFT (mk gs) = true) → WFT (mk []) = true →
      OKb (fun p : G × Flags => WFT p.1 = true) ts.length
        (emptyOrOpener fl ts >>= fun x => match x with
          | ((emp, fl), ts) => if emp = true then pure ((mk [], fl), ts) else
              rd fl ts >>= fun y => match y with
                | ((gs, fl), ts) => pure ((mk gs, fl), ts)) := by
    intro Qs mk rd hrd hmk hnil
    refine OKb.bind (emptyOrOpener_ok fl ts) (fun ef r1 h1 _ => ?_)
    obtain ⟨emp, fl1⟩ := ef
    dsimp only
    split
    · exact OKb_pure.2 ⟨by lenarith, hnil⟩
    · refine OKb.bind (hrd fl1 r1 (by lenarith)) (fun gf r2 h2 hq => ?_)
      obtain ⟨gs, fl2⟩ := gf
      exact OKb_pure.2 ⟨by lenarith, hmk gs hq⟩
  rw [readBody]
  by_cases hn0 : n = "POINT"
  · rw [if_pos hn0]
    exact simple mkPoint _ mkPoint_okv
  rw [if_neg hn0]
  by_cases hn1 : n = "LINESTRING"
  · rw [if_pos hn1]
    exact simple mkLine _ mkLine_okv
  rw [if_neg hn1]
  by_cases hn2 : n = "LINEARRING"
  · rw [if_pos hn2]
    exact simple mkRing _ mkRing_okv
  rw [if_neg hn2]
  by_cases hn3 : n = "CIRCULARSTRING"
  · rw [if_pos hn3]
    exact simple mkCirc _ mkCirc_okv
  rw [if_neg hn3]
  by_cases hn4 : n = "COMPOUNDCURVE"
  · rw [if_pos hn4]
    exact ih.compound fl ts (by omega)
  rw [if_neg hn4]
  by_cases hn5 : n = "POLYGON"
  · rw [if_pos hn5]
    exact (readPolygon_ok f fl ts (by omega)).mono (Nat.le_refl _) (fun p hp => hp.1)
  rw [if_neg hn5]
  by_cases hn6 : n = "CURVEPOLYGON"
  · rw [if_pos hn6]
    exact ih.curvePolygon fl ts (by omega)
  rw [if_neg hn6]
  by_cases hn7 : n = "MULTIPOINT"
  · rw [if_pos hn7]
    exact readMultiPoint_ok f fl ts (by omega)
  rw [if_neg hn7]
  by_cases hn8 : n = "MULTILINESTRING"
  · rw [if_pos hn8]
    exact multi (fun gs => WFTs gs = true ∧ gs.all isLineG = true) .multiLineString (readLines f)
        (fun fl1 r hr => readLines_ok f fl1 r (by omega)) (fun gs hq => by simp [WFT, hq.1, hq.2]) (by simp [WFT, WFTs])
  rw [if_neg hn8]
  by_cases hn9 : n = "MULTICURVE"
  · rw [if_pos hn9]
    exact multi (fun gs => WFTs gs = true ∧ gs.all isCurve = true ∧ gs ≠ []) .multiCurve (readCurves f)
        (fun fl1 r hr => ih.curves fl1 r hr) (fun gs hq => by simp [WFT, hq.1, hq.2.1]) (by simp [WFT, WFTs])
  rw [if_neg hn9]
  by_cases hn10 : n = "MULTIPOLYGON"
  · rw [if_pos hn10]
    exact multi (fun gs => WFTs gs = true ∧ gs.all isPolygonG = true) .multiPolygon (readPolygons f)
        (fun fl1 r hr => readPolygons_ok f fl1 r (by omega)) (fun gs hq => by simp [WFT, hq.1, hq.2]) (by simp [WFT, WFTs])
  rw [if_neg hn10]
  by_cases hn11 : n = "MULTISURFACE"
  · rw [if_pos hn11]
    exact multi (fun gs => WFTs gs = true ∧ gs.all isSurface = true) .multiSurface (readSurfaces f)
        (fun fl1 r hr => ih.surfaces fl1 r hr) (fun gs hq => by simp [WFT, hq.1, hq.2]) (by simp [WFT, WFTs])
  rw [if_neg hn11]
  by_cases hn12 : n = "GEOMETRYCOLLECTION"
  · rw [if_pos hn12]
    refine OKb.bind (emptyOrOpener_ok fl ts) (fun ef r1 h1 _ => ?_)
    obtain ⟨emp, fl1⟩ := ef
    dsimp only
    split
    · exact OKb_pure.2 ⟨by lenarith, by simp [WFT, WFTs]⟩
    · refine OKb.bind (ih.geoms fl1 r1 (by lenarith)) (fun gs r2 h2 hq => ?_)
      exact OKb_pure.2 ⟨by lenarith, by simpa [WFT] using hq⟩
  rw [if_neg hn12]
  exact OKb_error.2 (by simp)

theorem cluster : ∀ f, Cluster f
  | 0 =>
    { tagged := by intros; omega, body := by intros; omega, curve := by intros; omega, curves := by intros; omega,
      compound := by intros; omega, curvePolygon := by intros; omega, surface := by intros; omega,
      surfaces := by intros; omega, geoms := by intros; omega }
  | f + 1 =>
    have ih := cluster f
    { tagged := tagged_step f ih, body := body_step f ih, curve := curve_step f ih, curves := curves_step f ih,
      compound := compound_step f ih, curvePolygon := curvePolygon_step f ih, surface := surface_step f ih,
      surfaces := surfaces_step f ih, geoms := geoms_step f ih }

/-- `readToks` never runs out of fuel, and what it returns is well formed -/
theorem readToks_good (ts : List Tok) :
    match readToks ts with
    | .ok g => WFT g = true
    | .error e => e ≠ .fuel := by
  have := (cluster (3 * ts.length + 4)).tagged {} .none ts (by omega)
  unfold readToks
  cases hr : readTagged (3 * ts.length + 4) {} .none ts with
  | error e => rw [hr] at this; exact this
  | ok v =>
    obtain ⟨g, r⟩ := v
    rw [hr] at this
    cases r with
    | nil => exact this.2
    | cons t r' => simp

end GeosModel.WKT.Safe
