import GeosModel.Model.Fix.Dispatch
import Mathlib.Tactic.SplitIfs
/-! Case lemmas for the element functions of the GeometryFixer dispatch model (C17 core). -/
namespace GeosModel.Fix

theorem lineElem_cases (keep e : Bool) (c : Nat) :
    fixLineStringElement keep e c = none ∨ fixLineStringElement keep e c = some (.atom .lineString false) ∨
    (keep = true ∧ fixLineStringElement keep e c = some (.atom .point false)) := by
  unfold fixLineStringElement
  split_ifs <;> simp_all

theorem ringElem_cases (keep e v : Bool) (c : Nat) :
    fixLinearRingElement keep e c v = none ∨ fixLinearRingElement keep e c v = some (.atom .linearRing false) ∨
    fixLinearRingElement keep e c v = some (.atom .lineString false) ∨
    (keep = true ∧ fixLinearRingElement keep e c v = some (.atom .point false)) := by
  unfold fixLinearRingElement
  split_ifs <;> simp_all

theorem polyElem_cases (keep se : Bool) (a w : Area) (c n : Nat) :
    fixPolygonElement keep se a c n w = none ∨ fixPolygonElement keep se a c n w = some (.atom .polygon false) ∨
    fixPolygonElement keep se a c n w = some (.atom .polygon true) ∨
    fixPolygonElement keep se a c n w = some (.atom .multiPolygon false) ∨
    (keep = true ∧ (fixPolygonElement keep se a c n w = some (.atom .point false) ∨ fixPolygonElement keep se a c n w = some (.atom .lineString false))) := by
  unfold fixPolygonElement
  rcases lineElem_cases keep se c with h | h | ⟨hk, h⟩ <;> rw [h] <;> cases a <;> cases w <;> split_ifs <;> simp_all [Area.res]

theorem fixList_eq_map (keep : Bool) (l : List Shape) : fixList keep l = l.map (fix keep) := by
  induction l with
  | nil => simp [fixList]
  | cons a r ih => simp [fixList, ih]

/-- type of a top-level line fix -/
theorem fixLineString_ty (keep e : Bool) (c : Nat) :
    (fixLineString keep e c).ty = .lineString ∨ (keep = true ∧ (fixLineString keep e c).ty = .point) := by
  unfold fixLineString
  rcases lineElem_cases keep e c with h | h | ⟨hk, h⟩ <;> rw [h] <;> simp [Res.ty, *]

/-- the elements a MultiLineString is rebuilt from are LineStrings, or Points when collapses are kept -/
theorem multiLine_elems (keep : Bool) (ls : List Shape) :
    ∀ r ∈ ls.filterMap (Shape.lineElem keep),
      r = .atom .lineString false ∨ (keep = true ∧ r = .atom .point false) := by
  intro r hr
  obtain ⟨l, _, hl⟩ := List.mem_filterMap.mp hr
  cases l with
  | line e c =>
    simp only [Shape.lineElem] at hl
    rcases lineElem_cases keep e c with h1 | h1 | ⟨hk, h1⟩ <;> rw [h1] at hl <;> simp_all
  | _ => simp [Shape.lineElem] at hl

theorem multiLine_ty (keep : Bool) (ls : List Shape) :
    (fix keep (.multiLine ls)).ty = .multiLineString ∨ (fix keep (.multiLine ls)).ty = .lineString ∨
    (keep = true ∧ ((fix keep (.multiLine ls)).ty = .point ∨ (fix keep (.multiLine ls)).ty = .collection)) := by
  have helem := multiLine_elems keep ls
  simp only [fix]
  by_cases h0 : ls.isEmpty = true
  · simp [h0, Res.ty]
  · simp only [h0, if_false, Bool.false_eq_true]
    generalize ls.filterMap (Shape.lineElem keep) = fixed at helem
    match fixed, helem with
    | [], _ => simp [Res.ty]
    | [one], helem =>
      rcases helem one (by simp) with h1 | ⟨hk, h1⟩ <;> simp [h1, Res.ty, *]
    | a :: b :: r, helem =>
      dsimp only
      by_cases hany : ((a :: b :: r).any fun r => r.ty != Ty.lineString) = true
      · rw [if_pos hany]
        cases keep
        · exfalso
          obtain ⟨x, hx, hne⟩ := List.any_eq_true.mp hany
          rcases helem x hx with h1 | ⟨hk, _⟩
          · simp [h1, Res.ty] at hne
          · simp at hk
        · simp [Res.ty]
      · rw [if_neg hany]; simp [Res.ty]

end GeosModel.Fix
