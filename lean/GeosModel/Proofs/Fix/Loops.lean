import GeosModel.Model.Fix.Cxx
/-!
Loop lemmas for the bridge theorems of the regenerated element loops of `GeometryFixer` (`Props/C17Gen.lean`):
an index loop `for (i = 0; i < g->getNumGeometries(); i++) … g->getGeometryN(i) …` is the loop over the element list, and
the loops of the model (`filterMap` of the element functions) in closed form.  Core Lean only.
-/
namespace GeosModel.Fix

/-- an index loop over `[k, k + xs.length)` whose body at `k + i` is `f xs[i]` is the loop over `xs` -/
theorem forIn_range'_pointwise {α σ : Type} (f : α → σ → Id (ForInStep σ)) :
    ∀ (xs : List α) (h : Nat → σ → Id (ForInStep σ)) (k : Nat) (init : σ),
      (∀ i (hi : i < xs.length) b, h (k + i) b = f xs[i] b) →
      forIn (List.range' k xs.length) init h = forIn xs init f := by
  intro xs
  induction xs with
  | nil => intro h k init _; rfl
  | cons x xs ih =>
    intro h k init hp
    have h0 : ∀ b, h k b = f x b := by intro b; have := hp 0 (by simp) b; simpa using this
    simp only [List.length_cons, List.range'_succ, List.forIn_cons, h0]
    congr 1
    funext r
    cases r with
    | done b => rfl
    | yield b =>
      refine ih h (k + 1) b (fun i hi b' => ?_)
      have := hp (i + 1) (by simpa using hi) b'
      simp only [List.getElem_cons_succ] at this
      rw [← this]; congr 1; omega

theorem elemAt_getElem (s : Shape) (i : Nat) (h : i < s.elems.length) : s.elemAt i = s.elems[i] := by
  simp [Shape.elemAt, h]

/-! ### the model's loops in closed form -/

/-- loop bodies of the model, as named functions (so that statements about them can be rewritten with) -/
def stepCollect (r : Shape → Option Res) (a : Shape) (b : Vec) : Id (ForInStep Vec) := pure (ForInStep.yield (b.push (r a)))
def stepFilter (r : Shape → Option Res) (a : Shape) (b : Vec) : Id (ForInStep Vec) :=
  match r a with
  | none => pure (ForInStep.yield b)
  | some x => pure (ForInStep.yield (b.push (some x)))
def stepLines (r : Shape → Option Res) (a : Shape) (s : Vec × Bool) : Id (ForInStep (Vec × Bool)) :=
  match r a with
  | none => pure (ForInStep.yield s)
  | some x => pure (ForInStep.yield (s.1.push (some x), s.2 || x.ty != Ty.lineString))

/-- `fixCollection`'s loop: one result per element -/
theorem forIn_collect (r : Shape → Option Res) : ∀ (gs : List Shape) (init : Vec),
    forIn (m := Id) gs init (stepCollect r) = pure (init ++ gs.map r) := by
  intro gs
  induction gs with
  | nil => intro init; simp
  | cons g gs ih =>
    intro init
    simp only [List.forIn_cons, stepCollect, pure_bind]
    rw [ih]; simp [Vec.push]

/-- a loop that appends the non-null element results -/
theorem forIn_filter (r : Shape → Option Res) : ∀ (gs : List Shape) (init : Vec),
    forIn (m := Id) gs init (stepFilter r) = pure (init ++ (gs.filterMap r).map some) := by
  intro gs
  induction gs with
  | nil => intro init; simp
  | cons g gs ih =>
    intro init
    cases hr : r g <;> simp only [List.forIn_cons, stepFilter, hr, pure_bind] <;> rw [ih] <;> simp [Vec.push, hr]

/-- `fixMultiLineString`'s loop: the surviving element results and whether one of them is not a LineString -/
theorem forIn_lines (r : Shape → Option Res) : ∀ (gs : List Shape) (v : Vec) (m : Bool),
    forIn (m := Id) gs (v, m) (stepLines r)
      = pure (v ++ (gs.filterMap r).map some, m || (gs.filterMap r).any (fun x => x.ty != Ty.lineString)) := by
  intro gs
  induction gs with
  | nil => intro v m; simp
  | cons g gs ih =>
    intro v m
    cases hr : r g with
    | none =>
      simp only [List.forIn_cons, stepLines, hr, pure_bind]
      rw [ih]; simp [hr]
    | some x =>
      simp only [List.forIn_cons, stepLines, hr, pure_bind]
      rw [ih]; simp [Vec.push, hr, Bool.or_assoc]

theorem results_map_some (l : List Res) : Vec.results (l.map some) = some l := by
  simp [Vec.results, List.filterMap_map]

end GeosModel.Fix
