import GeosModel.Proofs.Norm.Invariants
import GeosModel.Base.Kernel
/-!
Twice the signed area (shoelace sum over `Int`, `Kernel.area2`) of a closed ring is negated by reversal and
unchanged by the rotation `normalize` performs; hence the absolute area of a geometry is invariant under
`reverse` and (under the idempotence hypothesis, for rings closed in the coordinates `f` reads) under `normalize`.
-/
set_option linter.unusedSimpArgs false
set_option linter.unusedVariables false
namespace GeosModel.Norm
open GeosModel.Kernel

def sumInt {α : Type} (f : α → Int) : List α → Int
  | [] => 0
  | a :: r => f a + sumInt f r

theorem sumInt_perm {α : Type} {f : α → Int} {l₁ l₂ : List α} (h : l₁.Perm l₂) : sumInt f l₁ = sumInt f l₂ := by
  induction h with
  | nil => rfl
  | cons a _ ih => simp [sumInt, ih]
  | swap a b l => simp only [sumInt]; omega
  | trans _ _ ih1 ih2 => exact ih1.trans ih2

theorem sumInt_append {α : Type} (f : α → Int) : ∀ (l₁ l₂ : List α), sumInt f (l₁ ++ l₂) = sumInt f l₁ + sumInt f l₂
  | [], l₂ => by simp [sumInt]
  | a :: r, l₂ => by simp only [List.cons_append, sumInt, sumInt_append f r l₂]; omega

theorem sumInt_map {α β : Type} (f : β → Int) (g : α → β) : ∀ l, sumInt f (l.map g) = sumInt (fun a => f (g a)) l
  | [] => rfl
  | a :: r => by simp [sumInt, sumInt_map f g r]

theorem sumInt_congr {α : Type} {f g : α → Int} : ∀ (l : List α), (∀ a ∈ l, f a = g a) → sumInt f l = sumInt g l
  | [], _ => rfl
  | a :: r, h => by simp only [sumInt]; rw [h a (by simp), sumInt_congr r (fun x hx => h x (by simp [hx]))]

theorem sumInt_neg {α : Type} (f : α → Int) : ∀ l, sumInt (fun a => - f a) l = - sumInt f l
  | [] => rfl
  | a :: r => by simp only [sumInt, sumInt_neg f r]; omega

/-- the shoelace term of an edge -/
def crossE (e : Pt × Pt) : Int := e.1.x * e.2.y - e.2.x * e.1.y

theorem foldl_add_eq {α : Type} (g : α → Int) : ∀ (l : List α) (a : Int), l.foldl (fun acc e => acc + g e) a = a + sumInt g l
  | [], a => by simp [sumInt]
  | x :: r, a => by simp only [List.foldl, sumInt]; rw [foldl_add_eq g r]; omega

theorem area2_eq (l : List Pt) : area2 l = sumInt crossE (edges l) := by
  unfold area2
  show List.foldl (fun acc e => acc + crossE e) 0 (edges l) = _
  rw [foldl_add_eq crossE]; simp

theorem edges_append_cons : ∀ (l₁ : List Pt) (x : Pt) (l₂ : List Pt),
    edges (l₁ ++ x :: l₂) = edges (l₁ ++ [x]) ++ edges (x :: l₂)
  | [], x, l₂ => by simp [edges]
  | [a], x, l₂ => by simp [edges]
  | a :: b :: r, x, l₂ => by
    have := edges_append_cons (b :: r) x l₂
    simp only [List.cons_append] at this ⊢
    simp only [edges, this, List.cons_append]

theorem edges_reverse : ∀ (l : List Pt), edges l.reverse = ((edges l).map Prod.swap).reverse
  | [] => by simp [edges]
  | [a] => by simp [edges]
  | a :: b :: r => by
    have ih := edges_reverse (b :: r)
    have e : (a :: b :: r).reverse = r.reverse ++ b :: [a] := by simp
    rw [e, edges_append_cons]
    have e2 : r.reverse ++ [b] = (b :: r).reverse := by simp
    rw [e2, ih]
    simp [edges]

theorem crossE_swap (e : Pt × Pt) : crossE e.swap = - crossE e := by
  simp only [crossE, Prod.swap]; omega

/-- reversal negates the shoelace sum -/
theorem area2_reverse (l : List Pt) : area2 l.reverse = - area2 l := by
  rw [area2_eq, area2_eq, edges_reverse, sumInt_perm (List.reverse_perm _), sumInt_map]
  rw [← sumInt_neg]
  exact sumInt_congr _ (fun e _ => crossE_swap e)

/-- the rotation to the vertex `m` and re-closing with `m` keeps the shoelace sum of a closed ring -/
theorem area2_scroll (pre post : List Pt) (m z : Pt) (hz : (pre ++ m :: post).head? = some z) :
    area2 (m :: (post ++ pre) ++ [m]) = area2 (pre ++ m :: post ++ [z]) := by
  cases pre with
  | nil =>
    simp only [List.nil_append, List.head?_cons, Option.some.injEq] at hz
    subst hz; simp
  | cons a p' =>
    simp only [List.cons_append, List.head?_cons, Option.some.injEq] at hz
    subst hz
    rw [area2_eq, area2_eq]
    have e1 : edges (a :: p' ++ m :: post ++ [a]) = edges (a :: p' ++ [m]) ++ edges (m :: (post ++ [a])) := by
      have := edges_append_cons (a :: p') m (post ++ [a])
      simpa using this
    have e2 : edges (m :: (post ++ a :: p') ++ [m]) = edges (m :: (post ++ [a])) ++ edges (a :: p' ++ [m]) := by
      have := edges_append_cons (m :: post) a (p' ++ [m])
      simpa using this
    rw [e1, e2, sumInt_append, sumInt_append]; omega

/-! ### on coordinate rings -/

/-- twice the signed area of a coordinate ring as `f` reads it -/
def ringArea2 (f : Coord → Pt) (pts : List Coord) : Int := area2 (pts.map f)

def absI (n : Int) : Int := (n.natAbs : Int)

theorem absI_neg (n : Int) : absI (-n) = absI n := by simp [absI]

/-- a non-empty ring ends where it starts, in the coordinates `f` reads -/
def closedUnder (f : Coord → Pt) (l : List Coord) : Prop :=
  l = [] ∨ ∃ a t z, l = a :: t ++ [z] ∧ f z = f a

theorem ringArea2_reverse (f : Coord → Pt) (l : List Coord) : ringArea2 f l.reverse = - ringArea2 f l := by
  unfold ringArea2; rw [List.map_reverse, area2_reverse]

theorem absArea_orientRing (f : Coord → Pt) (c : Cfg) (cw : Bool) (R : List Coord) :
    absI (ringArea2 f (orientRing c cw R)) = absI (ringArea2 f R) := by
  unfold orientRing; split
  · rw [ringArea2_reverse, absI_neg]
  · rfl

theorem normRingPts_area_of_ok {f : Coord → Pt} {c : Cfg} {cw : Bool} {l : List Coord}
    (hcl : closedUnder f l) (h : ringIdemOK c cw l = true) :
    absI (ringArea2 f (normRingPts c cw l)) = absI (ringArea2 f l) := by
  unfold ringIdemOK at h
  cases l with
  | nil => simp [normRingPts]
  | cons a t =>
    simp only [List.isEmpty_cons, Bool.false_or, Bool.and_eq_true, beq_iff_eq, decide_eq_true_eq] at h
    obtain ⟨⟨hcnt, hlen⟩, _⟩ := h
    obtain ⟨o, z, pre, m, post, hl, hu, hne, hR⟩ := ring_unpack (l := a :: t) (by simp) hcnt hlen
    rw [hl, normRingPts_unique z hu hne, absArea_orientRing]
    congr 1
    -- the closing point reads like the first point
    rcases hcl with hcl | ⟨a', t', z', hl', hz'⟩
    · cases hcl
    · have hoz : o ++ [z] = (a' :: t') ++ [z'] := by rw [← hl, hl']
      have := append_singleton_inj hoz
      obtain ⟨ho, hzz⟩ := this
      subst hzz
      unfold ringArea2
      have hmap : (m :: (post ++ pre) ++ [m]).map f = f m :: (post.map f ++ pre.map f) ++ [f m] := by simp
      have hmap2 : (o ++ [z]).map f = pre.map f ++ f m :: post.map f ++ [f z] := by rw [hu.eq]; simp
      rw [hmap, hmap2]
      apply area2_scroll
      have : (pre ++ m :: post).head? = some a' := by rw [← hu.eq, ho]; rfl
      rw [hz']
      cases pre with
      | nil => simp at this ⊢; rw [this]
      | cons p pp => simp at this ⊢; rw [this]

/-! ### on geometries -/

mutual
  /-- twice the area `Geometry::getArea()` approximates: `|shell| − Σ |hole|` per polygon, summed over collections -/
  def absArea2 (f : Coord → Pt) : G → Int
    | .polygon sh hs => absI (ringArea2 f sh.pts) - sumInt (fun h : CSeq => absI (ringArea2 f h.pts)) hs
    | .multiPolygon gs => absArea2L f gs
    | .multiSurface gs => absArea2L f gs
    | .collection gs => absArea2L f gs
    | .point _ => 0
    | .lineString _ => 0
    | .linearRing _ => 0
    | .circularString _ => 0
    | .compoundCurve _ => 0
    | .curvePolygon _ => 0
    | .multiPoint _ => 0
    | .multiLineString _ => 0
    | .multiCurve _ => 0
  def absArea2L (f : Coord → Pt) : List G → Int
    | [] => 0
    | g :: gs => absArea2 f g + absArea2L f gs
end

theorem absArea2L_eq (f : Coord → Pt) : ∀ gs, absArea2L f gs = sumInt (absArea2 f) gs
  | [] => rfl
  | g :: gs => by simp [absArea2L, sumInt, absArea2L_eq f gs]

mutual
  theorem absArea2_reverse_aux (f : Coord → Pt) : ∀ (g : G), absArea2 f (reverse g) = absArea2 f g
    | .point s => rfl
    | .lineString s => rfl
    | .linearRing s => rfl
    | .circularString s => rfl
    | .compoundCurve gs => rfl
    | .curvePolygon gs => rfl
    | .multiPoint gs => rfl
    | .multiLineString gs => rfl
    | .multiCurve gs => rfl
    | .polygon sh hs => by
      simp only [reverse, absArea2, revSeq, ringArea2_reverse, absI_neg, sumInt_map]
    | .multiPolygon gs => by
      simp only [reverse, absArea2, absArea2L_eq, reverseL_eq_map, sumInt_map]
      exact absArea2L_reverse_sum f gs
    | .multiSurface gs => by
      simp only [reverse, absArea2, absArea2L_eq, reverseL_eq_map, sumInt_map]
      exact absArea2L_reverse_sum f gs
    | .collection gs => by
      simp only [reverse, absArea2, absArea2L_eq, reverseL_eq_map, sumInt_map]
      exact absArea2L_reverse_sum f gs
  theorem absArea2L_reverse_sum (f : Coord → Pt) : ∀ (gs : List G),
      sumInt (fun a => absArea2 f (reverse a)) gs = sumInt (absArea2 f) gs
    | [] => rfl
    | g :: gs => by simp only [sumInt]; rw [absArea2_reverse_aux f g, absArea2L_reverse_sum f gs]
end

mutual
  /-- every polygon ring is closed in the coordinates `f` reads -/
  def ringsClosed (f : Coord → Pt) : G → Prop
    | .polygon sh hs => closedUnder f sh.pts ∧ ∀ h ∈ hs, closedUnder f h.pts
    | .multiPolygon gs => ringsClosedL f gs
    | .multiSurface gs => ringsClosedL f gs
    | .collection gs => ringsClosedL f gs
    | .point _ => True
    | .lineString _ => True
    | .linearRing _ => True
    | .circularString _ => True
    | .compoundCurve _ => True
    | .curvePolygon _ => True
    | .multiPoint _ => True
    | .multiLineString _ => True
    | .multiCurve _ => True
  def ringsClosedL (f : Coord → Pt) : List G → Prop
    | [] => True
    | g :: gs => ringsClosed f g ∧ ringsClosedL f gs
end

mutual
  theorem absArea2_normalize_aux (f : Coord → Pt) (c : Cfg) : ∀ (g : G), ringsClosed f g → idemOK c g = true →
      absArea2 f (normalize c g) = absArea2 f g
    | .point s, _, _ => rfl
    | .lineString s, _, _ => rfl
    | .linearRing s, _, _ => rfl
    | .circularString s, _, _ => rfl
    | .compoundCurve gs, _, _ => rfl
    | .curvePolygon gs, _, _ => rfl
    | .multiPoint gs, _, _ => rfl
    | .multiLineString gs, _, _ => rfl
    | .multiCurve gs, _, _ => rfl
    | .polygon sh hs, hc, h => by
      simp only [idemOK, Bool.and_eq_true, List.all_eq_true] at h
      simp only [ringsClosed] at hc
      simp only [normalize, absArea2, normRing]
      rw [normRingPts_area_of_ok hc.1 h.1, sumInt_perm (sortDesc_perm _ _), sumInt_map]
      congr 1
      exact sumInt_congr hs (fun a ha => normRingPts_area_of_ok (hc.2 a ha) (h.2 a ha))
    | .multiPolygon gs, hc, h => by
      simp only [idemOK] at h; simp only [ringsClosed] at hc
      simp only [normalize, absArea2, absArea2L_eq]
      rw [sumInt_perm (sortDesc_perm _ _), normalizeL_eq_map, sumInt_map]
      exact absArea2L_normalize_sum f c gs hc h
    | .multiSurface gs, hc, h => by
      simp only [idemOK] at h; simp only [ringsClosed] at hc
      simp only [normalize, absArea2, absArea2L_eq]
      rw [sumInt_perm (sortDesc_perm _ _), normalizeL_eq_map, sumInt_map]
      exact absArea2L_normalize_sum f c gs hc h
    | .collection gs, hc, h => by
      simp only [idemOK] at h; simp only [ringsClosed] at hc
      simp only [normalize, absArea2, absArea2L_eq]
      rw [sumInt_perm (sortDesc_perm _ _), normalizeL_eq_map, sumInt_map]
      exact absArea2L_normalize_sum f c gs hc h
  theorem absArea2L_normalize_sum (f : Coord → Pt) (c : Cfg) : ∀ (gs : List G), ringsClosedL f gs → idemOKL c gs = true →
      sumInt (fun a => absArea2 f (normalize c a)) gs = sumInt (absArea2 f) gs
    | [], _, _ => rfl
    | g :: gs, hc, hok => by
      simp only [idemOKL, Bool.and_eq_true] at hok
      simp only [ringsClosedL] at hc
      simp only [sumInt]; rw [absArea2_normalize_aux f c g hc.1 hok.1, absArea2L_normalize_sum f c gs hc.2 hok.2]
end

end GeosModel.Norm
