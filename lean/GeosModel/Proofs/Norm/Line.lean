import GeosModel.Proofs.Norm.Ring
/-! `SimpleCurve::normalize` on LineString / LinearRing coordinate lists. -/
set_option linter.unusedSimpArgs false
set_option linter.unusedVariables false
namespace GeosModel.Norm

theorem getLast_cc (a b : Coord) (mid : List Coord) (h : a :: (mid ++ [b]) ≠ []) :
    (a :: (mid ++ [b])).getLast h = b := by
  rw [List.getLast_cons (by simp), List.getLast_concat]

theorem open_shape {c : Cfg} : ∀ (l : List Coord), l ≠ [] → isClosedPts c l = false →
    ∃ a mid b, l = a :: mid ++ [b] ∧ eqXY c a b = false
  | [], h, _ => absurd rfl h
  | [a], _, hc => by simp [isClosedPts, eqXY_self] at hc
  | a :: x :: t, _, hc => by
    have hne : x :: t ≠ [] := by simp
    refine ⟨a, (x :: t).dropLast, (x :: t).getLast hne, ?_, ?_⟩
    · rw [List.cons_append, List.dropLast_concat_getLast]
    · simp only [isClosedPts] at hc
      rw [List.getLast_cons hne] at hc
      exact hc

theorem normOpenPts_shape (c : Cfg) (a b : Coord) (mid : List Coord) (h : eqXY c a b = false) :
    normOpenPts c (a :: mid ++ [b]) = if cmpXY c a b > 0 then (a :: mid ++ [b]).reverse else a :: mid ++ [b] := by
  unfold normOpenPts
  have hrev : (a :: mid ++ [b]).reverse = b :: (mid.reverse ++ [a]) := by simp
  have hlen : (a :: mid ++ [b]).length / 2 = mid.length / 2 + 1 := by
    simp only [List.cons_append, List.length_cons, List.length_append, List.length_nil]; omega
  rw [hlen, hrev, List.cons_append, List.zip_cons_cons, List.take_succ_cons]
  simp only [firstDiff, h]
  rfl

theorem isClosedPts_open (c : Cfg) (a b : Coord) (mid : List Coord) :
    isClosedPts c (a :: mid ++ [b]) = eqXY c a b := by
  simp only [isClosedPts, List.cons_append]
  rw [getLast_cc]

theorem eqXY_comm (c : Cfg) (a b : Coord) : eqXY c a b = eqXY c b a := by
  unfold eqXY; simp [eq_comm]

/-- `SimpleCurve::normalize` on an open line -/
theorem normLinePts_open (c : Cfg) (a b : Coord) (mid : List Coord) (h : eqXY c a b = false) :
    normLinePts c (a :: mid ++ [b]) = if cmpXY c a b > 0 then (a :: mid ++ [b]).reverse else a :: mid ++ [b] := by
  unfold normLinePts
  rw [isClosedPts_open, h]
  simp only [List.isEmpty_cons, List.cons_append, Bool.false_eq_true, if_false]
  exact normOpenPts_shape c a b mid h

theorem normLinePts_open_idem (c : Cfg) (a b : Coord) (mid : List Coord) (h : eqXY c a b = false) :
    normLinePts c (normLinePts c (a :: mid ++ [b])) = normLinePts c (a :: mid ++ [b]) := by
  rw [normLinePts_open c a b mid h]
  split
  · rename_i hgt
    have hrev : (a :: mid ++ [b]).reverse = b :: mid.reverse ++ [a] := by simp
    have h' : eqXY c b a = false := by rw [eqXY_comm]; exact h
    rw [hrev, normLinePts_open c b a mid.reverse h']
    have : ¬ cmpXY c b a > 0 := by have := (cmpXY_ok c).antisymm a b; omega
    rw [if_neg this]
  · rename_i hgt
    rw [normLinePts_open c a b mid h, if_neg hgt]

/-- an open line and its reverse normalise to the same coordinates -/
theorem normLinePts_open_reverse (c : Cfg) (a b : Coord) (mid : List Coord) (h : eqXY c a b = false) :
    normLinePts c (a :: mid ++ [b]).reverse = normLinePts c (a :: mid ++ [b]) := by
  have hrev : (a :: mid ++ [b]).reverse = b :: mid.reverse ++ [a] := by simp
  have h' : eqXY c b a = false := by rw [eqXY_comm]; exact h
  have hne : cmpXY c a b ≠ 0 := fun h0 => by rw [cmpXY_eq_zero.mp h0] at h; cases h
  have hanti := (cmpXY_ok c).antisymm a b
  rw [hrev, normLinePts_open c b a mid.reverse h', normLinePts_open c a b mid h, ← hrev]
  by_cases hgt : cmpXY c a b > 0
  · have : ¬ cmpXY c b a > 0 := by omega
    rw [if_pos hgt, if_neg this]
  · have : cmpXY c b a > 0 := by omega
    rw [if_neg hgt, if_pos this, List.reverse_reverse]

/-! ### closed lines (`normalizeClosed`) -/

/-- the rotated and re-closed line -/
def closedScrolled (c : Cfg) (l : List Coord) : List Coord := closeRing c true (scroll c l.dropLast)

/-- the final orientation step of `normalizeClosed` -/
def orientClosed (c : Cfg) (R : List Coord) : List Coord := if 4 ≤ R.length && c.isCCW R then R.reverse else R

theorem normClosedPts_eq (c : Cfg) (l : List Coord) : normClosedPts c l = orientClosed c (closedScrolled c l) := rfl

theorem closedScrolled_firstMin {c : Cfg} {o pre m post} (z : Coord) (h : FirstMin c o pre m post) :
    closedScrolled c (o ++ [z]) = m :: (post ++ pre) ++ [m] := by
  unfold closedScrolled
  rw [List.dropLast_concat, scroll_firstMin h, List.cons_append, closeRing_true]

theorem isClosedPts_mm (c : Cfg) (m : Coord) (t : List Coord) : isClosedPts c (m :: t ++ [m]) = true := by
  rw [isClosedPts_open, eqXY_self]

theorem normLinePts_closed {c : Cfg} {l : List Coord} (hne : l ≠ []) (hc : isClosedPts c l = true) :
    normLinePts c l = orientClosed c (closedScrolled c l) := by
  unfold normLinePts
  have : l.isEmpty = false := by cases l <;> simp_all
  rw [this, hc]; simp only [Bool.false_eq_true, if_false, if_true]; rfl

/-- a closed line `m :: t ++ [m]` whose first point is a minimum is left in place by the rotation step -/
theorem closedScrolled_fixed {c : Cfg} {m : Coord} {t : List Coord} (h : ∀ x ∈ t, cmpXY c m x ≤ 0) :
    closedScrolled c (m :: t ++ [m]) = m :: t ++ [m] := by
  have hf : FirstMin c (m :: t) [] m t := ⟨by simp, by simp, h⟩
  have := closedScrolled_firstMin m hf
  simpa using this

theorem normLinePts_closed_idem {c : Cfg} {l : List Coord} (hne : l ≠ []) (hc : isClosedPts c l = true)
    (hlen : 2 ≤ l.length)
    (hor : ¬ (4 ≤ (closedScrolled c l).length ∧ c.isCCW (closedScrolled c l) = true ∧
              c.isCCW (closedScrolled c l).reverse = true)) :
    normLinePts c (normLinePts c l) = normLinePts c l := by
  -- shape of `l`
  have hl : l = l.dropLast ++ [l.getLast hne] := (List.dropLast_concat_getLast hne).symm
  have hone : l.dropLast ≠ [] := by
    intro e
    have : l.length = 1 := by rw [hl, e]; simp
    omega
  obtain ⟨pre, m, post, hf⟩ := exists_firstMin c l.dropLast hone
  have hR : closedScrolled c l = m :: (post ++ pre) ++ [m] := by
    rw [hl]; exact closedScrolled_firstMin _ hf
  have hge : ∀ x ∈ post ++ pre, cmpXY c m x ≤ 0 := by
    intro x hx
    rcases List.mem_append.mp hx with hx | hx
    · exact hf.post_ge x hx
    · exact Int.le_of_lt (hf.pre_gt x hx)
  have hger : ∀ x ∈ (post ++ pre).reverse, cmpXY c m x ≤ 0 := fun x hx => hge x (List.mem_reverse.mp hx)
  rw [hR] at hor
  rw [normLinePts_closed hne hc, hR]
  have hrev : (m :: (post ++ pre) ++ [m]).reverse = m :: (post ++ pre).reverse ++ [m] := by simp
  by_cases hcond : (4 ≤ (m :: (post ++ pre) ++ [m]).length && c.isCCW (m :: (post ++ pre) ++ [m])) = true
  · have hout : orientClosed c (m :: (post ++ pre) ++ [m]) = m :: (post ++ pre).reverse ++ [m] := by
      rw [orientClosed, if_pos hcond]; exact hrev
    rw [hout, normLinePts_closed (by simp) (isClosedPts_mm c m _), closedScrolled_fixed hger]
    have hc2 : ¬ (4 ≤ (m :: (post ++ pre).reverse ++ [m]).length && c.isCCW (m :: (post ++ pre).reverse ++ [m])) = true := by
      intro h2
      simp only [Bool.and_eq_true, decide_eq_true_eq] at hcond h2
      apply hor
      refine ⟨hcond.1, hcond.2, ?_⟩
      rw [hrev]; exact h2.2
    rw [orientClosed, if_neg hc2]
  · have hout : orientClosed c (m :: (post ++ pre) ++ [m]) = m :: (post ++ pre) ++ [m] := by
      rw [orientClosed, if_neg hcond]
    rw [hout, normLinePts_closed (by simp) (isClosedPts_mm c m _), closedScrolled_fixed hge, hout]

theorem closedScrolled_unique_rot {c : Cfg} {o pre m post} (z : Coord) (h : UniqueMin c o pre m post) (k : Nat) :
    closedScrolled c (rot k o ++ [z]) = m :: (post ++ pre) ++ [m] := by
  unfold closedScrolled
  rw [List.dropLast_concat, scroll_rot h k, List.cons_append, closeRing_true]

theorem closedScrolled_unique_rot_reverse {c : Cfg} {o pre m post} (z : Coord) (h : UniqueMin c o pre m post) (k : Nat) :
    closedScrolled c (rot k o.reverse ++ [z]) = (m :: (post ++ pre) ++ [m]).reverse := by
  unfold closedScrolled
  rw [List.dropLast_concat, scroll_rot_reverse h k, closeRing_true]
  simp

theorem orientClosed_reverse {c : Cfg} {R : List Coord} (hlen : 4 ≤ R.length)
    (h : c.isCCW R.reverse = !c.isCCW R) : orientClosed c R.reverse = orientClosed c R := by
  unfold orientClosed
  rw [h, List.reverse_reverse, List.length_reverse]
  have : decide (4 ≤ R.length) = true := by simpa using hlen
  rw [this]
  cases c.isCCW R <;> simp

/-- rotation and reversal variants of a closed line with a unique minimum and a decisive orientation
normalise alike -/
theorem normLinePts_closed_variant {c : Cfg} {o o' pre m post} (z z' : Coord) (h : UniqueMin c o pre m post)
    (hcl : isClosedPts c (o ++ [z]) = true) (hcl' : isClosedPts c (o' ++ [z']) = true)
    (hlen : 4 ≤ (m :: (post ++ pre) ++ [m]).length)
    (hdec : c.isCCW (m :: (post ++ pre) ++ [m]).reverse = !c.isCCW (m :: (post ++ pre) ++ [m]))
    (hv : ∃ k, o' = rot k o ∨ o' = rot k o.reverse) :
    normLinePts c (o' ++ [z']) = normLinePts c (o ++ [z]) := by
  rw [normLinePts_closed (by simp) hcl, normLinePts_closed (by simp) hcl']
  have h0 := closedScrolled_unique_rot z h 0
  have hr0 : rot 0 o = o := by simp [rot]
  rw [hr0] at h0
  rw [h0]
  obtain ⟨k, hk | hk⟩ := hv
  · subst hk; rw [closedScrolled_unique_rot z' h k]
  · subst hk; rw [closedScrolled_unique_rot_reverse z' h k, orientClosed_reverse hlen hdec]

end GeosModel.Norm
