import GeosModel.Proofs.Norm.Area
/-!
The multiset of squared segment lengths of a geometry's linework (hence its length, and any other symmetric function
of the segment lengths) is invariant under `reverse` and — under the idempotence hypothesis, for rings and closed
lines closed in the coordinates `f` reads — under `normalize`.
-/
set_option linter.unusedSimpArgs false
set_option linter.unusedVariables false
namespace GeosModel.Norm
open GeosModel.Kernel

theorem sqDist_comm (a b : Pt) : sqDist a b = sqDist b a := by
  simp only [sqDist]
  have e1 : (a.x - b.x) * (a.x - b.x) = (b.x - a.x) * (b.x - a.x) := by
    have : a.x - b.x = -(b.x - a.x) := by omega
    rw [this, Int.neg_mul_neg]
  have e2 : (a.y - b.y) * (a.y - b.y) = (b.y - a.y) * (b.y - a.y) := by
    have : a.y - b.y = -(b.y - a.y) := by omega
    rw [this, Int.neg_mul_neg]
  omega

/-- squared lengths of the segments of a point list -/
def segSqPts (l : List Pt) : List Int := (edges l).map fun e => sqDist e.1 e.2

theorem segSqPts_reverse (l : List Pt) : (segSqPts l.reverse).Perm (segSqPts l) := by
  unfold segSqPts
  rw [edges_reverse, List.map_reverse, List.map_map]
  refine (List.reverse_perm _).trans ?_
  have : ((fun e : Pt × Pt => sqDist e.1 e.2) ∘ Prod.swap) = (fun e : Pt × Pt => sqDist e.1 e.2) := by
    funext e; simp only [Function.comp, Prod.swap]; exact sqDist_comm _ _
  rw [this]

theorem segSqPts_scroll (pre post : List Pt) (m z : Pt) (hz : (pre ++ m :: post).head? = some z) :
    (segSqPts (m :: (post ++ pre) ++ [m])).Perm (segSqPts (pre ++ m :: post ++ [z])) := by
  cases pre with
  | nil =>
    simp only [List.nil_append, List.head?_cons, Option.some.injEq] at hz
    subst hz; simp
  | cons a p' =>
    simp only [List.cons_append, List.head?_cons, Option.some.injEq] at hz
    subst hz
    have e1 : edges (a :: p' ++ m :: post ++ [a]) = edges (a :: p' ++ [m]) ++ edges (m :: (post ++ [a])) := by
      have := edges_append_cons (a :: p') m (post ++ [a])
      simpa using this
    have e2 : edges (m :: (post ++ a :: p') ++ [m]) = edges (m :: (post ++ [a])) ++ edges (a :: p' ++ [m]) := by
      have := edges_append_cons (m :: post) a (p' ++ [m])
      simpa using this
    unfold segSqPts
    rw [e1, e2, List.map_append, List.map_append]
    exact List.perm_append_comm

/-- squared segment lengths of a coordinate sequence as `f` reads it -/
def segSq (f : Coord → Pt) (pts : List Coord) : List Int := segSqPts (pts.map f)

theorem segSq_reverse (f : Coord → Pt) (l : List Coord) : (segSq f l.reverse).Perm (segSq f l) := by
  unfold segSq; rw [List.map_reverse]; exact segSqPts_reverse _

theorem segSq_orientRing (f : Coord → Pt) (c : Cfg) (cw : Bool) (R : List Coord) :
    (segSq f (orientRing c cw R)).Perm (segSq f R) := by
  unfold orientRing; split
  · exact segSq_reverse f R
  · exact List.Perm.refl _

theorem segSq_orientClosed (f : Coord → Pt) (c : Cfg) (R : List Coord) :
    (segSq f (orientClosed c R)).Perm (segSq f R) := by
  unfold orientClosed; split
  · exact segSq_reverse f R
  · exact List.Perm.refl _

/-- the rotated, re-closed ring has the same segments as the original closed ring -/
theorem segSq_scrolled {f : Coord → Pt} {o pre : List Coord} {m : Coord} {post : List Coord} {z : Coord}
    (ho : o = pre ++ m :: post) (hcl : closedUnder f (o ++ [z])) :
    (segSq f (m :: (post ++ pre) ++ [m])).Perm (segSq f (o ++ [z])) := by
  rcases hcl with hcl | ⟨a', t', z', hl', hz'⟩
  · simp at hcl
  · have := append_singleton_inj (show o ++ [z] = (a' :: t') ++ [z'] from hl')
    obtain ⟨ho', hzz⟩ := this
    subst hzz
    unfold segSq
    have hmap : (m :: (post ++ pre) ++ [m]).map f = f m :: (post.map f ++ pre.map f) ++ [f m] := by simp
    have hmap2 : (o ++ [z]).map f = pre.map f ++ f m :: post.map f ++ [f z] := by rw [ho]; simp
    rw [hmap, hmap2]
    apply segSqPts_scroll
    have : (pre ++ m :: post).head? = some a' := by rw [← ho, ho']; rfl
    rw [hz']
    cases pre with
    | nil => simp at this ⊢; rw [this]
    | cons p pp => simp at this ⊢; rw [this]

theorem normRingPts_segSq_of_ok {f : Coord → Pt} {c : Cfg} {cw : Bool} {l : List Coord}
    (hcl : closedUnder f l) (h : ringIdemOK c cw l = true) :
    (segSq f (normRingPts c cw l)).Perm (segSq f l) := by
  unfold ringIdemOK at h
  cases l with
  | nil => simp [normRingPts]
  | cons a t =>
    simp only [List.isEmpty_cons, Bool.false_or, Bool.and_eq_true, beq_iff_eq, decide_eq_true_eq] at h
    obtain ⟨⟨hcnt, hlen⟩, _⟩ := h
    obtain ⟨o, z, pre, m, post, hl, hu, hne, hR⟩ := ring_unpack (l := a :: t) (by simp) hcnt hlen
    rw [hl] at hcl ⊢
    rw [normRingPts_unique z hu hne]
    exact (segSq_orientRing f c cw _).trans (segSq_scrolled hu.eq hcl)

theorem normLinePts_segSq_of_ok {f : Coord → Pt} {c : Cfg} {l : List Coord}
    (hcl : isClosedPts c l = true → closedUnder f l) (h : lineIdemOK c l = true) :
    (segSq f (normLinePts c l)).Perm (segSq f l) := by
  by_cases hne : l = []
  · subst hne; simp [normLinePts]
  · cases hc : isClosedPts c l with
    | false =>
      obtain ⟨a, mid, b, hl, hab⟩ := open_shape l hne hc
      rw [hl, normLinePts_open c a b mid hab]; split
      · exact segSq_reverse f _
      · exact List.Perm.refl _
    | true =>
      unfold lineIdemOK at h
      have hemp : l.isEmpty = false := isEmpty_false_of_ne hne
      simp only [hemp, hc, Bool.false_or, Bool.not_true, Bool.and_eq_true, decide_eq_true_eq] at h
      have hlen := h.1
      have hl : l = l.dropLast ++ [l.getLast hne] := (List.dropLast_concat_getLast hne).symm
      have hone : l.dropLast ≠ [] := by
        intro e
        have : l.length = 1 := by rw [hl, e]; simp
        omega
      obtain ⟨pre, m, post, hf⟩ := exists_firstMin c l.dropLast hone
      have hR : closedScrolled c l = m :: (post ++ pre) ++ [m] := by rw [hl]; exact closedScrolled_firstMin _ hf
      rw [normLinePts_closed hne hc, hR]
      refine (segSq_orientClosed f c _).trans ?_
      have hcl' := hcl hc
      rw [hl] at hcl' ⊢
      exact segSq_scrolled hf.eq hcl'

/-! ### on geometries -/

def catBy {α : Type} (f : α → List Int) : List α → List Int
  | [] => []
  | a :: r => f a ++ catBy f r

theorem catBy_perm {α : Type} {f : α → List Int} {l₁ l₂ : List α} (h : l₁.Perm l₂) : (catBy f l₁).Perm (catBy f l₂) := by
  induction h with
  | nil => exact List.Perm.refl _
  | cons a _ ih => exact List.Perm.append_left _ ih
  | swap a b l =>
    simp only [catBy]
    rw [← List.append_assoc, ← List.append_assoc]
    exact List.Perm.append_right _ List.perm_append_comm
  | trans _ _ ih1 ih2 => exact ih1.trans ih2

theorem catBy_map {α β : Type} (f : β → List Int) (g : α → β) : ∀ l, catBy f (l.map g) = catBy (fun a => f (g a)) l
  | [] => rfl
  | a :: r => by simp [catBy, catBy_map f g r]

theorem catBy_congr_mem {α : Type} {f g : α → List Int} : ∀ (l : List α), (∀ a ∈ l, (f a).Perm (g a)) → (catBy f l).Perm (catBy g l)
  | [], _ => List.Perm.refl _
  | a :: r, h => List.Perm.append (h a (by simp)) (catBy_congr_mem r (fun x hx => h x (by simp [hx])))

mutual
  /-- squared lengths of all segments `Geometry::getLength()` sums over (lines and polygon rings) -/
  def segSqs (f : Coord → Pt) : G → List Int
    | .lineString s => segSq f s.pts
    | .linearRing s => segSq f s.pts
    | .polygon sh hs => segSq f sh.pts ++ catBy (fun h : CSeq => segSq f h.pts) hs
    | .multiLineString gs => segSqsL f gs
    | .multiPolygon gs => segSqsL f gs
    | .multiCurve gs => segSqsL f gs
    | .multiSurface gs => segSqsL f gs
    | .collection gs => segSqsL f gs
    | .multiPoint _ => []
    | .point _ => []
    | .circularString _ => []
    | .compoundCurve _ => []
    | .curvePolygon _ => []
  def segSqsL (f : Coord → Pt) : List G → List Int
    | [] => []
    | g :: gs => segSqs f g ++ segSqsL f gs
end

theorem segSqsL_eq (f : Coord → Pt) : ∀ gs, segSqsL f gs = catBy (segSqs f) gs
  | [] => rfl
  | g :: gs => by simp [segSqsL, catBy, segSqsL_eq f gs]

mutual
  theorem segSqs_reverse_aux (f : Coord → Pt) : ∀ (g : G), (segSqs f (reverse g)).Perm (segSqs f g)
    | .point s => List.Perm.refl _
    | .circularString s => List.Perm.refl _
    | .compoundCurve gs => List.Perm.refl _
    | .curvePolygon gs => List.Perm.refl _
    | .multiPoint gs => List.Perm.refl _
    | .lineString s => by simp only [reverse, segSqs, revSeq]; exact segSq_reverse f _
    | .linearRing s => by simp only [reverse, segSqs, revSeq]; exact segSq_reverse f _
    | .polygon sh hs => by
      simp only [reverse, segSqs, revSeq, catBy_map]
      exact List.Perm.append (segSq_reverse f _) (catBy_congr_mem hs (fun a _ => segSq_reverse f _))
    | .multiLineString gs => by
      simp only [reverse, segSqs, segSqsL_eq, reverseL_eq_map, catBy_map]; exact segSqsL_reverse f gs
    | .multiPolygon gs => by
      simp only [reverse, segSqs, segSqsL_eq, reverseL_eq_map, catBy_map]; exact segSqsL_reverse f gs
    | .multiCurve gs => by
      simp only [reverse, segSqs, segSqsL_eq, reverseL_eq_map, catBy_map]; exact segSqsL_reverse f gs
    | .multiSurface gs => by
      simp only [reverse, segSqs, segSqsL_eq, reverseL_eq_map, catBy_map]; exact segSqsL_reverse f gs
    | .collection gs => by
      simp only [reverse, segSqs, segSqsL_eq, reverseL_eq_map, catBy_map]; exact segSqsL_reverse f gs
  theorem segSqsL_reverse (f : Coord → Pt) : ∀ (gs : List G),
      (catBy (fun a => segSqs f (reverse a)) gs).Perm (catBy (segSqs f) gs)
    | [] => List.Perm.refl _
    | g :: gs => List.Perm.append (segSqs_reverse_aux f g) (segSqsL_reverse f gs)
end

mutual
  /-- polygon rings, and the lines that are closed for `normalize`, are closed in the coordinates `f` reads -/
  def closedOK (f : Coord → Pt) (c : Cfg) : G → Prop
    | .polygon sh hs => closedUnder f sh.pts ∧ ∀ h ∈ hs, closedUnder f h.pts
    | .lineString s => isClosedPts c s.pts = true → closedUnder f s.pts
    | .linearRing s => isClosedPts c s.pts = true → closedUnder f s.pts
    | .multiLineString gs => closedOKL f c gs
    | .multiPolygon gs => closedOKL f c gs
    | .multiCurve gs => closedOKL f c gs
    | .multiSurface gs => closedOKL f c gs
    | .collection gs => closedOKL f c gs
    | .multiPoint _ => True
    | .point _ => True
    | .circularString _ => True
    | .compoundCurve _ => True
    | .curvePolygon _ => True
  def closedOKL (f : Coord → Pt) (c : Cfg) : List G → Prop
    | [] => True
    | g :: gs => closedOK f c g ∧ closedOKL f c gs
end

mutual
  theorem segSqs_normalize_aux (f : Coord → Pt) (c : Cfg) : ∀ (g : G), closedOK f c g → idemOK c g = true →
      (segSqs f (normalize c g)).Perm (segSqs f g)
    | .point s, _, _ => List.Perm.refl _
    | .circularString s, _, _ => List.Perm.refl _
    | .compoundCurve gs, _, _ => List.Perm.refl _
    | .curvePolygon gs, _, _ => List.Perm.refl _
    | .multiPoint gs, _, _ => List.Perm.refl _
    | .lineString s, hc, h => by
      simp only [idemOK] at h; simp only [closedOK] at hc
      simp only [normalize, segSqs, normLine]; exact normLinePts_segSq_of_ok hc h
    | .linearRing s, hc, h => by
      simp only [idemOK] at h; simp only [closedOK] at hc
      simp only [normalize, segSqs, normLine]; exact normLinePts_segSq_of_ok hc h
    | .polygon sh hs, hc, h => by
      simp only [idemOK, Bool.and_eq_true, List.all_eq_true] at h
      simp only [closedOK] at hc
      simp only [normalize, segSqs, normRing]
      refine List.Perm.append (normRingPts_segSq_of_ok hc.1 h.1) ?_
      refine (catBy_perm (sortDesc_perm _ _)).trans ?_
      rw [catBy_map]
      exact catBy_congr_mem hs (fun a ha => normRingPts_segSq_of_ok (hc.2 a ha) (h.2 a ha))
    | .multiLineString gs, hc, h => by
      simp only [idemOK] at h; simp only [closedOK] at hc
      simp only [normalize, segSqs, segSqsL_eq]
      refine (catBy_perm (sortDesc_perm _ _)).trans ?_
      rw [normalizeL_eq_map, catBy_map]; exact segSqsL_normalize f c gs hc h
    | .multiPolygon gs, hc, h => by
      simp only [idemOK] at h; simp only [closedOK] at hc
      simp only [normalize, segSqs, segSqsL_eq]
      refine (catBy_perm (sortDesc_perm _ _)).trans ?_
      rw [normalizeL_eq_map, catBy_map]; exact segSqsL_normalize f c gs hc h
    | .multiCurve gs, hc, h => by
      simp only [idemOK] at h; simp only [closedOK] at hc
      simp only [normalize, segSqs, segSqsL_eq]
      refine (catBy_perm (sortDesc_perm _ _)).trans ?_
      rw [normalizeL_eq_map, catBy_map]; exact segSqsL_normalize f c gs hc h
    | .multiSurface gs, hc, h => by
      simp only [idemOK] at h; simp only [closedOK] at hc
      simp only [normalize, segSqs, segSqsL_eq]
      refine (catBy_perm (sortDesc_perm _ _)).trans ?_
      rw [normalizeL_eq_map, catBy_map]; exact segSqsL_normalize f c gs hc h
    | .collection gs, hc, h => by
      simp only [idemOK] at h; simp only [closedOK] at hc
      simp only [normalize, segSqs, segSqsL_eq]
      refine (catBy_perm (sortDesc_perm _ _)).trans ?_
      rw [normalizeL_eq_map, catBy_map]; exact segSqsL_normalize f c gs hc h
  theorem segSqsL_normalize (f : Coord → Pt) (c : Cfg) : ∀ (gs : List G), closedOKL f c gs → idemOKL c gs = true →
      (catBy (fun a => segSqs f (normalize c a)) gs).Perm (catBy (segSqs f) gs)
    | [], _, _ => List.Perm.refl _
    | g :: gs, hc, hok => by
      simp only [idemOKL, Bool.and_eq_true] at hok
      simp only [closedOKL] at hc
      exact List.Perm.append (segSqs_normalize_aux f c g hc.1 hok.1) (segSqsL_normalize f c gs hc.2 hok.2)
end

end GeosModel.Norm
