import GeosModel.Proofs.Norm.Tree
/-!
`reverse ∘ reverse = id`, reflexivity of the equality predicates, and invariance of vertex count, element count and
dimension under `reverse` and `normalize`.
-/
set_option linter.unusedSimpArgs false
set_option linter.unusedVariables false
namespace GeosModel.Norm

/-! ### reverse ∘ reverse -/

theorem revSeq_revSeq (s : CSeq) : revSeq (revSeq s) = s := by
  cases s; simp [revSeq]

theorem reverseL_eq_map : ∀ gs, reverseL gs = gs.map reverse
  | [] => rfl
  | g :: gs => by simp [reverseL, reverseL_eq_map gs]

theorem reverseRevL_eq : ∀ (gs acc : List G), reverseRevL gs acc = (gs.map reverse).reverse ++ acc
  | [], acc => by simp [reverseRevL]
  | g :: gs, acc => by simp [reverseRevL, reverseRevL_eq gs]

mutual
  theorem reverse_reverse_aux : ∀ (g : G), reverse (reverse g) = g
    | .point s => rfl
    | .lineString s => by simp [reverse, revSeq_revSeq]
    | .linearRing s => by simp [reverse, revSeq_revSeq]
    | .circularString s => by simp [reverse, revSeq_revSeq]
    | .polygon sh hs => by
      simp only [reverse, revSeq_revSeq, List.map_map]
      congr 1
      exact map_id_of_fixed hs (fun a _ => revSeq_revSeq a)
    | .compoundCurve gs => by
      simp only [reverse, reverseRevL_eq, List.append_nil, List.map_reverse, List.reverse_reverse, List.map_map]
      congr 1
      have := reverseL_reverseL gs
      simp only [reverseL_eq_map, List.map_map] at this
      exact this
    | .curvePolygon gs => by simp only [reverse]; rw [reverseL_reverseL gs]
    | .multiPoint gs => rfl
    | .multiLineString gs => by simp only [reverse]; rw [reverseL_reverseL gs]
    | .multiPolygon gs => by simp only [reverse]; rw [reverseL_reverseL gs]
    | .multiCurve gs => by simp only [reverse]; rw [reverseL_reverseL gs]
    | .multiSurface gs => by simp only [reverse]; rw [reverseL_reverseL gs]
    | .collection gs => by simp only [reverse]; rw [reverseL_reverseL gs]
  theorem reverseL_reverseL : ∀ (gs : List G), reverseL (reverseL gs) = gs
    | [] => rfl
    | g :: gs => by simp only [reverseL]; rw [reverse_reverse_aux g, reverseL_reverseL gs]
end

/-! ### equality predicates are reflexive -/

theorem eqSeqsWith_refl {f : CSeq → CSeq → Bool} (hf : ∀ s, f s s = true) : ∀ l, eqSeqsWith f l l = true
  | [] => rfl
  | s :: r => by simp [eqSeqsWith, hf s, eqSeqsWith_refl hf r]

mutual
  theorem eqWith_refl {f : CSeq → CSeq → Bool} (hf : ∀ s, f s s = true) : ∀ (g : G), eqWith f g g = true
    | .point s => by simp [eqWith, hf]
    | .lineString s => by simp [eqWith, hf]
    | .linearRing s => by simp [eqWith, hf]
    | .circularString s => by simp [eqWith, hf]
    | .polygon sh hs => by simp [eqWith, hf, eqSeqsWith_refl hf]
    | .compoundCurve gs => by simp only [eqWith]; exact eqWithL_refl hf gs
    | .curvePolygon gs => by simp only [eqWith]; exact eqWithL_refl hf gs
    | .multiPoint gs => by simp only [eqWith]; exact eqWithL_refl hf gs
    | .multiLineString gs => by simp only [eqWith]; exact eqWithL_refl hf gs
    | .multiPolygon gs => by simp only [eqWith]; exact eqWithL_refl hf gs
    | .multiCurve gs => by simp only [eqWith]; exact eqWithL_refl hf gs
    | .multiSurface gs => by simp only [eqWith]; exact eqWithL_refl hf gs
    | .collection gs => by simp only [eqWith]; exact eqWithL_refl hf gs
  theorem eqWithL_refl {f : CSeq → CSeq → Bool} (hf : ∀ s, f s s = true) : ∀ (gs : List G), eqWithL f gs gs = true
    | [] => rfl
    | g :: gs => by simp only [eqWithL, Bool.and_eq_true]; exact ⟨eqWith_refl hf g, eqWithL_refl hf gs⟩
end

theorem eqSeqExact_refl (c : Cfg) (s : CSeq) : eqSeqExact c s s = true := by simp [eqSeqExact]

theorem eqOrdId_refl (d : IdCfg) (a : UInt64) : eqOrdId d a a = true := by
  unfold eqOrdId; cases d.isNaN a <;> simp

theorem eqPtsId_refl (d : IdCfg) : ∀ l, eqPtsId d l l = true
  | [] => rfl
  | a :: r => by simp [eqPtsId, eqCoordId, eqOrdId_refl, eqPtsId_refl d r]

theorem eqSeqId_refl (d : IdCfg) (s : CSeq) : eqSeqId d s s = true := by simp [eqSeqId, eqPtsId_refl]

/-! ### sums and maxima over sibling lists -/

def sumNat {α : Type} (f : α → Nat) : List α → Nat
  | [] => 0
  | a :: r => f a + sumNat f r

theorem sumNat_perm {α : Type} {f : α → Nat} {l₁ l₂ : List α} (h : l₁.Perm l₂) : sumNat f l₁ = sumNat f l₂ := by
  induction h with
  | nil => rfl
  | cons a _ ih => simp [sumNat, ih]
  | swap a b l => simp only [sumNat]; omega
  | trans _ _ ih1 ih2 => exact ih1.trans ih2

theorem sumNat_map {α β : Type} (f : β → Nat) (g : α → β) : ∀ l, sumNat f (l.map g) = sumNat (fun a => f (g a)) l
  | [] => rfl
  | a :: r => by simp [sumNat, sumNat_map f g r]

theorem sumNat_congr {α : Type} {f g : α → Nat} : ∀ (l : List α), (∀ a ∈ l, f a = g a) → sumNat f l = sumNat g l
  | [], _ => rfl
  | a :: r, h => by simp only [sumNat]; rw [h a (by simp), sumNat_congr r (fun x hx => h x (by simp [hx]))]

theorem sumNat_append {α : Type} (f : α → Nat) : ∀ (l₁ l₂ : List α), sumNat f (l₁ ++ l₂) = sumNat f l₁ + sumNat f l₂
  | [], l₂ => by simp [sumNat]
  | a :: r, l₂ => by simp only [List.cons_append, sumNat, sumNat_append f r l₂]; omega

def maxNat {α : Type} (f : α → Nat) : List α → Nat
  | [] => 0
  | a :: r => max (f a) (maxNat f r)

theorem maxNat_perm {α : Type} {f : α → Nat} {l₁ l₂ : List α} (h : l₁.Perm l₂) : maxNat f l₁ = maxNat f l₂ := by
  induction h with
  | nil => rfl
  | cons a _ ih => simp [maxNat, ih]
  | swap a b l => simp only [maxNat]; omega
  | trans _ _ ih1 ih2 => exact ih1.trans ih2

theorem maxNat_map {α β : Type} (f : β → Nat) (g : α → β) : ∀ l, maxNat f (l.map g) = maxNat (fun a => f (g a)) l
  | [] => rfl
  | a :: r => by simp [maxNat, maxNat_map f g r]

theorem maxNat_congr {α : Type} {f g : α → Nat} : ∀ (l : List α), (∀ a ∈ l, f a = g a) → maxNat f l = maxNat g l
  | [], _ => rfl
  | a :: r, h => by simp only [maxNat]; rw [h a (by simp), maxNat_congr r (fun x hx => h x (by simp [hx]))]

theorem numPointsL_eq : ∀ gs, numPointsL gs = sumNat numPoints gs
  | [] => rfl
  | g :: gs => by simp [numPointsL, sumNat, numPointsL_eq gs]

theorem sumSeqLen_eq : ∀ hs, sumSeqLen hs = sumNat (fun s : CSeq => s.pts.length) hs
  | [] => rfl
  | s :: r => by simp [sumSeqLen, sumNat, sumSeqLen_eq r]

theorem dimP1L_eq : ∀ gs, dimP1L gs = maxNat dimP1 gs
  | [] => rfl
  | g :: gs => by simp [dimP1L, maxNat, dimP1L_eq gs]

/-! ### reverse keeps counts and dimension -/

mutual
  theorem numPoints_reverse_aux : ∀ (g : G), numPoints (reverse g) = numPoints g
    | .point s => rfl
    | .lineString s => by simp [reverse, numPoints, revSeq]
    | .linearRing s => by simp [reverse, numPoints, revSeq]
    | .circularString s => by simp [reverse, numPoints, revSeq]
    | .polygon sh hs => by
      simp only [reverse, numPoints, sumSeqLen_eq, sumNat_map, revSeq, List.length_reverse]
    | .compoundCurve gs => by
      simp only [reverse, numPoints, reverseRevL_eq, List.append_nil, numPointsL_eq]
      rw [sumNat_perm (List.reverse_perm _), sumNat_map]
      exact numPointsL_reverse_sum gs
    | .curvePolygon gs => by
      simp only [reverse, numPoints, numPointsL_eq, reverseL_eq_map, sumNat_map]
      exact numPointsL_reverse_sum gs
    | .multiPoint gs => rfl
    | .multiLineString gs => by
      simp only [reverse, numPoints, numPointsL_eq, reverseL_eq_map, sumNat_map]
      exact numPointsL_reverse_sum gs
    | .multiPolygon gs => by
      simp only [reverse, numPoints, numPointsL_eq, reverseL_eq_map, sumNat_map]
      exact numPointsL_reverse_sum gs
    | .multiCurve gs => by
      simp only [reverse, numPoints, numPointsL_eq, reverseL_eq_map, sumNat_map]
      exact numPointsL_reverse_sum gs
    | .multiSurface gs => by
      simp only [reverse, numPoints, numPointsL_eq, reverseL_eq_map, sumNat_map]
      exact numPointsL_reverse_sum gs
    | .collection gs => by
      simp only [reverse, numPoints, numPointsL_eq, reverseL_eq_map, sumNat_map]
      exact numPointsL_reverse_sum gs
  theorem numPointsL_reverse_sum : ∀ (gs : List G), sumNat (fun a => numPoints (reverse a)) gs = sumNat numPoints gs
    | [] => rfl
    | g :: gs => by simp only [sumNat]; rw [numPoints_reverse_aux g, numPointsL_reverse_sum gs]
end

theorem numGeoms_reverse_aux (g : G) : numGeoms (reverse g) = numGeoms g := by
  cases g <;> simp [reverse, numGeoms, reverseL_eq_map]

mutual
  theorem dimP1_reverse_aux : ∀ (g : G), dimP1 (reverse g) = dimP1 g
    | .point s => rfl
    | .lineString s => rfl
    | .linearRing s => rfl
    | .circularString s => rfl
    | .polygon sh hs => rfl
    | .compoundCurve gs => rfl
    | .curvePolygon gs => rfl
    | .multiPoint gs => rfl
    | .multiLineString gs => rfl
    | .multiPolygon gs => rfl
    | .multiCurve gs => rfl
    | .multiSurface gs => rfl
    | .collection gs => by
      simp only [reverse, dimP1, dimP1L_eq, reverseL_eq_map, maxNat_map]
      exact dimP1L_reverse_max gs
  theorem dimP1L_reverse_max : ∀ (gs : List G), maxNat (fun a => dimP1 (reverse a)) gs = maxNat dimP1 gs
    | [] => rfl
    | g :: gs => by simp only [maxNat]; rw [dimP1_reverse_aux g, dimP1L_reverse_max gs]
end

/-! ### normalize keeps element count and dimension (always) -/

theorem numGeoms_normalize_aux (c : Cfg) (g : G) : numGeoms (normalize c g) = numGeoms g := by
  cases g <;> simp [normalize, numGeoms, sortDesc_length, normalizeL_eq_map]

theorem numHoles_normalize_aux (c : Cfg) (g : G) : numHoles (normalize c g) = numHoles g := by
  cases g <;> simp [normalize, numHoles, sortDesc_length]

mutual
  theorem dimP1_normalize_aux (c : Cfg) : ∀ (g : G), dimP1 (normalize c g) = dimP1 g
    | .point s => rfl
    | .lineString s => rfl
    | .linearRing s => rfl
    | .circularString s => rfl
    | .polygon sh hs => rfl
    | .compoundCurve gs => rfl
    | .curvePolygon gs => rfl
    | .multiPoint gs => rfl
    | .multiLineString gs => rfl
    | .multiPolygon gs => rfl
    | .multiCurve gs => rfl
    | .multiSurface gs => rfl
    | .collection gs => by
      simp only [normalize, dimP1, dimP1L_eq]
      rw [maxNat_perm (sortDesc_perm _ _), normalizeL_eq_map, maxNat_map]
      exact dimP1L_normalize_max c gs
  theorem dimP1L_normalize_max (c : Cfg) : ∀ (gs : List G), maxNat (fun a => dimP1 (normalize c a)) gs = maxNat dimP1 gs
    | [] => rfl
    | g :: gs => by simp only [maxNat]; rw [dimP1_normalize_aux c g, dimP1L_normalize_max c gs]
end

/-! ### normalize keeps the vertex count under the idempotence hypothesis -/

theorem orientRing_length (c : Cfg) (cw : Bool) (R : List Coord) : (orientRing c cw R).length = R.length := by
  unfold orientRing; split <;> simp

theorem normRingPts_length_of_ok {c : Cfg} {cw : Bool} {l : List Coord} (h : ringIdemOK c cw l = true) :
    (normRingPts c cw l).length = l.length := by
  unfold ringIdemOK at h
  cases l with
  | nil => simp [normRingPts]
  | cons a t =>
    simp only [List.isEmpty_cons, Bool.false_or, Bool.and_eq_true, beq_iff_eq, decide_eq_true_eq] at h
    obtain ⟨⟨hcnt, hlen⟩, _⟩ := h
    obtain ⟨o, z, pre, m, post, hl, hu, hne, hR⟩ := ring_unpack (l := a :: t) (by simp) hcnt hlen
    rw [hl, normRingPts_unique z hu hne, orientRing_length, hu.eq]
    simp only [List.length_append, List.length_cons, List.length_nil]; omega

theorem orientClosed_length (c : Cfg) (R : List Coord) : (orientClosed c R).length = R.length := by
  unfold orientClosed; split <;> simp

theorem normLinePts_length_of_ok {c : Cfg} {l : List Coord} (h : lineIdemOK c l = true) :
    (normLinePts c l).length = l.length := by
  by_cases hne : l = []
  · subst hne; simp [normLinePts]
  · cases hc : isClosedPts c l with
    | false =>
      obtain ⟨a, mid, b, hl, hab⟩ := open_shape l hne hc
      rw [hl, normLinePts_open c a b mid hab]; split <;> simp
    | true =>
      unfold lineIdemOK at h
      have hemp : l.isEmpty = false := isEmpty_false_of_ne hne
      simp only [hemp, hc, Bool.false_or, Bool.not_true, Bool.and_eq_true, decide_eq_true_eq] at h
      have hlen := h.1
      have hl : l = l.dropLast ++ [l.getLast hne] := (List.dropLast_concat_getLast hne).symm
      have hone : l.dropLast ≠ [] := by
        intro e
        have : l.length = 1 := by rw [hl, e]; simp
        omega
      obtain ⟨pre, m, post, hf⟩ := exists_firstMin c l.dropLast hone
      have hR : closedScrolled c l = m :: (post ++ pre) ++ [m] := by rw [hl]; exact closedScrolled_firstMin _ hf
      rw [normLinePts_closed hne hc, orientClosed_length, hR]
      have : l.length = l.dropLast.length + 1 := by
        have := congrArg List.length hl; simpa using this
      rw [this, hf.eq]
      simp only [List.length_append, List.length_cons, List.length_nil]; omega

mutual
  theorem numPoints_normalize_aux (c : Cfg) : ∀ (g : G), idemOK c g = true → numPoints (normalize c g) = numPoints g
    | .point s, _ => rfl
    | .circularString s, _ => rfl
    | .compoundCurve gs, _ => rfl
    | .curvePolygon gs, _ => rfl
    | .lineString s, h => by
      simp only [idemOK] at h
      simp only [normalize, numPoints, normLine]; exact normLinePts_length_of_ok h
    | .linearRing s, h => by
      simp only [idemOK] at h
      simp only [normalize, numPoints, normLine]; exact normLinePts_length_of_ok h
    | .polygon sh hs, h => by
      simp only [idemOK, Bool.and_eq_true, List.all_eq_true] at h
      simp only [normalize, numPoints, normRing, sumSeqLen_eq]
      rw [normRingPts_length_of_ok h.1, sumNat_perm (sortDesc_perm _ _), sumNat_map]
      congr 1
      exact sumNat_congr hs (fun a ha => normRingPts_length_of_ok (h.2 a ha))
    | .multiPoint gs, h => by
      simp only [idemOK] at h
      simp only [normalize, numPoints, numPointsL_eq]
      rw [sumNat_perm (sortDesc_perm _ _), normalizeL_eq_map, sumNat_map]
      exact numPointsL_normalize_sum c gs h
    | .multiLineString gs, h => by
      simp only [idemOK] at h
      simp only [normalize, numPoints, numPointsL_eq]
      rw [sumNat_perm (sortDesc_perm _ _), normalizeL_eq_map, sumNat_map]
      exact numPointsL_normalize_sum c gs h
    | .multiPolygon gs, h => by
      simp only [idemOK] at h
      simp only [normalize, numPoints, numPointsL_eq]
      rw [sumNat_perm (sortDesc_perm _ _), normalizeL_eq_map, sumNat_map]
      exact numPointsL_normalize_sum c gs h
    | .multiCurve gs, h => by
      simp only [idemOK] at h
      simp only [normalize, numPoints, numPointsL_eq]
      rw [sumNat_perm (sortDesc_perm _ _), normalizeL_eq_map, sumNat_map]
      exact numPointsL_normalize_sum c gs h
    | .multiSurface gs, h => by
      simp only [idemOK] at h
      simp only [normalize, numPoints, numPointsL_eq]
      rw [sumNat_perm (sortDesc_perm _ _), normalizeL_eq_map, sumNat_map]
      exact numPointsL_normalize_sum c gs h
    | .collection gs, h => by
      simp only [idemOK] at h
      simp only [normalize, numPoints, numPointsL_eq]
      rw [sumNat_perm (sortDesc_perm _ _), normalizeL_eq_map, sumNat_map]
      exact numPointsL_normalize_sum c gs h
  theorem numPointsL_normalize_sum (c : Cfg) : ∀ (gs : List G), idemOKL c gs = true →
      sumNat (fun a => numPoints (normalize c a)) gs = sumNat numPoints gs
    | [], _ => rfl
    | g :: gs, hok => by
      simp only [idemOKL, Bool.and_eq_true] at hok
      simp only [sumNat]; rw [numPoints_normalize_aux c g hok.1, numPointsL_normalize_sum c gs hok.2]
end

end GeosModel.Norm
