import GeosModel.Proofs.Norm.Line
/-!
Tree-level statements: the variant relation ("differ only by ring start, ring direction or element order"),
the hypotheses, idempotence and canonicity of `normalize` on `G`.
-/
set_option linter.unusedSimpArgs false
set_option linter.unusedVariables false
namespace GeosModel.Norm

/-! ### from the Bool hypotheses to the structural ones -/

theorem isEmpty_false_of_ne {α : Type} {l : List α} (h : l ≠ []) : l.isEmpty = false := by
  cases l with
  | nil => exact absurd rfl h
  | cons _ _ => rfl

theorem ringScrolled_eq (c : Cfg) (l : List Coord) : ringScrolled c l = closedScrolled c l := rfl

/-- what a non-empty ring satisfying the counting part of the hypotheses looks like -/
theorem ring_unpack {c : Cfg} {l : List Coord} (hne : l ≠ [])
    (hcnt : minCount c l.dropLast = 1) (hlen : 2 ≤ l.dropLast.length) :
    ∃ o z pre m post, l = o ++ [z] ∧ UniqueMin c o pre m post ∧ pre ++ post ≠ [] ∧
      ringScrolled c l = m :: (post ++ pre) ++ [m] := by
  have hl : l = l.dropLast ++ [l.getLast hne] := (List.dropLast_concat_getLast hne).symm
  obtain ⟨pre, m, post, hu⟩ := uniqueMin_of_minCount hcnt
  refine ⟨l.dropLast, l.getLast hne, pre, m, post, hl, hu, ?_, ?_⟩
  · intro e
    simp only [List.append_eq_nil_iff] at e
    have : l.dropLast.length = 1 := by rw [hu.eq, e.1, e.2]; rfl
    omega
  · rw [ringScrolled_eq, hl]; exact closedScrolled_firstMin _ hu.firstMin

theorem normRingPts_idem_of_ok {c : Cfg} {cw : Bool} {l : List Coord} (h : ringIdemOK c cw l = true) :
    normRingPts c cw (normRingPts c cw l) = normRingPts c cw l := by
  unfold ringIdemOK at h
  cases l with
  | nil => simp [normRingPts]
  | cons a t =>
    simp only [List.isEmpty_cons, Bool.false_or, Bool.and_eq_true, beq_iff_eq, decide_eq_true_eq,
      Bool.not_eq_true', Bool.and_eq_false_iff] at h
    obtain ⟨⟨hcnt, hlen⟩, hor⟩ := h
    obtain ⟨o, z, pre, m, post, hl, hu, hne, hR⟩ := ring_unpack (l := a :: t) (by simp) hcnt hlen
    rw [hl]
    apply normRingPts_idem_pts z hu hne
    rw [← hR]
    intro ⟨h1, h2⟩
    rcases hor with hor | hor
    · rw [h1] at hor; simp at hor
    · rw [h2] at hor; simp at hor

def OpenVar (o o' : List Coord) : Prop := ∃ k, o' = rot k o ∨ o' = rot k o.reverse

/-- two closed rings differ only by ring start and/or ring direction (the closing points are irrelevant:
normalisation drops them and re-closes with a copy of the new first point) -/
def RingPtsVar (l l' : List Coord) : Prop :=
  (l = [] ∧ l' = []) ∨ ∃ o z o' z', l = o ++ [z] ∧ l' = o' ++ [z'] ∧ OpenVar o o'

def RingVar (s t : CSeq) : Prop := s.hasZ = t.hasZ ∧ s.hasM = t.hasM ∧ RingPtsVar s.pts t.pts

theorem append_singleton_inj {α : Type} {o o' : List α} {z z' : α} (h : o ++ [z] = o' ++ [z']) : o = o' ∧ z = z' := by
  have := List.append_inj' h rfl
  exact ⟨this.1, by simpa using this.2⟩

theorem normRingPts_variant_of_ok {c : Cfg} {cw : Bool} {l l' : List Coord} (hv : RingPtsVar l l')
    (h : ringCanonOK c l = true) : normRingPts c cw l' = normRingPts c cw l := by
  rcases hv with ⟨h1, h2⟩ | ⟨o, z, o', z', hl, hl', hov⟩
  · rw [h1, h2]
  · unfold ringCanonOK at h
    have hne : l ≠ [] := by rw [hl]; simp
    have hemp : l.isEmpty = false := isEmpty_false_of_ne hne
    simp only [hemp, Bool.false_or, Bool.and_eq_true, beq_iff_eq, decide_eq_true_eq] at h
    obtain ⟨⟨hcnt, hlen⟩, hdec⟩ := h
    obtain ⟨o₁, z₁, pre, m, post, hl₁, hu, hne', hR⟩ := ring_unpack hne hcnt hlen
    have := append_singleton_inj (hl.symm.trans hl₁)
    obtain ⟨rfl, rfl⟩ := this
    rw [hl, hl']
    apply normRingPts_variant z z' hu hne' _ hov
    rw [← hR]; exact hdec

theorem normRing_variant_of_ok {c : Cfg} {cw : Bool} {s t : CSeq} (hv : RingVar s t)
    (h : ringCanonOK c s.pts = true) : normRing c cw t = normRing c cw s := by
  obtain ⟨hz, hm, hp⟩ := hv
  unfold normRing
  rw [normRingPts_variant_of_ok hp h]
  cases s; cases t; simp_all

/-! ### lines -/

theorem normLinePts_idem_of_ok {c : Cfg} {l : List Coord} (h : lineIdemOK c l = true) :
    normLinePts c (normLinePts c l) = normLinePts c l := by
  by_cases hne : l = []
  · subst hne; simp [normLinePts]
  · cases hc : isClosedPts c l with
    | false =>
      obtain ⟨a, mid, b, hl, hab⟩ := open_shape l hne hc
      rw [hl]; exact normLinePts_open_idem c a b mid hab
    | true =>
      unfold lineIdemOK at h
      have hemp : l.isEmpty = false := isEmpty_false_of_ne hne
      simp only [hemp, hc, Bool.false_or, Bool.not_true, Bool.and_eq_true, decide_eq_true_eq,
        Bool.not_eq_true', Bool.and_eq_false_iff, decide_eq_false_iff_not] at h
      obtain ⟨hlen, hor⟩ := h
      apply normLinePts_closed_idem hne hc hlen
      rw [← ringScrolled_eq]
      intro ⟨h1, h2, h3⟩
      rcases hor with (hor | hor) | hor
      · exact hor h1
      · rw [h2] at hor; cases hor
      · rw [h3] at hor; cases hor

/-- lines: identical, reversed (open lines), or — for closed lines — rotated and/or reversed -/
def LinePtsVar (c : Cfg) (l l' : List Coord) : Prop :=
  l' = l ∨ (isClosedPts c l = false ∧ l' = l.reverse) ∨
  (isClosedPts c l = true ∧ isClosedPts c l' = true ∧
    ∃ o z o' z', l = o ++ [z] ∧ l' = o' ++ [z'] ∧ OpenVar o o')

def LineVar (c : Cfg) (s t : CSeq) : Prop := s.hasZ = t.hasZ ∧ s.hasM = t.hasM ∧ LinePtsVar c s.pts t.pts

theorem normLinePts_variant_of_ok {c : Cfg} {l l' : List Coord} (hv : LinePtsVar c l l')
    (h : lineCanonOK c l = true) : normLinePts c l' = normLinePts c l := by
  rcases hv with rfl | ⟨hc, rfl⟩ | ⟨hc, hc', o, z, o', z', hl, hl', hov⟩
  · rfl
  · by_cases hne : l = []
    · subst hne; rfl
    · obtain ⟨a, mid, b, hl, hab⟩ := open_shape l hne hc
      rw [hl]; exact normLinePts_open_reverse c a b mid hab
  · unfold lineCanonOK at h
    have hne : l ≠ [] := by rw [hl]; simp
    have hemp : l.isEmpty = false := isEmpty_false_of_ne hne
    simp only [hemp, hc, Bool.false_or, Bool.not_true, Bool.and_eq_true, beq_iff_eq, decide_eq_true_eq] at h
    obtain ⟨⟨hcnt, hlen⟩, hdec⟩ := h
    have hl₁ : l = l.dropLast ++ [l.getLast hne] := (List.dropLast_concat_getLast hne).symm
    obtain ⟨pre, m, post, hu⟩ := uniqueMin_of_minCount hcnt
    have := append_singleton_inj (hl.symm.trans hl₁)
    obtain ⟨rfl, rfl⟩ := this
    have hR : ringScrolled c l = m :: (post ++ pre) ++ [m] := by
      rw [ringScrolled_eq, hl]; exact closedScrolled_firstMin _ hu.firstMin
    rw [hl'] at hc' ⊢
    rw [hl] at hc ⊢
    apply normLinePts_closed_variant _ z' hu hc hc' _ _ hov
    · rw [← hR]; exact hlen
    · rw [← hR]; exact hdec

theorem normLine_variant_of_ok {c : Cfg} {s t : CSeq} (hv : LineVar c s t)
    (h : lineCanonOK c s.pts = true) : normLine c t = normLine c s := by
  obtain ⟨hz, hm, hp⟩ := hv
  unfold normLine
  rw [normLinePts_variant_of_ok hp h]
  cases s; cases t; simp_all

/-! ### the tree -/

theorem normalizeL_eq_map (c : Cfg) : ∀ gs, normalizeL c gs = gs.map (normalize c)
  | [] => rfl
  | g :: gs => by simp [normalizeL, normalizeL_eq_map c gs]

/-- a (normalised) sibling list in which `compareTo`-equal elements are the same value -/
def TiesIdentical {α : Type} (cmp : α → α → Int) (l : List α) : Prop := ∀ a ∈ l, ∀ b ∈ l, cmp a b = 0 → a = b

/-- sorting after normalising each element is idempotent when every element is a fixed point -/
theorem sort_norm_idem {α : Type} {cmp : α → α → Int} (ok : CmpOK cmp) (f : α → α) (L : List α)
    (hfix : ∀ e ∈ L, f e = e) : sortDesc cmp ((sortDesc cmp L).map f) = sortDesc cmp L := by
  rw [map_id_of_fixed _ (fun a ha => hfix a ((mem_sortDesc cmp).mp ha)), sortDesc_idem ok]

mutual
  theorem normalize_idem_aux (c : Cfg) : ∀ (g : G), idemOK c g = true → normalize c (normalize c g) = normalize c g
    | .point s, _ => rfl
    | .circularString s, _ => rfl
    | .compoundCurve gs, _ => rfl
    | .curvePolygon gs, _ => rfl
    | .lineString s, h => by
      simp only [idemOK] at h
      simp only [normalize, normLine]; rw [normLinePts_idem_of_ok h]
    | .linearRing s, h => by
      simp only [idemOK] at h
      simp only [normalize, normLine]; rw [normLinePts_idem_of_ok h]
    | .polygon sh hs, h => by
      simp only [idemOK, Bool.and_eq_true, List.all_eq_true] at h
      simp only [normalize]
      congr 1
      · simp only [normRing]; rw [normRingPts_idem_of_ok h.1]
      · apply sort_norm_idem (cmpRingSeq_ok c)
        intro e he
        obtain ⟨r, hr, rfl⟩ := List.mem_map.mp he
        simp only [normRing]; rw [normRingPts_idem_of_ok (h.2 r hr)]
    | .multiPoint gs, h => by
      simp only [idemOK] at h
      simp only [normalize, normalizeL_eq_map]
      rw [sort_norm_idem (cmpG_ok c)]
      intro e he; rw [← normalizeL_eq_map] at he; exact normalizeL_fixed c gs h e he
    | .multiLineString gs, h => by
      simp only [idemOK] at h
      simp only [normalize, normalizeL_eq_map]
      rw [sort_norm_idem (cmpG_ok c)]
      intro e he; rw [← normalizeL_eq_map] at he; exact normalizeL_fixed c gs h e he
    | .multiPolygon gs, h => by
      simp only [idemOK] at h
      simp only [normalize, normalizeL_eq_map]
      rw [sort_norm_idem (cmpG_ok c)]
      intro e he; rw [← normalizeL_eq_map] at he; exact normalizeL_fixed c gs h e he
    | .multiCurve gs, h => by
      simp only [idemOK] at h
      simp only [normalize, normalizeL_eq_map]
      rw [sort_norm_idem (cmpG_ok c)]
      intro e he; rw [← normalizeL_eq_map] at he; exact normalizeL_fixed c gs h e he
    | .multiSurface gs, h => by
      simp only [idemOK] at h
      simp only [normalize, normalizeL_eq_map]
      rw [sort_norm_idem (cmpG_ok c)]
      intro e he; rw [← normalizeL_eq_map] at he; exact normalizeL_fixed c gs h e he
    | .collection gs, h => by
      simp only [idemOK] at h
      simp only [normalize, normalizeL_eq_map]
      rw [sort_norm_idem (cmpG_ok c)]
      intro e he; rw [← normalizeL_eq_map] at he; exact normalizeL_fixed c gs h e he
  theorem normalizeL_fixed (c : Cfg) : ∀ (gs : List G), idemOKL c gs = true → ∀ e ∈ normalizeL c gs, normalize c e = e
    | [], _, e, he => by simp [normalizeL] at he
    | g :: gs, h, e, he => by
      simp only [idemOKL, Bool.and_eq_true] at h
      simp only [normalizeL, List.mem_cons] at he
      rcases he with rfl | he
      · exact normalize_idem_aux c g h.1
      · exact normalizeL_fixed c gs h.2 e he
end

/-! ### variants -/

def RingsVar : List CSeq → List CSeq → Prop
  | [], [] => True
  | a :: as, b :: bs => RingVar a b ∧ RingsVar as bs
  | _, _ => False

mutual
  /-- `h` differs from `g` only by ring start, ring direction, line direction or element order (at any depth) -/
  def Variant (c : Cfg) : G → G → Prop
    | .point s, h => h = .point s
    | .lineString s, h => ∃ t, h = .lineString t ∧ LineVar c s t
    | .linearRing s, h => ∃ t, h = .linearRing t ∧ LineVar c s t
    | .circularString s, h => h = .circularString s
    | .polygon sh hs, h => ∃ sh' hs' hs'', h = .polygon sh' hs'' ∧ RingVar sh sh' ∧ RingsVar hs hs' ∧ hs'.Perm hs''
    | .compoundCurve gs, h => h = .compoundCurve gs
    | .curvePolygon gs, h => h = .curvePolygon gs
    | .multiPoint gs, h => ∃ gs' gs'', h = .multiPoint gs'' ∧ VariantL c gs gs' ∧ gs'.Perm gs''
    | .multiLineString gs, h => ∃ gs' gs'', h = .multiLineString gs'' ∧ VariantL c gs gs' ∧ gs'.Perm gs''
    | .multiPolygon gs, h => ∃ gs' gs'', h = .multiPolygon gs'' ∧ VariantL c gs gs' ∧ gs'.Perm gs''
    | .multiCurve gs, h => ∃ gs' gs'', h = .multiCurve gs'' ∧ VariantL c gs gs' ∧ gs'.Perm gs''
    | .multiSurface gs, h => ∃ gs' gs'', h = .multiSurface gs'' ∧ VariantL c gs gs' ∧ gs'.Perm gs''
    | .collection gs, h => ∃ gs' gs'', h = .collection gs'' ∧ VariantL c gs gs' ∧ gs'.Perm gs''
  def VariantL (c : Cfg) : List G → List G → Prop
    | [], hs => hs = []
    | g :: gs, hs => ∃ h hs', hs = h :: hs' ∧ Variant c g h ∧ VariantL c gs hs'
end

mutual
  /-- hypothesis of `normalize_canonical_partial` -/
  def CanonOK (c : Cfg) : G → Prop
    | .polygon sh hs => ringCanonOK c sh.pts = true ∧ (∀ h ∈ hs, ringCanonOK c h.pts = true) ∧
        TiesIdentical (cmpRingSeq c) (hs.map (normRing c false))
    | .lineString s => lineCanonOK c s.pts = true
    | .linearRing s => lineCanonOK c s.pts = true
    | .multiPoint gs => CanonOKL c gs ∧ TiesIdentical (cmpG c) (normalizeL c gs)
    | .multiLineString gs => CanonOKL c gs ∧ TiesIdentical (cmpG c) (normalizeL c gs)
    | .multiPolygon gs => CanonOKL c gs ∧ TiesIdentical (cmpG c) (normalizeL c gs)
    | .multiCurve gs => CanonOKL c gs ∧ TiesIdentical (cmpG c) (normalizeL c gs)
    | .multiSurface gs => CanonOKL c gs ∧ TiesIdentical (cmpG c) (normalizeL c gs)
    | .collection gs => CanonOKL c gs ∧ TiesIdentical (cmpG c) (normalizeL c gs)
    | .point _ => True
    | .circularString _ => True
    | .compoundCurve _ => True
    | .curvePolygon _ => True
  def CanonOKL (c : Cfg) : List G → Prop
    | [] => True
    | g :: gs => CanonOK c g ∧ CanonOKL c gs
end

theorem rings_variant_map {c : Cfg} : ∀ (hs hs' : List CSeq), RingsVar hs hs' →
    (∀ h ∈ hs, ringCanonOK c h.pts = true) → hs'.map (normRing c false) = hs.map (normRing c false)
  | [], [], _, _ => rfl
  | [], _ :: _, h, _ => by simp [RingsVar] at h
  | _ :: _, [], h, _ => by simp [RingsVar] at h
  | a :: as, b :: bs, h, hok => by
    simp only [RingsVar] at h
    simp only [List.map]
    rw [normRing_variant_of_ok h.1 (hok a (by simp)), rings_variant_map as bs h.2 (fun x hx => hok x (by simp [hx]))]

theorem sort_variant {α : Type} {cmp : α → α → Int} (ok : CmpOK cmp) (f : α → α) {L L' L'' : List α}
    (heq : L'.map f = L.map f) (hp : L'.Perm L'') (ht : TiesIdentical cmp (L.map f)) :
    sortDesc cmp (L''.map f) = sortDesc cmp (L.map f) := by
  symm
  apply sortDesc_perm_eq ok _ (fun a b ha hb => ht a ha b hb)
  rw [← heq]; exact hp.map f

mutual
  theorem normalize_variant_aux (c : Cfg) : ∀ (g h : G), Variant c g h → CanonOK c g → normalize c h = normalize c g
    | .point s, h, hv, _ => by simp only [Variant] at hv; rw [hv]
    | .circularString s, h, hv, _ => by simp only [Variant] at hv; rw [hv]
    | .compoundCurve gs, h, hv, _ => by simp only [Variant] at hv; rw [hv]
    | .curvePolygon gs, h, hv, _ => by simp only [Variant] at hv; rw [hv]
    | .lineString s, h, hv, ok => by
      simp only [Variant] at hv; obtain ⟨t, rfl, hl⟩ := hv
      simp only [CanonOK] at ok
      simp only [normalize]; rw [normLine_variant_of_ok hl ok]
    | .linearRing s, h, hv, ok => by
      simp only [Variant] at hv; obtain ⟨t, rfl, hl⟩ := hv
      simp only [CanonOK] at ok
      simp only [normalize]; rw [normLine_variant_of_ok hl ok]
    | .polygon sh hs, h, hv, ok => by
      simp only [Variant] at hv; obtain ⟨sh', hs', hs'', rfl, hsv, hrv, hp⟩ := hv
      simp only [CanonOK] at ok
      simp only [normalize]
      rw [normRing_variant_of_ok hsv ok.1,
        sort_variant (cmpRingSeq_ok c) (normRing c false) (rings_variant_map hs hs' hrv ok.2.1) hp ok.2.2]
    | .multiPoint gs, h, hv, ok => by
      simp only [Variant] at hv; obtain ⟨gs', gs'', rfl, hl, hp⟩ := hv
      simp only [CanonOK] at ok
      have := normalizeL_variant c gs gs' hl ok.1
      simp only [normalize, normalizeL_eq_map] at this ok ⊢
      rw [sort_variant (cmpG_ok c) (normalize c) this hp ok.2]
    | .multiLineString gs, h, hv, ok => by
      simp only [Variant] at hv; obtain ⟨gs', gs'', rfl, hl, hp⟩ := hv
      simp only [CanonOK] at ok
      have := normalizeL_variant c gs gs' hl ok.1
      simp only [normalize, normalizeL_eq_map] at this ok ⊢
      rw [sort_variant (cmpG_ok c) (normalize c) this hp ok.2]
    | .multiPolygon gs, h, hv, ok => by
      simp only [Variant] at hv; obtain ⟨gs', gs'', rfl, hl, hp⟩ := hv
      simp only [CanonOK] at ok
      have := normalizeL_variant c gs gs' hl ok.1
      simp only [normalize, normalizeL_eq_map] at this ok ⊢
      rw [sort_variant (cmpG_ok c) (normalize c) this hp ok.2]
    | .multiCurve gs, h, hv, ok => by
      simp only [Variant] at hv; obtain ⟨gs', gs'', rfl, hl, hp⟩ := hv
      simp only [CanonOK] at ok
      have := normalizeL_variant c gs gs' hl ok.1
      simp only [normalize, normalizeL_eq_map] at this ok ⊢
      rw [sort_variant (cmpG_ok c) (normalize c) this hp ok.2]
    | .multiSurface gs, h, hv, ok => by
      simp only [Variant] at hv; obtain ⟨gs', gs'', rfl, hl, hp⟩ := hv
      simp only [CanonOK] at ok
      have := normalizeL_variant c gs gs' hl ok.1
      simp only [normalize, normalizeL_eq_map] at this ok ⊢
      rw [sort_variant (cmpG_ok c) (normalize c) this hp ok.2]
    | .collection gs, h, hv, ok => by
      simp only [Variant] at hv; obtain ⟨gs', gs'', rfl, hl, hp⟩ := hv
      simp only [CanonOK] at ok
      have := normalizeL_variant c gs gs' hl ok.1
      simp only [normalize, normalizeL_eq_map] at this ok ⊢
      rw [sort_variant (cmpG_ok c) (normalize c) this hp ok.2]
  theorem normalizeL_variant (c : Cfg) : ∀ (gs hs : List G), VariantL c gs hs → CanonOKL c gs →
      normalizeL c hs = normalizeL c gs
    | [], hs, hv, _ => by simp only [VariantL] at hv; rw [hv]
    | g :: gs, hs, hv, ok => by
      simp only [VariantL] at hv; obtain ⟨h, hs', rfl, hv1, hv2⟩ := hv
      simp only [CanonOKL] at ok
      simp only [normalizeL]
      rw [normalize_variant_aux c g h hv1 ok.1, normalizeL_variant c gs hs' hv2 ok.2]
end

end GeosModel.Norm
