import GeosModel.Model.Norm.Normalize
/-!
The modelled `compareTo` is a total preorder ("weak order") at every level:
`cmp b a = - cmp a b` and the triple law `Tr (cmp a b) (cmp b c) (cmp a c)`.
-/
set_option linter.unusedSimpArgs false
set_option linter.unusedVariables false
namespace GeosModel.Norm

/-- the weak-order law on the three comparison results of a triple `a, b, c` -/
def Tr (x y z : Int) : Prop :=
  (x = 0 → z = y) ∧ (y = 0 → z = x) ∧ (x < 0 → y < 0 → z < 0) ∧ (0 < x → 0 < y → 0 < z)

/-- a comparison function that is antisymmetric and satisfies the triple law -/
structure CmpOK {α : Type} (cmp : α → α → Int) : Prop where
  antisymm : ∀ a b, cmp b a = - cmp a b
  tr : ∀ a b c, Tr (cmp a b) (cmp b c) (cmp a c)

theorem CmpOK.refl {α : Type} {cmp : α → α → Int} (h : CmpOK cmp) (a : α) : cmp a a = 0 := by
  have := h.antisymm a a; omega

theorem CmpOK.ge_trans {α : Type} {cmp : α → α → Int} (h : CmpOK cmp) {a b c : α}
    (h1 : cmp a b ≥ 0) (h2 : cmp b c ≥ 0) : cmp a c ≥ 0 := by
  have := h.tr a b c; unfold Tr at this; omega

theorem Tr.combine {x1 y1 z1 x2 y2 z2 : Int} (h1 : Tr x1 y1 z1) (h2 : Tr x2 y2 z2) :
    Tr (lex x1 x2) (lex y1 y2) (lex z1 z2) := by
  unfold Tr at *; unfold lex
  split <;> split <;> split <;> omega

theorem lex_neg (p q : Int) : lex (-p) (-q) = - lex p q := by
  unfold lex; split <;> split <;> omega

theorem cmpInt_antisymm (a b : Int) : cmpInt b a = - cmpInt a b := by
  unfold cmpInt; split <;> split <;> (try split) <;> omega

theorem cmpInt_tr (a b c : Int) : Tr (cmpInt a b) (cmpInt b c) (cmpInt a c) := by
  unfold Tr cmpInt
  split <;> split <;> split <;> (try split) <;> (try split) <;> (try split) <;> omega

theorem cmpInt_eq_zero {a b : Int} : cmpInt a b = 0 ↔ a = b := by
  unfold cmpInt; split <;> (try split) <;> omega

theorem lex_eq_zero {p q : Int} : lex p q = 0 ↔ p = 0 ∧ q = 0 := by
  unfold lex; split <;> omega

theorem cmpPt_antisymm (a b : KP) : cmpPt b a = - cmpPt a b := by
  unfold cmpPt; rw [cmpInt_antisymm a.1 b.1, cmpInt_antisymm a.2 b.2, lex_neg]

theorem cmpPt_tr (a b c : KP) : Tr (cmpPt a b) (cmpPt b c) (cmpPt a c) :=
  Tr.combine (cmpInt_tr _ _ _) (cmpInt_tr _ _ _)

theorem cmpPt_eq_zero {a b : KP} : cmpPt a b = 0 ↔ a = b := by
  unfold cmpPt; rw [lex_eq_zero, cmpInt_eq_zero, cmpInt_eq_zero]
  constructor
  · intro ⟨h1, h2⟩; exact Prod.ext h1 h2
  · intro h; subst h; exact ⟨rfl, rfl⟩

theorem cmpPt_ok : CmpOK cmpPt := ⟨fun a b => cmpPt_antisymm a b, cmpPt_tr⟩

theorem cmpPts_antisymm : ∀ (p q : List KP), cmpPts q p = - cmpPts p q
  | [], [] => by simp [cmpPts]
  | [], _ :: _ => by simp [cmpPts]
  | _ :: _, [] => by simp [cmpPts]
  | a :: as, b :: bs => by
    simp only [cmpPts]; rw [cmpPt_antisymm a b, cmpPts_antisymm as bs, lex_neg]

theorem cmpPts_tr : ∀ (p q r : List KP), Tr (cmpPts p q) (cmpPts q r) (cmpPts p r)
  | [], [], [] => by simp [cmpPts, Tr]
  | [], [], _ :: _ => by simp [cmpPts, Tr]
  | [], _ :: _, [] => by simp [cmpPts, Tr]
  | [], _ :: _, _ :: _ => by simp [cmpPts, Tr]
  | _ :: _, [], [] => by simp [cmpPts, Tr]
  | _ :: _, [], _ :: _ => by simp [cmpPts, Tr]
  | _ :: _, _ :: _, [] => by simp [cmpPts, Tr]
  | a :: as, b :: bs, c :: cs => by
    simp only [cmpPts]; exact Tr.combine (cmpPt_tr a b c) (cmpPts_tr as bs cs)

theorem cmpSeq_antisymm (p q : List KP) : cmpSeq q p = - cmpSeq p q := by
  unfold cmpSeq; rw [cmpInt_antisymm, cmpPts_antisymm p q, lex_neg]

theorem cmpSeq_tr (p q r : List KP) : Tr (cmpSeq p q) (cmpSeq q r) (cmpSeq p r) :=
  Tr.combine (cmpInt_tr _ _ _) (cmpPts_tr p q r)

theorem cmpSeqs_antisymm : ∀ (p q : List (List KP)), cmpSeqs q p = - cmpSeqs p q
  | [], [] => by simp [cmpSeqs]
  | [], _ :: _ => by simp [cmpSeqs]
  | _ :: _, [] => by simp [cmpSeqs]
  | a :: as, b :: bs => by
    simp only [cmpSeqs]; rw [cmpSeq_antisymm a b, cmpSeqs_antisymm as bs, lex_neg]

theorem cmpSeqs_tr : ∀ (p q r : List (List KP)), Tr (cmpSeqs p q) (cmpSeqs q r) (cmpSeqs p r)
  | [], [], [] => by simp [cmpSeqs, Tr]
  | [], [], _ :: _ => by simp [cmpSeqs, Tr]
  | [], _ :: _, [] => by simp [cmpSeqs, Tr]
  | [], _ :: _, _ :: _ => by simp [cmpSeqs, Tr]
  | _ :: _, [], [] => by simp [cmpSeqs, Tr]
  | _ :: _, [], _ :: _ => by simp [cmpSeqs, Tr]
  | _ :: _, _ :: _, [] => by simp [cmpSeqs, Tr]
  | a :: as, b :: bs, c :: cs => by
    simp only [cmpSeqs]; exact Tr.combine (cmpSeq_tr a b c) (cmpSeqs_tr as bs cs)

/-! ### the head of `compareTo` -/

theorem cmpHead_antisymm (ra rb : Nat) (ea eb : Bool) (x y : Int)
    (h : ra = rb → ea = false → eb = false → y = -x) :
    cmpHead rb ra eb ea y = - cmpHead ra rb ea eb x := by
  unfold cmpHead
  by_cases h1 : ra < rb
  · have : ¬ rb < ra := by omega
    simp [h1, this]
  · by_cases h2 : rb < ra
    · simp [h1, h2]
    · have hr : ra = rb := by omega
      cases ea <;> cases eb <;> simp [h1, h2]
      exact h hr rfl rfl

theorem cmpHead_tr (ra rb rc : Nat) (ea eb ec : Bool) (x y z : Int)
    (h : ra = rb → rb = rc → ea = false → eb = false → ec = false → Tr x y z) :
    Tr (cmpHead ra rb ea eb x) (cmpHead rb rc eb ec y) (cmpHead ra rc ea ec z) := by
  by_cases hab : ra = rb
  · by_cases hbc : rb = rc
    · subst hab; subst hbc
      cases ea <;> cases eb <;> cases ec <;> simp [cmpHead, Tr]
      exact h rfl rfl rfl rfl rfl
    · subst hab
      rcases Nat.lt_or_gt_of_ne hbc with h1 | h1
      · have h2 : ¬ rc < ra := by omega
        cases ea <;> cases eb <;> simp [cmpHead, Tr, h1, h2] <;> omega
      · have h2 : ¬ ra < rc := by omega
        cases ea <;> cases eb <;> simp [cmpHead, Tr, h1, h2] <;> omega
  · rcases Nat.lt_or_gt_of_ne hab with h1 | h1
    · have h1' : ¬ rb < ra := by omega
      rcases Nat.lt_trichotomy rb rc with h2 | h2 | h2
      · have h3 : ra < rc := by omega
        have h2' : ¬ rc < rb := by omega
        simp [cmpHead, Tr, h1, h2, h3]
      · subst h2
        cases eb <;> cases ec <;> simp [cmpHead, Tr, h1] <;> omega
      · have h2' : ¬ rb < rc := by omega
        simp only [cmpHead, Tr, h1, h1', h2, h2', if_true, if_false]
        split <;> (try split) <;> (try split) <;> (try split) <;> (try split) <;> omega
    · have h1' : ¬ ra < rb := by omega
      rcases Nat.lt_trichotomy rb rc with h2 | h2 | h2
      · have h2' : ¬ rc < rb := by omega
        simp only [cmpHead, Tr, h1, h1', h2, h2', if_true, if_false]
        split <;> (try split) <;> (try split) <;> (try split) <;> (try split) <;> omega
      · subst h2
        cases eb <;> cases ec <;> simp [cmpHead, Tr, h1] <;> omega
      · have h3 : rc < ra := by omega
        have h3' : ¬ ra < rc := by omega
        have h2' : ¬ rb < rc := by omega
        simp [cmpHead, Tr, h1, h1', h2, h2', h3, h3']

/-! ### `cmpK` -/

theorem K.isEmpty_leaf (i p) : (K.leaf i p).isEmpty = p.isEmpty := by simp [K.isEmpty]
theorem K.isEmpty_poly (s hs) : (K.poly s hs).isEmpty = s.isEmpty := by simp [K.isEmpty]
theorem K.isEmpty_node (i ks) : (K.node i ks).isEmpty = K.allEmpty ks := by simp [K.isEmpty]

mutual
  theorem cmpK_antisymm : ∀ (a b : K), cmpK b a = - cmpK a b
    | .leaf i p, b => by
      cases b with
      | leaf j q =>
        simp only [cmpK, K.isEmpty_leaf]
        exact cmpHead_antisymm _ _ _ _ _ _ (fun _ _ _ => cmpSeq_antisymm p q)
      | poly s hs =>
        simp only [cmpK, K.isEmpty_leaf, K.isEmpty_poly]
        exact cmpHead_antisymm _ _ _ _ _ _ (fun h _ _ => by simp [K.rank] at h; omega)
      | node j ks =>
        simp only [cmpK, K.isEmpty_leaf, K.isEmpty_node]
        exact cmpHead_antisymm _ _ _ _ _ _ (fun h _ _ => by simp [K.rank] at h; omega)
    | .poly s hs, b => by
      cases b with
      | leaf j q =>
        simp only [cmpK, K.isEmpty_leaf, K.isEmpty_poly]
        exact cmpHead_antisymm _ _ _ _ _ _ (fun h _ _ => by simp [K.rank] at h; omega)
      | poly s' hs' =>
        simp only [cmpK, K.isEmpty_poly]
        refine cmpHead_antisymm _ _ _ _ _ _ (fun _ _ _ => ?_)
        rw [cmpSeq_antisymm s s', cmpInt_antisymm, cmpSeqs_antisymm hs hs', lex_neg, lex_neg]
      | node j ks =>
        simp only [cmpK, K.isEmpty_poly, K.isEmpty_node]
        exact cmpHead_antisymm _ _ _ _ _ _ (fun h _ _ => by simp [K.rank] at h; omega)
    | .node i ks, b => by
      cases b with
      | leaf j q =>
        simp only [cmpK, K.isEmpty_leaf, K.isEmpty_node]
        exact cmpHead_antisymm _ _ _ _ _ _ (fun h _ _ => by simp [K.rank] at h; omega)
      | poly s hs =>
        simp only [cmpK, K.isEmpty_poly, K.isEmpty_node]
        exact cmpHead_antisymm _ _ _ _ _ _ (fun h _ _ => by simp [K.rank] at h; omega)
      | node j ks' =>
        simp only [cmpK, K.isEmpty_node]
        exact cmpHead_antisymm _ _ _ _ _ _ (fun _ _ _ => cmpKs_antisymm ks ks')
  theorem cmpKs_antisymm : ∀ (p q : List K), cmpKs q p = - cmpKs p q
    | [], [] => by simp [cmpKs]
    | [], _ :: _ => by simp [cmpKs]
    | _ :: _, [] => by simp [cmpKs]
    | a :: as, b :: bs => by
      simp only [cmpKs]; rw [cmpK_antisymm a b, cmpKs_antisymm as bs, lex_neg]
end

mutual
  theorem cmpK_tr : ∀ (a b c : K), Tr (cmpK a b) (cmpK b c) (cmpK a c)
    | .leaf i p, b, c => by
      cases b <;> cases c <;> simp only [cmpK, K.isEmpty_leaf, K.isEmpty_poly, K.isEmpty_node] <;>
        refine cmpHead_tr _ _ _ _ _ _ _ _ _ (fun h1 h2 _ _ _ => ?_) <;>
        first
          | exact cmpSeq_tr _ _ _
          | (simp [K.rank] at h1 h2; omega)
    | .poly s hs, b, c => by
      cases b <;> cases c <;> simp only [cmpK, K.isEmpty_leaf, K.isEmpty_poly, K.isEmpty_node] <;>
        refine cmpHead_tr _ _ _ _ _ _ _ _ _ (fun h1 h2 _ _ _ => ?_) <;>
        first
          | exact Tr.combine (cmpSeq_tr _ _ _) (Tr.combine (cmpInt_tr _ _ _) (cmpSeqs_tr _ _ _))
          | (simp [K.rank] at h1 h2; omega)
    | .node i ks, b, c => by
      cases b with
      | leaf j q =>
        cases c <;> simp only [cmpK, K.isEmpty_leaf, K.isEmpty_poly, K.isEmpty_node] <;>
          refine cmpHead_tr _ _ _ _ _ _ _ _ _ (fun h1 h2 _ _ _ => ?_) <;>
          (simp [K.rank] at h1 h2; omega)
      | poly s hs =>
        cases c <;> simp only [cmpK, K.isEmpty_leaf, K.isEmpty_poly, K.isEmpty_node] <;>
          refine cmpHead_tr _ _ _ _ _ _ _ _ _ (fun h1 h2 _ _ _ => ?_) <;>
          (simp [K.rank] at h1 h2; omega)
      | node j ks' =>
        cases c with
        | leaf k q =>
          simp only [cmpK, K.isEmpty_leaf, K.isEmpty_poly, K.isEmpty_node]
          refine cmpHead_tr _ _ _ _ _ _ _ _ _ (fun h1 h2 _ _ _ => ?_)
          simp [K.rank] at h1 h2; omega
        | poly s hs =>
          simp only [cmpK, K.isEmpty_leaf, K.isEmpty_poly, K.isEmpty_node]
          refine cmpHead_tr _ _ _ _ _ _ _ _ _ (fun h1 h2 _ _ _ => ?_)
          simp [K.rank] at h1 h2; omega
        | node k ks'' =>
          simp only [cmpK, K.isEmpty_node]
          exact cmpHead_tr _ _ _ _ _ _ _ _ _ (fun _ _ _ _ _ => cmpKs_tr ks ks' ks'')
  theorem cmpKs_tr : ∀ (p q r : List K), Tr (cmpKs p q) (cmpKs q r) (cmpKs p r)
    | [], [], [] => by simp [cmpKs, Tr]
    | [], [], _ :: _ => by simp [cmpKs, Tr]
    | [], _ :: _, [] => by simp [cmpKs, Tr]
    | [], _ :: _, _ :: _ => by simp [cmpKs, Tr]
    | _ :: _, [], [] => by simp [cmpKs, Tr]
    | _ :: _, [], _ :: _ => by simp [cmpKs, Tr]
    | _ :: _, _ :: _, [] => by simp [cmpKs, Tr]
    | a :: as, b :: bs, c :: cs => by
      simp only [cmpKs]; exact Tr.combine (cmpK_tr a b c) (cmpKs_tr as bs cs)
end

theorem cmpK_ok : CmpOK cmpK := ⟨fun a b => cmpK_antisymm a b, cmpK_tr⟩

/-- `Geometry::compareTo` (as modelled) is a total preorder -/
theorem cmpG_ok (c : Cfg) : CmpOK (cmpG c) :=
  ⟨fun a b => cmpK_antisymm _ _, fun a b d => cmpK_tr _ _ _⟩

theorem cmpRingSeq_ok (c : Cfg) : CmpOK (cmpRingSeq c) :=
  ⟨fun a b => cmpK_antisymm _ _, fun a b d => cmpK_tr _ _ _⟩

theorem cmpXY_ok (c : Cfg) : CmpOK (cmpXY c) :=
  ⟨fun a b => cmpPt_antisymm _ _, fun a b d => cmpPt_tr _ _ _⟩

theorem cmpXY_eq_zero {c : Cfg} {a b : Coord} : cmpXY c a b = 0 ↔ eqXY c a b = true := by
  unfold cmpXY eqXY; rw [cmpPt_eq_zero]; simp

end GeosModel.Norm
