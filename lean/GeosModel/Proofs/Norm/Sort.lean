import GeosModel.Proofs.Norm.Order
/-! Generic facts about the stable descending insertion sort, for any comparison satisfying `CmpOK`. -/
set_option linter.unusedSimpArgs false
set_option linter.unusedVariables false
namespace GeosModel.Norm
variable {α : Type}

/-- sorted in descending order -/
def SortedDesc (cmp : α → α → Int) (l : List α) : Prop := l.Pairwise (fun a b => cmp a b ≥ 0)

theorem insertDesc_perm (cmp : α → α → Int) (x : α) : ∀ l, (insertDesc cmp x l).Perm (x :: l)
  | [] => by simp [insertDesc]
  | y :: ys => by
    unfold insertDesc
    split
    · exact ((insertDesc_perm cmp x ys).cons y).trans (List.Perm.swap x y ys)
    · exact List.Perm.refl _

theorem sortDesc_perm (cmp : α → α → Int) : ∀ l, (sortDesc cmp l).Perm l
  | [] => by simp [sortDesc]
  | x :: xs => by
    unfold sortDesc
    exact (insertDesc_perm cmp x _).trans ((sortDesc_perm cmp xs).cons x)

theorem sortDesc_length (cmp : α → α → Int) (l : List α) : (sortDesc cmp l).length = l.length :=
  (sortDesc_perm cmp l).length_eq

theorem mem_sortDesc (cmp : α → α → Int) {l : List α} {a : α} : a ∈ sortDesc cmp l ↔ a ∈ l :=
  (sortDesc_perm cmp l).mem_iff

theorem insertDesc_sorted {cmp : α → α → Int} (ok : CmpOK cmp) (x : α) :
    ∀ l, SortedDesc cmp l → SortedDesc cmp (insertDesc cmp x l)
  | [], _ => by simp [insertDesc, SortedDesc]
  | y :: ys, h => by
    unfold insertDesc
    have hp := List.pairwise_cons.mp h
    split
    · rename_i hgt
      refine List.pairwise_cons.mpr ⟨?_, insertDesc_sorted ok x ys hp.2⟩
      intro z hz
      rcases List.mem_cons.mp ((insertDesc_perm cmp x ys).mem_iff.mp hz) with rfl | hz
      · omega
      · exact hp.1 z hz
    · rename_i hgt
      have hxy : cmp x y ≥ 0 := by have := ok.antisymm x y; omega
      refine List.pairwise_cons.mpr ⟨?_, h⟩
      intro z hz
      rcases List.mem_cons.mp hz with rfl | hz
      · exact hxy
      · exact ok.ge_trans hxy (hp.1 z hz)

theorem sortDesc_sorted {cmp : α → α → Int} (ok : CmpOK cmp) : ∀ l, SortedDesc cmp (sortDesc cmp l)
  | [] => by simp [sortDesc, SortedDesc]
  | x :: xs => by unfold sortDesc; exact insertDesc_sorted ok x _ (sortDesc_sorted ok xs)

/-- sorting a sorted list changes nothing (the sort is stable) -/
theorem sortDesc_of_sorted {cmp : α → α → Int} (ok : CmpOK cmp) : ∀ l, SortedDesc cmp l → sortDesc cmp l = l
  | [], _ => by simp [sortDesc]
  | x :: xs, h => by
    have hp := List.pairwise_cons.mp h
    unfold sortDesc
    rw [sortDesc_of_sorted ok xs hp.2]
    cases xs with
    | nil => simp [insertDesc]
    | cons y ys =>
      have hxy := hp.1 y (by simp)
      have : ¬ cmp y x > 0 := by have := ok.antisymm x y; omega
      simp [insertDesc, this]

theorem sortDesc_idem {cmp : α → α → Int} (ok : CmpOK cmp) (l : List α) :
    sortDesc cmp (sortDesc cmp l) = sortDesc cmp l :=
  sortDesc_of_sorted ok _ (sortDesc_sorted ok l)

/-- two permutations of each other sort to the same list when `compareTo`-equal elements are identical -/
theorem sortDesc_perm_eq {cmp : α → α → Int} (ok : CmpOK cmp) {l₁ l₂ : List α} (hp : l₁.Perm l₂)
    (hties : ∀ a b, a ∈ l₁ → b ∈ l₁ → cmp a b = 0 → a = b) : sortDesc cmp l₁ = sortDesc cmp l₂ := by
  apply List.Perm.eq_of_pairwise (le := fun a b => cmp a b ≥ 0)
  · intro a b ha hb h1 h2
    have ha' : a ∈ l₁ := (mem_sortDesc cmp).mp ha
    have hb' : b ∈ l₁ := hp.symm.mem_iff.mp ((mem_sortDesc cmp).mp hb)
    have := ok.antisymm a b
    exact hties a b ha' hb' (by omega)
  · exact sortDesc_sorted ok l₁
  · exact sortDesc_sorted ok l₂
  · exact (sortDesc_perm cmp l₁).trans (hp.trans (sortDesc_perm cmp l₂).symm)

theorem map_id_of_fixed {f : α → α} : ∀ (l : List α), (∀ a ∈ l, f a = a) → l.map f = l
  | [], _ => rfl
  | x :: xs, h => by
    simp only [List.map]
    rw [h x (by simp), map_id_of_fixed xs (fun a ha => h a (by simp [ha]))]

end GeosModel.Norm
