import GeosModel.Proofs.Norm.Sort
import GeosModel.Model.Norm.Classify
/-!
Ring-level facts: `scroll` goes to the first minimum; rotation / reversal of an open ring with a unique minimum
scroll to the same list (resp. its mirror image); `normRingPts`, `normClosedPts`, `normOpenPts` are idempotent and
canonical under the stated hypotheses.
-/
set_option linter.unusedSimpArgs false
set_option linter.unusedVariables false
namespace GeosModel.Norm

/-- `l = pre ++ m :: post` where `m` is the first minimum: everything before is strictly greater, everything
after is not smaller -/
structure FirstMin (c : Cfg) (l pre : List Coord) (m : Coord) (post : List Coord) : Prop where
  eq : l = pre ++ m :: post
  pre_gt : ∀ x ∈ pre, cmpXY c m x < 0
  post_ge : ∀ x ∈ post, cmpXY c m x ≤ 0

/-- the minimum is attained exactly once -/
structure UniqueMin (c : Cfg) (l pre : List Coord) (m : Coord) (post : List Coord) : Prop where
  eq : l = pre ++ m :: post
  gt : ∀ x ∈ pre ++ post, cmpXY c m x < 0

theorem UniqueMin.firstMin {c : Cfg} {l pre m post} (h : UniqueMin c l pre m post) : FirstMin c l pre m post :=
  ⟨h.eq, fun x hx => h.gt x (by simp [hx]), fun x hx => Int.le_of_lt (h.gt x (by simp [hx]))⟩

def minStep (c : Cfg) (m q : Coord) : Coord := if cmpXY c m q > 0 then q else m

theorem minCoord_cons (c : Cfg) (p : Coord) (r : List Coord) : minCoord c (p :: r) = some (r.foldl (minStep c) p) := rfl

theorem foldl_minStep_mem (c : Cfg) : ∀ (r : List Coord) (p : Coord), r.foldl (minStep c) p ∈ p :: r
  | [], p => by simp
  | q :: r, p => by
    simp only [List.foldl]
    have := foldl_minStep_mem c r (minStep c p q)
    rcases List.mem_cons.mp this with h | h
    · rw [h]; unfold minStep; split <;> simp
    · simp [h]

theorem foldl_minStep_stay (c : Cfg) (m : Coord) : ∀ (r : List Coord), (∀ x ∈ r, cmpXY c m x ≤ 0) → r.foldl (minStep c) m = m
  | [], _ => rfl
  | q :: r, h => by
    simp only [List.foldl]
    have hq : ¬ cmpXY c m q > 0 := by have := h q (by simp); omega
    simp only [minStep, hq, if_false]
    exact foldl_minStep_stay c m r (fun x hx => h x (by simp [hx]))

theorem minCoord_firstMin {c : Cfg} {l pre m post} (h : FirstMin c l pre m post) : minCoord c l = some m := by
  rw [h.eq]
  cases pre with
  | nil =>
    simp only [List.nil_append, minCoord_cons]
    rw [foldl_minStep_stay c m post h.post_ge]
  | cons p pre' =>
    rw [List.cons_append, minCoord_cons, List.foldl_append, List.foldl_cons]
    have hmem := foldl_minStep_mem c pre' p
    have hgt : cmpXY c m (pre'.foldl (minStep c) p) < 0 := h.pre_gt _ hmem
    have : cmpXY c (pre'.foldl (minStep c) p) m > 0 := by
      have := (cmpXY_ok c).antisymm m (pre'.foldl (minStep c) p); omega
    have e : minStep c (pre'.foldl (minStep c) p) m = m := by simp only [minStep, this, if_true]
    rw [e, foldl_minStep_stay c m post h.post_ge]

theorem eqXY_self (c : Cfg) (a : Coord) : eqXY c a a = true := by simp [eqXY]

theorem eqXY_false_of_lt {c : Cfg} {a b : Coord} (h : cmpXY c a b < 0) : eqXY c a b = false := by
  cases hh : eqXY c a b with
  | false => rfl
  | true => have := cmpXY_eq_zero.mpr hh; omega

theorem indexOf_firstMin {c : Cfg} {m : Coord} : ∀ (pre post : List Coord), (∀ x ∈ pre, cmpXY c m x < 0) →
    indexOf c m (pre ++ m :: post) = pre.length
  | [], post, _ => by simp [indexOf, eqXY_self]
  | p :: pre, post, h => by
    have hp := eqXY_false_of_lt (h p (by simp))
    simp only [List.cons_append, indexOf, hp, List.length_cons]
    rw [indexOf_firstMin pre post (fun x hx => h x (by simp [hx]))]
    simp

/-- `scroll` rotates to the first minimum -/
theorem scroll_firstMin {c : Cfg} {l pre m post} (h : FirstMin c l pre m post) : scroll c l = m :: post ++ pre := by
  unfold scroll
  rw [minCoord_firstMin h]
  simp only
  rw [h.eq, indexOf_firstMin pre post h.pre_gt]
  cases pre with
  | nil => simp [indexOf_firstMin]
  | cons p pre' =>
    have : ¬ ((p :: pre').length = 0 ∨ ((p :: pre') ++ m :: post).length ≤ (p :: pre').length) := by
      simp
    rw [if_neg this]
    rw [List.drop_left, List.take_left]

/-- rotation of an open ring -/
def rot (k : Nat) (o : List Coord) : List Coord := o.drop k ++ o.take k

/-- a rotation of `pre ++ m :: post` is again of that shape with the same cyclic remainder -/
theorem rot_decomp (k : Nat) (pre : List Coord) (m : Coord) (post : List Coord) :
    ∃ pre' post', rot k (pre ++ m :: post) = pre' ++ m :: post' ∧ post' ++ pre' = post ++ pre ∧
      (∀ x, x ∈ pre' ++ post' → x ∈ pre ++ post) := by
  by_cases hk : k ≤ pre.length
  · refine ⟨pre.drop k, post ++ pre.take k, ?_, ?_, ?_⟩
    · unfold rot
      rw [List.drop_append_of_le_length hk, List.take_append_of_le_length hk]
      simp
    · simp [List.append_assoc, List.take_append_drop]
    · intro x hx
      simp only [List.mem_append] at hx ⊢
      rcases hx with hx | hx | hx
      · exact Or.inl (List.mem_of_mem_drop hx)
      · exact Or.inr hx
      · exact Or.inl (List.mem_of_mem_take hx)
  · have hk' : pre.length < k := by omega
    refine ⟨post.drop (k - pre.length - 1) ++ pre, post.take (k - pre.length - 1), ?_, ?_, ?_⟩
    · unfold rot
      have e : k = pre.length + ((k - pre.length - 1) + 1) := by omega
      generalize k - pre.length - 1 = j at e
      subst e
      rw [List.drop_append, List.take_append]
      have h1 : List.drop (pre.length + (j + 1)) pre = [] := List.drop_eq_nil_of_le (by omega)
      have h2 : List.take (pre.length + (j + 1)) pre = pre := List.take_of_length_le (by omega)
      simp [List.append_assoc, h1, h2]
    · simp [← List.append_assoc, List.take_append_drop]
    · intro x hx
      simp only [List.mem_append] at hx ⊢
      rcases hx with (hx | hx) | hx
      · exact Or.inr (List.mem_of_mem_drop hx)
      · exact Or.inl hx
      · exact Or.inr (List.mem_of_mem_take hx)

/-- with a unique minimum every rotation scrolls to the same list -/
theorem scroll_rot {c : Cfg} {o pre m post} (h : UniqueMin c o pre m post) (k : Nat) :
    scroll c (rot k o) = m :: post ++ pre := by
  obtain ⟨pre', post', e, hcyc, hsub⟩ := rot_decomp k pre m post
  have hu : UniqueMin c (rot k o) pre' m post' := ⟨by rw [h.eq, e], fun x hx => h.gt x (hsub x hx)⟩
  rw [scroll_firstMin hu.firstMin]
  simp only [List.cons_append, hcyc]

theorem UniqueMin.reverse {c : Cfg} {o pre m post} (h : UniqueMin c o pre m post) :
    UniqueMin c o.reverse post.reverse m pre.reverse :=
  ⟨by rw [h.eq]; simp, fun x hx => h.gt x (by simp at hx ⊢; exact hx.symm)⟩

/-- … and every rotation of the reversed ring scrolls to the mirror image -/
theorem scroll_rot_reverse {c : Cfg} {o pre m post} (h : UniqueMin c o pre m post) (k : Nat) :
    scroll c (rot k o.reverse) = m :: (post ++ pre).reverse := by
  rw [scroll_rot h.reverse k]; simp

/-! ### closeRing -/

theorem closeRing_true (c : Cfg) (a : Coord) (t : List Coord) : closeRing c true (a :: t) = a :: t ++ [a] := by
  simp [closeRing]

theorem closeRing_false_of_gt {c : Cfg} {m : Coord} {t : List Coord} (hne : t ≠ [])
    (h : ∀ x ∈ t, cmpXY c m x < 0) : closeRing c false (m :: t) = m :: t ++ [m] := by
  have hl : (m :: t).getLast (by simp) ∈ t := by
    rw [List.getLast_cons hne]; exact List.getLast_mem hne
  have := eqXY_false_of_lt (h _ hl)
  simp [closeRing, this]

/-! ### existence of the first minimum; `minCount = 1` gives a unique minimum -/

theorem cmpXY_le_trans {c : Cfg} {a b d : Coord} (h1 : cmpXY c a b ≤ 0) (h2 : cmpXY c b d ≤ 0) : cmpXY c a d ≤ 0 := by
  have := (cmpXY_ok c).tr a b d; unfold Tr at this; omega

theorem cmpXY_le_lt_trans {c : Cfg} {a b d : Coord} (h1 : cmpXY c a b ≤ 0) (h2 : cmpXY c b d < 0) : cmpXY c a d < 0 := by
  have := (cmpXY_ok c).tr a b d; unfold Tr at this; omega

theorem exists_firstMin (c : Cfg) : ∀ (l : List Coord), l ≠ [] → ∃ pre m post, FirstMin c l pre m post
  | [], h => absurd rfl h
  | [x], _ => ⟨[], x, [], by simp, by simp, by simp⟩
  | x :: y :: t, _ => by
    obtain ⟨pre, m, post, h⟩ := exists_firstMin c (y :: t) (by simp)
    by_cases hx : cmpXY c x m ≤ 0
    · refine ⟨[], x, y :: t, by simp, by simp, ?_⟩
      intro z hz
      rw [h.eq] at hz
      rcases List.mem_append.mp hz with hz | hz
      · exact Int.le_of_lt (cmpXY_le_lt_trans hx (h.pre_gt z hz))
      · rcases List.mem_cons.mp hz with rfl | hz
        · exact hx
        · exact cmpXY_le_trans hx (h.post_ge z hz)
    · refine ⟨x :: pre, m, post, by rw [h.eq]; simp, ?_, h.post_ge⟩
      intro z hz
      rcases List.mem_cons.mp hz with rfl | hz
      · have := (cmpXY_ok c).antisymm z m; omega
      · exact h.pre_gt z hz

theorem filter_length_zero_of_gt {c : Cfg} {m : Coord} : ∀ (l : List Coord), (∀ x ∈ l, cmpXY c m x < 0) →
    (l.filter fun x => eqXY c m x).length = 0
  | [], _ => rfl
  | x :: t, h => by
    have := eqXY_false_of_lt (h x (by simp))
    simp only [List.filter, this]
    exact filter_length_zero_of_gt t (fun y hy => h y (by simp [hy]))

theorem gt_of_filter_length_zero {c : Cfg} {m : Coord} : ∀ (l : List Coord), (∀ x ∈ l, cmpXY c m x ≤ 0) →
    (l.filter fun x => eqXY c m x).length = 0 → ∀ x ∈ l, cmpXY c m x < 0
  | [], _, _ => by simp
  | y :: t, h, hz => by
    cases he : eqXY c m y with
    | true => simp [List.filter, he] at hz
    | false =>
      simp only [List.filter, he] at hz
      intro x hx
      rcases List.mem_cons.mp hx with rfl | hx
      · have h1 := h x (by simp)
        have h2 : cmpXY c m x ≠ 0 := fun h0 => by rw [cmpXY_eq_zero.mp h0] at he; cases he
        omega
      · exact gt_of_filter_length_zero t (fun z hz' => h z (by simp [hz'])) hz x hx

theorem uniqueMin_of_minCount {c : Cfg} {o : List Coord} (h : minCount c o = 1) : ∃ pre m post, UniqueMin c o pre m post := by
  have hne : o ≠ [] := by intro e; subst e; simp [minCount, minCoord] at h
  obtain ⟨pre, m, post, hf⟩ := exists_firstMin c o hne
  refine ⟨pre, m, post, hf.eq, ?_⟩
  unfold minCount at h
  rw [minCoord_firstMin hf] at h
  simp only at h
  rw [hf.eq, List.filter_append, List.length_append] at h
  have h0 := filter_length_zero_of_gt pre hf.pre_gt
  simp only [List.filter, eqXY_self, List.length_cons] at h
  have hpost : (post.filter fun x => eqXY c m x).length = 0 := by omega
  have := gt_of_filter_length_zero post hf.post_ge hpost
  intro x hx
  rcases List.mem_append.mp hx with hx | hx
  · exact hf.pre_gt x hx
  · exact this x hx

/-! ### `Polygon::normalize(ring, clockwise)` -/

theorem normRingPts_concat (c : Cfg) (cw : Bool) (o : List Coord) (z : Coord) :
    normRingPts c cw (o ++ [z]) =
      (if c.isCCW (closeRing c false (scroll c o)) == cw then (closeRing c false (scroll c o)).reverse
       else closeRing c false (scroll c o)) := by
  cases h : o ++ [z] with
  | nil => simp at h
  | cons a t =>
    simp only [normRingPts]
    rw [← h, List.dropLast_concat]

/-- the outcome of `Polygon::normalize(ring, cw)` once the rotated open ring is known -/
def orientRing (c : Cfg) (cw : Bool) (R : List Coord) : List Coord := if c.isCCW R == cw then R.reverse else R

theorem normRingPts_of_scroll {c : Cfg} {cw : Bool} {o : List Coord} {m : Coord} {t : List Coord} (z : Coord)
    (hs : scroll c o = m :: t) (hne : t ≠ []) (hgt : ∀ x ∈ t, cmpXY c m x < 0) :
    normRingPts c cw (o ++ [z]) = orientRing c cw (m :: t ++ [m]) := by
  rw [normRingPts_concat, hs, closeRing_false_of_gt hne hgt]; rfl

theorem orientRing_stable {c : Cfg} {cw : Bool} {R : List Coord}
    (h : ¬ (c.isCCW R = cw ∧ c.isCCW R.reverse = cw)) :
    orientRing c cw (orientRing c cw R) = orientRing c cw R := by
  unfold orientRing
  by_cases h1 : c.isCCW R = cw
  · have h2 : ¬ c.isCCW R.reverse = cw := fun h2 => h ⟨h1, h2⟩
    simp [h1, h2]
  · simp [h1]

theorem orientRing_reverse {c : Cfg} {cw : Bool} {R : List Coord} (h : c.isCCW R.reverse = !c.isCCW R) :
    orientRing c cw R.reverse = orientRing c cw R := by
  unfold orientRing
  rw [h, List.reverse_reverse]
  cases hR : c.isCCW R <;> cases cw <;> simp

/-- what `normRingPts` returns on a ring with a unique minimum -/
theorem normRingPts_unique {c : Cfg} {cw : Bool} {o pre m post} (z : Coord) (h : UniqueMin c o pre m post)
    (hne : pre ++ post ≠ []) : normRingPts c cw (o ++ [z]) = orientRing c cw (m :: (post ++ pre) ++ [m]) := by
  have hne' : post ++ pre ≠ [] := by
    intro e; apply hne; simp only [List.append_eq_nil_iff] at e ⊢; exact ⟨e.2, e.1⟩
  exact normRingPts_of_scroll z (scroll_firstMin h.firstMin) hne'
    (fun x hx => h.gt x (by simp only [List.mem_append] at hx ⊢; exact hx.symm))

theorem orientRing_shape (c : Cfg) (cw : Bool) (m : Coord) (t : List Coord) :
    orientRing c cw (m :: t ++ [m]) = m :: t ++ [m] ∨ orientRing c cw (m :: t ++ [m]) = m :: t.reverse ++ [m] := by
  unfold orientRing; split
  · right; simp
  · left; rfl

theorem normRingPts_idem_pts {c : Cfg} {cw : Bool} {o pre m post} (z : Coord) (h : UniqueMin c o pre m post)
    (hne : pre ++ post ≠ [])
    (hor : ¬ (c.isCCW (m :: (post ++ pre) ++ [m]) = cw ∧ c.isCCW (m :: (post ++ pre) ++ [m]).reverse = cw)) :
    normRingPts c cw (normRingPts c cw (o ++ [z])) = normRingPts c cw (o ++ [z]) := by
  rw [normRingPts_unique z h hne]
  have hne' : post ++ pre ≠ [] := by
    intro e; apply hne; simp only [List.append_eq_nil_iff] at e ⊢; exact ⟨e.2, e.1⟩
  have hgt : ∀ x ∈ post ++ pre, cmpXY c m x < 0 :=
    fun x hx => h.gt x (by simp only [List.mem_append] at hx ⊢; exact hx.symm)
  -- the first result is `m :: t' ++ [m]` with `t'` = `post ++ pre` or its reverse
  have key : ∀ t', t' ≠ [] → (∀ x ∈ t', cmpXY c m x < 0) →
      normRingPts c cw (m :: t' ++ [m]) = orientRing c cw (m :: t' ++ [m]) := by
    intro t' hn hg
    have hu : UniqueMin c (m :: t') [] m t' := ⟨by simp, by simpa using hg⟩
    have := normRingPts_unique (cw := cw) m hu (by simpa using hn)
    simpa using this
  have hrne : (post ++ pre).reverse ≠ [] := fun e => hne' (List.reverse_eq_nil_iff.mp e)
  have hrgt : ∀ x ∈ (post ++ pre).reverse, cmpXY c m x < 0 := fun x hx => hgt x (List.mem_reverse.mp hx)
  have hrev : (m :: (post ++ pre) ++ [m]).reverse = m :: (post ++ pre).reverse ++ [m] := by simp
  by_cases hc : c.isCCW (m :: (post ++ pre) ++ [m]) = cw
  · have hout : orientRing c cw (m :: (post ++ pre) ++ [m]) = m :: (post ++ pre).reverse ++ [m] := by
      have hb : (c.isCCW (m :: (post ++ pre) ++ [m]) == cw) = true := by rw [hc]; exact beq_self_eq_true cw
      rw [orientRing, if_pos hb]; exact hrev
    rw [hout, key _ hrne hrgt]
    have : ¬ c.isCCW (m :: (post ++ pre).reverse ++ [m]) = cw := by
      intro h2; apply hor; exact ⟨hc, by rw [hrev]; exact h2⟩
    have hb : ¬ (c.isCCW (m :: (post ++ pre).reverse ++ [m]) == cw) = true := fun hb => this (eq_of_beq hb)
    rw [orientRing, if_neg hb]
  · have hout : orientRing c cw (m :: (post ++ pre) ++ [m]) = m :: (post ++ pre) ++ [m] := by
      have hb : ¬ (c.isCCW (m :: (post ++ pre) ++ [m]) == cw) = true := fun hb => hc (eq_of_beq hb)
      rw [orientRing, if_neg hb]
    rw [hout, key _ hne' hgt, hout]

/-- rotation and reversal variants of a ring with a unique minimum and a decisive orientation normalise alike -/
theorem normRingPts_variant {c : Cfg} {cw : Bool} {o o' pre m post} (z z' : Coord) (h : UniqueMin c o pre m post)
    (hne : pre ++ post ≠ [])
    (hdec : c.isCCW (m :: (post ++ pre) ++ [m]).reverse = !c.isCCW (m :: (post ++ pre) ++ [m]))
    (hv : ∃ k, o' = rot k o ∨ o' = rot k o.reverse) :
    normRingPts c cw (o' ++ [z']) = normRingPts c cw (o ++ [z]) := by
  rw [normRingPts_unique z h hne]
  have hne' : post ++ pre ≠ [] := by
    intro e; apply hne; simp only [List.append_eq_nil_iff] at e ⊢; exact ⟨e.2, e.1⟩
  have hgt : ∀ x ∈ post ++ pre, cmpXY c m x < 0 :=
    fun x hx => h.gt x (by simp only [List.mem_append] at hx ⊢; exact hx.symm)
  obtain ⟨k, hk | hk⟩ := hv
  · subst hk
    have hs := scroll_rot h k
    rw [normRingPts_of_scroll z' (t := post ++ pre) (by simpa using hs) hne' hgt]
  · subst hk
    have hs := scroll_rot_reverse h k
    have hrne : (post ++ pre).reverse ≠ [] := fun e => hne' (List.reverse_eq_nil_iff.mp e)
    have hrgt : ∀ x ∈ (post ++ pre).reverse, cmpXY c m x < 0 := fun x hx => hgt x (List.mem_reverse.mp hx)
    rw [normRingPts_of_scroll z' hs hrne hrgt]
    have hrev : m :: (post ++ pre).reverse ++ [m] = (m :: (post ++ pre) ++ [m]).reverse := by simp
    rw [hrev, orientRing_reverse hdec]

end GeosModel.Norm
