import GeosModel.Proofs.Norm.Sort
/-!
Ring-level facts: `scroll` goes to the first minimum; rotation / reversal of an open ring with a unique minimum
scroll to the same list (resp. its mirror image); `normRingPts`, `normClosedPts`, `normOpenPts` are idempotent and
canonical under the stated hypotheses.
-/
set_option linter.unusedSimpArgs false
set_option linter.unusedVariables false
namespace GeosModel.Norm

/-- `l = pre ++ m :: post` where `m` is the first minimum: everything before is strictly greater, everything
after is not smaller -/
structure FirstMin (c : Cfg) (l pre : List Coord) (m : Coord) (post : List Coord) : Prop where
  eq : l = pre ++ m :: post
  pre_gt : ∀ x ∈ pre, cmpXY c m x < 0
  post_ge : ∀ x ∈ post, cmpXY c m x ≤ 0

/-- the minimum is attained exactly once -/
structure UniqueMin (c : Cfg) (l pre : List Coord) (m : Coord) (post : List Coord) : Prop where
  eq : l = pre ++ m :: post
  gt : ∀ x ∈ pre ++ post, cmpXY c m x < 0

theorem UniqueMin.firstMin {c : Cfg} {l pre m post} (h : UniqueMin c l pre m post) : FirstMin c l pre m post :=
  ⟨h.eq, fun x hx => h.gt x (by simp [hx]), fun x hx => Int.le_of_lt (h.gt x (by simp [hx]))⟩

def minStep (c : Cfg) (m q : Coord) : Coord := if cmpXY c m q > 0 then q else m

theorem minCoord_cons (c : Cfg) (p : Coord) (r : List Coord) : minCoord c (p :: r) = some (r.foldl (minStep c) p) := rfl

theorem foldl_minStep_mem (c : Cfg) : ∀ (r : List Coord) (p : Coord), r.foldl (minStep c) p ∈ p :: r
  | [], p => by simp
  | q :: r, p => by
    simp only [List.foldl]
    have := foldl_minStep_mem c r (minStep c p q)
    rcases List.mem_cons.mp this with h | h
    · rw [h]; unfold minStep; split <;> simp
    · simp [h]

theorem foldl_minStep_stay (c : Cfg) (m : Coord) : ∀ (r : List Coord), (∀ x ∈ r, cmpXY c m x ≤ 0) → r.foldl (minStep c) m = m
  | [], _ => rfl
  | q :: r, h => by
    simp only [List.foldl]
    have hq : ¬ cmpXY c m q > 0 := by have := h q (by simp); omega
    simp only [minStep, hq, if_false]
    exact foldl_minStep_stay c m r (fun x hx => h x (by simp [hx]))

theorem minCoord_firstMin {c : Cfg} {l pre m post} (h : FirstMin c l pre m post) : minCoord c l = some m := by
  rw [h.eq]
  cases pre with
  | nil =>
    simp only [List.nil_append, minCoord_cons]
    rw [foldl_minStep_stay c m post h.post_ge]
  | cons p pre' =>
    rw [List.cons_append, minCoord_cons, List.foldl_append, List.foldl_cons]
    have hmem := foldl_minStep_mem c pre' p
    have hgt : cmpXY c m (pre'.foldl (minStep c) p) < 0 := h.pre_gt _ hmem
    have : cmpXY c (pre'.foldl (minStep c) p) m > 0 := by
      have := (cmpXY_ok c).antisymm m (pre'.foldl (minStep c) p); omega
    have e : minStep c (pre'.foldl (minStep c) p) m = m := by simp only [minStep, this, if_true]
    rw [e, foldl_minStep_stay c m post h.post_ge]

theorem eqXY_self (c : Cfg) (a : Coord) : eqXY c a a = true := by simp [eqXY]

theorem eqXY_false_of_lt {c : Cfg} {a b : Coord} (h : cmpXY c a b < 0) : eqXY c a b = false := by
  cases hh : eqXY c a b with
  | false => rfl
  | true => have := cmpXY_eq_zero.mpr hh; omega

theorem indexOf_firstMin {c : Cfg} {m : Coord} : ∀ (pre post : List Coord), (∀ x ∈ pre, cmpXY c m x < 0) →
    indexOf c m (pre ++ m :: post) = pre.length
  | [], post, _ => by simp [indexOf, eqXY_self]
  | p :: pre, post, h => by
    have hp := eqXY_false_of_lt (h p (by simp))
    simp only [List.cons_append, indexOf, hp, List.length_cons]
    rw [indexOf_firstMin pre post (fun x hx => h x (by simp [hx]))]
    simp

/-- `scroll` rotates to the first minimum -/
theorem scroll_firstMin {c : Cfg} {l pre m post} (h : FirstMin c l pre m post) : scroll c l = m :: post ++ pre := by
  unfold scroll
  rw [minCoord_firstMin h]
  simp only
  rw [h.eq, indexOf_firstMin pre post h.pre_gt]
  cases pre with
  | nil => simp [indexOf_firstMin]
  | cons p pre' =>
    have : ¬ ((p :: pre').length = 0 ∨ ((p :: pre') ++ m :: post).length ≤ (p :: pre').length) := by
      simp
    rw [if_neg this]
    rw [List.drop_left, List.take_left]

/-- rotation of an open ring -/
def rot (k : Nat) (o : List Coord) : List Coord := o.drop k ++ o.take k

/-- a rotation of `pre ++ m :: post` is again of that shape with the same cyclic remainder -/
theorem rot_decomp (k : Nat) (pre : List Coord) (m : Coord) (post : List Coord) :
    ∃ pre' post', rot k (pre ++ m :: post) = pre' ++ m :: post' ∧ post' ++ pre' = post ++ pre ∧
      (∀ x, x ∈ pre' ++ post' → x ∈ pre ++ post) := by
  by_cases hk : k ≤ pre.length
  · refine ⟨pre.drop k, post ++ pre.take k, ?_, ?_, ?_⟩
    · unfold rot
      rw [List.drop_append_of_le_length hk, List.take_append_of_le_length hk]
      simp
    · simp [List.append_assoc, List.take_append_drop]
    · intro x hx
      simp only [List.mem_append] at hx ⊢
      rcases hx with hx | hx | hx
      · exact Or.inl (List.mem_of_mem_drop hx)
      · exact Or.inr hx
      · exact Or.inl (List.mem_of_mem_take hx)
  · have hk' : pre.length < k := by omega
    refine ⟨post.drop (k - pre.length - 1) ++ pre, post.take (k - pre.length - 1), ?_, ?_, ?_⟩
    · unfold rot
      have e : k = pre.length + ((k - pre.length - 1) + 1) := by omega
      generalize k - pre.length - 1 = j at e
      subst e
      rw [List.drop_append, List.take_append]
      have h1 : List.drop (pre.length + (j + 1)) pre = [] := List.drop_eq_nil_of_le (by omega)
      have h2 : List.take (pre.length + (j + 1)) pre = pre := List.take_of_length_le (by omega)
      simp [List.append_assoc, h1, h2]
    · simp [← List.append_assoc, List.take_append_drop]
    · intro x hx
      simp only [List.mem_append] at hx ⊢
      rcases hx with (hx | hx) | hx
      · exact Or.inr (List.mem_of_mem_drop hx)
      · exact Or.inl hx
      · exact Or.inr (List.mem_of_mem_take hx)

/-- with a unique minimum every rotation scrolls to the same list -/
theorem scroll_rot {c : Cfg} {o pre m post} (h : UniqueMin c o pre m post) (k : Nat) :
    scroll c (rot k o) = m :: post ++ pre := by
  obtain ⟨pre', post', e, hcyc, hsub⟩ := rot_decomp k pre m post
  have hu : UniqueMin c (rot k o) pre' m post' := ⟨by rw [h.eq, e], fun x hx => h.gt x (hsub x hx)⟩
  rw [scroll_firstMin hu.firstMin]
  simp only [List.cons_append, hcyc]

theorem UniqueMin.reverse {c : Cfg} {o pre m post} (h : UniqueMin c o pre m post) :
    UniqueMin c o.reverse post.reverse m pre.reverse :=
  ⟨by rw [h.eq]; simp, fun x hx => h.gt x (by simp at hx ⊢; exact hx.symm)⟩

/-- … and every rotation of the reversed ring scrolls to the mirror image -/
theorem scroll_rot_reverse {c : Cfg} {o pre m post} (h : UniqueMin c o pre m post) (k : Nat) :
    scroll c (rot k o.reverse) = m :: (post ++ pre).reverse := by
  rw [scroll_rot h.reverse k]; simp

/-! ### closeRing -/

theorem closeRing_true (c : Cfg) (a : Coord) (t : List Coord) : closeRing c true (a :: t) = a :: t ++ [a] := by
  simp [closeRing]

theorem closeRing_false_of_gt {c : Cfg} {m : Coord} {t : List Coord} (hne : t ≠ [])
    (h : ∀ x ∈ t, cmpXY c m x < 0) : closeRing c false (m :: t) = m :: t ++ [m] := by
  have hl : (m :: t).getLast (by simp) ∈ t := by
    rw [List.getLast_cons hne]; exact List.getLast_mem hne
  have := eqXY_false_of_lt (h _ hl)
  simp [closeRing, this]

end GeosModel.Norm
