import GeosModel.Model.WKB.Cxx
/-!
Bit-level facts behind the bridge theorems of `Props/C09Gen.lean`: C++ `|` / `&` on 32-bit values against the `+`, `/`,
`%` arithmetic the hand-written model (`typeWord`, `decodeType`) is written in.  Core Lean only.
-/
namespace GeosModel.WKB

theorem and_two_pow_eq (x i : Nat) : x &&& 2 ^ i = if x.testBit i then 2 ^ i else 0 := by
  apply Nat.eq_of_testBit_eq
  intro j
  rw [Nat.testBit_and, Nat.testBit_two_pow]
  by_cases hj : i = j
  · subst hj
    by_cases hx : x.testBit i <;> simp [hx]
  · by_cases hx : x.testBit i <;> simp [hx, hj]

/-- `(x & (1 << i)) != 0` is the `i`-th binary digit of `x` -/
theorem and_two_pow_ne_zero (x i : Nat) : (x &&& 2 ^ i != 0) = (x / 2 ^ i % 2 == 1) := by
  rw [and_two_pow_eq, Nat.testBit_eq_decide_div_mod_eq]
  by_cases h : x / 2 ^ i % 2 = 1 <;> simp [h]

theorem and_bit31 (x : Nat) : (x &&& 2147483648 != 0) = (x / 2147483648 % 2 == 1) := and_two_pow_ne_zero x 31
theorem and_bit30 (x : Nat) : (x &&& 1073741824 != 0) = (x / 1073741824 % 2 == 1) := and_two_pow_ne_zero x 30
theorem and_bit29 (x : Nat) : (x &&& 536870912 != 0) = (x / 536870912 % 2 == 1) := and_two_pow_ne_zero x 29
theorem and_low16 (x : Nat) : x &&& 65535 = x % 65536 := Nat.and_two_pow_sub_one_eq_mod x 16

theorem intToU32_lt (a : Int) : intToU32 a < 4294967296 := by unfold intToU32; omega

theorem intToU32_u32ToInt (n : Nat) (h : n < 4294967296) : intToU32 (u32ToInt n) = n := by
  unfold intToU32 u32ToInt; split <;> omega

/-- the 32-bit image of `a | b` is the bitwise or of the images -/
theorem intToU32_int32Or (a b : Int) : intToU32 (int32Or a b) = intToU32 a ||| intToU32 b := by
  unfold int32Or
  exact intToU32_u32ToInt _ (Nat.or_lt_two_pow (n := 32) (intToU32_lt a) (intToU32_lt b))

theorem intToU32_int32And (a b : Int) : intToU32 (int32And a b) = intToU32 a &&& intToU32 b := by
  unfold int32And
  exact intToU32_u32ToInt _ (Nat.lt_of_le_of_lt Nat.and_le_left (intToU32_lt a))

theorem intToU32_u32AsInt (n : Nat) : intToU32 (u32AsInt n) = n % 4294967296 := by
  unfold u32AsInt; exact intToU32_u32ToInt _ (Nat.mod_lt _ (by decide))

theorem intToU32_ofNat (n : Nat) : intToU32 (n : Int) = n % 4294967296 := by unfold intToU32; omega

/-- on an integer literal -/
theorem intToU32_lit (n : Nat) : intToU32 (no_index (OfNat.ofNat n)) = n % 4294967296 := intToU32_ofNat n

theorem intToU32_add (a b : Int) : intToU32 (a + b) = (intToU32 a + intToU32 b) % 4294967296 := by
  unfold intToU32; omega

/-- a value below 2^29 and a multiple of 2^29 have no bit in common: `|` is `+` -/
theorem or_flag (x k : Nat) (h : x < 536870912) : x ||| k * 536870912 = x + k * 536870912 := by
  have := Nat.shiftLeft_add_eq_or_of_lt (i := 29) (b := x) (by simpa using h) k
  rw [Nat.shiftLeft_eq] at this
  rw [Nat.or_comm, ← this]; simp; omega

/-- the same, stated so that `simp` can discharge the side conditions on a literal `F` -/
theorem or_flags (x F : Nat) (h : x < 536870912) (hF : F % 536870912 = 0) : x ||| F = x + F := by
  have e : F / 536870912 * 536870912 = F := by omega
  have := or_flag x (F / 536870912) h
  rwa [e] at this

/-! ### `ByteOrderValues::getUnsigned`: bytes masked, shifted and or-ed -/

theorem and_255 (x : Nat) (h : x < 256) : x &&& 255 = x := by
  have := Nat.and_two_pow_sub_one_eq_mod x 8
  simp only [Nat.reducePow, Nat.reduceSub] at this; rw [this]; omega

theorem shl32_24 (x : Nat) (h : x < 256) : shl32 x 24 = x * 16777216 := by
  unfold shl32; rw [Nat.shiftLeft_eq]; simp only [Nat.reducePow]; omega
theorem shl32_16 (x : Nat) (h : x < 256) : shl32 x 16 = x * 65536 := by
  unfold shl32; rw [Nat.shiftLeft_eq]; simp only [Nat.reducePow]; omega
theorem shl32_8 (x : Nat) (h : x < 256) : shl32 x 8 = x * 256 := by
  unfold shl32; rw [Nat.shiftLeft_eq]; simp only [Nat.reducePow]; omega

/-- a multiple of 2^k and a value below 2^k have no bit in common: `|` is `+` -/
theorem or_add (k n m : Nat) (hn : n % 2 ^ k = 0) (hm : m < 2 ^ k) : n ||| m = n + m := by
  have e : (n / 2 ^ k) <<< k = n := by
    rw [Nat.shiftLeft_eq]; exact Nat.div_mul_cancel (Nat.dvd_of_mod_eq_zero hn)
  have := Nat.shiftLeft_add_eq_or_of_lt hm (n / 2 ^ k)
  rw [e] at this; exact this.symm

/-! instances with literal moduli, in both orders, for `simp (disch := omega)`: whatever the grouping and order of the
or-ed terms in the C++ expression, each `|` of bit-disjoint terms becomes `+` -/
theorem or_add8 (n m : Nat) (hn : n % 256 = 0) (hm : m < 256) : n ||| m = n + m := or_add 8 n m hn hm
theorem or_add16 (n m : Nat) (hn : n % 65536 = 0) (hm : m < 65536) : n ||| m = n + m := or_add 16 n m hn hm
theorem or_add24 (n m : Nat) (hn : n % 16777216 = 0) (hm : m < 16777216) : n ||| m = n + m := or_add 24 n m hn hm
theorem or_add8' (n m : Nat) (hn : n % 256 = 0) (hm : m < 256) : m ||| n = n + m := by rw [Nat.or_comm]; exact or_add 8 n m hn hm
theorem or_add16' (n m : Nat) (hn : n % 65536 = 0) (hm : m < 65536) : m ||| n = n + m := by rw [Nat.or_comm]; exact or_add 16 n m hn hm
theorem or_add24' (n m : Nat) (hn : n % 16777216 = 0) (hm : m < 16777216) : m ||| n = n + m := by rw [Nat.or_comm]; exact or_add 24 n m hn hm

end GeosModel.WKB
