import GeosModel.Model.WKB.Spec
/-! C11 for the WKB reader, part 1: whatever `read` returns satisfies every constructor invariant. -/
namespace GeosModel.WKB
open GeosModel

variable {arc : ArcOracle}

theorem readCoords_length (o : Order) (z m : Bool) :
    ∀ (n : Nat) (bs : List UInt8) (ps : List Coord) (r : List UInt8),
      readCoords o z m n bs = .ok (ps, r) → ps.length = n
  | 0, bs, ps, r, h => by
    simp only [readCoords, Except.ok.injEq, Prod.mk.injEq] at h
    rw [← h.1]; rfl
  | n + 1, bs, ps, r, h => by
    simp only [readCoords] at h
    cases h1 : readU64 o bs with
    | error e => simp [h1] at h
    | ok v1 =>
      obtain ⟨x, b1⟩ := v1
      simp only [h1] at h
      cases h2 : readU64 o b1 with
      | error e => simp [h2] at h
      | ok v2 =>
        obtain ⟨y, b2⟩ := v2
        simp only [h2] at h
        cases h3 : (if z then readU64 o b2 else .ok (nanBits, b2)) with
        | error e => simp [h3] at h
        | ok v3 =>
          obtain ⟨zv, b3⟩ := v3
          simp only [h3] at h
          cases h4 : (if m then readU64 o b3 else .ok (nanBits, b3)) with
          | error e => simp [h4] at h
          | ok v4 =>
            obtain ⟨mv, b4⟩ := v4
            simp only [h4] at h
            cases h5 : readCoords o z m n b4 with
            | error e => simp [h5] at h
            | ok v5 =>
              obtain ⟨ps', b5⟩ := v5
              simp only [h5, Except.ok.injEq, Prod.mk.injEq] at h
              rw [← h.1]
              simp [readCoords_length o z m n b4 ps' b5 h5]

theorem readCoordSeq_spec (o : Order) (z m : Bool) (n : Nat) (bs : List UInt8) (s : CSeq) (r : List UInt8)
    (h : readCoordSeq o z m n bs = .ok (s, r)) : s.pts.length = n ∧ s.hasZ = z ∧ s.hasM = m := by
  simp only [readCoordSeq] at h
  by_cases hg : bs.length < n * 16
  · simp [hg] at h
  · simp only [hg, if_false] at h
    cases h1 : readCoords o z m n bs with
    | error e => simp [h1] at h
    | ok v1 =>
      obtain ⟨ps, b1⟩ := v1
      simp only [h1, Except.ok.injEq, Prod.mk.injEq] at h
      rw [← h.1]
      exact ⟨readCoords_length o z m n bs ps b1 h1, rfl, rfl⟩

theorem readRing_ok (o : Order) (z m : Bool) (bs : List UInt8) (s : CSeq) (r : List UInt8)
    (h : readRing o z m bs = .ok (s, r)) : (lineOK s && ringOK s) = true := by
  simp only [readRing] at h
  cases h1 : readSizedSeq o z m bs with
  | error e => simp [h1] at h
  | ok v1 =>
    obtain ⟨s1, b1⟩ := v1
    simp only [h1] at h
    by_cases hok : (lineOK s1 && ringOK s1) = true
    · simp only [hok, if_true, Except.ok.injEq, Prod.mk.injEq] at h
      rw [← h.1]; exact hok
    · simp [hok] at h

theorem readRings_ok (o : Order) (z m : Bool) :
    ∀ (n : Nat) (bs : List UInt8) (ss : List CSeq) (r : List UInt8),
      readRings o z m n bs = .ok (ss, r) → ss.all (fun r => lineOK r && ringOK r) = true
  | 0, bs, ss, r, h => by
    simp only [readRings, Except.ok.injEq, Prod.mk.injEq] at h
    rw [← h.1]; rfl
  | n + 1, bs, ss, r, h => by
    simp only [readRings] at h
    cases h1 : readRing o z m bs with
    | error e => simp [h1] at h
    | ok v1 =>
      obtain ⟨s, bs1⟩ := v1
      simp only [h1] at h
      cases h2 : readRings o z m n bs1 with
      | error e => simp [h2] at h
      | ok v2 =>
        obtain ⟨ss', bs2⟩ := v2
        simp only [h2, Except.ok.injEq, Prod.mk.injEq] at h
        rw [← h.1]
        simp only [List.all_cons, Bool.and_eq_true]
        exact ⟨by simpa using readRing_ok o z m bs s bs1 h1, readRings_ok o z m n bs1 ss' bs2 h2⟩

/-- a child reader whose every result has property `P` -/
def RdAll (P : G → Prop) (f : Order → List UInt8 → Except Err (G × Order × List UInt8)) : Prop :=
  ∀ o bs g o' bs', f o bs = .ok (g, o', bs') → P g

theorem readN_all (P : G → Prop) (f : Order → List UInt8 → Except Err (G × Order × List UInt8)) (hf : RdAll P f) :
    ∀ (n : Nat) (o : Order) (bs : List UInt8) (gs : List G) (o' : Order) (r : List UInt8),
      readN f n o bs = .ok (gs, o', r) → ∀ g ∈ gs, P g
  | 0, o, bs, gs, o', r, h => by
    simp only [readN, Except.ok.injEq, Prod.mk.injEq] at h
    rw [← h.1]; simp
  | n + 1, o, bs, gs, o', r, h => by
    simp only [readN] at h
    cases h1 : f o bs with
    | error e => simp [h1] at h
    | ok v1 =>
      obtain ⟨g1, o1, bs1⟩ := v1
      simp only [h1] at h
      cases h2 : readN f n o1 bs1 with
      | error e => simp [h2] at h
      | ok v2 =>
        obtain ⟨gs', o2, bs2⟩ := v2
        simp only [h2, Except.ok.injEq, Prod.mk.injEq] at h
        rw [← h.1]
        intro g hg
        simp only [List.mem_cons] at hg
        rcases hg with rfl | hg
        · exact hf _ _ _ _ _ h1
        · exact readN_all P f hf n o1 bs1 gs' o2 bs2 h2 g hg

/-- a nested-geometry reader all of whose results are well-formed -/
def RdWF (arc : ArcOracle) (rd : Order → List UInt8 → GRes) : Prop :=
  ∀ o bs g s o' bs', rd o bs = .ok ((g, s), o', bs') → WFG arc g = true

theorem asChild_all (rd : Order → List UInt8 → GRes) (hrd : RdWF arc rd) (p : G → Bool) :
    RdAll (fun g => p g = true ∧ WFG arc g = true) (fun o bs => asChild p (rd o bs)) := by
  intro o bs g o' bs' h
  simp only at h
  cases hr : rd o bs with
  | error e => simp [hr, asChild] at h
  | ok v =>
    obtain ⟨⟨g0, s0⟩, o0, b0⟩ := v
    simp only [hr, asChild] at h
    by_cases hp : p g0 = true
    · simp only [hp, if_true, Except.ok.injEq, Prod.mk.injEq] at h
      rw [← h.1]
      exact ⟨hp, hrd _ _ _ _ _ _ hr⟩
    · simp [hp] at h

theorem all_of_forall (p : G → Bool) (gs : List G) (h : ∀ g ∈ gs, p g = true) : gs.all p = true := by
  simpa [List.all_eq_true] using h

theorem WFGs_of_forall (gs : List G) (h : ∀ g ∈ gs, WFG arc g = true) : WFGs arc gs = true := by
  induction gs with
  | nil => rfl
  | cons g gs ih =>
    simp only [WFGs, Bool.and_eq_true]
    exact ⟨h g (by simp), ih (fun x hx => h x (by simp [hx]))⟩

theorem readColl_wf (rd : Order → List UInt8 → GRes) (hrd : RdWF arc rd) (p : G → Bool) (unit : Nat)
    (mk : List G → G) (hmk : ∀ gs, gs.all p = true → WFGs arc gs = true → WFG arc (mk gs) = true)
    (h : Hdr) (bs : List UInt8) (g : G) (s : Int) (o' : Order) (bs' : List UInt8)
    (hr : readColl rd p unit mk h bs = .ok ((g, s), o', bs')) : WFG arc g = true := by
  simp only [readColl] at hr
  cases h1 : readU32 h.order bs with
  | error e => simp [h1] at hr
  | ok v1 =>
    obtain ⟨n, bs1⟩ := v1
    simp only [h1] at hr
    by_cases hg : bs1.length < n * unit
    · simp [hg] at hr
    · simp only [hg, if_false] at hr
      cases hN : readN (fun o bs => asChild p (rd o bs)) n h.order bs1 with
      | error e => simp [hN] at hr
      | ok v2 =>
        obtain ⟨gs, o2, bs2⟩ := v2
        simp only [hN, Except.ok.injEq, Prod.mk.injEq] at hr
        rw [← hr.1.1]
        have hall := readN_all _ _ (asChild_all rd hrd p) _ _ _ gs o2 bs2 hN
        exact hmk gs (all_of_forall p gs (fun g hg => (hall g hg).1)) (WFGs_of_forall gs (fun g hg => (hall g hg).2))

theorem pointOfSeq_wf (s : CSeq) (h : s.pts.length = 1) : WFG arc (pointOfSeq s) = true := by
  unfold pointOfSeq
  split
  · split <;> simp [WFG, h]
  · simp [WFG, h]

theorem readBody_wf (rd : Order → List UInt8 → GRes) (hrd : RdWF arc rd) (h : Hdr) (bs : List UInt8)
    (g : G) (s : Int) (o' : Order) (bs' : List UInt8)
    (hr : readBody arc rd h bs = .ok ((g, s), o', bs')) : WFG arc g = true := by
  cases hk : h.kind
  case point =>
    simp only [readBody, hk] at hr
    cases h1 : readCoordSeq h.order h.hasZ h.hasM 1 bs with
    | error e => simp [h1] at hr
    | ok v1 =>
      obtain ⟨s1, b1⟩ := v1
      simp only [h1, Except.ok.injEq, Prod.mk.injEq] at hr
      rw [← hr.1.1]
      exact pointOfSeq_wf s1 (readCoordSeq_spec _ _ _ _ _ _ _ h1).1
  case lineString =>
    simp only [readBody, hk] at hr
    cases h1 : readSizedSeq h.order h.hasZ h.hasM bs with
    | error e => simp [h1] at hr
    | ok v1 =>
      obtain ⟨s1, b1⟩ := v1
      simp only [h1] at hr
      by_cases hok : lineOK s1 = true
      · simp only [hok, if_true, Except.ok.injEq, Prod.mk.injEq] at hr
        rw [← hr.1.1]; simpa [WFG] using hok
      · simp [hok] at hr
  case circularString =>
    simp only [readBody, hk] at hr
    cases h1 : readSizedSeq h.order h.hasZ h.hasM bs with
    | error e => simp [h1] at hr
    | ok v1 =>
      obtain ⟨s1, b1⟩ := v1
      simp only [h1] at hr
      by_cases hok : circOK arc s1 = true
      · simp only [hok, if_true, Except.ok.injEq, Prod.mk.injEq] at hr
        rw [← hr.1.1]; simpa [WFG] using hok
      · simp [hok] at hr
  case polygon =>
    simp only [readBody, hk] at hr
    cases h1 : readU32 h.order bs with
    | error e => simp [h1] at hr
    | ok v1 =>
      obtain ⟨n, b1⟩ := v1
      simp only [h1] at hr
      by_cases hg : b1.length < n * 4
      · simp [hg] at hr
      · simp only [hg, if_false] at hr
        cases n with
        | zero =>
          simp only [Except.ok.injEq, Prod.mk.injEq] at hr
          rw [← hr.1.1]; simp [WFG, lineOK, ringOK]
        | succ k =>
          simp only at hr
          cases h2 : readRing h.order h.hasZ h.hasM b1 with
          | error e => simp [h2] at hr
          | ok v2 =>
            obtain ⟨sh, b2⟩ := v2
            simp only [h2] at hr
            cases h3 : readRings h.order h.hasZ h.hasM k b2 with
            | error e => simp [h3] at hr
            | ok v3 =>
              obtain ⟨hs, b3⟩ := v3
              simp only [h3] at hr
              by_cases hc : (sh.pts.isEmpty && hs.any (fun r => !r.pts.isEmpty)) = true
              · simp [hc] at hr
              · simp only [hc, Bool.false_eq_true, if_false, Except.ok.injEq, Prod.mk.injEq] at hr
                rw [← hr.1.1]
                have a := readRing_ok _ _ _ _ _ _ h2
                have b := readRings_ok _ _ _ _ _ _ _ h3
                simp only [WFG, Bool.and_eq_true, Bool.not_eq_true']
                simp only [Bool.and_eq_true] at a
                exact ⟨⟨a, b⟩, by simpa using hc⟩
  case compoundCurve =>
    simp only [readBody, hk] at hr
    cases h1 : readU32 h.order bs with
    | error e => simp [h1] at hr
    | ok v1 =>
      obtain ⟨n, b1⟩ := v1
      simp only [h1] at hr
      by_cases hg : b1.length < n * 9
      · simp [hg] at hr
      · simp only [hg, if_false] at hr
        cases hN : readN (fun o bs => asChild isSimpleCurve (rd o bs)) n h.order b1 with
        | error e => simp [hN] at hr
        | ok v2 =>
          obtain ⟨gs, o2, b2⟩ := v2
          simp only [hN] at hr
          cases hc : checkContig gs with
          | error e => simp [hc] at hr
          | ok u =>
            simp only [hc, Except.ok.injEq, Prod.mk.injEq] at hr
            rw [← hr.1.1]
            have hall := readN_all _ _ (asChild_all rd hrd isSimpleCurve) _ _ _ gs o2 b2 hN
            simp only [WFG, Bool.and_eq_true]
            exact ⟨⟨all_of_forall _ gs (fun g hg => (hall g hg).1), WFGs_of_forall gs (fun g hg => (hall g hg).2)⟩,
              by simp [hc, errOk]⟩
  case curvePolygon =>
    simp only [readBody, hk] at hr
    cases h1 : readU32 h.order bs with
    | error e => simp [h1] at hr
    | ok v1 =>
      obtain ⟨n, b1⟩ := v1
      simp only [h1] at hr
      by_cases hg : b1.length < n * 4
      · simp [hg] at hr
      · simp only [hg, if_false] at hr
        cases n with
        | zero =>
          simp only [Except.ok.injEq, Prod.mk.injEq] at hr
          rw [← hr.1.1]; simp [WFG, WFGs, isCurve, lineOK, ringOK, gIsEmpty]
        | succ k =>
          simp only at hr
          cases h2 : asChild isCurve (rd h.order b1) with
          | error e => simp [h2] at hr
          | ok v2 =>
            obtain ⟨sh, o2, b2⟩ := v2
            simp only [h2] at hr
            cases h3 : readN (fun o bs => asChild isCurve (rd o bs)) k o2 b2 with
            | error e => simp [h3] at hr
            | ok v3 =>
              obtain ⟨hs, o3, b3⟩ := v3
              simp only [h3] at hr
              by_cases hc : (gIsEmpty sh && hs.any (fun r => !gIsEmpty r)) = true
              · simp [hc] at hr
              · simp only [hc, Bool.false_eq_true, if_false, Except.ok.injEq, Prod.mk.injEq] at hr
                rw [← hr.1.1]
                have a := asChild_all rd hrd isCurve _ _ _ _ _ h2
                have hall := readN_all _ _ (asChild_all rd hrd isCurve) _ _ _ hs o3 b3 h3
                simp only [WFG, WFGs, List.all_cons, Bool.and_eq_true, Bool.not_eq_true']
                exact ⟨⟨⟨a.1, all_of_forall _ hs (fun g hg => (hall g hg).1)⟩,
                  ⟨a.2, WFGs_of_forall hs (fun g hg => (hall g hg).2)⟩⟩, by simpa using hc⟩
  case multiPoint =>
    simp only [readBody, hk] at hr
    exact readColl_wf rd hrd _ _ _ (fun gs h1 h2 => by simp [WFG, h1, h2]) h bs g s o' bs' hr
  case multiLineString =>
    simp only [readBody, hk] at hr
    exact readColl_wf rd hrd _ _ _ (fun gs h1 h2 => by simp [WFG, h1, h2]) h bs g s o' bs' hr
  case multiPolygon =>
    simp only [readBody, hk] at hr
    exact readColl_wf rd hrd _ _ _ (fun gs h1 h2 => by simp [WFG, h1, h2]) h bs g s o' bs' hr
  case collection =>
    simp only [readBody, hk] at hr
    exact readColl_wf rd hrd _ _ _ (fun gs h1 h2 => by simp [WFG, h2]) h bs g s o' bs' hr
  case multiCurve =>
    simp only [readBody, hk] at hr
    exact readColl_wf rd hrd _ _ _ (fun gs h1 h2 => by simp [WFG, h1, h2]) h bs g s o' bs' hr
  case multiSurface =>
    simp only [readBody, hk] at hr
    exact readColl_wf rd hrd _ _ _ (fun gs h1 h2 => by simp [WFG, h1, h2]) h bs g s o' bs' hr

theorem readGeom_wf : ∀ (fuel : Nat), RdWF arc (readGeom arc fuel)
  | 0 => by intro o bs g s o' bs' h; simp [readGeom] at h
  | fuel + 1 => by
    intro o bs g s o' bs' h
    simp only [readGeom] at h
    cases h1 : readHeader o bs with
    | error e => simp [h1] at h
    | ok v =>
      obtain ⟨hd, b1⟩ := v
      simp only [h1] at h
      exact readBody_wf (readGeom arc fuel) (readGeom_wf fuel) hd b1 g s o' bs' h

/-- whatever the reader returns satisfies every constructor invariant -/
theorem read_wf (bs : List UInt8) (g : Geom) (h : read arc bs = .ok g) : WFG arc g.g = true := by
  simp only [read] at h
  cases h1 : readGeom arc (bs.length + 1) .le bs with
  | error e => simp [h1] at h
  | ok v =>
    obtain ⟨⟨g0, s0⟩, o0, b0⟩ := v
    simp only [h1, Except.ok.injEq] at h
    rw [← h]
    exact readGeom_wf _ _ _ _ _ _ _ h1

end GeosModel.WKB
