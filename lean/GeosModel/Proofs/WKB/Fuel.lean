import GeosModel.Proofs.WKB.Safe
/-! C11 for the WKB reader, part 2: every reader consumes its input monotonically; the fuel (= recursion
depth budget) `input length / 5 + 1` is never exhausted. -/
namespace GeosModel.WKB
open GeosModel

variable {arc : ArcOracle}

theorem readByte_len {bs : List UInt8} {b : UInt8} {r : List UInt8} (h : readByte bs = .ok (b, r)) :
    r.length + 1 = bs.length := by
  cases bs with
  | nil => simp [readByte] at h
  | cons a t => simp only [readByte, Except.ok.injEq, Prod.mk.injEq] at h; rw [← h.2]; simp

theorem readU32_len {o : Order} {bs : List UInt8} {n : Nat} {r : List UInt8} (h : readU32 o bs = .ok (n, r)) :
    r.length + 4 = bs.length := by
  match bs, h with
  | a :: b :: c :: d :: t, h =>
    simp only [readU32, Except.ok.injEq, Prod.mk.injEq] at h; rw [← h.2]; simp

theorem readU32_err {o : Order} {bs : List UInt8} {e : Err} (h : readU32 o bs = .error e) : e = .eof := by
  unfold readU32 at h
  split at h
  · simp at h
  · simp only [Except.error.injEq] at h; exact h.symm

theorem readU64_len {o : Order} {bs : List UInt8} {n : UInt64} {r : List UInt8} (h : readU64 o bs = .ok (n, r)) :
    r.length + 8 = bs.length := by
  match bs, h with
  | a :: b :: c :: d :: e :: f :: g :: i :: t, h =>
    simp only [readU64, Except.ok.injEq, Prod.mk.injEq] at h; rw [← h.2]; simp

theorem readU64_err {o : Order} {bs : List UInt8} {e : Err} (h : readU64 o bs = .error e) : e = .eof := by
  unfold readU64 at h
  split at h
  · simp at h
  · simp only [Except.error.injEq] at h; exact h.symm

theorem optU64_len {o : Order} {c : Bool} {bs : List UInt8} {n : UInt64} {r : List UInt8}
    (h : (if c then readU64 o bs else .ok (nanBits, bs)) = .ok (n, r)) : r.length ≤ bs.length := by
  cases c
  · simp only [Bool.false_eq_true, if_false, Except.ok.injEq, Prod.mk.injEq] at h; rw [← h.2]; exact Nat.le_refl _
  · simp only [if_true] at h; have := readU64_len h; omega

theorem optU64_err {o : Order} {c : Bool} {bs : List UInt8} {e : Err}
    (h : (if c then readU64 o bs else .ok (nanBits, bs)) = .error e) : e = .eof := by
  cases c
  · simp at h
  · simp only [if_true] at h; exact readU64_err h

/-- outcome of a reader: consumed monotonically, and an error is never "out of fuel" -/
def Good {α : Type} (bs : List UInt8) (res : Except Err (α × List UInt8)) : Prop :=
  match res with
  | .ok (_, r) => r.length ≤ bs.length
  | .error e => e ≠ .fuel

theorem readCoords_good (o : Order) (z m : Bool) : ∀ (n : Nat) (bs : List UInt8), Good bs (readCoords o z m n bs)
  | 0, bs => by simp [readCoords, Good]
  | n + 1, bs => by
    simp only [readCoords]
    cases h1 : readU64 o bs with
    | error e => simp [Good, readU64_err h1]
    | ok v1 =>
      obtain ⟨x, b1⟩ := v1
      simp only
      cases h2 : readU64 o b1 with
      | error e => simp [Good, readU64_err h2]
      | ok v2 =>
        obtain ⟨y, b2⟩ := v2
        simp only
        cases h3 : (if z then readU64 o b2 else .ok (nanBits, b2)) with
        | error e => simp [Good, optU64_err h3]
        | ok v3 =>
          obtain ⟨zv, b3⟩ := v3
          simp only
          cases h4 : (if m then readU64 o b3 else .ok (nanBits, b3)) with
          | error e => simp [Good, optU64_err h4]
          | ok v4 =>
            obtain ⟨mv, b4⟩ := v4
            simp only
            have ih := readCoords_good o z m n b4
            have l1 := readU64_len h1; have l2 := readU64_len h2
            have l3 := optU64_len h3; have l4 := optU64_len h4
            cases h5 : readCoords o z m n b4 with
            | error e => simp only [h5, Good] at ih ⊢; exact ih
            | ok v5 =>
              obtain ⟨ps, b5⟩ := v5
              simp only [h5, Good] at ih ⊢; omega

theorem readCoordSeq_good (o : Order) (z m : Bool) (n : Nat) (bs : List UInt8) : Good bs (readCoordSeq o z m n bs) := by
  simp only [readCoordSeq]
  split
  · simp [Good]
  · have ih := readCoords_good o z m n bs
    cases h : readCoords o z m n bs with
    | error e => simp only [h, Good] at ih ⊢; exact ih
    | ok v => obtain ⟨ps, b⟩ := v; simp only [h, Good] at ih ⊢; exact ih

theorem readSizedSeq_good (o : Order) (z m : Bool) (bs : List UInt8) : Good bs (readSizedSeq o z m bs) := by
  simp only [readSizedSeq]
  cases h1 : readU32 o bs with
  | error e => simp [Good, readU32_err h1]
  | ok v1 =>
    obtain ⟨n, b1⟩ := v1
    simp only
    split
    · simp [Good]
    · have ih := readCoordSeq_good o z m n b1
      have l1 := readU32_len h1
      cases h : readCoordSeq o z m n b1 with
      | error e => simp only [h, Good] at ih ⊢; exact ih
      | ok v => obtain ⟨s, b⟩ := v; simp only [h, Good] at ih ⊢; omega

theorem readRing_good (o : Order) (z m : Bool) (bs : List UInt8) : Good bs (readRing o z m bs) := by
  simp only [readRing]
  have ih := readSizedSeq_good o z m bs
  cases h : readSizedSeq o z m bs with
  | error e => simp only [h, Good] at ih ⊢; exact ih
  | ok v =>
    obtain ⟨s, b⟩ := v
    simp only [h, Good] at ih
    by_cases hok : (lineOK s && ringOK s) = true
    · simp only [hok, if_true, Good]; exact ih
    · simp [hok, Good]

theorem readRings_good (o : Order) (z m : Bool) : ∀ (n : Nat) (bs : List UInt8), Good bs (readRings o z m n bs)
  | 0, bs => by simp [readRings, Good]
  | n + 1, bs => by
    simp only [readRings]
    have i1 := readRing_good o z m bs
    cases h1 : readRing o z m bs with
    | error e => simp only [h1, Good] at i1 ⊢; exact i1
    | ok v1 =>
      obtain ⟨s, b1⟩ := v1
      simp only [h1, Good] at i1
      have i2 := readRings_good o z m n b1
      cases h2 : readRings o z m n b1 with
      | error e => simp only [h2, Good] at i2 ⊢; exact i2
      | ok v2 => obtain ⟨ss, b2⟩ := v2; simp only [h2, Good] at i2 ⊢; omega

/-- the same for readers that also thread the byte order -/
def Good3 {α : Type} (bs : List UInt8) (res : Except Err (α × Order × List UInt8)) : Prop :=
  match res with
  | .ok (_, _, r) => r.length ≤ bs.length
  | .error e => e ≠ .fuel

/-- a reader that behaves on every input of length at most `L` -/
def RdGood {α : Type} (L : Nat) (rd : Order → List UInt8 → Except Err (α × Order × List UInt8)) : Prop :=
  ∀ o x, x.length ≤ L → Good3 x (rd o x)

theorem asChild_good (L : Nat) (rd : Order → List UInt8 → GRes) (hrd : RdGood L rd) (p : G → Bool) :
    RdGood L (fun o bs => asChild p (rd o bs)) := by
  intro o x hx
  have ih := hrd o x hx
  simp only
  cases h : rd o x with
  | error e => simp only [h, Good3, asChild] at ih ⊢; exact ih
  | ok v =>
    obtain ⟨⟨g, s⟩, o1, b1⟩ := v
    simp only [h, Good3, asChild] at ih ⊢
    by_cases hp : p g = true
    · simp only [hp, if_true]; exact ih
    · simp [hp]

theorem readN_good (L : Nat) (f : Order → List UInt8 → Except Err (G × Order × List UInt8)) (hf : RdGood L f) :
    ∀ (n : Nat), RdGood L (readN f n)
  | 0 => by intro o x _; simp [readN, Good3]
  | n + 1 => by
    intro o x hx
    simp only [readN]
    have i1 := hf o x hx
    cases h1 : f o x with
    | error e => simp only [h1, Good3] at i1 ⊢; exact i1
    | ok v1 =>
      obtain ⟨g, o1, b1⟩ := v1
      simp only [h1, Good3] at i1
      have i2 := readN_good L f hf n o1 b1 (by omega)
      simp only
      cases h2 : readN f n o1 b1 with
      | error e => simp only [h2, Good3] at i2 ⊢; exact i2
      | ok v2 => obtain ⟨gs, o2, b2⟩ := v2; simp only [h2, Good3] at i2 ⊢; omega

theorem readColl_good (L : Nat) (rd : Order → List UInt8 → GRes) (hrd : RdGood L rd) (p : G → Bool) (unit : Nat)
    (mk : List G → G) (h : Hdr) (bs : List UInt8) (hb : bs.length ≤ L) :
    Good3 bs (readColl rd p unit mk h bs) := by
  simp only [readColl]
  cases h1 : readU32 h.order bs with
  | error e => simp [Good3, readU32_err h1]
  | ok v1 =>
    obtain ⟨n, b1⟩ := v1
    have l1 := readU32_len h1
    simp only
    split
    · simp [Good3]
    · have i2 := readN_good L _ (asChild_good L rd hrd p) n h.order b1 (by omega)
      cases h2 : readN (fun o bs => asChild p (rd o bs)) n h.order b1 with
      | error e => simp only [h2, Good3] at i2 ⊢; exact i2
      | ok v2 => obtain ⟨gs, o2, b2⟩ := v2; simp only [h2, Good3] at i2 ⊢; omega

theorem checkContig_err (gs : List G) (e : Err) (h : checkContig gs = .error e) : e ≠ .fuel := by
  induction gs with
  | nil => simp [checkContig] at h
  | cons a rest ih =>
    cases rest with
    | nil => simp [checkContig] at h
    | cons b rest =>
      simp only [checkContig] at h
      split at h
      · split at h
        · exact ih h
        · simp only [Except.error.injEq] at h; rw [← h]; simp
      · simp only [Except.error.injEq] at h; rw [← h]; simp

theorem readBody_good (L : Nat) (rd : Order → List UInt8 → GRes) (hrd : RdGood L rd) (h : Hdr) (bs : List UInt8)
    (hb : bs.length ≤ L) : Good3 bs (readBody arc rd h bs) := by
  cases hk : h.kind
  case point =>
    simp only [readBody, hk]
    have i1 := readCoordSeq_good h.order h.hasZ h.hasM 1 bs
    cases h1 : readCoordSeq h.order h.hasZ h.hasM 1 bs with
    | error e => simp only [h1, Good, Good3] at i1 ⊢; exact i1
    | ok v => obtain ⟨s, b⟩ := v; simp only [h1, Good, Good3] at i1 ⊢; exact i1
  case lineString =>
    simp only [readBody, hk]
    have i1 := readSizedSeq_good h.order h.hasZ h.hasM bs
    cases h1 : readSizedSeq h.order h.hasZ h.hasM bs with
    | error e => simp only [h1, Good, Good3] at i1 ⊢; exact i1
    | ok v =>
      obtain ⟨s, b⟩ := v; simp only [h1, Good] at i1
      by_cases hok : lineOK s = true
      · simp only [hok, if_true, Good3]; exact i1
      · simp [hok, Good3]
  case circularString =>
    simp only [readBody, hk]
    have i1 := readSizedSeq_good h.order h.hasZ h.hasM bs
    cases h1 : readSizedSeq h.order h.hasZ h.hasM bs with
    | error e => simp only [h1, Good, Good3] at i1 ⊢; exact i1
    | ok v =>
      obtain ⟨s, b⟩ := v; simp only [h1, Good] at i1
      by_cases hok : circOK arc s = true
      · simp only [hok, if_true, Good3]; exact i1
      · simp [hok, Good3]
  case polygon =>
    simp only [readBody, hk]
    cases h1 : readU32 h.order bs with
    | error e => simp [Good3, readU32_err h1]
    | ok v1 =>
      obtain ⟨n, b1⟩ := v1
      have l1 := readU32_len h1
      simp only
      by_cases hg : b1.length < n * 4
      · simp [hg, Good3]
      · simp only [hg, if_false]
        cases n with
        | zero => simp only [Good3]; omega
        | succ k =>
          simp only
          have i2 := readRing_good h.order h.hasZ h.hasM b1
          cases h2 : readRing h.order h.hasZ h.hasM b1 with
          | error e => simp only [h2, Good, Good3] at i2 ⊢; exact i2
          | ok v2 =>
            obtain ⟨sh, b2⟩ := v2
            simp only [h2, Good] at i2
            have i3 := readRings_good h.order h.hasZ h.hasM k b2
            simp only
            cases h3 : readRings h.order h.hasZ h.hasM k b2 with
            | error e => simp only [h3, Good, Good3] at i3 ⊢; exact i3
            | ok v3 =>
              obtain ⟨hs, b3⟩ := v3
              simp only [h3, Good] at i3
              simp only
              split
              · simp [Good3]
              · simp only [Good3]; omega
  case compoundCurve =>
    simp only [readBody, hk]
    cases h1 : readU32 h.order bs with
    | error e => simp [Good3, readU32_err h1]
    | ok v1 =>
      obtain ⟨n, b1⟩ := v1
      have l1 := readU32_len h1
      simp only
      by_cases hg : b1.length < n * 9
      · simp [hg, Good3]
      · simp only [hg, if_false]
        have i2 := readN_good L _ (asChild_good L rd hrd isSimpleCurve) n h.order b1 (by omega)
        cases h2 : readN (fun o bs => asChild isSimpleCurve (rd o bs)) n h.order b1 with
        | error e => simp only [h2, Good3] at i2 ⊢; exact i2
        | ok v2 =>
          obtain ⟨gs, o2, b2⟩ := v2
          simp only [h2, Good3] at i2
          simp only
          cases hc : checkContig gs with
          | error e => simp only [Good3]; exact checkContig_err gs e hc
          | ok u => simp only [Good3]; omega
  case curvePolygon =>
    simp only [readBody, hk]
    cases h1 : readU32 h.order bs with
    | error e => simp [Good3, readU32_err h1]
    | ok v1 =>
      obtain ⟨n, b1⟩ := v1
      have l1 := readU32_len h1
      simp only
      by_cases hg : b1.length < n * 4
      · simp [hg, Good3]
      · simp only [hg, if_false]
        cases n with
        | zero => simp only [Good3]; omega
        | succ k =>
          simp only
          have i2 := asChild_good L rd hrd isCurve h.order b1 (by omega)
          simp only at i2
          cases h2 : asChild isCurve (rd h.order b1) with
          | error e => simp only [h2, Good3] at i2 ⊢; exact i2
          | ok v2 =>
            obtain ⟨sh, o2, b2⟩ := v2
            simp only [h2, Good3] at i2
            have i3 := readN_good L _ (asChild_good L rd hrd isCurve) k o2 b2 (by omega)
            simp only
            cases h3 : readN (fun o bs => asChild isCurve (rd o bs)) k o2 b2 with
            | error e => simp only [h3, Good3] at i3 ⊢; exact i3
            | ok v3 =>
              obtain ⟨hs, o3, b3⟩ := v3
              simp only [h3, Good3] at i3
              simp only
              split
              · simp [Good3]
              · simp only [Good3]; omega
  case multiPoint => simp only [readBody, hk]; exact readColl_good L rd hrd _ _ _ h bs hb
  case multiLineString => simp only [readBody, hk]; exact readColl_good L rd hrd _ _ _ h bs hb
  case multiPolygon => simp only [readBody, hk]; exact readColl_good L rd hrd _ _ _ h bs hb
  case collection => simp only [readBody, hk]; exact readColl_good L rd hrd _ _ _ h bs hb
  case multiCurve => simp only [readBody, hk]; exact readColl_good L rd hrd _ _ _ h bs hb
  case multiSurface => simp only [readBody, hk]; exact readColl_good L rd hrd _ _ _ h bs hb

/-- the header takes at least five bytes and never fails for lack of fuel -/
theorem readHeader_good (o : Order) (bs : List UInt8) :
    match readHeader o bs with
    | .ok (_, r) => r.length + 5 ≤ bs.length
    | .error e => e ≠ .fuel := by
  simp only [readHeader]
  cases h1 : readByte bs with
  | error e =>
    cases bs with
    | nil => simp only [readByte, Except.error.injEq] at h1; simp [← h1]
    | cons a t => simp [readByte] at h1
  | ok v1 =>
    obtain ⟨b, b1⟩ := v1
    have l1 := readByte_len h1
    simp only
    cases h2 : readU32 (if b = 1 then Order.le else if b = 0 then Order.be else o) b1 with
    | error e => simp [readU32_err h2]
    | ok v2 =>
      obtain ⟨t, b2⟩ := v2
      have l2 := readU32_len h2
      simp only
      rcases hdt : decodeType t with ⟨gt, z, m, sf⟩
      cases sf
      · simp only
        cases hk : kindOfCode gt with
        | none => simp
        | some k => simp only; omega
      · simp only
        cases h3 : readU32 (if b = 1 then Order.le else if b = 0 then Order.be else o) b2 with
        | error e => simp [readU32_err h3]
        | ok v3 =>
          obtain ⟨v, b3⟩ := v3
          have l3 := readU32_len h3
          simp only
          cases hk : kindOfCode gt with
          | none => simp
          | some k => simp only; omega

/-- **fuel = recursion-depth budget**: with more than `length / 5` levels allowed the reader never runs
out, and it consumes its input monotonically -/
theorem readGeom_good : ∀ (fuel : Nat) (o : Order) (bs : List UInt8), bs.length < 5 * fuel →
    Good3 bs (readGeom arc fuel o bs)
  | 0, o, bs, h => by omega
  | fuel + 1, o, bs, h => by
    simp only [readGeom]
    have hh := readHeader_good o bs
    cases h1 : readHeader o bs with
    | error e => simp only [h1] at hh; simp only [Good3]; exact hh
    | ok v =>
      obtain ⟨hd, b1⟩ := v
      simp only [h1] at hh
      simp only
      have hrd : RdGood b1.length (readGeom arc fuel) := fun o x hx => readGeom_good fuel o x (by omega)
      have := readBody_good (arc := arc) b1.length (readGeom arc fuel) hrd hd b1 (Nat.le_refl _)
      cases h2 : readBody arc (readGeom arc fuel) hd b1 with
      | error e => simp only [h2, Good3] at this ⊢; exact this
      | ok v2 => obtain ⟨r, o2, b2⟩ := v2; simp only [h2, Good3] at this ⊢; omega

theorem read_fuel_ok (bs : List UInt8) : read arc bs ≠ .error .fuel := by
  have := readGeom_good (arc := arc) (bs.length + 1) .le bs (by omega)
  simp only [read]
  cases h : readGeom arc (bs.length + 1) .le bs with
  | error e => simp only [h, Good3] at this; simpa using this
  | ok v => obtain ⟨⟨g, s⟩, o, b⟩ := v; simp

end GeosModel.WKB
