import GeosModel.Proofs.WKB.Rewrite
/-! Top-level statements about `read`/`write` on `Geom` (C09), assembled from the inductions. -/
namespace GeosModel.WKB
open GeosModel

variable {arc : ArcOracle}

mutual
  theorem dep_le_length (c : Cfg) : ∀ (g : G) (e : Int), dep g ≤ (writeG c e g).length
    | .point s, e => by have := writeG_length_ge c e (.point s); simp only [dep]; omega
    | .lineString s, e => by have := writeG_length_ge c e (.lineString s); simp only [dep]; omega
    | .linearRing s, e => by have := writeG_length_ge c e (.linearRing s); simp only [dep]; omega
    | .circularString s, e => by have := writeG_length_ge c e (.circularString s); simp only [dep]; omega
    | .polygon sh hs, e => by have := writeG_length_ge c e (.polygon sh hs); simp only [dep]; omega
    | .compoundCurve gs, e => by have := writeG_length_ge c e (.compoundCurve gs); simp only [dep]; omega
    | .curvePolygon gs, e => by
      simp only [dep]
      split
      · have := writeG_length_ge c e (.curvePolygon gs); omega
      · rename_i h
        have h1 := depL_le_length c gs
        have h2 := header_length_ge c (outOrd c.dims (anySeqs (·.hasZ) gs) (anySeqs (·.hasM) gs)).1
          (outOrd c.dims (anySeqs (·.hasZ) gs) (anySeqs (·.hasM) gs)).2 10 e
        simp only [writeG, h, if_false, List.length_append, putU32_length, Bool.false_eq_true]
        omega
    | .multiPoint gs, e => by
      have h1 := depL_le_length c gs; have h2 := collHeader_length_ge c e 4 gs
      simp only [dep, writeG, List.length_append]; omega
    | .multiLineString gs, e => by
      have h1 := depL_le_length c gs; have h2 := collHeader_length_ge c e 5 gs
      simp only [dep, writeG, List.length_append]; omega
    | .multiPolygon gs, e => by
      have h1 := depL_le_length c gs; have h2 := collHeader_length_ge c e 6 gs
      simp only [dep, writeG, List.length_append]; omega
    | .collection gs, e => by
      have h1 := depL_le_length c gs; have h2 := collHeader_length_ge c e 7 gs
      simp only [dep, writeG, List.length_append]; omega
    | .multiCurve gs, e => by
      have h1 := depL_le_length c gs; have h2 := collHeader_length_ge c e 11 gs
      simp only [dep, writeG, List.length_append]; omega
    | .multiSurface gs, e => by
      have h1 := depL_le_length c gs; have h2 := collHeader_length_ge c e 12 gs
      simp only [dep, writeG, List.length_append]; omega
  theorem depL_le_length (c : Cfg) : ∀ (gs : List G), depL gs ≤ 1 + (writeGs c gs).length
    | [] => by simp [depL, writeGs]
    | g :: gs => by
      have h1 := dep_le_length c g 0
      have h2 := depL_le_length c gs
      simp only [depL, writeGs, List.length_append]; omega
end

theorem sridOut_eq (c : Cfg) (srid : Int) :
    (if c.flavor = .ext then (if c.srid then srid else 0) else 0) = sridOut c srid := by
  unfold sridOut
  cases c.flavor <;> cases c.srid <;> simp

/-- what `read` returns on the bytes of `write`, for every configuration -/
theorem read_write (c : Cfg) (g : Geom) (hwf : WFG arc g.g = true) (hf : Fits g.g = true)
    (hs : sridFits g.srid = true) : read arc (write c g) = .ok (canon c g) := by
  have he : sridFits (if c.srid then g.srid else 0) = true := by
    cases c.srid <;> simp [hs, sridFits_zero]
  have hdep := dep_le_length c g.g (if c.srid then g.srid else 0)
  unfold read write
  have := readGeom_writeG c g.g hwf hf (writeG c (if c.srid then g.srid else 0) g.g).length .le
    (if c.srid then g.srid else 0) [] (by omega) he
  simp only [List.append_nil] at this
  simp only [this, canon, sridOut_eq]

theorem header_iso (c : Cfg) (oz om : Bool) (code : Nat) (e : Int) (h : c.flavor = .iso) :
    header c oz om code e = header c oz om code 0 := by
  simp [header, typeWord, h]

theorem writeG_iso_srid (c : Cfg) (h : c.flavor = .iso) (e : Int) (g : G) : writeG c e g = writeG c 0 g := by
  cases g <;> simp only [writeG, collHeader, header_iso c _ _ _ e h]

/-- re-writing the geometry returned by the round trip reproduces the bytes -/
theorem write_canon (c : Cfg) (g : Geom) (hwf : WFG arc g.g = true) (hn : NanPtCanon g.g = true) :
    write c (canon c g) = write c g := by
  unfold write canon
  simp only
  rw [writeG_canon c g.g hwf hn]
  cases hfl : c.flavor
  · cases hs : c.srid <;> simp [sridOut, hfl, hs]
  · rw [writeG_iso_srid c hfl, writeG_iso_srid c hfl (if c.srid = true then g.srid else 0)]

/-! ### at four output dimensions nothing is dropped from a canonical sequence -/

theorem maskC_canon (z m : Bool) (p : Coord) (h : Coord.canon z m p = true) : maskC z m p = p := by
  obtain ⟨x, y, pz, pm⟩ := p
  cases z <;> cases m <;> simp_all [Coord.canon, maskC]

theorem ownS4_canon (s : CSeq) (h : s.canon = true) : ownS 4 s = s := by
  obtain ⟨z, m, pts⟩ := s
  simp only [CSeq.canon, List.all_eq_true] at h
  simp only [ownS, outOrd_four, maskS, CSeq.mk.injEq, true_and]
  rw [List.map_congr_left (g := id) (fun p hp => maskC_canon z m p (h p hp))]
  simp

theorem pointOfSeq_canonical (s : CSeq) : dropDimsG 4 (pointOfSeq s) = pointOfSeq (ownS 4 s) :=
  dropDims_pointOfSeq 4 s

mutual
  theorem dropDims4_docG : ∀ (g : G), Plain g = true → dropDimsG 4 (docG g) = docG g
    | .point s, hp => by
      simp only [Plain] at hp
      simp only [docG, dropDims_pointOfSeq, ownS4_canon s hp]
    | .lineString s, hp => by simp only [Plain] at hp; simp only [docG, dropDimsG, ownS4_canon s hp]
    | .linearRing s, hp => by simp only [Plain] at hp; simp only [docG, dropDimsG, ownS4_canon s hp]
    | .circularString s, hp => by simp only [Plain] at hp; simp only [docG, dropDimsG, ownS4_canon s hp]
    | .polygon sh hs, hp => by
      simp only [Plain, Bool.and_eq_true, List.all_eq_true] at hp
      simp only [docG, dropDimsG, ownS4_canon sh hp.1.1.1, G.polygon.injEq, true_and]
      rw [List.map_congr_left (g := id) (fun r hr => ownS4_canon r (hp.1.1.2 r hr))]
      simp
    | .compoundCurve gs, hp => by
      simp only [Plain, Bool.and_eq_true] at hp
      simp only [docG, dropDimsG, dropDims4_docGs gs hp.1]
    | .curvePolygon gs, hp => by
      simp only [Plain, Bool.and_eq_true, Bool.or_eq_true, Bool.not_eq_true'] at hp
      simp only [docG]
      cases hE : gIsEmpty (.curvePolygon gs)
      · simp only [Bool.false_eq_true, if_false, dropDimsG, dropDims4_docGs gs hp.1]
      · simp only [if_true]
        rcases hp.2 with h | h
        · simp [hE] at h
        · match gs, hp.1, h with
          | [.linearRing s], hpl, _ =>
            simp only [PlainL, Plain, Bool.and_true] at hpl
            simp [dropDimsG, dropDimsGs, ownS4_canon s hpl]
    | .multiPoint gs, hp => by simp only [Plain] at hp; simp only [docG, dropDimsG, dropDims4_docGs gs hp]
    | .multiLineString gs, hp => by simp only [Plain] at hp; simp only [docG, dropDimsG, dropDims4_docGs gs hp]
    | .multiPolygon gs, hp => by simp only [Plain] at hp; simp only [docG, dropDimsG, dropDims4_docGs gs hp]
    | .collection gs, hp => by simp only [Plain] at hp; simp only [docG, dropDimsG, dropDims4_docGs gs hp]
    | .multiCurve gs, hp => by simp only [Plain] at hp; simp only [docG, dropDimsG, dropDims4_docGs gs hp]
    | .multiSurface gs, hp => by simp only [Plain] at hp; simp only [docG, dropDimsG, dropDims4_docGs gs hp]
  theorem dropDims4_docGs : ∀ (gs : List G), PlainL gs = true → dropDimsGs 4 (docGs gs) = docGs gs
    | [], _ => rfl
    | g :: gs, hp => by
      simp only [PlainL, Bool.and_eq_true] at hp
      simp only [docGs, dropDimsGs, dropDims4_docG g hp.1, dropDims4_docGs gs hp.2]
end

end GeosModel.WKB
