import GeosModel.Proofs.WKB.Canon
/-! Re-writing the re-read geometry reproduces the bytes (C09 `rewrite_fixpoint`). -/
namespace GeosModel.WKB
open GeosModel

variable {arc : ArcOracle}

/-- how the Z/M flags of a subtree (`z m`) relate to those of its round-tripped image (`z' m'`)
at output dimension `d` -/
def Rel (d : Nat) (z m z' m' : Bool) : Prop :=
  z' = (z && decide (3 ≤ d)) ∧ (m' = true → m = true) ∧ (4 ≤ d → m' = m) ∧ (d ≤ 2 → m' = false)
    ∧ (d = 3 → z = false → m' = m)

theorem Rel_nil (d : Nat) : Rel d false false false false := by simp [Rel]

theorem Rel_or (d : Nat) {z1 m1 z1' m1' z2 m2 z2' m2' : Bool} (h1 : Rel d z1 m1 z1' m1') (h2 : Rel d z2 m2 z2' m2') :
    Rel d (z1 || z2) (m1 || m2) (z1' || z2') (m1' || m2') := by
  obtain ⟨a1, b1, c1, d1, e1⟩ := h1
  obtain ⟨a2, b2, c2, d2, e2⟩ := h2
  refine ⟨?_, ?_, ?_, ?_, ?_⟩
  · subst a1 a2; cases z1 <;> cases z2 <;> simp
  · intro h; cases hm1 : m1' <;> cases hm2 : m2' <;> simp_all
  · intro h; rw [c1 h, c2 h]
  · intro h; rw [d1 h, d2 h]; rfl
  · intro h hz
    have hz1 : z1 = false := by cases z1 <;> simp_all
    have hz2 : z2 = false := by cases z2 <;> simp_all
    rw [e1 h hz1, e2 h hz2]

theorem Rel_base (d : Nat) (z m : Bool) : Rel d z m (outOrd d z m).1 (outOrd d z m).2 := by
  rcases Nat.lt_or_ge d 3 with h | h
  · cases z <;> cases m <;> simp only [Rel, outOrd, toN] <;> (repeat' split) <;> simp_all <;> omega
  · rcases Nat.lt_or_ge d 4 with h4 | h4
    · have : d = 3 := by omega
      subst this
      cases z <;> cases m <;> simp [Rel, outOrd, toN]
    · cases z <;> cases m <;> simp only [Rel, outOrd, toN] <;> (repeat' split) <;> simp_all <;> omega

theorem outOrd_lt3 (d : Nat) (z m : Bool) (h : d < 3) : outOrd d z m = (false, false) := by
  cases z <;> cases m <;> simp only [outOrd, toN] <;> (repeat' split) <;> first | rfl | omega | simp_all

theorem Rel_outOrd (d : Nat) {z m z' m' : Bool} (h : Rel d z m z' m') : outOrd d z' m' = outOrd d z m := by
  obtain ⟨a, b, c, e, f⟩ := h
  rcases Nat.lt_or_ge d 3 with h | h
  · rw [outOrd_lt3 d z' m' h, outOrd_lt3 d z m h]
  · rcases Nat.lt_or_ge d 4 with h4 | h4
    · have hd : d = 3 := by omega
      subst hd
      have hz : z' = z := by simp [a]
      subst hz
      cases hz : z'
      · rw [f rfl hz]
      · cases m <;> cases m' <;> simp [outOrd, toN]
    · have hm := c h4
      have hz : z' = z := by
        have : decide (3 ≤ d) = true := by simp; omega
        simp [a, this]
      subst hm hz; rfl

/-! ### flags of the round-tripped tree -/

theorem anySeq_pointOfSeq_Z (s : CSeq) : anySeq (·.hasZ) (pointOfSeq s) = s.hasZ := by
  unfold pointOfSeq; split
  · split <;> simp [anySeq]
  · simp [anySeq]

theorem anySeq_pointOfSeq_M (s : CSeq) : anySeq (·.hasM) (pointOfSeq s) = s.hasM := by
  unfold pointOfSeq; split
  · split <;> simp [anySeq]
  · simp [anySeq]

theorem any_maskS_Z (z m : Bool) (hs : List CSeq) : (z || (hs.map (maskS z m)).any (·.hasZ)) = z := by
  induction hs with
  | nil => simp
  | cons h hs ih => cases z <;> simp_all [maskS]

theorem any_maskS_M (z m : Bool) (hs : List CSeq) : (m || (hs.map (maskS z m)).any (·.hasM)) = m := by
  induction hs with
  | nil => simp
  | cons h hs ih => cases m <;> simp_all [maskS]

theorem anySeqs_canonSec_Z (z m : Bool) (gs : List G) (hk : gs.all isSimpleCurve = true) :
    anySeqs (·.hasZ) (gs.map (canonSec z m)) = (z && !gs.isEmpty) := by
  induction gs with
  | nil => simp [anySeqs]
  | cons g gs ih =>
    simp only [List.all_cons, Bool.and_eq_true] at hk
    have : anySeq (·.hasZ) (canonSec z m g) = z := by
      cases g <;> first | (simp [isSimpleCurve] at hk; done) | simp [canonSec, anySeq, maskS]
    simp only [List.map_cons, anySeqs, this, ih hk.2]
    cases z <;> simp

theorem anySeqs_canonSec_M (z m : Bool) (gs : List G) (hk : gs.all isSimpleCurve = true) :
    anySeqs (·.hasM) (gs.map (canonSec z m)) = (m && !gs.isEmpty) := by
  induction gs with
  | nil => simp [anySeqs]
  | cons g gs ih =>
    simp only [List.all_cons, Bool.and_eq_true] at hk
    have : anySeq (·.hasM) (canonSec z m g) = m := by
      cases g <;> first | (simp [isSimpleCurve] at hk; done) | simp [canonSec, anySeq, maskS]
    simp only [List.map_cons, anySeqs, this, ih hk.2]
    cases m <;> simp

mutual
  theorem flags_canon (d : Nat) : ∀ (g : G), WFG arc g = true →
      Rel d (anySeq (·.hasZ) g) (anySeq (·.hasM) g) (anySeq (·.hasZ) (canonG d g)) (anySeq (·.hasM) (canonG d g))
    | .point s, _ => by
      simp only [canonG, anySeq_pointOfSeq_Z, anySeq_pointOfSeq_M, anySeq]; exact Rel_base d _ _
    | .lineString s, _ => by simp only [canonG, anySeq]; exact Rel_base d _ _
    | .linearRing s, _ => by simp only [canonG, anySeq]; exact Rel_base d _ _
    | .circularString s, _ => by simp only [canonG, anySeq]; exact Rel_base d _ _
    | .polygon sh hs, _ => by
      simp only [canonG]
      split
      · simp only [anySeq, List.any_nil, Bool.or_false]; exact Rel_base d _ _
      · simp only [anySeq, maskS, any_maskS_Z, any_maskS_M]
        exact Rel_base d _ _
    | .compoundCurve gs, hwf => by
      simp only [WFG, Bool.and_eq_true] at hwf
      simp only [canonG, anySeq, anySeqs_canonSec_Z _ _ gs hwf.1.1, anySeqs_canonSec_M _ _ gs hwf.1.1]
      cases gs with
      | nil => simp [anySeqs, Rel]
      | cons g rest => simp only [List.isEmpty_cons, Bool.not_false, Bool.and_true]; exact Rel_base d _ _
    | .curvePolygon gs, hwf => by
      simp only [WFG, Bool.and_eq_true] at hwf
      simp only [canonG]
      split
      · simp only [anySeq, anySeqs, Bool.or_false]; exact Rel_base d _ _
      · simp only [anySeq]; exact flags_canons d gs hwf.1.2
    | .multiPoint gs, hwf => by
      simp only [WFG, Bool.and_eq_true] at hwf
      simp only [canonG, anySeq]; exact flags_canons d gs hwf.2
    | .multiLineString gs, hwf => by
      simp only [WFG, Bool.and_eq_true] at hwf
      simp only [canonG, anySeq]; exact flags_canons d gs hwf.2
    | .multiPolygon gs, hwf => by
      simp only [WFG, Bool.and_eq_true] at hwf
      simp only [canonG, anySeq]; exact flags_canons d gs hwf.2
    | .collection gs, hwf => by
      simp only [WFG] at hwf
      simp only [canonG, anySeq]; exact flags_canons d gs hwf
    | .multiCurve gs, hwf => by
      simp only [WFG, Bool.and_eq_true] at hwf
      simp only [canonG, anySeq]; exact flags_canons d gs hwf.2
    | .multiSurface gs, hwf => by
      simp only [WFG, Bool.and_eq_true] at hwf
      simp only [canonG, anySeq]; exact flags_canons d gs hwf.2
  theorem flags_canons (d : Nat) : ∀ (gs : List G), WFGs arc gs = true →
      Rel d (anySeqs (·.hasZ) gs) (anySeqs (·.hasM) gs) (anySeqs (·.hasZ) (canonGs d gs)) (anySeqs (·.hasM) (canonGs d gs))
    | [], _ => by simp only [canonGs, anySeqs]; exact Rel_nil d
    | g :: gs, hwf => by
      simp only [WFGs, Bool.and_eq_true] at hwf
      simp only [canonGs, anySeqs]
      exact Rel_or d (flags_canon d g hwf.1) (flags_canons d gs hwf.2)
end

/-! ### re-writing -/

theorem coordBytes_maskC (o : Order) (z m : Bool) (p : Coord) : coordBytes o z m (maskC z m p) = coordBytes o z m p := by
  cases z <;> cases m <;> simp [coordBytes, maskC]

theorem ptsBytes_maskC (o : Order) (z m : Bool) (ps : List Coord) :
    ptsBytes o z m (ps.map (maskC z m)) = ptsBytes o z m ps := by
  induction ps with
  | nil => rfl
  | cons p ps ih => simp [ptsBytes, coordBytes_maskC, ih]

theorem seqBytes_maskS (o : Order) (z m : Bool) (s : CSeq) : seqBytes o z m (maskS z m s) = seqBytes o z m s := by
  simp [seqBytes, maskS, ptsBytes_maskC]

theorem seqsBytes_maskS (o : Order) (z m : Bool) (ss : List CSeq) :
    seqsBytes o z m (ss.map (maskS z m)) = seqsBytes o z m ss := by
  induction ss with
  | nil => rfl
  | cons s ss ih => simp [seqsBytes, seqBytes_maskS, ih]

theorem writeSection_canonSec (c : Cfg) (z m : Bool) (g : G) (hk : isSimpleCurve g = true) :
    writeSection c z m (canonSec z m g) = writeSection c z m g := by
  cases g <;> first | (simp [isSimpleCurve] at hk; done) | simp [canonSec, writeSection, seqBytes_maskS]

theorem writeSections_canonSec (c : Cfg) (z m : Bool) (gs : List G) (hk : gs.all isSimpleCurve = true) :
    writeSections c z m (gs.map (canonSec z m)) = writeSections c z m gs := by
  induction gs with
  | nil => rfl
  | cons g gs ih =>
    simp only [List.all_cons, Bool.and_eq_true] at hk
    simp [writeSections, writeSection_canonSec c z m g hk.1, ih hk.2]

theorem canonGs_length (d : Nat) (gs : List G) : (canonGs d gs).length = gs.length := by
  induction gs with
  | nil => rfl
  | cons g gs ih => simp [canonGs, ih]

theorem collHeader_canon (c : Cfg) (e : Int) (code : Nat) (gs : List G) (hwf : WFGs arc gs = true) :
    collHeader c e code (canonGs c.dims gs) = collHeader c e code gs := by
  simp only [collHeader, Rel_outOrd c.dims (flags_canons c.dims gs hwf), canonGs_length]

mutual
  theorem writeG_canon (c : Cfg) : ∀ (g : G), WFG arc g = true → NanPtCanon g = true → ∀ (e : Int),
      writeG c e (canonG c.dims g) = writeG c e g
    | .point s, hwf, hn, e => by
      simp only [WFG, decide_eq_true_eq] at hwf
      simp only [NanPtCanon] at hn
      simp only [canonG]
      cases hp : s.pts with
      | nil =>
        simp [pointOfSeq, ownS, maskS, hp, writeG, outOrd_idem]
      | cons p ps =>
        have hps : ps = [] := by
          cases ps with
          | nil => rfl
          | cons a b => simp [hp] at hwf
        subst hps
        simp only [hp, List.all_cons, List.all_nil, Bool.and_true, Bool.or_eq_true, Bool.not_eq_true',
          decide_eq_true_eq] at hn
        by_cases hnan : (isNaNBits p.x && isNaNBits p.y) = true
        · have hpc : p = nanCoord := by
            rcases hn with h | h
            · simp [hnan] at h
            · exact h
          subst hpc
          simp [pointOfSeq, ownS, maskS, hp, writeG, outOrd_idem, maskC, nanCoord, isNaNBits_nan, ptsBytes]
        · simp [pointOfSeq, ownS, maskS, hp, writeG, outOrd_idem, maskC, hnan, ptsBytes]
          have := coordBytes_maskC c.order (outOrd c.dims s.hasZ s.hasM).1 (outOrd c.dims s.hasZ s.hasM).2 p
          simpa [maskC] using this
    | .lineString s, _, _, e => by
      simp only [canonG, writeG, ownS, maskS, outOrd_idem]
      exact congrArg _ (seqBytes_maskS c.order _ _ s)
    | .linearRing s, _, _, e => by
      simp only [canonG, writeG, ownS, maskS, outOrd_idem]
      exact congrArg _ (seqBytes_maskS c.order _ _ s)
    | .circularString s, _, _, e => by
      simp only [canonG, writeG, ownS, maskS, outOrd_idem]
      exact congrArg _ (seqBytes_maskS c.order _ _ s)
    | .polygon sh hs, _, _, e => by
      simp only [canonG]
      cases hE : sh.pts.isEmpty
      · have h1 := any_maskS_Z (outOrd c.dims (sh.hasZ || hs.any (·.hasZ)) (sh.hasM || hs.any (·.hasM))).1
          (outOrd c.dims (sh.hasZ || hs.any (·.hasZ)) (sh.hasM || hs.any (·.hasM))).2 hs
        have h2 := any_maskS_M (outOrd c.dims (sh.hasZ || hs.any (·.hasZ)) (sh.hasM || hs.any (·.hasM))).1
          (outOrd c.dims (sh.hasZ || hs.any (·.hasZ)) (sh.hasM || hs.any (·.hasM))).2 hs
        have hne : (maskS (outOrd c.dims (sh.hasZ || hs.any (·.hasZ)) (sh.hasM || hs.any (·.hasM))).1
          (outOrd c.dims (sh.hasZ || hs.any (·.hasZ)) (sh.hasM || hs.any (·.hasM))).2 sh).pts.isEmpty = false := by
          simpa [maskS] using hE
        simp only [Bool.false_eq_true, if_false, writeG, hne]
        have f1 : (maskS (outOrd c.dims (sh.hasZ || hs.any (·.hasZ)) (sh.hasM || hs.any (·.hasM))).1
          (outOrd c.dims (sh.hasZ || hs.any (·.hasZ)) (sh.hasM || hs.any (·.hasM))).2 sh).hasZ
            = (outOrd c.dims (sh.hasZ || hs.any (·.hasZ)) (sh.hasM || hs.any (·.hasM))).1 := rfl
        have f2 : (maskS (outOrd c.dims (sh.hasZ || hs.any (·.hasZ)) (sh.hasM || hs.any (·.hasM))).1
          (outOrd c.dims (sh.hasZ || hs.any (·.hasZ)) (sh.hasM || hs.any (·.hasM))).2 sh).hasM
            = (outOrd c.dims (sh.hasZ || hs.any (·.hasZ)) (sh.hasM || hs.any (·.hasM))).2 := rfl
        simp only [f1, f2, h1, h2, outOrd_idem, List.length_map, seqBytes_maskS, seqsBytes_maskS, hE,
          Bool.false_eq_true, if_false]
      · simp [writeG, outOrd_idem, hE]
    | .compoundCurve gs, hwf, _, e => by
      simp only [WFG, Bool.and_eq_true] at hwf
      simp only [canonG, writeG, anySeqs_canonSec_Z _ _ gs hwf.1.1, anySeqs_canonSec_M _ _ gs hwf.1.1,
        List.length_map]
      cases gs with
      | nil => simp [anySeqs, writeSections]
      | cons g rest =>
        simp only [List.isEmpty_cons, Bool.not_false, Bool.and_true, outOrd_idem,
          writeSections_canonSec c _ _ (g :: rest) hwf.1.1]
    | .curvePolygon gs, hwf, hn, e => by
      simp only [WFG, Bool.and_eq_true] at hwf
      simp only [NanPtCanon] at hn
      simp only [canonG]
      cases hE : gIsEmpty (.curvePolygon gs)
      · have hfl := Rel_outOrd c.dims (flags_canons c.dims gs hwf.1.2)
        have hE' : gIsEmpty (.curvePolygon (canonGs c.dims gs)) = false := by
          cases gs with
          | nil => simp [gIsEmpty] at hE
          | cons sh hs =>
            simp only [List.all_cons, Bool.and_eq_true] at hwf
            simp only [gIsEmpty] at hE
            simp only [canonGs, gIsEmpty, gIsEmpty_canonG_curve c.dims sh hwf.1.1.1, hE]
        simp only [Bool.false_eq_true, if_false, writeG, hfl, hE', hE, canonGs_length,
          writeGs_canon c gs hwf.1.2 hn]
      · simp [writeG, anySeqs, anySeq, outOrd_idem, gIsEmpty, hE]
    | .multiPoint gs, hwf, hn, e => by
      simp only [WFG, Bool.and_eq_true] at hwf; simp only [NanPtCanon] at hn
      simp only [canonG, writeG, collHeader_canon c e _ gs hwf.2, writeGs_canon c gs hwf.2 hn]
    | .multiLineString gs, hwf, hn, e => by
      simp only [WFG, Bool.and_eq_true] at hwf; simp only [NanPtCanon] at hn
      simp only [canonG, writeG, collHeader_canon c e _ gs hwf.2, writeGs_canon c gs hwf.2 hn]
    | .multiPolygon gs, hwf, hn, e => by
      simp only [WFG, Bool.and_eq_true] at hwf; simp only [NanPtCanon] at hn
      simp only [canonG, writeG, collHeader_canon c e _ gs hwf.2, writeGs_canon c gs hwf.2 hn]
    | .collection gs, hwf, hn, e => by
      simp only [WFG] at hwf; simp only [NanPtCanon] at hn
      simp only [canonG, writeG, collHeader_canon c e _ gs hwf, writeGs_canon c gs hwf hn]
    | .multiCurve gs, hwf, hn, e => by
      simp only [WFG, Bool.and_eq_true] at hwf; simp only [NanPtCanon] at hn
      simp only [canonG, writeG, collHeader_canon c e _ gs hwf.2, writeGs_canon c gs hwf.2 hn]
    | .multiSurface gs, hwf, hn, e => by
      simp only [WFG, Bool.and_eq_true] at hwf; simp only [NanPtCanon] at hn
      simp only [canonG, writeG, collHeader_canon c e _ gs hwf.2, writeGs_canon c gs hwf.2 hn]
  theorem writeGs_canon (c : Cfg) : ∀ (gs : List G), WFGs arc gs = true → NanPtCanonL gs = true →
      writeGs c (canonGs c.dims gs) = writeGs c gs
    | [], _, _ => rfl
    | g :: gs, hwf, hn => by
      simp only [WFGs, Bool.and_eq_true] at hwf
      simp only [NanPtCanonL, Bool.and_eq_true] at hn
      simp only [canonGs, writeGs, writeG_canon c g hwf.1 hn.1 0, writeGs_canon c gs hwf.2 hn.2]
end

end GeosModel.WKB
