import GeosModel.Proofs.WKB.Seq
/-! The round-trip induction for C09: `readGeom fuel (writeG c e g ++ rest) = ok (canonG …)`. -/
namespace GeosModel.WKB
open GeosModel

variable {arc : ArcOracle}

/-! ### fuel measure -/
mutual
  def dep : G → Nat
    | .point _ => 1
    | .lineString _ => 1
    | .linearRing _ => 1
    | .circularString _ => 1
    | .polygon _ _ => 1
    | .compoundCurve _ => 2
    | .curvePolygon gs => if gIsEmpty (.curvePolygon gs) then 1 else 1 + depL gs
    | .multiPoint gs => 1 + depL gs
    | .multiLineString gs => 1 + depL gs
    | .multiPolygon gs => 1 + depL gs
    | .collection gs => 1 + depL gs
    | .multiCurve gs => 1 + depL gs
    | .multiSurface gs => 1 + depL gs
  def depL : List G → Nat
    | [] => 1
    | g :: gs => dep g + depL gs
end

/-! ### lengths -/

theorem header_length_ge (c : Cfg) (oz om : Bool) (code : Nat) (e : Int) : 5 ≤ (header c oz om code e).length := by
  simp [header, putU32_length]

theorem collHeader_length_ge (c : Cfg) (e : Int) (code : Nat) (gs : List G) : 9 ≤ (collHeader c e code gs).length := by
  have := header_length_ge c (outOrd c.dims (anySeqs (·.hasZ) gs) (anySeqs (·.hasM) gs)).1
    (outOrd c.dims (anySeqs (·.hasZ) gs) (anySeqs (·.hasM) gs)).2 code e
  simp only [collHeader, List.length_append, putU32_length]; omega

theorem writeG_length_ge (c : Cfg) (e : Int) (g : G) : 9 ≤ (writeG c e g).length := by
  cases g with
  | point s =>
    have := header_length_ge c (outOrd c.dims s.hasZ s.hasM).1 (outOrd c.dims s.hasZ s.hasM).2 1 e
    simp only [writeG, List.length_append]
    split
    · rw [coordBytes_length]; omega
    · rename_i h
      have h2 := ptsBytes_length_ge c.order (outOrd c.dims s.hasZ s.hasM).1 (outOrd c.dims s.hasZ s.hasM).2 s.pts
      have : 1 ≤ s.pts.length := by
        cases hp : s.pts with
        | nil => simp [hp] at h
        | cons a b => simp
      omega
  | lineString s =>
    have := header_length_ge c (outOrd c.dims s.hasZ s.hasM).1 (outOrd c.dims s.hasZ s.hasM).2 2 e
    simp only [writeG, List.length_append, seqBytes, putU32_length]; omega
  | linearRing s =>
    have := header_length_ge c (outOrd c.dims s.hasZ s.hasM).1 (outOrd c.dims s.hasZ s.hasM).2 2 e
    simp only [writeG, List.length_append, seqBytes, putU32_length]; omega
  | circularString s =>
    have := header_length_ge c (outOrd c.dims s.hasZ s.hasM).1 (outOrd c.dims s.hasZ s.hasM).2 8 e
    simp only [writeG, List.length_append, seqBytes, putU32_length]; omega
  | polygon sh hs =>
    have := header_length_ge c (outOrd c.dims (sh.hasZ || hs.any (·.hasZ)) (sh.hasM || hs.any (·.hasM))).1
      (outOrd c.dims (sh.hasZ || hs.any (·.hasZ)) (sh.hasM || hs.any (·.hasM))).2 3 e
    simp only [writeG, List.length_append]
    split <;> simp only [List.length_append, putU32_length] <;> omega
  | compoundCurve gs =>
    have := header_length_ge c (outOrd c.dims (anySeqs (·.hasZ) gs) (anySeqs (·.hasM) gs)).1
      (outOrd c.dims (anySeqs (·.hasZ) gs) (anySeqs (·.hasM) gs)).2 9 e
    simp only [writeG, List.length_append, putU32_length]; omega
  | curvePolygon gs =>
    have := header_length_ge c (outOrd c.dims (anySeqs (·.hasZ) gs) (anySeqs (·.hasM) gs)).1
      (outOrd c.dims (anySeqs (·.hasZ) gs) (anySeqs (·.hasM) gs)).2 10 e
    simp only [writeG, List.length_append]
    split <;> simp only [List.length_append, putU32_length] <;> omega
  | multiPoint gs => have := collHeader_length_ge c e 4 gs; simp only [writeG, List.length_append]; omega
  | multiLineString gs => have := collHeader_length_ge c e 5 gs; simp only [writeG, List.length_append]; omega
  | multiPolygon gs => have := collHeader_length_ge c e 6 gs; simp only [writeG, List.length_append]; omega
  | collection gs => have := collHeader_length_ge c e 7 gs; simp only [writeG, List.length_append]; omega
  | multiCurve gs => have := collHeader_length_ge c e 11 gs; simp only [writeG, List.length_append]; omega
  | multiSurface gs => have := collHeader_length_ge c e 12 gs; simp only [writeG, List.length_append]; omega

theorem writeGs_length_ge (c : Cfg) (gs : List G) : gs.length * 9 ≤ (writeGs c gs).length := by
  induction gs with
  | nil => simp [writeGs]
  | cons g gs ih =>
    have := writeG_length_ge c 0 g
    simp only [writeGs, List.length_cons, List.length_append]; omega

theorem writeG_point_length_ge (c : Cfg) (e : Int) (g : G) (h : isPoint g = true) : 21 ≤ (writeG c e g).length := by
  cases g with
  | point s =>
    have := header_length_ge c (outOrd c.dims s.hasZ s.hasM).1 (outOrd c.dims s.hasZ s.hasM).2 1 e
    simp only [writeG, List.length_append]
    split
    · rw [coordBytes_length]; omega
    · rename_i h
      have h2 := ptsBytes_length_ge c.order (outOrd c.dims s.hasZ s.hasM).1 (outOrd c.dims s.hasZ s.hasM).2 s.pts
      have : 1 ≤ s.pts.length := by
        cases hp : s.pts with
        | nil => simp [hp] at h
        | cons a b => simp
      omega
  | _ => simp [isPoint] at h

theorem writeGs_points_length_ge (c : Cfg) (gs : List G) (h : gs.all isPoint = true) :
    gs.length * 21 ≤ (writeGs c gs).length := by
  induction gs with
  | nil => simp [writeGs]
  | cons g gs ih =>
    simp only [List.all_cons, Bool.and_eq_true] at h
    have := writeG_point_length_ge c 0 g h.1
    have := ih h.2
    simp only [writeGs, List.length_cons, List.length_append]; omega

/-! ### simple curves (also used for the sections of a compound curve) -/

theorem readGeom_line (c : Cfg) (fuel : Nat) (o' : Order) (z m : Bool) (e : Int) (he : sridFits e = true)
    (s : CSeq) (hs : s.pts.length < 4294967296) (hok : lineOK s = true) (r : List UInt8) :
    readGeom arc (fuel + 1) o' (header c z m 2 e ++ seqBytes c.order z m s ++ r)
      = .ok ((.lineString (maskS z m s), if c.flavor = .ext then e else 0), c.order, r) := by
  simp only [readGeom, List.append_assoc,
    readHeader_header c o' z m 2 e .lineString rfl (by omega) he, readBody,
    readSizedSeq_seqBytes c.order z m s hs, lineOK_maskS, hok, if_true]

theorem readGeom_circ (c : Cfg) (fuel : Nat) (o' : Order) (z m : Bool) (e : Int) (he : sridFits e = true)
    (s : CSeq) (hs : s.pts.length < 4294967296) (hok : circOK arc s = true) (r : List UInt8) :
    readGeom arc (fuel + 1) o' (header c z m 8 e ++ seqBytes c.order z m s ++ r)
      = .ok ((.circularString (maskS z m s), if c.flavor = .ext then e else 0), c.order, r) := by
  simp only [readGeom, List.append_assoc,
    readHeader_header c o' z m 8 e .circularString rfl (by omega) he, readBody,
    readSizedSeq_seqBytes c.order z m s hs, circOK_maskS, hok, if_true]

theorem sridFits_zero : sridFits 0 = true := by decide

/-- a section of a compound curve, written with its parent's ordinate set, read as a child -/
theorem readGeom_writeSection (c : Cfg) (fuel : Nat) (o' : Order) (z m : Bool) (g : G)
    (hk : isSimpleCurve g = true) (hwf : WFG arc g = true) (hf : Fits g = true) (r : List UInt8) :
    readGeom arc (fuel + 1) o' (writeSection c z m g ++ r) = .ok ((canonSec z m g, 0), c.order, r) := by
  cases g with
  | lineString s =>
    simp only [WFG] at hwf; simp only [Fits, decide_eq_true_eq] at hf
    simpa [writeSection, canonSec] using readGeom_line c fuel o' z m 0 sridFits_zero s hf hwf r
  | linearRing s =>
    simp only [WFG, Bool.and_eq_true] at hwf; simp only [Fits, decide_eq_true_eq] at hf
    simpa [writeSection, canonSec] using readGeom_line c fuel o' z m 0 sridFits_zero s hf hwf.1 r
  | circularString s =>
    simp only [WFG] at hwf; simp only [Fits, decide_eq_true_eq] at hf
    simpa [writeSection, canonSec] using readGeom_circ c fuel o' z m 0 sridFits_zero s hf hwf r
  | _ => simp [isSimpleCurve] at hk

theorem asChild_ok (p : G → Bool) (g : G) (i : Int) (o : Order) (bs : List UInt8) :
    asChild p (.ok ((g, i), o, bs)) = if p g then .ok (g, o, bs) else .error .childType := rfl

theorem isSimpleCurve_canonSec (z m : Bool) (g : G) : isSimpleCurve (canonSec z m g) = isSimpleCurve g := by
  cases g <;> rfl

theorem readN_writeSections (c : Cfg) (fuel : Nat) (z m : Bool) (gs : List G)
    (hk : gs.all isSimpleCurve = true) (hwf : WFGs arc gs = true) (hf : FitsL gs = true) (r : List UInt8) :
    readN (fun o bs => asChild isSimpleCurve (readGeom arc (fuel + 1) o bs)) gs.length c.order
        (writeSections c z m gs ++ r) = .ok (gs.map (canonSec z m), c.order, r) := by
  induction gs with
  | nil => simp [readN, writeSections]
  | cons g gs ih =>
    simp only [List.all_cons, Bool.and_eq_true] at hk
    simp only [WFGs, Bool.and_eq_true] at hwf
    simp only [FitsL, Bool.and_eq_true] at hf
    simp only [List.length_cons, readN, writeSections, List.append_assoc,
      readGeom_writeSection c fuel c.order z m g hk.1 hwf.1 hf.1, asChild_ok, isSimpleCurve_canonSec, hk.1, if_true,
      ih hk.2 hwf.2 hf.2, List.map_cons]

theorem writeSection_length_ge (c : Cfg) (z m : Bool) (g : G) (hk : isSimpleCurve g = true) :
    9 ≤ (writeSection c z m g).length := by
  have aux : ∀ (s : CSeq) (code : Nat), 9 ≤ (header c z m code 0 ++ seqBytes c.order z m s).length := by
    intro s code
    have h1 := header_length_ge c z m code 0
    simp only [List.length_append, seqBytes, putU32_length]; omega
  cases g with
  | lineString s => exact aux s 2
  | linearRing s => exact aux s 2
  | circularString s => exact aux s 8
  | _ => simp [isSimpleCurve] at hk

theorem writeSections_length_ge (c : Cfg) (z m : Bool) (gs : List G) (hk : gs.all isSimpleCurve = true) :
    gs.length * 9 ≤ (writeSections c z m gs).length := by
  induction gs with
  | nil => simp [writeSections]
  | cons g gs ih =>
    simp only [List.all_cons, Bool.and_eq_true] at hk
    have := writeSection_length_ge c z m g hk.1
    have := ih hk.2
    simp only [writeSections, List.length_cons, List.length_append]; omega

/-- contiguity only looks at X and Y, which the round trip keeps -/
theorem seqOf_canonSec (z m : Bool) (g : G) (hk : isSimpleCurve g = true) :
    seqOf (canonSec z m g) = maskS z m (seqOf g) := by
  cases g <;> first | rfl | simp [isSimpleCurve] at hk

theorem checkContig_canonSec (z m : Bool) (gs : List G) (hk : gs.all isSimpleCurve = true) :
    checkContig (gs.map (canonSec z m)) = checkContig gs := by
  induction gs with
  | nil => rfl
  | cons a rest ih =>
    cases rest with
    | nil => rfl
    | cons b rest =>
      simp only [List.all_cons, Bool.and_eq_true] at hk
      have ih' := ih (by simp [hk.2.1, hk.2.2])
      simp only [List.map_cons] at ih' ⊢
      simp only [checkContig, seqOf_canonSec z m a hk.1, seqOf_canonSec z m b hk.2.1, maskS,
        List.getLast?_map, List.head?_map]
      cases h1 : (seqOf a).pts.getLast? <;> cases h2 : (seqOf b).pts.head? <;> simp [eq2D_mask, ih']

/-! ### kinds and emptiness survive the round trip -/

theorem isPoint_pointOfSeq (s : CSeq) : isPoint (pointOfSeq s) = true := by
  unfold pointOfSeq; split
  · split <;> rfl
  · rfl

theorem isPoint_canonG (d : Nat) (g : G) (h : isPoint g = true) : isPoint (canonG d g) = true := by
  cases g <;> first | (simp [isPoint] at h; done) | simp [canonG, isPoint_pointOfSeq]

theorem isLineString_canonG (d : Nat) (g : G) (h : isLineString g = true) : isLineString (canonG d g) = true := by
  cases g <;> first | (simp [isLineString] at h; done) | simp [canonG, isLineString]

theorem isPolygon_canonG (d : Nat) (g : G) (h : isPolygon g = true) : isPolygon (canonG d g) = true := by
  cases g <;> first | (simp [isPolygon] at h; done) | (simp only [canonG]; split <;> rfl)

theorem isCurve_canonG (d : Nat) (g : G) (h : isCurve g = true) : isCurve (canonG d g) = true := by
  cases g <;> first | (simp [isCurve] at h; done) | simp [canonG, isCurve]

theorem isSurface_canonG (d : Nat) (g : G) (h : isSurface g = true) : isSurface (canonG d g) = true := by
  cases g <;> first | (simp [isSurface] at h; done) | (simp only [canonG]; split <;> rfl)

theorem all_canon_of_all (d : Nat) (p : G → Bool) (hp : ∀ g, p g = true → p (canonG d g) = true) (gs : List G)
    (h : gs.all p = true) : gs.all (fun g => p (canonG d g)) = true := by
  induction gs with
  | nil => rfl
  | cons g gs ih =>
    simp only [List.all_cons, Bool.and_eq_true] at h ⊢
    exact ⟨hp g h.1, ih h.2⟩

theorem gIsEmpty_canonSec (z m : Bool) (g : G) : gIsEmpty (canonSec z m g) = gIsEmpty g := by
  cases g <;> simp [canonSec, gIsEmpty, maskS]

theorem gsAllEmpty_canonSec (z m : Bool) (gs : List G) : gsAllEmpty (gs.map (canonSec z m)) = gsAllEmpty gs := by
  induction gs with
  | nil => rfl
  | cons g gs ih => simp [gsAllEmpty, gIsEmpty_canonSec, ih]

theorem gIsEmpty_canonG_curve (d : Nat) (g : G) (h : isCurve g = true) : gIsEmpty (canonG d g) = gIsEmpty g := by
  cases g <;> first | (simp [isCurve] at h; done) | simp [canonG, gIsEmpty, ownS, maskS, gsAllEmpty_canonSec]

theorem any_nonEmpty_canonGs (d : Nat) (gs : List G) (h : gs.all isCurve = true) :
    (canonGs d gs).any (fun r => !gIsEmpty r) = gs.any (fun r => !gIsEmpty r) := by
  induction gs with
  | nil => rfl
  | cons g gs ih =>
    simp only [List.all_cons, Bool.and_eq_true] at h
    simp [canonGs, gIsEmpty_canonG_curve d g h.1, ih h.2]

theorem depL_pos (gs : List G) : 1 ≤ depL gs := by
  induction gs with
  | nil => simp [depL]
  | cons g gs ih => simp only [depL]; omega

theorem isNaNBits_nan : isNaNBits nanBits = true := by decide

/-- the typed-collection reader on the writer's element list -/
theorem readColl_spec (c : Cfg) (fuel : Nat) (p : G → Bool) (unit : Nat) (mk : List G → G) (h : Hdr)
    (ho : h.order = c.order) (gs : List G) (r : List UInt8) (hn : gs.length < 4294967296)
    (hlen : gs.length * unit ≤ (writeGs c gs).length)
    (hN : readN (fun o bs => asChild p (readGeom arc fuel o bs)) gs.length c.order (writeGs c gs ++ r)
            = .ok (canonGs c.dims gs, c.order, r)) :
    readColl (readGeom arc fuel) p unit mk h (putU32 c.order gs.length ++ (writeGs c gs ++ r))
      = .ok ((mk (canonGs c.dims gs), h.srid), c.order, r) := by
  have hm : gs.length % 4294967296 = gs.length := by omega
  have hg : ¬ ((writeGs c gs ++ r).length < gs.length * unit) := by
    simp only [List.length_append]; omega
  simp only [readColl, ho, readU32_putU32, hm, hg, if_false, hN]

end GeosModel.WKB
