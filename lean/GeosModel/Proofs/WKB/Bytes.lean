import GeosModel.Model.WKB.Spec
/-! Byte-level lemmas for C09: fixed-width values, type word, header, HEX layer. -/
namespace GeosModel.WKB
open GeosModel

variable {arc : ArcOracle}

theorem byteAt_toNat (n k : Nat) : (byteAt n k).toNat = n / 256 ^ k % 256 := by
  simp [byteAt]

theorem getU64N_le (n : Nat) (h : n < 2 ^ 64) :
    getU64N .le (byteAt n 0) (byteAt n 1) (byteAt n 2) (byteAt n 3) (byteAt n 4) (byteAt n 5) (byteAt n 6) (byteAt n 7) = n := by
  simp only [getU64N, byteAt_toNat]; omega

theorem getU64N_be (n : Nat) (h : n < 2 ^ 64) :
    getU64N .be (byteAt n 7) (byteAt n 6) (byteAt n 5) (byteAt n 4) (byteAt n 3) (byteAt n 2) (byteAt n 1) (byteAt n 0) = n := by
  simp only [getU64N, byteAt_toNat]; omega

theorem readU64_putU64 (o : Order) (u : UInt64) (r : List UInt8) :
    readU64 o (putU64 o u ++ r) = .ok (u, r) := by
  have h := u.toNat_lt
  cases o
  · simp only [putU64, readU64, List.cons_append, List.nil_append, getU64, getU64N_be _ h, UInt64.ofNat_toNat]
  · simp only [putU64, readU64, List.cons_append, List.nil_append, getU64, getU64N_le _ h, UInt64.ofNat_toNat]

theorem readU32_putU32 (o : Order) (n : Nat) (r : List UInt8) :
    readU32 o (putU32 o n ++ r) = .ok (n % 4294967296, r) := by
  cases o <;> simp [putU32, readU32, getU32, byteAt_toNat] <;> omega

theorem u32ToInt_intToU32 (e : Int) (h : sridFits e = true) : u32ToInt (intToU32 e) = e := by
  simp [sridFits] at h
  unfold u32ToInt intToU32
  split <;> omega

theorem intToU32_lt (e : Int) : intToU32 e < 4294967296 := by
  unfold intToU32; omega

theorem intToU32_mod (e : Int) : intToU32 e % 4294967296 = intToU32 e := by
  have := intToU32_lt e; omega

theorem order_of_byte (o o' : Order) :
    (if o.byte = 1 then Order.le else if o.byte = 0 then Order.be else o') = o := by
  cases o <;> simp [Order.byte]




theorem code_cases (code : Nat) (hc : 1 ≤ code ∧ code ≤ 12) :
    code = 1 ∨ code = 2 ∨ code = 3 ∨ code = 4 ∨ code = 5 ∨ code = 6 ∨ code = 7 ∨ code = 8 ∨ code = 9 ∨ code = 10 ∨ code = 11 ∨ code = 12 := by
  omega

theorem decodeType_typeWord (f : Flavor) (oz om : Bool) (code : Nat) (e : Int) (hc : 1 ≤ code ∧ code ≤ 12) :
    decodeType (typeWord f oz om code e) = (code, oz, om, decide (f = .ext ∧ e ≠ 0)) := by
  rcases code_cases code hc with h|h|h|h|h|h|h|h|h|h|h|h <;> subst h <;> cases f <;> cases oz <;> cases om <;>
    by_cases h0 : e = 0 <;> simp [decodeType, typeWord, h0]

theorem typeWord_lt (f : Flavor) (oz om : Bool) (code : Nat) (e : Int) (hc : code ≤ 12) :
    typeWord f oz om code e < 4294967296 := by
  unfold typeWord
  cases f <;> cases oz <;> cases om <;> simp <;> (first | omega | (split <;> omega))

theorem readHeader_header (c : Cfg) (o' : Order) (oz om : Bool) (code : Nat) (e : Int) (k : Kind)
    (hk : kindOfCode code = some k) (hc : 1 ≤ code ∧ code ≤ 12) (he : sridFits e = true) (r : List UInt8) :
    readHeader o' (header c oz om code e ++ r)
      = .ok (⟨k, oz, om, if c.flavor = .ext then e else 0, c.order⟩, r) := by
  have hlt := typeWord_lt c.flavor oz om code e hc.2
  have hmod : typeWord c.flavor oz om code e % 4294967296 = typeWord c.flavor oz om code e := by omega
  unfold header readHeader
  simp only [List.cons_append, readByte, order_of_byte, List.append_assoc, readU32_putU32, hmod,
    decodeType_typeWord _ _ _ _ _ hc]
  by_cases hx : c.flavor = .ext ∧ e ≠ 0
  · simp only [hx, decide_true, and_self, ne_eq, not_false_eq_true, if_true, readU32_putU32, intToU32_mod,
      u32ToInt_intToU32 e he, hk]
  · simp only [hx, decide_false, if_false, List.nil_append, hk]
    by_cases hf : c.flavor = .ext
    · have : e = 0 := by
        by_cases h0 : e = 0
        · exact h0
        · exact absurd ⟨hf, h0⟩ hx
      simp [hf, this]
    · simp [hf]

/-! ### HEX -/

theorem hexVal_hexDigit (n : Nat) (h : n < 16) : hexVal (hexDigit n) = some n := by
  have : n = 0 ∨ n = 1 ∨ n = 2 ∨ n = 3 ∨ n = 4 ∨ n = 5 ∨ n = 6 ∨ n = 7 ∨ n = 8 ∨ n = 9 ∨ n = 10 ∨ n = 11
      ∨ n = 12 ∨ n = 13 ∨ n = 14 ∨ n = 15 := by omega
  rcases this with h|h|h|h|h|h|h|h|h|h|h|h|h|h|h|h <;> subst h <;> rfl

theorem hexDecode_hexEncode (bs : List UInt8) : hexDecode (hexEncode bs) = some bs := by
  induction bs with
  | nil => rfl
  | cons b bs ih =>
    have hb := b.toNat_lt
    have h1 : b.toNat / 16 < 16 := by omega
    have h2 : b.toNat % 16 < 16 := by omega
    simp only [hexEncode, hexDecode, hexVal_hexDigit _ h1, hexVal_hexDigit _ h2, ih]
    have : b.toNat / 16 * 16 + b.toNat % 16 = b.toNat := by omega
    simp [this]

end GeosModel.WKB
