import GeosModel.Proofs.WKB.Main
/-! Facts about `canon`, `dropDims`, `docSpec` and re-writing (C09). -/
namespace GeosModel.WKB
open GeosModel

variable {arc : ArcOracle}

/-! ### `outOrd` -/

theorem outOrd_four (z m : Bool) : outOrd 4 z m = (z, m) := by
  cases z <;> cases m <;> rfl

theorem outOrd_idem (d : Nat) (z m : Bool) :
    outOrd d (outOrd d z m).1 (outOrd d z m).2 = outOrd d z m := by
  cases z <;> cases m <;> simp only [outOrd, toN] <;> (repeat' split) <;> simp_all <;> omega

theorem outOrd_fst_imp (d : Nat) (z m : Bool) (h : (outOrd d z m).1 = true) : z = true := by
  revert h; cases z <;> cases m <;> simp only [outOrd, toN] <;> (repeat' split) <;> simp_all

theorem outOrd_snd_imp (d : Nat) (z m : Bool) (h : (outOrd d z m).2 = true) : m = true := by
  revert h; cases z <;> cases m <;> simp only [outOrd, toN] <;> (repeat' split) <;> simp_all

/-! ### masking -/

theorem maskC_maskC (z m z' m' : Bool) (hz : z' = true → z = true) (hm : m' = true → m = true) (p : Coord) :
    maskC z' m' (maskC z m p) = maskC z' m' p := by
  cases z' <;> cases m' <;> simp_all [maskC]

theorem maskS_maskS (z m z' m' : Bool) (hz : z' = true → z = true) (hm : m' = true → m = true) (s : CSeq) :
    maskS z' m' (maskS z m s) = maskS z' m' s := by
  simp only [maskS, List.map_map, CSeq.mk.injEq, true_and]
  apply List.map_congr_left
  intro p _
  exact maskC_maskC z m z' m' hz hm p

theorem ownS_maskS (d : Nat) (z m : Bool) (s : CSeq) :
    ownS d (maskS z m s) = maskS (outOrd d z m).1 (outOrd d z m).2 s := by
  simp only [ownS]
  exact maskS_maskS z m _ _ (outOrd_fst_imp d z m) (outOrd_snd_imp d z m) s

theorem ownS_ownS4 (d : Nat) (s : CSeq) : ownS d (ownS 4 s) = ownS d s := by
  have : ownS 4 s = maskS s.hasZ s.hasM s := by simp [ownS, outOrd_four]
  rw [this, ownS_maskS]; rfl

theorem ownS_empty (d : Nat) (z m : Bool) : ownS d ⟨z, m, []⟩ = ⟨(outOrd d z m).1, (outOrd d z m).2, []⟩ := by
  simp [ownS, maskS]

/-! ### lower output dimension = dropping ordinates from the 4-dimensional result -/

theorem dropDims_pointOfSeq (d : Nat) (s : CSeq) : dropDimsG d (pointOfSeq s) = pointOfSeq (ownS d s) := by
  unfold pointOfSeq
  cases hp : s.pts with
  | nil => simp [ownS, maskS, hp, dropDimsG]
  | cons p ps =>
    by_cases hn : (isNaNBits p.x && isNaNBits p.y) = true
    · simp [ownS, maskS, hp, dropDimsG, maskC, hn]
    · simp [ownS, maskS, hp, dropDimsG, maskC, hn]

theorem dropDims_canonSec (d : Nat) (z m : Bool) (g : G) (h : isSimpleCurve g = true) :
    dropDimsG d (canonSec z m g) = canonSec (outOrd d z m).1 (outOrd d z m).2 g := by
  cases g <;> first | (simp [isSimpleCurve] at h; done) | simp [canonSec, dropDimsG, ownS_maskS]

theorem dropDims_canonSecs (d : Nat) (z m : Bool) (gs : List G) (h : gs.all isSimpleCurve = true) :
    dropDimsGs d (gs.map (canonSec z m)) = gs.map (canonSec (outOrd d z m).1 (outOrd d z m).2) := by
  induction gs with
  | nil => rfl
  | cons g gs ih =>
    simp only [List.all_cons, Bool.and_eq_true] at h
    simp [dropDimsGs, dropDims_canonSec d z m g h.1, ih h.2]

mutual
  theorem dropDims_canonG4 (d : Nat) : ∀ (g : G), WFG arc g = true → dropDimsG d (canonG 4 g) = canonG d g
    | .point s, _ => by simp only [canonG, dropDims_pointOfSeq, ownS_ownS4]
    | .lineString s, _ => by simp only [canonG, dropDimsG, ownS_ownS4]
    | .linearRing s, _ => by simp only [canonG, dropDimsG, ownS_ownS4]
    | .circularString s, _ => by simp only [canonG, dropDimsG, ownS_ownS4]
    | .polygon sh hs, _ => by
      simp only [canonG, outOrd_four]
      split
      · simp [dropDimsG, ownS_empty]
      · simp [dropDimsG, ownS_maskS, List.map_map, Function.comp_def]
    | .compoundCurve gs, hwf => by
      simp only [WFG, Bool.and_eq_true] at hwf
      simp only [canonG, outOrd_four, dropDimsG, dropDims_canonSecs d _ _ gs hwf.1.1]
    | .curvePolygon gs, hwf => by
      simp only [WFG, Bool.and_eq_true] at hwf
      simp only [canonG, outOrd_four]
      split
      · simp [dropDimsG, dropDimsGs, ownS_empty]
      · simp only [dropDimsG, dropDims_canonGs4 d gs hwf.1.2]
    | .multiPoint gs, hwf => by
      simp only [WFG, Bool.and_eq_true] at hwf
      simp only [canonG, dropDimsG, dropDims_canonGs4 d gs hwf.2]
    | .multiLineString gs, hwf => by
      simp only [WFG, Bool.and_eq_true] at hwf
      simp only [canonG, dropDimsG, dropDims_canonGs4 d gs hwf.2]
    | .multiPolygon gs, hwf => by
      simp only [WFG, Bool.and_eq_true] at hwf
      simp only [canonG, dropDimsG, dropDims_canonGs4 d gs hwf.2]
    | .collection gs, hwf => by
      simp only [WFG] at hwf
      simp only [canonG, dropDimsG, dropDims_canonGs4 d gs hwf]
    | .multiCurve gs, hwf => by
      simp only [WFG, Bool.and_eq_true] at hwf
      simp only [canonG, dropDimsG, dropDims_canonGs4 d gs hwf.2]
    | .multiSurface gs, hwf => by
      simp only [WFG, Bool.and_eq_true] at hwf
      simp only [canonG, dropDimsG, dropDims_canonGs4 d gs hwf.2]
  theorem dropDims_canonGs4 (d : Nat) : ∀ (gs : List G), WFGs arc gs = true → dropDimsGs d (canonGs 4 gs) = canonGs d gs
    | [], _ => rfl
    | g :: gs, hwf => by
      simp only [WFGs, Bool.and_eq_true] at hwf
      simp only [canonGs, dropDimsGs, dropDims_canonG4 d g hwf.1, dropDims_canonGs4 d gs hwf.2]
end

/-! ### on plain inputs the code returns exactly what the property promises -/

theorem sameFlags_iff (a b : CSeq) : sameFlags a b = true ↔ a.hasZ = b.hasZ ∧ a.hasM = b.hasM := by
  simp [sameFlags]

theorem any_flag_same (p : CSeq → Bool) (f : CSeq) (hs : List CSeq) (h : ∀ r ∈ hs, p r = p f) :
    (p f || hs.any p) = p f := by
  induction hs with
  | nil => simp
  | cons r rs ih =>
    have h1 := h r (by simp)
    have h2 := ih (fun x hx => h x (by simp [hx]))
    simp only [List.any_cons, h1]
    cases hp : p f <;> simp_all

theorem anySeq_simple (p : CSeq → Bool) (g : G) (h : isSimpleCurve g = true) : anySeq p g = p (seqOf g) := by
  cases g <;> first | (simp [isSimpleCurve] at h; done) | simp [anySeq, seqOf]

theorem anySeqs_same (p : CSeq → Bool) (f : CSeq) (gs : List G) (hk : gs.all isSimpleCurve = true)
    (h : ∀ g ∈ gs, p (seqOf g) = p f) : (p f || anySeqs p gs) = p f := by
  induction gs with
  | nil => simp [anySeqs]
  | cons g gs ih =>
    simp only [List.all_cons, Bool.and_eq_true] at hk
    have h1 := h g (by simp)
    have h2 := ih hk.2 (fun x hx => h x (by simp [hx]))
    simp only [anySeqs, anySeq_simple p g hk.1, h1]
    cases hp : p f <;> simp_all

theorem canonSec_plain (d : Nat) (f : CSeq) (g : G) (hk : isSimpleCurve g = true)
    (hf : sameFlags f (seqOf g) = true) :
    canonSec (outOrd d f.hasZ f.hasM).1 (outOrd d f.hasZ f.hasM).2 g = dropDimsG d (docG g) := by
  rw [sameFlags_iff] at hf
  cases g <;> first | (simp [isSimpleCurve] at hk; done) | simp_all [canonSec, docG, dropDimsG, ownS, seqOf]

theorem canonSecs_plain (d : Nat) (f : CSeq) (gs : List G) (hk : gs.all isSimpleCurve = true)
    (hf : gs.all (fun g => sameFlags f (seqOf g)) = true) :
    gs.map (canonSec (outOrd d f.hasZ f.hasM).1 (outOrd d f.hasZ f.hasM).2) = dropDimsGs d (docGs gs) := by
  induction gs with
  | nil => rfl
  | cons g gs ih =>
    simp only [List.all_cons, Bool.and_eq_true] at hk hf
    simp only [List.map_cons, docGs, dropDimsGs, canonSec_plain d f g hk.1 hf.1, ih hk.2 hf.2]

theorem sameFlags_refl (a : CSeq) : sameFlags a a = true := by simp [sameFlags]

mutual
  theorem canonG_plain (d : Nat) : ∀ (g : G), Plain g = true → WFG arc g = true → canonG d g = dropDimsG d (docG g)
    | .point s, _, _ => by simp only [canonG, docG, dropDims_pointOfSeq]
    | .lineString s, _, _ => by simp only [canonG, docG, dropDimsG]
    | .linearRing s, _, _ => by simp only [canonG, docG, dropDimsG]
    | .circularString s, _, _ => by simp only [canonG, docG, dropDimsG]
    | .polygon sh hs, hp, _ => by
      simp only [Plain, Bool.and_eq_true, Bool.or_eq_true, Bool.not_eq_true', List.all_eq_true] at hp
      obtain ⟨⟨⟨_, _⟩, hsame⟩, hemp⟩ := hp
      have hz : (sh.hasZ || hs.any (·.hasZ)) = sh.hasZ :=
        any_flag_same (·.hasZ) sh hs (fun r hr => ((sameFlags_iff sh r).1 (hsame r hr)).1.symm)
      have hm : (sh.hasM || hs.any (·.hasM)) = sh.hasM :=
        any_flag_same (·.hasM) sh hs (fun r hr => ((sameFlags_iff sh r).1 (hsame r hr)).2.symm)
      simp only [canonG, hz, hm, docG, dropDimsG]
      cases hE : sh.pts.isEmpty
      · simp only [Bool.false_eq_true, if_false, G.polygon.injEq]
        refine ⟨rfl, ?_⟩
        apply List.map_congr_left
        intro r hr
        have := (sameFlags_iff sh r).1 (hsame r hr)
        simp [ownS, this.1, this.2]
      · have hh : hs = [] := by
          rcases hemp with h | h
          · simp [hE] at h
          · simpa using h
        subst hh
        have : sh.pts = [] := by simpa using hE
        simp [ownS, maskS, this]
    | .compoundCurve gs, hp, hwf => by
      simp only [WFG, Bool.and_eq_true] at hwf
      simp only [Plain, Bool.and_eq_true] at hp
      obtain ⟨⟨hk, _⟩, _⟩ := hwf
      cases gs with
      | nil => simp [canonG, docG, docGs, dropDimsG, dropDimsGs]
      | cons g rest =>
        have hsame := hp.2
        simp only at hsame
        simp only [List.all_cons, Bool.and_eq_true] at hk
        have hz : anySeqs (·.hasZ) (g :: rest) = (seqOf g).hasZ := by
          simp only [anySeqs, anySeq_simple _ g hk.1]
          exact anySeqs_same (·.hasZ) (seqOf g) rest hk.2 (fun x hx => by
            have := (sameFlags_iff _ _).1 (List.all_eq_true.1 hsame x hx); exact this.1.symm)
        have hm : anySeqs (·.hasM) (g :: rest) = (seqOf g).hasM := by
          simp only [anySeqs, anySeq_simple _ g hk.1]
          exact anySeqs_same (·.hasM) (seqOf g) rest hk.2 (fun x hx => by
            have := (sameFlags_iff _ _).1 (List.all_eq_true.1 hsame x hx); exact this.2.symm)
        simp only [canonG, hz, hm, docG, dropDimsG]
        rw [canonSecs_plain d (seqOf g) (g :: rest) (by simp [hk.1, hk.2])
          (by simp only [List.all_cons, sameFlags_refl, Bool.true_and]; exact hsame)]
    | .curvePolygon gs, hp, hwf => by
      simp only [WFG, Bool.and_eq_true] at hwf
      simp only [Plain, Bool.and_eq_true, Bool.or_eq_true, Bool.not_eq_true'] at hp
      simp only [canonG, docG]
      cases hE : gIsEmpty (.curvePolygon gs)
      · simp only [Bool.false_eq_true, if_false, dropDimsG, canonGs_plain d gs hp.1 hwf.1.2]
      · simp only [if_true]
        rcases hp.2 with h | h
        · simp [hE] at h
        · match gs, h with
          | [.linearRing s], h =>
            have : s.pts = [] := by simpa using h
            simp [dropDimsG, dropDimsGs, anySeqs, anySeq, ownS, maskS, this]
    | .multiPoint gs, hp, hwf => by
      simp only [WFG, Bool.and_eq_true] at hwf; simp only [Plain] at hp
      simp only [canonG, docG, dropDimsG, canonGs_plain d gs hp hwf.2]
    | .multiLineString gs, hp, hwf => by
      simp only [WFG, Bool.and_eq_true] at hwf; simp only [Plain] at hp
      simp only [canonG, docG, dropDimsG, canonGs_plain d gs hp hwf.2]
    | .multiPolygon gs, hp, hwf => by
      simp only [WFG, Bool.and_eq_true] at hwf; simp only [Plain] at hp
      simp only [canonG, docG, dropDimsG, canonGs_plain d gs hp hwf.2]
    | .collection gs, hp, hwf => by
      simp only [WFG] at hwf; simp only [Plain] at hp
      simp only [canonG, docG, dropDimsG, canonGs_plain d gs hp hwf]
    | .multiCurve gs, hp, hwf => by
      simp only [WFG, Bool.and_eq_true] at hwf; simp only [Plain] at hp
      simp only [canonG, docG, dropDimsG, canonGs_plain d gs hp hwf.2]
    | .multiSurface gs, hp, hwf => by
      simp only [WFG, Bool.and_eq_true] at hwf; simp only [Plain] at hp
      simp only [canonG, docG, dropDimsG, canonGs_plain d gs hp hwf.2]
  theorem canonGs_plain (d : Nat) : ∀ (gs : List G), PlainL gs = true → WFGs arc gs = true →
      canonGs d gs = dropDimsGs d (docGs gs)
    | [], _, _ => rfl
    | g :: gs, hp, hwf => by
      simp only [WFGs, Bool.and_eq_true] at hwf
      simp only [PlainL, Bool.and_eq_true] at hp
      simp only [canonGs, docGs, dropDimsGs, canonG_plain d g hp.1 hwf.1, canonGs_plain d gs hp.2 hwf.2]
end

end GeosModel.WKB
