import GeosModel.Proofs.WKB.RoundTrip
/-! The main induction of C09. -/
namespace GeosModel.WKB
open GeosModel

variable {arc : ArcOracle}

theorem ptsBytes_single (o : Order) (z m : Bool) (p : Coord) : coordBytes o z m p = ptsBytes o z m [p] := by
  simp [ptsBytes]

theorem pointOfSeq_nan (z m : Bool) : pointOfSeq (maskS z m ⟨z, m, [nanCoord]⟩) = .point ⟨z, m, []⟩ := by
  simp [pointOfSeq, maskS, maskC, nanCoord, isNaNBits_nan]

theorem readGeom_succ (fuel : Nat) (o : Order) (bs : List UInt8) :
    readGeom arc (fuel + 1) o bs =
      (match readHeader o bs with
       | .error e => .error e
       | .ok (h, bs) => readBody arc (readGeom arc fuel) h bs) := rfl

mutual
  theorem readGeom_writeG (c : Cfg) : ∀ (g : G), WFG arc g = true → Fits g = true →
      ∀ (fuel : Nat) (o' : Order) (e : Int) (r : List UInt8), dep g ≤ fuel + 1 → sridFits e = true →
      readGeom arc (fuel + 1) o' (writeG c e g ++ r)
        = .ok ((canonG c.dims g, if c.flavor = .ext then e else 0), c.order, r)
    | .point s, hwf, _, fuel, o', e, r, _, he => by
      simp only [WFG, decide_eq_true_eq] at hwf
      simp only [readGeom, writeG, List.append_assoc,
        readHeader_header c o' _ _ 1 e .point rfl (by omega) he, readBody, canonG, ownS]
      cases hp : s.pts with
      | nil =>
        simp only [List.isEmpty_nil, if_true, ptsBytes_single]
        have := readCoordSeq_ptsBytes c.order (outOrd c.dims s.hasZ s.hasM).1 (outOrd c.dims s.hasZ s.hasM).2 [nanCoord] r
        simp only [List.length_cons, List.length_nil] at this
        simp only [this, pointOfSeq_nan]
        simp [maskS, hp, pointOfSeq]
      | cons p ps =>
        have hps : ps = [] := by
          cases ps with
          | nil => rfl
          | cons a b => simp [hp] at hwf
        subst hps
        simp only [List.isEmpty_cons, Bool.false_eq_true, if_false]
        have := readCoordSeq_ptsBytes c.order (outOrd c.dims s.hasZ s.hasM).1 (outOrd c.dims s.hasZ s.hasM).2 [p] r
        simp only [List.length_cons, List.length_nil] at this
        simp only [this]
        simp [maskS, hp]
    | .lineString s, hwf, hf, fuel, o', e, r, _, he => by
      simp only [WFG] at hwf; simp only [Fits, decide_eq_true_eq] at hf
      simpa [writeG, canonG, ownS] using readGeom_line c fuel o' _ _ e he s hf hwf r
    | .linearRing s, hwf, hf, fuel, o', e, r, _, he => by
      simp only [WFG, Bool.and_eq_true] at hwf; simp only [Fits, decide_eq_true_eq] at hf
      simpa [writeG, canonG, ownS] using readGeom_line c fuel o' _ _ e he s hf hwf.1 r
    | .circularString s, hwf, hf, fuel, o', e, r, _, he => by
      simp only [WFG] at hwf; simp only [Fits, decide_eq_true_eq] at hf
      simpa [writeG, canonG, ownS] using readGeom_circ c fuel o' _ _ e he s hf hwf r
    | .polygon sh hs, hwf, hf, fuel, o', e, r, _, he => by
      simp only [WFG, Bool.and_eq_true, Bool.not_eq_true'] at hwf
      simp only [Fits, Bool.and_eq_true, decide_eq_true_eq] at hf
      obtain ⟨⟨hsh, hhs⟩, hemp⟩ := hwf
      obtain ⟨⟨fsh, fhs⟩, fn⟩ := hf
      simp only [readGeom, writeG, List.append_assoc,
        readHeader_header c o' _ _ 3 e .polygon rfl (by omega) he, readBody, canonG]
      cases hE : sh.pts.isEmpty
      · -- shell not empty
        have hm : (hs.length + 1) % 4294967296 = hs.length + 1 := by omega
        have l1 := seqBytes_length_ge c.order
          (outOrd c.dims (sh.hasZ || hs.any (·.hasZ)) (sh.hasM || hs.any (·.hasM))).1
          (outOrd c.dims (sh.hasZ || hs.any (·.hasZ)) (sh.hasM || hs.any (·.hasM))).2 sh
        have l2 := seqsBytes_length_ge c.order
          (outOrd c.dims (sh.hasZ || hs.any (·.hasZ)) (sh.hasM || hs.any (·.hasM))).1
          (outOrd c.dims (sh.hasZ || hs.any (·.hasZ)) (sh.hasM || hs.any (·.hasM))).2 hs
        have hg : ¬ ((seqBytes c.order
          (outOrd c.dims (sh.hasZ || hs.any (·.hasZ)) (sh.hasM || hs.any (·.hasM))).1
          (outOrd c.dims (sh.hasZ || hs.any (·.hasZ)) (sh.hasM || hs.any (·.hasM))).2 sh ++
            (seqsBytes c.order
          (outOrd c.dims (sh.hasZ || hs.any (·.hasZ)) (sh.hasM || hs.any (·.hasM))).1
          (outOrd c.dims (sh.hasZ || hs.any (·.hasZ)) (sh.hasM || hs.any (·.hasM))).2 hs ++ r)).length
              < (hs.length + 1) * 4) := by
          simp only [List.length_append]; omega
        have hne : (maskS (outOrd c.dims (sh.hasZ || hs.any (·.hasZ)) (sh.hasM || hs.any (·.hasM))).1
          (outOrd c.dims (sh.hasZ || hs.any (·.hasZ)) (sh.hasM || hs.any (·.hasM))).2 sh).pts.isEmpty = false := by
          simpa [maskS] using hE
        simp only [Bool.false_eq_true, if_false, List.append_assoc, readU32_putU32, hm, hg,
          readRing_seqBytes c.order _ _ sh fsh (by simp [hsh.1, hsh.2]),
          readRings_seqsBytes c.order _ _ hs (by simpa using fhs) (by simpa using hhs), hne, Bool.false_and]
      · -- empty shell: zero rings
        simp [readU32_putU32]
    | .compoundCurve gs, hwf, hf, fuel, o', e, r, hd, he => by
      simp only [WFG, Bool.and_eq_true] at hwf
      simp only [Fits, Bool.and_eq_true, decide_eq_true_eq] at hf
      obtain ⟨⟨hk, hwfs⟩, hct⟩ := hwf
      obtain ⟨fn, fl⟩ := hf
      simp only [dep] at hd
      cases fuel with
      | zero => omega
      | succ f =>
        have hm : gs.length % 4294967296 = gs.length := by omega
        have hlen := writeSections_length_ge c
          (outOrd c.dims (anySeqs (·.hasZ) gs) (anySeqs (·.hasM) gs)).1
          (outOrd c.dims (anySeqs (·.hasZ) gs) (anySeqs (·.hasM) gs)).2 gs hk
        have hg : ¬ ((writeSections c
          (outOrd c.dims (anySeqs (·.hasZ) gs) (anySeqs (·.hasM) gs)).1
          (outOrd c.dims (anySeqs (·.hasZ) gs) (anySeqs (·.hasM) gs)).2 gs ++ r).length < gs.length * 9) := by
          simp only [List.length_append]; omega
        have hcc : checkContig gs = .ok () := by
          cases hx : checkContig gs with
          | ok u => rfl
          | error er => simp [hx, errOk] at hct
        rw [readGeom_succ]
        simp only [writeG, List.append_assoc,
          readHeader_header c o' _ _ 9 e .compoundCurve rfl (by omega) he, readBody, canonG,
          readU32_putU32, hm, hg, if_false, readN_writeSections c f _ _ gs hk hwfs fl r,
          checkContig_canonSec _ _ gs hk, hcc]
    | .curvePolygon gs, hwf, hf, fuel, o', e, r, hd, he => by
      simp only [WFG, Bool.and_eq_true] at hwf
      simp only [Fits, Bool.and_eq_true, decide_eq_true_eq] at hf
      obtain ⟨⟨hk, hwfs⟩, hsh⟩ := hwf
      simp only [dep] at hd
      have hpos := depL_pos gs
      rw [readGeom_succ]
      simp only [writeG, List.append_assoc,
        readHeader_header c o' _ _ 10 e .curvePolygon rfl (by omega) he, readBody, canonG]
      cases hE : gIsEmpty (.curvePolygon gs)
      · -- not empty
        simp only [hE, Bool.false_eq_true, if_false] at hd
        cases fuel with
        | zero => omega
        | succ f =>
          have hall := all_canon_of_all c.dims isCurve (isCurve_canonG c.dims) gs hk
          have hN := readN_writeGs c gs hwfs hf.2 f isCurve r (by omega) hall
          have hlen := writeGs_length_ge c gs
          cases gs with
          | nil => simp [gIsEmpty] at hE
          | cons sh hs =>
            have hm : (hs.length + 1) % 4294967296 = hs.length + 1 := by
              simp only [List.length_cons] at hf; omega
            have hg : ¬ ((writeGs c (sh :: hs) ++ r).length < (hs.length + 1) * 4) := by
              simp only [List.length_cons] at hlen
              simp only [List.length_append]; omega
            simp only [gIsEmpty] at hE
            simp only [List.all_cons, Bool.and_eq_true] at hk
            simp only [Bool.false_eq_true, if_false, List.append_assoc, List.length_cons, readU32_putU32, hm, hg]
            simp only [List.length_cons, readN, canonGs] at hN
            -- split the combined loop into shell + holes
            cases h1 : asChild isCurve (readGeom arc (f + 1) c.order (writeGs c (sh :: hs) ++ r)) with
            | error er => simp [h1] at hN
            | ok v1 =>
              obtain ⟨g1, o1, b1⟩ := v1
              simp only [h1] at hN
              cases h2 : readN (fun o bs => asChild isCurve (readGeom arc (f + 1) o bs)) hs.length o1 b1 with
              | error er => simp [h2] at hN
              | ok v2 =>
                obtain ⟨g2, o2, b2⟩ := v2
                simp only [h2, Except.ok.injEq, Prod.mk.injEq, List.cons.injEq] at hN
                obtain ⟨⟨hg1, hg2⟩, ho2, hb2⟩ := hN
                subst hg1 hg2 ho2 hb2
                simp only [h2, canonGs, gIsEmpty_canonG_curve c.dims sh hk.1, hE, Bool.false_and, Bool.false_eq_true, if_false]
      · -- empty: zero rings
        simp [readU32_putU32]
    | .multiPoint gs, hwf, hf, fuel, o', e, r, hd, he => by
      simp only [WFG, Bool.and_eq_true] at hwf
      have hall := all_canon_of_all c.dims isPoint (isPoint_canonG c.dims) gs hwf.1
      have hwfs := hwf.2
      simp only [Fits, Bool.and_eq_true, decide_eq_true_eq] at hf
      simp only [dep] at hd
      have hpos := depL_pos gs
      cases fuel with
      | zero => omega
      | succ f =>
        have hN := readN_writeGs c gs hwfs hf.2 f isPoint r (by omega) hall
        simp only [readGeom, writeG, collHeader, List.append_assoc,
          readHeader_header c o' _ _ 4 e .multiPoint rfl (by omega) he, readBody, canonG]
        exact readColl_spec c (f + 1) _ 21 _ _ rfl gs r hf.1 (writeGs_points_length_ge c gs hwf.1) hN
    | .multiLineString gs, hwf, hf, fuel, o', e, r, hd, he => by
      simp only [WFG, Bool.and_eq_true] at hwf
      have hall := all_canon_of_all c.dims isLineString (isLineString_canonG c.dims) gs hwf.1
      have hwfs := hwf.2
      simp only [Fits, Bool.and_eq_true, decide_eq_true_eq] at hf
      simp only [dep] at hd
      have hpos := depL_pos gs
      cases fuel with
      | zero => omega
      | succ f =>
        have hN := readN_writeGs c gs hwfs hf.2 f isLineString r (by omega) hall
        simp only [readGeom, writeG, collHeader, List.append_assoc,
          readHeader_header c o' _ _ 5 e .multiLineString rfl (by omega) he, readBody, canonG]
        exact readColl_spec c (f + 1) _ 9 _ _ rfl gs r hf.1 (writeGs_length_ge c gs) hN
    | .multiPolygon gs, hwf, hf, fuel, o', e, r, hd, he => by
      simp only [WFG, Bool.and_eq_true] at hwf
      have hall := all_canon_of_all c.dims isPolygon (isPolygon_canonG c.dims) gs hwf.1
      have hwfs := hwf.2
      simp only [Fits, Bool.and_eq_true, decide_eq_true_eq] at hf
      simp only [dep] at hd
      have hpos := depL_pos gs
      cases fuel with
      | zero => omega
      | succ f =>
        have hN := readN_writeGs c gs hwfs hf.2 f isPolygon r (by omega) hall
        simp only [readGeom, writeG, collHeader, List.append_assoc,
          readHeader_header c o' _ _ 6 e .multiPolygon rfl (by omega) he, readBody, canonG]
        exact readColl_spec c (f + 1) _ 9 _ _ rfl gs r hf.1 (writeGs_length_ge c gs) hN
    | .collection gs, hwf, hf, fuel, o', e, r, hd, he => by
      simp only [WFG] at hwf
      have hall : gs.all (fun g => (fun _ => true) (canonG c.dims g)) = true := by simp
      have hwfs := hwf
      simp only [Fits, Bool.and_eq_true, decide_eq_true_eq] at hf
      simp only [dep] at hd
      have hpos := depL_pos gs
      cases fuel with
      | zero => omega
      | succ f =>
        have hN := readN_writeGs c gs hwfs hf.2 f (fun _ => true) r (by omega) hall
        simp only [readGeom, writeG, collHeader, List.append_assoc,
          readHeader_header c o' _ _ 7 e .collection rfl (by omega) he, readBody, canonG]
        exact readColl_spec c (f + 1) _ 9 _ _ rfl gs r hf.1 (writeGs_length_ge c gs) hN
    | .multiCurve gs, hwf, hf, fuel, o', e, r, hd, he => by
      simp only [WFG, Bool.and_eq_true] at hwf
      have hall := all_canon_of_all c.dims isCurve (isCurve_canonG c.dims) gs hwf.1
      have hwfs := hwf.2
      simp only [Fits, Bool.and_eq_true, decide_eq_true_eq] at hf
      simp only [dep] at hd
      have hpos := depL_pos gs
      cases fuel with
      | zero => omega
      | succ f =>
        have hN := readN_writeGs c gs hwfs hf.2 f isCurve r (by omega) hall
        simp only [readGeom, writeG, collHeader, List.append_assoc,
          readHeader_header c o' _ _ 11 e .multiCurve rfl (by omega) he, readBody, canonG]
        exact readColl_spec c (f + 1) _ 9 _ _ rfl gs r hf.1 (writeGs_length_ge c gs) hN
    | .multiSurface gs, hwf, hf, fuel, o', e, r, hd, he => by
      simp only [WFG, Bool.and_eq_true] at hwf
      have hall := all_canon_of_all c.dims isSurface (isSurface_canonG c.dims) gs hwf.1
      have hwfs := hwf.2
      simp only [Fits, Bool.and_eq_true, decide_eq_true_eq] at hf
      simp only [dep] at hd
      have hpos := depL_pos gs
      cases fuel with
      | zero => omega
      | succ f =>
        have hN := readN_writeGs c gs hwfs hf.2 f isSurface r (by omega) hall
        simp only [readGeom, writeG, collHeader, List.append_assoc,
          readHeader_header c o' _ _ 12 e .multiSurface rfl (by omega) he, readBody, canonG]
        exact readColl_spec c (f + 1) _ 9 _ _ rfl gs r hf.1 (writeGs_length_ge c gs) hN
  theorem readN_writeGs (c : Cfg) : ∀ (gs : List G), WFGs arc gs = true → FitsL gs = true →
      ∀ (fuel : Nat) (p : G → Bool) (r : List UInt8), depL gs ≤ fuel + 1 →
      gs.all (fun g => p (canonG c.dims g)) = true →
      readN (fun o bs => asChild p (readGeom arc (fuel + 1) o bs)) gs.length c.order (writeGs c gs ++ r)
        = .ok (canonGs c.dims gs, c.order, r)
    | [], _, _, _, _, _, _, _ => by simp [readN, writeGs, canonGs]
    | g :: gs, hwf, hf, fuel, p, r, hd, hp => by
      simp only [WFGs, Bool.and_eq_true] at hwf
      simp only [FitsL, Bool.and_eq_true] at hf
      simp only [List.all_cons, Bool.and_eq_true] at hp
      simp only [depL] at hd
      have h1 := depL_pos gs
      have hg := readGeom_writeG c g hwf.1 hf.1 fuel c.order 0 (writeGs c gs ++ r) (by omega) sridFits_zero
      have hgs := readN_writeGs c gs hwf.2 hf.2 fuel p r (by omega) hp.2
      simp only [List.length_cons, readN, writeGs, List.append_assoc, hg, asChild_ok, hp.1, if_true, hgs, canonGs]
end

end GeosModel.WKB
