import GeosModel.Proofs.WKB.Bytes
/-! Coordinate-sequence level lemmas for C09: what the reader returns on the writer's sequences. -/
namespace GeosModel.WKB
open GeosModel

variable {arc : ArcOracle}

theorem putU64_length (o : Order) (u : UInt64) : (putU64 o u).length = 8 := by
  cases o <;> simp [putU64]

theorem putU32_length (o : Order) (n : Nat) : (putU32 o n).length = 4 := by
  cases o <;> simp [putU32]

theorem coordBytes_length (o : Order) (z m : Bool) (p : Coord) :
    (coordBytes o z m p).length = 16 + 8 * toN z + 8 * toN m := by
  cases z <;> cases m <;> simp [coordBytes, putU64_length, toN]

theorem ptsBytes_length (o : Order) (z m : Bool) (ps : List Coord) :
    (ptsBytes o z m ps).length = ps.length * (16 + 8 * toN z + 8 * toN m) := by
  induction ps with
  | nil => simp [ptsBytes]
  | cons p ps ih => simp [ptsBytes, coordBytes_length, ih, Nat.add_mul]; omega

theorem ptsBytes_length_ge (o : Order) (z m : Bool) (ps : List Coord) :
    ps.length * 16 ≤ (ptsBytes o z m ps).length := by
  rw [ptsBytes_length]; exact Nat.mul_le_mul_left _ (by omega)

theorem readCoord_coordBytes (o : Order) (z m : Bool) (p : Coord) (n : Nat) (r : List UInt8) :
    readCoords o z m (n + 1) (coordBytes o z m p ++ r) =
      (match readCoords o z m n r with
       | .error e => .error e
       | .ok (ps, bs) => .ok (maskC z m p :: ps, bs)) := by
  cases z <;> cases m <;>
    simp [readCoords, coordBytes, List.append_assoc, readU64_putU64, maskC] <;>
    (rcases readCoords o _ _ n r with e | ⟨ps, bs⟩ <;> rfl)

theorem readCoords_ptsBytes (o : Order) (z m : Bool) (ps : List Coord) (r : List UInt8) :
    readCoords o z m ps.length (ptsBytes o z m ps ++ r) = .ok (ps.map (maskC z m), r) := by
  induction ps with
  | nil => simp [ptsBytes, readCoords]
  | cons p ps ih =>
    simp only [ptsBytes, List.length_cons, List.append_assoc, readCoord_coordBytes, ih, List.map_cons]

theorem readCoordSeq_ptsBytes (o : Order) (z m : Bool) (ps : List Coord) (r : List UInt8) :
    readCoordSeq o z m ps.length (ptsBytes o z m ps ++ r) = .ok (maskS z m ⟨z, m, ps⟩, r) := by
  have h := ptsBytes_length_ge o z m ps
  have : ¬ ((ptsBytes o z m ps ++ r).length < ps.length * 16) := by
    simp only [List.length_append]; omega
  simp only [readCoordSeq, this, if_false, readCoords_ptsBytes, maskS]

theorem maskS_mk (z m a b : Bool) (ps : List Coord) : maskS z m ⟨a, b, ps⟩ = maskS z m ⟨z, m, ps⟩ := rfl

theorem readSizedSeq_seqBytes (o : Order) (z m : Bool) (s : CSeq) (hs : s.pts.length < 4294967296)
    (r : List UInt8) :
    readSizedSeq o z m (seqBytes o z m s ++ r) = .ok (maskS z m s, r) := by
  have h := ptsBytes_length_ge o z m s.pts
  have hm : s.pts.length % 4294967296 = s.pts.length := by omega
  have : ¬ ((ptsBytes o z m s.pts ++ r).length < s.pts.length * 16) := by
    simp only [List.length_append]; omega
  simp only [readSizedSeq, seqBytes, List.append_assoc, readU32_putU32, hm, this, if_false,
    readCoordSeq_ptsBytes]
  rfl

/-! masking keeps X and Y, hence the constructors' checks -/

theorem maskS_length (z m : Bool) (s : CSeq) : (maskS z m s).pts.length = s.pts.length := by
  simp [maskS]

theorem eq2D_mask (z m z' m' : Bool) (a b : Coord) : Coord.eq2D (maskC z m a) (maskC z' m' b) = Coord.eq2D a b := rfl

theorem closedPts_map (z m : Bool) (ps : List Coord) : closedPts (ps.map (maskC z m)) = closedPts ps := by
  unfold closedPts
  cases h1 : ps.head? <;> cases h2 : ps.getLast? <;> simp [List.head?_map, List.getLast?_map, h1, h2, eq2D_mask]

theorem lineOK_maskS (z m : Bool) (s : CSeq) : lineOK (maskS z m s) = lineOK s := by
  simp [lineOK, maskS]

theorem xyOf_map_maskC (z m : Bool) (ps : List Coord) : xyOf (ps.map (maskC z m)) = xyOf ps := by
  simp [xyOf, List.map_map, Function.comp_def, maskC]

theorem circOK_maskS (z m : Bool) (s : CSeq) : circOK arc (maskS z m s) = circOK arc s := by
  simp [circOK, maskS, xyOf_map_maskC]

theorem ringOK_maskS (z m : Bool) (s : CSeq) : ringOK (maskS z m s) = ringOK s := by
  simp [ringOK, maskS, closedPts_map]

theorem readRing_seqBytes (o : Order) (z m : Bool) (s : CSeq) (hs : s.pts.length < 4294967296)
    (hok : (lineOK s && ringOK s) = true) (r : List UInt8) :
    readRing o z m (seqBytes o z m s ++ r) = .ok (maskS z m s, r) := by
  simp only [readRing, readSizedSeq_seqBytes o z m s hs, lineOK_maskS, ringOK_maskS, hok, if_true]

theorem readRings_seqsBytes (o : Order) (z m : Bool) (ss : List CSeq)
    (hs : ss.all (fun r => decide (r.pts.length < 4294967296)) = true)
    (hok : ss.all (fun r => lineOK r && ringOK r) = true) (r : List UInt8) :
    readRings o z m ss.length (seqsBytes o z m ss ++ r) = .ok (ss.map (maskS z m), r) := by
  induction ss with
  | nil => simp [readRings, seqsBytes]
  | cons s ss ih =>
    simp only [List.all_cons, Bool.and_eq_true, decide_eq_true_eq] at hs hok
    simp only [List.length_cons, readRings, seqsBytes, List.append_assoc,
      readRing_seqBytes o z m s hs.1 (by simpa using hok.1), ih hs.2 hok.2, List.map_cons]

theorem seqBytes_length_ge (o : Order) (z m : Bool) (s : CSeq) : 4 ≤ (seqBytes o z m s).length := by
  simp [seqBytes, putU32_length]

theorem seqsBytes_length_ge (o : Order) (z m : Bool) (ss : List CSeq) :
    ss.length * 4 ≤ (seqsBytes o z m ss).length := by
  induction ss with
  | nil => simp [seqsBytes]
  | cons s ss ih =>
    have := seqBytes_length_ge o z m s
    simp only [seqsBytes, List.length_cons, List.length_append]; omega

end GeosModel.WKB
