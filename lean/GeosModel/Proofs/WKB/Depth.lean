import GeosModel.Proofs.WKB.Fuel
import GeosModel.Proofs.WKB.Main
import GeosModel.Model.WKB.Resource
/-! C11 for the WKB reader, part 3: the recursion depth and the allocation are *not* bounded by a constant
(multiple of the input size): witness families. -/
namespace GeosModel.WKB
open GeosModel

variable {arc : ArcOracle}

/-- the configuration the witnesses are written in -/
def c0 : Cfg := ⟨4, .le, .ext, false⟩

/-- POINT (1 2) nested in `d` geometry collections -/
def nestG : Nat → G
  | 0 => .point ⟨false, false, [⟨0x3ff0000000000000, 0x4000000000000000, nanBits, nanBits⟩]⟩
  | d + 1 => .collection [nestG d]

def nestBytes (d : Nat) : List UInt8 := writeG c0 0 (nestG d)

theorem collection_bytes (g : G) :
    writeG c0 0 (.collection [g]) = header c0 (gHasZ g) (gHasM g) 7 0 ++ (putU32 .le 1 ++ writeG c0 0 g) := by
  simp [writeG, collHeader, writeGs, c0, outOrd_four', anySeqs, gHasZ, gHasM]
where outOrd_four' : ∀ z m, outOrd 4 z m = (z, m) := by intro z m; cases z <;> cases m <;> rfl

theorem nestBytes_length (d : Nat) : (nestBytes d).length = 9 * d + 21 := by
  induction d with
  | zero => decide
  | succ d ih =>
    simp only [nestBytes, nestG, collection_bytes] at ih ⊢
    simp only [List.length_append, putU32_length, ih]
    simp [header, c0, putU32_length]
    omega

/-- reading one collection level around an arbitrary child reader result -/
theorem readGeom_collection1 (fuel : Nat) (o' : Order) (z m : Bool) (inner r : List UInt8)
    (hlen : 9 ≤ inner.length) :
    readGeom arc (fuel + 1) o' (header c0 z m 7 0 ++ (putU32 .le 1 ++ inner) ++ r) =
      (match asChild (fun _ => true) (readGeom arc fuel .le (inner ++ r)) with
       | .error e => .error e
       | .ok (g, o, bs) => .ok ((.collection [g], 0), o, bs)) := by
  rw [readGeom_succ]
  have hh := readHeader_header c0 o' z m 7 0 .collection rfl (by omega) sridFits_zero
  simp only [List.append_assoc, hh]
  simp only [readBody, readColl, c0, readU32_putU32]
  have hg : ¬ ((inner ++ r).length < 1 % 4294967296 * 9) := by
    simp only [List.length_append]; omega
  simp only [hg, if_false, show (1 : Nat) % 4294967296 = 1 from rfl, readN]
  cases h : asChild (fun _ => true) (readGeom arc fuel Order.le (inner ++ r)) with
  | error e => simp
  | ok v => obtain ⟨g, o, b⟩ := v; simp

/-- with at least `d + 1` levels allowed the `d`-fold nested input is read … -/
theorem readGeom_nest_ok : ∀ (d fuel : Nat) (o' : Order) (r : List UInt8), d ≤ fuel →
    readGeom arc (fuel + 1) o' (nestBytes d ++ r) = .ok ((nestG d, 0), .le, r)
  | 0, fuel, o', r, _ => by
    have := readGeom_writeG (arc := arc) c0 (nestG 0) (by simp [nestG, WFG]) (by decide) fuel o' 0 r (by simp [nestG, dep]) sridFits_zero
    simpa [nestBytes, c0, nestG, canonG, ownS, maskS, maskC, pointOfSeq, outOrd, toN, isNaNBits] using this
  | d + 1, fuel, o', r, hd => by
    cases fuel with
    | zero => omega
    | succ f =>
      have hl : 9 ≤ (nestBytes d).length := by rw [nestBytes_length]; omega
      have ih := readGeom_nest_ok d f .le r (by omega)
      have := readGeom_collection1 (arc := arc) (f + 1) o' (gHasZ (nestG d)) (gHasM (nestG d)) (nestBytes d) r hl
      simp only [nestBytes, nestG, collection_bytes] at this ih ⊢
      rw [this, ih]
      rfl

/-- … and with only `d` levels it is not: the reader really nests `d + 1` activations deep -/
theorem readGeom_nest_fuel : ∀ (d : Nat) (o' : Order) (r : List UInt8),
    readGeom arc d o' (nestBytes d ++ r) = .error .fuel
  | 0, o', r => rfl
  | d + 1, o', r => by
    have hl : 9 ≤ (nestBytes d).length := by rw [nestBytes_length]; omega
    have ih := readGeom_nest_fuel d .le r
    have := readGeom_collection1 (arc := arc) d o' (gHasZ (nestG d)) (gHasM (nestG d)) (nestBytes d) r hl
    simp only [nestBytes, nestG, collection_bytes] at this ih ⊢
    rw [this, ih]
    rfl

/-! ### allocation -/

/-- `k` nested collections, level `j` (from the inside) claiming `j − 1` elements — exactly what passes
`minMemSize` (`remaining / 9`) — and nothing else: 9·k bytes -/
def over : Nat → List UInt8
  | 0 => []
  | k + 1 => header c0 false false 7 0 ++ (putU32 .le k ++ over k)

theorem over_length (k : Nat) : (over k).length = 9 * k := by
  induction k with
  | zero => rfl
  | succ k ih =>
    simp only [over, List.length_append, putU32_length, ih]
    simp [header, c0, putU32_length]
    omega

/-- 0 + 8 + 16 + … + 8(k−1) -/
def tri : Nat → Nat
  | 0 => 0
  | k + 1 => tri k + 8 * k

theorem tri_eq (k : Nat) : tri k = 4 * k * (k - 1) := by
  induction k with
  | zero => rfl
  | succ j ih =>
    cases j with
    | zero => rfl
    | succ i =>
      simp only [tri] at ih ⊢
      simp only [Nat.add_sub_cancel] at ih ⊢
      grind

theorem allocGeom_over : ∀ (k fuel : Nat) (o : Order), k ≤ fuel → k < 4294967296 → tri k ≤ allocGeom arc fuel o (over k)
  | 0, _, _, _, _ => by simp [tri]
  | k + 1, fuel, o, hk, hlt => by
    cases fuel with
    | zero => omega
    | succ f =>
      have hh := readHeader_header c0 o false false 7 0 .collection rfl (by omega) sridFits_zero
        (putU32 .le k ++ over k)
      have hkm : k % 4294967296 = k := by omega
      have hg : ¬ ((over k).length < k * 9) := by rw [over_length]; omega
      simp only [over, allocGeom, hh, allocBody, allocColl]
      have ho : c0.order = .le := rfl
      simp only [ho, readU32_putU32, hkm, hg, if_false, tri]
      cases k with
      | zero => simp [tri]
      | succ j =>
        have ih := allocGeom_over (j + 1) f .le (by omega) (by omega)
        simp only [allocN]
        omega

end GeosModel.WKB
