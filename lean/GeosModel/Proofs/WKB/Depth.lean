import GeosModel.Proofs.WKB.Fuel
import GeosModel.Proofs.WKB.Main
import GeosModel.Model.WKB.Resource
/-! C11 for the WKB reader, part 3: witness families.  The recursion depth is *not* bounded by a constant (`nestBytes`);
the allocation is linear (`Proofs/Readers/WKBAlloc.lean`) and the constant 4 of that bound is attained up to an additive
constant (`polyHoles`); `over` is the family on which the allocation was quadratic before /repo a208e3db7, kept as a
regression witness. -/
namespace GeosModel.WKB
open GeosModel

variable {arc : ArcOracle}

/-- the configuration the witnesses are written in -/
def c0 : Cfg := ⟨4, .le, .ext, false⟩

/-- POINT (1 2) nested in `d` geometry collections -/
def nestG : Nat → G
  | 0 => .point ⟨false, false, [⟨0x3ff0000000000000, 0x4000000000000000, nanBits, nanBits⟩]⟩
  | d + 1 => .collection [nestG d]

def nestBytes (d : Nat) : List UInt8 := writeG c0 0 (nestG d)

theorem collection_bytes (g : G) :
    writeG c0 0 (.collection [g]) = header c0 (gHasZ g) (gHasM g) 7 0 ++ (putU32 .le 1 ++ writeG c0 0 g) := by
  simp [writeG, collHeader, writeGs, c0, outOrd_four', anySeqs, gHasZ, gHasM]
where outOrd_four' : ∀ z m, outOrd 4 z m = (z, m) := by intro z m; cases z <;> cases m <;> rfl

theorem nestBytes_length (d : Nat) : (nestBytes d).length = 9 * d + 21 := by
  induction d with
  | zero => decide
  | succ d ih =>
    simp only [nestBytes, nestG, collection_bytes] at ih ⊢
    simp only [List.length_append, putU32_length, ih]
    simp [header, c0, putU32_length]
    omega

/-- reading one collection level around an arbitrary child reader result -/
theorem readGeom_collection1 (fuel : Nat) (o' : Order) (z m : Bool) (inner r : List UInt8)
    (hlen : 9 ≤ inner.length) :
    readGeom arc (fuel + 1) o' (header c0 z m 7 0 ++ (putU32 .le 1 ++ inner) ++ r) =
      (match asChild (fun _ => true) (readGeom arc fuel .le (inner ++ r)) with
       | .error e => .error e
       | .ok (g, o, bs) => .ok ((.collection [g], 0), o, bs)) := by
  rw [readGeom_succ]
  have hh := readHeader_header c0 o' z m 7 0 .collection rfl (by omega) sridFits_zero
  simp only [List.append_assoc, hh]
  simp only [readBody, readColl, c0, readU32_putU32]
  have hg : ¬ ((inner ++ r).length < 1 % 4294967296 * 9) := by
    simp only [List.length_append]; omega
  simp only [hg, if_false, show (1 : Nat) % 4294967296 = 1 from rfl, readN]
  cases h : asChild (fun _ => true) (readGeom arc fuel Order.le (inner ++ r)) with
  | error e => simp
  | ok v => obtain ⟨g, o, b⟩ := v; simp

/-- with at least `d + 1` levels allowed the `d`-fold nested input is read … -/
theorem readGeom_nest_ok : ∀ (d fuel : Nat) (o' : Order) (r : List UInt8), d ≤ fuel →
    readGeom arc (fuel + 1) o' (nestBytes d ++ r) = .ok ((nestG d, 0), .le, r)
  | 0, fuel, o', r, _ => by
    have := readGeom_writeG (arc := arc) c0 (nestG 0) (by simp [nestG, WFG]) (by decide) fuel o' 0 r (by simp [nestG, dep]) sridFits_zero
    simpa [nestBytes, c0, nestG, canonG, ownS, maskS, maskC, pointOfSeq, outOrd, toN, isNaNBits] using this
  | d + 1, fuel, o', r, hd => by
    cases fuel with
    | zero => omega
    | succ f =>
      have hl : 9 ≤ (nestBytes d).length := by rw [nestBytes_length]; omega
      have ih := readGeom_nest_ok d f .le r (by omega)
      have := readGeom_collection1 (arc := arc) (f + 1) o' (gHasZ (nestG d)) (gHasM (nestG d)) (nestBytes d) r hl
      simp only [nestBytes, nestG, collection_bytes] at this ih ⊢
      rw [this, ih]
      rfl

/-- … and with only `d` levels it is not: the reader really nests `d + 1` activations deep -/
theorem readGeom_nest_fuel : ∀ (d : Nat) (o' : Order) (r : List UInt8),
    readGeom arc d o' (nestBytes d ++ r) = .error .fuel
  | 0, o', r => rfl
  | d + 1, o', r => by
    have hl : 9 ≤ (nestBytes d).length := by rw [nestBytes_length]; omega
    have ih := readGeom_nest_fuel d .le r
    have := readGeom_collection1 (arc := arc) d o' (gHasZ (nestG d)) (gHasM (nestG d)) (nestBytes d) r hl
    simp only [nestBytes, nestG, collection_bytes] at this ih ⊢
    rw [this, ih]
    rfl

/-! ### allocation -/

/-- `k` nested collections, level `j` (from the inside) claiming `j − 1` elements — exactly what passes
`minMemSize` (`remaining / 9`) — and nothing else: 9·k bytes.  Before /repo a208e3db7 (child vectors sized from the
claimed count) this family made the reader request `4 k (k − 1)` bytes; it is the `wkb-over` regression witness of
`checks/C11.py` (`C11.WKB.wkbOver_eq`, `C11.WKB.alloc_over_linear`). -/
def over : Nat → List UInt8
  | 0 => []
  | k + 1 => header c0 false false 7 0 ++ (putU32 .le k ++ over k)

theorem over_length (k : Nat) : (over k).length = 9 * k := by
  induction k with
  | zero => rfl
  | succ k ih =>
    simp only [over, List.length_append, putU32_length, ih]
    simp [header, c0, putU32_length]
    omega

/-- `k` empty linear rings (a zero size word each) -/
def emptyRings : Nat → List UInt8
  | 0 => []
  | k + 1 => putU32 .le 0 ++ emptyRings k

theorem emptyRings_length (k : Nat) : (emptyRings k).length = 4 * k := by
  induction k with
  | zero => rfl
  | succ k ih => simp only [emptyRings, List.length_append, putU32_length, ih]; omega

/-- a polygon of `k + 1` empty rings (an empty shell and `k` empty holes): `13 + 4 k` bytes -/
def polyHoles (k : Nat) : List UInt8 := header c0 false false 3 0 ++ (putU32 .le (k + 1) ++ emptyRings (k + 1))

theorem polyHoles_length (k : Nat) : (polyHoles k).length = 13 + 4 * k := by
  simp only [polyHoles, List.length_append, putU32_length, emptyRings_length]
  simp [header, c0, putU32_length]
  omega

theorem readRing_empty (o : Order) (z m : Bool) (r : List UInt8) :
    readRing o z m (putU32 o 0 ++ r) = .ok (⟨z, m, []⟩, r) := by
  simp [readRing, readSizedSeq, readU32_putU32, readCoordSeq, readCoords, lineOK, ringOK]

theorem allocSized_empty (o : Order) (z m : Bool) (r : List UInt8) : allocSized o z m (putU32 o 0 ++ r) = 0 := by
  simp [allocSized, readU32_putU32, seqAlloc]

/-- every empty hole is read, and pushed: one slot each -/
theorem allocRings_empty (z m : Bool) : ∀ (k : Nat) (r : List UInt8),
    allocRings .le z m k (emptyRings k ++ r) = 16 * k
  | 0, r => by simp [allocRings]
  | k + 1, r => by
    simp only [emptyRings, List.append_assoc, allocRings, allocSized_empty, readRing_empty, slot,
      allocRings_empty z m k r]
    rw [Nat.zero_add, Nat.mul_succ, Nat.add_comm]

/-- the polygon with `k` empty holes is charged `16 k` on `13 + 4 k` bytes: the bound `4 · length` is attained up to
the additive constant 52 -/
theorem allocGeom_polyHoles (k fuel : Nat) (o : Order) (hk : k + 1 < 4294967296) :
    allocGeom arc (fuel + 1) o (polyHoles k) = 16 * k := by
  have hh := readHeader_header c0 o false false 3 0 .polygon rfl (by omega) sridFits_zero
    (putU32 .le (k + 1) ++ emptyRings (k + 1))
  have hkm : (k + 1) % 4294967296 = k + 1 := by omega
  have hg : ¬ ((emptyRings (k + 1)).length < (k + 1) * 4) := by rw [emptyRings_length]; omega
  have ho : c0.order = .le := rfl
  have ha := allocRings_empty false false k []
  simp only [List.append_nil] at ha
  simp only [polyHoles, allocGeom, hh, allocBody, ho, readU32_putU32, hkm, hg, if_false]
  simp only [emptyRings, allocSized_empty, readRing_empty, ha]
  exact Nat.zero_add _

theorem readRings_empty (z m : Bool) : ∀ (k : Nat) (r : List UInt8),
    readRings .le z m k (emptyRings k ++ r) = .ok (List.replicate k ⟨z, m, []⟩, r)
  | 0, r => by simp [readRings, emptyRings]
  | k + 1, r => by
    simp only [emptyRings, List.append_assoc, readRings, readRing_empty, readRings_empty z m k r, List.replicate_succ]

/-- … and it is accepted (empty shell, only empty holes) -/
theorem readGeom_polyHoles (k fuel : Nat) (o : Order) (hk : k + 1 < 4294967296) :
    readGeom arc (fuel + 1) o (polyHoles k) =
      .ok ((.polygon ⟨false, false, []⟩ (List.replicate k ⟨false, false, []⟩), 0), .le, []) := by
  have hh := readHeader_header c0 o false false 3 0 .polygon rfl (by omega) sridFits_zero
    (putU32 .le (k + 1) ++ emptyRings (k + 1))
  have hkm : (k + 1) % 4294967296 = k + 1 := by omega
  have hg : ¬ ((emptyRings (k + 1)).length < (k + 1) * 4) := by rw [emptyRings_length]; omega
  have ho : c0.order = .le := rfl
  have hr := readRings_empty false false k []
  simp only [List.append_nil] at hr
  rw [readGeom_succ]
  simp only [polyHoles, hh, readBody, ho, readU32_putU32, hkm, hg, if_false]
  simp only [emptyRings, readRing_empty, hr]
  simp [c0]

end GeosModel.WKB
