import GeosModel.Model.Num.Fixed
/-! Basic arithmetic lemmas for the C10 number model: decimal length, digit lists. Core Lean only. -/
namespace GeosModel.Num

theorem dlenAux_pos : ∀ f n, 1 ≤ dlenAux f n
  | 0, _ => by simp [dlenAux]
  | f + 1, n => by
    simp only [dlenAux]
    split <;> omega

theorem ten_pow_succ_pred {d : Nat} (h : 1 ≤ d) : 10 ^ d = 10 * 10 ^ (d - 1) := by
  obtain ⟨e, rfl⟩ : ∃ e, d = e + 1 := ⟨d - 1, by omega⟩
  simp [Nat.pow_succ, Nat.mul_comm]

theorem dlenAux_spec : ∀ f n, n < 2 ^ f → 0 < n → 10 ^ (dlenAux f n - 1) ≤ n ∧ n < 10 ^ (dlenAux f n)
  | 0, n, h, hp => by simp at h; omega
  | f + 1, n, h, hp => by
    simp only [dlenAux]
    by_cases h10 : n < 10
    · simp [h10]; omega
    · simp only [h10, if_false]
      have h2 : n / 10 < 2 ^ f := by
        have : 2 ^ (f + 1) = 2 * 2 ^ f := by rw [Nat.pow_succ, Nat.mul_comm]
        omega
      have ih := dlenAux_spec f (n / 10) h2 (by omega)
      have hd := dlenAux_pos f (n / 10)
      have e1 : 10 ^ (dlenAux f (n / 10)) = 10 * 10 ^ (dlenAux f (n / 10) - 1) := ten_pow_succ_pred hd
      have e2 : 10 ^ (dlenAux f (n / 10) + 1) = 10 * 10 ^ (dlenAux f (n / 10)) := by
        rw [Nat.pow_succ, Nat.mul_comm]
      simp only [Nat.add_sub_cancel]
      omega

theorem dlen_pos (n : Nat) : 1 ≤ dlen n := dlenAux_pos _ _

/-- `10^(dlen n - 1) ≤ n < 10^(dlen n)` -/
theorem dlen_spec (n : Nat) (hp : 0 < n) : 10 ^ (dlen n - 1) ≤ n ∧ n < 10 ^ (dlen n) :=
  dlenAux_spec _ n Nat.lt_log2_self hp

theorem dlen_zero : dlen 0 = 1 := by
  simp [dlen, dlenAux]

theorem dlen_lt_ten {n : Nat} (h : n < 10) : dlen n = 1 := by
  unfold dlen
  cases hf : n.log2 + 1 with
  | zero => omega
  | succ f => simp [dlenAux, h]

/-- the digit count is determined by the decade -/
theorem dlen_unique {n d : Nat} (hd : 1 ≤ d) (h1 : 10 ^ (d - 1) ≤ n) (h2 : n < 10 ^ d) : dlen n = d := by
  have hp : 0 < n := Nat.lt_of_lt_of_le (Nat.pow_pos (by decide)) h1
  obtain ⟨s1, s2⟩ := dlen_spec n hp
  have hl := dlen_pos n
  by_cases hlt : dlen n < d
  · have : 10 ^ (dlen n) ≤ 10 ^ (d - 1) := Nat.pow_le_pow_right (by decide) (by omega)
    omega
  · by_cases hgt : d < dlen n
    · have : 10 ^ d ≤ 10 ^ (dlen n - 1) := Nat.pow_le_pow_right (by decide) (by omega)
      omega
    · omega

theorem dlen_le_of_lt {n d : Nat} (h : n < 10 ^ d) (hd : 1 ≤ d) : dlen n ≤ d := by
  by_cases hp : n = 0
  · subst hp; rw [dlen_zero]; exact hd
  · obtain ⟨s1, _⟩ := dlen_spec n (by omega)
    by_cases hgt : d < dlen n
    · have : 10 ^ d ≤ 10 ^ (dlen n - 1) := Nat.pow_le_pow_right (by decide) (by omega)
      omega
    · omega

theorem dlenFast_eq (n : Nat) (hp : 0 < n) : dlenFast n = dlen n := by
  unfold dlenFast
  simp only
  split
  · rename_i h
    exact (dlen_unique (by omega) h.1 h.2).symm
  · split
    · rename_i h
      exact (dlen_unique (by omega) (by simpa using h.1) h.2).symm
    · rfl

theorem ite_le {c : Prop} [Decidable c] {a b n : Nat} (ha : a ≤ n) (hb : b ≤ n) : (if c then a else b) ≤ n := by
  split <;> assumption
theorem le_ite {c : Prop} [Decidable c] {a b n : Nat} (ha : n ≤ a) (hb : n ≤ b) : n ≤ (if c then a else b) := by
  split <;> assumption
theorem decimalLength17_le (v : Nat) : decimalLength17 v ≤ 17 := by
  unfold decimalLength17
  repeat (first | omega | apply ite_le)
theorem decimalLength17_pos (v : Nat) : 1 ≤ decimalLength17 v := by
  unfold decimalLength17
  repeat (first | omega | apply le_ite)

theorem decimalLength17_eq {v : Nat} (h : v < 10 ^ 17) : decimalLength17 v = dlen v := by
  by_cases h0 : v = 0
  · subst h0; simp [decimalLength17, dlen_zero]
  · have hs := dlen_spec v (by omega)
    have hl : dlen v ≤ 17 := dlen_le_of_lt h (by decide)
    have hp := dlen_pos v
    have : dlen v = 1 ∨ dlen v = 2 ∨ dlen v = 3 ∨ dlen v = 4 ∨ dlen v = 5 ∨ dlen v = 6 ∨ dlen v = 7 ∨ dlen v = 8 ∨
        dlen v = 9 ∨ dlen v = 10 ∨ dlen v = 11 ∨ dlen v = 12 ∨ dlen v = 13 ∨ dlen v = 14 ∨ dlen v = 15 ∨
        dlen v = 16 ∨ dlen v = 17 := by omega
    rcases this with e|e|e|e|e|e|e|e|e|e|e|e|e|e|e|e|e
    all_goals (
      rw [e] at hs ⊢
      simp at hs
      unfold decimalLength17
      repeat (first | rw [if_pos (by omega)] | rw [if_neg (by omega)]))



/-! ### digit lists -/

theorem digitChar_isDigit {d : Nat} (h : d < 10) : isDigitC (digitChar d) = true := by
  have : d = 0 ∨ d = 1 ∨ d = 2 ∨ d = 3 ∨ d = 4 ∨ d = 5 ∨ d = 6 ∨ d = 7 ∨ d = 8 ∨ d = 9 := by omega
  rcases this with e|e|e|e|e|e|e|e|e|e <;> subst e <;> decide

theorem digitChar_val {d : Nat} (h : d < 10) : (digitChar d).toNat - 48 = d := by
  have : d = 0 ∨ d = 1 ∨ d = 2 ∨ d = 3 ∨ d = 4 ∨ d = 5 ∨ d = 6 ∨ d = 7 ∨ d = 8 ∨ d = 9 := by omega
  rcases this with e|e|e|e|e|e|e|e|e|e <;> subst e <;> decide

theorem natDigitsF_digits : ∀ f n, ∀ c ∈ natDigitsF f n, isDigitC c = true
  | 0, _, c, h => by simp [natDigitsF] at h
  | f + 1, n, c, h => by
    simp only [natDigitsF] at h
    split at h
    · simp at h; subst h; exact digitChar_isDigit (by omega)
    · simp only [List.mem_append, List.mem_singleton] at h
      rcases h with h | h
      · exact natDigitsF_digits f _ c h
      · subst h; exact digitChar_isDigit (Nat.mod_lt _ (by decide))

theorem natDigitsF_length : ∀ f n, n < 10 ^ f → 0 < f → (natDigitsF f n).length = dlen n
  | 0, n, _, hf => by omega
  | f + 1, n, h, _ => by
    simp only [natDigitsF]
    by_cases h10 : n < 10
    · simp [h10, dlen_lt_ten h10]
    · simp only [h10, if_false, List.length_append, List.length_singleton]
      have e : 10 ^ (f + 1) = 10 * 10 ^ f := by rw [Nat.pow_succ, Nat.mul_comm]
      have hf : 0 < f := by
        cases f with
        | zero => simp at e; omega
        | succ f => omega
      rw [natDigitsF_length f (n / 10) (by omega) hf]
      have hs := dlen_spec (n / 10) (by omega)
      have hp := dlen_pos (n / 10)
      have e1 := ten_pow_succ_pred hp
      have e2 : 10 ^ (dlen (n / 10) + 1) = 10 * 10 ^ dlen (n / 10) := by rw [Nat.pow_succ, Nat.mul_comm]
      symm
      apply dlen_unique (by omega)
      · simp only [Nat.add_sub_cancel]; omega
      · omega

theorem natDigits_length {n : Nat} (h : n < 10 ^ 20) : (natDigits n).length = dlen n :=
  natDigitsF_length 20 n h (by decide)

end GeosModel.Num
