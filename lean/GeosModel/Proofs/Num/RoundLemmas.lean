import GeosModel.Proofs.Num.Pick
import GeosModel.Model.Num.Parse
/-! `roundPos` (round to nearest, ties to even, by bisection over the ordered bit patterns) returns `u`
for every rational in the rounding interval of `u`. -/
namespace GeosModel.Num

theorem bsearch_spec (p : Nat → Bool) (hmono : ∀ a b, a ≤ b → p b = true → p a = true) :
    ∀ k acc, p acc = true → p (acc + 2 ^ k) = false →
      p (bsearch p k acc) = true ∧ p (bsearch p k acc + 1) = false
  | 0, acc, h1, h2 => by simpa [bsearch] using ⟨h1, h2⟩
  | k + 1, acc, h1, h2 => by
    simp only [bsearch]
    by_cases hp : p (acc + 2 ^ k) = true
    · rw [if_pos hp]
      apply bsearch_spec p hmono k _ hp
      rw [Nat.add_assoc, ← Nat.two_mul, ← Nat.pow_succ']; exact h2
    · rw [if_neg hp]
      exact bsearch_spec p hmono k acc h1 (by simpa using hp)

/-- a downward-closed predicate has one boundary -/
theorem boundary_unique (p : Nat → Bool) (hmono : ∀ a b, a ≤ b → p b = true → p a = true)
    (w u : Nat) (hw1 : p w = true) (hw2 : p (w + 1) = false) (hu1 : p u = true) (hu2 : p (u + 1) = false) :
    w = u := by
  by_cases h1 : w < u
  · have := hmono (w + 1) u (by omega) hu1
    rw [this] at hw2; cases hw2
  · by_cases h2 : u < w
    · have := hmono (u + 1) w (by omega) hw1
      rw [this] at hu2; cases hu2
    · omega

theorem INF_lt : INF < 0 + 2 ^ 63 := by decide

/-- **round-to-nearest-even returns `u` on the whole rounding interval of `u`** -/
theorem roundPos_of_interval (u N D : Nat) (h1 : 1 ≤ u) (h2 : u < INF) (hD : 0 < D)
    (hin : if (ivl u).incl then (ivl u).lo2 * D ≤ 2 * N * 2 ^ 1075 ∧ 2 * N * 2 ^ 1075 ≤ (ivl u).hi2 * D
           else (ivl u).lo2 * D < 2 * N * 2 ^ 1075 ∧ 2 * N * 2 ^ 1075 < (ivl u).hi2 * D) :
    roundPos N D = u := by
  -- the bisection predicate
  let le : Nat → Bool := fun w => decide (w ≤ INF) && decide (ival w * D ≤ N * 2 ^ 1075)
  have hle : ∀ w, le w = true ↔ (w ≤ INF ∧ ival w * D ≤ N * 2 ^ 1075) := by
    intro w; simp [le]
  have hmono : ∀ a b, a ≤ b → le b = true → le a = true := by
    intro a b hab hb
    rw [hle] at hb ⊢
    have := Nat.mul_le_mul_right D (ival_mono hab)
    omega
  have h0 : le 0 = true := by rw [hle]; simp [ival_zero]
  have hbig : le (0 + 2 ^ 63) = false := by
    cases h : le (0 + 2 ^ 63)
    · rfl
    · rw [hle] at h; have := INF_lt; omega
  obtain ⟨b1, b2⟩ := bsearch_spec le hmono 63 0 h0 hbig
  have hw : roundPos N D =
      (if bsearch le 63 0 ≥ INF then INF
       else if 2 * N * 2 ^ 1075 < (ival (bsearch le 63 0) + ival (bsearch le 63 0 + 1)) * D then bsearch le 63 0
       else if (ival (bsearch le 63 0) + ival (bsearch le 63 0 + 1)) * D < 2 * N * 2 ^ 1075 then bsearch le 63 0 + 1
       else if bsearch le 63 0 % 2 = 0 then bsearch le 63 0 else bsearch le 63 0 + 1) := rfl
  rw [hw]
  -- interval facts
  have hI : (ivl u).lo2 = ival (u - 1) + ival u ∧ (ivl u).hi2 = ival u + ival (u + 1) ∧
      ((ivl u).incl = true ↔ u % 2 = 0) := by simp [ivl]
  obtain ⟨el, eh, ei⟩ := hI
  rw [el, eh] at hin
  have s1 : ival (u - 1) < ival u := ival_strict (by omega)
  have s2 : ival u < ival (u + 1) := ival_lt_succ u
  have m1 := (Nat.mul_lt_mul_right hD).mpr s1
  have m2 := (Nat.mul_lt_mul_right hD).mpr s2
  have hweak : (ival (u - 1) + ival u) * D ≤ 2 * N * 2 ^ 1075 ∧ 2 * N * 2 ^ 1075 ≤ (ival u + ival (u + 1)) * D := by
    split at hin <;> omega
  rw [Nat.add_mul, Nat.add_mul] at hweak
  have x2 : 2 * N * 2 ^ 1075 = 2 * (N * 2 ^ 1075) := Nat.mul_assoc _ _ _
  rw [x2] at hin hweak ⊢
  clear hw x2 h0 hbig
  generalize N * 2 ^ 1075 = X at *
  by_cases hge : ival u * D ≤ X
  · -- the value is at or above `u`: the bisection finds `u`
    have pu : le u = true := by rw [hle]; exact ⟨by omega, hge⟩
    have pu1 : le (u + 1) = false := by
      cases h : le (u + 1)
      · rfl
      · rw [hle] at h; omega
    have hwu := boundary_unique le hmono _ u b1 b2 pu pu1
    rw [hwu, if_neg (by omega)]
    simp only [Nat.add_mul] at hin ⊢
    by_cases hlt : 2 * X < ival u * D + ival (u + 1) * D
    · rw [if_pos hlt]
    · rw [if_neg hlt, if_neg (by omega)]
      -- exact tie: allowed only when `u` is even
      have : (ivl u).incl = true := by
        cases hi : (ivl u).incl
        · rw [hi] at hin; simp only [Bool.false_eq_true, if_false] at hin; omega
        · rfl
      rw [if_pos (ei.mp this)]
  · -- the value is below `u`: the bisection finds `u - 1`, and the value is above the midpoint
    have pu : le (u - 1) = true := by rw [hle]; exact ⟨by omega, by omega⟩
    have pu1 : le (u - 1 + 1) = false := by
      have e : u - 1 + 1 = u := by omega
      rw [e]
      cases h : le u
      · rfl
      · rw [hle] at h; omega
    have hwu := boundary_unique le hmono _ (u - 1) b1 b2 pu pu1
    have e : u - 1 + 1 = u := by omega
    rw [hwu, e, if_neg (by omega)]
    simp only [Nat.add_mul] at hin ⊢
    by_cases hgt : ival (u - 1) * D + ival u * D < 2 * X
    · rw [if_neg (by omega), if_pos hgt]
    · rw [if_neg (by omega), if_neg hgt]
      have hincl : (ivl u).incl = true := by
        cases hi : (ivl u).incl
        · rw [hi] at hin; simp only [Bool.false_eq_true, if_false] at hin; omega
        · rfl
      have := ei.mp hincl
      rw [if_neg (by omega)]

end GeosModel.Num
