import GeosModel.Proofs.Num.RoundLemmas
import GeosModel.Proofs.Num.ValueLemmas
import GeosModel.Proofs.Num.ShortestLemmas
/-! From "the decimal lies in the rounding interval" to "`strtod` returns the same double". -/
namespace GeosModel.Num

/-- padding a decimal with zeros does not change interval membership -/
theorem inIvl_pad (I : Ivl) (q : Int) (k : Nat) : ∀ j : Nat, inIvl I (q - j) (k * 10 ^ j) = inIvl I q k
  | 0 => by simp
  | j + 1 => by
    have e : q - ((j + 1 : Nat) : Int) + 1 = q - (j : Int) := by omega
    have := inIvl_step I (q - ((j + 1 : Nat) : Int)) (k * 10 ^ j)
    rw [e] at this
    rw [Nat.pow_succ, ← Nat.mul_assoc, Nat.mul_comm (k * 10 ^ j) 10, ← this]
    exact inIvl_pad I q k j

theorem inIvl_sameDec (I : Ivl) (n k : Nat) (e q : Int) (h : SameDec (n, e) (k, q)) :
    inIvl I e n = inIvl I q k := by
  unfold SameDec at h
  simp only at h
  by_cases hc : e ≤ q
  · -- n = k * 10^(q-e)
    have e1 : (e - q).toNat = 0 := by omega
    rw [e1, Nat.pow_zero, Nat.mul_one] at h
    have := inIvl_pad I q k (q - e).toNat
    have e2 : q - ((q - e).toNat : Int) = e := by omega
    rw [e2, ← h] at this
    exact this
  · have e1 : (q - e).toNat = 0 := by omega
    rw [e1, Nat.pow_zero, Nat.mul_one] at h
    have := inIvl_pad I e n (e - q).toNat
    have e2 : e - ((e - q).toNat : Int) = q := by omega
    rw [e2, h] at this
    exact this.symm

theorem two1076 : (2 : Nat) ^ 1076 = 2 * 2 ^ 1075 := by
  rw [show (1076 : Nat) = 1075 + 1 from rfl, Nat.pow_succ, Nat.mul_comm]

/-- interval membership of the decimal `n·10^e`, in the form `roundPos` needs -/
theorem interval_frac (I : Ivl) (n : Nat) (e : Int) (h : inIvl I e n = true) :
    let N := if e ≥ 0 then n * 10 ^ e.toNat else n
    let D := if e ≥ 0 then 1 else 10 ^ (-e).toNat
    (if I.incl then I.lo2 * D ≤ 2 * N * 2 ^ 1075 ∧ 2 * N * 2 ^ 1075 ≤ I.hi2 * D
     else I.lo2 * D < 2 * N * 2 ^ 1075 ∧ 2 * N * 2 ^ 1075 < I.hi2 * D) := by
  rw [inIvl_iff] at h
  dsimp only
  by_cases he : e ≥ 0
  · have e1 : sN e = 1 := by unfold sN; rw [if_neg (by omega)]
    have e2 : sD e = 10 ^ e.toNat * 2 ^ 1076 := by unfold sD; rw [if_neg (by omega)]
    rw [e1, e2, two1076] at h
    rw [if_pos he, if_pos he]
    have x : 2 * (n * 10 ^ e.toNat) * 2 ^ 1075 = n * (10 ^ e.toNat * (2 * 2 ^ 1075)) := by
      generalize (2:Nat) ^ 1075 = E
      generalize 10 ^ e.toNat = T
      rw [Nat.mul_comm 2 (n * T), Nat.mul_assoc, Nat.mul_assoc]
    rw [x]; exact h
  · have e1 : sN e = 10 ^ (-e).toNat := by unfold sN; rw [if_pos (by omega)]
    have e2 : sD e = 2 ^ 1076 := by unfold sD; rw [if_pos (by omega)]
    rw [e1, e2, two1076] at h
    rw [if_neg he, if_neg he]
    have x : 2 * n * 2 ^ 1075 = n * (2 * 2 ^ 1075) := by
      rw [Nat.mul_comm 2 n, Nat.mul_assoc]
    rw [x]; exact h

/-! ### the clamps of `roundNE` are never reached for a decimal inside a rounding interval -/

theorem hi2_lt (u : Nat) (h : u < INF) : (ivl u).hi2 < 2 ^ 2101 := by
  simp only [ivl]
  have a1 : ival u < ival (u + 1) := ival_lt_succ u
  have a2 : ival (u + 1) ≤ ival INF := ival_mono (by omega)
  have e : ival INF = 2 ^ 2099 := by decide +kernel
  have e2 : (2:Nat) ^ 2101 = 4 * 2 ^ 2099 := by
    rw [show (2101:Nat) = 2099 + 2 from rfl, Nat.pow_add]; omega
  omega

theorem no_clamp (u n : Nat) (e : Int) (h1 : 1 ≤ u) (h2 : u < INF) (hn : n ≠ 0)
    (hin : inIvl (ivl u) e n = true) : ¬ (e + (dlen n : Int) > 400) ∧ ¬ (e + (dlen n : Int) < -400) := by
  obtain ⟨w1, w2⟩ := inIvl_weak _ _ _ hin
  obtain ⟨s1, s2⟩ := dlen_spec n (by omega)
  have hp := dlen_pos n
  have hhi := hi2_lt u h2
  have hlo : 2 ≤ (ivl u).lo2 := by
    simp only [ivl]; have := ival_pos h1; omega
  constructor
  · intro hc
    by_cases he : e ≥ 0
    · have e1 : sN e = 1 := by unfold sN; rw [if_neg (by omega)]
      have e2 : sD e = 10 ^ e.toNat * 2 ^ 1076 := by unfold sD; rw [if_neg (by omega)]
      rw [e1, e2, Nat.mul_one] at w2
      -- 10^400 * 2^1076 ≤ n * 10^e * 2^1076
      have c1 : 10 ^ 400 ≤ 10 ^ (dlen n - 1 + e.toNat) := Nat.pow_le_pow_right (by decide) (by omega)
      have c2 : 10 ^ (dlen n - 1 + e.toNat) ≤ n * 10 ^ e.toNat := by
        rw [Nat.pow_add]; exact Nat.mul_le_mul_right _ s1
      have c3 : 10 ^ 400 * 2 ^ 1076 ≤ n * 10 ^ e.toNat * 2 ^ 1076 :=
        Nat.mul_le_mul_right _ (Nat.le_trans c1 c2)
      have c4 : (2:Nat) ^ 2101 ≤ 10 ^ 400 * 2 ^ 1076 := by decide +kernel
      rw [Nat.mul_assoc] at c3
      omega
    · have e1 : sN e = 10 ^ (-e).toNat := by unfold sN; rw [if_pos (by omega)]
      have e2 : sD e = 2 ^ 1076 := by unfold sD; rw [if_pos (by omega)]
      rw [e1, e2] at w2
      -- 10^(dlen n - 1) = 10^(-e) * 10^(dlen n - 1 + e)  with dlen n - 1 + e ≥ 400
      have c0 : dlen n - 1 = (-e).toNat + (dlen n - 1 - (-e).toNat) := by omega
      have c1 : 10 ^ 400 ≤ 10 ^ (dlen n - 1 - (-e).toNat) := Nat.pow_le_pow_right (by decide) (by omega)
      have c2 : 10 ^ (-e).toNat * 10 ^ 400 ≤ n := by
        rw [c0, Nat.pow_add] at s1
        exact Nat.le_trans (Nat.mul_le_mul_left _ c1) s1
      have c3 : 10 ^ (-e).toNat * 10 ^ 400 * 2 ^ 1076 ≤ n * 2 ^ 1076 := Nat.mul_le_mul_right _ c2
      have c4 : (2:Nat) ^ 2101 ≤ 10 ^ 400 * 2 ^ 1076 := by decide +kernel
      have c5 : (ivl u).hi2 * 10 ^ (-e).toNat < 2 ^ 2101 * 10 ^ (-e).toNat :=
        (Nat.mul_lt_mul_right (pow10_pos _)).mpr hhi
      have c6 : 2 ^ 2101 * 10 ^ (-e).toNat ≤ 10 ^ (-e).toNat * 10 ^ 400 * 2 ^ 1076 := by
        rw [Nat.mul_assoc, Nat.mul_comm (2 ^ 2101)]
        exact Nat.mul_le_mul_left _ c4
      omega
  · intro hc
    have he : e < 0 := by omega
    have e1 : sN e = 10 ^ (-e).toNat := by unfold sN; rw [if_pos he]
    have e2 : sD e = 2 ^ 1076 := by unfold sD; rw [if_pos he]
    rw [e1, e2] at w1
    -- 2 * 10^(-e) ≤ n * 2^1076 < 10^(dlen n) * 2^1076, with -e ≥ 401 + dlen n
    have c0 : (-e).toNat = dlen n + ((-e).toNat - dlen n) := by omega
    have c1 : 10 ^ 401 ≤ 10 ^ ((-e).toNat - dlen n) := Nat.pow_le_pow_right (by decide) (by omega)
    have c2 : n * 2 ^ 1076 < 10 ^ dlen n * 2 ^ 1076 := (Nat.mul_lt_mul_right (Nat.pow_pos (by decide))).mpr s2
    have c3 : 2 * 10 ^ (-e).toNat ≤ (ivl u).lo2 * 10 ^ (-e).toNat := Nat.mul_le_mul_right _ hlo
    have c4 : 10 ^ dlen n * 10 ^ 401 ≤ 10 ^ (-e).toNat := by
      rw [c0, Nat.pow_add]; exact Nat.mul_le_mul_left _ c1
    have c5 : (2:Nat) ^ 1076 ≤ 2 * 10 ^ 401 := by decide +kernel
    have c6 : 10 ^ dlen n * 2 ^ 1076 ≤ 10 ^ dlen n * (2 * 10 ^ 401) := Nat.mul_le_mul_left _ c5
    have c7 : 10 ^ dlen n * (2 * 10 ^ 401) = 2 * (10 ^ dlen n * 10 ^ 401) := by
      rw [← Nat.mul_assoc, Nat.mul_comm (10 ^ dlen n) 2, Nat.mul_assoc]
    omega

/-- **`strtod` of a decimal in the rounding interval of `u` is `u`** (with the sign carried over) -/
theorem roundNE_of_interval (u n : Nat) (e : Int) (neg : Bool) (h1 : 1 ≤ u) (h2 : u < INF) (hn : n ≠ 0)
    (hin : inIvl (ivl u) e n = true) : roundNE (.dec neg n e) = u + (if neg then 2 ^ 63 else 0) := by
  obtain ⟨k1, k2⟩ := no_clamp u n e h1 h2 hn hin
  have hf := interval_frac (ivl u) n e hin
  dsimp only at hf
  unfold roundNE
  simp only [hn, if_false]
  rw [if_neg k1, if_neg k2]
  by_cases he : e ≥ 0
  · rw [if_pos he] at hf ⊢
    rw [if_pos he] at hf
    rw [roundPos_of_interval u _ 1 h1 h2 (by decide) hf]
  · rw [if_neg he] at hf ⊢
    rw [if_neg he] at hf
    rw [roundPos_of_interval u _ _ h1 h2 (pow10_pos _) hf]

end GeosModel.Num

namespace GeosModel.Num

/-! ### reading the exponent suffix -/

theorem expSuffix_parse (s : Int) (h : s.natAbs < 1000) :
    parseExp (expSuffix s) = some s ∧ (∀ c r, expSuffix s = c :: r → isDigit c = false ∧ c ≠ '.') := by
  refine ⟨?_, by intro c r hc; unfold expSuffix at hc; injection hc with h1 _; subst h1; decide⟩
  -- the digits after the sign
  have key : ∀ ds : List Char, (∀ c ∈ ds, isDigit c = true) → ds.foldl digStep 0 = s.natAbs → 1 ≤ ds.length →
      parseExp ('e' :: (if s < 0 then '-' else '+') :: ds) = some s := by
    intro ds hd hv hl
    unfold parseExp
    simp only [true_or, if_true]
    have hsp : splitSign ((if s < 0 then '-' else '+') :: ds) = (decide (s < 0), ds) := by
      by_cases hs : s < 0 <;> simp [splitSign, hs]
    rw [hsp]
    simp only
    have := takeDigits_spec ds [] 0 0 hd (by intro c r h; cases h)
    rw [List.append_nil] at this
    rw [this]
    simp only [hv, Nat.zero_add]
    rw [if_neg (by intro hc; rcases hc with hc | hc <;> first | omega | exact hc rfl)]
    by_cases hs : s < 0
    · simp [hs]; omega
    · simp [hs]; omega
  unfold expSuffix
  dsimp only
  have dc : ∀ d, d < 10 → isDigit (digitChar d) = true := fun d hd => digitChar_isDigit hd
  by_cases h100 : s.natAbs ≥ 100
  · rw [if_pos h100]
    unfold twoDigits
    rw [if_pos (show s.natAbs / 10 < 100 by omega)]
    apply key
    · intro c hc
      simp only [List.cons_append, List.nil_append, List.mem_cons, List.mem_nil_iff, or_false] at hc
      rcases hc with hc | hc | hc <;> subst hc <;> apply dc <;> omega
    · simp only [List.cons_append, List.nil_append, List.foldl_cons, List.foldl_nil, digStep]
      rw [digitVal_digitChar (by omega), digitVal_digitChar (by omega), digitVal_digitChar (by omega)]
      omega
    · simp
  · rw [if_neg h100]
    by_cases h10 : s.natAbs ≥ 10
    · rw [if_pos h10]
      unfold twoDigits
      rw [if_pos (show s.natAbs < 100 by omega)]
      apply key
      · intro c hc
        simp only [List.mem_cons, List.mem_nil_iff, or_false] at hc
        rcases hc with hc | hc <;> subst hc <;> apply dc <;> omega
      · simp only [List.foldl_cons, List.foldl_nil, digStep]
        rw [digitVal_digitChar (by omega), digitVal_digitChar (by omega)]
        omega
      · simp
    · rw [if_neg h10]
      apply key
      · intro c hc
        simp only [List.mem_cons, List.mem_nil_iff, or_false] at hc
        subst hc; apply dc; omega
      · simp only [List.foldl_cons, List.foldl_nil, digStep]
        rw [digitVal_digitChar (by omega)]
        omega
      · simp

/-! ### what `parseNum` returns for `to_chars_fixed` (plus an exponent suffix) -/

theorem partsNum_nz (p : Parts) : (partsNum p).1 ≠ 0 ↔ (p.ip ≠ 0 ∨ p.dp ≠ 0) := by
  unfold partsNum
  by_cases hd : p.dp ≠ 0
  · simp only [hd, if_true, ne_eq, not_false_eq_true, or_true, iff_true]; omega
  · simp only [hd, if_false, or_false]
    have : 0 < 10 ^ p.tiz := pow10_pos _
    constructor
    · intro h h0; rw [h0] at h; simp at h
    · intro h h0
      rcases Nat.mul_eq_zero.mp h0 with h1 | h1 <;> omega

theorem toCharsFixed_parse (k : Nat) (q : Int) (sign : Bool) (p : Nat) (hk : 1 ≤ k) (hk17 : k < 10 ^ 17)
    (suf : List Char) (hs : ∀ c r, suf = c :: r → isDigit c = false ∧ c ≠ '.') :
    ∃ n fc : Nat, SameDec (n, -(fc : Int)) (rheDec k q p) ∧
      parseNum (toCharsFixed k q sign p ++ suf) =
        (match parseExp suf with
         | some e => some (.dec (sign && decide (n ≠ 0)) n (e - (fc : Int)))
         | none => none) := by
  unfold toCharsFixed
  rw [decimalLength17_eq hk17]
  have tf := trimStage_facts k q p hk hk17
  obtain ⟨pk, _⟩ := layout_ok _ tf.ok
  refine ⟨(partsNum (layoutStage (trimStage k (dlen k) q p))).1,
    (partsNum (layoutStage (trimStage k (dlen k) q p))).2, ?_, ?_⟩
  · exact sameDec_trans (layout_value _ tf.ok) (trimStage_value k q p hk)
  · rw [parseNum_render sign _ pk suf hs]
    have : decide ((layoutStage (trimStage k (dlen k) q p)).ip ≠ 0 ∨ (layoutStage (trimStage k (dlen k) q p)).dp ≠ 0) =
        decide ((partsNum (layoutStage (trimStage k (dlen k) q p))).1 ≠ 0) := by
      rw [decide_eq_decide]; exact (partsNum_nz _).symm
    simp only [this]
    cases parseExp suf <;> rfl

theorem rheDec_sci_keeps (k : Nat) (q : Int) (precision : Nat) (hk : dlen k ≤ precision + 1) :
    ((rheDec k (1 - (dlen k : Int)) precision).1,
      (rheDec k (1 - (dlen k : Int)) precision).2 + (q + (dlen k : Int) - 1)) = (k, q) := by
  unfold rheDec
  rw [if_neg (by omega)]
  simp only
  congr 1; omega

theorem rheDec_keeps (k : Nat) (q : Int) (p : Nat) (hk : -q ≤ (p : Int)) : rheDec k q p = (k, q) := by
  unfold rheDec; rw [if_neg (by omega)]

theorem sameDec_ne_zero {n k : Nat} {e q : Int} (h : SameDec (n, e) (k, q)) (hk : 1 ≤ k) : n ≠ 0 := by
  intro h0
  unfold SameDec at h
  simp only [h0, Nat.zero_mul] at h
  have hpos := pow10_pos (q - e).toNat
  rcases Nat.mul_eq_zero.mp h.symm with h | h <;> omega

end GeosModel.Num
