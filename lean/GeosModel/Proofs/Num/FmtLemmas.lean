import GeosModel.Proofs.Num.ShortestLemmas
import GeosModel.Proofs.Num.FixedLemmas
/-! Assembly: length and alphabet of `writeTrimmedNumber` for every bit pattern and precision. -/
namespace GeosModel.Num

/-! ### decoding -/

theorem special_iff (bits : Nat) : isSpecial bits = true ↔ (absBits bits ≥ INF ∨ absBits bits = 0) := by
  unfold isSpecial ieeeExponent ieeeMantissa absBits INF
  simp only [Bool.decide_or, Bool.decide_and, Bool.or_eq_true, Bool.and_eq_true, decide_eq_true_eq]
  omega

theorem notation_special (bits : Nat) (h : notationOf bits = .special) : isSpecial bits = true := by
  rw [special_iff]
  unfold notationOf at h
  simp only at h
  split at h
  · assumption
  · split at h <;> cases h

theorem notation_sci (bits : Nat) (h : notationOf bits = .sci) :
    isSpecial bits = false ∧ 1 ≤ absBits bits ∧ absBits bits < INF := by
  unfold notationOf at h
  simp only at h
  split at h
  · cases h
  · rename_i hn
    refine ⟨?_, by omega, by omega⟩
    cases hs : isSpecial bits
    · rfl
    · rw [special_iff] at hs; omega

theorem notation_fixed (bits : Nat) (h : notationOf bits = .fixed) :
    isSpecial bits = false ∧ bits1em4 ≤ absBits bits ∧ absBits bits < bits1e17 := by
  unfold notationOf at h
  simp only at h
  split at h
  · cases h
  · rename_i hn
    split at h
    · cases h
    · rename_i hm
      refine ⟨?_, by omega, by omega⟩
      cases hs : isSpecial bits
      · rfl
      · rw [special_iff] at hs; omega

/-! ### the exponent suffix -/

def isSciChar (c : Char) : Bool := isDigitC c || c == '-' || c == '.' || c == 'e' || c == '+'

theorem isSciChar_of_fixed {c : Char} (h : isFixedChar c = true) : isSciChar c = true := by
  unfold isFixedChar at h; unfold isSciChar
  simp only [Bool.or_eq_true] at h ⊢
  rcases h with (h | h) | h <;> simp [h]

theorem twoDigits_facts (n : Nat) (h : n < 100) :
    (twoDigits n).length = 2 ∧ ∀ c ∈ twoDigits n, isDigitC c = true := by
  unfold twoDigits
  rw [if_pos h]
  refine ⟨rfl, ?_⟩
  intro c hc
  simp only [List.mem_cons, List.mem_nil_iff, or_false] at hc
  rcases hc with hc | hc <;> subst hc
  · exact digitChar_isDigit (by omega)
  · exact digitChar_isDigit (Nat.mod_lt _ (by decide))

theorem expSuffix_facts (e : Int) (h : e.natAbs < 1000) :
    (expSuffix e).length ≤ 5 ∧ ∀ c ∈ expSuffix e, isSciChar c = true := by
  unfold expSuffix
  dsimp only
  have hd : ∀ c, isDigitC c = true → isSciChar c = true := by
    intro c hc; simp [isSciChar, hc]
  have hsgn : isSciChar (if e < 0 then '-' else '+') = true := by split <;> decide
  by_cases h100 : e.natAbs ≥ 100
  · rw [if_pos h100]
    obtain ⟨l, d⟩ := twoDigits_facts (e.natAbs / 10) (by omega)
    constructor
    · simp [l]
    · intro c hc
      simp only [List.mem_cons, List.mem_append, List.mem_nil_iff, or_false] at hc
      rcases hc with hc | hc | hc | hc
      · subst hc; decide
      · subst hc; exact hsgn
      · exact hd c (d c hc)
      · subst hc; exact hd _ (digitChar_isDigit (Nat.mod_lt _ (by decide)))
  · rw [if_neg h100]
    by_cases h10 : e.natAbs ≥ 10
    · rw [if_pos h10]
      obtain ⟨l, d⟩ := twoDigits_facts e.natAbs (by omega)
      constructor
      · simp [l]
      · intro c hc
        simp only [List.mem_cons] at hc
        rcases hc with hc | hc | hc
        · subst hc; decide
        · subst hc; exact hsgn
        · exact hd c (d c hc)
    · rw [if_neg h10]
      constructor
      · simp
      · intro c hc
        simp only [List.mem_cons, List.mem_nil_iff, or_false] at hc
        rcases hc with hc | hc | hc
        · subst hc; decide
        · subst hc; exact hsgn
        · subst hc; exact hd _ (digitChar_isDigit (by omega))

/-! ### range of the decimal exponent -/

theorem q17_range (u : Nat) (h1 : 1 ≤ u) (h2 : u ≤ INF) : -376 ≤ q17 (ivl u) ∧ q17 (ivl u) ≤ 323 := by
  have hW := W_big u h1
  have hWp : 0 < (ivl u).v2 * 10 ^ 360 / 2 ^ 1076 := Nat.lt_of_lt_of_le (by decide) hW
  unfold q17
  rw [dlenFast_eq _ hWp]
  have hp := dlen_pos ((ivl u).v2 * 10 ^ 360 / 2 ^ 1076)
  have hle : dlen ((ivl u).v2 * 10 ^ 360 / 2 ^ 1076) ≤ 700 := by
    apply dlen_le_of_lt _ (by decide)
    rw [Nat.div_lt_iff_lt_mul (Nat.pow_pos (by decide))]
    have hm : ival u ≤ ival INF := ival_mono h2
    have e : ival INF = 2 ^ 2099 := by decide +kernel
    have e2 : 2 * 2 ^ 2099 * 10 ^ 360 < 10 ^ 700 * 2 ^ 1076 := by decide +kernel
    have : (ivl u).v2 * 10 ^ 360 ≤ 2 * 2 ^ 2099 * 10 ^ 360 := by
      apply Nat.mul_le_mul_right
      simp only [ivl]; omega
    omega
  omega

theorem sciExp_range (u : Nat) (h1 : 1 ≤ u) (h2 : u < INF) :
    ((shortest u).2 + (dlen (shortest u).1 : Int) - 1).natAbs < 1000 := by
  obtain ⟨_, k1, k17, q1, q2⟩ := shortest_spec u h1
  obtain ⟨r1, r2⟩ := q17_range u h1 (by omega)
  have hp := dlen_pos (shortest u).1
  have hl : dlen (shortest u).1 ≤ 17 := dlen_le_of_lt k17 (by decide)
  omega

/-! ### positional notation: the guards `1e-4 ≤ |d| < 1e17` bound the layout -/

theorem ival_1e17 : ival bits1e17 = 10 ^ 17 * 2 ^ 1075 := by decide +kernel

theorem lo2_1em4 : 2 ^ 1076 ≤ (ival (bits1em4 - 1) + ival bits1em4) * 10 ^ 5 := by decide +kernel

/-- below `1e17` the shortest decimal, when it is an integer, has at most 17 digits including its zeros -/
theorem fixed_int_digits (u : Nat) (h1 : 1 ≤ u) (h2 : u < bits1e17) (hq : 0 ≤ (shortest u).2) :
    dlen (shortest u).1 + (shortest u).2.toNat ≤ 17 := by
  obtain ⟨hin, k1, k17, _, _⟩ := shortest_spec u h1
  obtain ⟨_, w2⟩ := inIvl_weak _ _ _ hin
  generalize (shortest u).1 = k at *
  generalize (shortest u).2 = q at *
  have e1 : sN q = 1 := by unfold sN; rw [if_neg (by omega)]
  have e2 : sD q = 10 ^ q.toNat * (2 ^ 1075 * 2) := by
    unfold sD; rw [if_neg (by omega), show (1076:Nat) = 1075 + 1 from rfl, Nat.pow_succ]
  rw [e1, e2, Nat.mul_one] at w2
  have a1 : ival u < ival (u + 1) := ival_lt_succ u
  have a2 : ival (u + 1) ≤ ival bits1e17 := ival_mono (by omega)
  rw [ival_1e17] at a2
  have hD : 0 < (2:Nat) ^ 1075 * 2 := Nat.mul_pos (Nat.pow_pos (by decide)) (by decide)
  generalize (2:Nat) ^ 1075 = D at *
  have hhi : (ivl u).hi2 < 10 ^ 17 * (D * 2) := by
    simp only [ivl]
    omega
  have hlt : k * 10 ^ q.toNat < 10 ^ 17 := by
    apply Nat.lt_of_mul_lt_mul_right (a := D * 2)
    rw [Nat.mul_assoc]
    omega
  obtain ⟨s1, _⟩ := dlen_spec k (by omega)
  have : 10 ^ (dlen k - 1) * 10 ^ q.toNat ≤ k * 10 ^ q.toNat := Nat.mul_le_mul_right _ s1
  rw [← Nat.pow_add] at this
  have hpow : 10 ^ (dlen k - 1 + q.toNat) < 10 ^ 17 := Nat.lt_of_le_of_lt this hlt
  have := (Nat.pow_lt_pow_iff_right (by decide : 1 < 10)).mp hpow
  have := dlen_pos k
  omega

/-- from `1e-4` up the shortest decimal has at most 21 places after the point -/
theorem fixed_frac_places (u : Nat) (h1 : bits1em4 ≤ u) (hq : (shortest u).2 < 0) :
    (-(shortest u).2).toNat ≤ 21 := by
  have hu : 1 ≤ u := by unfold bits1em4 at h1; omega
  obtain ⟨hin, k1, k17, _, _⟩ := shortest_spec u hu
  obtain ⟨w1, _⟩ := inIvl_weak _ _ _ hin
  generalize (shortest u).1 = k at *
  generalize (shortest u).2 = q at *
  have e1 : sN q = 10 ^ (-q).toNat := by unfold sN; rw [if_pos hq]
  have e2 : sD q = 2 ^ 1076 := by unfold sD; rw [if_pos hq]
  rw [e1, e2] at w1
  generalize (-q).toNat = n at *
  have hlo : ival (bits1em4 - 1) + ival bits1em4 ≤ (ivl u).lo2 := by
    simp only [ivl]
    have a1 : ival (bits1em4 - 1) ≤ ival (u - 1) := ival_mono (by omega)
    have a2 : ival bits1em4 ≤ ival u := ival_mono h1
    omega
  have b := lo2_1em4
  generalize ival (bits1em4 - 1) + ival bits1em4 = L at *
  have hLp : 0 < L := by
    by_cases hc : L = 0
    · subst hc
      have : 0 < (2:Nat) ^ 1076 := Nat.pow_pos (by decide)
      omega
    · omega
  -- L * 10^n ≤ lo2 * 10^n ≤ k * D < 10^17 * D ≤ 10^17 * (L * 10^5)
  have c1 : L * 10 ^ n ≤ (ivl u).lo2 * 10 ^ n := Nat.mul_le_mul_right _ hlo
  have c2 : k * 2 ^ 1076 < 10 ^ 17 * 2 ^ 1076 := (Nat.mul_lt_mul_right (Nat.pow_pos (by decide))).mpr k17
  have c3 : 10 ^ 17 * 2 ^ 1076 ≤ 10 ^ 17 * (L * 10 ^ 5) := Nat.mul_le_mul_left _ b
  have c4 : 10 ^ 17 * (L * 10 ^ 5) = L * 10 ^ 22 := by
    rw [Nat.mul_comm L, ← Nat.mul_assoc, ← Nat.pow_add, Nat.mul_comm]
  have c5 : L * 10 ^ n < L * 10 ^ 22 := by omega
  have c6 : 10 ^ n < 10 ^ 22 := Nat.lt_of_mul_lt_mul_left c5
  have := (Nat.pow_lt_pow_iff_right (by decide : 1 < 10)).mp c6
  omega

end GeosModel.Num
