import GeosModel.Proofs.Num.Basic
/-! Order and spacing of doubles as integers (`ival`), and the width of the rounding interval. -/
namespace GeosModel.Num

theorem two52 : (2 : Nat) ^ 52 = 4503599627370496 := by decide

theorem ival_eq (u : Nat) : ival u =
    if u / 4503599627370496 = 0 then (u % 4503599627370496) * 2
    else (4503599627370496 + u % 4503599627370496) * 2 ^ (u / 4503599627370496) := by
  unfold ival; rw [two52]

/-- consecutive bit patterns are consecutive doubles: strictly increasing -/
theorem ival_lt_succ (u : Nat) : ival u < ival (u + 1) := by
  rw [ival_eq, ival_eq]
  by_cases hc : (u + 1) % 4503599627370496 = 0
  · have h1 : (u + 1) / 4503599627370496 = u / 4503599627370496 + 1 := by omega
    have h2 : u % 4503599627370496 = 4503599627370495 := by omega
    rw [h1, hc, h2]
    by_cases he : u / 4503599627370496 = 0
    · simp [he]
    · simp only [he, if_false, Nat.add_eq_zero_iff, Nat.succ_ne_zero, and_false]
      rw [Nat.pow_succ]
      have hp : 0 < 2 ^ (u / 4503599627370496) := Nat.pow_pos (by decide)
      generalize 2 ^ (u / 4503599627370496) = P at *
      omega
  · have h1 : (u + 1) / 4503599627370496 = u / 4503599627370496 := by omega
    have h2 : (u + 1) % 4503599627370496 = u % 4503599627370496 + 1 := by omega
    rw [h1, h2]
    by_cases he : u / 4503599627370496 = 0
    · simp only [he, if_true]; omega
    · simp only [he, if_false]
      have hp : 0 < 2 ^ (u / 4503599627370496) := Nat.pow_pos (by decide)
      exact (Nat.mul_lt_mul_right hp).mpr (by omega)

theorem ival_mono_add (u : Nat) : ∀ k, ival u ≤ ival (u + k)
  | 0 => Nat.le_refl _
  | k + 1 => Nat.le_trans (ival_mono_add u k) (Nat.le_of_lt (by rw [← Nat.add_assoc]; exact ival_lt_succ _))

theorem ival_mono {a b : Nat} (h : a ≤ b) : ival a ≤ ival b := by
  obtain ⟨k, rfl⟩ : ∃ k, b = a + k := ⟨b - a, by omega⟩
  exact ival_mono_add a k

theorem ival_strict {a b : Nat} (h : a < b) : ival a < ival b :=
  Nat.lt_of_lt_of_le (ival_lt_succ a) (ival_mono h)

theorem ival_pos {u : Nat} (h : 1 ≤ u) : 2 ≤ ival u := by
  have : ival 1 ≤ ival u := ival_mono h
  have e : ival 1 = 2 := by decide
  omega

theorem ival_zero : ival 0 = 0 := by decide

/-- the gap to the next double is at least `2^-53` of the value -/
theorem gap_above (u : Nat) (h : 1 ≤ u) : ival u ≤ 9007199254740992 * (ival (u + 1) - ival u) := by
  rw [ival_eq, ival_eq]
  by_cases hc : (u + 1) % 4503599627370496 = 0
  · have h1 : (u + 1) / 4503599627370496 = u / 4503599627370496 + 1 := by omega
    have h2 : u % 4503599627370496 = 4503599627370495 := by omega
    rw [h1, hc, h2]
    by_cases he : u / 4503599627370496 = 0
    · simp [he]
    · simp only [he, if_false, Nat.add_eq_zero_iff, Nat.succ_ne_zero, and_false]
      rw [Nat.pow_succ]
      generalize 2 ^ (u / 4503599627370496) = P at *
      omega
  · have h1 : (u + 1) / 4503599627370496 = u / 4503599627370496 := by omega
    have h2 : (u + 1) % 4503599627370496 = u % 4503599627370496 + 1 := by omega
    rw [h1, h2]
    by_cases he : u / 4503599627370496 = 0
    · simp only [he, if_true]; omega
    · simp only [he, if_false]
      have hf : u % 4503599627370496 < 4503599627370496 := Nat.mod_lt _ (by decide)
      have hm := Nat.mul_le_mul_right (2 ^ (u / 4503599627370496))
        (show 4503599627370496 + u % 4503599627370496 ≤ 9007199254740992 by omega)
      generalize 2 ^ (u / 4503599627370496) = P at *
      generalize u % 4503599627370496 = f at *
      simp only [Nat.add_mul, Nat.one_mul] at *
      omega

/-- the gap to the previous double is at least `2^-53` of the value (with equality exactly at a power of two, where the gap below is half the gap above) -/
theorem gap_below (u : Nat) (h : 1 ≤ u) : ival u ≤ 9007199254740992 * (ival u - ival (u - 1)) := by
  obtain ⟨w, rfl⟩ : ∃ w, u = w + 1 := ⟨u - 1, by omega⟩
  simp only [Nat.add_sub_cancel]
  rw [ival_eq (w + 1), ival_eq w]
  by_cases hc : (w + 1) % 4503599627370496 = 0
  · have h1 : (w + 1) / 4503599627370496 = w / 4503599627370496 + 1 := by omega
    have h2 : w % 4503599627370496 = 4503599627370495 := by omega
    rw [h1, hc, h2]
    by_cases he : w / 4503599627370496 = 0
    · simp [he]
    · simp only [he, if_false, Nat.add_eq_zero_iff, Nat.succ_ne_zero, and_false]
      rw [Nat.pow_succ]
      generalize 2 ^ (w / 4503599627370496) = P at *
      omega
  · have h1 : (w + 1) / 4503599627370496 = w / 4503599627370496 := by omega
    have h2 : (w + 1) % 4503599627370496 = w % 4503599627370496 + 1 := by omega
    rw [h1, h2]
    by_cases he : w / 4503599627370496 = 0
    · simp only [he, if_true]; omega
    · simp only [he, if_false]
      have hf : w % 4503599627370496 < 4503599627370496 := Nat.mod_lt _ (by decide)
      have hm := Nat.mul_le_mul_right (2 ^ (w / 4503599627370496))
        (show 4503599627370496 + (w % 4503599627370496 + 1) ≤ 9007199254740992 by omega)
      generalize 2 ^ (w / 4503599627370496) = P at *
      generalize w % 4503599627370496 = f at *
      simp only [Nat.add_mul, Nat.one_mul] at *
      omega

end GeosModel.Num
