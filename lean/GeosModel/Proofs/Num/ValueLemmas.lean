import GeosModel.Proofs.Num.ParseLemmas
/-! The decimal value carried through `to_chars_fixed`: trimming = round-half-even of the digits, layout keeps
the value. -/
namespace GeosModel.Num

/-! ### `SameDec` -/

theorem sameDec_scale (a b : Nat × Int) (m : Int) (h1 : m ≤ a.2) (h2 : m ≤ b.2) :
    SameDec a b ↔ a.1 * 10 ^ (a.2 - m).toNat = b.1 * 10 ^ (b.2 - m).toNat := by
  unfold SameDec
  by_cases hc : b.2 ≤ a.2
  · have e1 : (a.2 - m).toNat = (a.2 - b.2).toNat + (b.2 - m).toNat := by omega
    have e2 : (b.2 - a.2).toNat = 0 := by omega
    rw [e1, e2, Nat.pow_add, ← Nat.mul_assoc, Nat.pow_zero, Nat.mul_one]
    constructor
    · intro h; rw [h]
    · intro h; exact Nat.eq_of_mul_eq_mul_right (pow10_pos _) h
  · have e1 : (b.2 - m).toNat = (b.2 - a.2).toNat + (a.2 - m).toNat := by omega
    have e2 : (a.2 - b.2).toNat = 0 := by omega
    rw [e1, e2, Nat.pow_add, ← Nat.mul_assoc, Nat.pow_zero, Nat.mul_one]
    constructor
    · intro h; rw [h]
    · intro h; exact Nat.eq_of_mul_eq_mul_right (pow10_pos _) h

theorem sameDec_refl (a : Nat × Int) : SameDec a a := by simp [SameDec]

theorem sameDec_symm {a b : Nat × Int} (h : SameDec a b) : SameDec b a := by
  unfold SameDec at *; exact h.symm

theorem sameDec_trans {a b c : Nat × Int} (h1 : SameDec a b) (h2 : SameDec b c) : SameDec a c := by
  have hm1 : min a.2 (min b.2 c.2) ≤ a.2 := by omega
  have hm2 : min a.2 (min b.2 c.2) ≤ b.2 := by omega
  have hm3 : min a.2 (min b.2 c.2) ≤ c.2 := by omega
  rw [sameDec_scale a b _ hm1 hm2] at h1
  rw [sameDec_scale b c _ hm2 hm3] at h2
  rw [sameDec_scale a c _ hm1 hm3]
  exact h1.trans h2

theorem sameDec_shift {a b : Nat × Int} (s : Int) (h : SameDec a b) : SameDec (a.1, a.2 + s) (b.1, b.2 + s) := by
  unfold SameDec at *
  simp only
  have e1 : a.2 + s - (b.2 + s) = a.2 - b.2 := by omega
  have e2 : b.2 + s - (a.2 + s) = b.2 - a.2 := by omega
  rw [e1, e2]; exact h

theorem sameDec_zero (e1 e2 : Int) : SameDec (0, e1) (0, e2) := by simp [SameDec]

/-! ### layout keeps the value -/

theorem layout_value (t : Trimmed) (h : TOK t) :
    SameDec ((partsNum (layoutStage t)).1, -((partsNum (layoutStage t)).2 : Int)) (t.output, t.exp) := by
  unfold layoutStage
  by_cases he : t.exp ≥ 0
  · rw [if_pos he]
    unfold partsNum SameDec
    simp only [ne_eq, not_true_eq_false, if_false]
    have e1 : (-((0 : Nat) : Int) - t.exp).toNat = 0 := by omega
    have e2 : (t.exp - -((0 : Nat) : Int)).toNat = t.exp.toNat := by omega
    rw [e1, e2]; simp
  · rw [if_neg he]
    dsimp only
    by_cases hn : (-t.exp).toNat < t.olength
    · rw [if_pos hn]
      have hne : t.output ≠ 0 := by
        intro h0
        rcases h.zero h0 with h1 | h1 <;> omega
      have hol := h.len hne
      generalize hnx : (-t.exp).toNat = n at *
      have hn1 : 1 ≤ n := by omega
      have hdplt : t.output % 10 ^ n < 10 ^ n := Nat.mod_lt _ (pow10_pos n)
      have hdp17 : t.output % 10 ^ n < 10 ^ 17 := Nat.lt_of_le_of_lt (Nat.mod_le _ _) h.lt
      have e1 : t.olength - (t.olength - n) = n := by omega
      have hsplit := Nat.div_add_mod t.output (10 ^ n)
      have hexp : t.exp = -(n : Int) := by omega
      -- in both sub-branches the fraction occupies exactly `n` places
      have key : ∀ (dpl ldz : Nat), (t.output % 10 ^ n ≠ 0 → ldz + dlen (t.output % 10 ^ n) = n) →
          SameDec ((partsNum ⟨t.output / 10 ^ n, t.olength - n, 0, t.output % 10 ^ n, dpl, ldz⟩).1,
            -((partsNum ⟨t.output / 10 ^ n, t.olength - n, 0, t.output % 10 ^ n, dpl, ldz⟩).2 : Int))
            (t.output, t.exp) := by
        intro dpl ldz hfc
        unfold partsNum
        by_cases hd : t.output % 10 ^ n ≠ 0
        · simp only [hd, if_true, ne_eq, not_false_eq_true]
          rw [hfc hd, hexp]
          unfold SameDec
          simp only [Int.sub_self, Int.toNat_zero, Nat.pow_zero, Nat.mul_one]
          rw [Nat.mul_comm] at hsplit; omega
        · simp only [hd, if_false]
          rw [hexp]
          unfold SameDec
          simp only
          have e3 : (-((0 : Nat) : Int) - -(n : Int)).toNat = n := by omega
          have e4 : (-(n : Int) - -((0 : Nat) : Int)).toNat = 0 := by omega
          rw [e3, e4]
          have : t.output % 10 ^ n = 0 := by omega
          rw [this] at hsplit
          simp only [Nat.pow_zero, Nat.mul_one]
          rw [Nat.mul_comm] at hsplit; omega
      simp only [pow10, e1]
      by_cases hz : t.output % 10 ^ n < 10 ^ (n - 1)
      · rw [if_pos hz]
        apply key
        intro _
        rw [decimalLength17_eq hdp17]
        have hdl : dlen (t.output % 10 ^ n) ≤ n := dlen_le_of_lt hdplt hn1
        omega
      · rw [if_neg hz]
        apply key
        intro _
        have hdl : dlen (t.output % 10 ^ n) = n := dlen_unique hn1 (by omega) hdplt
        omega
    · rw [if_neg hn]
      unfold partsNum
      by_cases h0 : t.output = 0
      · simp only [h0, ne_eq, not_true_eq_false, if_false]
        exact sameDec_zero _ _
      · simp only [h0, if_true, ne_eq, not_false_eq_true]
        rw [← h.len h0]
        have : ((((-t.exp).toNat - t.olength + t.olength : Nat)) : Int) = -t.exp := by omega
        unfold SameDec
        simp only
        rw [this]
        simp

end GeosModel.Num

namespace GeosModel.Num

/-! ### trimming is round-half-even on the decimal digits -/

theorem stripZeros_value : ∀ f t, SameDec ((stripZeros f t).output, (stripZeros f t).exp) (t.output, t.exp)
  | 0, t => sameDec_refl _
  | f + 1, t => by
    simp only [stripZeros]
    split
    · rename_i hc
      refine sameDec_trans (stripZeros_value f _) ?_
      unfold SameDec
      simp only
      have e1 : (t.exp + 1 - t.exp).toNat = 1 := by omega
      have e2 : (t.exp - (t.exp + 1)).toNat = 0 := by omega
      rw [e1, e2]
      simp only [Nat.pow_one, Nat.pow_zero, Nat.mul_one]
      omega
    · exact sameDec_refl _

theorem ten_pow_even {d : Nat} (h : 1 ≤ d) : 10 ^ d = 2 * (10 ^ d / 2) := by
  rw [ten_pow_succ_pred h]; omega

theorem trimStage_value (k : Nat) (q : Int) (p : Nat) (hk : 1 ≤ k) :
    SameDec ((trimStage k (dlen k) q p).output, (trimStage k (dlen k) q p).exp) (rheDec k q p) := by
  unfold trimStage rheDec
  by_cases h1 : (p : Int) < -q
  · rw [if_pos h1, if_pos h1]
    dsimp only
    by_cases h2 : -q - (p : Int) > (dlen k : Nat)
    · rw [if_pos h2]
      -- every digit is cut off and the remainder is below one half
      obtain ⟨_, s2⟩ := dlen_spec k (by omega)
      generalize hd : (-q - (p : Int)).toNat = d at *
      have hlt : 2 * k < 10 ^ d := by
        have : 10 ^ (dlen k + 1) ≤ 10 ^ d := Nat.pow_le_pow_right (by decide) (by omega)
        rw [Nat.pow_succ] at this; omega
      have e1 : k / 10 ^ d = 0 := Nat.div_eq_of_lt (by omega)
      have e2 : k % 10 ^ d = k := Nat.mod_eq_of_lt (by omega)
      rw [e1, e2, if_neg (by omega)]
      exact sameDec_zero _ _
    · rw [if_neg h2]
      refine sameDec_trans (stripZeros_value 20 _) ?_
      generalize hd : (-q - (p : Int)).toNat = d at *
      have hd1 : 1 ≤ d := by omega
      have hexp : q + (d : Int) = -(p : Int) := by omega
      have hev := ten_pow_even hd1
      have hmod : k - k / 10 ^ d * 10 ^ d = k % 10 ^ d := by
        have := Nat.div_add_mod k (10 ^ d)
        rw [Nat.mul_comm] at this; omega
      unfold roundDigits
      dsimp only
      simp only [pow10, hmod]
      have hiff : (k % 10 ^ d > 10 ^ d / 2 ∨ k % 10 ^ d = 10 ^ d / 2 ∧ k / 10 ^ d % 2 = 1) ↔
          (2 * (k % 10 ^ d) > 10 ^ d ∨ 2 * (k % 10 ^ d) = 10 ^ d ∧ k / 10 ^ d % 2 = 1) := by
        generalize k % 10 ^ d = r at *
        generalize 10 ^ d = T at *
        omega
      by_cases hr : k % 10 ^ d > 10 ^ d / 2 ∨ k % 10 ^ d = 10 ^ d / 2 ∧ k / 10 ^ d % 2 = 1
      · rw [if_pos hr, if_pos (hiff.mp hr)]
        simp only [hexp]
        exact sameDec_refl _
      · rw [if_neg hr, if_neg (fun h => hr (hiff.mpr h))]
        simp only [hexp]
        exact sameDec_refl _
  · rw [if_neg h1, if_neg h1]
    exact sameDec_refl _

/-- the rounded decimal is within half a unit of its last place of the original:
`2·|a·10^d − k| ≤ 10^d` where `d` digits were rounded away -/
theorem rheDec_close (k : Nat) (q : Int) (p : Nat) (h : (p : Int) < -q) :
    (rheDec k q p).2 = -(p : Int) ∧
    2 * ((rheDec k q p).1 * 10 ^ (-q - (p : Int)).toNat) ≤ 2 * k + 10 ^ (-q - (p : Int)).toNat ∧
    2 * k ≤ 2 * ((rheDec k q p).1 * 10 ^ (-q - (p : Int)).toNat) + 10 ^ (-q - (p : Int)).toNat := by
  unfold rheDec
  rw [if_pos h]
  dsimp only
  generalize (-q - (p : Int)).toNat = d
  have hs := Nat.div_add_mod k (10 ^ d)
  have hr : k % 10 ^ d < 10 ^ d := Nat.mod_lt _ (pow10_pos d)
  rw [Nat.mul_comm] at hs
  refine ⟨rfl, ?_, ?_⟩
  · split
    · rw [Nat.add_mul, Nat.one_mul]; omega
    · omega
  · split
    · rw [Nat.add_mul, Nat.one_mul]; omega
    · omega

end GeosModel.Num
