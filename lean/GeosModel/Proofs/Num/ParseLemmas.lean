import GeosModel.Proofs.Num.FixedLemmas
import GeosModel.Model.Num.Parse
/-! Reading back what `to_chars_fixed` wrote: `parseNum` on the rendered characters returns exactly the
decimal that was laid out. -/
namespace GeosModel.Num

theorem isDigit_eq (c : Char) : isDigit c = isDigitC c := rfl

def digStep (a : Nat) (c : Char) : Nat := a * 10 + digitVal c

theorem takeDigits_spec : ∀ (ds rest : List Char) (acc cnt : Nat),
    (∀ c ∈ ds, isDigit c = true) → (∀ c r, rest = c :: r → isDigit c = false) →
    takeDigits (ds ++ rest) acc cnt = (ds.foldl digStep acc, cnt + ds.length, rest)
  | [], rest, acc, cnt, _, hr => by
    cases rest with
    | nil => simp [takeDigits]
    | cons c r => simp [takeDigits, hr c r rfl]
  | d :: ds, rest, acc, cnt, hd, hr => by
    have h1 : isDigit d = true := hd d (by simp)
    simp only [List.cons_append, takeDigits, h1, if_true, List.foldl_cons, List.length_cons]
    rw [takeDigits_spec ds rest _ _ (fun c hc => hd c (by simp [hc])) hr]
    simp only [digStep]
    congr 2
    omega

theorem digitVal_digitChar {d : Nat} (h : d < 10) : digitVal (digitChar d) = d := digitChar_val h

theorem dlen_ge_ten {n : Nat} (h : 10 ≤ n) : dlen n = dlen (n / 10) + 1 := by
  have := dlen_div n 1 (by simpa using h)
  simp only [Nat.pow_one] at this
  have := dlen_pos (n / 10)
  have hp := dlen_pos n
  have h2 : 2 ≤ dlen n := by
    by_cases hc : dlen n ≤ 1
    · have := (dlen_spec n (by omega)).2
      have : 10 ^ dlen n ≤ 10 ^ 1 := Nat.pow_le_pow_right (by decide) hc
      omega
    · omega
  omega

theorem natDigitsF_foldl : ∀ f n acc, n < 10 ^ f → 0 < f →
    (natDigitsF f n).foldl digStep acc = acc * 10 ^ dlen n + n
  | 0, _, _, _, hf => by omega
  | f + 1, n, acc, h, _ => by
    simp only [natDigitsF]
    by_cases h10 : n < 10
    · simp [h10, digStep, digitVal_digitChar h10, dlen_lt_ten h10]
    · simp only [h10, if_false, List.foldl_append, List.foldl_cons, List.foldl_nil]
      have e : 10 ^ (f + 1) = 10 * 10 ^ f := by rw [Nat.pow_succ, Nat.mul_comm]
      have hf : 0 < f := by
        cases f with
        | zero => simp at e; omega
        | succ f => omega
      rw [natDigitsF_foldl f (n / 10) acc (by omega) hf]
      simp only [digStep, digitVal_digitChar (Nat.mod_lt n (by decide : 0 < 10))]
      rw [dlen_ge_ten (n := n) (by omega), Nat.pow_succ, ← Nat.mul_assoc]
      generalize acc * 10 ^ dlen (n / 10) = X
      omega

theorem natDigits_foldl {n : Nat} (acc : Nat) (h : n < 10 ^ 20) :
    (natDigits n).foldl digStep acc = acc * 10 ^ dlen n + n :=
  natDigitsF_foldl 20 n acc h (by decide)

theorem zeros_foldl : ∀ (z acc : Nat), (List.replicate z '0').foldl digStep acc = acc * 10 ^ z
  | 0, acc => by simp
  | z + 1, acc => by
    simp only [List.replicate_succ, List.foldl_cons]
    rw [zeros_foldl z]
    simp only [digStep]
    have : digitVal '0' = 0 := by decide
    rw [this, Nat.pow_succ, Nat.add_zero, Nat.mul_assoc, Nat.mul_comm 10]

theorem zeros_digits (z : Nat) : ∀ c ∈ List.replicate z '0', isDigit c = true := by
  intro c hc
  rw [List.mem_replicate] at hc
  rw [hc.2]; decide

theorem natDigits_digits (n : Nat) : ∀ c ∈ natDigits n, isDigit c = true := natDigitsF_digits 20 n

end GeosModel.Num

namespace GeosModel.Num

/-! ### characters -/

theorem digit_facts {c : Char} (h : isDigit c = true) :
    isWs c = false ∧ c ≠ '-' ∧ c ≠ '+' ∧ c ≠ '.' ∧ c ≠ 'e' ∧ c ≠ 'E' ∧ lower c = c ∧ c ≠ 'i' ∧ c ≠ 'n' := by
  unfold isDigit at h
  simp only [Bool.and_eq_true, decide_eq_true_eq] at h
  have ne : ∀ d : Char, (d.toNat < 48 ∨ 57 < d.toNat) → c ≠ d := by
    intro d hd hcd; subst hcd; omega
  refine ⟨?_, ne _ (by decide), ne _ (by decide), ne _ (by decide), ne _ (by decide), ne _ (by decide), ?_,
    ne _ (by decide), ne _ (by decide)⟩
  · cases hw : isWs c
    · rfl
    · exfalso
      unfold isWs at hw
      simp only [decide_eq_true_eq] at hw
      rcases hw with h | h | h | h | h | h <;> exact ne _ (by decide) h
  · unfold lower
    rw [if_neg]
    intro hc
    have h1 : 'A'.toNat ≤ c.toNat := Char.le_def.mp hc.1
    have : 'A'.toNat = 65 := by decide
    omega

theorem natDigits_cons (x : Nat) : ∃ d t, natDigits x = d :: t ∧ isDigit d = true := by
  have hall := natDigits_digits x
  cases hx : natDigits x with
  | nil =>
    exfalso
    unfold natDigits natDigitsF at hx
    split at hx
    · cases hx
    · simp at hx
  | cons d t => exact ⟨d, t, rfl, hall d (by rw [hx]; simp)⟩

/-! ### the mantissa -/

/-- digits and number of fraction digits laid out by `Parts` -/
def partsNum (p : Parts) : Nat × Nat :=
  if p.dp ≠ 0 then (p.ip * 10 ^ p.tiz * 10 ^ (p.ldz + dlen p.dp) + p.dp, p.ldz + dlen p.dp)
  else (p.ip * 10 ^ p.tiz, 0)

def partsBody (p : Parts) : List Char :=
  toCharsUint64 p.ip p.ipl ++ List.replicate p.tiz '0' ++
  (if p.dp ≠ 0 then '.' :: (List.replicate p.ldz '0' ++ toCharsUint64 p.dp p.dpl) else [])

theorem renderParts_eq (sign : Bool) (p : Parts) :
    renderParts sign p = (if sign ∧ (p.ip ≠ 0 ∨ p.dp ≠ 0) then ['-'] else []) ++ partsBody p := by
  unfold renderParts partsBody
  simp only [List.append_assoc]

theorem lenOK_lt {x l : Nat} (h : LenOK x l) : x < 10 ^ 20 := by
  rcases h with h | h
  · omega
  · exact Nat.lt_trans h.2 (by decide)

theorem parseMantissa_body (p : Parts) (h : POK p) (suf : List Char)
    (hs : ∀ c r, suf = c :: r → isDigit c = false ∧ c ≠ '.') :
    ∃ cnt, 1 ≤ cnt ∧ parseMantissa (partsBody p ++ suf) = ((partsNum p).1, (partsNum p).2, cnt, suf) := by
  unfold partsBody partsNum
  rw [toCharsUint64_eq h.ip, toCharsUint64_eq h.dp]
  have ipl := lenOK_lt h.ip
  have dpl := lenOK_lt h.dp
  have hcnt : 1 ≤ (natDigits p.ip ++ List.replicate p.tiz '0').length := by
    rw [List.length_append, natDigits_length ipl]; have := dlen_pos p.ip; omega
  have hdig : ∀ c ∈ natDigits p.ip ++ List.replicate p.tiz '0', isDigit c = true := by
    intro c hc
    rw [List.mem_append] at hc
    rcases hc with hc | hc
    · exact natDigits_digits _ c hc
    · exact zeros_digits _ c hc
  have hval : (natDigits p.ip ++ List.replicate p.tiz '0').foldl digStep 0 = p.ip * 10 ^ p.tiz := by
    rw [List.foldl_append, natDigits_foldl 0 ipl, zeros_foldl]; simp
  unfold parseMantissa
  by_cases hd : p.dp ≠ 0
  · simp only [hd, if_true, ne_eq, not_false_eq_true]
    rw [List.append_assoc]
    rw [takeDigits_spec _ _ 0 0 hdig (by
      intro c r hcr
      simp only [List.cons_append] at hcr
      injection hcr with h1 _
      subst h1; decide)]
    simp only [List.cons_append, if_true]
    have hdig2 : ∀ c ∈ List.replicate p.ldz '0' ++ natDigits p.dp, isDigit c = true := by
      intro c hc
      rw [List.mem_append] at hc
      rcases hc with hc | hc
      · exact zeros_digits _ c hc
      · exact natDigits_digits _ c hc
    rw [takeDigits_spec _ suf _ 0 hdig2 (fun c r hcr => (hs c r hcr).1)]
    refine ⟨0 + (natDigits p.ip ++ List.replicate p.tiz '0').length + (0 + (p.ldz + dlen p.dp)), ?_, ?_⟩
    · omega
    · simp only [hval, List.foldl_append, zeros_foldl, natDigits_foldl _ dpl, List.length_append,
        List.length_replicate, natDigits_length dpl, Nat.zero_add, Nat.pow_add, Nat.mul_assoc]
  · simp only [hd, if_false, List.append_nil]
    rw [takeDigits_spec _ suf 0 0 hdig (fun c r hcr => (hs c r hcr).1)]
    refine ⟨0 + (natDigits p.ip ++ List.replicate p.tiz '0').length, by omega, ?_⟩
    rw [hval]
    cases suf with
    | nil => simp
    | cons c t =>
      have := (hs c t rfl).2
      simp [this]

end GeosModel.Num

namespace GeosModel.Num

theorem partsBody_cons (p : Parts) (h : POK p) : ∃ d t, partsBody p = d :: t ∧ isDigit d = true := by
  obtain ⟨d, t, e, hd⟩ := natDigits_cons p.ip
  unfold partsBody
  rw [toCharsUint64_eq h.ip, e]
  exact ⟨d, t ++ List.replicate p.tiz '0' ++
    (if p.dp ≠ 0 then '.' :: (List.replicate p.ldz '0' ++ toCharsUint64 p.dp p.dpl) else []), rfl, hd⟩

theorem dropWs_cons {c : Char} (t : List Char) (h : isWs c = false) : dropWs (c :: t) = c :: t := by
  simp [dropWs, h]

/-- a number that starts with a digit, after an optional minus sign -/
theorem parseNum_digits (neg : Bool) (d : Char) (t : List Char) (hd : isDigit d = true) :
    parseNum ((if neg then ['-'] else []) ++ d :: t) =
      (if (parseMantissa (d :: t)).2.2.1 = 0 then none
       else match parseExp (parseMantissa (d :: t)).2.2.2 with
         | some e => some (.dec neg (parseMantissa (d :: t)).1 (e - (parseMantissa (d :: t)).2.1))
         | none => none) := by
  obtain ⟨f1, f2, f3, _, _, _, f7, f8, f9⟩ := digit_facts hd
  have hsplit : splitSign (dropWs ((if neg then ['-'] else []) ++ d :: t)) = (neg, d :: t) := by
    cases neg
    · simp only [Bool.false_eq_true, if_false, List.nil_append]
      rw [dropWs_cons _ f1]
      simp [splitSign, f2, f3]
    · simp only [if_true, List.cons_append, List.nil_append]
      rw [dropWs_cons _ (by decide)]
      simp [splitSign]
  unfold parseNum
  simp only [hsplit]
  have hw : ∀ (w : List Char), (∃ c r, w = c :: r ∧ c ≠ d) → List.map lower (d :: t) ≠ w := by
    intro w ⟨c, r, hw, hc⟩ he
    rw [hw, List.map_cons, f7] at he
    injection he with h1 _
    exact hc h1.symm
  have h1 : List.map lower (d :: t) ≠ "inf".toList := hw _ ⟨'i', _, rfl, fun h => f8 h.symm⟩
  have h2 : List.map lower (d :: t) ≠ "infinity".toList := hw _ ⟨'i', _, rfl, fun h => f8 h.symm⟩
  have h3 : List.map lower (d :: t) ≠ "nan".toList := hw _ ⟨'n', _, rfl, fun h => f9 h.symm⟩
  simp only [h1, h2, h3, or_self, if_false]
  rfl

/-- **reading back a rendered number** -/
theorem parseNum_render (sign : Bool) (p : Parts) (h : POK p) (suf : List Char)
    (hs : ∀ c r, suf = c :: r → isDigit c = false ∧ c ≠ '.') :
    parseNum (renderParts sign p ++ suf) =
      match parseExp suf with
      | some e => some (.dec (sign && decide (p.ip ≠ 0 ∨ p.dp ≠ 0)) (partsNum p).1 (e - ((partsNum p).2 : Int)))
      | none => none := by
  obtain ⟨d, t, hb, hd⟩ := partsBody_cons p h
  obtain ⟨cnt, hc, hm⟩ := parseMantissa_body p h suf hs
  rw [renderParts_eq, List.append_assoc, hb, List.cons_append] at *
  have : (if sign = true ∧ (p.ip ≠ 0 ∨ p.dp ≠ 0) then ['-'] else [] : List Char) =
      (if (sign && decide (p.ip ≠ 0 ∨ p.dp ≠ 0)) = true then ['-'] else []) := by
    cases sign <;> simp
  rw [this, parseNum_digits _ d _ hd, hm]
  simp only
  rw [if_neg (by omega)]

end GeosModel.Num
