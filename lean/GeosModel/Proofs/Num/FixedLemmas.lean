import GeosModel.Proofs.Num.Basic
/-! Invariants of `to_chars_fixed`: the length fields always match the numbers they describe (so
`to_chars_uint64` writes exactly the digits), and the number of characters is bounded. -/
namespace GeosModel.Num

theorem pow10_pos (n : Nat) : 0 < 10 ^ n := Nat.pow_pos (by decide)

/-- dividing by `10^n` removes `n` digits -/
theorem dlen_div (o n : Nat) (h : 10 ^ n ≤ o) : dlen (o / 10 ^ n) = dlen o - n := by
  have hp : 0 < o := Nat.lt_of_lt_of_le (pow10_pos n) h
  obtain ⟨s1, s2⟩ := dlen_spec o hp
  have hL := dlen_pos o
  have hn : n < dlen o := by
    by_cases hc : dlen o ≤ n
    · have : 10 ^ dlen o ≤ 10 ^ n := Nat.pow_le_pow_right (by decide) hc
      omega
    · omega
  apply dlen_unique (by omega)
  · rw [Nat.le_div_iff_mul_le (pow10_pos n), ← Nat.pow_add]
    have : dlen o - n - 1 + n = dlen o - 1 := by omega
    rw [this]; exact s1
  · rw [Nat.div_lt_iff_lt_mul (pow10_pos n), ← Nat.pow_add]
    have : dlen o - n + n = dlen o := by omega
    rw [this]; exact s2

theorem dlen_mono {a b : Nat} (h : a ≤ b) : dlen a ≤ dlen b := by
  by_cases ha : a = 0
  · subst ha; rw [dlen_zero]; exact dlen_pos b
  · obtain ⟨s1, _⟩ := dlen_spec a (by omega)
    obtain ⟨_, t2⟩ := dlen_spec b (by omega)
    by_cases hc : dlen b < dlen a
    · have : 10 ^ dlen b ≤ 10 ^ (dlen a - 1) := Nat.pow_le_pow_right (by decide) (by omega)
      omega
    · omega

theorem dlen_succ_le (a : Nat) : dlen (a + 1) ≤ dlen a + 1 := by
  by_cases ha : a = 0
  · subst ha; rw [dlen_zero]; simp [dlen_lt_ten]
  · obtain ⟨_, s2⟩ := dlen_spec a (by omega)
    apply dlen_le_of_lt _ (by omega)
    rw [Nat.pow_succ]; omega

/-- the length field matches the number, or the number is a single digit (then the field is not used) -/
def LenOK (x l : Nat) : Prop := x < 10 ∨ (l = dlen x ∧ x < 10 ^ 17)

theorem natDigits_lt_ten {x : Nat} (h : x < 10) : natDigits x = [digitChar x] := by
  simp [natDigits, natDigitsF, h]

theorem toCharsUint64_eq {x l : Nat} (h : LenOK x l) : toCharsUint64 x l = natDigits x := by
  unfold toCharsUint64
  by_cases h10 : x < 10
  · simp [h10, natDigits_lt_ten h10]
  · rcases h with h | h
    · omega
    · simp [h10, h.1, h.2]

theorem toCharsUint64_length {x l : Nat} (h : LenOK x l) : (toCharsUint64 x l).length = dlen x := by
  rw [toCharsUint64_eq h]
  rcases h with h | h
  · rw [natDigits_lt_ten h, dlen_lt_ten h]; rfl
  · exact natDigits_length (Nat.lt_trans h.2 (by decide))

theorem toCharsUint64_digits {x l : Nat} (h : LenOK x l) : ∀ c ∈ toCharsUint64 x l, isDigitC c = true := by
  rw [toCharsUint64_eq h]; exact natDigitsF_digits 20 x

/-- invariant of the `(output, olength, exp)` triple -/
structure TOK (t : Trimmed) : Prop where
  lt : t.output < 10 ^ 17
  len : t.output ≠ 0 → t.olength = dlen t.output
  zero : t.output = 0 → t.exp = 0 ∨ (t.olength = 0 ∧ t.exp ≤ 0)

theorem stripZeros_ok : ∀ f t, TOK t → TOK (stripZeros f t)
  | 0, t, h => h
  | f + 1, t, h => by
    simp only [stripZeros]
    split
    · rename_i hc
      apply stripZeros_ok
      have h10 : 10 ^ 1 ≤ t.output := by simp; omega
      have hd := dlen_div t.output 1 h10
      simp only [Nat.pow_one] at hd
      refine ⟨?_, ?_, ?_⟩
      · have := h.lt; simp only; omega
      · intro _; simp only; rw [hd, h.len hc.1]
      · intro h0; simp only at h0; omega
    · exact h

theorem stripZeros_exp_ge : ∀ f t, t.exp ≤ (stripZeros f t).exp
  | 0, t => Int.le_refl _
  | f + 1, t => by
    simp only [stripZeros]
    split
    · exact Int.le_trans (by simp only; omega) (stripZeros_exp_ge f _)
    · exact Int.le_refl _

/-- `dlen output + exp` (the position of the leading digit) and `olength` do not grow while stripping -/
theorem stripZeros_lead : ∀ f t, TOK t →
    ((stripZeros f t).output ≠ 0 → t.output ≠ 0 ∧
      (dlen (stripZeros f t).output : Int) + (stripZeros f t).exp = (dlen t.output : Int) + t.exp) ∧
    (stripZeros f t).olength ≤ t.olength ∧ ((stripZeros f t).output = 0 → stripZeros f t = t)
  | 0, t, _ => by simp [stripZeros]
  | f + 1, t, h => by
    simp only [stripZeros]
    split
    · rename_i hc
      have h10 : 10 ^ 1 ≤ t.output := by simp; omega
      have hd := dlen_div t.output 1 h10
      simp only [Nat.pow_one] at hd
      have hp := dlen_pos (t.output / 10)
      have hok : TOK ⟨t.output / 10, t.olength - 1, t.exp + 1⟩ := by
        have := stripZeros_ok 1 t h
        simpa [stripZeros, hc] using this
      obtain ⟨i1, i2, i3⟩ := stripZeros_lead f ⟨t.output / 10, t.olength - 1, t.exp + 1⟩ hok
      refine ⟨?_, ?_, ?_⟩
      · intro hne
        obtain ⟨_, e⟩ := i1 hne
        refine ⟨hc.1, ?_⟩
        simp only at e
        omega
      · simp only at i2; omega
      · intro h0
        have := i3 h0
        rw [this] at h0
        simp only at h0
        omega
    · simp

theorem roundDigits_ok (k ol : Nat) (q : Int) (d : Nat) (hk : k < 10 ^ 17) (hk0 : k ≠ 0) (hol : ol = dlen k)
    (hd1 : 1 ≤ d) (hd2 : d ≤ ol) (hq : q + d ≤ 0) :
    TOK (roundDigits k ol q d) ∧ q ≤ (roundDigits k ol q d).exp ∧ (roundDigits k ol q d).olength ≤ ol ∧
    ((roundDigits k ol q d).output ≠ 0 →
      (dlen (roundDigits k ol q d).output : Int) + (roundDigits k ol q d).exp ≤ (ol : Int) + q + 1) := by
  have hdiv : k / 10 ^ d ≤ k / 10 := by
    have : 10 ^ 1 ≤ 10 ^ d := Nat.pow_le_pow_right (by decide) hd1
    simp only [Nat.pow_one] at this
    exact Nat.div_le_div_left this (by decide)
  have hkp : 0 < k := by omega
  obtain ⟨s1, s2⟩ := dlen_spec k hkp
  -- the quotient has `ol - d` digits (or is zero when `d = ol`)
  have hquot : k / 10 ^ d ≠ 0 → dlen (k / 10 ^ d) = ol - d ∧ d < ol := by
    intro hne
    have hle : 10 ^ d ≤ k := by
      by_cases hc : k < 10 ^ d
      · rw [Nat.div_eq_of_lt hc] at hne; omega
      · omega
    refine ⟨by rw [dlen_div k d hle, hol], ?_⟩
    by_cases hc : ol ≤ d
    · have : 10 ^ ol ≤ 10 ^ d := Nat.pow_le_pow_right (by decide) hc
      rw [hol] at this; omega
    · omega
  have hzero : k / 10 ^ d = 0 → d = ol := by
    intro h0
    have hlt : k < 10 ^ d := by
      by_cases hc : k < 10 ^ d
      · exact hc
      · have : 1 ≤ k / 10 ^ d := (Nat.le_div_iff_mul_le (pow10_pos d)).mpr (by omega)
        omega
    by_cases hc : d < ol
    · have : 10 ^ d ≤ 10 ^ (dlen k - 1) := Nat.pow_le_pow_right (by decide) (by omega)
      omega
    · omega
  unfold roundDigits
  dsimp only
  by_cases hr : k - k / pow10 d * pow10 d > pow10 d / 2 ∨ k - k / pow10 d * pow10 d = pow10 d / 2 ∧ k / pow10 d % 2 = 1
  · -- rounded up
    rw [if_pos hr]
    simp only [pow10]
    have hlt : k / 10 ^ d + 1 < 10 ^ 17 := by omega
    refine ⟨⟨hlt, ?_, ?_⟩, by (try simp only); omega, ?_, ?_⟩
    · intro _; exact decimalLength17_eq hlt
    · intro h0; exact absurd h0 (Nat.succ_ne_zero _)
    · try simp only
      rw [decimalLength17_eq hlt]
      by_cases hz : k / 10 ^ d = 0
      · rw [hz]; simp [dlen_lt_ten]; omega
      · have := dlen_succ_le (k / 10 ^ d)
        have := (hquot hz).1
        omega
    · intro _
      try simp only
      by_cases hz : k / 10 ^ d = 0
      · rw [hz]; simp [dlen_lt_ten]; have := hzero hz; omega
      · have := dlen_succ_le (k / 10 ^ d)
        have := (hquot hz).1
        have := (hquot hz).2
        omega
  · -- not rounded up
    rw [if_neg hr]
    simp only [pow10]
    refine ⟨⟨by (try simp only); omega, ?_, ?_⟩, by (try simp only); omega, by (try simp only); omega, ?_⟩
    · intro hne; (try simp only at hne ⊢); exact ((hquot hne).1).symm
    · intro h0; try simp only at h0 ⊢
      right; exact ⟨by have := hzero h0; omega, hq⟩
    · intro hne
      try simp only at hne ⊢
      have := (hquot hne).1
      have := (hquot hne).2
      omega

/-- what later stages need to know about the output of `trimStage` -/
structure TrimFacts (ol : Nat) (q : Int) (t : Trimmed) : Prop where
  ok : TOK t
  exp_ge : q ≤ t.exp
  ol_le : t.olength ≤ ol
  lead : t.output ≠ 0 → (dlen t.output : Int) + t.exp ≤ (ol : Int) + q + 1

theorem trimStage_facts (k : Nat) (q : Int) (p : Nat) (hk : 1 ≤ k) (hk17 : k < 10 ^ 17) :
    TrimFacts (dlen k) q (trimStage k (dlen k) q p) := by
  unfold trimStage
  by_cases h1 : (p : Int) < -q
  · rw [if_pos h1]
    dsimp only
    by_cases h2 : -q - (p : Int) > (dlen k : Nat)
    · rw [if_pos h2]
      exact ⟨⟨by simp, by intro h; exact absurd rfl h, by intro _; left; rfl⟩, by simp only; omega,
        Nat.le_refl _, by intro h; exact absurd rfl h⟩
    · rw [if_neg h2]
      have hd1 : 1 ≤ (-q - (p : Int)).toNat := by omega
      have hd2 : (-q - (p : Int)).toNat ≤ dlen k := by omega
      have hq : q + ((-q - (p : Int)).toNat : Nat) ≤ 0 := by omega
      obtain ⟨r1, r2, r3, r4⟩ := roundDigits_ok k (dlen k) q _ hk17 (by omega) rfl hd1 hd2 hq
      generalize roundDigits k (dlen k) q (-q - (p : Int)).toNat = r at *
      obtain ⟨l1, l2, l3⟩ := stripZeros_lead 20 r r1
      refine ⟨stripZeros_ok 20 r r1, Int.le_trans r2 (stripZeros_exp_ge 20 r), Nat.le_trans l2 r3, ?_⟩
      intro hne
      obtain ⟨a, b⟩ := l1 hne
      have := r4 a
      omega
  · rw [if_neg h1]
    exact ⟨⟨hk17, by intro _; rfl, by intro h; simp only at h; omega⟩, Int.le_refl _, Nat.le_refl _,
      by intro _; simp only; omega⟩

/-! ### layout -/

structure POK (p : Parts) : Prop where
  ip : LenOK p.ip p.ipl
  dp : LenOK p.dp p.dpl

/-- number of characters `layoutStage` will produce (without the sign) -/
def widthOf (t : Trimmed) : Nat :=
  if t.exp ≥ 0 then dlen t.output + t.exp.toNat
  else if (-t.exp).toNat < t.olength then t.olength + 1 else (-t.exp).toNat + 2

def partsWidth (p : Parts) : Nat :=
  dlen p.ip + p.tiz + (if p.dp ≠ 0 then 1 + p.ldz + dlen p.dp else 0)

theorem lenOK_of_TOK_output (t : Trimmed) (h : TOK t) : LenOK t.output t.olength := by
  by_cases h0 : t.output = 0
  · left; omega
  · right; exact ⟨h.len h0, h.lt⟩

theorem layout_ok (t : Trimmed) (h : TOK t) : POK (layoutStage t) ∧ partsWidth (layoutStage t) ≤ widthOf t := by
  unfold layoutStage widthOf partsWidth
  by_cases he : t.exp ≥ 0
  · rw [if_pos he, if_pos he]
    exact ⟨⟨lenOK_of_TOK_output t h, Or.inl (by simp)⟩, by simp⟩
  · rw [if_neg he, if_neg he]
    dsimp only
    by_cases hn : (-t.exp).toNat < t.olength
    · rw [if_pos hn, if_pos hn]
      -- the digits are split at position `nexp`
      have hne : t.output ≠ 0 := by
        intro h0
        rcases h.zero h0 with h1 | h1 <;> omega
      have hol := h.len hne
      generalize hnx : (-t.exp).toNat = n at *
      have hn1 : 1 ≤ n := by omega
      obtain ⟨s1, s2⟩ := dlen_spec t.output (by omega)
      have hle : 10 ^ n ≤ t.output := by
        have : 10 ^ n ≤ 10 ^ (dlen t.output - 1) := Nat.pow_le_pow_right (by decide) (by omega)
        omega
      have hip : dlen (t.output / 10 ^ n) = t.olength - n := by rw [dlen_div _ _ hle, hol]
      have hiplt : t.output / 10 ^ n < 10 ^ 17 := Nat.lt_of_le_of_lt (Nat.div_le_self _ _) h.lt
      have hdplt : t.output % 10 ^ n < 10 ^ n := Nat.mod_lt _ (pow10_pos n)
      have hdp17 : t.output % 10 ^ n < 10 ^ 17 := Nat.lt_of_le_of_lt (Nat.mod_le _ _) h.lt
      have e1 : t.olength - (t.olength - n) = n := by omega
      simp only [pow10, e1]
      by_cases hz : t.output % 10 ^ n < 10 ^ (n - 1)
      · rw [if_pos hz]
        simp only
        have hdl : dlen (t.output % 10 ^ n) ≤ n := dlen_le_of_lt hdplt hn1
        refine ⟨⟨Or.inr ⟨hip.symm, hiplt⟩, Or.inr ⟨decimalLength17_eq hdp17, hdp17⟩⟩, ?_⟩
        rw [decimalLength17_eq hdp17, hip]
        split <;> omega
      · rw [if_neg hz]
        simp only
        have hdl : dlen (t.output % 10 ^ n) = n := dlen_unique hn1 (by omega) hdplt
        refine ⟨⟨Or.inr ⟨hip.symm, hiplt⟩, Or.inr ⟨hdl.symm, hdp17⟩⟩, ?_⟩
        rw [hip, hdl]
        split <;> omega
    · rw [if_neg hn, if_neg hn]
      simp only
      refine ⟨⟨Or.inl (by simp), lenOK_of_TOK_output t h⟩, ?_⟩
      rw [dlen_zero]
      by_cases h0 : t.output = 0
      · simp [h0]
      · rw [if_pos h0, ← h.len h0]; omega

theorem renderParts_length (sign : Bool) (p : Parts) (h : POK p) :
    (renderParts sign p).length ≤ 1 + partsWidth p := by
  unfold renderParts partsWidth
  have h1 : ((if sign = true ∧ (p.ip ≠ 0 ∨ p.dp ≠ 0) then ['-'] else []) : List Char).length ≤ 1 := by
    split <;> simp
  generalize ((if sign = true ∧ (p.ip ≠ 0 ∨ p.dp ≠ 0) then ['-'] else []) : List Char) = sg at *
  simp only [List.length_append, List.length_replicate, toCharsUint64_length h.ip]
  by_cases hd : p.dp ≠ 0
  · simp only [hd, if_true, List.length_cons, List.length_append, List.length_replicate,
      toCharsUint64_length h.dp, ne_eq, not_false_eq_true]
    omega
  · simp only [hd, if_false, List.length_nil]
    omega

theorem renderParts_length_nosign (p : Parts) (h : POK p) :
    (renderParts false p).length ≤ partsWidth p := by
  unfold renderParts partsWidth
  simp only [List.length_append, List.length_replicate, toCharsUint64_length h.ip]
  by_cases hd : p.dp ≠ 0
  · simp only [hd, if_true, List.length_cons, List.length_append, List.length_replicate,
      toCharsUint64_length h.dp, ne_eq, not_false_eq_true]
    simp
    omega
  · simp only [hd, if_false, List.length_nil]
    simp

/-- characters produced by `to_chars_fixed` -/
def isFixedChar (c : Char) : Bool := isDigitC c || c == '-' || c == '.'

theorem renderParts_chars (sign : Bool) (p : Parts) (h : POK p) :
    ∀ c ∈ renderParts sign p, isFixedChar c = true := by
  intro c hc
  unfold renderParts at hc
  simp only [List.mem_append, List.mem_replicate] at hc
  rcases hc with ((hc | hc) | hc) | hc
  · split at hc
    · simp at hc; subst hc; decide
    · simp at hc
  · simp [isFixedChar, toCharsUint64_digits h.ip c hc]
  · rw [hc.2]; decide
  · split at hc
    · simp only [List.mem_cons, List.mem_append, List.mem_replicate] at hc
      rcases hc with hc | hc | hc
      · subst hc; decide
      · rw [hc.2]; decide
      · simp [isFixedChar, toCharsUint64_digits h.dp c hc]
    · simp at hc

/-- **width of `to_chars_fixed`** for digits `k` (`1 ≤ k < 10^17`) -/
theorem toCharsFixed_facts (k : Nat) (q : Int) (sign : Bool) (p : Nat) (hk : 1 ≤ k) (hk17 : k < 10 ^ 17) :
    (∀ c ∈ toCharsFixed k q sign p, isFixedChar c = true) ∧
    ((toCharsFixed k q sign p).length : Int) ≤ 1 + max ((dlen k : Int) + q + 1) (max ((dlen k : Int) + 1) (2 - q)) ∧
    (0 ≤ q → (toCharsFixed k q sign p).length ≤ 1 + dlen k + q.toNat) := by
  unfold toCharsFixed
  rw [decimalLength17_eq hk17]
  have tf := trimStage_facts k q p hk hk17
  obtain ⟨pk, pw⟩ := layout_ok _ tf.ok
  have rl := renderParts_length sign _ pk
  refine ⟨renderParts_chars sign _ pk, ?_, ?_⟩
  · -- general bound
    have hw : (widthOf (trimStage k (dlen k) q p) : Int) ≤
        max ((dlen k : Int) + q + 1) (max ((dlen k : Int) + 1) (2 - q)) := by
      have hp := dlen_pos k
      generalize trimStage k (dlen k) q p = t at *
      unfold widthOf
      by_cases he : t.exp ≥ 0
      · rw [if_pos he]
        by_cases h0 : t.output = 0
        · have := tf.ok.zero h0
          rw [h0, dlen_zero]
          omega
        · have := tf.lead h0
          omega
      · rw [if_neg he]
        have := tf.exp_ge
        have := tf.ol_le
        split <;> omega
    omega
  · intro hq
    have e : trimStage k (dlen k) q p = ⟨k, dlen k, q⟩ := by
      unfold trimStage
      rw [if_neg (by omega)]
    rw [e] at pw rl ⊢
    have : widthOf ⟨k, dlen k, q⟩ = dlen k + q.toNat := by
      unfold widthOf; rw [if_pos (by simpa using hq)]
    omega

end GeosModel.Num
