import GeosModel.Proofs.Num.Pick
/-! Properties of `shortest`: the result lies in the rounding interval, has between 1 and 17 digits,
and its exponent is within a fixed window of `q17`. -/
namespace GeosModel.Num

/-! ### one step of the decimal exponent -/

theorem scale_step_neg (q : Int) (h : q < 0) : sN q = 10 * sN (q + 1) ∧ sD q = sD (q + 1) := by
  unfold sN sD
  generalize (2 : Nat) ^ 1076 = D
  by_cases h1 : q + 1 < 0
  · have e : (-q).toNat = (-(q + 1)).toNat + 1 := by omega
    rw [if_pos h, if_pos h1, if_pos h, if_pos h1, e, Nat.pow_succ]
    omega
  · have e : q = -1 := by omega
    subst e
    rw [if_pos (by decide), if_neg (by decide), if_pos (by decide), if_neg (by decide)]
    simp

theorem scale_step_nonneg (q : Int) (h : 0 ≤ q) : sN q = sN (q + 1) ∧ sD (q + 1) = 10 * sD q := by
  unfold sN sD
  generalize (2 : Nat) ^ 1076 = D
  have h0 : ¬ q < 0 := by omega
  have h1 : ¬ q + 1 < 0 := by omega
  have e : (q + 1).toNat = q.toNat + 1 := by omega
  rw [if_neg h0, if_neg h1, if_neg h0, if_neg h1, e, Nat.pow_succ]
  constructor
  · trivial
  · generalize 10 ^ q.toNat = a
    rw [Nat.mul_comm a 10, Nat.mul_assoc]

theorem flo_step (I : Ivl) (q : Int) : flo I (q + 1) = flo I q / 10 := by
  unfold flo
  by_cases h : q < 0
  · obtain ⟨e1, e2⟩ := scale_step_neg q h
    rw [e1, e2]
    have : I.v2 * (10 * sN (q + 1)) = I.v2 * sN (q + 1) * 10 := by
      rw [Nat.mul_comm 10, Nat.mul_assoc]
    rw [this, Nat.div_div_eq_div_mul, Nat.mul_comm (sD (q + 1)) 10]
    rw [Nat.mul_comm _ 10, Nat.mul_div_mul_left _ _ (by decide : 0 < 10)]
  · obtain ⟨e1, e2⟩ := scale_step_nonneg q (by omega)
    rw [← e1, e2, Nat.div_div_eq_div_mul, Nat.mul_comm 10]

theorem inIvl_step (I : Ivl) (q : Int) (j : Nat) : inIvl I (q + 1) j = inIvl I q (10 * j) := by
  have key : ∀ (a b : Nat), (a * sN (q + 1) ≤ j * sD (q + 1) ↔ a * sN q ≤ 10 * j * sD q) ∧
      (j * sD (q + 1) ≤ b * sN (q + 1) ↔ 10 * j * sD q ≤ b * sN q) ∧
      (a * sN (q + 1) < j * sD (q + 1) ↔ a * sN q < 10 * j * sD q) ∧
      (j * sD (q + 1) < b * sN (q + 1) ↔ 10 * j * sD q < b * sN q) := by
    intro a b
    by_cases h : q < 0
    · obtain ⟨e1, e2⟩ := scale_step_neg q h
      rw [e1, e2]
      have x1 : a * (10 * sN (q + 1)) = 10 * (a * sN (q + 1)) := by
        rw [← Nat.mul_assoc, Nat.mul_comm a 10, Nat.mul_assoc]
      have x2 : b * (10 * sN (q + 1)) = 10 * (b * sN (q + 1)) := by
        rw [← Nat.mul_assoc, Nat.mul_comm b 10, Nat.mul_assoc]
      have x3 : 10 * j * sD (q + 1) = 10 * (j * sD (q + 1)) := Nat.mul_assoc _ _ _
      rw [x1, x2, x3]
      omega
    · obtain ⟨e1, e2⟩ := scale_step_nonneg q (by omega)
      rw [← e1, e2]
      have x3 : 10 * j * sD q = j * (10 * sD q) := by
        rw [Nat.mul_comm 10 j, Nat.mul_assoc]
      rw [x3]
      omega
  obtain ⟨k1, k2, k3, k4⟩ := key I.lo2 I.hi2
  have : (inIvl I (q + 1) j = true) ↔ (inIvl I q (10 * j) = true) := by
    rw [inIvl_iff, inIvl_iff]
    split
    · rw [k1, k2]
    · rw [k3, k4]
  cases h1 : inIvl I (q + 1) j <;> cases h2 : inIvl I q (10 * j) <;> simp_all

theorem flo_antitone (I : Ivl) (q : Int) : ∀ n : Nat, flo I (q + n) ≤ flo I q
  | 0 => by simp
  | n + 1 => by
    have : q + ((n + 1 : Nat) : Int) = (q + n) + 1 := by omega
    rw [this, flo_step]
    exact Nat.le_trans (Nat.div_le_self _ _) (flo_antitone I q n)

/-! ### the climb -/

theorem climb_spec (I : Ivl) : ∀ (f : Nat) (q : Int) (k : Nat), pick I q = some k →
    pick I (climb I f q k).1 = some (climb I f q k).2 ∧ q ≤ (climb I f q k).1 ∧
    (climb I f q k).1 ≤ q + f ∧
    ((climb I f q k).1 = q → (climb I f q k).2 = k ∧ (f = 0 ∨ pick I (q + 1) = none))
  | 0, q, k, h => by simp [climb, h]
  | f + 1, q, k, h => by
    simp only [climb]
    cases hp : pick I (q + 1) with
    | none => simp [h]; omega
    | some k' =>
      simp only
      obtain ⟨a, b, c, d⟩ := climb_spec I f (q + 1) k' hp
      refine ⟨a, by omega, by omega, ?_⟩
      intro he; omega

/-! ### the starting exponent -/

theorem W_big (u : Nat) (h : 1 ≤ u) : 10 ^ 36 ≤ (ivl u).v2 * 10 ^ 360 / 2 ^ 1076 := by
  have := ival_pos h
  rw [Nat.le_div_iff_mul_le (Nat.pow_pos (by decide))]
  simp only [ivl]
  have e : 10 ^ 36 * 2 ^ 1076 ≤ 4 * 10 ^ 360 := by decide +kernel
  have : 4 * 10 ^ 360 ≤ 2 * ival u * 10 ^ 360 := Nat.mul_le_mul_right _ (by omega)
  omega

theorem q17_spec (u : Nat) (h : 1 ≤ u) :
    10 ^ 16 ≤ flo (ivl u) (q17 (ivl u)) ∧ flo (ivl u) (q17 (ivl u)) < 10 ^ 17 := by
  have hW := W_big u h
  generalize hI : ivl u = I at *
  have hWp : 0 < I.v2 * 10 ^ 360 / 2 ^ 1076 := Nat.lt_of_lt_of_le (by decide) hW
  have hd : dlenFast (I.v2 * 10 ^ 360 / 2 ^ 1076) = dlen (I.v2 * 10 ^ 360 / 2 ^ 1076) := dlenFast_eq _ hWp
  obtain ⟨s1, s2⟩ := dlen_spec _ hWp
  have hD : 0 < 2 ^ 1076 := Nat.pow_pos (by decide)
  rw [Nat.le_div_iff_mul_le hD] at s1
  rw [Nat.div_lt_iff_lt_mul hD] at s2
  -- at least 37 digits
  have hdl : 37 ≤ dlen (I.v2 * 10 ^ 360 / 2 ^ 1076) := by
    have s2' := (dlen_spec _ hWp).2
    by_cases hc : dlen (I.v2 * 10 ^ 360 / 2 ^ 1076) ≤ 36
    · have : 10 ^ dlen (I.v2 * 10 ^ 360 / 2 ^ 1076) ≤ 10 ^ 36 := Nat.pow_le_pow_right (by decide) hc
      omega
    · omega
  unfold q17 flo
  rw [hd]
  generalize dlen (I.v2 * 10 ^ 360 / 2 ^ 1076) = dl at *
  by_cases hq : (dl : Int) - 377 < 0
  · -- negative exponent: numerator scaled by 10^(377-dl)
    have e1 : sN ((dl : Int) - 377) = 10 ^ (377 - dl) := by
      unfold sN; rw [if_pos hq]; congr 1; omega
    have e2 : sD ((dl : Int) - 377) = 2 ^ 1076 := by unfold sD; rw [if_pos hq]
    rw [e1, e2, Nat.le_div_iff_mul_le hD, Nat.div_lt_iff_lt_mul hD]
    have p1 : 10 ^ 360 = 10 ^ (377 - dl) * 10 ^ (dl - 17) := by
      rw [← Nat.pow_add]; congr 1; omega
    have p2 : 10 ^ (dl - 1) = 10 ^ 16 * 10 ^ (dl - 17) := by
      rw [← Nat.pow_add]; congr 1; omega
    have p3 : 10 ^ dl = 10 ^ 17 * 10 ^ (dl - 17) := by
      rw [← Nat.pow_add]; congr 1; omega
    have hT : 0 < 10 ^ (dl - 17) := Nat.pow_pos (by decide)
    rw [p1, p2] at s1
    rw [p1, p3] at s2
    constructor
    · apply Nat.le_of_mul_le_mul_right _ hT
      calc 10 ^ 16 * 2 ^ 1076 * 10 ^ (dl - 17) = 10 ^ 16 * 10 ^ (dl - 17) * 2 ^ 1076 := by
            rw [Nat.mul_assoc, Nat.mul_comm (2 ^ 1076), ← Nat.mul_assoc]
        _ ≤ I.v2 * (10 ^ (377 - dl) * 10 ^ (dl - 17)) := s1
        _ = I.v2 * 10 ^ (377 - dl) * 10 ^ (dl - 17) := by rw [Nat.mul_assoc]
    · apply Nat.lt_of_mul_lt_mul_right (a := 10 ^ (dl - 17))
      calc I.v2 * 10 ^ (377 - dl) * 10 ^ (dl - 17) = I.v2 * (10 ^ (377 - dl) * 10 ^ (dl - 17)) := by
            rw [Nat.mul_assoc]
        _ < 10 ^ 17 * 10 ^ (dl - 17) * 2 ^ 1076 := s2
        _ = 10 ^ 17 * 2 ^ 1076 * 10 ^ (dl - 17) := by
            rw [Nat.mul_assoc, Nat.mul_comm (10 ^ (dl - 17)), ← Nat.mul_assoc]
  · -- non-negative exponent: denominator scaled by 10^(dl-377)
    have e1 : sN ((dl : Int) - 377) = 1 := by unfold sN; rw [if_neg hq]
    have e2 : sD ((dl : Int) - 377) = 10 ^ (dl - 377) * 2 ^ 1076 := by
      have e : ((dl : Int) - 377).toNat = dl - 377 := by omega
      unfold sD; rw [if_neg hq, e]
    have hP : 0 < 10 ^ (dl - 377) * 2 ^ 1076 := Nat.mul_pos (Nat.pow_pos (by decide)) hD
    rw [e1, e2, Nat.mul_one, Nat.le_div_iff_mul_le hP, Nat.div_lt_iff_lt_mul hP]
    have p2 : 10 ^ (dl - 1) = 10 ^ 16 * 10 ^ (dl - 377) * 10 ^ 360 := by
      rw [← Nat.pow_add, ← Nat.pow_add]; congr 1; omega
    have p3 : 10 ^ dl = 10 ^ 17 * 10 ^ (dl - 377) * 10 ^ 360 := by
      rw [← Nat.pow_add, ← Nat.pow_add]; congr 1; omega
    have hT : 0 < 10 ^ 360 := Nat.pow_pos (by decide)
    rw [p2] at s1
    rw [p3] at s2
    constructor
    · apply Nat.le_of_mul_le_mul_right _ hT
      calc 10 ^ 16 * (10 ^ (dl - 377) * 2 ^ 1076) * 10 ^ 360
            = 10 ^ 16 * 10 ^ (dl - 377) * 10 ^ 360 * 2 ^ 1076 := by
              rw [← Nat.mul_assoc, Nat.mul_assoc _ (2 ^ 1076), Nat.mul_comm (2 ^ 1076), ← Nat.mul_assoc]
        _ ≤ I.v2 * 10 ^ 360 := s1
    · apply Nat.lt_of_mul_lt_mul_right (a := 10 ^ 360)
      calc I.v2 * 10 ^ 360 < 10 ^ 17 * 10 ^ (dl - 377) * 10 ^ 360 * 2 ^ 1076 := s2
        _ = 10 ^ 17 * (10 ^ (dl - 377) * 2 ^ 1076) * 10 ^ 360 := by
              rw [← Nat.mul_assoc, Nat.mul_assoc _ (2 ^ 1076), Nat.mul_comm (2 ^ 1076), ← Nat.mul_assoc]

/-! ### the result -/

/-- **`shortest` is well defined**: for every positive double the result lies in the rounding interval
(`shortest_in_interval`), has at least 1 and at most 17 digits, and its exponent is within 20 of `q17`. -/
theorem shortest_spec (u : Nat) (h : 1 ≤ u) :
    inIvl (ivl u) (shortest u).2 (shortest u).1 = true ∧ 1 ≤ (shortest u).1 ∧ (shortest u).1 < 10 ^ 17 ∧
    q17 (ivl u) ≤ (shortest u).2 ∧ (shortest u).2 ≤ q17 (ivl u) + 20 := by
  have ok := ivl_ok u h
  obtain ⟨b1, b2⟩ := q17_spec u h
  have hs := pick_big (ivl u) ok _ b1
  obtain ⟨k0, hk0⟩ := Option.isSome_iff_exists.mp hs
  obtain ⟨c1, c2, c3, c4⟩ := climb_spec (ivl u) climbFuel _ k0 hk0
  have hsh : shortest u = ((climb (ivl u) climbFuel (q17 (ivl u)) k0).2, (climb (ivl u) climbFuel (q17 (ivl u)) k0).1) := by
    unfold shortest; rw [hk0]; rfl
  rw [hsh]
  generalize climb (ivl u) climbFuel (q17 (ivl u)) k0 = r at *
  obtain ⟨rq, rk⟩ := r
  simp only at *
  have hin := pick_sound (ivl u) ok rq rk c1
  refine ⟨hin, ?_, ?_, c2, by simpa [climbFuel] using c3⟩
  · -- at least one digit: the lower end of the interval is positive
    obtain ⟨w1, _⟩ := inIvl_weak _ _ _ hin
    have : 0 < (ivl u).lo2 * sN rq := Nat.mul_pos ok.lo_pos (sN_pos _)
    by_cases hk : rk = 0
    · subst hk; omega
    · omega
  · -- fewer than 18 digits
    obtain ⟨g1, g2⟩ := pick_ge _ _ _ c1
    by_cases he : rq = q17 (ivl u)
    · obtain ⟨e1, e2⟩ := c4 he
      subst he
      by_cases hk : rk = 10 ^ 17
      · exfalso
        have hstep := inIvl_step (ivl u) (q17 (ivl u)) (10 ^ 16)
        have : 10 * 10 ^ 16 = rk := by rw [hk]
        rw [this, hin] at hstep
        have := pick_complete (ivl u) ok _ _ hstep
        rcases e2 with e2 | e2
        · simp [climbFuel] at e2
        · rw [e2] at this; cases this
      · omega
    · obtain ⟨n, hn⟩ : ∃ n : Nat, rq = (q17 (ivl u) + 1) + n := ⟨(rq - (q17 (ivl u) + 1)).toNat, by omega⟩
      have a1 := flo_antitone (ivl u) (q17 (ivl u) + 1) n
      rw [← hn, flo_step] at a1
      omega

theorem shortest_in_interval (u : Nat) (h : 1 ≤ u) :
    inIvl (ivl u) (shortest u).2 (shortest u).1 = true := (shortest_spec u h).1

theorem shortest_lt (u : Nat) (h : 1 ≤ u) : (shortest u).1 < 10 ^ 17 := (shortest_spec u h).2.2.1

theorem shortest_pos (u : Nat) (h : 1 ≤ u) : 1 ≤ (shortest u).1 := (shortest_spec u h).2.1

end GeosModel.Num
