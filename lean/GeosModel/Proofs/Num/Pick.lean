import GeosModel.Proofs.Num.Ival
/-! `pick`: soundness (the chosen multiple lies in the rounding interval), completeness (if any multiple of
`10^q` lies in the interval one is chosen), and "17 digits suffice". -/
namespace GeosModel.Num

theorem sN_pos (q : Int) : 0 < sN q := by
  unfold sN; split <;> simp [Nat.pow_pos]

theorem sD_pos (q : Int) : 0 < sD q := by
  unfold sD; split
  · exact Nat.pow_pos (by decide)
  · exact Nat.mul_pos (Nat.pow_pos (by decide)) (Nat.pow_pos (by decide))

/-- what the proofs need to know about a rounding interval -/
structure IvlOK (I : Ivl) : Prop where
  lo_pos : 0 < I.lo2
  lo_lt : I.lo2 < I.v2
  lt_hi : I.v2 < I.hi2
  wlo : I.v2 ≤ 18014398509481984 * (I.v2 - I.lo2)
  whi : I.v2 ≤ 18014398509481984 * (I.hi2 - I.v2)

theorem ivl_ok (u : Nat) (h : 1 ≤ u) : IvlOK (ivl u) := by
  have h1 : ival (u - 1) < ival u := ival_strict (by omega)
  have h2 := ival_lt_succ u
  have g1 := gap_below u h
  have g2 := gap_above u h
  have hp := ival_pos h
  constructor <;> simp only [ivl] <;> omega

theorem inIvl_iff (I : Ivl) (q : Int) (k : Nat) : inIvl I q k = true ↔
    (if I.incl then I.lo2 * sN q ≤ k * sD q ∧ k * sD q ≤ I.hi2 * sN q
     else I.lo2 * sN q < k * sD q ∧ k * sD q < I.hi2 * sN q) := by
  unfold inIvl; split <;> simp

/-- strictly inside ⇒ in the interval, whatever the end-point rule -/
theorem inIvl_of_strict (I : Ivl) (q : Int) (k : Nat)
    (h1 : I.lo2 * sN q < k * sD q) (h2 : k * sD q < I.hi2 * sN q) : inIvl I q k = true := by
  rw [inIvl_iff]; split <;> omega

theorem inIvl_weak (I : Ivl) (q : Int) (k : Nat) (h : inIvl I q k = true) :
    I.lo2 * sN q ≤ k * sD q ∧ k * sD q ≤ I.hi2 * sN q := by
  rw [inIvl_iff] at h; split at h <;> omega

theorem flo_spec (I : Ivl) (q : Int) :
    flo I q * sD q + I.v2 * sN q % sD q = I.v2 * sN q := by
  unfold flo
  have := Nat.div_add_mod (I.v2 * sN q) (sD q)
  rw [Nat.mul_comm] at this; exact this

theorem pick_sound (I : Ivl) (ok : IvlOK I) (q : Int) (k : Nat) (h : pick I q = some k) :
    inIvl I q k = true := by
  have hs := flo_spec I q
  have hN := sN_pos q
  have l1 : I.lo2 * sN q < I.v2 * sN q := (Nat.mul_lt_mul_right hN).mpr ok.lo_lt
  have l2 : I.v2 * sN q < I.hi2 * sN q := (Nat.mul_lt_mul_right hN).mpr ok.lt_hi
  unfold pick at h
  simp only at h
  split at h
  · rename_i hr
    injection h with h; subst h
    apply inIvl_of_strict <;> omega
  · split at h
    · rename_i ha hb
      repeat' split at h
      all_goals (injection h with h; subst h; assumption)
    · rename_i ha hb; injection h with h; subst h; exact ha
    · rename_i ha hb; injection h with h; subst h; exact hb
    · cases h

theorem pick_ge (I : Ivl) (q : Int) (k : Nat) (h : pick I q = some k) : flo I q ≤ k ∧ k ≤ flo I q + 1 := by
  unfold pick at h
  simp only at h
  repeat' split at h
  all_goals (first | (injection h with h; omega) | cases h)

theorem inIvl_up (I : Ivl) (q : Int) (j x : Nat) (hj : inIvl I q j = true)
    (h1 : j * sD q ≤ x * sD q) (h2 : x * sD q < I.hi2 * sN q) : inIvl I q x = true := by
  rw [inIvl_iff] at hj ⊢
  cases hi : I.incl <;> simp [hi] at hj ⊢ <;> omega

theorem inIvl_down (I : Ivl) (q : Int) (j x : Nat) (hj : inIvl I q j = true)
    (h1 : x * sD q ≤ j * sD q) (h2 : I.lo2 * sN q < x * sD q) : inIvl I q x = true := by
  rw [inIvl_iff] at hj ⊢
  cases hi : I.incl <;> simp [hi] at hj ⊢ <;> omega

theorem pick_isSome_of (I : Ivl) (q : Int)
    (h : inIvl I q (flo I q) = true ∨ inIvl I q (flo I q + 1) = true) : (pick I q).isSome = true := by
  unfold pick
  simp only
  split
  · rfl
  · split
    · repeat' split
      all_goals rfl
    · rfl
    · rfl
    · rename_i ha hb
      rcases h with h | h
      · rw [h] at ha; cases ha
      · rw [h] at hb; cases hb

/-- if some multiple of `10^q` is in the interval, then `⌊x/10^q⌋` or the next one is -/
theorem pick_complete (I : Ivl) (ok : IvlOK I) (q : Int) (j : Nat) (hj : inIvl I q j = true) :
    (pick I q).isSome = true := by
  have hs := flo_spec I q
  have hD := sD_pos q
  have hN := sN_pos q
  have l1 : I.lo2 * sN q < I.v2 * sN q := (Nat.mul_lt_mul_right hN).mpr ok.lo_lt
  have l2 : I.v2 * sN q < I.hi2 * sN q := (Nat.mul_lt_mul_right hN).mpr ok.lt_hi
  have hr : I.v2 * sN q % sD q < sD q := Nat.mod_lt _ hD
  apply pick_isSome_of
  by_cases hle : j ≤ flo I q
  · left
    have hm : j * sD q ≤ flo I q * sD q := Nat.mul_le_mul_right _ hle
    exact inIvl_up I q j _ hj hm (by omega)
  · right
    have hm : (flo I q + 1) * sD q ≤ j * sD q := Nat.mul_le_mul_right _ (by omega)
    have e : (flo I q + 1) * sD q = flo I q * sD q + sD q := by rw [Nat.add_mul, Nat.one_mul]
    exact inIvl_down I q j _ hj hm (by omega)

/-- **17 digits suffice**: when `x/10^q ≥ 10^16` the nearest multiple of `10^q` is in the rounding interval -/
theorem pick_big (I : Ivl) (ok : IvlOK I) (q : Int) (hbig : 10 ^ 16 ≤ flo I q) : (pick I q).isSome = true := by
  have hs := flo_spec I q
  have hD := sD_pos q
  have hN := sN_pos q
  have hr : I.v2 * sN q % sD q < sD q := Nat.mod_lt _ hD
  have hm : 10 ^ 16 * sD q ≤ flo I q * sD q := Nat.mul_le_mul_right _ hbig
  -- scaled widths
  have w1 : I.v2 * sN q ≤ 18014398509481984 * (I.v2 * sN q - I.lo2 * sN q) := by
    have := Nat.mul_le_mul_right (sN q) ok.wlo
    rw [Nat.mul_assoc, Nat.sub_mul] at this; exact this
  have w2 : I.v2 * sN q ≤ 18014398509481984 * (I.hi2 * sN q - I.v2 * sN q) := by
    have := Nat.mul_le_mul_right (sN q) ok.whi
    rw [Nat.mul_assoc, Nat.sub_mul] at this; exact this
  have e : (flo I q + 1) * sD q = flo I q * sD q + sD q := by rw [Nat.add_mul, Nat.one_mul]
  by_cases half : 2 * (I.v2 * sN q % sD q) ≤ sD q
  · apply pick_complete I ok q (flo I q)
    apply inIvl_of_strict <;> simp at hm <;> omega
  · apply pick_complete I ok q (flo I q + 1)
    apply inIvl_of_strict <;> simp at hm <;> omega

end GeosModel.Num
