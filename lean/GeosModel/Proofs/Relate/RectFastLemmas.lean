import GeosModel.Model.Relate.RectFast
import GeosModel.Proofs.Kernel.SegSegCorrect
import GeosModel.Proofs.Kernel.PolyLocateCorrect
import GeosModel.Proofs.EnvLemmas
/-!
# The rectangle fast path never overlooks a witnessed intersection

Lemmas for Props/C02: every vertex lies in the envelope built from it; two segments that meet have intersecting
envelopes, hence so have the boxes around them — so none of the envelope pre-filters of
`RectangleIntersects::intersects` can discard a crossing or a contained corner.
-/
namespace GeosModel.RectFast
open GeosModel GeosModel.Kernel GeosModel.SegSeg GeosModel.PolyLocate

/-- closed box membership -/
def BoxHas (b : Box) (p : Pt) : Prop := b.minx ≤ p.x ∧ p.x ≤ b.maxx ∧ b.miny ≤ p.y ∧ p.y ≤ b.maxy

theorem containsPt_iff (b : Box) (p : Pt) : Env.containsPt (some b) p.x p.y = true ↔ BoxHas b p := by
  simp [Env.containsPt, BoxHas, and_assoc]

theorem containsPt_some {e : Env} {p : Pt} (h : Env.containsPt e p.x p.y = true) : ∃ b, e = some b ∧ BoxHas b p := by
  cases e with
  | none => simp [Env.containsPt] at h
  | some b => exact ⟨b, rfl, (containsPt_iff b p).mp h⟩

/-- every vertex lies in the envelope expanded over the vertices -/
theorem envOfPts_mem : ∀ (l : List Pt) (p : Pt), p ∈ l → ∃ b, envOfPts l = some b ∧ BoxHas b p
  | [], p, h => by simp at h
  | q :: r, p, h => by
    unfold envOfPts
    cases hr : envOfPts r with
    | none =>
      simp only [Env.union]
      rcases List.mem_cons.mp h with rfl | h'
      · exact ⟨boxOf p, rfl, by simp [BoxHas, boxOf]⟩
      · obtain ⟨b, hb, _⟩ := envOfPts_mem r p h'
        rw [hr] at hb; cases hb
    | some o =>
      simp only [Env.union]
      refine ⟨_, rfl, ?_⟩
      rcases List.mem_cons.mp h with rfl | h'
      · simp only [BoxHas, boxOf]
        refine ⟨?_, ?_, ?_, ?_⟩ <;> split_ifs <;> omega
      · obtain ⟨b, hb, h1, h2, h3, h4⟩ := envOfPts_mem r p h'
        rw [hr] at hb; cases hb
        simp only [BoxHas, boxOf]
        refine ⟨?_, ?_, ?_, ?_⟩ <;> split_ifs <;> omega

theorem inter_of_common {A B : Box} {p : Pt} (ha : BoxHas A p) (hb : BoxHas B p) : Env.inter (some A) (some B) = true := by
  obtain ⟨a1, a2, a3, a4⟩ := ha
  obtain ⟨b1, b2, b3, b4⟩ := hb
  simp only [Env.inter, Bool.and_eq_true, decide_eq_true_eq]
  omega

/-- boxes around two segments whose envelopes intersect -/
theorem inter_of_segEnv {A B : Box} {a b c d : Pt} (ha : BoxHas A a) (hb : BoxHas A b) (hc : BoxHas B c) (hd : BoxHas B d)
    (h : envIntersects a b c d = true) : Env.inter (some A) (some B) = true := by
  rw [envIntersects_iff] at h
  obtain ⟨a1, a2, a3, a4⟩ := ha
  obtain ⟨b1, b2, b3, b4⟩ := hb
  obtain ⟨c1, c2, c3, c4⟩ := hc
  obtain ⟨d1, d2, d3, d4⟩ := hd
  simp only [Env.inter, Bool.and_eq_true, decide_eq_true_eq]
  omega

theorem classify_disjoint_of_code_zero (r : LI) (h : r.code = 0) : r.classify = .disjoint := by
  unfold LI.classify; rw [h]; rfl

/-- `hasIntersection()` is exactly "the closed segments share a point" -/
theorem segHas_iff (a b c d : Pt) : segHas a b c d = true ↔ segRel a b c d ≠ .disjoint := by
  unfold segHas
  rw [← classify_eq_segRel]
  constructor
  · intro h hd
    have hne : (computeIntersect a b c d).code ≠ 0 := by simpa using h
    unfold LI.classify at hd
    split at hd
    · rename_i h0; exact hne h0
    · cases hd
    · split at hd <;> [(split at hd <;> cases hd); cases hd]
  · intro h
    have : (computeIntersect a b c d).code ≠ 0 := fun h0 => h (classify_disjoint_of_code_zero _ h0)
    simpa using this

theorem segHas_env {a b c d : Pt} (h : segHas a b c d = true) : envIntersects a b c d = true := by
  by_contra hn
  have hf : envIntersects a b c d = false := by simpa using hn
  exact (segHas_iff a b c d).mp h (segRel_disjoint_of_not_env hf)

theorem inter_geomEnv (re : Env) : ∀ (g : List Elem) (e : Elem), e ∈ g → Env.inter re e.env = true → Env.inter re (geomEnv g) = true
  | [], e, h, _ => by simp at h
  | x :: r, e, h, hi => by
    unfold geomEnv
    rw [Env.inter_comm]
    rcases List.mem_cons.mp h with rfl | h'
    · exact Env.inter_union_left _ _ _ (by rw [Env.inter_comm]; exact hi)
    · exact Env.inter_union_right _ _ _ (by rw [Env.inter_comm]; exact inter_geomEnv re r e h' hi)

/-- the bounding-box test of `PolyLocate` is membership in the envelope of the vertices -/
theorem envContains_box {l : List Pt} {p : Pt} (h : envContains l p = true) : ∃ b, envOfPts l = some b ∧ BoxHas b p := by
  unfold envContains at h
  simp only [Bool.and_eq_true, List.any_eq_true, decide_eq_true_eq] at h
  obtain ⟨⟨⟨⟨v1, m1, h1⟩, ⟨v2, m2, h2⟩⟩, ⟨v3, m3, h3⟩⟩, ⟨v4, m4, h4⟩⟩ := h
  obtain ⟨b, hb, b1⟩ := envOfPts_mem l v1 m1
  obtain ⟨b', hb', b2⟩ := envOfPts_mem l v2 m2
  obtain ⟨b'', hb'', b3⟩ := envOfPts_mem l v3 m3
  obtain ⟨b''', hb''', b4⟩ := envOfPts_mem l v4 m4
  rw [hb] at hb' hb'' hb'''
  cases hb'; cases hb''; cases hb'''
  refine ⟨b, hb, ?_⟩
  unfold BoxHas at *
  omega

theorem covers_has {A B : Box} {p : Pt} (h : Env.covers (some A) (some B) = true) (hp : BoxHas B p) : BoxHas A p := by
  simp only [Env.covers, Bool.and_eq_true, decide_eq_true_eq] at h
  unfold BoxHas at *
  omega

end GeosModel.RectFast
