import Mathlib.Tactic.Ring
import Mathlib.Tactic.Linarith
import Mathlib.Tactic.SplitIfs
import GeosModel.Proofs.Tri.Chain
/-! Winding numbers by signed ray crossings, over `Int`.

`wind p e` is the signed crossing of the ray from `p` towards +x with the directed edge `e` (half-open rule
on y, so vertices are counted once).  It is antisymmetric in the edge, additive under splitting an edge at
collinear interior points (for `p` off the edge's line), and its sum over the three edges of a positively
oriented triangle is `1` for points strictly inside and `0` for points strictly outside (`wind_tri`).
With `chainEq_sum` this gives: under the edge-pairing certificate, for every point `p` in general position
the number of triangles containing `p` equals the winding number of the region's boundary chain around `p`. -/
namespace GeosModel.Tri
open GeosModel.Kernel

/-- signed crossing for an edge with end heights `yu`, `yv` relative to the ray and orientation value `δ` -/
def wsgn (yu yv δ : Int) : Int :=
  if yu ≤ 0 ∧ 0 < yv then (if 0 < δ then 1 else 0) else if yv ≤ 0 ∧ 0 < yu then (if δ < 0 then -1 else 0) else 0

def wind (p : Pt) (e : Edge) : Int := wsgn (e.1.y - p.y) (e.2.y - p.y) (Kernel.det e.1 e.2 p)

theorem w_up (yu yv δ : Int) (h1 : yu ≤ 0) (h2 : 0 < yv) (h3 : 0 < δ) : wsgn yu yv δ = 1 := by simp [wsgn, h1, h2, h3]
theorem w_up' (yu yv δ : Int) (h1 : yu ≤ 0) (h2 : 0 < yv) (h3 : δ < 0) : wsgn yu yv δ = 0 := by
  have : ¬ 0 < δ := by omega
  simp [wsgn, h1, h2, this]
theorem w_down (yu yv δ : Int) (h1 : 0 < yu) (h2 : yv ≤ 0) (h3 : δ < 0) : wsgn yu yv δ = -1 := by
  have : ¬ yu ≤ 0 := by omega
  simp [wsgn, h1, h2, h3, this]
theorem w_down' (yu yv δ : Int) (h1 : 0 < yu) (h2 : yv ≤ 0) (h3 : 0 < δ) : wsgn yu yv δ = 0 := by
  have h4 : ¬ yu ≤ 0 := by omega
  have h5 : ¬ δ < 0 := by omega
  simp [wsgn, h1, h2, h4, h5]
theorem w_hi (yu yv δ : Int) (h1 : 0 < yu) (h2 : 0 < yv) : wsgn yu yv δ = 0 := by
  have h3 : ¬ yu ≤ 0 := by omega
  have h4 : ¬ yv ≤ 0 := by omega
  simp [wsgn, h3, h4]
theorem w_lo (yu yv δ : Int) (h1 : yu ≤ 0) (h2 : yv ≤ 0) : wsgn yu yv δ = 0 := by
  have h3 : ¬ 0 < yu := by omega
  have h4 : ¬ 0 < yv := by omega
  simp [wsgn, h3, h4]

theorem wsgn_swap (yu yv δ : Int) : wsgn yv yu (-δ) = - wsgn yu yv δ := by
  unfold wsgn; split_ifs <;> omega

theorem wind_swap (p : Pt) (e : Edge) : wind p (swap e) = - wind p e := by
  have h : Kernel.det e.2 e.1 p = - Kernel.det e.1 e.2 p := by simp only [Kernel.det]; ring
  simp only [wind, swap, h, wsgn_swap]

/-! ### one positively oriented triangle -/

theorem wind_lhh (α β γ ya yb yc : Int) (hα : α ≠ 0) (hβ : β ≠ 0) (hγ : γ ≠ 0) (hD : 0 < α + β + γ)
    (hstar : α * ya + β * yb + γ * yc = 0) (ha : ya ≤ 0) (hb : 0 < yb) (hc : 0 < yc) :
    wsgn ya yb γ + wsgn yb yc α + wsgn yc ya β = if 0 < α ∧ 0 < β ∧ 0 < γ then 1 else 0 := by
  rw [w_hi yb yc α hb hc]
  have a1 : 0 < α → α * ya ≤ 0 := fun h => Int.mul_nonpos_of_nonneg_of_nonpos (by omega) ha
  have a2 : α < 0 → 0 ≤ α * ya := fun h => Int.mul_nonneg_of_nonpos_of_nonpos (by omega) ha
  have b1 : 0 < β → 0 < β * yb := fun h => Int.mul_pos h hb
  have b2 : β < 0 → β * yb < 0 := fun h => Int.mul_neg_of_neg_of_pos h hb
  have c1 : 0 < γ → 0 < γ * yc := fun h => Int.mul_pos h hc
  have c2 : γ < 0 → γ * yc < 0 := fun h => Int.mul_neg_of_neg_of_pos h hc
  generalize α * ya = pa at *
  generalize β * yb = pb at *
  generalize γ * yc = pc at *
  have tβ : 0 < β ∨ β < 0 := by omega
  have tγ : 0 < γ ∨ γ < 0 := by omega
  rcases tβ with sβ | sβ <;> rcases tγ with sγ | sγ
  · rw [w_up ya yb γ ha hb sγ, w_down' yc ya β hc ha sβ]; split <;> omega
  · rw [w_up' ya yb γ ha hb sγ, w_down' yc ya β hc ha sβ]; split <;> omega
  · rw [w_up ya yb γ ha hb sγ, w_down yc ya β hc ha sβ]; split <;> omega
  · rw [w_up' ya yb γ ha hb sγ, w_down yc ya β hc ha sβ]; split <;> omega

theorem wind_hll (α β γ ya yb yc : Int) (hα : α ≠ 0) (hβ : β ≠ 0) (hγ : γ ≠ 0) (hD : 0 < α + β + γ)
    (hstar : α * ya + β * yb + γ * yc = 0) (ha : 0 < ya) (hb : yb ≤ 0) (hc : yc ≤ 0) :
    wsgn ya yb γ + wsgn yb yc α + wsgn yc ya β = if 0 < α ∧ 0 < β ∧ 0 < γ then 1 else 0 := by
  rw [w_lo yb yc α hb hc]
  have a1 : 0 < α → 0 < α * ya := fun h => Int.mul_pos h ha
  have a2 : α < 0 → α * ya < 0 := fun h => Int.mul_neg_of_neg_of_pos h ha
  have b1 : 0 < β → β * yb ≤ 0 := fun h => Int.mul_nonpos_of_nonneg_of_nonpos (by omega) hb
  have b2 : β < 0 → 0 ≤ β * yb := fun h => Int.mul_nonneg_of_nonpos_of_nonpos (by omega) hb
  have c1 : 0 < γ → γ * yc ≤ 0 := fun h => Int.mul_nonpos_of_nonneg_of_nonpos (by omega) hc
  have c2 : γ < 0 → 0 ≤ γ * yc := fun h => Int.mul_nonneg_of_nonpos_of_nonpos (by omega) hc
  generalize α * ya = pa at *
  generalize β * yb = pb at *
  generalize γ * yc = pc at *
  have tβ : 0 < β ∨ β < 0 := by omega
  have tγ : 0 < γ ∨ γ < 0 := by omega
  rcases tβ with sβ | sβ <;> rcases tγ with sγ | sγ
  · rw [w_down' ya yb γ ha hb sγ, w_up yc ya β hc ha sβ]; split <;> omega
  · rw [w_down ya yb γ ha hb sγ, w_up yc ya β hc ha sβ]; split <;> omega
  · rw [w_down' ya yb γ ha hb sγ, w_up' yc ya β hc ha sβ]; split <;> omega
  · rw [w_down ya yb γ ha hb sγ, w_up' yc ya β hc ha sβ]; split <;> omega

theorem wind_hhh (α β γ ya yb yc : Int) (hstar : α * ya + β * yb + γ * yc = 0) (ha : 0 < ya) (hb : 0 < yb) (hc : 0 < yc) :
    wsgn ya yb γ + wsgn yb yc α + wsgn yc ya β = if 0 < α ∧ 0 < β ∧ 0 < γ then 1 else 0 := by
  rw [w_hi ya yb γ ha hb, w_hi yb yc α hb hc, w_hi yc ya β hc ha]
  have a1 : 0 < α → 0 < α * ya := fun h => Int.mul_pos h ha
  have b1 : 0 < β → 0 < β * yb := fun h => Int.mul_pos h hb
  have c1 : 0 < γ → 0 < γ * yc := fun h => Int.mul_pos h hc
  generalize α * ya = pa at *
  generalize β * yb = pb at *
  generalize γ * yc = pc at *
  split <;> omega

theorem wind_lll (α β γ ya yb yc : Int) (hD : 0 < α + β + γ) (hstar : α * ya + β * yb + γ * yc = 0)
    (hdeg : ya = yb → yb = yc → α + β + γ = 0) (ha : ya ≤ 0) (hb : yb ≤ 0) (hc : yc ≤ 0) :
    wsgn ya yb γ + wsgn yb yc α + wsgn yc ya β = if 0 < α ∧ 0 < β ∧ 0 < γ then 1 else 0 := by
  rw [w_lo ya yb γ ha hb, w_lo yb yc α hb hc, w_lo yc ya β hc ha]
  split
  · next h =>
    obtain ⟨h1, h2, h3⟩ := h
    exfalso
    have z : ∀ (c y : Int), 0 < c → y ≤ 0 → c * y ≤ 0 ∧ (c * y = 0 → y = 0) := by
      intro c y hc' hy
      refine ⟨Int.mul_nonpos_of_nonneg_of_nonpos (by omega) hy, fun h0 => ?_⟩
      rcases Int.mul_eq_zero.mp h0 with h | h
      · omega
      · exact h
    obtain ⟨a1, a2⟩ := z α ya h1 ha
    obtain ⟨b1, b2⟩ := z β yb h2 hb
    obtain ⟨c1, c2⟩ := z γ yc h3 hc
    generalize α * ya = pa at *
    generalize β * yb = pb at *
    generalize γ * yc = pc at *
    have e1 : ya = 0 := a2 (by omega)
    have e2 : yb = 0 := b2 (by omega)
    have e3 : yc = 0 := c2 (by omega)
    have := hdeg (by omega) (by omega)
    omega
  · omega

/-- the crossing count of a positively oriented "abstract triangle": `α β γ` the three edge determinants of
the query point, `ya yb yc` the corner heights relative to it -/
theorem wind_tri_abstract (α β γ ya yb yc : Int) (hα : α ≠ 0) (hβ : β ≠ 0) (hγ : γ ≠ 0) (hD : 0 < α + β + γ)
    (hstar : α * ya + β * yb + γ * yc = 0) (hdeg : ya = yb → yb = yc → α + β + γ = 0) :
    wsgn ya yb γ + wsgn yb yc α + wsgn yc ya β = if 0 < α ∧ 0 < β ∧ 0 < γ then 1 else 0 := by
  by_cases ha : 0 < ya <;> by_cases hb : 0 < yb <;> by_cases hc : 0 < yc <;> (try simp only [Int.not_lt] at ha hb hc)
  · exact wind_hhh α β γ ya yb yc hstar ha hb hc
  · -- (hi,hi,lo): rotate twice -> (lo,hi,hi)
    have := wind_lhh γ α β yc ya yb hγ hα hβ (by omega) (by linarith) hc ha hb
    split at this <;> split <;> omega
  · -- (hi,lo,hi): rotate once -> (lo,hi,hi)
    have := wind_lhh β γ α yb yc ya hβ hγ hα (by omega) (by linarith) hb hc ha
    split at this <;> split <;> omega
  · exact wind_hll α β γ ya yb yc hα hβ hγ hD hstar ha hb hc
  · exact wind_lhh α β γ ya yb yc hα hβ hγ hD hstar ha hb hc
  · -- (lo,hi,lo): rotate once -> (hi,lo,lo)
    have := wind_hll β γ α yb yc ya hβ hγ hα (by omega) (by linarith) hb hc ha
    split at this <;> split <;> omega
  · -- (lo,lo,hi): rotate twice -> (hi,lo,lo)
    have := wind_hll γ α β yc ya yb hγ hα hβ (by omega) (by linarith) hc ha hb
    split at this <;> split <;> omega
  · exact wind_lll α β γ ya yb yc hD hstar hdeg ha hb hc

/-- `p` is in general position w.r.t. edge `e`: not on its line -/
def OffLine (p : Pt) (e : Edge) : Prop := Kernel.det e.1 e.2 p ≠ 0

/-- **a positively oriented triangle has winding number 1 about its strictly interior points and 0 about
points strictly outside** (points on none of the three edge lines) -/
theorem wind_tri (t : Tri) (p : Pt) (ht : 0 < t.det) (hp : ∀ e ∈ t.edges, OffLine p e) :
    sumInt (t.edges.map (wind p)) =
      if 0 < Kernel.det t.a t.b p ∧ 0 < Kernel.det t.b t.c p ∧ 0 < Kernel.det t.c t.a p then 1 else 0 := by
  have h1 : Kernel.det t.a t.b p ≠ 0 := hp (t.a, t.b) (by simp [Tri.edges])
  have h2 : Kernel.det t.b t.c p ≠ 0 := hp (t.b, t.c) (by simp [Tri.edges])
  have h3 : Kernel.det t.c t.a p ≠ 0 := hp (t.c, t.a) (by simp [Tri.edges])
  have hsum : Kernel.det t.b t.c p + Kernel.det t.c t.a p + Kernel.det t.a t.b p = t.det := by
    simp only [Kernel.det, Tri.det]; ring
  have hstar : Kernel.det t.b t.c p * (t.a.y - p.y) + Kernel.det t.c t.a p * (t.b.y - p.y) +
      Kernel.det t.a t.b p * (t.c.y - p.y) = 0 := by
    simp only [Kernel.det]; ring
  have hdeg : t.a.y - p.y = t.b.y - p.y → t.b.y - p.y = t.c.y - p.y →
      Kernel.det t.b t.c p + Kernel.det t.c t.a p + Kernel.det t.a t.b p = 0 := by
    intro e1 e2
    have e1' : t.a.y = t.b.y := by omega
    have e2' : t.b.y = t.c.y := by omega
    rw [hsum]; simp only [Tri.det, Kernel.det, e1', e2']; ring
  have := wind_tri_abstract (Kernel.det t.b t.c p) (Kernel.det t.c t.a p) (Kernel.det t.a t.b p)
    (t.a.y - p.y) (t.b.y - p.y) (t.c.y - p.y) h2 h3 h1 (by omega) hstar hdeg
  simp only [Tri.edges, List.map_cons, List.map_nil, sumInt_cons, wind]
  have z : sumInt ([] : List Int) = 0 := rfl
  rw [z]
  split at this <;> split <;> omega

/-! ### splitting an edge at collinear points -/

theorem line_identity (a b u v p : Pt) :
    (b.y - a.y) * Kernel.det u v p =
      (v.y - u.y) * (Kernel.det a b p - Kernel.det a b u) - (p.y - u.y) * (Kernel.det a b v - Kernel.det a b u) := by
  simp only [Kernel.det]; ring

theorem sign_lemma (wy δ Δ D : Int) (h : wy * δ = Δ * D) (hΔ : 0 < Δ) (hD : D ≠ 0) :
    δ ≠ 0 ∧ (0 < δ ↔ 0 < wy * D) := by
  have hw : wy ≠ 0 := by
    intro h0; rw [h0] at h; simp at h
    rcases h with h | h <;> omega
  have hδ : δ ≠ 0 := by
    intro h0; rw [h0] at h; simp at h
    rcases h with h | h <;> omega
  have h2 : (wy * wy) * δ = Δ * (wy * D) := by
    have : (wy * wy) * δ = wy * (wy * δ) := by ring
    rw [this, h]; ring
  have hww : 0 < wy * wy := by
    rcases Int.lt_or_gt_of_ne hw with h | h
    · exact Int.mul_pos_of_neg_of_neg h h
    · exact Int.mul_pos h h
  refine ⟨hδ, fun hp => ?_, fun hk => ?_⟩
  · have : 0 < (wy * wy) * δ := Int.mul_pos hww hp
    rw [h2] at this
    by_contra hle
    have : Δ * (wy * D) ≤ 0 := Int.mul_nonpos_of_nonneg_of_nonpos (by omega) (by omega)
    omega
  · have : 0 < Δ * (wy * D) := Int.mul_pos hΔ hk
    rw [← h2] at this
    by_contra hle
    have : (wy * wy) * δ ≤ 0 := Int.mul_nonpos_of_nonneg_of_nonpos (by omega) (by omega)
    omega

/-- potential of the telescoping sum along the line through `a`,`b` -/
def gpot (a b p x : Pt) : Int := if 0 < (b.y - a.y) * Kernel.det a b p ∧ 0 < x.y - p.y then 1 else 0

/-- for `u`,`v` on the line through `a`,`b` and `p` off that line, the crossing of `(u,v)` is a difference of potentials -/
theorem wind_on_line (a b u v p : Pt) (hu : Kernel.det a b u = 0) (hv : Kernel.det a b v = 0)
    (hp : Kernel.det a b p ≠ 0) : wind p (u, v) = gpot a b p v - gpot a b p u := by
  have hid := line_identity a b u v p
  rw [hu, hv] at hid
  simp only [Int.sub_zero, Int.mul_zero] at hid
  simp only [wind]
  by_cases hyu : 0 < u.y - p.y <;> by_cases hyv : 0 < v.y - p.y <;> (try simp only [Int.not_lt] at hyu hyv)
  · rw [w_hi _ _ _ hyu hyv]; simp only [gpot]; split_ifs <;> omega
  · -- downward edge
    have hid' : (b.y - a.y) * (- Kernel.det u v p) = (u.y - v.y) * Kernel.det a b p := by
      have : (b.y - a.y) * (- Kernel.det u v p) = - ((b.y - a.y) * Kernel.det u v p) := by ring
      rw [this, hid]; ring
    obtain ⟨hne, hiff⟩ := sign_lemma _ _ _ _ hid' (by omega) hp
    by_cases hk : 0 < (b.y - a.y) * Kernel.det a b p
    · have hneg : Kernel.det u v p < 0 := by have := hiff.mpr hk; omega
      rw [w_down _ _ _ hyu hyv hneg]; simp only [gpot]; split_ifs <;> omega
    · have hpos : 0 < Kernel.det u v p := by
        have : ¬ 0 < - Kernel.det u v p := fun h => hk (hiff.mp h)
        omega
      rw [w_down' _ _ _ hyu hyv hpos]; simp only [gpot]; split_ifs <;> omega
  · -- upward edge
    obtain ⟨hne, hiff⟩ := sign_lemma _ _ _ _ hid (by omega) hp
    by_cases hk : 0 < (b.y - a.y) * Kernel.det a b p
    · rw [w_up _ _ _ hyu hyv (hiff.mpr hk)]; simp only [gpot]; split_ifs <;> omega
    · have hneg : Kernel.det u v p < 0 := by
        have : ¬ 0 < Kernel.det u v p := fun h => hk (hiff.mp h)
        omega
      rw [w_up' _ _ _ hyu hyv hneg]; simp only [gpot]; split_ifs <;> omega
  · rw [w_lo _ _ _ hyu hyv]; simp only [gpot]; split_ifs <;> omega

theorem path_wind (a b p : Pt) (hp : Kernel.det a b p ≠ 0) :
    ∀ (l : List Pt) (u : Pt), Kernel.det a b u = 0 → (∀ q ∈ l, Kernel.det a b q = 0) →
      sumInt ((Kernel.edges (u :: (l ++ [b]))).map (wind p)) = gpot a b p b - gpot a b p u := by
  intro l
  induction l with
  | nil =>
    intro u hu _
    have hb : Kernel.det a b b = 0 := by simp only [Kernel.det]; ring
    simp only [List.nil_append, Kernel.edges, List.map_cons, List.map_nil, sumInt_cons]
    rw [wind_on_line a b u b p hu hb hp]
    show _ + (0 : Int) = _
    ring
  | cons v r ih =>
    intro u hu hl
    have hv : Kernel.det a b v = 0 := hl v (by simp)
    simp only [List.cons_append, Kernel.edges, List.map_cons, sumInt_cons]
    rw [ih v hv (fun q hq => hl q (by simp [hq])), wind_on_line a b u v p hu hv hp]
    ring

/-- splitting an edge at interior vertices preserves the crossing number (point off the edge's line) -/
theorem splitEdge_wind (V : List Pt) (e : Edge) (p : Pt) (hp : OffLine p e) :
    sumInt ((splitEdge V e).map (wind p)) = wind p e := by
  simp only [splitEdge]
  split
  · simp [sumInt]
  · have haa : Kernel.det e.1 e.2 e.1 = 0 := by simp only [Kernel.det]; ring
    have hbb : Kernel.det e.1 e.2 e.2 = 0 := by simp only [Kernel.det]; ring
    rw [path_wind e.1 e.2 p hp _ e.1 haa]
    · exact (wind_on_line e.1 e.2 e.1 e.2 p haa hbb hp).symm
    · intro q hq
      rw [mem_isortBy] at hq
      have := (List.mem_filter.mp hq).2
      simp only [strictlyInside, Bool.and_eq_true] at this
      exact onSegment_det _ _ _ this.1.1

theorem elemEdges_wind (V : List Pt) (es : List Edge) (p : Pt) (hp : ∀ e ∈ es, OffLine p e) :
    sumInt ((elemEdges V es).map (wind p)) = sumInt (es.map (wind p)) := by
  simp only [elemEdges]
  induction es with
  | nil => simp
  | cons e r ih =>
    simp only [List.flatMap_cons, List.map_append, sumInt_append, List.map_cons, sumInt_cons]
    rw [ih (fun e' he' => hp e' (List.mem_cons_of_mem _ he')), splitEdge_wind (dedup V) e p (hp e (List.mem_cons_self))]

/-- number of triangles of the list that contain `p` strictly -/
def countIn (ts : List Tri) (p : Pt) : Int :=
  sumInt (ts.map (fun t => if 0 < Kernel.det t.a t.b p ∧ 0 < Kernel.det t.b t.c p ∧ 0 < Kernel.det t.c t.a p then 1 else 0))

theorem triEdges_wind (ts : List Tri) (p : Pt) (hpos : ∀ t ∈ ts, 0 < t.det) (hp : ∀ e ∈ triEdges ts, OffLine p e) :
    sumInt ((triEdges ts).map (wind p)) = countIn ts p := by
  induction ts with
  | nil => simp [triEdges, countIn]
  | cons t r ih =>
    have hpt : ∀ e ∈ t.edges, OffLine p e := fun e he => hp e (by simp only [triEdges, List.flatMap_cons]; exact List.mem_append_left _ he)
    have hpr : ∀ e ∈ triEdges r, OffLine p e := fun e he => hp e (by simp only [triEdges, List.flatMap_cons] at he ⊢; exact List.mem_append_right _ he)
    have ih' := ih (fun t' ht' => hpos t' (List.mem_cons_of_mem _ ht')) hpr
    simp only [triEdges, List.flatMap_cons, countIn] at ih' ⊢
    simp only [List.map_append, sumInt_append, List.map_cons, sumInt_cons, ih']
    rw [wind_tri t p (hpos t (List.mem_cons_self)) hpt]

/-- **edge pairing ⇒ covering count.**  If the elementary boundary chain of positively oriented triangles
equals the elementary chain of `B`, then for every point `p` on none of the edge lines, the number of
triangles strictly containing `p` equals the winding number (signed crossing number) of `B` about `p`. -/
theorem chainEq_count (V : List Pt) (ts : List Tri) (B : List Edge) (p : Pt)
    (h : chainEq (elemEdges V (triEdges ts)) (elemEdges V B) = true)
    (hpos : ∀ t ∈ ts, 0 < t.det)
    (hpT : ∀ e ∈ triEdges ts, OffLine p e) (hpB : ∀ e ∈ B, OffLine p e) :
    countIn ts p = sumInt (B.map (wind p)) := by
  have := chainEq_sum (wind p) (wind_swap p) _ _ h
  rw [elemEdges_wind V _ p hpT, elemEdges_wind V _ p hpB, triEdges_wind ts p hpos hpT] at this
  exact this

end GeosModel.Tri
