import Mathlib.Tactic.Ring
import Mathlib.Tactic.Linarith
import GeosModel.Base.Kernel
/-! The in-circle determinant and the circumcircle: exact statement over `Int`.

For a non-degenerate triangle `(a,b,c)` with `D = det a b c`, the circumcentre is the rational point
`O = a + (ccX, ccY) / (2 D)`.  `circDist a b c p = (2D)² · |p − O|²` is the squared distance from `p` to `O`
cross-multiplied into `Int`. -/
namespace GeosModel.Tri
open GeosModel.Kernel

def ccX (a b c : Pt) : Int :=
  (c.y - a.y) * ((b.x - a.x) * (b.x - a.x) + (b.y - a.y) * (b.y - a.y)) -
  (b.y - a.y) * ((c.x - a.x) * (c.x - a.x) + (c.y - a.y) * (c.y - a.y))

def ccY (a b c : Pt) : Int :=
  (b.x - a.x) * ((c.x - a.x) * (c.x - a.x) + (c.y - a.y) * (c.y - a.y)) -
  (c.x - a.x) * ((b.x - a.x) * (b.x - a.x) + (b.y - a.y) * (b.y - a.y))

/-- `(2 det a b c)² · |p − O|²`, `O` the circumcentre of `(a,b,c)` -/
def circDist (a b c p : Pt) : Int :=
  (2 * det a b c * (p.x - a.x) - ccX a b c) * (2 * det a b c * (p.x - a.x) - ccX a b c) +
  (2 * det a b c * (p.y - a.y) - ccY a b c) * (2 * det a b c * (p.y - a.y) - ccY a b c)

/-- `O` is equidistant from the three corners: it is the circumcentre -/
theorem circDist_b (a b c : Pt) : circDist a b c b = circDist a b c a := by
  simp only [circDist, ccX, ccY, det]; ring

theorem circDist_c (a b c : Pt) : circDist a b c c = circDist a b c a := by
  simp only [circDist, ccX, ccY, det]; ring

/-- the lifted-paraboloid identity: (R² − |p−O|²)·(2D)² = 4 D · inCircleDet -/
theorem circ_identity (a b c p : Pt) :
    circDist a b c a - circDist a b c p = 4 * det a b c * inCircleDet a b c p := by
  simp only [circDist, ccX, ccY, det, inCircleDet]; ring

end GeosModel.Tri
