import Mathlib.Tactic.Linarith
import Mathlib.Tactic.Positivity
import GeosModel.Model.Tri.Predicates
/-! Lemmas about the filtered in-circle test of `Model/Tri/Predicates.lean`: the error bound is non-negative, so a decided
answer has the sign of the exact determinant. -/
namespace GeosModel.Tri
open GeosModel.Kernel

theorem absR_nonneg (x : Rat) : 0 ≤ absR x := by unfold absR; split <;> linarith

theorem inCircleEps_pos : 0 < inCircleEps := by unfold inCircleEps; positivity

/-- the error bound is never negative -/
theorem robustErr_nonneg (a b c d : Pt) : 0 ≤ robustErr a b c d := by
  unfold robustErr
  have := inCircleEps_pos
  have h (x : Rat) := absR_nonneg x
  simp only []
  apply mul_nonneg _ (le_of_lt this)
  apply add_nonneg <;> apply mul_nonneg <;> apply add_nonneg <;> apply h

/-- with a non-negative bound a decided answer has the sign of the value -/
theorem filteredLoc_sound (v : Int) (err : Rat) (h : 0 ≤ err) :
    (filteredLoc v err = .I → 0 < v) ∧ (filteredLoc v err = .E → v < 0) := by
  unfold filteredLoc
  constructor
  · intro hI
    split at hI
    · have : (0 : Rat) < (v : Rat) := by linarith
      exact_mod_cast this
    · split at hI <;> cases hI
  · intro hE
    split at hE
    · cases hE
    · split at hE
      · have : (v : Rat) < 0 := by linarith
        exact_mod_cast this
      · cases hE

/-- the three cases of the exact in-circle answer -/
theorem inCircleLoc_cases (a b c p : Pt) :
    (0 < inCircleDet a b c p ∧ inCircleLoc a b c p = .I) ∨ (inCircleDet a b c p = 0 ∧ inCircleLoc a b c p = .B) ∨
    (inCircleDet a b c p < 0 ∧ inCircleLoc a b c p = .E) := by
  unfold inCircleLoc
  rcases Int.lt_trichotomy 0 (inCircleDet a b c p) with h | h | h
  · left; simp [h]
  · right; left; simp [← h]
  · right; right
    have n1 : ¬ 0 < inCircleDet a b c p := by omega
    have n2 : ¬ inCircleDet a b c p = 0 := by omega
    simp [n1, n2, h]

/-- the three cases of a filtered sign test -/
theorem filteredLoc_cases (v err : Rat) :
    (err < v ∧ filteredLoc v err = .I) ∨ (v ≤ err ∧ v < -err ∧ filteredLoc v err = .E) ∨
    (v ≤ err ∧ -err ≤ v ∧ filteredLoc v err = .B) := by
  unfold filteredLoc
  by_cases h1 : err < v
  · left; simp [h1]
  · by_cases h2 : v < -err
    · right; left; exact ⟨by linarith, h2, by simp [h1, h2]⟩
    · right; right; exact ⟨by linarith, by linarith, by simp [h1, h2]⟩

end GeosModel.Tri
