import GeosModel.Proofs.Tri.Winding
import GeosModel.Proofs.Tri.Sound
import GeosModel.Proofs.Tri.Separated
/-! The winding number of a certified hull boundary.

For a hull `H` accepted by `hullOK` (strictly convex, counter-clockwise, fan from the first vertex positively
oriented and pairwise separated) and a point `p` in general position (on no hull-edge line and no fan-diagonal
line): the signed crossing number of the hull boundary about `p` is `1` when `p` is strictly inside (left of every
hull edge) and `0` when `p` is strictly outside (right of some hull edge).

Route: the boundary's crossing number equals the crossing number summed over the fan triangles (diagonals cancel,
`fan_wind`), which is the number of fan triangles containing `p` (`wind_tri`).  Inside: a discrete intermediate
value argument over the signs of `det h0 h_i p` finds a fan triangle containing `p`; separation gives at most one.
Outside: every fan triangle lies in the hull. -/
namespace GeosModel.Tri
open GeosModel.Kernel

theorem countIn_cons (t : Tri) (r : List Tri) (p : Pt) :
    countIn (t :: r) p = (if 0 < Kernel.det t.a t.b p ∧ 0 < Kernel.det t.b t.c p ∧ 0 < Kernel.det t.c t.a p then 1 else 0) + countIn r p := by
  simp [countIn, sumInt_cons]

theorem countIn_nonneg (ts : List Tri) (p : Pt) : 0 ≤ countIn ts p := by
  induction ts with
  | nil => simp [countIn, sumInt]
  | cons t r ih => rw [countIn_cons]; split <;> omega

theorem countIn_pos_of_mem (ts : List Tri) (p : Pt) (t : Tri) (ht : t ∈ ts)
    (hin : 0 < Kernel.det t.a t.b p ∧ 0 < Kernel.det t.b t.c p ∧ 0 < Kernel.det t.c t.a p) : 1 ≤ countIn ts p := by
  induction ts with
  | nil => cases ht
  | cons u r ih =>
    rw [countIn_cons]
    rcases List.mem_cons.mp ht with h | h
    · subst h; rw [if_pos hin]; have := countIn_nonneg r p; omega
    · have := ih h; split <;> omega

theorem countIn_zero_of_none (ts : List Tri) (p : Pt)
    (h : ∀ t ∈ ts, ¬ (0 < Kernel.det t.a t.b p ∧ 0 < Kernel.det t.b t.c p ∧ 0 < Kernel.det t.c t.a p)) : countIn ts p = 0 := by
  induction ts with
  | nil => simp [countIn, sumInt]
  | cons u r ih =>
    rw [countIn_cons, if_neg (h u (List.mem_cons_self)), ih (fun t ht => h t (List.mem_cons_of_mem _ ht))]; rfl

theorem fanFrom_single (h0 a : Pt) : fanFrom h0 [a] = [] := rfl
theorem fanFrom_cons2 (h0 a b : Pt) (r : List Pt) : fanFrom h0 (a :: b :: r) = ⟨h0, a, b⟩ :: fanFrom h0 (b :: r) := rfl

/-- diagonals cancel: the crossing number over all fan-triangle edges is that of the closed loop -/
theorem fanFrom_wind (h0 p : Pt) : ∀ (rest : List Pt) (a : Pt),
    sumInt ((triEdges (fanFrom h0 (a :: rest))).map (wind p)) =
      wind p (h0, a) + sumInt ((Kernel.edges (a :: (rest ++ [h0]))).map (wind p)) := by
  intro rest
  induction rest with
  | nil =>
    intro a
    have := wind_swap p (h0, a)
    simp only [swap] at this
    rw [fanFrom_single]
    simp only [triEdges, List.flatMap_nil, List.map_nil, List.nil_append, Kernel.edges, List.map_cons, sumInt_cons]
    show sumInt [] = _ + (_ + sumInt [])
    have z : sumInt ([] : List Int) = 0 := rfl
    rw [z]; omega
  | cons b r ih =>
    intro a
    have hsw := wind_swap p (h0, b)
    simp only [swap] at hsw
    have := ih b
    simp only [triEdges] at this
    rw [fanFrom_cons2]
    simp only [triEdges, List.flatMap_cons, List.map_append, sumInt_append, this, Tri.edges, List.map_cons,
      List.map_nil, sumInt_cons, List.cons_append, Kernel.edges]
    have z : sumInt ([] : List Int) = 0 := rfl
    rw [z]; omega

theorem fan_wind (h0 a : Pt) (rest : List Pt) (p : Pt) :
    sumInt ((triEdges (fan (h0 :: a :: rest))).map (wind p)) = sumInt ((loopEdges (h0 :: a :: rest)).map (wind p)) := by
  simp only [fan, fanFrom_wind, loopEdges, List.cons_append, Kernel.edges, List.map_cons, sumInt_cons]

/-- discrete intermediate value: walking along the hull from `a`, with `p` left of `(h0,a)`, of every hull edge on
the way and of the closing edge `(last,h0)`, some fan triangle contains `p` -/
theorem fanFrom_hits (h0 p : Pt) : ∀ (rest : List Pt) (a : Pt),
    0 < Kernel.det h0 a p →
    (∀ e ∈ Kernel.edges (a :: (rest ++ [h0])), 0 < Kernel.det e.1 e.2 p) →
    (∀ x ∈ rest, Kernel.det h0 x p ≠ 0) →
    ∃ t ∈ fanFrom h0 (a :: rest), 0 < Kernel.det t.a t.b p ∧ 0 < Kernel.det t.b t.c p ∧ 0 < Kernel.det t.c t.a p := by
  intro rest
  induction rest with
  | nil =>
    intro a ha he _
    exfalso
    have h1 := he (a, h0) (by simp [Kernel.edges])
    have : Kernel.det a h0 p = - Kernel.det h0 a p := by simp only [Kernel.det]; ring
    simp only at h1
    omega
  | cons b r ih =>
    intro a ha he hg
    have hab : 0 < Kernel.det a b p := he (a, b) (by simp [Kernel.edges])
    have hb : Kernel.det h0 b p ≠ 0 := hg b (by simp)
    by_cases hpos : 0 < Kernel.det h0 b p
    · obtain ⟨t, ht, hin⟩ := ih b hpos
        (fun e hm => he e (by simp only [List.cons_append, Kernel.edges, List.mem_cons]; right; simpa using hm))
        (fun x hx => hg x (by simp [hx]))
      exact ⟨t, by rw [fanFrom_cons2]; exact List.mem_cons_of_mem _ ht, hin⟩
    · refine ⟨⟨h0, a, b⟩, by rw [fanFrom_cons2]; exact List.mem_cons_self, ha, hab, ?_⟩
      have : Kernel.det b h0 p = - Kernel.det h0 b p := by simp only [Kernel.det]; ring
      show 0 < Kernel.det b h0 p
      omega

theorem fanFrom_corners (h0 : Pt) : ∀ (l : List Pt) (t : Tri), t ∈ fanFrom h0 l → ∀ q ∈ t.corners, q = h0 ∨ q ∈ l := by
  intro l
  induction l with
  | nil => intro t ht; simp [fanFrom] at ht
  | cons a rest ih =>
    intro t ht q hq
    cases rest with
    | nil => simp [fanFrom] at ht
    | cons b r =>
      rw [fanFrom_cons2] at ht
      simp only [List.mem_cons] at ht
      rcases ht with rfl | ht
      · simp only [Tri.corners, List.mem_cons, List.mem_nil_iff, or_false] at hq
        rcases hq with rfl | rfl | rfl <;> simp
      · rcases ih t ht q hq with h | h
        · exact Or.inl h
        · exact Or.inr (List.mem_cons_of_mem _ h)

/-- **the certified hull boundary winds once around strictly interior points and not at all around strictly
exterior ones** (points on no hull-edge line and no fan-triangle-edge line) -/
theorem hull_winding (sites H : List Pt) (hc : HullCert sites H) (h3 : 3 ≤ H.length) (p : Pt)
    (hpF : ∀ e ∈ triEdges (fan H), OffLine p e) :
    ((∀ e ∈ loopEdges H, 0 < Kernel.det e.1 e.2 p) → sumInt ((loopEdges H).map (wind p)) = 1) ∧
    ((∃ e ∈ loopEdges H, Kernel.det e.1 e.2 p < 0) → sumInt ((loopEdges H).map (wind p)) = 0) := by
  obtain ⟨h0, a, rest, rfl⟩ : ∃ h0 a rest, H = h0 :: a :: rest := by
    match H, h3 with
    | h0 :: a :: rest, _ => exact ⟨h0, a, rest, rfl⟩
  · have hW : sumInt ((loopEdges (h0 :: a :: rest)).map (wind p)) = countIn (fan (h0 :: a :: rest)) p := by
      rw [← fan_wind, triEdges_wind _ p (hc.fan_positive h3) hpF]
    have h01 := count_le_one' (fan (h0 :: a :: rest)) (hc.fan_positive h3) (hc.fan_separated h3) p
    refine ⟨fun hin => ?_, fun hout => ?_⟩
    · rw [hW]
      have hle : ∀ e ∈ Kernel.edges (h0 :: a :: (rest ++ [h0])), 0 < Kernel.det e.1 e.2 p := by
        intro e he; apply hin e; simpa [loopEdges] using he
      have ha : 0 < Kernel.det h0 a p := hle (h0, a) (by simp [Kernel.edges])
      have hg : ∀ x ∈ rest, Kernel.det h0 x p ≠ 0 := by
        intro x hx
        -- (h0,x) or (x,h0) is an edge of a fan triangle
        obtain ⟨pre, post, rfl⟩ := List.append_of_mem hx
        have key : ∀ (pre : List Pt) (a : Pt), ∃ t ∈ fanFrom h0 (a :: (pre ++ x :: post)), (x, h0) ∈ t.edges := by
          intro pre
          induction pre with
          | nil => intro a; exact ⟨⟨h0, a, x⟩, by rw [List.nil_append, fanFrom_cons2]; exact List.mem_cons_self, by simp [Tri.edges]⟩
          | cons b r ih =>
            intro a
            obtain ⟨t, ht, hm⟩ := ih b
            exact ⟨t, by rw [List.cons_append, fanFrom_cons2]; exact List.mem_cons_of_mem _ ht, hm⟩
        obtain ⟨t, ht, hm⟩ := key pre a
        have hoff := hpF (x, h0) (List.mem_flatMap.mpr ⟨t, by simpa [fan] using ht, hm⟩)
        simp only [OffLine] at hoff
        have : Kernel.det x h0 p = - Kernel.det h0 x p := by simp only [Kernel.det]; ring
        omega
      obtain ⟨t, ht, hin'⟩ := fanFrom_hits h0 p rest a ha
        (fun e he => hle e (by simp only [Kernel.edges, List.mem_cons]; right; simpa using he)) hg
      have hge : 1 ≤ countIn (fan (h0 :: a :: rest)) p := countIn_pos_of_mem _ p t (by simpa [fan] using ht) hin'
      omega
    · rw [hW]
      obtain ⟨e0, he0, hneg⟩ := hout
      apply countIn_zero_of_none
      intro t ht hin
      have hpos : 0 < t.det := hc.fan_positive h3 t ht
      have hcor : ∀ q ∈ t.corners, 0 ≤ Kernel.det e0.1 e0.2 q := by
        intro q hq
        have hqH : q ∈ h0 :: a :: rest := by
          rcases fanFrom_corners h0 (a :: rest) t (by simpa [fan] using ht) q hq with h | h
          · rw [h]; simp
          · exact List.mem_cons_of_mem _ h
        rcases hc.convex h3 e0 he0 q hqH with h | h | h
        · rw [h]; simp [Kernel.det]
        · rw [h]; have : Kernel.det e0.1 e0.2 e0.2 = 0 := by simp only [Kernel.det]; ring
          omega
        · omega
      have hA := hcor t.a (by simp [Tri.corners])
      have hB := hcor t.b (by simp [Tri.corners])
      have hC := hcor t.c (by simp [Tri.corners])
      have comb : Kernel.det e0.1 e0.2 p * t.det =
          Kernel.det t.b t.c p * Kernel.det e0.1 e0.2 t.a + Kernel.det t.c t.a p * Kernel.det e0.1 e0.2 t.b +
          Kernel.det t.a t.b p * Kernel.det e0.1 e0.2 t.c := by
        simp only [Kernel.det, Tri.det]; ring
      obtain ⟨w1, w2, w3⟩ := hin
      have r1 : 0 ≤ Kernel.det t.b t.c p * Kernel.det e0.1 e0.2 t.a := Int.mul_nonneg (by omega) hA
      have r2 : 0 ≤ Kernel.det t.c t.a p * Kernel.det e0.1 e0.2 t.b := Int.mul_nonneg (by omega) hB
      have r3 : 0 ≤ Kernel.det t.a t.b p * Kernel.det e0.1 e0.2 t.c := Int.mul_nonneg (by omega) hC
      have : Kernel.det e0.1 e0.2 p * t.det < 0 := Int.mul_neg_of_neg_of_pos hneg hpos
      omega

end GeosModel.Tri
