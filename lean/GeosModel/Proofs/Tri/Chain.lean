import Mathlib.Tactic.Ring
import Mathlib.Tactic.Linarith
import GeosModel.Model.Tri.Check
/-! Chain lemmas for the edge-pairing certificate.

`chainEq T B = true` says the multiset `T ++ reverse(B)` of directed edges cancels completely into
opposite pairs.  Any *antisymmetric* edge functional `f` (`f (swap e) = - f e`) therefore has the same
sum over `T` and over `B` (`chainEq_sum`).  Splitting an edge at collinear interior points does not change
the shoelace functional `cross` (`splitEdge_cross`).  Together: the doubled areas of the triangles add up
to the doubled area enclosed by the boundary (`tiles_area`). -/
namespace GeosModel.Tri
open GeosModel.Kernel

/-! ### membership plumbing -/

theorem memB_iff (p : Pt) (l : List Pt) : memB p l = true ↔ p ∈ l := by
  simp [memB, List.any_eq_true]

theorem memE_iff (e : Edge) (l : List Edge) : memE e l = true ↔ e ∈ l := by
  simp [memE, List.any_eq_true]

theorem mem_insertBy (le : Pt → Pt → Bool) (p q : Pt) (l : List Pt) : q ∈ insertBy le p l ↔ q = p ∨ q ∈ l := by
  induction l with
  | nil => simp [insertBy]
  | cons a r ih =>
    simp only [insertBy]
    split
    · simp
    · simp [ih]; tauto

theorem mem_isortBy (le : Pt → Pt → Bool) (q : Pt) (l : List Pt) : q ∈ isortBy le l ↔ q ∈ l := by
  induction l with
  | nil => simp [isortBy]
  | cons a r ih => simp [isortBy, mem_insertBy, ih]

/-! ### sums -/

theorem sumInt_cons (x : Int) (l : List Int) : sumInt (x :: l) = x + sumInt l := rfl

theorem sumInt_append (a b : List Int) : sumInt (a ++ b) = sumInt a + sumInt b := by
  induction a with
  | nil => simp [sumInt]
  | cons x r ih => simp only [List.cons_append, sumInt_cons, ih]; ring

theorem sumInt_flatMap {α : Type} (g : α → List Int) (l : List α) :
    sumInt (l.flatMap g) = sumInt (l.map (fun x => sumInt (g x))) := by
  induction l with
  | nil => simp [sumInt]
  | cons x r ih => simp only [List.flatMap_cons, List.map_cons, sumInt_append, sumInt_cons, ih]

/-! ### cancellation preserves antisymmetric sums -/

theorem sum_eraseE (f : Edge → Int) (x : Edge) (l : List Edge) (h : x ∈ l) :
    sumInt ((eraseE x l).map f) = sumInt (l.map f) - f x := by
  induction l with
  | nil => cases h
  | cons a r ih =>
    simp only [eraseE]
    split
    · next hax => subst hax; simp only [List.map_cons, sumInt_cons]; ring
    · next hax =>
      have hr : x ∈ r := by
        rcases List.mem_cons.mp h with h | h
        · exact absurd h.symm hax
        · exact h
      simp only [List.map_cons, sumInt_cons, ih hr]; ring

theorem length_eraseE (x : Edge) (l : List Edge) (h : x ∈ l) : (eraseE x l).length + 1 = l.length := by
  induction l with
  | nil => cases h
  | cons a r ih =>
    simp only [eraseE]
    split
    · simp
    · next hax =>
      have hr : x ∈ r := by
        rcases List.mem_cons.mp h with h | h
        · exact absurd h.symm hax
        · exact h
      simp [ih hr]

theorem sum_cancel (f : Edge → Int) (hf : ∀ e, f (swap e) = - f e) :
    ∀ (n : Nat) (l : List Edge), sumInt ((cancel n l).map f) = sumInt (l.map f) := by
  intro n
  induction n with
  | zero => intro l; simp [cancel]
  | succ n ih =>
    intro l
    cases l with
    | nil => simp [cancel]
    | cons e r =>
      simp only [cancel]
      split
      · next hm =>
        have hm' : swap e ∈ r := (memE_iff _ _).mp hm
        rw [ih, sum_eraseE f _ _ hm', hf]; simp only [List.map_cons, sumInt_cons]; ring
      · simp only [List.map_cons, sumInt_cons, ih]

theorem sum_map_swap (f : Edge → Int) (hf : ∀ e, f (swap e) = - f e) (B : List Edge) :
    sumInt ((B.map swap).map f) = - sumInt (B.map f) := by
  induction B with
  | nil => simp [sumInt]
  | cons b r ih => simp only [List.map_cons, sumInt_cons, ih, hf]; ring

/-- equal chains have equal sums of any antisymmetric edge functional -/
theorem chainEq_sum (f : Edge → Int) (hf : ∀ e, f (swap e) = - f e) (T B : List Edge)
    (h : chainEq T B = true) : sumInt (T.map f) = sumInt (B.map f) := by
  simp only [chainEq, List.isEmpty_iff] at h
  have h1 := sum_cancel f hf (T ++ B.map swap).length (T ++ B.map swap)
  rw [h] at h1
  simp only [List.map_nil, List.map_append, sumInt_append, sum_map_swap f hf] at h1
  have : sumInt ([] : List Int) = 0 := rfl
  rw [this] at h1
  linarith

/-! ### the shoelace functional -/

theorem cross_swap (e : Edge) : cross (swap e) = - cross e := by
  simp only [cross, swap]; ring

theorem det_eq_cross (a b c : Pt) : Kernel.det a b c = cross (a, b) + cross (b, c) + cross (c, a) := by
  simp only [Kernel.det, cross]; ring

/-- three points on a common line through two distinct points are collinear among themselves -/
theorem collinear_of_line (a b u v : Pt) (hab : a ≠ b) (hu : Kernel.det a b u = 0) (hv : Kernel.det a b v = 0) :
    Kernel.det a u v = 0 := by
  have hx : (b.x - a.x) * Kernel.det a u v = 0 := by
    have : (b.x - a.x) * Kernel.det a u v = (u.x - a.x) * Kernel.det a b v - (v.x - a.x) * Kernel.det a b u := by
      simp only [Kernel.det]; ring
    rw [this, hu, hv]; ring
  have hy : (b.y - a.y) * Kernel.det a u v = 0 := by
    have : (b.y - a.y) * Kernel.det a u v = (u.y - a.y) * Kernel.det a b v - (v.y - a.y) * Kernel.det a b u := by
      simp only [Kernel.det]; ring
    rw [this, hu, hv]; ring
  rcases Int.mul_eq_zero.mp hx with h1 | h1
  · rcases Int.mul_eq_zero.mp hy with h2 | h2
    · exfalso; apply hab
      have e1 : a.x = b.x := by omega
      have e2 : a.y = b.y := by omega
      cases a; cases b; simp_all
    · exact h2
  · exact h1

theorem cross_of_collinear (a u v : Pt) (h : Kernel.det a u v = 0) : cross (u, v) = cross (a, v) - cross (a, u) := by
  have := det_eq_cross a u v
  rw [h] at this
  have h2 : cross (v, a) = - cross (a, v) := cross_swap (a, v)
  linarith

/-- telescoping along a path of points on the line through `a ≠ b`, ending in `b` -/
theorem path_cross (a b : Pt) (hab : a ≠ b) :
    ∀ (l : List Pt) (u : Pt), Kernel.det a b u = 0 → (∀ p ∈ l, Kernel.det a b p = 0) →
      sumInt ((Kernel.edges (u :: (l ++ [b]))).map cross) = cross (a, b) - cross (a, u) := by
  intro l
  induction l with
  | nil =>
    intro u hu _
    have hb : Kernel.det a b b = 0 := by simp only [Kernel.det]; ring
    simp only [List.nil_append, Kernel.edges, List.map_cons, List.map_nil, sumInt_cons]
    rw [cross_of_collinear a u b (collinear_of_line a b u b hab hu hb)]
    show _ + (0 : Int) = _
    ring
  | cons v r ih =>
    intro u hu hl
    have hv : Kernel.det a b v = 0 := hl v (by simp)
    simp only [List.cons_append, Kernel.edges, List.map_cons, sumInt_cons]
    rw [ih v hv (fun p hp => hl p (by simp [hp])), cross_of_collinear a u v (collinear_of_line a b u v hab hu hv)]
    ring

theorem onSegment_det (a b p : Pt) (h : onSegment a b p = true) : Kernel.det a b p = 0 := by
  simp only [onSegment, Bool.and_eq_true, beq_iff_eq] at h
  exact h.1

/-- splitting an edge at interior vertices preserves the shoelace term -/
theorem splitEdge_cross (V : List Pt) (e : Edge) : sumInt ((splitEdge V e).map cross) = cross e := by
  simp only [splitEdge]
  split
  · simp [sumInt]
  · next hne =>
    have haa : Kernel.det e.1 e.2 e.1 = 0 := by simp only [Kernel.det]; ring
    rw [path_cross e.1 e.2 hne _ e.1 haa]
    · have : cross (e.1, e.1) = 0 := by simp only [cross]; ring
      rw [this]; simp
    · intro p hp
      rw [mem_isortBy] at hp
      have := (List.mem_filter.mp hp).2
      simp only [strictlyInside, Bool.and_eq_true] at this
      exact onSegment_det _ _ _ this.1.1

theorem elemEdges_cross (V : List Pt) (es : List Edge) :
    sumInt ((elemEdges V es).map cross) = sumInt (es.map cross) := by
  simp only [elemEdges]
  induction es with
  | nil => simp
  | cons e r ih =>
    simp only [List.flatMap_cons, List.map_append, sumInt_append, List.map_cons, sumInt_cons, ih, splitEdge_cross]

theorem triEdges_cross (ts : List Tri) : sumInt ((triEdges ts).map cross) = sumInt (ts.map Tri.det) := by
  induction ts with
  | nil => simp [triEdges]
  | cons t r ih =>
    simp only [triEdges, List.flatMap_cons] at ih ⊢
    simp only [List.map_append, sumInt_append, ih, List.map_cons, sumInt_cons]
    simp only [Tri.edges, Tri.det, List.map_cons, List.map_nil, sumInt_cons, det_eq_cross]
    show _ + (_ + (_ + (0 : Int))) + _ = _
    ring

/-- **edge pairing ⇒ area**: if the elementary boundary chain of the triangles equals the elementary
chain of `B`, the doubled triangle areas add up to the shoelace sum of `B` -/
theorem chainEq_area (V : List Pt) (ts : List Tri) (B : List Edge)
    (h : chainEq (elemEdges V (triEdges ts)) (elemEdges V B) = true) :
    sumInt (ts.map Tri.det) = sumInt (B.map cross) := by
  have := chainEq_sum cross cross_swap _ _ h
  rw [elemEdges_cross, elemEdges_cross, triEdges_cross] at this
  exact this

/-- shoelace sum of a closed ring, as a sum over its edges -/
theorem area2_eq_sum (ring : List Pt) : area2 ring = sumInt ((Kernel.edges ring).map cross) := by
  have gen : ∀ (l : List Edge) (acc : Int),
      l.foldl (fun acc e => acc + (e.1.x * e.2.y - e.2.x * e.1.y)) acc = acc + sumInt (l.map cross) := by
    intro l
    induction l with
    | nil => intro acc; simp [sumInt]
    | cons e r ih => intro acc; simp only [List.foldl_cons, ih, List.map_cons, sumInt_cons, cross]; ring
  simp only [area2, gen]; ring

end GeosModel.Tri
