import GeosModel.Proofs.Tri.Chain
/-! Soundness of the Boolean checkers: `check = true` gives each clause for *all* triangles / pairs / sites.
The checkers are written with `List.all` and structural recursion, so these are unfoldings plus the two
list inductions (`pairwiseDisjoint`, `noDupE`). -/
namespace GeosModel.Tri
open GeosModel.Kernel

/-- some edge of `t` has all corners of `u` on its right or on its line -/
def SepBy (t u : Tri) : Prop := ∃ e ∈ t.edges, ∀ p ∈ u.corners, Kernel.det e.1 e.2 p ≤ 0

/-- exact interior-disjointness certificate for two counter-clockwise triangles: a separating edge -/
def Separated (t u : Tri) : Prop := SepBy t u ∨ SepBy u t

theorem sepBy_iff (t u : Tri) : sepBy t u = true ↔ SepBy t u := by
  simp [sepBy, SepBy, List.any_eq_true, List.all_eq_true]

theorem interiorDisjoint_iff (t u : Tri) : interiorDisjoint t u = true ↔ Separated t u := by
  simp [interiorDisjoint, Separated, sepBy_iff]

theorem pairwiseDisjoint_sound : ∀ (ts : List Tri), pairwiseDisjoint ts = true → ts.Pairwise Separated
  | [], _ => List.Pairwise.nil
  | t :: r, h => by
    simp only [pairwiseDisjoint, Bool.and_eq_true, List.all_eq_true] at h
    exact List.Pairwise.cons (fun u hu => (interiorDisjoint_iff t u).mp (h.1 u hu)) (pairwiseDisjoint_sound r h.2)

theorem noDupE_sound : ∀ (l : List Edge), noDupE l = true → l.Nodup
  | [], _ => List.nodup_nil
  | e :: r, h => by
    simp only [noDupE, Bool.and_eq_true, Bool.not_eq_true'] at h
    refine List.nodup_cons.mpr ⟨?_, noDupE_sound r h.2⟩
    intro hm
    have := (memE_iff e r).mpr hm
    rw [h.1] at this; cases this

theorem ccw_det_pos (t : Tri) (h : t.det ≠ 0) : 0 < t.ccw.det := by
  simp only [Tri.ccw]
  split
  · next hneg =>
    have : (Tri.mk t.a t.c t.b).det = - t.det := by
      simp only [Tri.det, Kernel.det]; ring
    omega
  · omega

theorem ccw_corners (t : Tri) (p : Pt) : p ∈ t.ccw.corners ↔ p ∈ t.corners := by
  simp only [Tri.ccw]
  split <;> simp [Tri.corners]
  tauto

/-- what the tiling certificate establishes about positively oriented triangles `ts`, a boundary chain `B`
and the doubled area `A2` -/
structure Tiles (V : List Pt) (ts : List Tri) (B : List Edge) (A2 : Int) : Prop where
  /-- no directed elementary edge is used by two triangles (or twice by one) -/
  edge_once : (elemEdges V (triEdges ts)).Nodup
  /-- every elementary triangle edge is matched by exactly one opposite elementary triangle edge or lies on
  the boundary chain, and every boundary edge is matched: the two 1-chains cancel completely -/
  chain : cancel (elemEdges V (triEdges ts) ++ (elemEdges V B).map swap).length
            (elemEdges V (triEdges ts) ++ (elemEdges V B).map swap) = []
  area : sumInt (ts.map Tri.det) = A2
  disjoint : ts.Pairwise Separated

theorem tiles_sound (V : List Pt) (ts : List Tri) (B : List Edge) (A2 : Int) (h : tiles V ts B A2 = true) :
    Tiles V ts B A2 := by
  simp only [tiles, Bool.and_eq_true, decide_eq_true_eq] at h
  obtain ⟨⟨⟨h1, h2⟩, h3⟩, h4⟩ := h
  refine ⟨noDupE_sound _ h1, ?_, h3, pairwiseDisjoint_sound _ h4⟩
  simpa [chainEq, List.isEmpty_iff] using h2

/-- what `hullOK sites H = true` certifies -/
structure HullCert (sites H : List Pt) : Prop where
  vertices_are_sites : ∀ v ∈ H, v ∈ sites
  empty : H = [] → sites = []
  single : ∀ a, H = [a] → ∀ s ∈ sites, s = a
  segment : ∀ a b, H = [a, b] → a ≠ b ∧ ∀ s ∈ sites, onSegment a b s = true
  /-- every site is on or to the left of every hull edge -/
  contains : 3 ≤ H.length → ∀ e ∈ loopEdges H, ∀ s ∈ sites, 0 ≤ Kernel.det e.1 e.2 s
  /-- strictly convex and counter-clockwise: every other hull vertex is strictly left of every hull edge -/
  convex : 3 ≤ H.length → ∀ e ∈ loopEdges H, ∀ v ∈ H, v = e.1 ∨ v = e.2 ∨ 0 < Kernel.det e.1 e.2 v
  fan_positive : 3 ≤ H.length → ∀ t ∈ fan H, 0 < t.det
  fan_separated : 3 ≤ H.length → (fan H).Pairwise Separated

theorem hullOK_sound (sites H : List Pt) (h : hullOK sites H = true) : HullCert sites H := by
  simp only [hullOK, Bool.and_eq_true, List.all_eq_true] at h
  obtain ⟨hv, hm⟩ := h
  have hv' : ∀ v ∈ H, v ∈ sites := fun v hvm => (memB_iff v sites).mp (hv v hvm)
  match H, hm with
  | [], hm =>
    refine ⟨hv', fun _ => by simpa using hm, by simp, by simp, by simp, by simp, by simp, by simp⟩
  | [a], hm =>
    simp only [List.all_eq_true, decide_eq_true_eq] at hm
    refine ⟨hv', by simp, ?_, by simp, by simp, by simp, by simp, by simp⟩
    intro a' ha' s hs
    have : a = a' := by simpa using ha'
    subst this; exact hm s hs
  | [a, b], hm =>
    simp only [Bool.and_eq_true, decide_eq_true_eq, List.all_eq_true] at hm
    refine ⟨hv', by simp, by simp, ?_, by simp, by simp, by simp, by simp⟩
    intro a' b' hab
    have h1 : a = a' ∧ b = b' := by simpa using hab
    obtain ⟨rfl, rfl⟩ := h1
    exact ⟨hm.1, hm.2⟩
  | a :: b :: c :: r, hm =>
    simp only [Bool.and_eq_true, List.all_eq_true, decide_eq_true_eq, Bool.or_eq_true] at hm
    refine ⟨hv', by simp, by simp, by simp, fun _ => hm.1.1.1, fun _ e he v hvm => ?_, fun _ => hm.1.2,
      fun _ => pairwiseDisjoint_sound _ hm.2⟩
    rcases hm.1.1.2 e he v hvm with (h1 | h1) | h1
    · exact Or.inl h1
    · exact Or.inr (Or.inl h1)
    · exact Or.inr (Or.inr h1)

/-- the specification `isTriangulationOf` decides -/
structure IsTriangulation (sites : List Pt) (tris : List Tri) : Prop where
  nondegenerate : ∀ t ∈ tris, t.det ≠ 0
  positively_oriented : ∀ t ∈ tris.map Tri.ccw, 0 < t.det
  corners_are_sites : ∀ t ∈ tris, ∀ p ∈ t.corners, p ∈ sites
  sites_are_corners : tris ≠ [] → ∀ s ∈ sites, ∃ t ∈ tris, s ∈ t.corners
  hull : HullCert sites (hull sites)
  /-- the triangles tile the hull polygon: boundary chain = hull boundary, areas add up, pairwise separated -/
  tiling : Tiles sites (tris.map Tri.ccw) (loopEdges (Tri.hull sites)) (sumInt ((loopEdges (Tri.hull sites)).map cross))

theorem isTriangulationOf_sound (sites : List Pt) (tris : List Tri) (h : isTriangulationOf sites tris = true) :
    IsTriangulation sites tris := by
  simp only [isTriangulationOf, Bool.and_eq_true, List.all_eq_true, decide_eq_true_eq, Bool.or_eq_true,
    List.isEmpty_iff] at h
  obtain ⟨⟨⟨⟨h1, h2⟩, h3⟩, h4⟩, h5⟩ := h
  refine ⟨h1, ?_, ?_, ?_, hullOK_sound _ _ h4, tiles_sound _ _ _ _ h5⟩
  · intro t ht
    obtain ⟨t0, ht0, rfl⟩ := List.mem_map.mp ht
    exact ccw_det_pos t0 (h1 t0 ht0)
  · intro t ht p hp
    exact (memB_iff p sites).mp (h2 p (List.mem_flatMap.mpr ⟨t, ht, hp⟩))
  · intro hne s hs
    rcases h3 with h3 | h3
    · exact absurd h3 hne
    · have := (memB_iff s _).mp (h3 s hs)
      exact List.mem_flatMap.mp this

/-- the specification `isDelaunay` decides (determinant form) -/
def IsDelaunay (sites : List Pt) (tris : List Tri) : Prop :=
  ∀ t ∈ tris, ∀ s ∈ sites, inCircleDet t.ccw.a t.ccw.b t.ccw.c s ≤ 0

theorem isDelaunay_sound (sites : List Pt) (tris : List Tri) (h : isDelaunay sites tris = true) :
    IsDelaunay sites tris := by
  simp only [isDelaunay, List.all_eq_true, decide_eq_true_eq] at h
  intro t ht s hs
  exact h t.ccw (List.mem_map.mpr ⟨t, ht, rfl⟩) s hs

/-- the specification `isCDTOf` decides -/
structure IsCDT (rings : List (List Pt)) (tris : List Tri) : Prop where
  nondegenerate : ∀ t ∈ tris, t.det ≠ 0
  positively_oriented : ∀ t ∈ tris.map Tri.ccw, 0 < t.det
  corners_are_vertices : ∀ t ∈ tris, ∀ p ∈ t.corners, ∃ r ∈ rings, p ∈ r
  tiling : Tiles (rings.flatMap id) (tris.map Tri.ccw) (polyBoundary rings) (polyArea2 rings)
  centroid_inside : ∀ t ∈ tris, locateInPolygon (centroid3 t) (rings.map (fun r => r.map scale3)) = Loc.interior

theorem isCDTOf_sound (rings : List (List Pt)) (tris : List Tri) (h : isCDTOf rings tris = true) :
    IsCDT rings tris := by
  simp only [isCDTOf, Bool.and_eq_true, List.all_eq_true, decide_eq_true_eq] at h
  obtain ⟨⟨⟨h1, h2⟩, h3⟩, h4⟩ := h
  refine ⟨h1, ?_, ?_, tiles_sound _ _ _ _ h3, h4⟩
  · intro t ht
    obtain ⟨t0, ht0, rfl⟩ := List.mem_map.mp ht
    exact ccw_det_pos t0 (h1 t0 ht0)
  · intro t ht p hp
    have := (memB_iff p _).mp (h2 p (List.mem_flatMap.mpr ⟨t, ht, hp⟩))
    obtain ⟨r, hr, hpr⟩ := List.mem_flatMap.mp this
    exact ⟨r, hr, hpr⟩

/-- the constrained (local) Delaunay condition -/
def IsLocallyDelaunay (ts : List Tri) : Prop :=
  ∀ t ∈ ts, ∀ u ∈ ts, (∃ e ∈ t.edges, swap e ∈ u.edges) → ∀ p ∈ u.corners, inCircleDet t.a t.b t.c p ≤ 0

theorem locallyDelaunay_sound (ts : List Tri) (h : locallyDelaunay ts = true) : IsLocallyDelaunay ts := by
  simp only [locallyDelaunay, List.all_eq_true, Bool.or_eq_true, Bool.not_eq_true', decide_eq_true_eq] at h
  intro t ht u hu ⟨e, he, hs⟩ p hp
  rcases h t ht u hu with h1 | h1
  · have : (t.edges.any fun e => memE (swap e) u.edges) = true :=
      List.any_eq_true.mpr ⟨e, he, (memE_iff _ _).mpr hs⟩
    rw [h1] at this; cases this
  · exact h1 p hp

/-- what `isCDTOfCollection` certifies: the output splits, by the exact centroid test, into one group per component
polygon; every output triangle is in exactly one group; group `i` is a constrained Delaunay triangulation of
component `i` (every clause of `IsCDT`, and the local Delaunay condition on the edges shared inside the group) -/
structure IsCDTCollection (polys : List (List (List Pt))) (tris : List Tri) : Prop where
  unique_owner : ∀ t ∈ tris, (∃ rings ∈ polys, ownedBy rings t = true) ∧
    (polys.filter (fun rings => ownedBy rings t)).length = 1
  component : ∀ rings ∈ polys, IsCDT rings (trisIn rings tris) ∧ IsLocallyDelaunay ((trisIn rings tris).map Tri.ccw)
  groups_are_output : ∀ rings, ∀ t, t ∈ trisIn rings tris ↔ (t ∈ tris ∧ ownedBy rings t = true)

theorem isCDTOfCollection_sound (polys : List (List (List Pt))) (tris : List Tri)
    (h : isCDTOfCollection polys tris = true) : IsCDTCollection polys tris := by
  simp only [isCDTOfCollection, Bool.and_eq_true, List.all_eq_true, decide_eq_true_eq] at h
  obtain ⟨h1, h2⟩ := h
  refine ⟨fun t ht => ⟨?_, h1 t ht⟩, fun rings hr => ⟨isCDTOf_sound _ _ (h2 rings hr).1, locallyDelaunay_sound _ (h2 rings hr).2⟩,
    fun rings t => by simp [trisIn, List.mem_filter]⟩
  have hl := h1 t ht
  have hpos : 0 < (polys.filter (fun rings => ownedBy rings t)).length := by omega
  obtain ⟨r, hr⟩ := List.exists_mem_of_length_pos hpos
  obtain ⟨hr1, hr2⟩ := List.mem_filter.mp hr
  exact ⟨r, hr1, hr2⟩

end GeosModel.Tri

namespace GeosModel.Tri
open GeosModel.Kernel

/-- Prop form of `nearOK`: `v` is at least as close to `s` as to `t`, exactly or up to the stated slack -/
def NearOK (M : Int) (v s t : Pt) : Prop :=
  sqDist v s ≤ sqDist v t ∨ sqDist v s * 1000000000 ≤ sqDist v t * 1000000001 ∨
  (sqDist v s - sqDist v t) * (sqDist v s - sqDist v t) * 1000000000000000000 ≤ 4 * sqDist s t * M * M

/-- what `cellOK` certifies about one Voronoi cell -/
structure CellCert (sites : List Pt) (env : Box) (M : Int) (site : Pt) (ring : List Pt) : Prop where
  closed : (ringCCW ring).head? = (ringCCW ring).getLast?
  three : 3 ≤ (ringCCW ring).dropLast.length
  no_repeat : dedup (ringCCW ring).dropLast = (ringCCW ring).dropLast
  area : area2 (ringCCW ring) ≠ 0
  /-- convex: every vertex on or to the left of every edge -/
  convex : ∀ e ∈ Kernel.edges (ringCCW ring), ∀ v ∈ (ringCCW ring).dropLast, 0 ≤ Kernel.det e.1 e.2 v
  site_inside : ∀ e ∈ Kernel.edges (ringCCW ring), 0 < Kernel.det e.1 e.2 site
  others_outside : ∀ t ∈ sites, t ≠ site → ∃ e ∈ Kernel.edges (ringCCW ring), Kernel.det e.1 e.2 t < 0
  /-- every cell vertex (hence, the cell being convex, every cell point) is at least as close to the cell's
  site as to any other site, up to the slack -/
  nearest : ∀ v ∈ ring, ∀ t ∈ sites, NearOK M v site t
  in_envelope : ∀ v ∈ ring, (env.minx - v.x) * 1000000000 ≤ M ∧ (v.x - env.maxx) * 1000000000 ≤ M ∧
      (env.miny - v.y) * 1000000000 ≤ M ∧ (v.y - env.maxy) * 1000000000 ≤ M

theorem cellOK_sound (sites : List Pt) (env : Box) (M : Int) (site : Pt) (ring : List Pt)
    (h : cellOK sites env M site ring = true) : CellCert sites env M site ring := by
  simp only [cellOK, convexRing, strictlyInConvex, inClosedConvex, nearOK, leSlack, Bool.and_eq_true,
    List.all_eq_true, decide_eq_true_eq, Bool.or_eq_true, Bool.not_eq_true', ← Bool.not_eq_true,
    List.all_eq_true, decide_eq_true_eq] at h
  obtain ⟨⟨⟨⟨⟨⟨⟨⟨c1, c2⟩, c3⟩, c4⟩, c5⟩, h2⟩, h3⟩, h4⟩, h5⟩ := h
  refine ⟨c2, c1, c3, c4, c5, h2, ?_, ?_, ?_⟩
  · intro t ht hne
    rcases h3 t ht with h | h
    · exact absurd h hne
    · simp only [Classical.not_forall] at h
      obtain ⟨e, he, hlt⟩ := h
      exact ⟨e, he, by omega⟩
  · intro v hv t ht
    rcases h4 v hv t ht with (h | h) | h
    · left; omega
    · right; left; exact h
    · right; right; exact h
  · intro v hv
    obtain ⟨⟨⟨a, b⟩, c⟩, d⟩ := h5 v hv
    exact ⟨a, b, c, d⟩

/-- what `voronoiOK` certifies -/
structure VoronoiCert (sites : List Pt) (env : Box) (cells : List (Pt × List Pt)) : Prop where
  cells_ok : ∀ c ∈ cells, c.1 ∈ dedup sites ∧ CellCert (dedup sites) env (slackScale (dedup sites) env) c.1 c.2
  one_cell_per_site : dedup (cells.map (·.1)) = cells.map (·.1)
  every_site_has_a_cell : ∀ s ∈ dedup sites, ∃ c ∈ cells, c.1 = s
  /-- areas add up to the envelope's, up to a displacement 1e-9·M of each cell vertex -/
  area : ((sumInt (cells.map (fun c => ((area2 c.2).natAbs : Int))) - env.area2).natAbs : Int) * 1000000000 ≤
     4 * (cells.length : Int) * ((env.maxx - env.minx) + (env.maxy - env.miny)) * slackScale (dedup sites) env

theorem voronoiOK_sound (sites : List Pt) (env : Box) (cells : List (Pt × List Pt))
    (h : voronoiOK sites env cells = true) : VoronoiCert sites env cells := by
  simp only [voronoiOK, Bool.and_eq_true, List.all_eq_true, decide_eq_true_eq] at h
  obtain ⟨⟨⟨h1, h2⟩, h3⟩, h4⟩ := h
  refine ⟨fun c hc => ⟨(memB_iff _ _).mp (h1 c hc).1, cellOK_sound _ _ _ _ _ (h1 c hc).2⟩, h2, ?_, h4⟩
  intro s hs
  have := (memB_iff _ _).mp (h3 s hs)
  obtain ⟨c, hc, rfl⟩ := List.mem_map.mp this
  exact ⟨c, hc, rfl⟩

end GeosModel.Tri
