import GeosModel.Proofs.Tri.Winding
import GeosModel.Proofs.Tri.Sound
/-! Separated positively oriented triangles share no strictly interior point; hence at most one triangle of a
pairwise separated list contains a given point. -/
namespace GeosModel.Tri
open GeosModel.Kernel

/-- a point strictly inside a counter-clockwise triangle -/
def StrictlyIn (t : Tri) (p : Pt) : Prop :=
  0 < Kernel.det t.a t.b p ∧ 0 < Kernel.det t.b t.c p ∧ 0 < Kernel.det t.c t.a p
/-- a point in the closed counter-clockwise triangle -/
def InClosed (t : Tri) (p : Pt) : Prop :=
  0 ≤ Kernel.det t.a t.b p ∧ 0 ≤ Kernel.det t.b t.c p ∧ 0 ≤ Kernel.det t.c t.a p

/-- separated counter-clockwise triangles have no common strictly interior point -/
theorem separated_no_common_interior' (t u : Tri) (ht : 0 < t.det) (hu : 0 < u.det) (h : Separated t u) (p : Pt) :
    ¬ (StrictlyIn t p ∧ StrictlyIn u p) := by
  -- p strictly inside u is a strict convex combination of u's corners: det(e, p)·det u = Σ λ_i det(e, corner_i)
  have comb : ∀ (a b : Pt) (w : Tri), Kernel.det a b p * w.det =
      Kernel.det w.b w.c p * Kernel.det a b w.a + Kernel.det w.c w.a p * Kernel.det a b w.b +
      Kernel.det w.a w.b p * Kernel.det a b w.c := by
    intro a b w; simp only [Kernel.det, Tri.det]; ring
  have main : ∀ (v w : Tri), 0 < w.det → SepBy v w → StrictlyIn v p → StrictlyIn w p → False := by
    intro v w hw ⟨e, he, hall⟩ hv hwp
    have h1 := hall w.a (by simp [Tri.corners])
    have h2 := hall w.b (by simp [Tri.corners])
    have h3 := hall w.c (by simp [Tri.corners])
    have hc := comb e.1 e.2 w
    obtain ⟨w1, w2, w3⟩ := hwp
    have hpos : 0 < Kernel.det e.1 e.2 p := by
      simp only [Tri.edges, List.mem_cons, List.mem_nil_iff, or_false] at he
      rcases he with rfl | rfl | rfl
      · exact hv.1
      · exact hv.2.1
      · exact hv.2.2
    have hl : 0 < Kernel.det e.1 e.2 p * w.det := Int.mul_pos hpos hw
    have r1 : Kernel.det w.b w.c p * Kernel.det e.1 e.2 w.a ≤ 0 := Int.mul_nonpos_of_nonneg_of_nonpos (by omega) h1
    have r2 : Kernel.det w.c w.a p * Kernel.det e.1 e.2 w.b ≤ 0 := Int.mul_nonpos_of_nonneg_of_nonpos (by omega) h2
    have r3 : Kernel.det w.a w.b p * Kernel.det e.1 e.2 w.c ≤ 0 := Int.mul_nonpos_of_nonneg_of_nonpos (by omega) h3
    omega
  rintro ⟨hpt, hpu⟩
  rcases h with h | h
  · exact main t u hu h hpt hpu
  · exact main u t ht h hpu hpt

/-- pairwise separated positively oriented triangles: at most one contains a given point strictly -/
theorem count_le_one' (ts : List Tri) (hpos : ∀ t ∈ ts, 0 < t.det) (hsep : ts.Pairwise Separated) (p : Pt) :
    countIn ts p = 0 ∨ countIn ts p = 1 := by
  induction ts with
  | nil => left; rfl
  | cons t r ih =>
    have hr := ih (fun u hu => hpos u (List.mem_cons_of_mem _ hu)) (List.Pairwise.of_cons hsep)
    have hhead : ∀ {u : Tri}, u ∈ r → Separated t u := fun hu => List.rel_of_pairwise_cons hsep hu
    simp only [countIn, List.map_cons, sumInt_cons] at hr ⊢
    split
    · next hin =>
      -- p strictly inside t: no later triangle contains it
      have hz : sumInt (r.map (fun t => if 0 < Kernel.det t.a t.b p ∧ 0 < Kernel.det t.b t.c p ∧ 0 < Kernel.det t.c t.a p then 1 else 0)) = 0 := by
        have hall : ∀ u ∈ r, ¬ (0 < Kernel.det u.a u.b p ∧ 0 < Kernel.det u.b u.c p ∧ 0 < Kernel.det u.c u.a p) := by
          intro u hu hin'
          exact separated_no_common_interior' t u (hpos t (List.mem_cons_self)) (hpos u (List.mem_cons_of_mem _ hu))
            (hhead hu) p ⟨hin, hin'⟩
        clear hr ih hsep hhead hpos
        induction r with
        | nil => rfl
        | cons u r' ih' =>
          simp only [List.map_cons, sumInt_cons]
          rw [if_neg (hall u (List.mem_cons_self)), ih' (fun v hv => hall v (List.mem_cons_of_mem _ hv))]
          rfl
      right; omega
    · rcases hr with h | h
      · left; omega
      · right; omega


end GeosModel.Tri
