import GeosModel.Model.Simplify.Contracts
/-!
What a `true` verdict of the contract checkers means, as propositions (`*_sound` lemmas: by unfolding the
checker and induction over its loops).  The geometric leaves (`segRel`, `locateInRing`, `locateInPolygon`) are the
exact predicates of `Base/Kernel`, whose own meaning is the subject of C07.
-/
namespace GeosModel.Simplify
open GeosModel.Kernel

/-- pointwise relation of two lists of equal length -/
inductive All2 {α β : Type} (R : α → β → Prop) : List α → List β → Prop
  | nil : All2 R [] []
  | cons {a b as bs} : R a b → All2 R as bs → All2 R (a :: as) (b :: bs)

theorem All2.length_eq {α β : Type} {R : α → β → Prop} {l1 : List α} {l2 : List β} (h : All2 R l1 l2) :
    l1.length = l2.length := by
  induction h with
  | nil => rfl
  | cons _ _ ih => simp [ih]

theorem All2.mono {α β : Type} {R S : α → β → Prop} (hrs : ∀ a b, R a b → S a b) {l1 : List α} {l2 : List β}
    (h : All2 R l1 l2) : All2 S l1 l2 := by
  induction h with
  | nil => exact .nil
  | cons h _ ih => exact .cons (hrs _ _ h) ih

theorem zipAll_sound {α : Type} (f : α → α → Bool) : ∀ (l1 l2 : List α), zipAll f l1 l2 = true →
    All2 (fun a b => f a b = true) l1 l2
  | [], [], _ => .nil
  | a :: as, b :: bs, h => by
    simp only [zipAll, Bool.and_eq_true] at h
    exact .cons h.1 (zipAll_sound f as bs h.2)
  | [], _ :: _, h => by simp [zipAll] at h
  | _ :: _, [], h => by simp [zipAll] at h

theorem allPairs_sound {α : Type} (ok : α → α → Bool) : ∀ (l : List α), allPairs ok l = true →
    l.Pairwise (fun a b => ok a b = true)
  | [], _ => List.Pairwise.nil
  | a :: r, h => by
    simp only [allPairs, Bool.and_eq_true, List.all_eq_true] at h
    exact List.Pairwise.cons h.1 (allPairs_sound ok r h.2)

theorem memB_iff (v : Pt) (l : List Pt) : memB v l = true ↔ v ∈ l := by
  simp [memB]

theorem isSub_sound : ∀ (a b : List Pt), isSub a b = true → a.Sublist b
  | [], b, _ => List.nil_sublist b
  | _ :: _, [], h => by simp [isSub] at h
  | x :: xs, y :: ys, h => by
    simp only [isSub] at h
    by_cases hxy : x = y
    · subst hxy
      simp only [if_true] at h
      exact List.Sublist.cons_cons x (isSub_sound xs ys h)
    · simp only [hxy, if_false] at h
      exact List.Sublist.cons y (isSub_sound (x :: xs) ys h)

theorem cyclicSub_sound (out inp : List Pt) (h : cyclicSub out inp = true) :
    ∃ k, out.Sublist (inp.rotateLeft k) := by
  simp only [cyclicSub, List.any_eq_true] at h
  obtain ⟨k, _, hk⟩ := h
  exact ⟨k, isSub_sound _ _ hk⟩

/-- the meaning of the contact-free segment test -/
theorem segOKStrict_spec (s t : Seg) (h : segOKStrict s t = true) :
    segRel s.1 s.2 t.1 t.2 = .disjoint ∨ (segRel s.1 s.2 t.1 t.2 = .point false ∧ shareEnd s t = true) := by
  unfold segOKStrict at h
  split at h
  · left; assumption
  · right; exact ⟨by assumption, h⟩
  · simp at h

theorem noProperCross_spec (s t : Seg) (h : noProperCross s t = true) : segRel s.1 s.2 t.1 t.2 ≠ .point true := by
  unfold noProperCross at h
  intro hc
  simp [hc] at h

/-! ### contact-free validity -/

structure StrictlyValid (lines : List (List Pt)) (polys : List (List Ring)) : Prop where
  lines_len : ∀ l ∈ lines, 2 ≤ l.length
  rings_closed : ∀ r ∈ polys.flatMap id, closed r = true ∧ 4 ≤ r.length
  /-- no vertex occurs twice anywhere (the closing vertex of a ring / closed line aside) -/
  nodup : (lines.flatMap lineVerts ++ (polys.flatMap id).flatMap core).Nodup
  /-- any two segments are disjoint or touch only in a common endpoint (no crossing, no overlap, no T-contact) -/
  segs_ok : (lines.flatMap segs ++ (polys.flatMap id).flatMap segs).Pairwise
      fun s t => segRel s.1 s.2 t.1 t.2 = .disjoint ∨ (segRel s.1 s.2 t.1 t.2 = .point false ∧ shareEnd s t = true)
  /-- holes strictly inside their shell, not inside one another -/
  nest : ∀ p ∈ polys, polyNestOK p = true
  /-- no polygon's shell starts inside another polygon -/
  apart : polys.Pairwise fun a b => shellOutside a b = true ∧ shellOutside b a = true

theorem strictlyValid_sound (lines : List (List Pt)) (polys : List (List Ring))
    (h : strictlyValid lines polys = true) : StrictlyValid lines polys := by
  simp only [strictlyValid, Bool.and_eq_true, List.all_eq_true, decide_eq_true_eq] at h
  obtain ⟨⟨⟨⟨⟨h1, h2⟩, h3⟩, h4⟩, h5⟩, h6⟩ := h
  refine ⟨fun l hl => by have := h1 l hl; split at this <;> omega, h2, h3, ?_, h5, ?_⟩
  · exact (allPairs_sound _ _ h4).imp (fun {s t} hst => segOKStrict_spec s t hst)
  · exact (allPairs_sound _ _ h6).imp (fun {a b} hab => by simpa [Bool.and_eq_true] using hab)

/-! ### TPS -/

def TpsLine (inp out : List Pt) : Prop :=
  out.Sublist inp ∧ out.head? = inp.head? ∧ out.getLast? = inp.getLast? ∧ 2 ≤ out.length

def TpsRing (inp out : Ring) : Prop :=
  closed out = true ∧ 4 ≤ out.length ∧ ∃ k, (core out).Sublist ((core inp).rotateLeft k)

structure TpsContract (inLines outLines : List (List Pt)) (inPolys outPolys : List (List Ring)) : Prop where
  /-- same number of lines; each output line a subsequence of its input line with both endpoints kept -/
  lines : All2 TpsLine inLines outLines
  /-- same number of polygons and of rings in each; each output ring a closed cyclic subsequence of its input ring -/
  rings : All2 (All2 TpsRing) inPolys outPolys
  valid : StrictlyValid outLines outPolys

theorem tpsLineOK_sound (inp out : List Pt) (h : tpsLineOK inp out = true) : TpsLine inp out := by
  simp only [tpsLineOK, Bool.and_eq_true, decide_eq_true_eq] at h
  obtain ⟨⟨⟨h1, h2⟩, h3⟩, h4⟩ := h
  refine ⟨isSub_sound _ _ h1, h2, h3, ?_⟩
  split at h4 <;> omega

theorem tpsRingOK_sound (inp out : Ring) (h : tpsRingOK inp out = true) : TpsRing inp out := by
  simp only [tpsRingOK, Bool.and_eq_true, decide_eq_true_eq] at h
  exact ⟨h.1.1, h.1.2, cyclicSub_sound _ _ h.2⟩

theorem tpsCheck_sound (inLines outLines : List (List Pt)) (inPolys outPolys : List (List Ring))
    (h : tpsCheck inLines outLines inPolys outPolys = true) : TpsContract inLines outLines inPolys outPolys := by
  simp only [tpsCheck, Bool.and_eq_true] at h
  obtain ⟨⟨h1, h2⟩, h3⟩ := h
  refine ⟨(zipAll_sound _ _ _ h1).mono tpsLineOK_sound, ?_, strictlyValid_sound _ _ h3⟩
  exact (zipAll_sound _ _ _ h2).mono (fun a b hab => (zipAll_sound _ _ _ hab).mono tpsRingOK_sound)

/-! ### polygon hull -/

structure RingHull (grow : Bool) (inp out : Ring) : Prop where
  closed : closed out = true
  len : 4 ≤ out.length
  /-- hull vertices are input vertices in ring order (either orientation) -/
  subset : ∃ k, (core out).Sublist ((core inp).rotateLeft k) ∨ (core out).Sublist ((core inp).reverse.rotateLeft k)
  /-- growing hull: every input vertex is inside or on the hull ring -/
  contains : grow = true → ∀ v ∈ inp, locateInRing v out ≠ .exterior
  /-- shrinking hull: no input vertex is strictly inside the hull ring -/
  within : grow = false → ∀ v ∈ inp, locateInRing v out ≠ .interior
  /-- no input edge properly crosses a hull edge -/
  nocross : ∀ s ∈ segs inp, ∀ t ∈ segs out, segRel s.1 s.2 t.1 t.2 ≠ .point true

theorem ringHullOK_sound (grow : Bool) (inp out : Ring) (h : ringHullOK grow inp out = true) : RingHull grow inp out := by
  simp only [ringHullOK, Bool.and_eq_true, Bool.or_eq_true, decide_eq_true_eq, List.all_eq_true] at h
  obtain ⟨⟨⟨⟨h1, h2⟩, h3⟩, h4⟩, h5⟩ := h
  refine ⟨h1, h2, ?_, ?_, ?_, ?_⟩
  · rcases h3 with h3 | h3
    · obtain ⟨k, hk⟩ := cyclicSub_sound _ _ h3; exact ⟨k, Or.inl hk⟩
    · obtain ⟨k, hk⟩ := cyclicSub_sound _ _ h3; exact ⟨k, Or.inr hk⟩
  · intro hg v hv
    simp only [hg, if_true, List.all_eq_true] at h4
    simpa using h4 v hv
  · intro hg v hv
    simp only [hg, Bool.false_eq_true, if_false, List.all_eq_true] at h4
    simpa using h4 v hv
  · intro s hs t ht
    exact noProperCross_spec s t (h5 s hs t ht)

/-- one polygon: shell hull in the requested direction, hole hulls in the opposite one, same number of holes -/
def PolyHull (outer : Bool) (inp out : List Ring) : Prop :=
  ∃ shi hsi sho hso, inp = shi :: hsi ∧ out = sho :: hso ∧ RingHull outer shi sho ∧ All2 (RingHull (!outer)) hsi hso

theorem polyHullOK_sound (outer : Bool) (inp out : List Ring) (h : polyHullOK outer inp out = true) :
    PolyHull outer inp out := by
  match inp, out, h with
  | shi :: hsi, sho :: hso, h =>
    simp only [polyHullOK, Bool.and_eq_true] at h
    exact ⟨shi, hsi, sho, hso, rfl, rfl, ringHullOK_sound _ _ _ h.1,
      (zipAll_sound _ _ _ h.2).mono (ringHullOK_sound _)⟩
  | [], _, h => simp [polyHullOK] at h
  | _ :: _, [], h => simp [polyHullOK] at h

structure HullContract (outer : Bool) (inPolys outPolys : List (List Ring)) : Prop where
  polys : All2 (PolyHull outer) inPolys outPolys
  valid : StrictlyValid [] outPolys

theorem hullCheck_sound (outer : Bool) (inPolys outPolys : List (List Ring))
    (h : hullCheck outer inPolys outPolys = true) : HullContract outer inPolys outPolys := by
  simp only [hullCheck, Bool.and_eq_true] at h
  exact ⟨(zipAll_sound _ _ _ h.1).mono (polyHullOK_sound outer), strictlyValid_sound _ _ h.2⟩

/-! ### coverage -/

structure CovRing (inAll outAll : List Seg) (inp out : Ring) : Prop where
  closed : closed out = true
  len : 4 ≤ out.length
  subset : ∃ k, (alignedCore inp out).Sublist ((core inp).rotateLeft k)
  /-- every output segment stands for a non-empty stretch of input segments that was entirely shared with another
  ring — then the output segment occurs in exactly two output rings — or entirely on the boundary — then once -/
  matched : ∀ s ∈ cycPairs (alignedCore inp out),
    span (core inp) s.1 s.2 ≠ [] ∧
    (((∀ e ∈ span (core inp) s.1 s.2, segCount inAll e = 2) ∧ segCount outAll s = 2) ∨
     ((∀ e ∈ span (core inp) s.1 s.2, segCount inAll e = 1) ∧ segCount outAll s = 1))

theorem covRingOK_sound (inAll outAll : List Seg) (inp out : Ring) (h : covRingOK inAll outAll inp out = true) :
    CovRing inAll outAll inp out := by
  simp only [covRingOK, Bool.and_eq_true, decide_eq_true_eq, List.all_eq_true] at h
  obtain ⟨⟨⟨h1, h2⟩, h3⟩, h4⟩ := h
  refine ⟨h1, h2, cyclicSub_sound _ _ h3, ?_⟩
  intro s hs
  have := h4 s hs
  simp only [Bool.and_eq_true, Bool.or_eq_true, Bool.not_eq_true', List.isEmpty_eq_false_iff, List.all_eq_true,
    beq_iff_eq] at this
  exact ⟨this.1, this.2⟩

structure CovContract (preserveBoundary : Bool) (inPolys outPolys : List (List Ring)) : Prop where
  /-- same number of polygons and rings; every ring edge-matched as described by `CovRing`; nodes kept; boundary kept -/
  rings : All2 (All2 fun i o =>
      CovRing ((inPolys.flatMap id).flatMap segs) ((outPolys.flatMap id).flatMap segs) i o ∧
      (∀ v ∈ core i, 3 ≤ ringCountOf (inPolys.flatMap id) v → v ∈ core o) ∧
      (preserveBoundary = true → ∀ e ∈ segs i, segCount ((inPolys.flatMap id).flatMap segs) e = 1 →
        ∃ t ∈ segs o, sameSeg e t = true)) inPolys outPolys
  simple : ∀ r ∈ outPolys.flatMap id, (core r).Nodup
  /-- distinct output segments are identical, disjoint, or touch in a common endpoint -/
  segs_ok : ((((outPolys.flatMap id).flatMap segs).map normSeg).eraseDups).Pairwise fun s t => segOKCov s t = true

theorem covCheck_sound (pb : Bool) (inPolys outPolys : List (List Ring)) (h : covCheck pb inPolys outPolys = true) :
    CovContract pb inPolys outPolys := by
  simp only [covCheck, Bool.and_eq_true, List.all_eq_true, decide_eq_true_eq] at h
  obtain ⟨⟨h1, h2⟩, h3⟩ := h
  refine ⟨?_, h2, allPairs_sound _ _ h3⟩
  refine (zipAll_sound _ _ _ h1).mono (fun a b hab => (zipAll_sound _ _ _ hab).mono ?_)
  intro i o hio
  simp only [Bool.and_eq_true, Bool.or_eq_true, Bool.not_eq_true'] at hio
  obtain ⟨⟨hr, hn⟩, hb⟩ := hio
  refine ⟨covRingOK_sound _ _ _ _ hr, ?_, ?_⟩
  · intro v hv h3
    simp only [covNodesOK, List.all_eq_true, Bool.or_eq_true, decide_eq_true_eq, memB_iff] at hn
    rcases hn v hv with h | h
    · omega
    · exact h
  · intro hpb e he hc
    rcases hb with hb | hb
    · simp [hpb] at hb
    · simp only [covBoundaryOK, List.all_eq_true, Bool.or_eq_true, bne_iff_ne, ne_eq, List.any_eq_true] at hb
      rcases hb e he with h | h
      · exact absurd hc h
      · exact h

end GeosModel.Simplify
