import GeosModel.Model.Simplify.VertexIndex
/-!
Invariant of the model of `VertexSequencePackedRtree` and what it gives: a query returns exactly the items that
were not removed and lie in the query box, after any sequence of `remove`s.
-/
namespace GeosModel.VSPR

/-! ### envelopes -/

theorem inter_of_common_pt (q b : Env) (x y : Int) (h1 : Env.containsPt q x y = true) (h2 : Env.containsPt b x y = true) :
    Env.inter q b = true := by
  cases q <;> cases b <;> simp_all [Env.containsPt, Env.inter]
  omega

theorem covers_containsPt (p c : Env) (x y : Int) (h : Env.covers p c = true) (hc : Env.containsPt c x y = true) :
    Env.containsPt p x y = true := by
  cases p <;> cases c <;> simp_all [Env.containsPt, Env.covers]
  omega

theorem containsPt_ne_null (b : Env) (x y : Int) (h : Env.containsPt b x y = true) : b.isNull = false := by
  cases b <;> simp_all [Env.containsPt, Env.isNull]

/-! ### list facts with the defaults the model uses -/

theorem getD_set_none (l : List Env) (p q : Nat) : (l.set p none).getD q none = if q = p then none else l.getD q none := by
  by_cases h : q = p
  · subst h
    by_cases hl : q < l.length <;> simp [List.getD_eq_getElem?_getD, hl]
  · have : ¬ p = q := fun e => h e.symm
    simp [List.getD_eq_getElem?_getD, h, this]

theorem getD_set_true (l : List Bool) (p q : Nat) : (l.set p true).getD q true = if q = p then true else l.getD q true := by
  by_cases h : q = p
  · subst h
    by_cases hl : q < l.length <;> simp [List.getD_eq_getElem?_getD, hl]
  · have : ¬ p = q := fun e => h e.symm
    simp [List.getD_eq_getElem?_getD, h, this]

/-! ### shape of the level table, invariant of the bounds -/

/-- every item that is not removed lies in the bounds of its leaf node; whatever lies in the bounds of a node lies in
the bounds of its parent (a null envelope contains nothing) -/
def Inv (t : Tree) : Prop :=
  (∀ i, i < t.items.length → isRemoved t i = false →
      Env.containsPt (bnd t 0 (i / cap)) (item t i).1 (item t i).2 = true) ∧
  (∀ l c, l + 1 < t.levelOffset.length → c < levelSize t l →
      ∀ x y, Env.containsPt (bnd t l c) x y = true → Env.containsPt (bnd t (l + 1) (c / cap)) x y = true)

theorem invC_inv (t : Tree) (h : InvC t) : Inv t := by
  refine ⟨h.1, ?_⟩
  intro l c hl hc x y hxy
  have := h.2 l (by omega) c hc
  unfold nodeOK at this
  cases hb : bnd t l c with
  | none => rw [hb] at hxy; simp [Env.containsPt] at hxy
  | some b =>
    rw [hb] at this hxy
    exact covers_containsPt _ _ x y this hxy

/-- the ancestors of item `i`: node index at level `l` -/
def anc (i : Nat) : Nat → Nat
  | 0 => i / cap
  | l + 1 => anc i l / cap

theorem div_lt_ceil (a m : Nat) (h : a < m) : a / cap < ceilDivisor m cap := by
  unfold ceilDivisor cap
  simp only
  split <;> omega

theorem off_mono (t : Tree) (hs : Shape t) : ∀ b a, a ≤ b → b < t.levelOffset.length → off t a ≤ off t b := by
  intro b
  induction b with
  | zero => intro a ha _; have : a = 0 := by omega
            subst this; exact Nat.le_refl _
  | succ b ih =>
    intro a ha hb
    by_cases h : a = b + 1
    · subst h; exact Nat.le_refl _
    · have h1 := ih a (by omega) (by omega)
      have h2 := hs.2.2.1 b (by omega)
      omega

theorem off_succ (t : Tree) (hs : Shape t) (l : Nat) (hl : l + 1 < t.levelOffset.length) :
    off t (l + 1) = off t l + levelSize t l := by
  have := hs.2.2.1 l (by omega)
  unfold levelSize; omega

theorem anc_lt (t : Tree) (hs : Shape t) (i : Nat) (hi : i < t.items.length) :
    ∀ l, l + 1 < t.levelOffset.length → anc i l < levelSize t l := by
  intro l
  induction l with
  | zero => intro _; rw [hs.2.2.2.1]; exact div_lt_ceil _ _ hi
  | succ l ih =>
    intro hl
    rw [hs.2.2.2.2.1 l (by omega)]
    exact div_lt_ceil _ _ (ih (by omega))

theorem anc_contains (t : Tree) (hs : Shape t) (hv : Inv t) (i : Nat) (hi : i < t.items.length)
    (hr : isRemoved t i = false) :
    ∀ l, l < t.levelOffset.length → Env.containsPt (bnd t l (anc i l)) (item t i).1 (item t i).2 = true := by
  intro l
  induction l with
  | zero => intro _; exact hv.1 i hi hr
  | succ l ih =>
    intro hl
    exact hv.2 l (anc i l) hl (anc_lt t hs i hi l hl) _ _ (ih (by omega))

/-! ### query -/

theorem mem_queryItemRange (t : Tree) (q : Env) (s i : Nat) :
    i ∈ queryItemRange t q s ↔ s ≤ i ∧ i < s + cap ∧ i < t.items.length ∧ isRemoved t i = false ∧
      Env.containsPt q (item t i).1 (item t i).2 = true := by
  unfold queryItemRange
  simp only [List.mem_flatMap, List.mem_range]
  constructor
  · rintro ⟨a, ha, hm⟩
    by_cases h1 : s + a ≥ t.items.length
    · simp [h1] at hm
    · by_cases h2 : (!isRemoved t (s + a) && Env.containsPt q (item t (s + a)).1 (item t (s + a)).2) = true
      · simp only [h1, h2, if_true, if_false, List.mem_singleton] at hm
        subst hm
        simp only [Bool.and_eq_true, Bool.not_eq_true'] at h2
        exact ⟨by omega, by omega, by omega, h2.1, h2.2⟩
      · simp [h1, h2] at hm
  · rintro ⟨h1, h2, h3, h4, h5⟩
    refine ⟨i - s, by omega, ?_⟩
    have e : s + (i - s) = i := by omega
    simp only [e]
    have : ¬ i ≥ t.items.length := by omega
    simp [this, h4, h5]

theorem queryNode_sound (t : Tree) (q : Env) : ∀ l k i, i ∈ queryNode t q l k →
    i < t.items.length ∧ isRemoved t i = false ∧ Env.containsPt q (item t i).1 (item t i).2 = true := by
  intro l
  induction l with
  | zero =>
    intro k i h
    unfold queryNode at h
    simp only at h
    split at h
    · simp at h
    · split at h
      · simp at h
      · have := (mem_queryItemRange t q _ i).1 h
        exact ⟨this.2.2.1, this.2.2.2.1, this.2.2.2.2⟩
  | succ l ih =>
    intro k i h
    unfold queryNode at h
    simp only at h
    split at h
    · simp at h
    · split at h
      · simp at h
      · simp only [List.mem_flatMap, List.mem_range] at h
        obtain ⟨a, _, hm⟩ := h
        split at hm
        · simp at hm
        · exact ih _ _ hm

theorem mem_queryNode_anc (t : Tree) (q : Env) (hs : Shape t) (hv : Inv t) (i : Nat) (hi : i < t.items.length)
    (hr : isRemoved t i = false) (hq : Env.containsPt q (item t i).1 (item t i).2 = true) :
    ∀ l, l < t.levelOffset.length → i ∈ queryNode t q l (anc i l) := by
  intro l
  induction l with
  | zero =>
    intro hl
    have hc := anc_contains t hs hv i hi hr 0 hl
    unfold queryNode
    simp only [containsPt_ne_null _ _ _ hc, inter_of_common_pt _ _ _ _ hq hc]
    simp only [Bool.false_eq_true, if_false, Bool.not_true]
    rw [mem_queryItemRange]
    have : anc i 0 = i / cap := rfl
    rw [this]
    unfold cap
    exact ⟨by omega, by omega, hi, hr, hq⟩
  | succ l ih =>
    intro hl
    have hc := anc_contains t hs hv i hi hr (l + 1) hl
    unfold queryNode
    simp only [containsPt_ne_null _ _ _ hc, inter_of_common_pt _ _ _ _ hq hc]
    simp only [Bool.false_eq_true, if_false, Bool.not_true]
    simp only [List.mem_flatMap, List.mem_range]
    refine ⟨anc i l % cap, by unfold cap; omega, ?_⟩
    have e : anc i (l + 1) * cap + anc i l % cap = anc i l := by
      have : anc i (l + 1) = anc i l / cap := rfl
      rw [this]; unfold cap; omega
    rw [e]
    have := anc_lt t hs i hi l hl
    have : ¬ anc i l ≥ levelSize t l := by omega
    simp only [this, if_false]
    exact ih (by omega)

theorem anc_top (t : Tree) (hs : Shape t) (i : Nat) (hi : i < t.items.length) : anc i (t.levelOffset.length - 1) = 0 := by
  have h2 := hs.1
  have h := anc_lt t hs i hi (t.levelOffset.length - 2) (by omega)
  rw [hs.2.2.2.2.2] at h
  have e : t.levelOffset.length - 1 = (t.levelOffset.length - 2) + 1 := by omega
  rw [e]
  show anc i (t.levelOffset.length - 2) / cap = 0
  have : anc i (t.levelOffset.length - 2) = 0 := by omega
  rw [this]; rfl

theorem query_complete' (t : Tree) (q : Env) (hs : Shape t) (hv : Inv t) (i : Nat) (hi : i < t.items.length)
    (hr : isRemoved t i = false) (hq : Env.containsPt q (item t i).1 (item t i).2 = true) : i ∈ query t q := by
  unfold query
  have := mem_queryNode_anc t q hs hv i hi hr hq (t.levelOffset.length - 1) (by have := hs.1; omega)
  rw [anc_top t hs i hi] at this
  exact this

/-! ### remove -/

@[simp] theorem off_markRemoved (t : Tree) (k l : Nat) : off (markRemoved t k) l = off t l := rfl
@[simp] theorem off_nullBound (t : Tree) (p l : Nat) : off (nullBound t p) l = off t l := rfl
@[simp] theorem levelSize_markRemoved (t : Tree) (k l : Nat) : levelSize (markRemoved t k) l = levelSize t l := rfl
@[simp] theorem levelSize_nullBound (t : Tree) (p l : Nat) : levelSize (nullBound t p) l = levelSize t l := rfl
@[simp] theorem bnd_markRemoved (t : Tree) (k l c : Nat) : bnd (markRemoved t k) l c = bnd t l c := rfl
@[simp] theorem item_markRemoved (t : Tree) (k i : Nat) : item (markRemoved t k) i = item t i := rfl
@[simp] theorem item_nullBound (t : Tree) (p i : Nat) : item (nullBound t p) i = item t i := rfl
@[simp] theorem isRemoved_nullBound (t : Tree) (p i : Nat) : isRemoved (nullBound t p) i = isRemoved t i := rfl

theorem isRemoved_markRemoved (t : Tree) (k i : Nat) :
    isRemoved (markRemoved t k) i = if i = k then true else isRemoved t i := getD_set_true _ _ _

theorem bnd_nullBound (t : Tree) (p l c : Nat) :
    bnd (nullBound t p) l c = if off t l + c = p then none else bnd t l c := getD_set_none _ _ _

theorem shape_markRemoved (t : Tree) (k : Nat) (h : Shape t) : Shape (markRemoved t k) := h
theorem shape_nullBound (t : Tree) (p : Nat) (h : Shape t) : Shape (nullBound t p) := h

theorem inv_markRemoved (t : Tree) (k : Nat) (h : Inv t) : Inv (markRemoved t k) := by
  refine ⟨?_, h.2⟩
  intro i hi hr
  rw [isRemoved_markRemoved] at hr
  by_cases e : i = k
  · simp [e] at hr
  · simp only [e, if_false] at hr
    exact h.1 i hi hr

/-- what a `true` answer of `isItemsNodeEmpty` means -/
theorem isItemsNodeEmpty_spec (t : Tree) (j : Nat) (h : isItemsNodeEmpty t j = true) :
    ∀ i, i / cap = j → i < t.items.length → isRemoved t i = true := by
  intro i hij hi
  unfold isItemsNodeEmpty at h
  simp only [List.all_eq_true, List.mem_range] at h
  have := h (i - j * cap) (by unfold clampMax cap at *; split <;> omega)
  have e : j * cap + (i - j * cap) = i := by unfold cap at *; omega
  rw [e] at this
  exact this

/-- what a `true` answer of `isNodeEmpty(1, k)` means -/
theorem isNodeEmpty_spec (t : Tree) (k : Nat) (h : isNodeEmpty t 1 k = true) :
    ∀ c, c / cap = k → c < off t 1 → (t.bounds.getD c none).isNull = true := by
  intro c hck hc
  unfold isNodeEmpty at h
  simp only [List.all_eq_true, List.mem_range] at h
  have := h (c - k * cap) (by unfold clampMax cap at *; split <;> omega)
  have e : k * cap + (c - k * cap) = c := by unfold cap at *; omega
  rw [e] at this
  exact this

theorem containsPt_none (x y : Int) : Env.containsPt none x y = false := rfl

/-- nulling the bounds of a leaf node all of whose items are removed keeps the invariant -/
theorem inv_nullBound_leaf (t : Tree) (hs : Shape t) (hv : Inv t) (j : Nat) (hj : j < levelSize t 0)
    (he : ∀ i, i / cap = j → i < t.items.length → isRemoved t i = true) : Inv (nullBound t j) := by
  constructor
  · intro i hi hr
    simp only [isRemoved_nullBound, item_nullBound] at *
    rw [bnd_nullBound, hs.2.1]
    by_cases e : 0 + i / cap = j
    · have := he i (by omega) hi
      rw [this] at hr; simp at hr
    · simp only [e, if_false]
      exact hv.1 i hi hr
  · intro l c hl hc x y hxy
    simp only [levelSize_nullBound] at hc
    rw [bnd_nullBound] at hxy
    by_cases e : off t l + c = j
    · simp [e, containsPt_none] at hxy
    · simp only [e, if_false] at hxy
      have hp := hv.2 l c hl hc x y hxy
      rw [bnd_nullBound]
      have h1 : off t 1 = off t 0 + levelSize t 0 := off_succ t hs 0 (by have := hs.1; omega)
      have h2 := off_mono t hs (l + 1) 1 (by omega) hl
      have h0 := hs.2.1
      have : ¬ off t (l + 1) + c / cap = j := by
        generalize c / cap = q at *
        omega
      simp only [this, if_false]
      exact hp

/-- nulling the bounds of a level-1 node all of whose children are null keeps the invariant -/
theorem inv_nullBound_node (t : Tree) (hs : Shape t) (hv : Inv t) (h3 : 2 < t.levelOffset.length) (k : Nat)
    (hk : k < levelSize t 1)
    (he : ∀ c, c / cap = k → c < off t 1 → (t.bounds.getD c none).isNull = true) : Inv (nullBound t (off t 1 + k)) := by
  have h0 := hs.2.1
  have h1 : off t 1 = off t 0 + levelSize t 0 := off_succ t hs 0 (by omega)
  have h2 : off t 2 = off t 1 + levelSize t 1 := off_succ t hs 1 (by omega)
  constructor
  · intro i hi hr
    simp only [isRemoved_nullBound, item_nullBound] at *
    rw [bnd_nullBound]
    have := anc_lt t hs i hi 0 (by omega)
    have ea : anc i 0 = i / cap := rfl
    rw [ea] at this
    have : ¬ off t 0 + i / cap = off t 1 + k := by omega
    simp only [this, if_false]
    exact hv.1 i hi hr
  · intro l c hl hc x y hxy
    simp only [levelSize_nullBound] at hc
    rw [bnd_nullBound] at hxy
    by_cases e : off t l + c = off t 1 + k
    · simp [e, containsPt_none] at hxy
    · simp only [e, if_false] at hxy
      have hp := hv.2 l c hl hc x y hxy
      rw [bnd_nullBound]
      by_cases e2 : off t (l + 1) + c / cap = off t 1 + k
      · exfalso
        cases l with
        | zero =>
          have e2' : off t 1 + c / cap = off t 1 + k := e2
          have hck : c / cap = k := by omega
          have hn := he c hck (by omega)
          have : bnd t 0 c = t.bounds.getD c none := by unfold bnd; rw [h0]; simp
          rw [this] at hxy
          cases hb : t.bounds.getD c none with
          | none => rw [hb] at hxy; simp [containsPt_none] at hxy
          | some b => rw [hb] at hn; simp [Env.isNull] at hn
        | succ l =>
          have := off_mono t hs (l + 1 + 1) 2 (by omega) hl
          generalize c / cap = q at *
          omega
      · simp only [e2, if_false]
        exact hp

theorem shape_remove (t : Tree) (k : Nat) (hs : Shape t) : Shape (remove t k) := by
  unfold remove
  simp only
  split
  · exact hs
  · split
    · exact hs
    · split
      · exact hs
      · exact hs

theorem inv_remove (t : Tree) (k : Nat) (hs : Shape t) (hv : Inv t) (hk : k < t.items.length) : Inv (remove t k) := by
  have hs1 := shape_markRemoved t k hs
  have hv1 := inv_markRemoved t k hv
  unfold remove
  simp only
  split
  · exact hv1
  · rename_i hE
    simp only [Bool.not_eq_true, Bool.not_eq_false'] at hE
    have hj : k / cap < levelSize (markRemoved t k) 0 := by
      have := anc_lt t hs k hk 0 (by have := hs.1; omega)
      exact this
    have hv2 := inv_nullBound_leaf (markRemoved t k) hs1 hv1 (k / cap) hj (isItemsNodeEmpty_spec _ _ (by simpa using hE))
    have hs2 := shape_nullBound (markRemoved t k) (k / cap) hs1
    split
    · exact hv2
    · rename_i hL
      split
      · exact hv2
      · rename_i hN
        have h3 : 2 < (nullBound (markRemoved t k) (k / cap)).levelOffset.length := by omega
        have hk1 : k / cap / cap < levelSize (nullBound (markRemoved t k) (k / cap)) 1 := by
          have := anc_lt t hs k hk 1 (by
            have : (nullBound (markRemoved t k) (k / cap)).levelOffset = t.levelOffset := rfl
            rw [this] at h3; omega)
          exact this
        exact inv_nullBound_node _ hs2 hv2 h3 _ hk1 (isNodeEmpty_spec _ _ (by simpa using hN))

theorem items_remove (t : Tree) (k : Nat) : (remove t k).items = t.items := by
  unfold remove
  simp only
  split
  · rfl
  · split
    · rfl
    · split <;> rfl

theorem isRemoved_remove (t : Tree) (k i : Nat) : isRemoved (remove t k) i = if i = k then true else isRemoved t i := by
  have h := isRemoved_markRemoved t k i
  unfold remove
  simp only
  split
  · exact h
  · split
    · exact h
    · split <;> exact h

/-- well-formed trees: `Shape` and `Inv` -/
def WF (t : Tree) : Prop := Shape t ∧ Inv t

theorem wf_removes (t : Tree) (hw : WF t) (ks : List Nat) (hk : ∀ k ∈ ks, k < t.items.length) : WF (ks.foldl remove t) := by
  induction ks generalizing t with
  | nil => exact hw
  | cons k r ih =>
    simp only [List.foldl_cons]
    apply ih
    · exact ⟨shape_remove t k hw.1, inv_remove t k hw.1 hw.2 (hk k (by simp))⟩
    · intro k' hk'
      rw [items_remove]
      exact hk k' (by simp [hk'])

theorem isRemoved_removes (t : Tree) (ks : List Nat) (i : Nat) :
    isRemoved (ks.foldl remove t) i = (isRemoved t i || ks.contains i) := by
  induction ks generalizing t with
  | nil => simp
  | cons k r ih =>
    simp only [List.foldl_cons, ih, isRemoved_remove, List.contains_cons]
    by_cases e : i = k
    · simp [e]
    · have : (i == k) = false := by simp [e]
      simp [e, this]

theorem items_removes (t : Tree) (ks : List Nat) : (ks.foldl remove t).items = t.items := by
  induction ks generalizing t with
  | nil => rfl
  | cons k r ih => simp only [List.foldl_cons, ih, items_remove]

/-- searching the query answer = searching all live items, for any test that implies membership in the query box -/
theorem any_query (t : Tree) (hw : WF t) (q : Env) (P : Nat → Bool)
    (hP : ∀ i, P i = true → Env.containsPt q (item t i).1 (item t i).2 = true) :
    (query t q).any P = (List.range t.items.length).any (fun i => !isRemoved t i && P i) := by
  rw [Bool.eq_iff_iff, List.any_eq_true, List.any_eq_true]
  constructor
  · rintro ⟨i, hi, hp⟩
    have := queryNode_sound t q _ _ i hi
    exact ⟨i, List.mem_range.2 this.1, by simp [this.2.1, hp]⟩
  · rintro ⟨i, hi, hp⟩
    simp only [Bool.and_eq_true, Bool.not_eq_true'] at hp
    exact ⟨i, query_complete' t q hw.1 hw.2 i (List.mem_range.1 hi) hp.1 (hP i hp.2), hp.2⟩

end GeosModel.VSPR
