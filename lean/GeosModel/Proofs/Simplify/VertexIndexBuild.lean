import GeosModel.Proofs.Simplify.VertexIndex
/-!
The tree `build` produces is well-formed (`Shape` and `Inv`) for every non-empty coordinate list: the two `do … while`
loops of `fillItemBounds` / `fillLevelBounds` and the loop over the levels of `createBounds`, with the flat index arithmetic of the C++.
-/
namespace GeosModel.VSPR

/-- the five facts of `Shape` for a level table `X = prev :: levelOffsetsGo f sz prev` -/
structure Chain (sz : Nat) (X : List Nat) : Prop where
  len : 2 ≤ X.length
  mono : ∀ l, l < X.length - 1 → X.getD l 0 ≤ X.getD (l + 1) 0
  first : X.getD 1 0 - X.getD 0 0 = ceilDivisor sz cap
  step : ∀ l, l < X.length - 2 → X.getD (l + 2) 0 - X.getD (l + 1) 0 = ceilDivisor (X.getD (l + 1) 0 - X.getD l 0) cap
  last : X.getD (X.length - 1) 0 - X.getD (X.length - 2) 0 = 1

theorem ceil_pos (sz : Nat) (h : 1 ≤ sz) : 1 ≤ ceilDivisor sz cap := by
  unfold ceilDivisor cap; simp only; split <;> omega

theorem ceil_lt (sz : Nat) (h : 1 < ceilDivisor sz cap) : ceilDivisor sz cap < sz := by
  unfold ceilDivisor cap at *; simp only at *; split at h <;> split <;> omega

theorem chain_go : ∀ (f sz prev : Nat), 1 ≤ sz → sz < f → Chain sz (prev :: levelOffsetsGo f sz prev)
  | 0, sz, prev, h1, h2 => by omega
  | f + 1, sz, prev, h1, h2 => by
    have hc := ceil_pos sz h1
    unfold levelOffsetsGo levelNodeCount
    simp only
    by_cases hgt : ceilDivisor sz cap > 1
    · simp only [hgt, if_true]
      have ih := chain_go f (ceilDivisor sz cap) (prev + ceilDivisor sz cap) hc (by have := ceil_lt sz hgt; omega)
      generalize levelOffsetsGo f (ceilDivisor sz cap) (prev + ceilDivisor sz cap) = R at ih
      constructor
      · simp only [List.length_cons]; omega
      · intro l hl
        cases l with
        | zero => simp
        | succ l =>
          have := ih.mono l (by simp only [List.length_cons] at hl ⊢; omega)
          simpa using this
      · simp
      · intro l hl
        cases l with
        | zero =>
          have := ih.first
          simp only [List.getD_cons_succ, List.getD_cons_zero] at this ⊢
          rw [this]; congr 1; omega
        | succ l =>
          have := ih.step l (by simp only [List.length_cons] at hl ⊢; omega)
          simpa using this
      · have := ih.last
        have hl := ih.len
        simp only [List.length_cons] at this hl ⊢
        have e1 : R.length + 1 + 1 - 1 = (R.length + 1 - 1) + 1 := by omega
        have e2 : R.length + 1 + 1 - 2 = (R.length + 1 - 2) + 1 := by omega
        rw [e1, e2]
        simpa using this
    · have hc1 : ceilDivisor sz cap = 1 := by omega
      simp only [hc1]
      simp only [show ¬ (1 > 1) by omega, if_false]
      constructor
      · simp
      · intro l hl
        have : l = 0 := by simp at hl; omega
        subst this; simp
      · simp [hc1]
      · intro l hl; simp at hl
      · simp

theorem shape_build (items : List (Int × Int)) (h : items ≠ []) : Shape (build items) := by
  have hn : 1 ≤ items.length := by
    cases items with
    | nil => exact absurd rfl h
    | cons _ _ => simp
  have c := chain_go (items.length + 1) items.length 0 hn (by omega)
  have hlo : (build items).levelOffset = 0 :: levelOffsetsGo (items.length + 1) items.length 0 := rfl
  have hit : (build items).items = items := rfl
  unfold Shape levelSize off
  rw [hlo, hit]
  refine ⟨c.len, by simp, c.mono, c.first, ?_, c.last⟩
  intro l hl
  exact c.step l hl


/-! ### envelopes of slices -/

theorem containsPt_union_left (a b : Env) (x y : Int) (h : Env.containsPt a x y = true) :
    Env.containsPt (Env.union a b) x y = true := by
  cases a with
  | none => simp [Env.containsPt] at h
  | some a =>
    cases b with
    | none => simpa [Env.union] using h
    | some o =>
      simp only [Env.union, Env.containsPt, Bool.and_eq_true, decide_eq_true_eq] at h ⊢
      refine ⟨⟨⟨?_, ?_⟩, ?_⟩, ?_⟩ <;> split <;> omega

theorem containsPt_union_right (a b : Env) (x y : Int) (h : Env.containsPt b x y = true) :
    Env.containsPt (Env.union a b) x y = true := by
  cases b with
  | none => simp [Env.containsPt] at h
  | some o =>
    cases a with
    | none => simpa [Env.union] using h
    | some a =>
      simp only [Env.union, Env.containsPt, Bool.and_eq_true, decide_eq_true_eq] at h ⊢
      refine ⟨⟨⟨?_, ?_⟩, ?_⟩, ?_⟩ <;> split <;> omega

theorem foldl_union_acc (l : List Env) : ∀ (acc : Env) (x y : Int), Env.containsPt acc x y = true →
    Env.containsPt (l.foldl (fun env b => Env.union env b) acc) x y = true := by
  induction l with
  | nil => intro acc x y h; simpa using h
  | cons e r ih => intro acc x y h; simp only [List.foldl_cons]; exact ih _ x y (containsPt_union_left _ _ x y h)

theorem foldl_union_mem (l : List Env) : ∀ (acc : Env) (e : Env), e ∈ l → ∀ x y, Env.containsPt e x y = true →
    Env.containsPt (l.foldl (fun env b => Env.union env b) acc) x y = true := by
  induction l with
  | nil => intro acc e he; simp at he
  | cons a r ih =>
    intro acc e he x y h
    simp only [List.foldl_cons]
    rcases List.mem_cons.1 he with rfl | hr
    · exact foldl_union_acc r _ x y (containsPt_union_right _ _ x y h)
    · exact ih _ e hr x y h

theorem mem_slice {α : Type} (l : List α) (s e i : Nat) (d : α) (h1 : s ≤ i) (h2 : i < e) (h3 : i < l.length) :
    l.getD i d ∈ (l.drop s).take (e - s) := by
  have hlen : i - s < ((l.drop s).take (e - s)).length := by simp; omega
  have : ((l.drop s).take (e - s))[i - s] = l.getD i d := by
    simp only [List.getElem_take, List.getElem_drop]
    have e1 : s + (i - s) = i := by omega
    simp [e1, List.getD_eq_getElem?_getD, h3]
  rw [← this]
  exact List.getElem_mem hlen

theorem computeNodeEnvelope_contains (b : List Env) (s e i : Nat) (h1 : s ≤ i) (h2 : i < e) (h3 : i < b.length)
    (x y : Int) (h : Env.containsPt (b.getD i none) x y = true) :
    Env.containsPt (computeNodeEnvelope b s e) x y = true := by
  unfold computeNodeEnvelope
  exact foldl_union_mem _ none _ (mem_slice b s e i none h1 h2 h3) x y h

theorem computeItemEnvelope_contains (items : List (Int × Int)) (s e i : Nat) (h1 : s ≤ i) (h2 : i < e) (h3 : i < items.length) :
    Env.containsPt (computeItemEnvelope items s e) (items.getD i (0, 0)).1 (items.getD i (0, 0)).2 = true := by
  unfold computeItemEnvelope
  rw [← List.foldl_map (f := ptBox) (g := fun env b => Env.union env b)]
  apply foldl_union_mem _ none (ptBox (items.getD i (0, 0)))
  · exact List.mem_map.2 ⟨_, mem_slice items s e i (0, 0) h1 h2 h3, rfl⟩
  · simp [ptBox, Env.containsPt]


/-! ### the two filling loops -/

theorem getD_set (l : List Env) (p q : Nat) (v : Env) (hp : p < l.length) :
    (l.set p v).getD q none = if q = p then v else l.getD q none := by
  by_cases h : q = p
  · subst h; simp [List.getD_eq_getElem?_getD, hp]
  · have : ¬ p = q := fun e => h e.symm
    simp [List.getD_eq_getElem?_getD, h, this]

theorem fillItem_spec (items : List (Int × Int)) : ∀ (f ns j0 : Nat) (b : List Env), ns = 16 * j0 → ns < items.length →
    items.length - ns < f → ceilDivisor items.length cap ≤ b.length →
    (fillItemBoundsGo items f ns j0 b).length = b.length ∧
    (∀ p, p < j0 → (fillItemBoundsGo items f ns j0 b).getD p none = b.getD p none) ∧
    (∀ i, ns ≤ i → i < items.length →
      Env.containsPt ((fillItemBoundsGo items f ns j0 b).getD (i / 16) none) (items.getD i (0, 0)).1 (items.getD i (0, 0)).2 = true)
  | 0, ns, j0, b, _, _, h3, _ => by omega
  | f + 1, ns, j0, b, h1, h2, h3, h4 => by
    have hj : j0 < b.length := by
      unfold ceilDivisor cap at h4; simp only at h4; split at h4 <;> omega
    unfold fillItemBoundsGo
    simp only
    have hne : clampMax (ns + cap) items.length = if ns + 16 > items.length then items.length else ns + 16 := by
      unfold clampMax cap; rfl
    by_cases hc : clampMax (ns + cap) items.length < items.length
    · simp only [hc, if_true]
      have he : clampMax (ns + cap) items.length = 16 * (j0 + 1) := by rw [hne]; rw [hne] at hc; split at hc <;> split <;> omega
      rw [he]
      have ih := fillItem_spec items f (16 * (j0 + 1)) (j0 + 1) (b.set j0 (computeItemEnvelope items ns (16 * (j0 + 1))))
        rfl (by omega) (by omega) (by simpa using h4)
      obtain ⟨i1, i2, i3⟩ := ih
      refine ⟨by simpa using i1, ?_, ?_⟩
      · intro p hp
        rw [i2 p (by omega), getD_set _ _ _ _ hj]
        have : ¬ p = j0 := by omega
        simp [this]
      · intro i hi1 hi2
        by_cases hi : 16 * (j0 + 1) ≤ i
        · exact i3 i hi hi2
        · have e : i / 16 = j0 := by omega
          rw [e, i2 j0 (by omega), getD_set _ _ _ _ hj]
          simp only [if_true]
          exact computeItemEnvelope_contains items ns _ i hi1 (by omega) hi2
    · simp only [hc, if_false]
      have he : clampMax (ns + cap) items.length = items.length := by rw [hne]; rw [hne] at hc; split at hc <;> split <;> omega
      refine ⟨by simp, ?_, ?_⟩
      · intro p hp
        rw [getD_set _ _ _ _ hj]
        have : ¬ p = j0 := by omega
        simp [this]
      · intro i hi1 hi2
        have hle : items.length ≤ ns + 16 := by rw [hne] at he; split at he <;> omega
        have e : i / 16 = j0 := by omega
        rw [e, getD_set _ _ _ _ hj, he]
        simp only [if_true]
        exact computeItemEnvelope_contains items ns _ i hi1 hi2 hi2

theorem fillLevel_spec (ls le : Nat) (hle : ls ≤ le) : ∀ (f ns bi k0 : Nat) (b : List Env), ns = ls + 16 * k0 → bi = le + k0 →
    ns < le → le - ns < f → le + ceilDivisor (le - ls) cap ≤ b.length →
    (fillLevelBoundsGo le f ns bi b).length = b.length ∧
    (∀ p, p < bi → (fillLevelBoundsGo le f ns bi b).getD p none = b.getD p none) ∧
    (∀ c, 16 * k0 ≤ c → c < le - ls → ∀ x y, Env.containsPt (b.getD (ls + c) none) x y = true →
      Env.containsPt ((fillLevelBoundsGo le f ns bi b).getD (le + c / 16) none) x y = true)
  | 0, ns, bi, k0, b, _, _, _, h4, _ => by omega
  | f + 1, ns, bi, k0, b, h1, h2, h3, h4, h5 => by
    have hb : bi < b.length := by
      unfold ceilDivisor cap at h5; simp only at h5; split at h5 <;> omega
    unfold fillLevelBoundsGo
    simp only
    have hne : clampMax (ns + cap) le = if ns + 16 > le then le else ns + 16 := by
      unfold clampMax cap; rfl
    by_cases hc : clampMax (ns + cap) le < le
    · simp only [hc, if_true]
      have he : clampMax (ns + cap) le = ls + 16 * (k0 + 1) := by rw [hne]; rw [hne] at hc; split at hc <;> split <;> omega
      rw [he]
      have ih := fillLevel_spec ls le hle f (ls + 16 * (k0 + 1)) (bi + 1) (k0 + 1)
        (b.set bi (computeNodeEnvelope b ns (ls + 16 * (k0 + 1)))) rfl (by omega) (by omega) (by omega) (by simpa using h5)
      obtain ⟨i1, i2, i3⟩ := ih
      refine ⟨by simpa using i1, ?_, ?_⟩
      · intro p hp
        rw [i2 p (by omega), getD_set _ _ _ _ hb]
        have : ¬ p = bi := by omega
        simp [this]
      · intro c hc1 hc2 x y hxy
        by_cases hi : 16 * (k0 + 1) ≤ c
        · apply i3 c hi hc2 x y
          rw [getD_set _ _ _ _ hb]
          have : ¬ ls + c = bi := by omega
          simp only [this, if_false]
          exact hxy
        · have e : c / 16 = k0 := by omega
          rw [e, ← h2, i2 bi (by omega), getD_set _ _ _ _ hb]
          simp only [if_true]
          exact computeNodeEnvelope_contains b ns _ (ls + c) (by omega) (by omega) (by omega) x y hxy
    · simp only [hc, if_false]
      have he : clampMax (ns + cap) le = le := by rw [hne]; rw [hne] at hc; split at hc <;> split <;> omega
      refine ⟨by simp, ?_, ?_⟩
      · intro p hp
        rw [getD_set _ _ _ _ hb]
        have : ¬ p = bi := by omega
        simp [this]
      · intro c hc1 hc2 x y hxy
        have hle2 : le ≤ ns + 16 := by rw [hne] at he; split at he <;> omega
        have e : c / 16 = k0 := by omega
        rw [e, ← h2, getD_set _ _ _ _ hb, he]
        simp only [if_true]
        exact computeNodeEnvelope_contains b ns _ (ls + c) (by omega) (by omega) (by omega) x y hxy


/-! ### the fold over the levels -/

theorem chain_sizes_pos (sz : Nat) (X : List Nat) (c : Chain sz X) (h : 1 ≤ sz) :
    ∀ l, l < X.length - 1 → 1 ≤ X.getD (l + 1) 0 - X.getD l 0 := by
  intro l
  induction l with
  | zero => intro _; have := c.first; have := ceil_pos sz h; simp only [Nat.zero_add] at *; omega
  | succ l ih =>
    intro hl
    have h1 := ih (by omega)
    have h2 := c.step l (by omega)
    have h3 := ceil_pos _ h1
    have e : l + 1 + 1 = l + 2 := rfl
    rw [e, h2]; exact h3

theorem chain_mono_trans (sz : Nat) (X : List Nat) (c : Chain sz X) :
    ∀ b a, a ≤ b → b < X.length → X.getD a 0 ≤ X.getD b 0 := by
  intro b
  induction b with
  | zero => intro a ha _; have : a = 0 := by omega
            subst this; exact Nat.le_refl _
  | succ b ih =>
    intro a ha hb
    by_cases h : a = b + 1
    · subst h; exact Nat.le_refl _
    · have h1 := ih a (by omega) (by omega)
      have h2 := c.mono b (by omega)
      omega

theorem getLastD_eq (X : List Nat) (h : 1 ≤ X.length) : X.getLastD 0 = X.getD (X.length - 1) 0 := by
  cases X with
  | nil => simp at h
  | cons a r => simp [List.getLastD_eq_getLast?, List.getLast?_eq_getElem?, List.getD_eq_getElem?_getD]

/-- state of the bounds array after the item level and the first `m` node levels have been filled -/
def J (items : List (Int × Int)) (lo : List Nat) (m : Nat) (b : List Env) : Prop :=
  b.length = lo.getD (lo.length - 1) 0 + 1 ∧
  (∀ i, i < items.length →
    Env.containsPt (b.getD (i / 16) none) (items.getD i (0, 0)).1 (items.getD i (0, 0)).2 = true) ∧
  (∀ l, l < m → ∀ c, c < lo.getD (l + 1) 0 - lo.getD l 0 → ∀ x y,
    Env.containsPt (b.getD (lo.getD l 0 + c) none) x y = true →
    Env.containsPt (b.getD (lo.getD (l + 1) 0 + c / 16) none) x y = true)

theorem div_lt_ceil16 (a m : Nat) (h : a < m) : a / 16 < ceilDivisor m cap := div_lt_ceil a m h

theorem J_step (items : List (Int × Int)) (hn : 1 ≤ items.length) (lo : List Nat) (c : Chain items.length lo)
    (m : Nat) (hm : m < lo.length - 1) (b : List Env) (hJ : J items lo m b) : J items lo (m + 1) (fillLevelBounds lo (m + 1) b) := by
  obtain ⟨jl, jleaf, jnode⟩ := hJ
  have hlen := c.len
  have hpos := chain_sizes_pos _ lo c hn m hm
  have hmono1 := c.mono m hm
  have htop := chain_mono_trans _ lo c (lo.length - 1) (m + 1) (by omega) (by omega)
  have hcap : lo.getD (m + 1) 0 + ceilDivisor (lo.getD (m + 1) 0 - lo.getD m 0) cap ≤ b.length := by
    by_cases h2 : m < lo.length - 2
    · have s := c.step m h2
      have mm := c.mono (m + 1) (by omega)
      have tt := chain_mono_trans _ lo c (lo.length - 1) (m + 2) (by omega) (by omega)
      have e : m + 1 + 1 = m + 2 := rfl
      rw [e] at mm
      omega
    · have e : m = lo.length - 2 := by omega
      have l := c.last
      have e2 : lo.length - 1 = m + 1 := by omega
      rw [e2] at l jl htop; rw [← e] at l
      rw [l]
      have : ceilDivisor 1 cap = 1 := by decide
      rw [this]; omega
  unfold fillLevelBounds
  have e0 : m + 1 - 1 = m := by omega
  rw [e0]
  obtain ⟨s1, s2, s3⟩ := fillLevel_spec (lo.getD m 0) (lo.getD (m + 1) 0) hmono1 (b.length + 1) (lo.getD m 0) (lo.getD (m + 1) 0) 0 b
    (by omega) (by omega) (by omega) (by omega) hcap
  generalize fillLevelBoundsGo (lo.getD (m + 1) 0) (b.length + 1) (lo.getD m 0) (lo.getD (m + 1) 0) b = b' at s1 s2 s3
  have hfirst := c.first
  have hm1 := chain_mono_trans _ lo c (m + 1) 1 (by omega) (by omega)
  refine ⟨by rw [s1]; exact jl, ?_, ?_⟩
  · intro i hi
    have := div_lt_ceil16 i _ hi
    rw [s2 (i / 16) (by omega)]
    exact jleaf i hi
  · intro l hl cc hcc x y hxy
    by_cases hlm : l < m
    · have st := c.step l (by omega)
      have d := div_lt_ceil16 cc _ hcc
      have mo := c.mono l (by omega)
      have mo2 := c.mono (l + 1) (by omega)
      have e : l + 1 + 1 = l + 2 := rfl
      rw [e] at mo2
      have t1 := chain_mono_trans _ lo c (m + 1) (l + 2) (by omega) (by omega)
      have t2 := chain_mono_trans _ lo c (m + 1) (l + 1) (by omega) (by omega)
      rw [s2 _ (by omega)] at hxy
      rw [s2 _ (by omega)]
      exact jnode l hlm cc hcc x y hxy
    · have e : l = m := by omega
      subst e
      rw [s2 _ (by omega)] at hxy
      exact s3 cc (by omega) hcc x y hxy

theorem J_fold (items : List (Int × Int)) (hn : 1 ≤ items.length) (lo : List Nat) (c : Chain items.length lo) (b1 : List Env)
    (h0 : J items lo 0 b1) : ∀ m, m ≤ lo.length - 1 →
    J items lo m ((List.range m).foldl (fun b k => fillLevelBounds lo (k + 1) b) b1) := by
  intro m
  induction m with
  | zero => intro _; simpa using h0
  | succ m ih =>
    intro hm
    rw [List.range_succ, List.foldl_append]
    simp only [List.foldl_cons, List.foldl_nil]
    exact J_step items hn lo c m (by omega) _ (ih (by omega))

/-- **the tree as built is well-formed**, for every non-empty coordinate list -/
theorem wf_build (items : List (Int × Int)) (h : items ≠ []) : WF (build items) := by
  have hn : 1 ≤ items.length := by
    cases items with
    | nil => exact absurd rfl h
    | cons _ _ => simp
  refine ⟨shape_build items h, ?_⟩
  have c := chain_go (items.length + 1) items.length 0 hn (by omega)
  have hlo : computeLevelOffsets items.length = 0 :: levelOffsetsGo (items.length + 1) items.length 0 := rfl
  rw [← hlo] at c
  generalize hL : computeLevelOffsets items.length = lo at c
  have hlen := c.len
  -- the item level
  have hlast := getLastD_eq lo (by omega)
  have hfirst := c.first
  have hz : lo.getD 0 0 = 0 := by rw [← hL, hlo]; simp
  have htop := chain_mono_trans _ lo c (lo.length - 1) 1 (by omega) (by omega)
  obtain ⟨f1, _, f3⟩ := fillItem_spec items (items.length + 1) 0 0 (List.replicate (lo.getLastD 0 + 1) none) (by omega) (by omega) (by omega)
    (by simp only [List.length_replicate]; rw [hlast]; omega)
  have h0 : J items lo 0 (fillItemBoundsGo items (items.length + 1) 0 0 (List.replicate (lo.getLastD 0 + 1) none)) := by
    refine ⟨by rw [f1, List.length_replicate, hlast], ?_, ?_⟩
    · intro i hi; exact f3 i (by omega) hi
    · intro l hl; omega
  have hJ := J_fold items hn lo c _ h0 (lo.length - 1) (Nat.le_refl _)
  have hb : (build items).bounds = (List.range (lo.length - 1)).foldl (fun b k => fillLevelBounds lo (k + 1) b)
      (fillItemBoundsGo items (items.length + 1) 0 0 (List.replicate (lo.getLastD 0 + 1) none)) := by
    unfold build createBounds; simp only [hL]
  obtain ⟨_, jleaf, jnode⟩ := hJ
  have hlo2 : (build items).levelOffset = lo := by unfold build; simp only [hL]
  constructor
  · intro i hi _
    unfold bnd off item cap
    rw [hb, hlo2, hz]
    simp only [Nat.zero_add]
    exact jleaf i hi
  · intro l cc hl hcc x y hxy
    unfold bnd off at hxy ⊢
    unfold levelSize off at hcc
    rw [hlo2] at hl hcc hxy ⊢
    rw [hb] at hxy ⊢
    unfold cap
    exact jnode l (by omega) cc hcc x y hxy

end GeosModel.VSPR
