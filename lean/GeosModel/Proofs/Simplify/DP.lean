import GeosModel.Model.Simplify.DP
/-!
Lemmas about the Douglas–Peucker model: the mask formulation equals the list formulation, the scan loop
computes an upper bound of every distance it saw, and the recursion yields a *segment cover* of the input.
-/
namespace GeosModel.DP
variable {Pt D : Type}

/-- what the theorems need of `>` / `<=` on `D` (true of IEEE doubles without NaN, of `Int`, `Rat`, …) -/
structure OrdLaws (o : Ops Pt D) : Prop where
  le_refl : ∀ a, o.le a a = true
  le_trans : ∀ a b c, o.le a b = true → o.le b c = true → o.le a c = true
  not_gt_le : ∀ a b, o.gt a b = false → o.le a b = true
  gt_le : ∀ a b, o.gt a b = true → o.le b a = true

theorem dropLast_of_getLast? {α : Type} {l : List α} {b : α} (h : l.getLast? = some b) : l.dropLast ++ [b] = l := by
  obtain ⟨ys, rfl⟩ := List.getLast?_eq_some_iff.mp h
  simp

theorem getLast?_append_cons {α : Type} (l : List α) (b : α) (r : List α) :
    (l ++ b :: r).getLast? = (b :: r).getLast? := by
  rw [List.getLast?_append, List.getLast?_cons]; simp

/-! ### specification relations -/

/-- `Within P a mid b out`: `out` are the kept interior vertices of the section `a, mid…, b`, and every dropped
vertex `p` lying between consecutive kept vertices `x, y` (of `a :: out ++ [b]`) satisfies `P x y p`. -/
inductive Within (P : Pt → Pt → Pt → Prop) : Pt → List Pt → Pt → List Pt → Prop
  | flat (a : Pt) (mid : List Pt) (b : Pt) : (∀ p ∈ mid, P a b p) → Within P a mid b []
  | split (a : Pt) (l : List Pt) (m : Pt) (r : List Pt) (b : Pt) (o1 o2 : List Pt) :
      Within P a l m o1 → Within P m r b o2 → Within P a (l ++ m :: r) b (o1 ++ m :: o2)

/-- `SegCover P inp out`: `out` starts and ends where `inp` does, and `inp` is `out` with, between each two
consecutive output vertices `a, b`, a run `ds` of dropped vertices all satisfying `P a b ·`. -/
inductive SegCover (P : Pt → Pt → Pt → Prop) : List Pt → List Pt → Prop
  | last (b : Pt) : SegCover P [b] [b]
  | seg (a : Pt) (ds : List Pt) (b : Pt) (rest out : List Pt) :
      (∀ p ∈ ds, P a b p) → SegCover P (b :: rest) (b :: out) → SegCover P (a :: (ds ++ b :: rest)) (a :: b :: out)

theorem within_keep_all (P : Pt → Pt → Pt → Prop) : ∀ (mid : List Pt) (a b : Pt), Within P a mid b mid
  | [], a, b => Within.flat a [] b (by simp)
  | m :: r, a, b => by
    have h := Within.split a [] m r b [] r (Within.flat a [] m (by simp)) (within_keep_all P r m b)
    simpa using h

theorem within_to_segcover (P : Pt → Pt → Pt → Prop) {a : Pt} {mid : List Pt} {b : Pt} {o : List Pt}
    (h : Within P a mid b o) :
    ∀ (tl otl : List Pt), SegCover P (b :: tl) (b :: otl) → SegCover P (a :: (mid ++ b :: tl)) (a :: (o ++ b :: otl)) := by
  induction h with
  | flat a mid b hp => intro tl otl hs; exact SegCover.seg a mid b tl otl hp hs
  | split a l m r b o1 o2 _ _ ih1 ih2 =>
    intro tl otl hs
    have h2 := ih2 tl otl hs
    have h1 := ih1 (r ++ b :: tl) (o2 ++ b :: otl) h2
    simpa [List.append_assoc] using h1

theorem segcover_mono {P Q : Pt → Pt → Pt → Prop} (hpq : ∀ a b p, P a b p → Q a b p) {inp out : List Pt}
    (h : SegCover P inp out) : SegCover Q inp out := by
  induction h with
  | last b => exact SegCover.last b
  | seg a ds b rest out hp _ ih => exact SegCover.seg a ds b rest out (fun p hm => hpq _ _ _ (hp p hm)) ih

theorem segcover_sublist {P : Pt → Pt → Pt → Prop} {inp out : List Pt} (h : SegCover P inp out) : out.Sublist inp := by
  induction h with
  | last b => exact List.Sublist.refl _
  | seg a ds b rest out _ _ ih =>
    exact List.Sublist.cons_cons a (ih.trans (List.sublist_append_right ds (b :: rest)))

theorem segcover_head {P : Pt → Pt → Pt → Prop} {inp out : List Pt} (h : SegCover P inp out) : out.head? = inp.head? := by
  cases h <;> rfl

theorem segcover_getLast {P : Pt → Pt → Pt → Prop} {inp out : List Pt} (h : SegCover P inp out) :
    out.getLast? = inp.getLast? := by
  induction h with
  | last b => rfl
  | seg a ds b rest out _ _ ih =>
    rw [List.getLast?_cons_cons, ih]
    exact (getLast?_append_cons (a :: ds) b rest).symm

/-- consecutive pairs -/
def pairs : List Pt → List (Pt × Pt)
  | a :: b :: r => (a, b) :: pairs (b :: r)
  | _ => []

/-- the sentence of the property: every input vertex is an output vertex or satisfies `P` for some output segment -/
theorem segcover_mem {P : Pt → Pt → Pt → Prop} {inp out : List Pt} (h : SegCover P inp out) :
    ∀ p ∈ inp, p ∈ out ∨ ∃ s ∈ pairs out, P s.1 s.2 p := by
  induction h with
  | last b => intro p hp; exact Or.inl hp
  | seg a ds b rest out hp _ ih =>
    intro p hm
    simp only [List.mem_cons, List.mem_append] at hm
    rcases hm with rfl | hm | rfl | hm
    · exact Or.inl (by simp)
    · exact Or.inr ⟨(a, b), by simp [pairs], hp p hm⟩
    · exact Or.inl (by simp)
    · rcases ih p (by simp [hm]) with h1 | ⟨s, hs, hps⟩
      · exact Or.inl (List.mem_cons_of_mem _ h1)
      · exact Or.inr ⟨s, by simp [pairs, hs], hps⟩

/-! ### the scan loop -/

theorem scan_bound (o : Ops Pt D) (L : OrdLaws o) (a b : Pt) :
    ∀ (ps : List Pt) (k : Nat) (acc : D × Option Nat) (seen : List Pt),
      (∀ p ∈ seen, o.le (o.dist a b p) acc.1 = true) →
      ∀ p, (p ∈ seen ∨ p ∈ ps) → o.le (o.dist a b p) (scan o a b ps k acc).1 = true
  | [], _, acc, seen, hs => by
    intro p hp
    rcases hp with hp | hp
    · exact hs p hp
    · simp at hp
  | q :: ps, k, acc, seen, hs => by
    intro p hp
    simp only [scan]
    apply scan_bound o L a b ps (k + 1) _ (q :: seen)
    · intro x hx
      by_cases hg : o.gt (o.dist a b q) acc.1 = true
      · simp only [hg, if_true]
        rcases List.mem_cons.mp hx with rfl | hx
        · exact L.le_refl _
        · exact L.le_trans _ _ _ (hs x hx) (L.gt_le _ _ hg)
      · have hg' : o.gt (o.dist a b q) acc.1 = false := by simpa using hg
        simp only [hg', Bool.false_eq_true, if_false]
        rcases List.mem_cons.mp hx with rfl | hx
        · exact L.not_gt_le _ _ hg'
        · exact hs x hx
    · rcases hp with hp | hp
      · exact Or.inl (List.mem_cons_of_mem _ hp)
      · rcases List.mem_cons.mp hp with rfl | hp
        · exact Or.inl (by simp)
        · exact Or.inr hp

/-- after the loop `maxDistance` bounds the distance of every interior vertex -/
theorem farthest_bound (o : Ops Pt D) (L : OrdLaws o) (a b : Pt) (mid : List Pt) :
    ∀ p ∈ mid, o.le (o.dist a b p) (farthest o a b mid).1 = true := fun p hp =>
  scan_bound o L a b mid 0 (o.init, none) [] (by simp) p (Or.inr hp)

/-! ### the recursion -/

/-- whenever the code drops a whole section, `P` holds for each of its vertices ⇒ the result is `Within P` -/
theorem section_within (o : Ops Pt D) (tol : D) (P : Pt → Pt → Pt → Prop)
    (hdrop : ∀ a b mid, o.le (farthest o a b mid).1 tol = true → ∀ p ∈ mid, P a b p) :
    ∀ (fuel : Nat) (a : Pt) (mid : List Pt) (b : Pt), Within P a mid b (sect o tol fuel a mid b)
  | 0, a, mid, b => within_keep_all P mid a b
  | fuel + 1, a, [], b => by simpa [sect] using Within.flat a [] b (by simp)
  | fuel + 1, a, x :: xs, b => by
    simp only [sect]
    by_cases hle : o.le (farthest o a b (x :: xs)).1 tol = true
    · simp only [hle, if_true]
      exact Within.flat a _ b (hdrop a b _ hle)
    · simp only [hle, Bool.false_eq_true, if_false]
      cases hk : (farthest o a b (x :: xs)).2 with
      | none => exact within_keep_all P _ a b
      | some k =>
        simp only
        cases hd : (x :: xs).drop k with
        | nil => exact within_keep_all P _ a b
        | cons m rest =>
          simp only
          have hsplit : (x :: xs) = (x :: xs).take k ++ m :: rest := by
            rw [← hd, List.take_append_drop]
          have h := Within.split a ((x :: xs).take k) m rest b _ _
            (section_within o tol P hdrop fuel a ((x :: xs).take k) m)
            (section_within o tol P hdrop fuel m rest b)
          rw [← hsplit] at h
          exact h

theorem simplifyLine_segcover (o : Ops Pt D) (tol : D) (P : Pt → Pt → Pt → Prop)
    (hdrop : ∀ a b mid, o.le (farthest o a b mid).1 tol = true → ∀ p ∈ mid, P a b p)
    (pts : List Pt) (hne : pts ≠ []) : SegCover P pts (simplifyLine o tol pts) := by
  cases pts with
  | nil => exact absurd rfl hne
  | cons a rest =>
    simp only [simplifyLine]
    cases hl : rest.getLast? with
    | none =>
      have : rest = [] := by simpa using hl
      subst this
      exact SegCover.last a
    | some b =>
      simp only
      have hrest : rest.dropLast ++ [b] = rest := dropLast_of_getLast? hl
      have hw := section_within o tol P hdrop rest.length a rest.dropLast b
      have h := within_to_segcover P hw [] [] (SegCover.last b)
      rw [hrest] at h
      exact h

/-! ### mask formulation = list formulation -/

theorem sectionMask_length (o : Ops Pt D) (tol : D) :
    ∀ (fuel : Nat) (a : Pt) (mid : List Pt) (b : Pt), (sectionMask o tol fuel a mid b).length = mid.length
  | 0, a, mid, b => by simp [sectionMask]
  | fuel + 1, a, [], b => by simp [sectionMask]
  | fuel + 1, a, x :: xs, b => by
    simp only [sectionMask]
    split
    · simp
    · split
      · simp
      · rename_i k _
        split
        · simp
        · rename_i m rest hd
          have hsplit : (x :: xs) = (x :: xs).take k ++ m :: rest := by
            rw [← hd, List.take_append_drop]
          rw [List.length_append, List.length_cons, sectionMask_length o tol fuel, sectionMask_length o tol fuel]
          conv => rhs; rw [hsplit]
          simp

theorem applyMask_all_true : ∀ (l : List Pt), applyMask l (l.map fun _ => true) = l
  | [] => rfl
  | p :: ps => by simp [applyMask, applyMask_all_true ps]

theorem applyMask_all_false : ∀ (l : List Pt), applyMask l (l.map fun _ => false) = []
  | [] => rfl
  | p :: ps => by simp [applyMask, applyMask_all_false ps]

theorem applyMask_append : ∀ (l1 : List Pt) (m1 : List Bool) (l2 : List Pt) (m2 : List Bool),
    m1.length = l1.length → applyMask (l1 ++ l2) (m1 ++ m2) = applyMask l1 m1 ++ applyMask l2 m2
  | [], [], l2, m2, _ => by
    cases l2 <;> cases m2 <;> simp [applyMask]
  | [], _ :: _, _, _, h => by simp at h
  | _ :: _, [], _, _, h => by simp at h
  | p :: ps, u :: us, l2, m2, h => by
    have ih := applyMask_append ps us l2 m2 (by simpa using h)
    cases u <;> simp [applyMask, ih]

theorem applyMask_section (o : Ops Pt D) (tol : D) :
    ∀ (fuel : Nat) (a : Pt) (mid : List Pt) (b : Pt),
      applyMask mid (sectionMask o tol fuel a mid b) = sect o tol fuel a mid b
  | 0, a, mid, b => by simp [sectionMask, sect, applyMask_all_true]
  | fuel + 1, a, [], b => by simp [sect, applyMask]
  | fuel + 1, a, x :: xs, b => by
    simp only [sectionMask, sect]
    split
    · exact applyMask_all_false _
    · split
      · exact applyMask_all_true _
      · rename_i k _
        split
        · exact applyMask_all_true _
        · rename_i m rest hd
          have hsplit : (x :: xs) = (x :: xs).take k ++ m :: rest := by
            rw [← hd, List.take_append_drop]
          conv => lhs; arg 1; rw [hsplit]
          rw [applyMask_append _ _ _ _ (sectionMask_length o tol fuel a _ m)]
          simp [applyMask, applyMask_section o tol fuel]

theorem simplifyLineMask_eq (o : Ops Pt D) (tol : D) (pts : List Pt) :
    simplifyLineMask o tol pts = simplifyLine o tol pts := by
  cases pts with
  | nil => rfl
  | cons a rest =>
    simp only [simplifyLineMask, simplifyLine]
    cases hl : rest.getLast? with
    | none => rfl
    | some b =>
      simp only
      have hrest : rest.dropLast ++ [b] = rest := dropLast_of_getLast? hl
      simp only [applyMask, if_true]
      congr 1
      conv => lhs; arg 1; rw [← hrest]
      rw [applyMask_append _ _ _ _ (sectionMask_length o tol _ a _ b), applyMask_section]
      simp [applyMask]

/-! ### fuel: `mid.length + 1` is enough, more changes nothing -/

theorem sect_fuel_irrel (o : Ops Pt D) (tol : D) :
    ∀ (f1 f2 : Nat) (a : Pt) (mid : List Pt) (b : Pt), mid.length < f1 → mid.length < f2 →
      sect o tol f1 a mid b = sect o tol f2 a mid b
  | 0, _, _, _, _, h, _ => by omega
  | _ + 1, 0, _, _, _, _, h => by omega
  | n1 + 1, n2 + 1, a, [], b, _, _ => by simp [sect]
  | n1 + 1, n2 + 1, a, x :: xs, b, h1, h2 => by
    simp only [sect]
    split
    · rfl
    · split
      · rfl
      · rename_i k _
        split
        · rfl
        · rename_i m rest hd
          have hlen : ((x :: xs).drop k).length = rest.length + 1 := by rw [hd]; simp
          have hk : k < (x :: xs).length := by
            rw [List.length_drop] at hlen; omega
          have ht : ((x :: xs).take k).length < n1 ∧ ((x :: xs).take k).length < n2 := by
            rw [List.length_take]; omega
          have hr : rest.length < n1 ∧ rest.length < n2 := by
            rw [List.length_drop] at hlen; omega
          rw [sect_fuel_irrel o tol n1 n2 a _ m ht.1 ht.2, sect_fuel_irrel o tol n1 n2 m rest b hr.1 hr.2]

/-! ### the ring post-step -/

theorem pairs_append_singleton (z : Pt) : ∀ (l : List Pt) (q : Pt), l.getLast? = some q →
    pairs (l ++ [z]) = pairs l ++ [(q, z)]
  | [], _, h => by simp at h
  | [a], q, h => by
    have : a = q := by simpa using h
    subst this; simp [pairs]
  | a :: b :: r, q, h => by
    have ih := pairs_append_singleton z (b :: r) q (by simpa [List.getLast?_cons_cons] using h)
    simp only [List.cons_append] at ih ⊢
    simp only [pairs]
    rw [ih]
    simp

/-- shape of `coordList` when the post-step fires: `p0 :: core ++ [z]`, `core` from `p1` to `q` -/
theorem ring_shape (out : List Pt) (p0 p1 q : Pt) (t : List Pt) (hlen : 3 < out.length) (ho : out = p0 :: p1 :: t)
    (hq : out.dropLast.getLast? = some q) :
    ∃ core z, out = p0 :: (core ++ [z]) ∧ ringCore out = core ∧ core.head? = some p1 ∧ core.getLast? = some q := by
  subst ho
  have hne : (p1 :: t) ≠ [] := by simp
  refine ⟨(p1 :: t).dropLast, (p1 :: t).getLast hne, ?_, ?_, ?_, ?_⟩
  · rw [List.dropLast_concat_getLast]
  · simp [ringCore]
  · cases t with
    | nil => simp at hlen
    | cons t0 t' => simp
  · cases t with
    | nil => simp at hlen
    | cons t0 t' =>
      cases t' with
      | nil => simp at hlen
      | cons t1 t'' =>
        simp only [List.dropLast_cons_cons] at hq ⊢
        simpa [List.getLast?_cons_cons] using hq

end GeosModel.DP
