import GeosModel.Proofs.Simplify.DP
/-!
Idempotence of the Douglas–Peucker recursion on open lines: running it on its own output changes nothing.
Key fact: the scan loop returns the *first* vertex attaining the maximum distance; that vertex is kept, every
vertex before it is strictly nearer, so on the output (a subsequence containing it) the scan picks it again.
-/
namespace GeosModel.DP
variable {Pt D : Type}

/-- order laws plus compatibility of `>` with `<=` -/
structure OrdLaws2 (o : Ops Pt D) : Prop extends OrdLaws o where
  gt_of_gt_of_le : ∀ a b c, o.gt a b = true → o.le c b = true → o.gt a c = true

theorem scan_append (o : Ops Pt D) (a b : Pt) : ∀ (l1 l2 : List Pt) (k : Nat) (acc : D × Option Nat),
    scan o a b (l1 ++ l2) k acc = scan o a b l2 (k + l1.length) (scan o a b l1 k acc)
  | [], l2, k, acc => by simp [scan]
  | p :: ps, l2, k, acc => by
    simp only [List.cons_append, scan, List.length_cons]
    rw [scan_append o a b ps l2 (k + 1)]
    congr 1
    omega

theorem scan_noupdate (o : Ops Pt D) (a b : Pt) : ∀ (ps : List Pt) (k : Nat) (acc : D × Option Nat),
    (∀ p ∈ ps, o.gt (o.dist a b p) acc.1 = false) → scan o a b ps k acc = acc
  | [], _, _, _ => rfl
  | p :: ps, k, acc, h => by
    simp only [scan, h p (by simp), Bool.false_eq_true, if_false]
    exact scan_noupdate o a b ps (k + 1) acc (fun q hq => h q (List.mem_cons_of_mem _ hq))

theorem scan_value (o : Ops Pt D) (a b : Pt) : ∀ (ps : List Pt) (k : Nat) (acc : D × Option Nat),
    (scan o a b ps k acc).1 = acc.1 ∨ ∃ p ∈ ps, (scan o a b ps k acc).1 = o.dist a b p
  | [], _, _ => Or.inl rfl
  | q :: ps, k, acc => by
    simp only [scan]
    rcases scan_value o a b ps (k + 1) (if o.gt (o.dist a b q) acc.1 then (o.dist a b q, some k) else acc) with h | ⟨p, hp, h⟩
    · by_cases hg : o.gt (o.dist a b q) acc.1 = true
      · simp only [hg, if_true] at h ⊢
        exact Or.inr ⟨q, by simp, h⟩
      · simp only [hg, Bool.false_eq_true, if_false] at h ⊢
        exact Or.inl h
    · exact Or.inr ⟨p, List.mem_cons_of_mem _ hp, h⟩

theorem scan_mono (o : Ops Pt D) (L : OrdLaws o) (a b : Pt) : ∀ (ps : List Pt) (k : Nat) (acc : D × Option Nat),
    o.le acc.1 (scan o a b ps k acc).1 = true
  | [], _, acc => L.le_refl _
  | q :: ps, k, acc => by
    simp only [scan]
    by_cases hg : o.gt (o.dist a b q) acc.1 = true
    · simp only [hg, if_true]
      exact L.le_trans _ _ _ (L.gt_le _ _ hg) (scan_mono o L a b ps (k + 1) (o.dist a b q, some k))
    · simp only [hg, Bool.false_eq_true, if_false]
      exact scan_mono o L a b ps (k + 1) acc

theorem scan_index (o : Ops Pt D) (a b : Pt) : ∀ (ps : List Pt) (k : Nat) (acc : D × Option Nat),
    (scan o a b ps k acc).2 = acc.2 ∨ ∃ j, (scan o a b ps k acc).2 = some j ∧ k ≤ j
  | [], _, _ => Or.inl rfl
  | q :: ps, k, acc => by
    simp only [scan]
    rcases scan_index o a b ps (k + 1) (if o.gt (o.dist a b q) acc.1 then (o.dist a b q, some k) else acc) with h | ⟨j, h, hj⟩
    · by_cases hg : o.gt (o.dist a b q) acc.1 = true
      · simp only [hg, if_true] at h ⊢
        exact Or.inr ⟨k, h, Nat.le_refl _⟩
      · simp only [hg, Bool.false_eq_true, if_false] at h ⊢
        exact Or.inl h
    · exact Or.inr ⟨j, h, by omega⟩

/-- a final index older than the scanned range means nothing in the range exceeded the running maximum -/
theorem scan_stale (o : Ops Pt D) (a b : Pt) : ∀ (ps : List Pt) (k : Nat) (acc : D × Option Nat) (j : Nat),
    (scan o a b ps k acc).2 = some j → j < k →
    scan o a b ps k acc = acc ∧ ∀ p ∈ ps, o.gt (o.dist a b p) acc.1 = false
  | [], _, _, _, _, _ => ⟨rfl, by simp⟩
  | q :: ps, k, acc, j, h, hj => by
    simp only [scan] at h ⊢
    by_cases hg : o.gt (o.dist a b q) acc.1 = true
    · simp only [hg, if_true] at h
      rcases scan_index o a b ps (k + 1) (o.dist a b q, some k) with h' | ⟨j', h', hj'⟩
      · rw [h'] at h; simp at h; omega
      · rw [h'] at h; simp at h; omega
    · have hg' : o.gt (o.dist a b q) acc.1 = false := by simpa using hg
      simp only [hg', Bool.false_eq_true, if_false] at h ⊢
      obtain ⟨h1, h2⟩ := scan_stale o a b ps (k + 1) acc j h (by omega)
      refine ⟨h1, ?_⟩
      intro p hp
      rcases List.mem_cons.mp hp with rfl | hp
      · exact hg'
      · exact h2 p hp

/-- if the final index `j` lies in the scanned range, the list splits at `j` into `l ++ m :: r` where `m` exceeded
the running maximum of `l` and nothing in `r` exceeded `m` -/
theorem scan_last (o : Ops Pt D) (a b : Pt) : ∀ (ps : List Pt) (k : Nat) (acc : D × Option Nat) (j : Nat),
    (∀ i, acc.2 = some i → i < k) → (scan o a b ps k acc).2 = some j → k ≤ j →
    ∃ l m r, ps = l ++ m :: r ∧ j = k + l.length ∧ o.gt (o.dist a b m) (scan o a b l k acc).1 = true ∧
      (∀ p ∈ r, o.gt (o.dist a b p) (o.dist a b m) = false) ∧ (scan o a b ps k acc).1 = o.dist a b m
  | [], k, acc, j, hacc, h, hj => by
    simp only [scan] at h
    have := hacc j h
    omega
  | q :: ps, k, acc, j, hacc, h, hj => by
    by_cases hjk : k + 1 ≤ j
    · -- the last update is inside `ps`
      have hacc' : ∀ i, (if o.gt (o.dist a b q) acc.1 then (o.dist a b q, some k) else acc).2 = some i → i < k + 1 := by
        intro i hi
        by_cases hg : o.gt (o.dist a b q) acc.1 = true
        · simp only [hg, if_true, Option.some.injEq] at hi; omega
        · simp only [hg, Bool.false_eq_true, if_false] at hi
          have := hacc i hi; omega
      simp only [scan] at h
      obtain ⟨l, m, r, h1, h2, h3, h4, h5⟩ := scan_last o a b ps (k + 1) _ j hacc' h hjk
      refine ⟨q :: l, m, r, by simp [h1], by simp; omega, ?_, h4, ?_⟩
      · simpa [scan] using h3
      · simpa [scan] using h5
    · -- the last update is `q` itself
      have hjeq : j = k := by omega
      subst hjeq
      simp only [scan] at h
      by_cases hg : o.gt (o.dist a b q) acc.1 = true
      · simp only [hg, if_true] at h
        obtain ⟨h1, h2⟩ := scan_stale o a b ps (j + 1) (o.dist a b q, some j) j h (by omega)
        refine ⟨[], q, ps, rfl, by simp, by simpa [scan] using hg, h2, ?_⟩
        simp only [scan, hg, if_true, h1]
      · simp only [hg, Bool.false_eq_true, if_false] at h
        rcases scan_index o a b ps (j + 1) acc with h' | ⟨j', h', hj'⟩
        · rw [h'] at h
          have := hacc j h
          omega
        · rw [h'] at h; simp at h; omega

theorem within_sublist {P : Pt → Pt → Pt → Prop} {a b : Pt} {mid out : List Pt} (h : Within P a mid b out) :
    out.Sublist mid := by
  induction h with
  | flat a mid b _ => exact List.nil_sublist _
  | split a l m r b o1 o2 _ _ ih1 ih2 => exact List.Sublist.append ih1 (List.Sublist.cons_cons m ih2)

theorem sect_sublist (o : Ops Pt D) (tol : D) (fuel : Nat) (a : Pt) (mid : List Pt) (b : Pt) :
    (sect o tol fuel a mid b).Sublist mid :=
  within_sublist (section_within o tol (fun _ _ _ => True) (fun _ _ _ _ _ _ => trivial) fuel a mid b)

/-- second run of the scan on `l' ++ m :: r'` where `m` beats everything the scan can have seen in `l'` and nothing in
`r'` beats `m` -/
theorem scan_pick (o : Ops Pt D) (a b : Pt) (l' : List Pt) (m : Pt) (r' : List Pt) (acc : D × Option Nat)
    (h1 : o.gt (o.dist a b m) (scan o a b l' 0 acc).1 = true)
    (h2 : ∀ p ∈ r', o.gt (o.dist a b p) (o.dist a b m) = false) :
    scan o a b (l' ++ m :: r') 0 acc = (o.dist a b m, some l'.length) := by
  rw [scan_append]
  simp only [scan, Nat.zero_add, h1, if_true]
  exact scan_noupdate o a b r' _ _ h2

theorem sect_idem (o : Ops Pt D) (L : OrdLaws2 o) (tol : D) :
    ∀ (fuel : Nat) (a : Pt) (mid : List Pt) (b : Pt), mid.length < fuel →
      ∀ fuel', (sect o tol fuel a mid b).length < fuel' →
        sect o tol fuel' a (sect o tol fuel a mid b) b = sect o tol fuel a mid b
  | 0, _, _, _, h, _, _ => by omega
  | n + 1, a, [], b, _, fuel', _ => by
    cases fuel' <;> simp [sect]
  | n + 1, a, x :: xs, b, hf, fuel', hf' => by
    -- unfold the first run
    have hfirst : sect o tol (n + 1) a (x :: xs) b =
        (if o.le (farthest o a b (x :: xs)).1 tol then []
         else match (farthest o a b (x :: xs)).2 with
           | none => x :: xs
           | some k => match (x :: xs).drop k with
             | [] => x :: xs
             | m :: rest => sect o tol n a ((x :: xs).take k) m ++ m :: sect o tol n m rest b) := by
      simp only [sect]
      rfl
    -- a run on an unchanged non-empty section with enough fuel repeats the same branch
    have hsame : ∀ (f : Nat), (x :: xs).length < f → sect o tol f a (x :: xs) b = sect o tol (n + 1) a (x :: xs) b :=
      fun f hfl => sect_fuel_irrel o tol f (n + 1) a (x :: xs) b hfl hf
    by_cases hle : o.le (farthest o a b (x :: xs)).1 tol = true
    · have : sect o tol (n + 1) a (x :: xs) b = [] := by rw [hfirst]; simp [hle]
      rw [this]
      cases fuel' <;> simp [sect]
    · cases hk : (farthest o a b (x :: xs)).2 with
      | none =>
        have h0 : sect o tol (n + 1) a (x :: xs) b = x :: xs := by rw [hfirst]; simp [hle, hk]
        rw [h0] at hf' ⊢
        rw [hsame fuel' hf', h0]
      | some k =>
        cases hd : (x :: xs).drop k with
        | nil =>
          have h0 : sect o tol (n + 1) a (x :: xs) b = x :: xs := by rw [hfirst]; simp [hle, hk, hd]
          rw [h0] at hf' ⊢
          rw [hsame fuel' hf', h0]
        | cons m rest =>
          have h0 : sect o tol (n + 1) a (x :: xs) b =
              sect o tol n a ((x :: xs).take k) m ++ m :: sect o tol n m rest b := by
            rw [hfirst]; simp [hle, hk, hd]
          -- what the first scan tells us
          have hsplit : (x :: xs) = (x :: xs).take k ++ m :: rest := by rw [← hd, List.take_append_drop]
          obtain ⟨l, m', r, e1, e2, e3, e4, e5⟩ :=
            scan_last o a b (x :: xs) 0 (o.init, none) k (by simp) (by simpa [farthest] using hk) (Nat.zero_le _)
          have hkl : k = l.length := by omega
          have hl : (x :: xs).take k = l := by rw [e1, hkl]; simp
          have hmr : m' :: r = m :: rest := by
            rw [← hd, e1, hkl]; simp
          have hm : m' = m := by injection hmr
          have hr : r = rest := by injection hmr
          subst hm; subst hr
          rw [hl] at h0
          -- lengths / fuel
          have hlen : (x :: xs).length = l.length + 1 + r.length := by rw [e1]; simp; omega
          have hln : l.length < n := by simp only [List.length_cons] at hf hlen; omega
          have hrn : r.length < n := by simp only [List.length_cons] at hf hlen; omega
          generalize ho1 : sect o tol n a l m' = o1 at h0
          generalize ho2 : sect o tol n m' r b = o2 at h0
          have hs1 : o1.Sublist l := by rw [← ho1]; exact sect_sublist o tol n a l m'
          have hs2 : o2.Sublist r := by rw [← ho2]; exact sect_sublist o tol n m' r b
          rw [h0] at hf' ⊢
          -- the second scan picks `m'` again
          have hv1 : ∀ c, (c = o.init ∨ ∃ p ∈ l, c = o.dist a b p) → o.le c (scan o a b l 0 (o.init, none)).1 = true := by
            intro c hc
            rcases hc with rfl | ⟨p, hp, rfl⟩
            · exact scan_mono o L.toOrdLaws a b l 0 (o.init, none)
            · exact scan_bound o L.toOrdLaws a b l 0 (o.init, none) [] (by simp) p (Or.inr hp)
          have hpick1 : o.gt (o.dist a b m') (scan o a b o1 0 (o.init, none)).1 = true := by
            apply L.gt_of_gt_of_le _ _ _ e3
            apply hv1
            rcases scan_value o a b o1 0 (o.init, none) with h | ⟨p, hp, h⟩
            · exact Or.inl h
            · exact Or.inr ⟨p, hs1.subset hp, h⟩
          have hpick : farthest o a b (o1 ++ m' :: o2) = (o.dist a b m', some o1.length) :=
            scan_pick o a b o1 m' o2 (o.init, none) hpick1 (fun p hp => e4 p (hs2.subset hp))
          have hmax : (farthest o a b (x :: xs)).1 = o.dist a b m' := by simpa [farthest] using e5
          -- unfold the second run
          cases fuel' with
          | zero => simp at hf'
          | succ n' =>
            have hne : o1 ++ m' :: o2 ≠ [] := by simp
            have hsecond : sect o tol (n' + 1) a (o1 ++ m' :: o2) b =
                sect o tol n' a o1 m' ++ m' :: sect o tol n' m' o2 b := by
              cases hcons : o1 ++ m' :: o2 with
              | nil => exact absurd hcons hne
              | cons y ys =>
                simp only [sect]
                rw [← hcons, hpick]
                have hle' : o.le (o.dist a b m') tol = false := by
                  rw [← hmax]; simpa using hle
                simp [hle']
            rw [hsecond]
            have hlen' : (o1 ++ m' :: o2).length = o1.length + 1 + o2.length := by simp; omega
            have i1 := sect_idem o L tol n a l m' hln n' (by rw [ho1]; omega)
            have i2 := sect_idem o L tol n m' r b hrn n' (by rw [ho2]; omega)
            rw [ho1] at i1
            rw [ho2] at i2
            rw [i1, i2]

/-- **idempotence** for open lines -/
theorem simplifyLine_idem (o : Ops Pt D) (L : OrdLaws2 o) (tol : D) (pts : List Pt) :
    simplifyLine o tol (simplifyLine o tol pts) = simplifyLine o tol pts := by
  cases pts with
  | nil => rfl
  | cons a rest =>
    cases hl : rest.getLast? with
    | none =>
      have : rest = [] := by simpa using hl
      subst this
      rfl
    | some b =>
      have h1 : simplifyLine o tol (a :: rest) = a :: (sect o tol rest.length a rest.dropLast b ++ [b]) := by
        simp [simplifyLine, hl]
      rw [h1]
      generalize hs : sect o tol rest.length a rest.dropLast b = s
      have hlast : (s ++ [b]).getLast? = some b := by simp
      have hdl : (s ++ [b]).dropLast = s := by simp
      have hrest : rest.dropLast ++ [b] = rest := dropLast_of_getLast? hl
      have hlen : rest.dropLast.length < rest.length := by
        have := congrArg List.length hrest
        rw [List.length_append, List.length_singleton] at this; omega
      simp only [simplifyLine, hlast, hdl]
      have := sect_idem o L tol rest.length a rest.dropLast b hlen (s ++ [b]).length (by rw [hs]; simp)
      rw [hs] at this
      rw [this]

end GeosModel.DP
