import GeosModel.Model.Simplify.Jump
import GeosModel.Proofs.Kernel.RayCountCorrect
/-! Lemmas about the model of `ComponentJumpChecker` (Model/Simplify/Jump.lean). -/
namespace GeosModel.Jump
open GeosModel.Kernel GeosModel.RayCount

/-- component `c` is one that makes `hasJump` answer `true`: another component, its point in the box of the section,
crossing parities of section and flattening segment differ -/
def Jumps (self : Nat) (env : Env) (sect : List Seg) (seg : Seg) (c : Nat × Pt) : Prop :=
  c.1 ≠ self ∧ Env.containsPt env c.2.x c.2.y = true ∧ hasJumpAtComponent c.2 sect seg = true

theorem hasJumpLoop_iff (self : Nat) (env : Env) (sect : List Seg) (seg : Seg) (comps : List (Nat × Pt)) :
    hasJumpLoop self env sect seg comps = true ↔ ∃ c ∈ comps, Jumps self env sect seg c := by
  induction comps with
  | nil => simp [hasJumpLoop]
  | cons c r ih =>
    obtain ⟨i, p⟩ := c
    by_cases h1 : i = self
    · simp [hasJumpLoop, h1, ih, Jumps]
    · by_cases h2 : Env.containsPt env p.x p.y = true
      · by_cases h3 : hasJumpAtComponent p sect seg = true
        · simp [hasJumpLoop, h1, h2, h3, Jumps]
        · simp [hasJumpLoop, h1, h2, h3, ih, Jumps]
      · simp [hasJumpLoop, h1, h2, ih, Jumps]

theorem hasJumpLoop_perm (self : Nat) (env : Env) (sect : List Seg) (seg : Seg) (c1 c2 : List (Nat × Pt))
    (h : c1.Perm c2) : hasJumpLoop self env sect seg c1 = hasJumpLoop self env sect seg c2 := by
  rw [Bool.eq_iff_iff, hasJumpLoop_iff, hasJumpLoop_iff]
  constructor
  · rintro ⟨c, hc, hj⟩; exact ⟨c, h.mem_iff.1 hc, hj⟩
  · rintro ⟨c, hc, hj⟩; exact ⟨c, h.mem_iff.2 hc, hj⟩

theorem hasJumpLoop_append (self : Nat) (env : Env) (sect : List Seg) (seg : Seg) (c1 c2 : List (Nat × Pt)) :
    hasJumpLoop self env sect seg (c1 ++ c2) = (hasJumpLoop self env sect seg c1 || hasJumpLoop self env sect seg c2) := by
  rw [Bool.eq_iff_iff]
  simp only [Bool.or_eq_true, hasJumpLoop_iff, List.mem_append]
  constructor
  · rintro ⟨c, hc | hc, hj⟩
    · exact Or.inl ⟨c, hc, hj⟩
    · exact Or.inr ⟨c, hc, hj⟩
  · rintro (⟨c, hc, hj⟩ | ⟨c, hc, hj⟩)
    · exact ⟨c, Or.inl hc, hj⟩
    · exact ⟨c, Or.inr hc, hj⟩

theorem hasJumpAtComponent_self (p : Pt) (seg : Seg) : hasJumpAtComponent p [seg] seg = false := by
  simp [hasJumpAtComponent]

/-! ### what the parity test means: the component point is inside the closed curve "section + flattening segment" -/

theorem countSegs_count (p : Pt) : ∀ (segs : List Seg) (st : RCC),
    (countSegs p st segs).count = st.count + (segs.map (fun e => segInc p e.1 e.2)).sum
  | [], st => by simp [countSegs]
  | e :: r, st => by
    simp only [countSegs, List.map_cons, List.sum_cons]
    rw [countSegs_count p r, countSegment_eq]
    simp only; omega

theorem crossingCount_eq (p : Pt) (segs : List Seg) (h : segs.any (fun e => segOn p e.1 e.2) = false) :
    crossingCount p segs = (segs.filter (fun e => crosses p e.1 e.2)).length := by
  unfold crossingCount
  rw [countSegs_count, sum_segInc p segs h]
  simp [RCC.init]

theorem det_swap (a b p : Pt) : det b a p = - det a b p := by unfold det; ring

theorem crosses_swap (p a b : Pt) : crosses p b a = crosses p a b := by
  unfold crosses
  rw [det_swap]
  generalize det a b p = d
  by_cases h1 : a.y ≤ p.y <;> by_cases h2 : p.y < b.y <;> by_cases h3 : b.y ≤ p.y <;> by_cases h4 : p.y < a.y <;>
    simp [h1, h2, h3, h4] <;> omega

theorem onSegment_swap (a b p : Pt) : onSegment b a p = onSegment a b p := by
  unfold onSegment inBox
  have h0 : (-det a b p == 0) = (det a b p == 0) := by
    generalize det a b p = d
    rw [Bool.eq_iff_iff]; simp
  rw [det_swap, Int.min_comm b.x, Int.max_comm b.x, Int.min_comm b.y, Int.max_comm b.y, h0]

theorem edges_append_singleton : ∀ (vs : List Pt) (b a : Pt), vs.getLast? = some b → edges (vs ++ [a]) = edges vs ++ [(b, a)]
  | [], _, _, h => by simp at h
  | [x], b, a, h => by
    have : x = b := by simpa using h
    subst this; simp [edges]
  | x :: y :: r, b, a, h => by
    have h' : (y :: r).getLast? = some b := by simpa [List.getLast?_cons_cons] using h
    have ih := edges_append_singleton (y :: r) b a h'
    simp only [List.cons_append, edges] at ih ⊢
    rw [ih]

/-- **meaning of `hasJumpAtComponent`**: for a component point that lies on none of the segments involved, the parities of the
crossing counts of the section `vs` (from `a` to `b`) and of the flattening segment `(a, b)` differ exactly when the point lies
inside the closed curve formed by the section and the flattening segment (even–odd rule, `Kernel.locateInRing`) — flattening would
move the component to the other side of the line -/
theorem hasJumpAtComponent_iff_inside (p : Pt) (vs : List Pt) (a b : Pt) (hb : vs.getLast? = some b)
    (hoff : ∀ e ∈ edges (vs ++ [a]), onSegment e.1 e.2 p = false) :
    hasJumpAtComponent p (edges vs) (a, b) = decide (locateInRing p (vs ++ [a]) = Loc.interior) := by
  have hE := edges_append_singleton vs b a hb
  have hoffS : (edges vs).any (fun e => segOn p e.1 e.2) = false := by
    rw [List.any_eq_false]
    intro e he hs
    have := hoff e (by rw [hE]; simp [he])
    rw [segOn_sound p e.1 e.2 hs] at this
    exact absurd this (by simp)
  have hba : onSegment b a p = false := hoff (b, a) (by rw [hE]; simp)
  have hab : onSegment a b p = false := by rw [← onSegment_swap]; exact hba
  have hoffG : [(a, b)].any (fun e => segOn p e.1 e.2) = false := by
    simp only [List.any_cons, List.any_nil, Bool.or_false]
    cases hs : segOn p a b with
    | false => rfl
    | true => rw [segOn_sound p a b hs] at hab; exact absurd hab (by simp)
  have hnb : (edges (vs ++ [a])).any (fun e => onSegment e.1 e.2 p) = false := by
    rw [List.any_eq_false]
    intro e he; simp [hoff e he]
  unfold hasJumpAtComponent locateInRing
  rw [crossingCount_eq p _ hoffS, crossingCount_eq p _ hoffG]
  simp only [hnb, Bool.false_eq_true, if_false]
  rw [hE, List.filter_append, List.length_append]
  simp only [List.filter_cons, List.filter_nil]
  rw [crosses_swap p a b]
  generalize ((edges vs).filter fun e => crosses p e.1 e.2).length = S
  cases crosses p a b <;> simp
  · rcases Nat.mod_two_eq_zero_or_one S with h | h <;> simp [h]
  · rcases Nat.mod_two_eq_zero_or_one S with h | h <;> simp [h] <;> omega

end GeosModel.Jump
