/-
`GTree`: the abstract geometry value shared by the WKB / WKT / GeoJSON / normalisation / API models.
Ordinates are IEEE-754 bit patterns (`UInt64`), so "bit-identical" is plain equality.
A coordinate always carries four slots; slots a sequence does not have (`hasZ`/`hasM` false) hold
`nanBits`, the value GEOS hands out for a missing ordinate (`DoubleNotANumber`).
Core Lean only.
-/
namespace GeosModel

/-- quiet NaN, `std::numeric_limits<double>::quiet_NaN()` -/
def nanBits : UInt64 := 0x7ff8000000000000

structure Coord where
  x : UInt64
  y : UInt64
  z : UInt64 := nanBits
  m : UInt64 := nanBits
deriving DecidableEq, Repr, Inhabited

/-- a `CoordinateSequence` with its dimension flags -/
structure CSeq where
  hasZ : Bool
  hasM : Bool
  pts : List Coord
deriving DecidableEq, Repr, Inhabited

/-- the 13 geometry classes.  `polygon` always has a shell (possibly the empty ring, which still carries
its flags, exactly like `geos::geom::Polygon`); `curvePolygon []` is the empty curve polygon. -/
inductive G where
  | point (s : CSeq)                       -- 0 or 1 coordinate
  | lineString (s : CSeq)
  | linearRing (s : CSeq)
  | circularString (s : CSeq)
  | polygon (shell : CSeq) (holes : List CSeq)
  | compoundCurve (sections : List G)      -- lineString / circularString
  | curvePolygon (rings : List G)          -- linearRing / lineString / circularString / compoundCurve
  | multiPoint (gs : List G)
  | multiLineString (gs : List G)
  | multiPolygon (gs : List G)
  | multiCurve (gs : List G)
  | multiSurface (gs : List G)
  | collection (gs : List G)
deriving Repr, Inhabited

/-- a geometry handed over the API: tree + SRID of the top-level object -/
structure Geom where
  srid : Int
  g : G
deriving Repr, Inhabited

/-- GEOS type ids (`GEOSGeomTypes`) -/
def G.typeId : G → Nat
  | .point _ => 0 | .lineString _ => 1 | .linearRing _ => 2 | .polygon _ _ => 3
  | .multiPoint _ => 4 | .multiLineString _ => 5 | .multiPolygon _ => 6 | .collection _ => 7
  | .circularString _ => 8 | .compoundCurve _ => 9 | .curvePolygon _ => 10
  | .multiCurve _ => 11 | .multiSurface _ => 12

/-- a coordinate is canonical for its flags when absent slots hold `nanBits` -/
def Coord.canon (hasZ hasM : Bool) (c : Coord) : Bool :=
  (hasZ || c.z == nanBits) && (hasM || c.m == nanBits)

def CSeq.canon (s : CSeq) : Bool := s.pts.all (Coord.canon s.hasZ s.hasM)

def CSeq.isEmpty (s : CSeq) : Bool := s.pts.isEmpty

/-- first and last point have equal X and Y (the test `LineString::isClosed` / `LinearRing` uses: 2D equality of doubles,
so it is *value* equality: −0 = +0, NaN ≠ NaN — modelled on bits by the harness-visible cases only) -/
def Coord.eqXYbits (a b : Coord) : Bool := a.x == b.x && a.y == b.y

end GeosModel
