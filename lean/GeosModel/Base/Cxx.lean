/-!
# `Cxx` — the arithmetic interface of regenerated C++ code

`translate/cxx2lean.py` turns small C++ functions into Lean `do` blocks, statement by statement.  A C++ `double`
becomes an abstract carrier `R`; every operator the C++ applies to doubles becomes an operation of one of the classes
below, so that the *same* regenerated definition can be

* instantiated with `Int` or `Rat` (exact arithmetic) and proved equal to the hand-written model the property theorems
  are about (`Props/CxxGen.lean`), and
* instantiated with `Float` (the hardware double) and *run* by a driver against the compiled C++ on the same inputs,
  which checks the translator itself.

The hierarchy is graded so that a function using only comparisons can be instantiated with any ordered carrier:
`Ord` (comparisons) ⊂ `Ring` (+ − × unary − |·| and integer literals) ⊂ `Field` (÷ and decimal literals) ⊂ `Math`
(`sqrt floor ceil trunc isnan isfinite`).  `std::min` / `std::max` are *defined* here exactly as the C++ standard
defines them (`min(a,b) = (b < a) ? b : a`, `max(a,b) = (a < b) ? b : a`), so their NaN behaviour is inherited from `lt`.

C++ `int` is translated to `Int` (signed overflow is undefined behaviour in C++; the regenerated code describes the
executions without overflow).  Integer `/` and `%` are `Int.tdiv` / `Int.tmod` (truncation toward zero).
Core Lean only.
-/
namespace GeosModel.Cxx

class Ord (R : Type) where
  lt : R → R → Bool
  le : R → R → Bool
  eq : R → R → Bool

class Ring (R : Type) extends Ord R where
  add : R → R → R
  sub : R → R → R
  mul : R → R → R
  neg : R → R
  abs : R → R
  ofInt : Int → R

class Field (R : Type) extends Ring R where
  div : R → R → R
  /-- the decimal literal `m × 10^e` -/
  ofDec : Int → Int → R

class Math (R : Type) extends Field R where
  sqrt : R → R
  floor : R → R
  ceil : R → R
  /-- `static_cast<int>(x)` / `(int) x`: truncation toward zero -/
  toInt : R → Int
  isNaN : R → Bool
  isFinite : R → Bool

/-- `a > b`, `a >= b`, `a != b` as the C++ operators on doubles -/
@[inline] def gt {R} [Ord R] (a b : R) : Bool := Ord.lt b a
@[inline] def ge {R} [Ord R] (a b : R) : Bool := Ord.le b a
@[inline] def ne {R} [Ord R] (a b : R) : Bool := !Ord.eq a b

/-- `std::min(a, b)`: `(b < a) ? b : a` -/
@[inline] def min {R} [Ord R] (a b : R) : R := if Ord.lt b a then b else a
/-- `std::max(a, b)`: `(a < b) ? b : a` -/
@[inline] def max {R} [Ord R] (a b : R) : R := if Ord.lt a b then b else a

/-- `geom::CoordinateXY` as regenerated code sees it -/
structure XY (R : Type) where
  x : R
  y : R
deriving Repr, BEq, DecidableEq

/-! ### instances -/

instance : Ring Int where
  lt a b := decide (a < b)
  le a b := decide (a ≤ b)
  eq a b := a == b
  add := (· + ·)
  sub := (· - ·)
  mul := (· * ·)
  neg := (- ·)
  abs a := (a.natAbs : Int)
  ofInt := id

/-- ten to an integer power as a rational -/
def pow10 (e : Int) : Rat := if e ≥ 0 then ((10 : Rat) ^ e.toNat) else 1 / ((10 : Rat) ^ (-e).toNat)

instance : Field Rat where
  lt a b := decide (a < b)
  le a b := decide (a ≤ b)
  eq a b := a == b
  add := (· + ·)
  sub := (· - ·)
  mul := (· * ·)
  neg := (- ·)
  abs a := if a < 0 then -a else a
  ofInt i := (i : Rat)
  div := (· / ·)
  ofDec m e := (m : Rat) * pow10 e

/-- hardware doubles: the operators of C++ on `double` (IEEE-754, round to nearest even); decimal literals are
converted as the C++ compiler does, by correct rounding of the decimal value (`Float.ofScientific`). -/
instance : Math Float where
  lt a b := a < b
  le a b := a ≤ b
  eq a b := a == b
  add := (· + ·)
  sub := (· - ·)
  mul := (· * ·)
  neg := (- ·)
  abs := Float.abs
  ofInt i := Float.ofInt i
  div := (· / ·)
  ofDec m e :=
    let v := if e ≥ 0 then Float.ofScientific m.natAbs false e.toNat else Float.ofScientific m.natAbs true (-e).toNat
    if m < 0 then -v else v
  sqrt := Float.sqrt
  floor := Float.floor
  ceil := Float.ceil
  toInt x := if x < 0 then - ((-x).floor.toUInt64.toNat : Int) else (x.floor.toUInt64.toNat : Int)
  isNaN := Float.isNaN
  isFinite := Float.isFinite

/-! ### unfolding lemmas for the exact instances (so that `simp` turns regenerated code into plain arithmetic) -/

@[simp] theorem int_lt (a b : Int) : Ord.lt a b = decide (a < b) := rfl
@[simp] theorem int_le (a b : Int) : Ord.le a b = decide (a ≤ b) := rfl
@[simp] theorem int_eq (a b : Int) : Ord.eq a b = (a == b) := rfl
@[simp] theorem int_add (a b : Int) : Ring.add a b = a + b := rfl
@[simp] theorem int_sub (a b : Int) : Ring.sub a b = a - b := rfl
@[simp] theorem int_mul (a b : Int) : Ring.mul a b = a * b := rfl
@[simp] theorem int_neg (a : Int) : Ring.neg a = -a := rfl
@[simp] theorem int_abs (a : Int) : Ring.abs a = (a.natAbs : Int) := rfl
@[simp] theorem int_ofInt (a : Int) : (Ring.ofInt a : Int) = a := rfl

@[simp] theorem rat_lt (a b : Rat) : Ord.lt a b = decide (a < b) := rfl
@[simp] theorem rat_le (a b : Rat) : Ord.le a b = decide (a ≤ b) := rfl
@[simp] theorem rat_eq (a b : Rat) : Ord.eq a b = (a == b) := rfl
@[simp] theorem rat_add (a b : Rat) : Ring.add a b = a + b := rfl
@[simp] theorem rat_sub (a b : Rat) : Ring.sub a b = a - b := rfl
@[simp] theorem rat_mul (a b : Rat) : Ring.mul a b = a * b := rfl
@[simp] theorem rat_neg (a : Rat) : Ring.neg a = -a := rfl
@[simp] theorem rat_div (a b : Rat) : Field.div a b = a / b := rfl
@[simp] theorem rat_ofInt (a : Int) : (Ring.ofInt a : Rat) = (a : Rat) := rfl

/-! ### `Id.run` through the control flow of regenerated `do` blocks -/

@[simp] theorem run_ite {α} (c : Prop) [Decidable c] (a b : Id α) :
    (if c then a else b).run = if c then a.run else b.run := by split <;> rfl

@[simp] theorem run_dite {α} (c : Prop) [Decidable c] (a : c → Id α) (b : ¬c → Id α) :
    (if h : c then a h else b h).run = if h : c then (a h).run else (b h).run := by split <;> rfl

end GeosModel.Cxx
