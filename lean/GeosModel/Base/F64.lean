/-
binary64 as data.  `decode` splits a bit pattern into sign / exponent / mantissa; finite values are exact
dyadic rationals `m * 2^e`.  `scaleAll` brings a list of finite doubles to integers over one common
power of two, so exact predicates can run over `Int`.  Core Lean only.
-/
namespace GeosModel.F64

inductive Val where
  | nan
  | inf (neg : Bool)
  | fin (neg : Bool) (m : Nat) (e : Int)   -- value = (-1)^neg * m * 2^e
deriving Repr, DecidableEq

def decode (u : UInt64) : Val :=
  let neg := (u >>> 63) == 1
  let ex := ((u >>> 52) &&& 0x7ff).toNat
  let fr := (u &&& 0x000fffffffffffff).toNat
  if ex == 0x7ff then (if fr == 0 then .inf neg else .nan)
  else if ex == 0 then .fin neg fr (-1074)
  else .fin neg (fr + 2 ^ 52) ((ex : Int) - 1075)

def isFinite (u : UInt64) : Bool := match decode u with | .fin .. => true | _ => false
def isNaN (u : UInt64) : Bool := match decode u with | .nan => true | _ => false

/-- signed mantissa and exponent of a finite double -/
def dyadic (u : UInt64) : Option (Int × Int) :=
  match decode u with
  | .fin neg m e => some (if neg then -(m : Int) else (m : Int), e)
  | _ => none

/-- order-preserving integer image of a non-NaN double (−0 and +0 coincide) -/
def key (u : UInt64) : Int :=
  if u >>> 63 == 1 then -(((u &&& 0x7fffffffffffffff).toNat : Nat) : Int) else ((u.toNat : Nat) : Int)

/-- the least exponent among non-zero values (0 if all are zero) -/
def minExp (ds : List (Int × Int)) : Int :=
  ds.foldl (fun acc d => if d.1 == 0 then acc else match acc with
    | none => some d.2
    | some a => some (min a d.2)) (none : Option Int) |>.getD 0

/-- integer value of `m * 2^e / 2^e0` for `e ≥ e0` -/
def scaleTo (e0 : Int) (d : Int × Int) : Int :=
  if d.1 == 0 then 0 else d.1 * (2 : Int) ^ (d.2 - e0).toNat

/-- all values as integers in units of `2^e0`; `none` if any is not finite -/
def scaleAll (us : List UInt64) : Option (Int × List Int) := do
  let ds ← us.mapM dyadic
  let e0 := minExp ds
  some (e0, ds.map (scaleTo e0))

end GeosModel.F64
