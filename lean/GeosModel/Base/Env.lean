/-
Envelopes as `geos::geom::Envelope` implements them (include/geos/geom/Envelope.h): four ordinates, the
null envelope being "all NaN", for which every comparison is false.  Ordinates are modelled by an
integer key: any order-preserving image of the (non-NaN) doubles, e.g. `F64.key` of the bit pattern, so
`≤` on keys *is* `std::islessequal` on the doubles.  Core Lean only.
-/
namespace GeosModel

structure Box where
  minx : Int
  maxx : Int
  miny : Int
  maxy : Int
deriving Repr, DecidableEq, BEq

/-- `none` = null envelope -/
abbrev Env := Option Box

namespace Env

/-- `Envelope::intersects(const Envelope*)` -/
def inter : Env → Env → Bool
  | some a, some o => decide (o.minx ≤ a.maxx) && decide (o.maxx ≥ a.minx) &&
                      decide (o.miny ≤ a.maxy) && decide (o.maxy ≥ a.miny)
  | _, _ => false

/-- `Envelope::expandToInclude(const Envelope*)` (returns the new value of `*this`) -/
def union : Env → Env → Env
  | none, o => o
  | some a, none => some a
  | some a, some o => some { minx := if o.minx < a.minx then o.minx else a.minx
                             maxx := if o.maxx > a.maxx then o.maxx else a.maxx
                             miny := if o.miny < a.miny then o.miny else a.miny
                             maxy := if o.maxy > a.maxy then o.maxy else a.maxy }

def isNull : Env → Bool
  | none => true
  | some _ => false

/-- `Envelope::covers(const Envelope*)` -/
def covers : Env → Env → Bool
  | some a, some o => decide (o.minx ≥ a.minx) && decide (o.maxx ≤ a.maxx) &&
                      decide (o.miny ≥ a.miny) && decide (o.maxy ≤ a.maxy)
  | _, _ => false

/-- point membership (closed box) -/
def containsPt : Env → Int → Int → Bool
  | some a, x, y => decide (a.minx ≤ x) && decide (x ≤ a.maxx) && decide (a.miny ≤ y) && decide (y ≤ a.maxy)
  | none, _, _ => false

end Env
end GeosModel
