/-
Exact planar predicates over `Int` points (a grid, or doubles scaled to a common power of two).
These are *specifications*: the simplest correct definitions.  Core Lean only.
-/
namespace GeosModel.Kernel

structure Pt where
  x : Int
  y : Int
deriving DecidableEq, Repr, Inhabited, BEq

/-- twice the signed area of triangle (a,b,c): > 0 iff c is to the left of a→b (counter-clockwise) -/
def det (a b c : Pt) : Int := (b.x - a.x) * (c.y - a.y) - (b.y - a.y) * (c.x - a.x)

/-- orientation index: 1 = counter-clockwise / left, -1 = clockwise / right, 0 = collinear -/
def orient (a b c : Pt) : Int := (det a b c).sign

def dot (a b c : Pt) : Int := (b.x - a.x) * (c.x - a.x) + (b.y - a.y) * (c.y - a.y)

/-- p lies in the closed bounding box of segment (a,b) -/
def inBox (a b p : Pt) : Bool :=
  decide (min a.x b.x ≤ p.x) && decide (p.x ≤ max a.x b.x) && decide (min a.y b.y ≤ p.y) && decide (p.y ≤ max a.y b.y)

/-- p lies on the closed segment (a,b) -/
def onSegment (a b p : Pt) : Bool := det a b p == 0 && inBox a b p

def sqDist (a b : Pt) : Int := (a.x - b.x) * (a.x - b.x) + (a.y - b.y) * (a.y - b.y)

/-- how two closed segments meet -/
inductive SegRel where
  | disjoint
  | point (proper : Bool)      -- exactly one common point; proper = interior to both
  | overlap                    -- a common sub-segment of positive length
deriving DecidableEq, Repr

/-- classification of the intersection of closed segments (p1,p2) and (q1,q2) (either may be degenerate) -/
def segRel (p1 p2 q1 q2 : Pt) : SegRel :=
  let d1 := orient p1 p2 q1
  let d2 := orient p1 p2 q2
  let d3 := orient q1 q2 p1
  let d4 := orient q1 q2 p2
  if d1 * d2 < 0 && d3 * d4 < 0 then .point true
  else if d1 == 0 && d2 == 0 && d3 == 0 && d4 == 0 then
    -- all four collinear (or a degenerate segment): count shared extent
    let on := [onSegment p1 p2 q1, onSegment p1 p2 q2, onSegment q1 q2 p1, onSegment q1 q2 p2]
    if !on.any id then .disjoint
    else
      -- common points among endpoints
      let cands := ([q1, q2].filter (onSegment p1 p2)) ++ ([p1, p2].filter (onSegment q1 q2))
      let distinct := cands.eraseDups
      if distinct.length ≥ 2 then .overlap else .point false
  else if (d1 == 0 && onSegment p1 p2 q1) || (d2 == 0 && onSegment p1 p2 q2) ||
          (d3 == 0 && onSegment q1 q2 p1) || (d4 == 0 && onSegment q1 q2 p2) then .point false
  else .disjoint

/-- location classes -/
inductive Loc where
  | interior | boundary | exterior
deriving DecidableEq, Repr

/-- consecutive pairs of a vertex list -/
def edges : List Pt → List (Pt × Pt)
  | a :: b :: r => (a, b) :: edges (b :: r)
  | _ => []

/-- crossing-number contribution of edge (a,b) for the ray from p towards +x, half-open rule:
counts edges with exactly one endpoint strictly above p.y whose crossing is strictly right of p -/
def crosses (p a b : Pt) : Bool :=
  let up := decide (a.y ≤ p.y) && decide (p.y < b.y)
  let down := decide (b.y ≤ p.y) && decide (p.y < a.y)
  if up then decide (det a b p > 0) else if down then decide (det a b p < 0) else false

/-- location of p relative to a closed ring (first point = last point), even–odd rule -/
def locateInRing (p : Pt) (ring : List Pt) : Loc :=
  let es := edges ring
  if es.any (fun e => onSegment e.1 e.2 p) then .boundary
  else if (es.filter (fun e => crosses p e.1 e.2)).length % 2 == 1 then .interior else .exterior

/-- twice the signed area of a closed ring (shoelace) -/
def area2 (ring : List Pt) : Int :=
  (edges ring).foldl (fun acc e => acc + (e.1.x * e.2.y - e.2.x * e.1.y)) 0

/-- location in a polygon given as shell :: holes (each a closed ring) -/
def locateInPolygon (p : Pt) (rings : List (List Pt)) : Loc :=
  match rings with
  | [] => .exterior
  | shell :: holes =>
    match locateInRing p shell with
    | .exterior => .exterior
    | .boundary => .boundary
    | .interior =>
      if holes.any (fun h => locateInRing p h == .boundary) then .boundary
      else if holes.any (fun h => locateInRing p h == .interior) then .exterior
      else .interior

/-- sign of the in-circle determinant: > 0 iff d is strictly inside the circle through a,b,c (a,b,c counter-clockwise) -/
def inCircleDet (a b c d : Pt) : Int :=
  let ax := a.x - d.x; let ay := a.y - d.y
  let bx := b.x - d.x; let by' := b.y - d.y
  let cx := c.x - d.x; let cy := c.y - d.y
  (ax * ax + ay * ay) * (bx * cy - by' * cx)
  - (bx * bx + by' * by') * (ax * cy - ay * cx)
  + (cx * cx + cy * cy) * (ax * by' - ay * bx)

end GeosModel.Kernel
