/-
DE-9IM matrices as `geos::geom::IntersectionMatrix` implements them (src/geom/IntersectionMatrix.cpp).
Dimension values are the code's ints: F = −1, P = 0, L = 1, A = 2.  Core Lean only.
-/
namespace GeosModel

inductive Loc3 where
  | I | B | E
deriving DecidableEq, Repr, Inhabited

namespace Dim
def F : Int := -1
def P : Int := 0
def L : Int := 1
def A : Int := 2
end Dim

/-- the nine entries, row = location in A, column = location in B -/
structure IM where
  ii : Int
  ib : Int
  ie : Int
  bi : Int
  bb : Int
  be : Int
  ei : Int
  eb : Int
  ee : Int
deriving DecidableEq, Repr, Inhabited

namespace IM

def allF : IM := ⟨-1, -1, -1, -1, -1, -1, -1, -1, -1⟩

def get (m : IM) : Loc3 → Loc3 → Int
  | .I, .I => m.ii | .I, .B => m.ib | .I, .E => m.ie
  | .B, .I => m.bi | .B, .B => m.bb | .B, .E => m.be
  | .E, .I => m.ei | .E, .B => m.eb | .E, .E => m.ee

def set (m : IM) (a b : Loc3) (v : Int) : IM :=
  match a, b with
  | .I, .I => { m with ii := v } | .I, .B => { m with ib := v } | .I, .E => { m with ie := v }
  | .B, .I => { m with bi := v } | .B, .B => { m with bb := v } | .B, .E => { m with be := v }
  | .E, .I => { m with ei := v } | .E, .B => { m with eb := v } | .E, .E => { m with ee := v }

/-- `setAtLeast`-style update used by the relate engines: entries only grow -/
def raise (m : IM) (a b : Loc3) (v : Int) : IM := if v > m.get a b then m.set a b v else m

def transpose (m : IM) : IM := ⟨m.ii, m.bi, m.ei, m.ib, m.bb, m.eb, m.ie, m.be, m.ee⟩

/-- entrywise ≤ -/
def le (m n : IM) : Prop :=
  m.ii ≤ n.ii ∧ m.ib ≤ n.ib ∧ m.ie ≤ n.ie ∧ m.bi ≤ n.bi ∧ m.bb ≤ n.bb ∧ m.be ≤ n.be ∧
  m.ei ≤ n.ei ∧ m.eb ≤ n.eb ∧ m.ee ≤ n.ee

/-- every entry is one of F, 0, 1, 2 -/
def valid (m : IM) : Prop :=
  (-1 ≤ m.ii ∧ m.ii ≤ 2) ∧ (-1 ≤ m.ib ∧ m.ib ≤ 2) ∧ (-1 ≤ m.ie ∧ m.ie ≤ 2) ∧
  (-1 ≤ m.bi ∧ m.bi ≤ 2) ∧ (-1 ≤ m.bb ∧ m.bb ≤ 2) ∧ (-1 ≤ m.be ∧ m.be ≤ 2) ∧
  (-1 ≤ m.ei ∧ m.ei ≤ 2) ∧ (-1 ≤ m.eb ∧ m.eb ≤ 2) ∧ (-1 ≤ m.ee ∧ m.ee ≤ 2)

/-- `IntersectionMatrix::matches(int actualDimensionValue, char requiredDimensionSymbol)`;
(`Dimension::True` = −2 never occurs as an actual value) -/
def matchesSym (v : Int) (c : Char) : Bool :=
  if c == '*' then true
  else if c == 'T' && (v ≥ 0 || v == -2) then true
  else if c == 'F' && v == -1 then true
  else if c == '0' && v == 0 then true
  else if c == '1' && v == 1 then true
  else if c == '2' && v == 2 then true
  else false

def entries (m : IM) : List Int := [m.ii, m.ib, m.ie, m.bi, m.bb, m.be, m.ei, m.eb, m.ee]

/-- `IntersectionMatrix::matches(const std::string&)` for a 9-character pattern -/
def matchesPat (m : IM) (pat : List Char) : Bool :=
  pat.length == 9 && (List.zipWith matchesSym m.entries pat).all id

def T (v : Int) : Bool := matchesSym v 'T'

def isDisjoint (m : IM) : Bool := m.ii == -1 && m.ib == -1 && m.bi == -1 && m.bb == -1
def isIntersects (m : IM) : Bool := !m.isDisjoint

def isTouches (m : IM) (dA dB : Int) : Bool :=
  let (a, b) := if dA > dB then (dB, dA) else (dA, dB)
  if (a == 2 && b == 2) || (a == 1 && b == 1) || (a == 1 && b == 2) || (a == 0 && b == 2) || (a == 0 && b == 1) then
    m.ii == -1 && (T m.ib || T m.bi || T m.bb)
  else false

def isCrosses (m : IM) (dA dB : Int) : Bool :=
  if (dA == 0 && dB == 1) || (dA == 0 && dB == 2) || (dA == 1 && dB == 2) then T m.ii && T m.ie
  else if (dA == 1 && dB == 0) || (dA == 2 && dB == 0) || (dA == 2 && dB == 1) then T m.ii && T m.ei
  else if dA == 1 && dB == 1 then m.ii == 0
  else false

def isWithin (m : IM) : Bool := T m.ii && m.ie == -1 && m.be == -1
def isContains (m : IM) : Bool := T m.ii && m.ei == -1 && m.eb == -1

def isEquals (m : IM) (dA dB : Int) : Bool :=
  if dA != dB then false
  else T m.ii && m.ei == -1 && m.ie == -1 && m.eb == -1 && m.be == -1

def isOverlaps (m : IM) (dA dB : Int) : Bool :=
  if (dA == 0 && dB == 0) || (dA == 2 && dB == 2) then T m.ii && T m.ie && T m.ei
  else if dA == 1 && dB == 1 then m.ii == 1 && T m.ie && T m.ei
  else false

def hasPointInCommon (m : IM) : Bool := T m.ii || T m.ib || T m.bi || T m.bb
def isCovers (m : IM) : Bool := m.hasPointInCommon && m.ei == -1 && m.eb == -1
def isCoveredBy (m : IM) : Bool := m.hasPointInCommon && m.ie == -1 && m.be == -1

def dimChar (v : Int) : Char := if v == -1 then 'F' else if v == 0 then '0' else if v == 1 then '1' else if v == 2 then '2' else '?'
def toStr (m : IM) : String := String.ofList (m.entries.map dimChar)

end IM
end GeosModel
