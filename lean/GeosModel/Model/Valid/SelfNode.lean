import GeosModel.Model.Valid.PairRule
import GeosModel.Model.Valid.RingNested
/-!
# Self-touch bookkeeping of `IsValidOp` in the self-touching-ring mode, over `Int`, branch by branch

Sources: /repo/src/operation/valid/PolygonIntersectionAnalyzer.cpp (`findInvalidIntersection`: the place where
`addSelfTouch` is called), /repo/src/operation/valid/PolygonRing.cpp (`addSelfTouch`, `findInteriorSelfNode`, the static
`findInteriorSelfNode(polyRings)`), /repo/src/operation/valid/PolygonRingSelfNode.cpp (`isExterior`).

With `isInvertedRingValid` (GEOSVALID_ALLOW_SELFTOUCHING_RING_FORMING_HOLE) a ring may touch itself.  Every pair of
non-adjacent segments of ONE ring string that meets in a single non-proper point which is the end vertex of neither
segment and where the two passes do not cross is RECORDED (`PolygonRing::addSelfTouch`: `selfNodes.emplace_back`, no
filtering whatsoever: a ring that passes `k` times through a node records one entry per pair of passes presented).
After the noding, `PolygonRing::findInteriorSelfNode` looks at EVERY recorded entry and reports the first one whose second
pass leaves into the interior side of the first pass (`PolygonRingSelfNode::isExterior` is false): such a self-touch cuts
a part of the interior off (a lobe attached only at the node), which is the one thing the flag does not permit.

`PolygonNodeTopology::isInteriorSegment` and `Orientation::isCCWArea` are the models of Model/Valid (tied by their own
streams and translator specs).  Core Lean only.
-/
namespace GeosModel.Valid
open GeosModel.Kernel

/-- `PolygonRingSelfNode`: the node and the three edge ends `isExterior` reads (`e11` is stored but unused) -/
structure SelfNode where
  nodePt : Pt
  e00 : Pt
  e01 : Pt
  e10 : Pt
  e11 : Pt
deriving Repr, Inhabited, DecidableEq

/-- the arguments of the `addSelfTouch` call `findInvalidIntersection(ss0, i0, ss1, i1)` makes, if it makes one
(same control flow as `findInvalidIntersection` in Model/Valid/PairRule.lean; `none` = no call) -/
def selfTouchOf (flag : Bool) (s t : RSeg) : Option SelfNode :=
  match segRel s.p s.q t.p t.q with
  | .disjoint => none
  | .point true => none
  | .overlap => none
  | .point false =>
    let isSameSegString := s.rid == t.rid
    let isAdjacentSegments := isSameSegString && isAdjacentInRing s.m s.k t.k
    if isAdjacentSegments then none
    else if isSameSegString && !flag then none
    else
      match meetPts s t with
      | [intPt] =>
        if intPt == s.q || intPt == t.q then none
        else
          let e00 := if intPt == s.p then s.prev else s.p
          let e01 := s.q
          let e10 := if intPt == t.p then t.prev else t.p
          let e11 := t.q
          if isCrossing intPt e00 e01 e10 e11 then none
          else if isSameSegString && flag then some ⟨intPt, e00, e01, e10, e11⟩
          else none
      | _ => none

/-- `PolygonRingSelfNode::isExterior(isInteriorOnRight)` -/
def SelfNode.isExterior (n : SelfNode) (isInteriorOnRight : Bool) : Bool :=
  let bIsInteriorSeg := isInteriorSegment n.nodePt n.e00 n.e01 n.e10
  if isInteriorOnRight then !bIsInteriorSeg else bIsInteriorSeg

/-- the state of one `PolygonRing` that the self-touch check reads: shell or hole, the ring's points (as stored in the
`LinearRing`, repeated points included — `isCCWArea` reads those) and the recorded self nodes in recording order -/
structure RingState where
  isShell : Bool
  pts : List Pt
  selfNodes : List SelfNode := []
deriving Repr, Inhabited

/-- `PolygonRing::addSelfTouch`: append, unconditionally -/
def RingState.addSelfTouch (r : RingState) (n : SelfNode) : RingState := { r with selfNodes := r.selfNodes ++ [n] }

/-- `isInteriorOnRight = isShell() ^ isCCWArea(ring)` -/
def RingState.isInteriorOnRight (r : RingState) : Bool := r.isShell != isCCWArea r.pts

/-- `PolygonRing::findInteriorSelfNode()` (member): the node of the first recorded entry that is not exterior -/
def RingState.findInteriorSelfNode (r : RingState) : Option Pt :=
  if r.selfNodes.isEmpty then none
  else (r.selfNodes.find? fun n => !n.isExterior r.isInteriorOnRight).map (·.nodePt)

/-- the static `PolygonRing::findInteriorSelfNode(polyRings)`: the first ring that has one -/
def findInteriorSelfNodeOf : List RingState → Option Pt
  | [] => none
  | r :: rs => match r.findInteriorSelfNode with
    | some p => some p
    | none => findInteriorSelfNodeOf rs

/-! ### the analyzer with its self-touch bookkeeping, for the segment pairs of ONE ring string -/

/-- the analyzer's recorded code together with the ring's recorded self nodes -/
structure SelfState where
  code : Option Nat := none
  selfNodes : List SelfNode := []
deriving Repr, Inhabited

/-- `PolygonIntersectionAnalyzer::processIntersections` on two segments of one ring string, with the bookkeeping:
a segment is not tested with itself; otherwise the pair's code overwrites the recorded one if it is invalid, and the
self-touch (if `findInvalidIntersection` reaches the call) is appended to the ring's list -/
def processSelf (flag : Bool) (st : SelfState) (s t : RSeg) : SelfState :=
  if s.rid == t.rid && s.k == t.k then st
  else
    { code := match findInvalidIntersection flag s t with
        | some c => some c
        | none => st.code
      selfNodes := match selfTouchOf flag s t with
        | some n => st.selfNodes ++ [n]
        | none => st.selfNodes }

/-- the analyzer after a sequence of pairs, in the order the noder presents them -/
def processAllSelf (flag : Bool) (pairs : List (RSeg × RSeg)) : SelfState :=
  pairs.foldl (fun st p => processSelf flag st p.1 p.2) {}

/-- what `IsValidOp` concludes for one ring (shell or hole) from the pairs it was shown, in the self-touching-ring mode:
the recorded code and the interior self node -/
def selfTouchVerdict (isShell : Bool) (ring : List Pt) (pairs : List (RSeg × RSeg)) : Option Nat × Option Pt :=
  let st := processAllSelf true pairs
  (st.code, ({ isShell := isShell, pts := ring, selfNodes := st.selfNodes } : RingState).findInteriorSelfNode)

end GeosModel.Valid
